import RbV.Gen.SrcFasta
import RbV.Model.Fasta
import RbV.Model.FastxStream
import RbV.Lemmas.FastxStream
/-!
# The translated `bio::io::fasta` writer, reader and `Records` iterator (`RbV/Gen/SrcFasta.lean`) against the mirror models (C11)

The generated definitions know the byte sink only through `write_all` and the `BufRead` only through `read_line`; strings
are byte lists, `trim_end` and `splitn(2, char::is_whitespace)` are abstract operations.  Here they are instantiated:

* `writeAllOp`: `write_all` appends to a byte list and never fails (trusted reading of `io::Write` on a sink without errors);
* `readLineOp c sched`: `read_line` of the `BufReader` mirror (`Model/FastxStream.lean` `readLineStr`: capacity `c`, read
  schedule `sched`): appends the next line — up to and including the LF, over any chunk schedule — after validating it as
  UTF-8; on invalid UTF-8 the bytes are consumed, the string is left as it was, and the call returns `InvalidData`;
* `trimEndU`, `splitWsU`: `str::trim_end` and `splitn(2, char::is_whitespace)` on UTF-8 bytes (`Model/UniWs.lean`).
-/
set_option linter.unusedSimpArgs false
set_option linter.unusedVariables false
namespace RbV.Thm.GenSrcFasta
open RbV RbV.Rs RbV.Fastx RbV.BufLines

/-- `io::Write::write_all` on a sink that never fails: append -/
@[reducible] def writeAllOp (w : Bytes) (b : Bytes) : Except IoErr Unit × Bytes := (.ok (), w ++ b)

/-! ## Writer -/

/-- `write_record_header` appends `>id[ desc]\n` -/
theorem writeRecordHeader_eq_model (w id : Bytes) (desc : Option Bytes) :
    Gen.SrcFasta.writeRecordHeader writeAllOp w id desc = Res.ok (.ok (), w ++ faHeaderBytes id desc) := by
  cases desc <;> simp [Gen.SrcFasta.writeRecordHeader, faHeaderBytes]

theorem chunksGo_eq (n : Nat) (hn : 0 < n) : ∀ (fuel : Nat) (l : Bytes), l.length ≤ fuel → Rs.chunksGo n fuel l = Fastx.chunks n l := by
  intro fuel
  induction fuel with
  | zero =>
    intro l hl
    have : l = [] := List.length_eq_zero_iff.mp (by omega)
    subst this
    rw [Fastx.chunks]; simp [Rs.chunksGo]
  | succ f ih =>
    intro l hl
    cases l with
    | nil => rw [Fastx.chunks]; simp [Rs.chunksGo]
    | cons b r =>
      have h0 : ¬ (n = 0 ∨ b :: r = []) := by simp; omega
      rw [Fastx.chunks, dif_neg h0]
      simp only [Rs.chunksGo, List.isEmpty_cons, Bool.false_eq_true, if_false]
      rw [ih]
      simp only [List.length_drop, List.length_cons] at hl ⊢
      omega

/-- **`Writer::write`** appends exactly the model writer's bytes, for every record and every wrap `≥ 1` (`None`: one
line).  `Some(0)` is outside the domain (the pinned code panics in `chunks(0)`).  The proof knows two shapes of the line loop
and tries them in turn (identifiers of the other shape do not exist; `first` catches that): (a) the pinned
`chunks(w).try_for_each(closure)` = helper `write_each1`; (b) a `for` loop over the chunks that writes each line through a
private helper method found in the source (`write_sequence_line`: line + LF) = helpers `write_for1`, `writeSequenceLine` —
the refactoring of seeded C11-H2. -/
theorem write_eq_model (w id : Bytes) (desc : Option Bytes) (seq : Bytes) (wrap : Option Nat)
    (hw : ∀ n, wrap = some n → 1 ≤ n) :
    Gen.SrcFasta.write writeAllOp w wrap id desc seq =
      Res.ok (.ok (), w ++ writeFastaRec wrap { id := id, desc := desc, seq := seq }) := by
  have hchunks : ∀ n, 1 ≤ n → Rs.chunks seq n = Res.ok (Fastx.chunks n seq) := by
    intro n hn
    rw [Rs.chunks_ok (by omega), chunksGo_eq n (by omega) _ _ (Nat.le_refl _)]
  first
  | -- (a) `try_for_each`
    (have each : ∀ (cs : List Bytes) (w : Bytes),
          Gen.SrcFasta.write_each1 writeAllOp cs w = Res.ok (.ok (), w ++ cs.flatMap (· ++ [10])) := by
        intro cs
        induction cs with
        | nil => intro w; simp [Gen.SrcFasta.write_each1]
        | cons c cs ih => intro w; simp [Gen.SrcFasta.write_each1, ih]
     cases wrap with
     | none => simp [Gen.SrcFasta.write, writeRecordHeader_eq_model, writeFastaRec]
     | some n =>
       have hn := hw n rfl
       simp [Gen.SrcFasta.write, writeRecordHeader_eq_model, writeFastaRec, Rs.expect, hchunks n hn, each])
  | -- (b) `for` loop + line helper
    (have hl : ∀ (w : Bytes) (lw : Option Nat) (line : Bytes),
          Gen.SrcFasta.writeSequenceLine writeAllOp w lw line = Res.ok (.ok (), w ++ line ++ [10]) := by
        intro w lw line; simp [Gen.SrcFasta.writeSequenceLine]
     have hf : ∀ (lw : Option Nat) (cs : List Bytes) (w : Bytes),
          Gen.SrcFasta.write_for1 writeAllOp lw cs w = Res.ok (.next (w ++ cs.flatMap (· ++ [10]))) := by
        intro lw cs
        induction cs with
        | nil => intro w; simp [Gen.SrcFasta.write_for1]
        | cons c cs ih => intro w; simp [Gen.SrcFasta.write_for1, hl, ih]
     cases wrap with
     | none => simp [Gen.SrcFasta.write, writeRecordHeader_eq_model, writeFastaRec, hl]
     | some n =>
       have hn := hw n rfl
       have hpos : 0 < n := by omega
       have hne : n ≠ 0 := by omega
       simp [Gen.SrcFasta.write, writeRecordHeader_eq_model, writeFastaRec, Rs.expect, hchunks n hn, hf, hl, hpos, hne])

/-- **`Writer::write_record`** = `write` on the record's accessors `id()`, `desc()`, `seq()` (all translated) -/
theorem writeRecord_eq_model (w : Bytes) (r : FaRec) (wrap : Option Nat) (hw : ∀ n, wrap = some n → 1 ≤ n) :
    Gen.SrcFasta.writeRecord writeAllOp w wrap r.id r.desc r.seq = Res.ok (.ok (), w ++ writeFastaRec wrap r) := by
  cases r with
  | mk i d sq =>
    have h := write_eq_model w i d sq wrap hw
    cases d <;>
      simp [Gen.SrcFasta.writeRecord, Gen.SrcFasta.recordId, Gen.SrcFasta.recordDesc, Gen.SrcFasta.recordSeq] at h ⊢ <;>
      simp [h]

/-- **constructors**: `Reader::from_bufread` starts with an empty look-ahead line, `Reader::records` with the error flag
cleared (the initial state of `fasta_records_source_eq_model`), `Writer::from_bufwriter` without line wrap, `set_linewrap`
stores its argument -/
theorem ctors_eq {ρ ω : Type} (b : ρ) (l : Bytes) (w : ω) (lw lw' : Option Nat) :
    Gen.SrcFasta.readerFromBufread b = Res.ok (b, []) ∧
    Gen.SrcFasta.readerRecords b l = Res.ok ((b, l), false) ∧
    Gen.SrcFasta.writerFromBufwriter w = Res.ok (w, none) ∧
    Gen.SrcFasta.writerSetLinewrap lw lw' = Res.ok ((), lw') := by
  simp [Gen.SrcFasta.readerFromBufread, Gen.SrcFasta.readerRecords, Gen.SrcFasta.writerFromBufwriter,
    Gen.SrcFasta.writerSetLinewrap]

/-! ## Reader -/

/-- the error `read_line` returns for a line that is not valid UTF-8 -/
def invalidData : IoErr := ⟨"InvalidData", "stream did not contain valid UTF-8"⟩
/-- the error of `Reader::read` for a record that does not start with `>` -/
def expectedGt : IoErr := ⟨"Other", "Expected > at record start."⟩

/-- `BufRead::read_line(&mut s)` on the `BufReader` mirror: the next line is appended to `s` and its length returned; a line
that is not valid UTF-8 is consumed, `s` stays as it was, the call fails with `InvalidData` -/
def readLineOp (c : Nat) (sched : Nat → Nat) (rd : St) (s : Bytes) : Except IoErr Nat × St × Bytes :=
  match readLineStr c sched rd with
  | (some l, rd') => (.ok l.length, rd', s ++ l)
  | (none, rd') => (.error invalidData, rd', s)

theorem startsWithByte_eq (l : Bytes) (c : Nat) : Rs.startsWithByte l c = startsWith l c := rfl

/-- in valid UTF-8 no character starts with a continuation byte -/
theorem validUtf8_head (x : Nat) (r : Bytes) (h : validUtf8 (x :: r) = true) : ¬ (128 ≤ x ∧ x < 192) := by
  intro ⟨h1, h2⟩
  have n1 : ¬ x < 128 := by omega
  have n2 : ¬ 194 ≤ x := by omega
  have n3 : ¬ x = 224 := by omega
  have n4 : ¬ 225 ≤ x := by omega
  have n5 : ¬ x = 238 := by omega
  have n6 : ¬ x = 239 := by omega
  have n7 : ¬ x = 237 := by omega
  have n8 : ¬ x = 240 := by omega
  have n9 : ¬ 241 ≤ x := by omega
  have n10 : ¬ x = 244 := by omega
  rcases r with _ | ⟨b1, _ | ⟨b2, _ | ⟨b3, r3⟩⟩⟩ <;> simp [validUtf8, n1, n2, n3, n4, n5, n6, n7, n8, n9, n10] at h

/-- `&line[1..]` of a valid line that starts with an ASCII byte -/
theorem strFrom_one (l : Bytes) (c : Nat) (hc : c < 128) (hv : validUtf8 l = true) (hs : startsWith l c = true) :
    Rs.strFrom l 1 = Res.ok l.tail := by
  cases l with
  | nil => simp [startsWith] at hs
  | cons b r =>
    have hb : b = c := by simpa [startsWith] using hs
    subst hb
    have hv' : validUtf8 r = true := by
      unfold validUtf8 at hv
      simpa [hc] using hv
    apply Rs.strFrom_one_ascii
    intro x hx
    cases r with
    | nil => cases hx
    | cons y r' =>
      simp only [List.head?_cons, Option.some.injEq] at hx
      subst hx
      exact validUtf8_head _ _ hv'

/-- outcome of the line loop of `read` against the mirror `faLoop` -/
def LoopPost (id : Bytes) (desc : Option Bytes) (m : Option (Bytes × Bytes) × St)
    (x : Res (Flow (Except IoErr Unit × St × Bytes × Bytes × Option Bytes × Bytes) (St × Bytes × Bytes))) : Prop :=
  match m with
  | (none, rd') => ∃ sq, x = Res.ok (.ret (.error invalidData, rd', [], id, desc, sq))
  | (some (seq', l), rd') => x = Res.ok (.next (rd', l, seq'))

/-- the sequence-line loop of `Reader::read` = `faLoop` (fuel: more than the number of pending bytes) -/
theorem loop_eq (T : Txt) (sw : Bytes → Bytes × Option Bytes) (c : Nat) (sched : Nat → Nat) (id : Bytes) (desc : Option Bytes)
    (rd : St) (seq : Bytes) :
    ∀ (gas : Nat) (line : Bytes), rd.pending.length < gas →
      LoopPost id desc (faLoop T c sched rd seq)
        (Gen.SrcFasta.read_loop1 (readLineOp c sched) T.trim sw id desc gas rd line seq) := by
  fun_induction faLoop T c sched rd seq with
  | case1 rd seq rd' h =>
    intro gas line hg
    obtain ⟨g, rfl⟩ : ∃ g, gas = g + 1 := ⟨gas - 1, by omega⟩
    simp [LoopPost, Gen.SrcFasta.read_loop1, readLineOp, h]
  | case2 rd seq l rd' h hc2 =>
    intro gas line hg
    obtain ⟨g, rfl⟩ : ∃ g, gas = g + 1 := ⟨gas - 1, by omega⟩
    have hc2' : (startsWith l 62 || l.isEmpty) = true := by rw [Bool.or_comm]; exact hc2
    simp [LoopPost, Gen.SrcFasta.read_loop1, readLineOp, h, startsWithByte_eq, hc2, hc2']
  | case3 rd seq l rd' h hc3 ih =>
    intro gas line hg
    obtain ⟨g, rfl⟩ : ∃ g, gas = g + 1 := ⟨gas - 1, by omega⟩
    have hc3a : (l.isEmpty || startsWith l 62) = false := by simpa using hc3
    have hc3b : (startsWith l 62 || l.isEmpty) = false := by rw [Bool.or_comm]; exact hc3a
    have hc3c : l.isEmpty = false ∧ startsWith l 62 = false := by simpa using hc3a
    have hp := readLineStr_progress c sched rd
    rw [h] at hp
    have hlt : rd'.pending.length < rd.pending.length := by
      rcases hp with hp | hp
      · simp only [Option.some.injEq] at hp
        simp [hp] at hc3c
      · exact hp
    have := ih g (([] : Bytes) ++ l) (by omega)
    simpa [Gen.SrcFasta.read_loop1, readLineOp, h, startsWithByte_eq, hc3a, hc3b, hc3c.1, hc3c.2] using this


/-- outcome of the translated `Reader::read` against the mirror `faReadS`: same result, same reader state (`BufReader`
and look-ahead line); the record is the mirror's on `Ok`, unspecified next to an error -/
def ReadPost (m : FaOut × FaReader) (x : Res (Except IoErr Unit × St × Bytes × Bytes × Option Bytes × Bytes)) : Prop :=
  match m.1 with
  | .record r => x = Res.ok (.ok (), m.2.rd, m.2.line, r.id, r.desc, r.seq)
  | .err => ∃ i d s, x = Res.ok (.error expectedGt, m.2.rd, m.2.line, i, d, s)
  | .utf8 => ∃ i d s, x = Res.ok (.error invalidData, m.2.rd, m.2.line, i, d, s)

theorem fromHeader_eq (c : Nat) (sched : Nat → Nat) (r : FaReader) (hv : validUtf8 r.line = true) (hne : r.line.isEmpty = false)
    (fuel : Nat) (hf : r.rd.pending.length < fuel)
    (x : Res (Except IoErr Unit × St × Bytes × Bytes × Option Bytes × Bytes))
    (hx : x = (if !(startsWith r.line 62) then
                 Res.ok ((Except.error expectedGt : Except IoErr Unit), r.rd, r.line, ([] : Bytes), (none : Option Bytes), ([] : Bytes))
               else do
                 let t ← Gen.SrcFasta.read_loop1 (readLineOp c sched) trimEndU splitWsU (faHeaderU r.line).1 (faHeaderU r.line).2
                          fuel r.rd r.line []
                 match t with
                 | .ret v => pure v
                 | .next (reader, line, seq) =>
                   pure ((Except.ok () : Except IoErr Unit), reader, line, (faHeaderU r.line).1, (faHeaderU r.line).2, seq))) :
    ReadPost (faFromHeader Txt.unicode c sched r) x := by
  subst hx
  unfold faFromHeader
  by_cases hst : startsWith r.line 62 = true
  · have hl := loop_eq Txt.unicode splitWsU c sched (faHeaderU r.line).1 (faHeaderU r.line).2 r.rd [] fuel r.line hf
    simp only [hst, Bool.not_true, Bool.false_eq_true, if_false]
    cases hq : faLoop Txt.unicode c sched r.rd [] with
    | mk o rd' =>
      rw [hq] at hl
      cases o with
      | none =>
        obtain ⟨sq, hl⟩ := hl
        have hl' : Gen.SrcFasta.read_loop1 (readLineOp c sched) trimEndU splitWsU (faHeaderU r.line).1 (faHeaderU r.line).2
            fuel r.rd r.line [] = _ := hl
        simp [ReadPost, hl']
      | some p =>
        obtain ⟨sq, l⟩ := p
        have hl' : Gen.SrcFasta.read_loop1 (readLineOp c sched) trimEndU splitWsU (faHeaderU r.line).1 (faHeaderU r.line).2
            fuel r.rd r.line [] = _ := hl
        simp [ReadPost, hl', Txt.unicode]
  · have hst' : startsWith r.line 62 = false := by simpa using hst
    simp [ReadPost, hst']

/-- **`Reader::read`** = the stateful mirror `faReadS` (Unicode text functions), for every reader state whose look-ahead line
is valid UTF-8 (it always is: it came out of `read_line`), every capacity and schedule; fuel: more than the pending bytes -/
theorem read_eq_model (c : Nat) (sched : Nat → Nat) (r : FaReader) (hv : validUtf8 r.line = true)
    (id0 : Bytes) (desc0 : Option Bytes) (seq0 : Bytes) (fuel : Nat) (hf : r.rd.pending.length < fuel) :
    ReadPost (faReadS Txt.unicode c sched r)
      (Gen.SrcFasta.read (readLineOp c sched) trimEndU splitWsU r.rd r.line id0 desc0 seq0 fuel) := by
  unfold faReadS
  by_cases hl : r.line.isEmpty = true
  · have hl' : r.line = [] := by simpa using hl
    simp only [hl, if_true]
    cases hq : readLineStr c sched r.rd with
    | mk o rd' =>
      cases o with
      | none => simp [ReadPost, Gen.SrcFasta.read, Gen.SrcFasta.recordClear, readLineOp, hq, hl']
      | some l =>
        have hvl : validUtf8 l = true := by
          have : (readLineStr c sched r.rd).1 = some l := by rw [hq]
          unfold readLineStr at this
          simp only at this
          split at this
          · rename_i hh; simp only [Option.some.injEq] at this; rw [← this]; exact hh
          · cases this
        by_cases hle : l.isEmpty = true
        · have : l = [] := by simpa using hle
          subst this
          simp [ReadPost, Gen.SrcFasta.read, Gen.SrcFasta.recordClear, readLineOp, hq, hl']
        · have hle' : l.isEmpty = false := by simpa using hle
          have hp := readLineStr_progress c sched r.rd
          rw [hq] at hp
          have hlt : rd'.pending.length < fuel := by
            rcases hp with hp | hp
            · simp only [Option.some.injEq] at hp; simp [hp] at hle'
            · simp only at hp; omega
          simp only [hle', Bool.false_eq_true, if_false]
          apply fromHeader_eq c sched { rd := rd', line := l } hvl hle' fuel hlt
          by_cases hst : startsWith l 62 = true
          · have e1 := strFrom_one l 62 (by decide) hvl hst
            simp [Gen.SrcFasta.read, Gen.SrcFasta.recordClear, readLineOp, hq, hl', hle', startsWithByte_eq, hst, e1,
              Rs.splitnItems, Rs.expect, faHeaderU]
            first | rfl | (congr 1; funext t; cases t <;> rfl)
          · have hst' : startsWith l 62 = false := by simpa using hst
            simp [Gen.SrcFasta.read, Gen.SrcFasta.recordClear, readLineOp, hq, hl', hle', startsWithByte_eq, hst', expectedGt]
  · have hl' : r.line.isEmpty = false := by simpa using hl
    simp only [hl', Bool.false_eq_true, if_false]
    apply fromHeader_eq c sched r hv hl' fuel hf
    by_cases hst : startsWith r.line 62 = true
    · have e1 := strFrom_one r.line 62 (by decide) hv hst
      simp [Gen.SrcFasta.read, Gen.SrcFasta.recordClear, hl', startsWithByte_eq, hst, e1, Rs.splitnItems, Rs.expect, faHeaderU]
      first | rfl | (congr 1; funext t; cases t <;> rfl)
    · have hst' : startsWith r.line 62 = false := by simpa using hst
      simp [Gen.SrcFasta.read, Gen.SrcFasta.recordClear, hl', startsWithByte_eq, hst', expectedGt]


/-! ## `Records::next` and the drained iterator -/

theorem readLineStr_some_valid {c : Nat} {sched : Nat → Nat} {rd rd' : St} {l : Bytes}
    (h : readLineStr c sched rd = (some l, rd')) : validUtf8 l = true := by
  have : (readLineStr c sched rd).1 = some l := by rw [h]
  unfold readLineStr at this
  simp only at this
  split at this
  · rename_i hh; simp only [Option.some.injEq] at this; rw [← this]; exact hh
  · cases this

theorem readLineStr_le (c : Nat) (sched : Nat → Nat) (rd : St) :
    (readLineStr c sched rd).2.pending.length ≤ rd.pending.length := by
  have h := readUntil_length c sched rd []
  simp only [readLineStr, readLine, List.length_nil] at h ⊢
  omega

theorem faLoop_inv (T : Txt) (c : Nat) (sched : Nat → Nat) (rd : St) (seq : Bytes) :
    (faLoop T c sched rd seq).2.pending.length ≤ rd.pending.length ∧
      ∀ p, (faLoop T c sched rd seq).1 = some p → validUtf8 p.2 = true := by
  fun_induction faLoop T c sched rd seq with
  | case1 rd seq rd' h =>
    have := readLineStr_le c sched rd
    rw [h] at this
    exact ⟨this, by intro p hp; cases hp⟩
  | case2 rd seq l rd' h hc2 =>
    have := readLineStr_le c sched rd
    rw [h] at this
    refine ⟨this, ?_⟩
    intro p hp
    simp only [Option.some.injEq] at hp
    subst hp
    exact readLineStr_some_valid h
  | case3 rd seq l rd' h hc3 ih =>
    have := readLineStr_le c sched rd
    rw [h] at this
    simp only at this
    exact ⟨by omega, ih.2⟩

/-- `read` never un-reads, and the look-ahead line it leaves is valid UTF-8 -/
theorem faReadS_inv (T : Txt) (c : Nat) (sched : Nat → Nat) (r : FaReader) (hv : validUtf8 r.line = true) :
    (faReadS T c sched r).2.rd.pending.length ≤ r.rd.pending.length ∧ validUtf8 (faReadS T c sched r).2.line = true := by
  have hfh : ∀ r : FaReader, validUtf8 r.line = true →
      (faFromHeader T c sched r).2.rd.pending.length ≤ r.rd.pending.length ∧
        validUtf8 (faFromHeader T c sched r).2.line = true := by
    intro r hv
    unfold faFromHeader
    split
    · exact ⟨Nat.le_refl _, hv⟩
    · have hi := faLoop_inv T c sched r.rd []
      split
      · rename_i rd' heq
        rw [heq] at hi
        exact ⟨hi.1, rfl⟩
      · rename_i sq l rd' heq
        rw [heq] at hi
        exact ⟨hi.1, hi.2 _ rfl⟩
  unfold faReadS
  split
  · have hle := readLineStr_le c sched r.rd
    split
    · rename_i rd' heq
      rw [heq] at hle
      exact ⟨hle, rfl⟩
    · rename_i l rd' heq
      rw [heq] at hle
      split
      · exact ⟨hle, rfl⟩
      · have := hfh { rd := rd', line := l } (readLineStr_some_valid heq)
        simp only at this hle
        exact ⟨by omega, this.2⟩
  · exact hfh r hv

/-- the `Record` of the generated file for a model record -/
@[reducible] def toRec (r : FaRec) : Gen.SrcFasta.Record := ⟨r.id, r.desc, r.seq⟩

/-- what `Records::next` hands out for an item of the mirror -/
def ofItem : SItem FaItem → Except IoErr Gen.SrcFasta.Record
  | .item (.ok r) => .ok (toRec r)
  | .item .err => .error expectedGt
  | .utf8 => .error invalidData

/-- **`Records::next`** (no error so far) = one `read` of the mirror: `None` on the empty record, `Some(Ok(record))`,
or `Some(Err(_))` with the error flag set -/
theorem next_eq_model (c : Nat) (sched : Nat → Nat) (r : FaReader) (hv : validUtf8 r.line = true)
    (fuel : Nat) (hf : r.rd.pending.length < fuel) :
    Gen.SrcFasta.next (readLineOp c sched) trimEndU splitWsU r.rd r.line false fuel =
      match faReadS Txt.unicode c sched r with
      | (.utf8, r') => Res.ok (some (.error invalidData), r'.rd, r'.line, true)
      | (.err, r') => Res.ok (some (.error expectedGt), r'.rd, r'.line, true)
      | (.record x, r') => Res.ok (if x.isEmpty then none else some (.ok (toRec x)), r'.rd, r'.line, false) := by
  have h := read_eq_model c sched r hv [] none [] fuel hf
  cases hq : faReadS Txt.unicode c sched r with
  | mk o r' =>
    rw [hq] at h
    cases o with
    | record x =>
      have h' : Gen.SrcFasta.read (readLineOp c sched) trimEndU splitWsU r.rd r.line [] none [] fuel = _ := h
      cases hx : x.isEmpty <;>
        simp [Gen.SrcFasta.next, Gen.SrcFasta.recordNew, Gen.SrcFasta.recordIsEmpty, h', FaRec.isEmpty] <;>
        simp [FaRec.isEmpty] at hx <;> simp [hx]
    | err =>
      obtain ⟨i, d, s, h'⟩ := h
      have h'' : Gen.SrcFasta.read (readLineOp c sched) trimEndU splitWsU r.rd r.line [] none [] fuel = _ := h'
      simp [Gen.SrcFasta.next, Gen.SrcFasta.recordNew, h'']
    | utf8 =>
      obtain ⟨i, d, s, h'⟩ := h
      have h'' : Gen.SrcFasta.read (readLineOp c sched) trimEndU splitWsU r.rd r.line [] none [] fuel = _ := h'
      simp [Gen.SrcFasta.next, Gen.SrcFasta.recordNew, h'']

/-- after an error `Records::next` returns `None` for ever -/
theorem next_after_error (c : Nat) (sched : Nat → Nat) (rd : St) (line : Bytes) (fuel : Nat) :
    Gen.SrcFasta.next (readLineOp c sched) trimEndU splitWsU rd line true fuel = Res.ok (none, rd, line, true) := by
  simp [Gen.SrcFasta.next]

/-- the translated iterator as a state transformer (`Rs.drain`): state = (`BufReader`, look-ahead line, error flag) -/
def srcNext (c : Nat) (sched : Nat → Nat) (fuel : Nat) (s : St × Bytes × Bool) :
    Res ((St × Bytes × Bool) × Option (Except IoErr Gen.SrcFasta.Record)) := do
  let (o, rd, line, e) ← Gen.SrcFasta.next (readLineOp c sched) trimEndU splitWsU s.1 s.2.1 s.2.2 fuel
  pure ((rd, line, e), o)

/-- **`Records` drained** = the mirror's `faDrain`: calling the translated `next` until `None` yields exactly the mirror's
items, whenever the consumer allows at least as many calls as the mirror needs (`faNextCalls`) -/
theorem drain_eq_model (c : Nat) (sched : Nat → Nat) (fuel : Nat) :
    ∀ (m n : Nat) (r : FaReader) (k : Nat), validUtf8 r.line = true → r.rd.pending.length < fuel →
      faNextCalls Txt.unicode c sched m r = some k → k ≤ n →
      Rs.drain (srcNext c sched fuel) n (r.rd, r.line, false) =
        Res.ok ((faDrain Txt.unicode c sched m r).1.map ofItem) := by
  intro m
  induction m with
  | zero => intro n r k hv hf hk; simp [faNextCalls] at hk
  | succ m ih =>
    intro n r k hv hf hk hkn
    have hn := next_eq_model c sched r hv fuel hf
    have hinv := faReadS_inv Txt.unicode c sched r hv
    simp only [faNextCalls] at hk
    simp only [faDrain]
    cases hq : faReadS Txt.unicode c sched r with
    | mk o r' =>
      rw [hq] at hn hk hinv
      cases o with
      | utf8 =>
        simp only [Option.some.injEq] at hk
        obtain ⟨n', rfl⟩ : ∃ n', n = n' + 2 := ⟨n - 2, by omega⟩
        simp [Rs.drain, srcNext, hn, next_after_error, ofItem]
      | err =>
        simp only [Option.some.injEq] at hk
        obtain ⟨n', rfl⟩ : ∃ n', n = n' + 2 := ⟨n - 2, by omega⟩
        simp [Rs.drain, srcNext, hn, next_after_error, ofItem]
      | record x =>
        simp only at hk hn
        by_cases hx : x.isEmpty = true
        · simp only [hx, if_true, Option.some.injEq] at hk
          obtain ⟨n', rfl⟩ : ∃ n', n = n' + 1 := ⟨n - 1, by omega⟩
          simp [Rs.drain, srcNext, hn, hx]
        · have hx' : x.isEmpty = false := by simpa using hx
          simp only [hx', Bool.false_eq_true, if_false, Option.map_eq_some_iff] at hk
          obtain ⟨k', hk', rfl⟩ := hk
          obtain ⟨n', rfl⟩ : ∃ n', n = n' + 1 := ⟨n - 1, by omega⟩
          have := ih n' r' k' hinv.2 (by simp only at hinv; omega) hk' (by omega)
          simp [Rs.drain, srcNext, hn, hx', this, ofItem]

end RbV.Thm.GenSrcFasta
