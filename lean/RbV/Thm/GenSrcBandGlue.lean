import RbV.Thm.GenSrcBand
import RbV.Model.BandedDP
/-!
The glue of `banded::Aligner` tied to the source text (`RbV/Gen/SrcBand.lean`, dialect "band"): `degenerate_alignment`,
`Band::create_with_prehash`, the five `custom*` entry points (which band constructor with which arguments, then
`compute_alignment`), the four mode wrappers (clip penalties saved, overwritten, restored; `mode`; `filter_clip_operations`).
The DP of `compute_alignment` (`fill`), the sparse-DP functions and `filter_clip_operations` are abstract parameters.
Restated in `RbV/Thm/C02.lean`.
-/
set_option linter.unusedSimpArgs false
set_option linter.unusedVariables false
namespace RbV.Thm.GenSrcBandGlue
open RbV RbV.Gen RbV.Rs RbV.Rs.Res RbV.Model.Band RbV.Align RbV.Thm.GenSrcBand

/-- an operation of the specification as the `AlignmentOperation` of bio-types -/
def opT : AOp → Rs.AlignmentOperation
  | .core .mat => .Match
  | .core .sub => .Subst
  | .core .ins => .Ins
  | .core .del => .Del
  | .xclip n => .Xclip n
  | .yclip n => .Yclip n

/-- a result of the mirror (`Out`) as the `Alignment` tuple of the translated code, in mode `Custom` -/
def outT (o : Out) : Int × Nat × Nat × Nat × Nat × Nat × Nat × List Rs.AlignmentOperation × Rs.AlignmentMode :=
  (o.score, o.ys, o.xs, o.ye, o.xe, o.ylen, o.xlen, o.ops.map opT, Rs.AlignmentMode.Custom)

theorem resize_nil {α : Type} (n : Nat) (x : α) : Rs.resize ([] : List α) n x = List.replicate n x := by
  simp [Rs.resize]

/-- **`degenerate_alignment` as translated = the mirror `BandedDP.degenerate`** (one sequence empty: the `debug_assert!`; the
gap score `gap_open + gap_extend · len` fits `i32`) -/
theorem degenerate_eq_model {Dp : Type} (wf : Nat → Nat → Int) (go ge : Int) (msc : Option (Int × Int)) (cl : Clip)
    (bT : Nat × Nat × List (Nat × Nat)) (k w : Nat) (dp : Dp) (m n : Nat) (hmn : m = 0 ∨ n = 0)
    (hm : m < 2 ^ 31) (hn : n < 2 ^ 31)
    (h1 : Rs.InS 32 (ge * (m : Int))) (h2 : Rs.InS 32 (go + ge * (m : Int)))
    (h3 : Rs.InS 32 (ge * (n : Int))) (h4 : Rs.InS 32 (go + ge * (n : Int))) :
    SrcBand.degenerateAlignment ((go, ge, msc, cl.xp, cl.xs, cl.yp, cl.ys), bT, k, w, dp) m n =
      ok (outT (RbV.Model.BandedDP.degenerate ⟨wf, go, ge⟩ cl m n)) := by
  have a0 : Rs.assert (m == 0 || n == 0) = ok () := Rs.assert_ok (by rcases hmn with h | h <;> simp [h])
  have a0' : Rs.assert (n == 0 || m == 0) = ok () := Rs.assert_ok (by rcases hmn with h | h <;> simp [h])
  have c1 : Rs.castSigned 32 m = (m : Int) := Rs.castSigned_of_lt (by simpa using hm)
  have c2 : Rs.castSigned 32 n = (n : Int) := Rs.castSigned_of_lt (by simpa using hn)
  -- both operand orders of the product and of the sum
  have i1 : Rs.imul 32 (m : Int) ge = ok (ge * (m : Int)) := by rw [Rs.imul_ok (by rwa [Int.mul_comm]), Int.mul_comm]
  have i2 : Rs.iadd 32 (ge * (m : Int)) go = ok (go + ge * (m : Int)) := by rw [Rs.iadd_ok (by rwa [Int.add_comm]), Int.add_comm]
  have i3 : Rs.imul 32 (n : Int) ge = ok (ge * (n : Int)) := by rw [Rs.imul_ok (by rwa [Int.mul_comm]), Int.mul_comm]
  have i4 : Rs.iadd 32 (ge * (n : Int)) go = ok (go + ge * (n : Int)) := by rw [Rs.iadd_ok (by rwa [Int.add_comm]), Int.add_comm]
  unfold SrcBand.degenerateAlignment RbV.Model.BandedDP.degenerate outT
  simp only [a0, a0', c1, c2, i1, i2, i3, i4, Rs.imul_ok h1, Rs.iadd_ok h2, Rs.imul_ok h3, Rs.iadd_ok h4, ok_bind, pure_eq_ok, bind_pure_comp,
    resize_nil, List.nil_append, decide_eq_true_eq, Bool.and_eq_true, ge_iff_le, gt_iff_lt]
  by_cases hm0 : 0 < m
  · simp only [hm0, if_true]
    by_cases hA : cl.xp ≤ go + ge * (m : Int) ∧ cl.xs ≤ go + ge * (m : Int)
    · simp [hA, opT, List.map_replicate]
    · by_cases hB : cl.xs ≤ cl.xp <;> simp [hA, hB, opT]
  · simp only [hm0, if_false]
    by_cases hn0 : 0 < n
    · simp only [hn0, if_true]
      by_cases hA : cl.yp ≤ go + ge * (n : Int) ∧ cl.ys ≤ go + ge * (n : Int)
      · simp [hA, opT, List.map_replicate]
      · by_cases hB : cl.ys ≤ cl.yp <;> simp [hA, hB, opT]
    · simp [hn0]

/-! ### the five `custom*` entry points: band constructor, then `compute_alignment` -/

abbrev ScT := Int × Int × Option (Int × Int) × Int × Int × Int × Int
abbrev BandT := Nat × Nat × List (Nat × Nat)
abbrev AlnT := Int × Nat × Nat × Nat × Nat × Nat × Nat × List Rs.AlignmentOperation × Rs.AlignmentMode
abbrev AlignerT (Dp : Type) := ScT × BandT × Nat × Nat × Dp

section Entry
variable {Dp : Type}
  (sd : List (Nat × Nat) → Nat → Nat → Int → Int → Res (List Nat × Nat × List (Nat × Int)))
  (fk : List Nat → List Nat → Nat → Res (List (Nat × Nat)))
  (fs2 : List Nat → Rs.HMap (List Nat) (List Nat) → Nat → Res (List (Nat × Nat)))
  (ex : List Nat → List Nat → Nat → List (Nat × Nat) → Nat → Res (List (Nat × Nat)))
  (un : List (Nat × Nat) → Nat → Nat → Int → Int → Res (List Nat))
  (fill : AlignerT Dp → List Nat → List Nat → Nat → Nat → Res (AlnT × AlignerT Dp))
  (fc : AlnT → AlnT)

/-- `Band::create_with_prehash` = `find_kmer_matches_seq2_hashed(x, y_kmer_hash, k)`, then `create_with_matches` -/
theorem createWithPrehash_eq (x y : List Nat) (k w : Nat) (sc : ScT) (h : Rs.HMap (List Nat) (List Nat)) :
    SrcBand.createWithPrehash sd fs2 x y k w sc h = (fs2 x h k >>= fun ms => SrcBand.createWithMatches sd x y k w sc ms) := by
  unfold SrcBand.createWithPrehash
  simp only [pure_eq_ok, bind_pure_comp, bind_pure, map_eq_pure_bind]
  all_goals (cases fs2 x h k <;> simp)

/-- **`custom`, `custom_with_prehash`, `custom_with_matches`, `custom_with_match_path`**: the band field is replaced by what the
named constructor returns for `(x, y, self.k, self.w, &self.scoring, …)` — a panic of the constructor is a panic of the entry
point —, every other field is passed on unchanged, and the result is `compute_alignment(x, y)` on that aligner. -/
theorem custom_entries_eq (sc : ScT) (b0 : BandT) (k w : Nat) (dp : Dp) (x y : List Nat) (h : Rs.HMap (List Nat) (List Nat))
    (ms : List (Nat × Nat)) (path : List Nat) :
    SrcBand.custom sd fk fill (sc, b0, k, w, dp) x y =
      (SrcBand.create sd fk x y k w sc >>= fun b => SrcBand.computeAlignment fill (sc, b, k, w, dp) x y) ∧
    SrcBand.customWithPrehash sd fs2 fill (sc, b0, k, w, dp) x y h =
      (SrcBand.createWithPrehash sd fs2 x y k w sc h >>= fun b => SrcBand.computeAlignment fill (sc, b, k, w, dp) x y) ∧
    SrcBand.customWithMatches sd fill (sc, b0, k, w, dp) x y ms =
      (SrcBand.createWithMatches sd x y k w sc ms >>= fun b => SrcBand.computeAlignment fill (sc, b, k, w, dp) x y) ∧
    SrcBand.customWithMatchPath fill (sc, b0, k, w, dp) x y ms path =
      (SrcBand.createFromMatchPath x y k w sc path ms >>= fun b => SrcBand.computeAlignment fill (sc, b, k, w, dp) x y) := by
  refine ⟨?_, ?_, ?_, ?_⟩
  · unfold SrcBand.custom
    cases SrcBand.create sd fk x y k w sc <;> simp
    cases SrcBand.computeAlignment fill _ x y <;> simp
  · unfold SrcBand.customWithPrehash
    cases SrcBand.createWithPrehash sd fs2 x y k w sc h <;> simp
    cases SrcBand.computeAlignment fill _ x y <;> simp
  · unfold SrcBand.customWithMatches
    cases SrcBand.createWithMatches sd x y k w sc ms <;> simp
    cases SrcBand.computeAlignment fill _ x y <;> simp
  · unfold SrcBand.customWithMatchPath
    cases SrcBand.createFromMatchPath x y k w sc path ms <;> simp
    cases SrcBand.computeAlignment fill _ x y <;> simp

/-- **`custom_with_expanded_matches`**: the matches are expanded by `sparse::expand_kmer_matches(x, y, k, &matches, m)` when
`allowed_mismatches = Some(m)` and taken as they are otherwise; with `use_lcskpp_union` the band is
`create_from_match_path` along `sparse::sdpkpp_union_lcskpp_path(&expanded, k, match_score as u32, gap_open, gap_extend)`
(`match_score` = `match_scores.0` or `DEFAULT_MATCH_SCORE`), otherwise `create_with_matches(&expanded)`; then
`compute_alignment`. -/
theorem customWithExpandedMatches_eq (sc : ScT) (b0 : BandT) (k w : Nat) (dp : Dp) (x y : List Nat) (ms : List (Nat × Nat))
    (am : Option Nat) (useUnion : Bool) :
    SrcBand.customWithExpandedMatches sd ex un fill (sc, b0, k, w, dp) x y ms am useUnion =
      ((match am with | some m => ex x y k ms m | none => ok ms) >>= fun em =>
       (if useUnion then
          un em k (Rs.castUnsigned 32 (matchScore sc.2.2.1)) sc.1 sc.2.1 >>= fun p => SrcBand.createFromMatchPath x y k w sc p em
        else SrcBand.createWithMatches sd x y k w sc em) >>= fun b =>
       SrcBand.computeAlignment fill (sc, b, k, w, dp) x y) := by
  obtain ⟨go, ge, msc, xp, xs, yp, ys⟩ := sc
  unfold SrcBand.customWithExpandedMatches matchScore
  cases am with
  | none =>
    cases useUnion
    · simp only [pure_eq_ok, ok_bind, Bool.false_eq_true, if_false]
      cases SrcBand.createWithMatches sd x y k w _ ms <;> simp
      cases SrcBand.computeAlignment fill _ x y <;> simp
    · simp only [pure_eq_ok, ok_bind, if_true]
      cases msc with
      | none =>
        simp only [ok_bind]
        cases un ms k _ go ge <;> simp
        cases SrcBand.createFromMatchPath x y k w _ _ ms <;> simp
        cases SrcBand.computeAlignment fill _ x y <;> simp
      | some q =>
        obtain ⟨a, b⟩ := q
        simp only [ok_bind]
        cases un ms k _ go ge <;> simp
        cases SrcBand.createFromMatchPath x y k w _ _ ms <;> simp
        cases SrcBand.computeAlignment fill _ x y <;> simp
  | some m =>
    simp only [pure_eq_ok, bind_pure_comp, bind_pure, map_eq_pure_bind]
    cases ex x y k ms m with
    | panic => simp
    | fuel => simp
    | ok em =>
      cases useUnion
      · simp only [pure_eq_ok, ok_bind, Bool.false_eq_true, if_false]
        cases SrcBand.createWithMatches sd x y k w _ em <;> simp
        cases SrcBand.computeAlignment fill _ x y <;> simp
      · simp only [pure_eq_ok, ok_bind, if_true]
        cases msc with
        | none =>
          simp only [ok_bind]
          cases un em k _ go ge <;> simp
          cases SrcBand.createFromMatchPath x y k w _ _ em <;> simp
          cases SrcBand.computeAlignment fill _ x y <;> simp
        | some q =>
          obtain ⟨a, b⟩ := q
          simp only [ok_bind]
          cases un em k _ go ge <;> simp
          cases SrcBand.createFromMatchPath x y k w _ _ em <;> simp
          cases SrcBand.computeAlignment fill _ x y <;> simp

/-! ### the four mode wrappers: clip penalties saved, overwritten, restored -/

/-- `alignment.mode = m` -/
def setMode (a : AlnT) (m : Rs.AlignmentMode) : AlnT :=
  (a.1, a.2.1, a.2.2.1, a.2.2.2.1, a.2.2.2.2.1, a.2.2.2.2.2.1, a.2.2.2.2.2.2.1, a.2.2.2.2.2.2.2.1, m)

/-- the four clip penalties of the aligner's scoring set to the given values, everything else as it is -/
def withClips (S : AlignerT Dp) (xp xs yp ys : Int) : AlignerT Dp :=
  ((S.1.1, S.1.2.1, S.1.2.2.1, xp, xs, yp, ys), S.2)

/-- **`global`, `semiglobal`, `local`, `semiglobal_with_prehash`.**  Each wrapper runs `custom` (resp. `custom_with_prehash`) on
the aligner whose four clip penalties are overwritten — `MIN_SCORE` ×4 (global), `MIN_SCORE, MIN_SCORE, 0, 0` (semiglobal),
`0` ×4 (local) —, sets `mode`, filters the clip operations (`filter_clip_operations`; not for global), and hands back the aligner
`custom` left behind **with the caller's own four clip penalties written back** (`xclip_prefix`, `xclip_suffix`, `yclip_prefix`,
`yclip_suffix`, each into its own slot: mutants m6 / m16 of Phase 1 restore from the wrong slot).  Stated for every outcome
`(a, S1)` of the inner call. -/
theorem mode_wrappers_spec (S : AlignerT Dp) (x y : List Nat) (h : Rs.HMap (List Nat) (List Nat)) (a : AlnT) (S1 : AlignerT Dp) :
    let MIN := RbV.Gen.Limits.minScorePairwise
    let xp := S.1.2.2.2.1
    let xs := S.1.2.2.2.2.1
    let yp := S.1.2.2.2.2.2.1
    let ys := S.1.2.2.2.2.2.2
    (SrcBand.custom sd fk fill (withClips S MIN MIN MIN MIN) x y = ok (a, S1) →
      SrcBand.globalMode sd fk fill fc S x y = ok (setMode a .Global, withClips S1 xp xs yp ys)) ∧
    (SrcBand.custom sd fk fill (withClips S MIN MIN 0 0) x y = ok (a, S1) →
      SrcBand.semiglobalMode sd fk fill fc S x y = ok (fc (setMode a .Semiglobal), withClips S1 xp xs yp ys)) ∧
    (SrcBand.custom sd fk fill (withClips S 0 0 0 0) x y = ok (a, S1) →
      SrcBand.localMode sd fk fill fc S x y = ok (fc (setMode a .Local), withClips S1 xp xs yp ys)) ∧
    (SrcBand.customWithPrehash sd fs2 fill (withClips S MIN MIN 0 0) x y h = ok (a, S1) →
      SrcBand.semiglobalWithPrehash sd fs2 fill fc S x y h = ok (fc (setMode a .Semiglobal), withClips S1 xp xs yp ys)) := by
  obtain ⟨⟨go, ge, msc, xp, xs, yp, ys⟩, b0, k, w, dp⟩ := S
  obtain ⟨⟨go1, ge1, msc1, xp1, xs1, yp1, ys1⟩, b1, k1, w1, dp1⟩ := S1
  simp only [withClips]
  refine ⟨fun hc => ?_, fun hc => ?_, fun hc => ?_, fun hc => ?_⟩
  · unfold SrcBand.globalMode
    simp [hc, Rs.idx, setMode]
  · unfold SrcBand.semiglobalMode
    simp [hc, Rs.idx, setMode]
  · unfold SrcBand.localMode
    simp [hc, Rs.idx, setMode]
  · unfold SrcBand.semiglobalWithPrehash
    simp [hc, Rs.idx, setMode]

end Entry

end RbV.Thm.GenSrcBandGlue
