import RbV.Thm.GenSrcMyersTbLoop
import RbV.Lemmas.TracebackState
import RbV.Lemmas.TracebackRing
/-!
# The side conditions of the translated `_traceback_at` follow from the handler invariant; soundness of the translated traceback

Soft module (`tools/gen_tables.py`), like `Thm/GenSrcMyersTbLoop.lean` on which it builds (pinned order of the Subst / Ins / Del tests).

* `stepOk_of_inv`: in a handler state with the invariant `HInv` of `Lemmas/TracebackState.lean` (true cell values at the cursor) every
  checked operation of one pass through the translated loop body stays in range (`StepOk`): `dist ± 1` by `adjustDist_spec`-style facts,
  `adjust_by_mask` by `adjustByMask_spec` — including the sentinel column `dist = D::MAX`;
* `runOk_of_inv`: … along the whole loop (`RunOk`), which ends within `i + j` passes;
* `traceback_source_sound`: the translated `_traceback_at` on the columns a search stored (ring of `m + min(k, m) + 2` slots with
  arbitrary old contents), called for a hit, returns `(h_offset, dist)` and pushes operations that decode to a hit accepted by
  `checkHit` (valid alignment of cost `dist`, `dist` minimal at that end, `≤ k`) — `tracebackAt_eq_model` ∘ `traceback_model_sound`.
-/
set_option linter.unusedSimpArgs false
set_option linter.unusedVariables false

namespace RbV.Thm.GenSrcMyersTbSound
open RbV RbV.Rs RbV.EditDist RbV.Model.MyersSimple RbV.Model.MyersTraceback RbV.Thm.GenSrcMyersSimple RbV.Thm.GenSrcMyersLongStep
  RbV.Thm.GenSrcMyersTb RbV.Thm.GenSrcMyersTb2 RbV.Thm.GenSrcMyersTbLoop

section
variable {w m q lo : Nat} {D : Nat → Nat → Nat} {S : Nat → St w} (wd pos : Nat) (store : List (St w))

theorem colOf_le (st : Stored m (2 ^ wd - 1) q lo D S (readStore store pos)) (s i : Nat) (hs : s ≤ q) (hi : i ≤ m) :
    colOf D (2 ^ wd - 1) m s i ≤ ((2 ^ wd - 1 : Nat) : Int) := by
  have hdm := st.hdm
  unfold colOf
  split
  · omega
  · have := st.bound i (s - 1) hi (by omega)
    omega

/-- `adjust_by_mask` on the stored column `j'` with a range mask `[r, m)` stays in range -/
theorem maskOk_of (st : Stored m (2 ^ wd - 1) q lo D S (readStore store pos)) (g : Handler w) (j' r : Nat) (hj : j' ≤ q)
    (hr : r ≤ m) (hrd : readStore store pos g.taken = S j')
    (hmask : ∀ b, g.leftMask.getLsbD b = decide (r ≤ b ∧ b < m)) : MaskOk wd pos store g := by
  obtain ⟨encL, dL⟩ := st.enc j' hj
  have hadj := adjustByMask_spec (colOf D (2 ^ wd - 1) m j') (S j') g.leftMask r hr st.hmw encL hmask dL
    (colOf_nonneg st j' r hr)
  have h1 := colOf_le wd pos store st j' m hj (Nat.le_refl _)
  have h2 := colOf_le wd pos store st j' r hj hr
  have hp : 1 ≤ 2 ^ wd := Nat.one_le_two_pow
  have h3 := hadj.2.2.2
  simp only [adjustByMask] at h3
  unfold MaskOk
  rw [hrd]
  refine ⟨hadj.2.2.1, by omega, by omega⟩

/-- **the side conditions of one pass of the translated loop body hold under the handler invariant** -/
theorem stepOk_of_inv (st : Stored m (2 ^ wd - 1) q lo D S (readStore store pos)) {i' j : Nat} {h : Handler w}
    (inv : HInv m (2 ^ wd - 1) q D S i' j h) (hlo : ruleOp D i' j ≠ Op.ins → lo + 1 ≤ j) : StepOk wd pos store h := by
  have t1 := test_subst st inv
  have t2 := test_ins st inv
  have t3 := test_del st inv
  have hi := inv.hi
  have hjq := inv.hj
  have hmw := st.hmw
  have hm1 := st.hm1
  have hdm := st.hdm
  have hp : 1 ≤ 2 ^ wd := Nat.one_le_two_pow
  have hs := inv.sdist
  have hl := inv.ldist
  have hsb := colOf_le wd pos store st (j + 1) (i' + 1) (by omega) (by omega)
  have hlb : colOf D (2 ^ wd - 1) m j i' + 1 ≤ ((2 ^ wd - 1 : Nat) : Int) := by
    unfold colOf
    split
    · omega
    · have := st.bound i' (j - 1) (by omega) (by omega); omega
  have hsb' : colOf D (2 ^ wd - 1) m (j + 1) (i' + 1) ≤ (m : Int) := by
    rw [colOf_succ]; have := st.bound (i' + 1) j (by omega) hjq; omega
  -- the column the next `move_to_left` loads, and the two masks
  have hrd : lo + 1 ≤ j → readStore store pos h.taken = S (j - 1) := by
    intro hj
    rw [inv.taken, st.rd _ (by omega)]
    congr 1; omega
  have hmaskD := leftMask_step h.leftMask i' hm1 hmw (by omega) inv.lmask
  have diagOk : lo + 1 ≤ j → MaskOk wd pos store ((h.moveUp false).moveUpLeft false) := by
    intro hj
    apply maskOk_of wd pos store st _ (j - 1) (i' - 1) (by omega) (by omega)
    · simp only [Handler.moveUpLeft, Handler.moveUp]; exact hrd hj
    · simp only [Handler.moveUpLeft, Handler.moveUp, inv.maxMask]; exact hmaskD
  refine ⟨by omega, by omega, ?_⟩
  by_cases c1 : j ≥ 1 ∧ D i' (j - 1) + 1 = D (i' + 1) j
  · have hop : ruleOp D i' j = Op.sub := by unfold ruleOp; rw [if_pos c1]
    rw [if_pos (t1.mpr c1)]
    exact diagOk (hlo (by rw [hop]; decide))
  · rw [if_neg (fun hc => c1 (t1.mp hc))]
    by_cases c2 : D i' j + 1 = D (i' + 1) j
    · have t2' : ((h.state.pv &&& h.pos) != 0#w) = true := by rw [t2]; simp [c2]
      rw [if_pos t2']
      refine ⟨?_, ?_⟩
      · rw [colOf_succ] at hs; omega
      · intro hne
        cases i' with
        | zero =>
          exfalso; apply hne
          rw [inv.pos, twoPow_shr_zero]; simp
        | succ r =>
          have hpos : h.pos >>> 1 = BitVec.twoPow w r := by rw [inv.pos]; exact twoPow_shr_succ r (by omega)
          rw [hpos] at hne
          have hb : (h.left.pv &&& BitVec.twoPow w r != 0#w) = true := by simpa using hne
          rw [test_twoPow _ r (by omega), inv.lpv] at hb
          obtain ⟨encL, _⟩ := st.enc j (by omega)
          have e := (encL.pvb r (by omega)).mp hb
          have h0 := colOf_nonneg st j r (by omega)
          omega
    · have t2' : ¬ (((h.state.pv &&& h.pos) != 0#w) = true) := by rw [t2]; simp [c2]
      rw [if_neg t2']
      by_cases c3 : j ≥ 1 ∧ D (i' + 1) (j - 1) + 1 = D i' (j - 1)
      · have hop : ruleOp D i' j = Op.del := by unfold ruleOp; rw [if_neg c1, if_neg c2, if_pos c3]
        have t3' : ((h.left.mv &&& h.pos) != 0#w) = true := by rw [t3]; simp [c3]
        rw [if_pos t3']
        have hj := hlo (by rw [hop]; decide)
        refine ⟨?_, ?_⟩
        · obtain ⟨j', rfl⟩ : ∃ j', j = j' + 1 := ⟨j - 1, by omega⟩
          rw [colOf_succ] at hl
          have := c3.2
          simp only [Nat.add_sub_cancel] at this
          omega
        · apply maskOk_of wd pos store st _ (j - 1) i' (by omega) (by omega)
          · unfold Handler.moveLeftDownIfBetter; rw [if_pos t3']; exact hrd hj
          · unfold Handler.moveLeftDownIfBetter; rw [if_pos t3']; exact inv.lmask
      · have hop : ruleOp D i' j = Op.mat := by unfold ruleOp; rw [if_neg c1, if_neg c2, if_neg c3]
        have t3' : ¬ (((h.left.mv &&& h.pos) != 0#w) = true) := by rw [t3]; simp [c3]
        rw [if_neg t3']
        exact diagOk (hlo (by rw [hop]; decide))

/-- … for the order Subst > Del > Ins -/
theorem stepOkD_of_inv (st : Stored m (2 ^ wd - 1) q lo D S (readStore store pos)) {i' j : Nat} {h : Handler w}
    (inv : HInv m (2 ^ wd - 1) q D S i' j h) (hlo : ruleOpD D i' j ≠ Op.ins → lo + 1 ≤ j) : StepOkD wd pos store h := by
  have t1 := test_subst st inv
  have t2 := test_ins st inv
  have t3 := test_del st inv
  have hi := inv.hi
  have hjq := inv.hj
  have hmw := st.hmw
  have hm1 := st.hm1
  have hdm := st.hdm
  have hp : 1 ≤ 2 ^ wd := Nat.one_le_two_pow
  have hs := inv.sdist
  have hl := inv.ldist
  have hsb := colOf_le wd pos store st (j + 1) (i' + 1) (by omega) (by omega)
  have hlb : colOf D (2 ^ wd - 1) m j i' + 1 ≤ ((2 ^ wd - 1 : Nat) : Int) := by
    unfold colOf
    split
    · omega
    · have := st.bound i' (j - 1) (by omega) (by omega); omega
  have hsb' : colOf D (2 ^ wd - 1) m (j + 1) (i' + 1) ≤ (m : Int) := by
    rw [colOf_succ]; have := st.bound (i' + 1) j (by omega) hjq; omega
  -- the column the next `move_to_left` loads, and the two masks
  have hrd : lo + 1 ≤ j → readStore store pos h.taken = S (j - 1) := by
    intro hj
    rw [inv.taken, st.rd _ (by omega)]
    congr 1; omega
  have hmaskD := leftMask_step h.leftMask i' hm1 hmw (by omega) inv.lmask
  have diagOk : lo + 1 ≤ j → MaskOk wd pos store ((h.moveUp false).moveUpLeft false) := by
    intro hj
    apply maskOk_of wd pos store st _ (j - 1) (i' - 1) (by omega) (by omega)
    · simp only [Handler.moveUpLeft, Handler.moveUp]; exact hrd hj
    · simp only [Handler.moveUpLeft, Handler.moveUp, inv.maxMask]; exact hmaskD
  refine ⟨by omega, by omega, ?_⟩
  by_cases c1 : j ≥ 1 ∧ D i' (j - 1) + 1 = D (i' + 1) j
  · have hop : ruleOpD D i' j = Op.sub := by unfold ruleOpD; rw [if_pos c1]
    rw [if_pos (t1.mpr c1)]
    exact diagOk (hlo (by rw [hop]; decide))
  · rw [if_neg (fun hc => c1 (t1.mp hc))]
    by_cases c3 : j ≥ 1 ∧ D (i' + 1) (j - 1) + 1 = D i' (j - 1)
    · have hop : ruleOpD D i' j = Op.del := by unfold ruleOpD; rw [if_neg c1, if_pos c3]
      have t3' : ((h.left.mv &&& h.pos) != 0#w) = true := by rw [t3]; simp [c3]
      rw [if_pos t3']
      have hj := hlo (by rw [hop]; decide)
      refine ⟨?_, ?_⟩
      · obtain ⟨j', rfl⟩ : ∃ j', j = j' + 1 := ⟨j - 1, by omega⟩
        rw [colOf_succ] at hl
        have := c3.2
        simp only [Nat.add_sub_cancel] at this
        omega
      · apply maskOk_of wd pos store st _ (j - 1) i' (by omega) (by omega)
        · unfold Handler.moveLeftDownIfBetter; rw [if_pos t3']; exact hrd hj
        · unfold Handler.moveLeftDownIfBetter; rw [if_pos t3']; exact inv.lmask
    · have t3' : ¬ (((h.left.mv &&& h.pos) != 0#w) = true) := by rw [t3]; simp [c3]
      rw [if_neg t3']
      by_cases c2 : D i' j + 1 = D (i' + 1) j
      · have t2' : ((h.state.pv &&& h.pos) != 0#w) = true := by rw [t2]; simp [c2]
        rw [if_pos t2']
        refine ⟨?_, ?_⟩
        · rw [colOf_succ] at hs; omega
        · intro hne
          cases i' with
          | zero =>
            exfalso; apply hne
            rw [inv.pos, twoPow_shr_zero]; simp
          | succ r =>
            have hpos : h.pos >>> 1 = BitVec.twoPow w r := by rw [inv.pos]; exact twoPow_shr_succ r (by omega)
            rw [hpos] at hne
            have hb : (h.left.pv &&& BitVec.twoPow w r != 0#w) = true := by simpa using hne
            rw [test_twoPow _ r (by omega), inv.lpv] at hb
            obtain ⟨encL, _⟩ := st.enc j (by omega)
            have e := (encL.pvb r (by omega)).mp hb
            have h0 := colOf_nonneg st j r (by omega)
            omega
      · have hop : ruleOpD D i' j = Op.mat := by unfold ruleOpD; rw [if_neg c1, if_neg c3, if_neg c2]
        have t2' : ¬ (((h.state.pv &&& h.pos) != 0#w) = true) := by rw [t2]; simp [c2]
        rw [if_neg t2']
        exact diagOk (hlo (by rw [hop]; decide))

theorem stepOkG_of_inv (df : Bool) (st : Stored m (2 ^ wd - 1) q lo D S (readStore store pos)) {i' j : Nat} {h : Handler w}
    (inv : HInv m (2 ^ wd - 1) q D S i' j h) (hlo : ruleOpG df D i' j ≠ Op.ins → lo + 1 ≤ j) : StepOkG wd pos store df h := by
  cases df
  · simp only [StepOkG, ruleOpG, Bool.false_eq_true, if_false] at hlo ⊢; exact stepOk_of_inv wd pos store st inv hlo
  · simp only [StepOkG, ruleOpG, if_true] at hlo ⊢; exact stepOkD_of_inv wd pos store st inv hlo

theorem ruleNext_sum (D : Nat → Nat → Nat) (i j : Nat) : (ruleNext D i j).1 + (ruleNext D i j).2 ≤ i + j := by
  unfold ruleNext
  cases h : ruleOp D i j with
  | mat => simp only; omega
  | sub => simp only; omega
  | ins => simp only; omega
  | del =>
    simp only
    have hj : j ≥ 1 := by
      unfold ruleOp at h
      split at h
      · cases h
      · split at h
        · cases h
        · split at h
          · rename_i c; exact c.1
          · cases h
    omega

/-- **the side conditions hold along the whole loop, which ends within `i + j` passes** -/
theorem runOk_of_inv (df : Bool) (st : Stored m (2 ^ wd - 1) q lo D S (readStore store pos)) :
    ∀ (F i j : Nat) (h : Handler w), HInvAny m (2 ^ wd - 1) q D S i j h → lo ≤ (walkG df D F i j).1 → i + j ≤ F →
      RunOk wd pos store df F h := by
  intro F
  induction F with
  | zero =>
    intro i j h inv _ hf
    have : i = 0 := by omega
    subst this
    simp only [HInvAny] at inv
    simp [RunOk, Handler.finished, inv]
  | succ F ih =>
    intro i j h inv hlo hf
    cases i with
    | zero =>
      simp only [HInvAny] at inv
      exact Or.inl (by simp [Handler.finished, inv])
    | succ i' =>
      simp only [HInvAny] at inv
      have hi := inv.hi
      rw [walkG_step] at hlo
      simp only at hlo
      have hle := walkG_start_le df D F (ruleNextG df D i' j).1 (ruleNextG df D i' j).2
      have hsnd := ruleNextG_snd df D i' j
      have hlo' : ruleOpG df D i' j ≠ Op.ins → lo + 1 ≤ j := by
        intro hne
        rw [if_neg hne] at hsnd
        cases j with
        | zero => exact absurd (ruleOpG_col0 df st i' hi) hne
        | succ j' => simp only [Nat.add_sub_cancel] at hsnd; omega
      obtain ⟨_, _, e3⟩ := iterG_spec df st inv hlo'
      have hsum := ruleNextG_sum df D i' j
      exact Or.inr ⟨stepOkG_of_inv wd pos store df st inv hlo', ih _ _ _ e3 hlo (by omega)⟩

end

/-- decode the bytes the translated code pushes -/
def opOfCode : Nat → Op
  | 0 => Op.mat
  | 1 => Op.sub
  | 2 => Op.ins
  | _ => Op.del

theorem opOfCode_opCode (o : Op) : opOfCode (opCode o) = o := by cases o <;> rfl

/-- **`traceback_source_sound` (pinned order of the tests)**: search `stop` symbols storing the columns in a ring of
`m + min(k, m) + 2` slots on top of arbitrary old contents (the model of `FullMatches`: `storeAll`, `seqStates` — `Traceback::new` /
`add_state` are not translated), then the **translated** `_traceback_at` at the slot of the last column, for a hit (`d ≤ k`):
no panic, the loop ends within the fuel, and `(h_offset, dist)` + the pushed operations are a hit accepted by `checkHit`:
start `stop − h_offset`, a valid alignment of the pattern with `t[start..stop]` of cost `dist`, `dist` minimal over all starts, `≤ k`. -/
theorem traceback_source_sound (w wd : Nat) (eqv : Nat → Nat → Bool) (p t : List Nat) (k stop : Nat) (old : List (St w))
    (hw1 : 1 < w) (hwd : wd < 64) (hw63 : w < 2 ^ 63) (hm1 : 1 ≤ p.length) (hw : p.length ≤ w) (hd : p.length < 2 ^ wd - 1)
    (hold : old.length = p.length + min k p.length + 2) (h1 : 1 ≤ stop) (hs : stop ≤ t.length) (hst : stop < 2 ^ wd - p.length)
    (d : Nat) (hdv : (lastRow (unitW eqv) p t)[stop - 1]? = some d) (hk : d ≤ k) :
    ∃ (off dist : Nat) (ops : List Op),
      RbV.Gen.SrcMyersTbLoop.tracebackAt (w := w) (wd := wd) (m := p.length)
          (pos := (stop + 1) % (p.length + min k p.length + 2)) (ops := some [])
          (state_slice := repS (storeAll (p.length + min k p.length + 2) old 0
            (seqStates w eqv p (2 ^ wd - 1) (t.take stop)))) (gas := p.length + stop + 1) =
        Res.ok (some (ops.map opCode), (off, dist)) ∧
      checkHit eqv p t k ⟨stop - off, stop, dist, ops.reverse⟩ = true := by
  let N := p.length + min k p.length + 2
  let store := storeAll N old 0 (seqStates w eqv p (2 ^ wd - 1) (t.take stop))
  have hN : 0 < N := by show 0 < p.length + min k p.length + 2; omega
  have hlen : store.length = N := by
    show (storeAll N old 0 _).length = N
    rw [storeAll_length]; exact hold
  have hp : (stop + 1) % N < store.length := by rw [hlen]; exact Nat.mod_lt _ hN
  have st := stored_concrete w eqv p (2 ^ wd - 1) N old t stop stop hm1 hw hd hN hold hs (Nat.le_refl _)
  obtain ⟨df, hstep⟩ := step_eqG wd ((stop + 1) % N) store hw1 hwd hw63 hp
  -- the walk of the order the text has, and its soundness
  obtain ⟨wa, wb⟩ := walkG_sound df eqv p t _ (isSellers_matrix eqv p t) (p.length + stop) p.length stop (Nat.le_refl _) hs
    (Nat.le_refl _)
  rw [Dm_matrix _ p t p.length stop (Nat.le_refl _) hs, List.take_length] at wb
  have hrow := RbV.Model.Ukkonen.lastRow_cell (unitW eqv) p t (stop - 1) (by omega)
  have e : stop - 1 + 1 = stop := by omega
  rw [e] at hrow
  have hcd : RbV.Model.Ukkonen.cell (unitW eqv) p (t.take stop) p.length = d := by
    rw [hdv] at hrow; injection hrow with hrow; exact hrow.symm
  -- the window: the walk ends at a column that is still in the ring
  have hlenA := acost_len eqv _ _ _ _ wb
  have hl := cell_le_len (unitW eqv) p (t.take stop) p.length
  simp only [List.length_drop, List.length_take] at hlenA
  have hwin : stop + 2 - N ≤ (walkG df (Dm (matrix (unitW eqv) p t)) (p.length + stop) p.length stop).1 := by
    show stop + 2 - (p.length + min k p.length + 2) ≤ _
    omega
  have hstart := start_inv st (by show stop + 2 - N + 1 ≤ stop + 1; omega)
  simp only [Nat.add_sub_cancel] at hstart
  have hrun := runOk_of_inv wd ((stop + 1) % N) store df st (p.length + stop) p.length stop _ hstart hwin (Nat.le_refl _)
  have hrd := tracebackRdG_eq df st (by omega) (p.length + stop) (by simpa using hwin)
  simp only [Nat.add_sub_cancel] at hrd
  have hinv := seqStates_inv w eqv p (2 ^ wd - 1) t hm1 hw stop hs
  -- the initial `move_up_left(true)`
  have r1 : readStore store ((stop + 1) % N) 1 = (seqStates w eqv p (2 ^ wd - 1) t).getD stop ⟨0#w, 0#w, 0⟩ := by
    have := st.rd 1 (by show 1 + (stop + 2 - N) ≤ stop + 1; omega)
    simpa using this
  obtain ⟨encL, dL⟩ := st.enc stop (by omega)
  have hdL : ((readStore store ((stop + 1) % N) 1).dist : Int) = colOf (Dm (matrix (unitW eqv) p t)) (2 ^ wd - 1) p.length stop p.length := by
    rw [r1]; exact dL
  have hcol : colOf (Dm (matrix (unitW eqv) p t)) (2 ^ wd - 1) p.length stop p.length =
      (Dm (matrix (unitW eqv) p t) p.length (stop - 1) : Int) := by
    unfold colOf; rw [if_neg (by omega)]
  have hbnd := st.bound p.length (stop - 1) (Nat.le_refl _) (by omega)
  have hs2 : (Handler.new p.length (readStore store ((stop + 1) % N))).left.dist + 1 < 2 ^ wd := by
    simp only [Handler.new]
    omega
  have hs1 : ((Handler.new p.length (readStore store ((stop + 1) % N))).left.pv &&&
      (Handler.new p.length (readStore store ((stop + 1) % N))).pos) ≠ 0#w →
      1 ≤ (Handler.new p.length (readStore store ((stop + 1) % N))).left.dist := by
    intro hne
    simp only [Handler.new] at hne ⊢
    have htp : (1#w <<< (p.length - 1)) = BitVec.twoPow w (p.length - 1) := (BitVec.twoPow_eq w _).symm
    rw [htp] at hne
    have hb : ((readStore store ((stop + 1) % N) 1).pv &&& BitVec.twoPow w (p.length - 1) != 0#w) = true := by simpa using hne
    rw [test_twoPow _ _ (by omega), r1] at hb
    have e1 := (encL.pvb (p.length - 1) (by omega)).mp hb
    have h0 := colOf_nonneg st stop (p.length - 1) (by omega)
    have e2 : p.length - 1 + 1 = p.length := by omega
    rw [e2] at e1
    omega
  have heq := tracebackAt_eq_model wd ((stop + 1) % N) store hw1 df hstep p.length hm1 hw (by omega) hp (p.length + stop)
    (some []) hs1 hs2 hrun (by omega)
  rw [hrd] at heq
  refine ⟨stop - (walkG df (Dm (matrix (unitW eqv) p t)) (p.length + stop) p.length stop).1,
    RbV.Model.Ukkonen.cell (unitW eqv) p (t.take stop) p.length,
    (walkG df (Dm (matrix (unitW eqv) p t)) (p.length + stop) p.length stop).2, ?_, ?_⟩
  · rw [heq]
    have hdist := hinv.dist
    simp only [List.getD_eq_getElem?_getD] at hdist
    simp [hdist]
  · have hst' : stop - (stop - (walkG df (Dm (matrix (unitW eqv) p t)) (p.length + stop) p.length stop).1) =
        (walkG df (Dm (matrix (unitW eqv) p t)) (p.length + stop) p.length stop).1 := by omega
    rw [hst']
    have hk' : RbV.Model.Ukkonen.cell (unitW eqv) p (t.take stop) p.length ≤ k := by rw [hcd]; exact hk
    unfold checkHit checkHitRow
    simp only [wa, h1, hs, wb, hrow, hk', decide_true, Bool.and_self, beq_self_eq_true]

end RbV.Thm.GenSrcMyersTbSound
