import RbV.Ref.Smem
import RbV.Model.FMDExt
import RbV.Model.FMDRev
import RbV.Model.FMDSym
import RbV.Lemmas.SmemsFmd
import RbV.Lemmas.FmdBridge
import RbV.Lemmas.FmdInitExt
import RbV.Thm.GenSrcFmdIndex
import RbV.Thm.GenSrcFmAccess
/-!
# C06 — FMD-index: SMEMs on both strands, `all_smems`, bi-interval extension

The oracles of the correspondence run are `checkSmems`, `checkAllSmems` and `checkBi` (`RbV/Ref/Smem.lean`), applied
to the text `T = fmdText seqs`, the suffix array as printed by the implementation, the pattern and the reported
matches / bi-intervals.  The theorems say that they accept exactly what the property states (`SmemsProp`,
`AllSmemsProp`, `BiIntervalOf` in `RbV/Spec/FMD.lean`), for all inputs.  Helper lemmas: `RbV/Ref/Smem.lean`, `RbV/Ref/BS.lean`.
-/
namespace RbV.Thm.C06
open RbV

/-- the brute-force enumeration lists exactly the supermaximal exact matches -/
theorem allSmemsRef_exact (T p : List Nat) (b len : Nat) :
    (b, len) ∈ allSmemsRef T p ↔ Smem T p b len :=
  mem_allSmemsRef T p b len

/-- **`smems(p, i, l)`**: accepted iff the reported (position, length) pairs are, as a set, exactly the supermaximal
matches covering `i` of length ≥ `l`, and the forward / reverse-complement intervals of every reported match lie in
the array and map to exactly the occurrences of the match / of its reverse complement -/
theorem checkSmems_iff (T sa p : List Nat) (i l : Nat) (res : List SmemObs) :
    checkSmems T sa p i l res = true ↔ SmemsProp T sa p i l res := by
  unfold checkSmems SmemsProp
  rw [checkAgainst_iff]
  simp only [mem_smemsRef]

/-- **`all_smems(p, l)`**: accepted iff every supermaximal match of length ≥ `l` is reported at least once, nothing
else is reported, and all reported intervals are right -/
theorem checkAllSmems_iff (T sa p : List Nat) (l : Nat) (res : List SmemObs) :
    checkAllSmems T sa p l res = true ↔ AllSmemsProp T sa p l res := by
  unfold checkAllSmems AllSmemsProp
  rw [checkAgainst_iff]
  simp only [mem_allSmemsMin]

/-- `all_smems` is the union over all pattern positions of `smems` (for `l ≥ 1`): a pair is a supermaximal match
of length ≥ l iff it is one for some covered position `i < |p|` -/
theorem allSmems_is_union (T p : List Nat) (l b len : Nat) :
    (Smem T p b len ∧ l ≤ len) ↔ ∃ i, i < p.length ∧ (Smem T p b len ∧ b ≤ i ∧ i < b + len ∧ l ≤ len) := by
  constructor
  · rintro ⟨h, hl⟩
    have h' := h
    obtain ⟨h1, h2, _⟩ := h'
    exact ⟨b, by omega, h, Nat.le_refl _, by omega, hl⟩
  · rintro ⟨i, _, h, _, _, hl⟩
    exact ⟨h, hl⟩

/-- **extension**: accepted iff the reported bi-interval is the bi-interval of the (extended) string `w`: size =
number of occurrences of `w` on both strands' intervals (hence empty iff `w` does not occur) and, when non-empty,
forward ↦ occurrences of `w`, reverse complement ↦ occurrences of `revcomp w` -/
theorem checkBi_iff (T sa w : List Nat) (o : BiObs) :
    checkBi T sa w o = true ↔ BiIntervalOf T sa w o := by
  simp only [checkBi, BiIntervalOf, Bool.and_eq_true, Bool.or_eq_true, decide_eq_true_eq, beq_iff_eq,
    mapsToB_iff, occurs_iff_length_pos, and_assoc]
  constructor
  · rintro ⟨h1, h2, h3, h4, h5⟩
    refine ⟨h1, h2, h3, h4, fun hne => ?_⟩
    rcases h5 with h5 | h5
    · exact absurd h5 hne
    · exact h5
  · rintro ⟨h1, h2, h3, h4, h5⟩
    refine ⟨h1, h2, h3, h4, ?_⟩
    by_cases hz : (occurrences w T).length = 0
    · exact Or.inl hz
    · exact Or.inr (h5 hz)

/-- a bi-interval of `w` is empty iff `w` does not occur -/
theorem bi_empty_iff (T sa w : List Nat) (o : BiObs) (h : BiIntervalOf T sa w o) :
    o.fhi - o.flo = 0 ↔ ¬ Occurs w T := by
  obtain ⟨_, _, h3, _, _⟩ := h
  rw [h3, occurs_iff_length_pos]; simp

/-- supermaximal matches are not nested: two different matches of the same pattern never contain one another
(so "supermaximal" = "cannot be extended on either side") -/
theorem smem_not_nested (T p : List Nat) (b len b' len' : Nat)
    (h : Smem T p b len) (h' : Smem T p b' len') (hb : b' ≤ b) (he : b + len ≤ b' + len') :
    b = b' ∧ len = len' := by
  obtain ⟨h1, h2, _, h4, h5⟩ := h
  obtain ⟨g1, g2, g3, _, _⟩ := h'
  -- every substring of the occurring `p[b' .. b'+len')` occurs
  have key : ∀ c l, b' ≤ c → c + l ≤ b' + len' → Occurs (sub p c l) T := by
    intro c l hc hl
    have e : sub p c l = ((sub p b' len').drop (c - b')).take l := by
      unfold sub
      rw [List.drop_take, List.drop_drop, List.take_take]
      congr 1
      · omega
      · congr 1; omega
    rw [e]
    exact occurs_take _ _ _ (occurs_drop _ _ _ g3)
  by_cases hbb : b' < b
  · rcases h4 with h4 | h4
    · omega
    · exact absurd (key (b - 1) (len + 1) (by omega) (by omega)) h4
  · have : b = b' := by omega
    subst this
    by_cases hll : len < len'
    · rcases h5 with h5 | h5
      · omega
      · exact absurd (key b (len + 1) (Nat.le_refl _) (by omega)) h5
    · exact ⟨rfl, by omega⟩

/-! Non-vacuity: `T = ATTC$GAAT$` of the doc test (`$`=36 A=65 C=67 G=71 T=84), suffix array of that text,
pattern `ATT`: one supermaximal match (0,3); forward ↦ {0}, reverse complement `AAT` ↦ {6}. -/
section examples
private def T0 : List Nat := fmdText [[65, 84, 84, 67]]
private def sa0 : List Nat := [9, 4, 6, 7, 0, 3, 5, 8, 2, 1]

example : T0 = [65, 84, 84, 67, 36, 71, 65, 65, 84, 36] := by decide
example : allSmemsRef T0 [65, 84, 84] = [(0, 3)] := by decide
example : checkSmems T0 sa0 [65, 84, 84] 2 1 [⟨0, 3, 4, 5, 2, 3⟩] = true := by decide
example : checkSmems T0 sa0 [65, 84, 84] 2 1 [] = false := by decide
example : checkSmems T0 sa0 [65, 84, 84] 2 1 [⟨0, 3, 4, 5, 3, 4⟩] = false := by decide
example : checkSmems T0 sa0 [65, 84, 84] 2 4 [] = true := by decide
example : checkAllSmems T0 sa0 [65, 84, 84] 1 [⟨0, 3, 4, 5, 2, 3⟩, ⟨0, 3, 4, 5, 2, 3⟩] = true := by decide
-- pattern ATG: matches AT (0,2) and G (2,1)
example : allSmemsRef T0 [65, 84, 71] = [(0, 2), (2, 1)] := by decide
-- bi-interval of "AT": occurrences {0, 7}; revcomp "AT" is itself
example : checkBi T0 sa0 [65, 84] ⟨3, 5, 3, 5⟩ = true := by decide
example : checkBi T0 sa0 [65, 84] ⟨3, 4, 3, 4⟩ = false := by decide
-- "CC" does not occur: only an empty bi-interval is accepted
example : checkBi T0 sa0 [67, 67] ⟨5, 5, 2, 2⟩ = true := by decide
example : checkBi T0 sa0 [67, 67] ⟨5, 6, 2, 3⟩ = false := by decide
example : SmemsProp T0 sa0 [65, 84, 84] 2 1 [⟨0, 3, 4, 5, 2, 3⟩] := (checkSmems_iff ..).mp (by decide)
end examples

/-! ## [C] mirror model of `backward_ext` / `forward_ext` / `init_interval_with`

`FMDModel.backwardExt less occ iv a` (`RbV/Model/FMDExt.lean`) follows the Rust loop over `$TGCNAtgcna` line by
line.  Proved: its **forward** interval and its size are the LF step of C05 (so they are exactly the rows of `a·P`
on every `LF.Sorted` array).  The reverse-strand lower bound, i.e.

    IvOf t sa (revcomp P) iv.lowerRev (iv.lowerRev + iv.size) →
    IvOf t sa (revcomp (a :: P)) (backwardExt … iv a).lowerRev ((backwardExt … iv a).lowerRev + (backwardExt … iv a).size)

for `t = fmdText seqs`, needs (i) strand symmetry of occurrence counts in `fmdText` and (ii) "rows starting with
`Q` are ordered by the symbol after `Q`"; both are proved below (`strand_symmetry`, `FMDModel.next_mono`), and the
full statements are `backward_ext_correct` / `forward_ext_correct` at the end of this section (the `…_partial`
theorems are the stages on the way and stay valid).  `init_interval_with_correct` and `chain_correct` cover the start and the composition.  Still sampled only: extension of the
empty string's interval (`init_interval()`), extension of an empty bi-interval, and Li's sweep (`smems`) itself.
The driver runs the model next to the implementation on every extension chain (tag `model=impl` / `drift`). -/

/-- the order string of the loop is the byte order of the complements: `$ < A < C < G < N < T < a < c < g < n < t`
read through `dnaCompl` -/
theorem order_is_complement_order :
    FMDModel.order.map dnaCompl = [36, 65, 67, 71, 78, 84, 97, 99, 103, 110, 116] ∧
    (FMDModel.order.map dnaCompl).Pairwise (· < ·) := by decide

/-- forward half of `backward_ext` on a sorted array: if `[lower, lower+size)` are exactly the rows whose suffix
starts with `P` (non-empty interval), then after `backward_ext(·, a)` they are exactly the rows whose suffix starts
with `a·P`; in particular the new size is the number of such rows -/
theorem backward_ext_forward_partial (t sa : List Nat) (a : Nat) (P : List Nat) (iv : FMDModel.Bi)
    (ha : a ∈ FMDModel.order) (hs : LF.Sorted t sa a)
    (hiv : BSModel.IvOf t sa P iv.lower (iv.lower + iv.size)) (hne : 0 < iv.size) :
    BSModel.IvOf t sa (a :: P)
      (FMDModel.backwardExt (LF.lessRef (LF.bwtOf t sa)) (LF.occRef (LF.bwtOf t sa)) iv a).lower
      ((FMDModel.backwardExt (LF.lessRef (LF.bwtOf t sa)) (LF.occRef (LF.bwtOf t sa)) iv a).lower +
        (FMDModel.backwardExt (LF.lessRef (LF.bwtOf t sa)) (LF.occRef (LF.bwtOf t sa)) iv a).size) :=
  FMDModel.backwardExt_forward t sa _ _ a P iv ha (LF.lfStep_of_sorted hs) hiv hne

/-- reverse-strand half of `backward_ext`, **reduced to strand symmetry** (partial): on an array passing
`LF.sortedAllB`, if the reverse interval of `iv` holds exactly the rows of the sentinel-free `Q` (= `revcomp P`),
every such row is followed by a symbol of `$ACGTNacgtn`, and for every symbol `b` of the loop's order string the
size the loop computes for `b` (rows of `P`'s interval with BWT symbol `b`) equals the number of rows of
`Q·complement(b)` — strand symmetry of the indexed text, a property of the construction `s $ revcomp(s) $`, not of
the algorithm — then the new `[lower_rev, lower_rev+size)` are exactly the rows of `Q·complement(a) = revcomp(a·P)`.
Ingredients proved on the way (`RbV/Model/FMDRev.lean`): rows of `Q` are ordered by the symbol after `Q`
(`next_mono`), the block lemma for monotone keys (`mono_block`), the loop returns `lower_rev + Σ_{b before a} size_b`
(`extLoop_fst`), and `v < complement a ⇔ v = complement b for some b before a` on the order string (`lt_iff_before`).
Missing for the full statement: deriving the three hypotheses `hin`, `halpha`, `hsym` from `t = fmdText seqs`. -/
theorem backward_ext_reverse_partial (t sa : List Nat) (less : Nat → Nat) (occ : Nat → Nat → Nat) (a : Nat)
    (Q : List Nat) (iv : FMDModel.Bi) (ha : a ∈ FMDModel.order)
    (hchk : LF.sortedAllB t sa = true)
    (hQ : ∀ q ∈ Q, t.getD (t.length - 1) 0 ≠ q)
    (hiv : BSModel.IvOf t sa Q iv.lowerRev (iv.lowerRev + iv.size))
    (hin : ∀ r, iv.lowerRev ≤ r → r < iv.lowerRev + iv.size → sa.getD r 0 + Q.length < t.length)
    (halpha : ∀ r, iv.lowerRev ≤ r → r < iv.lowerRev + iv.size →
      t.getD (sa.getD r 0 + Q.length) 0 ∈ FMDModel.compOrder)
    (hsym : ∀ b ∈ FMDModel.order, FMDModel.cntOf occ iv b =
      (List.range iv.size).countP (fun i => t.getD (sa.getD (iv.lowerRev + i) 0 + Q.length) 0 == dnaCompl b)) :
    BSModel.IvOf t sa (Q ++ [dnaCompl a]) (FMDModel.backwardExt less occ iv a).lowerRev
      ((FMDModel.backwardExt less occ iv a).lowerRev + (FMDModel.backwardExt less occ iv a).size) :=
  FMDModel.backwardExt_reverse t sa less occ a Q iv ha hchk hQ hiv hin halpha hsym

/-- the same on an FMD text `fmdText seqs` (sequences over `ACGTNacgtn`): the two side conditions are discharged
(the text ends with `$`, every occurrence of a DNA string is followed by a text symbol, all text symbols are in
`$ACGTNacgtn`); **only strand symmetry `hsym` remains a hypothesis**. -/
theorem backward_ext_reverse_fmd_partial (seqs : List (List Nat)) (sa : List Nat) (less : Nat → Nat)
    (occ : Nat → Nat → Nat) (a : Nat) (Q : List Nat) (iv : FMDModel.Bi) (ha : a ∈ FMDModel.order)
    (hne : seqs ≠ []) (hseqs : ∀ s ∈ seqs, ∀ c ∈ s, FMDModel.isDna c = true)
    (hchk : LF.sortedAllB (fmdText seqs) sa = true)
    (hQ : ∀ q ∈ Q, FMDModel.isDna q = true)
    (hiv : BSModel.IvOf (fmdText seqs) sa Q iv.lowerRev (iv.lowerRev + iv.size))
    (hsym : ∀ b ∈ FMDModel.order, FMDModel.cntOf occ iv b =
      (List.range iv.size).countP
        (fun i => (fmdText seqs).getD (sa.getD (iv.lowerRev + i) 0 + Q.length) 0 == dnaCompl b)) :
    BSModel.IvOf (fmdText seqs) sa (Q ++ [dnaCompl a]) (FMDModel.backwardExt less occ iv a).lowerRev
      ((FMDModel.backwardExt less occ iv a).lowerRev + (FMDModel.backwardExt less occ iv a).size) :=
  FMDModel.backwardExt_reverse_fmd seqs sa less occ a Q iv ha hne hseqs hchk hQ hiv hsym

/-- `revcomp (a :: P) = revcomp P ++ [complement a]` — the string whose rows the reverse interval has to hold -/
theorem revcomp_cons (a : Nat) (P : List Nat) : revcomp (a :: P) = revcomp P ++ [dnaCompl a] := by
  simp [revcomp]

/-- **strand symmetry** of an FMD text: for `W` of length ≥ 2 with no sentinel after its first symbol, the number of
occurrences of `W` in `$·T` (T with the cyclic predecessor of position 0, as the BWT sees it) equals the number of
occurrences of `revcomp W` in `T = fmdText seqs`, for every list of sequences -/
theorem strand_symmetry (seqs : List (List Nat)) (W : List Nat) (hW2 : 2 ≤ W.length)
    (hWns : ∀ k, 1 ≤ k → k < W.length → W[k]? ≠ some 36) :
    (occurrences W (36 :: fmdText seqs)).length = (occurrences (revcomp W) (fmdText seqs)).length :=
  FMDSym.strand_symmetry seqs W hW2 hWns

/-- reversal alone never changes the number of occurrences (any strings) -/
theorem occurrences_revcomp_length (W X : List Nat) :
    (occurrences W X).length = (occurrences (revcomp W) (revcomp X)).length :=
  FMDSym.occurrences_revcomp_length W X

/-- **`backward_ext` is correct (full statement).**  Index over `fmdText seqs` (non-empty list of sequences over
`ACGTNacgtn`), suffix array passing `LF.sortedAllB`, `iv` the non-empty bi-interval of the non-empty DNA string `P`
(forward rows = rows of `P`, reverse rows = rows of `revcomp P`): then the mirror model of `backward_ext(iv, a)`,
run on `less`/`occ` of the BWT, is the bi-interval of `a·P`, for every `a` of `ACGTNacgtn`. -/
theorem backward_ext_correct (seqs : List (List Nat)) (sa P : List Nat) (iv : FMDModel.Bi) (a : Nat)
    (hne : seqs ≠ []) (hseqs : ∀ s ∈ seqs, ∀ c ∈ s, FMDModel.isDna c = true)
    (hchk : LF.sortedAllB (fmdText seqs) sa = true)
    (hP : P ≠ []) (hPd : ∀ q ∈ P, FMDModel.isDna q = true) (ha : FMDModel.isDna a = true)
    (hbi : FMDSym.BiOf (fmdText seqs) sa P iv) (hpos : 0 < iv.size) :
    FMDSym.BiOf (fmdText seqs) sa (a :: P)
      (FMDModel.backwardExt (LF.lessRef (LF.bwtOf (fmdText seqs) sa)) (LF.occRef (LF.bwtOf (fmdText seqs) sa)) iv a) :=
  FMDSym.backwardExt_correct seqs sa P iv a hne hseqs hchk hP hPd ha hbi hpos

/-- **`forward_ext` is correct (full statement)**: … is the bi-interval of `P·a` -/
theorem forward_ext_correct (seqs : List (List Nat)) (sa P : List Nat) (iv : FMDModel.Bi) (a : Nat)
    (hne : seqs ≠ []) (hseqs : ∀ s ∈ seqs, ∀ c ∈ s, FMDModel.isDna c = true)
    (hchk : LF.sortedAllB (fmdText seqs) sa = true)
    (hP : P ≠ []) (hPd : ∀ q ∈ P, FMDModel.isDna q = true) (ha : FMDModel.isDna a = true)
    (hbi : FMDSym.BiOf (fmdText seqs) sa P iv) (hpos : 0 < iv.size) :
    FMDSym.BiOf (fmdText seqs) sa (P ++ [a])
      (FMDModel.forwardExt (LF.lessRef (LF.bwtOf (fmdText seqs) sa)) (LF.occRef (LF.bwtOf (fmdText seqs) sa)) iv a) :=
  FMDSym.forwardExt_correct seqs sa P iv a hne hseqs hchk hP hPd ha hbi hpos

/-- **`init_interval_with(a)` is the bi-interval of the one-symbol string `a`** (uses that a DNA symbol and its
complement are equally frequent in an FMD text: `FMDSym.count_symmetry`) -/
theorem init_interval_with_correct (seqs : List (List Nat)) (sa : List Nat) (a : Nat)
    (hne : seqs ≠ []) (hchk : LF.sortedAllB (fmdText seqs) sa = true) (ha : FMDModel.isDna a = true) :
    FMDSym.BiOf (fmdText seqs) sa [a] (FMDModel.initIntervalWith (LF.lessRef (LF.bwtOf (fmdText seqs) sa)) a) :=
  FMDSym.initIntervalWith_correct seqs sa a hne hchk ha

/-- **chains** (what `smems` and the harness do): starting from `init_interval_with(w[j])`, every forward step
turns the bi-interval of `w[lo..hi)` into that of `w[lo..hi+1)` and every backward step into that of `w[lo-1..hi)`,
as long as the current bi-interval is non-empty — so every bi-interval a chain visits is the bi-interval of the
substring built so far -/
theorem chain_correct (seqs : List (List Nat)) (sa w : List Nat)
    (hne : seqs ≠ []) (hseqs : ∀ s ∈ seqs, ∀ c ∈ s, FMDModel.isDna c = true)
    (hchk : LF.sortedAllB (fmdText seqs) sa = true) (hw : ∀ c ∈ w, FMDModel.isDna c = true) :
    (∀ j, j < w.length →
      FMDSym.BiOf (fmdText seqs) sa (sub w j (j + 1 - j))
        (FMDModel.initIntervalWith (LF.lessRef (LF.bwtOf (fmdText seqs) sa)) (w.getD j 0))) ∧
    (∀ iv lo hi, lo < hi → hi < w.length → FMDSym.BiOf (fmdText seqs) sa (sub w lo (hi - lo)) iv → 0 < iv.size →
      FMDSym.BiOf (fmdText seqs) sa (sub w lo (hi + 1 - lo))
        (FMDModel.forwardExt (LF.lessRef (LF.bwtOf (fmdText seqs) sa)) (LF.occRef (LF.bwtOf (fmdText seqs) sa)) iv
          (w.getD hi 0))) ∧
    (∀ iv lo hi, 1 ≤ lo → lo < hi → hi ≤ w.length → FMDSym.BiOf (fmdText seqs) sa (sub w lo (hi - lo)) iv →
      0 < iv.size →
      FMDSym.BiOf (fmdText seqs) sa (sub w (lo - 1) (hi - (lo - 1)))
        (FMDModel.backwardExt (LF.lessRef (LF.bwtOf (fmdText seqs) sa)) (LF.occRef (LF.bwtOf (fmdText seqs) sa)) iv
          (w.getD (lo - 1) 0))) :=
  ⟨fun j hj => FMDSym.chain_start seqs sa w j hne hchk hw hj,
   fun iv lo hi h1 h2 h3 h4 => FMDSym.chain_step_forward seqs sa w iv lo hi hne hseqs hchk hw h1 h2 h3 h4,
   fun iv lo hi h0 h1 h2 h3 h4 => FMDSym.chain_step_backward seqs sa w iv lo hi hne hseqs hchk hw h0 h1 h2 h3 h4⟩

/-- row-level correctness implies the property-level statement the oracle checks (`BiIntervalOf`, decided by
`checkBi`): size = number of occurrences on both strands, both intervals map to the right occurrence sets -/
theorem biOf_is_biIntervalOf (T sa P : List Nat) (iv : FMDModel.Bi) (hperm : sa.Perm (List.range T.length))
    (hP : P ≠ []) (h : FMDSym.BiOf T sa P iv) :
    BiIntervalOf T sa P ⟨iv.lower, iv.lower + iv.size, iv.lowerRev, iv.lowerRev + iv.size⟩ :=
  FMDSym.biIntervalOf_of_biOf T sa P iv hperm hP h

section model_examples
-- T = ATTC$GAAT$, the doc test: backward_ext / forward_ext of the empty interval by `T` = init_interval_with(T)
private def bw0 : List Nat := LF.bwtOf T0 sa0
example : FMDModel.backwardExt (LF.lessRef bw0) (LF.occRef bw0) (FMDModel.initInterval 10) 84
    = { FMDModel.initIntervalWith (LF.lessRef bw0) 84 with matchSize := 1 } := by decide
example : FMDModel.forwardExt (LF.lessRef bw0) (LF.occRef bw0) (FMDModel.initInterval 10) 84
    = FMDModel.initIntervalWith (LF.lessRef bw0) 84 := by decide
-- A then T forwards: the bi-interval of "AT" accepted by the oracle above (rows 3..5 on both strands)
example : FMDModel.fwd (FMDModel.forwardExt (LF.lessRef bw0) (LF.occRef bw0) (FMDModel.initIntervalWith (LF.lessRef bw0) 65) 84)
    = (3, 5) := by decide
-- non-vacuity of `backward_ext_correct`: the doc-test index passes `sortedAllB`, and the model's bi-interval of
-- "T" extended backwards by "A" is the bi-interval of "AT" accepted by `checkBi` above
example : LF.sortedAllB T0 sa0 = true := by decide
example : FMDModel.backwardExt (LF.lessRef bw0) (LF.occRef bw0) (FMDModel.initIntervalWith (LF.lessRef bw0) 84) 65
    = { lower := 3, lowerRev := 3, size := 2, matchSize := 2 } := by decide
end model_examples

/-! ## [C] mirror model of Li's sweep: `smems` and `all_smems`

`SmemModel.smems ops pattern i l` / `SmemModel.allSmems ops pattern l` (`RbV/Model/Smems.lean`) follow
`FMDIndex::smems` / `all_smems` line by line over an abstract interval type with the four operations the code uses.
`SmemModel.biOps less occ` instantiates them with the bi-interval model of `RbV/Model/FMDExt.lean` (this is what
the implementation computes; the driver runs it on every `smems` line, tag `smems-model=impl` / `drift-smems`);
`SmemModel.strOps (cnt T pattern)` is the string-level model: an interval is the substring `pattern[b..e)` it stands
for, its size the number of occurrences of that substring (`smemsStr`, `allSmemsStr`).

Proof route (`RbV/Lemmas/Smems*.lean`): the nested loops are replaced by a plain recursion (`outer_eq_spec`: in round
`k` only the first, longest candidate can be reported — the `curr.is_empty()`, `k < j`, `last_size` bookkeeping);
the string-level sweep is correct given two laws of occurrence counts (`smems_abs_correct`: forward phase records the
right-maximal extensions of `pattern[i..i+1)` at the count drops, `Inv` is the invariant of the backward phase);
occurrence counts satisfy the laws (`countLaws_cnt`); any operations that implement the string-level ones run in
lock-step with them (`sim_smems`), and the FMD bi-interval operations do (`simHyp_fmd`, from `chain_correct`, plus
"extending an empty bi-interval with non-zero lower bounds gives an empty one"). -/

/-- **the string-level model of `smems(pattern, i, l)` is correct** (`l ≥ 1`, `i < |pattern|`): it returns, as a set,
exactly the supermaximal exact matches covering `i` of length ≥ `l` — everything returned is such a match (cannot
be extended to the left or to the right), and every such match is returned -/
theorem smems_model_correct (T pat : List Nat) (i l : Nat) (hi : i < pat.length) (hl : 1 ≤ l) (b len : Nat) :
    (b, len) ∈ SmemModel.smemsStr T pat i l ↔ (Smem T pat b len ∧ b ≤ i ∧ i < b + len ∧ l ≤ len) := by
  rw [SmemModel.smemsStr_correct T pat i l hi hl, mem_smemsRef]

/-- … i.e. the same set as the brute-force reference `smemsRef` the driver's oracle uses -/
theorem smems_model_eq_ref (T pat : List Nat) (i l : Nat) (hi : i < pat.length) (hl : 1 ≤ l) :
    sameSetG (SmemModel.smemsStr T pat i l) (smemsRef T pat i l) = true := by
  rw [sameSetG_iff]
  rintro ⟨b, len⟩
  exact SmemModel.smemsStr_correct T pat i l hi hl b len

/-- **the string-level model of `all_smems(pattern, l)` is correct** (`l ≥ 1`): every supermaximal exact match of
length ≥ `l` appears at least once, nothing else appears (the positions visited by the `while` loop cover every match
because matches are not nested) -/
theorem all_smems_model_correct (T pat : List Nat) (l : Nat) (hl : 1 ≤ l) (b len : Nat) :
    (b, len) ∈ SmemModel.allSmemsStr T pat l ↔ (Smem T pat b len ∧ l ≤ len) := by
  rw [SmemModel.allSmemsStr_correct T pat l hl, mem_allSmemsMin]

/-- **bi-interval model = string-level model**: on every FMD index (sequences and pattern over `ACGTNacgtn`, array
passing `LF.sortedAllB`) the sweep over the bi-interval operations reports the same (position, length) pairs as the
string-level sweep, in the same order -/
theorem smems_bi_model_eq_string (seqs : List (List Nat)) (sa pat : List Nat)
    (hne : seqs ≠ []) (hseqs : ∀ s ∈ seqs, ∀ c ∈ s, FMDModel.isDna c = true)
    (hchk : LF.sortedAllB (fmdText seqs) sa = true) (hpat : ∀ c ∈ pat, FMDModel.isDna c = true)
    (i l : Nat) (hi : i < pat.length) :
    (SmemModel.smems (SmemModel.biOps (LF.lessRef (LF.bwtOf (fmdText seqs) sa)) (LF.occRef (LF.bwtOf (fmdText seqs) sa)))
      pat i l).map (fun h => (h.pos, h.len)) = SmemModel.smemsStr (fmdText seqs) pat i l :=
  SmemModel.smems_bi_eq_str seqs sa pat hne hseqs hchk hpat i l hi

/-- **the mirror model of `FMDIndex::smems` satisfies the property**: run on `less`/`occ` of the BWT of an FMD
index, for `i < |pattern|` and `l ≥ 1`, its output (as the harness prints it: position, length, `forward()` and
`revcomp()` intervals) is, as a set, exactly the supermaximal exact matches covering `i` of length ≥ `l`, and both
intervals of every reported match map to exactly the occurrences of the match / of its reverse complement -/
theorem smems_bi_model_correct (seqs : List (List Nat)) (sa pat : List Nat)
    (hne : seqs ≠ []) (hseqs : ∀ s ∈ seqs, ∀ c ∈ s, FMDModel.isDna c = true)
    (hchk : LF.sortedAllB (fmdText seqs) sa = true) (hpat : ∀ c ∈ pat, FMDModel.isDna c = true)
    (i l : Nat) (hi : i < pat.length) (hl : 1 ≤ l) :
    SmemsProp (fmdText seqs) sa pat i l
      ((SmemModel.smems (SmemModel.biOps (LF.lessRef (LF.bwtOf (fmdText seqs) sa))
        (LF.occRef (LF.bwtOf (fmdText seqs) sa))) pat i l).map SmemModel.hitObs) :=
  SmemModel.smems_bi_prop seqs sa pat hne hseqs hchk hpat i l hi hl

/-- **the mirror model of `FMDIndex::all_smems` satisfies the property** -/
theorem all_smems_bi_model_correct (seqs : List (List Nat)) (sa pat : List Nat)
    (hne : seqs ≠ []) (hseqs : ∀ s ∈ seqs, ∀ c ∈ s, FMDModel.isDna c = true)
    (hchk : LF.sortedAllB (fmdText seqs) sa = true) (hpat : ∀ c ∈ pat, FMDModel.isDna c = true)
    (l : Nat) (hl : 1 ≤ l) :
    AllSmemsProp (fmdText seqs) sa pat l
      ((SmemModel.allSmems (SmemModel.biOps (LF.lessRef (LF.bwtOf (fmdText seqs) sa))
        (LF.occRef (LF.bwtOf (fmdText seqs) sa))) pat l).map SmemModel.hitObs) :=
  SmemModel.allSmems_bi_prop seqs sa pat hne hseqs hchk hpat l hl

/-- … hence the oracle accepts the model's output: on every FMD index the checker and the mirror model agree -/
theorem smems_model_accepted (seqs : List (List Nat)) (sa pat : List Nat)
    (hne : seqs ≠ []) (hseqs : ∀ s ∈ seqs, ∀ c ∈ s, FMDModel.isDna c = true)
    (hchk : LF.sortedAllB (fmdText seqs) sa = true) (hpat : ∀ c ∈ pat, FMDModel.isDna c = true)
    (i l : Nat) (hi : i < pat.length) (hl : 1 ≤ l) :
    checkSmems (fmdText seqs) sa pat i l
      ((SmemModel.smems (SmemModel.biOps (LF.lessRef (LF.bwtOf (fmdText seqs) sa))
        (LF.occRef (LF.bwtOf (fmdText seqs) sa))) pat i l).map SmemModel.hitObs) = true :=
  (checkSmems_iff _ _ _ _ _ _).mpr (smems_bi_model_correct seqs sa pat hne hseqs hchk hpat i l hi hl)

/-! ### no sortedness hypothesis left: arrays accepted by C03's checker

`checkSA t sa = true ↔ IsSA t sa` (`RbV.Thm.C03.checkSA_iff`).  In an FMD text the sentinel is the last and the
smallest symbol, so every accepted array passes `LF.sortedAllB` (`RbV/Lemmas/SortedBridge.lean`,
`RbV/Lemmas/FmdBridge.lean`) and all theorems above apply. -/

/-- every suffix array C03's checker accepts for an FMD text satisfies the sortedness hypothesis `LF.sortedAllB` of
`backward_ext_correct`, `forward_ext_correct`, `init_interval_with_correct`, `chain_correct` and the sweep theorems -/
theorem sortedAllB_of_checkSA (seqs : List (List Nat)) (sa : List Nat) (hne : seqs ≠ [])
    (hseqs : ∀ s ∈ seqs, ∀ c ∈ s, FMDModel.isDna c = true) (hc : checkSA (fmdText seqs) sa = true) :
    LF.sortedAllB (fmdText seqs) sa = true :=
  SmemModel.sortedAllB_of_checkSA_fmd seqs sa hne hseqs hc

/-- `backward_ext` on every array accepted by C03's checker -/
theorem backward_ext_correct_of_checkSA (seqs : List (List Nat)) (sa P : List Nat) (iv : FMDModel.Bi) (a : Nat)
    (hne : seqs ≠ []) (hseqs : ∀ s ∈ seqs, ∀ c ∈ s, FMDModel.isDna c = true)
    (hc : checkSA (fmdText seqs) sa = true)
    (hP : P ≠ []) (hPd : ∀ q ∈ P, FMDModel.isDna q = true) (ha : FMDModel.isDna a = true)
    (hbi : FMDSym.BiOf (fmdText seqs) sa P iv) (hpos : 0 < iv.size) :
    FMDSym.BiOf (fmdText seqs) sa (a :: P)
      (FMDModel.backwardExt (LF.lessRef (LF.bwtOf (fmdText seqs) sa)) (LF.occRef (LF.bwtOf (fmdText seqs) sa)) iv a) :=
  backward_ext_correct seqs sa P iv a hne hseqs (sortedAllB_of_checkSA seqs sa hne hseqs hc) hP hPd ha hbi hpos

/-- `forward_ext` on every array accepted by C03's checker -/
theorem forward_ext_correct_of_checkSA (seqs : List (List Nat)) (sa P : List Nat) (iv : FMDModel.Bi) (a : Nat)
    (hne : seqs ≠ []) (hseqs : ∀ s ∈ seqs, ∀ c ∈ s, FMDModel.isDna c = true)
    (hc : checkSA (fmdText seqs) sa = true)
    (hP : P ≠ []) (hPd : ∀ q ∈ P, FMDModel.isDna q = true) (ha : FMDModel.isDna a = true)
    (hbi : FMDSym.BiOf (fmdText seqs) sa P iv) (hpos : 0 < iv.size) :
    FMDSym.BiOf (fmdText seqs) sa (P ++ [a])
      (FMDModel.forwardExt (LF.lessRef (LF.bwtOf (fmdText seqs) sa)) (LF.occRef (LF.bwtOf (fmdText seqs) sa)) iv a) :=
  forward_ext_correct seqs sa P iv a hne hseqs (sortedAllB_of_checkSA seqs sa hne hseqs hc) hP hPd ha hbi hpos

/-- `init_interval_with` on every array accepted by C03's checker -/
theorem init_interval_with_correct_of_checkSA (seqs : List (List Nat)) (sa : List Nat) (a : Nat)
    (hne : seqs ≠ []) (hseqs : ∀ s ∈ seqs, ∀ c ∈ s, FMDModel.isDna c = true)
    (hc : checkSA (fmdText seqs) sa = true) (ha : FMDModel.isDna a = true) :
    FMDSym.BiOf (fmdText seqs) sa [a] (FMDModel.initIntervalWith (LF.lessRef (LF.bwtOf (fmdText seqs) sa)) a) :=
  init_interval_with_correct seqs sa a hne (sortedAllB_of_checkSA seqs sa hne hseqs hc) ha

/-- **`smems` on every array accepted by C03's checker**: for every list of sequences and every pattern over
`ACGTNacgtn`, every `sa` with `checkSA (fmdText seqs) sa = true`, `i < |pattern|`, `l ≥ 1`, the mirror model returns
exactly what the property demands -/
theorem smems_bi_model_correct_of_checkSA (seqs : List (List Nat)) (sa pat : List Nat)
    (hne : seqs ≠ []) (hseqs : ∀ s ∈ seqs, ∀ c ∈ s, FMDModel.isDna c = true)
    (hc : checkSA (fmdText seqs) sa = true) (hpat : ∀ c ∈ pat, FMDModel.isDna c = true)
    (i l : Nat) (hi : i < pat.length) (hl : 1 ≤ l) :
    SmemsProp (fmdText seqs) sa pat i l
      ((SmemModel.smems (SmemModel.biOps (LF.lessRef (LF.bwtOf (fmdText seqs) sa))
        (LF.occRef (LF.bwtOf (fmdText seqs) sa))) pat i l).map SmemModel.hitObs) :=
  smems_bi_model_correct seqs sa pat hne hseqs (sortedAllB_of_checkSA seqs sa hne hseqs hc) hpat i l hi hl

/-- **`all_smems` on every array accepted by C03's checker** -/
theorem all_smems_bi_model_correct_of_checkSA (seqs : List (List Nat)) (sa pat : List Nat)
    (hne : seqs ≠ []) (hseqs : ∀ s ∈ seqs, ∀ c ∈ s, FMDModel.isDna c = true)
    (hc : checkSA (fmdText seqs) sa = true) (hpat : ∀ c ∈ pat, FMDModel.isDna c = true)
    (l : Nat) (hl : 1 ≤ l) :
    AllSmemsProp (fmdText seqs) sa pat l
      ((SmemModel.allSmems (SmemModel.biOps (LF.lessRef (LF.bwtOf (fmdText seqs) sa))
        (LF.occRef (LF.bwtOf (fmdText seqs) sa))) pat l).map SmemModel.hitObs) :=
  all_smems_bi_model_correct seqs sa pat hne hseqs (sortedAllB_of_checkSA seqs sa hne hseqs hc) hpat l hl

/-! ### the two cases `chain_correct` leaves out: extension of `init_interval()` and of an empty bi-interval -/

/-- **extension of `init_interval()`** (the bi-interval of the empty string, `[0, n)` on both strands): on every FMD
index, `backward_ext(init_interval(), a)` and `forward_ext(init_interval(), a)` both equal `init_interval_with(a)` —
field by field, `match_size` included — for every `a` of `ACGTNacgtn`, hence are the bi-interval of the one-symbol
string `a` -/
theorem init_interval_ext_correct (seqs : List (List Nat)) (sa : List Nat) (a : Nat)
    (hne : seqs ≠ []) (hseqs : ∀ s ∈ seqs, ∀ c ∈ s, FMDModel.isDna c = true)
    (hchk : LF.sortedAllB (fmdText seqs) sa = true) (ha : FMDModel.isDna a = true) :
    FMDModel.backwardExt (LF.lessRef (LF.bwtOf (fmdText seqs) sa)) (LF.occRef (LF.bwtOf (fmdText seqs) sa))
        (FMDModel.initInterval sa.length) a = FMDModel.initIntervalWith (LF.lessRef (LF.bwtOf (fmdText seqs) sa)) a ∧
    FMDModel.forwardExt (LF.lessRef (LF.bwtOf (fmdText seqs) sa)) (LF.occRef (LF.bwtOf (fmdText seqs) sa))
        (FMDModel.initInterval sa.length) a = FMDModel.initIntervalWith (LF.lessRef (LF.bwtOf (fmdText seqs) sa)) a ∧
    FMDSym.BiOf (fmdText seqs) sa [a]
      (FMDModel.backwardExt (LF.lessRef (LF.bwtOf (fmdText seqs) sa)) (LF.occRef (LF.bwtOf (fmdText seqs) sa))
        (FMDModel.initInterval sa.length) a) := by
  have hperm : sa.Perm (List.range (fmdText seqs).length) := by
    simp only [LF.sortedAllB, Bool.and_eq_true] at hchk
    exact List.isPerm_iff.mp hchk.1
  have h1 := SmemModel.backwardExt_initInterval seqs sa hne hseqs hperm a ha
  refine ⟨h1, SmemModel.forwardExt_initInterval seqs sa hne hseqs hperm a ha, ?_⟩
  rw [h1]
  exact init_interval_with_correct seqs sa a hne hchk ha

/-- **extension of an empty bi-interval**: for any `less`/`occ`, any symbol `a`, extending an empty bi-interval whose
lower bound on the extended strand's side is non-zero gives an empty bi-interval (`occ(lower−1,·) − occ(lower−1,·)`).
In `smems` the only empty interval that is ever extended is `init_interval_with(pattern[i])` of a symbol that does
not occur; its bounds are `less(a)`, `less(complement a) ≥ 1` on an FMD index (`SmemModel.less_pos`).  (With
`lower = 0` the Rust expression `interval.lower + interval.size - 1` would underflow.) -/
theorem ext_of_empty_is_empty (less : Nat → Nat) (occ : Nat → Nat → Nat) (iv : FMDModel.Bi) (a : Nat)
    (h0 : iv.size = 0) :
    (iv.lower ≠ 0 → (FMDModel.backwardExt less occ iv a).size = 0) ∧
    (iv.lowerRev ≠ 0 → (FMDModel.forwardExt less occ iv a).size = 0) :=
  ⟨fun h => SmemModel.backwardExt_dead less occ iv a h0 h, fun h => SmemModel.forwardExt_dead less occ iv a h0 h⟩

-- the doc-test index: `backward_ext(init_interval(), T)` through the theorem; an empty interval (`N` does not occur)
example : FMDModel.backwardExt (LF.lessRef (LF.bwtOf T0 sa0)) (LF.occRef (LF.bwtOf T0 sa0)) (FMDModel.initInterval sa0.length) 84
    = FMDModel.initIntervalWith (LF.lessRef (LF.bwtOf T0 sa0)) 84 :=
  (init_interval_ext_correct [[65, 84, 84, 67]] sa0 84 (by decide) (by decide) (by decide) (by decide)).1
example : (FMDModel.initIntervalWith (LF.lessRef bw0) 78).size = 0 ∧ (FMDModel.initIntervalWith (LF.lessRef bw0) 78).lower ≠ 0 ∧
    (FMDModel.backwardExt (LF.lessRef bw0) (LF.occRef bw0) (FMDModel.initIntervalWith (LF.lessRef bw0) 78) 65).size = 0 := by
  decide

section sweep_examples
-- T = ATTC$GAAT$: the doc test `smems(ATT, 2, ·)` and pattern ATG (matches AT and G)
example : SmemModel.smemsStr T0 [65, 84, 84] 2 1 = [(0, 3)] := by decide
example : SmemModel.allSmemsStr T0 [65, 84, 71] 1 = [(0, 2), (2, 1)] := by decide
example : (SmemModel.smems (SmemModel.biOps (LF.lessRef bw0) (LF.occRef bw0)) [65, 84, 84] 2 1).map SmemModel.hitObs
    = [⟨0, 3, 4, 5, 2, 3⟩] := by decide
example : (SmemModel.allSmems (SmemModel.biOps (LF.lessRef bw0) (LF.occRef bw0)) [65, 84, 71] 1).map SmemModel.hitObs
    = [⟨0, 2, 3, 5, 3, 5⟩, ⟨2, 1, 6, 7, 5, 6⟩] := by decide
-- `pattern[i]` does not occur (N): nothing is reported
example : SmemModel.smemsStr T0 [65, 78, 84] 1 1 = [] := by decide
-- non-vacuity: all hypotheses of the sweep theorems hold on the doc-test index, through C03's checker too
example : checkSA T0 sa0 = true := by decide
example : SmemsProp T0 sa0 [65, 84, 84] 2 1
    ((SmemModel.smems (SmemModel.biOps (LF.lessRef (LF.bwtOf T0 sa0)) (LF.occRef (LF.bwtOf T0 sa0)))
      [65, 84, 84] 2 1).map SmemModel.hitObs) :=
  smems_bi_model_correct_of_checkSA [[65, 84, 84, 67]] sa0 [65, 84, 84] (by decide) (by decide) (by decide)
    (by decide) 2 1 (by decide) (by decide)
example : AllSmemsProp T0 sa0 [65, 84, 71] 1
    ((SmemModel.allSmems (SmemModel.biOps (LF.lessRef (LF.bwtOf T0 sa0)) (LF.occRef (LF.bwtOf T0 sa0)))
      [65, 84, 71] 1).map SmemModel.hitObs) :=
  all_smems_bi_model_correct [[65, 84, 84, 67]] sa0 [65, 84, 71] (by decide) (by decide) (by decide) (by decide) 1
    (by decide)
example : LF.sortedAllB T0 sa0 = true :=
  sortedAllB_of_checkSA [[65, 84, 84, 67]] sa0 (by decide) (by decide) (by decide)
example : checkSmems T0 sa0 [65, 84, 71] 1 1
    ((SmemModel.smems (SmemModel.biOps (LF.lessRef (LF.bwtOf T0 sa0)) (LF.occRef (LF.bwtOf T0 sa0)))
      [65, 84, 71] 1 1).map SmemModel.hitObs) = true :=
  smems_model_accepted [[65, 84, 84, 67]] sa0 [65, 84, 71] (by decide) (by decide) (by decide) (by decide) 1 1
    (by decide) (by decide)
example : (SmemModel.smems (SmemModel.biOps (LF.lessRef (LF.bwtOf T0 sa0)) (LF.occRef (LF.bwtOf T0 sa0)))
      [65, 84, 71] 1 1).map (fun h => (h.pos, h.len)) = SmemModel.smemsStr T0 [65, 84, 71] 1 1 :=
  smems_bi_model_eq_string [[65, 84, 84, 67]] sa0 [65, 84, 71] (by decide) (by decide) (by decide) (by decide) 1 1
    (by decide)
example (b len : Nat) : (b, len) ∈ SmemModel.allSmemsStr T0 [65, 84, 71] 1 ↔ (Smem T0 [65, 84, 71] b len ∧ 1 ≤ len) :=
  all_smems_model_correct T0 [65, 84, 71] 1 (by decide) b len
example (b len : Nat) : (b, len) ∈ SmemModel.smemsStr T0 [65, 84, 84] 2 1 ↔
    (Smem T0 [65, 84, 84] b len ∧ b ≤ 2 ∧ 2 < b + len ∧ 1 ≤ len) :=
  smems_model_correct T0 [65, 84, 84] 2 1 (by decide) (by decide) b len
end sweep_examples

/-! ### The translated source text (`RbV/Gen/SrcFmd*.lean`, regenerated from `fmindex.rs` on every run; docs/notes/GEN.md)

`BiInterval` is the tuple `(lower, lower_rev, size, match_size)` (`toT`); `less` / `occ` are function parameters.  The
extension functions are tied to the mirror model on **non-empty** intervals (on empty ones the property leaves the
value free; `*_dead`: no panic, empty again), `smems` / `all_smems` to the sweep model over any operations the
translated extension functions compute on a closed set of safe intervals, **up to the order of the matches**. -/
section source
open RbV.Gen RbV.Thm.GenSrcFmdExt RbV.Thm.GenSrcFmdSmems RbV.Thm.GenSrcFmdAllSmems RbV.Thm.GenSrcFmdIndex RbV.FMDModel

/-- translated `init_interval_with` = mirror model (`a < 255`: `a + 1` is computed in `u8`) -/
theorem fmd_init_interval_source_eq_model (lessF : Nat → Nat) (a : Nat) (ha : a < 255) (hm : lessF a ≤ lessF (a + 1))
    (bwt : List Nat) :
    SrcFmdExt.init_interval_with lessF dnaCompl a = Rs.Res.ok (toT (initIntervalWith lessF a)) ∧
      SrcFmdExt.init_interval bwt = Rs.Res.ok (toT (initInterval bwt.length)) :=
  ⟨init_interval_with_eq_model lessF a ha hm, init_interval_eq_model bwt⟩

/-- translated `backward_ext` = mirror model on every non-empty interval on which the checked arithmetic stays below
`2^64` (`N` bounds `occ`) -/
theorem fmd_backward_ext_source_eq_model (lessF : Nat → Nat) (occF : Nat → Nat → Nat) (iv : Bi) (a N : Nat)
    (hpos : 0 < iv.size) (h64 : iv.lower + iv.size < 2 ^ 64) (hm : OccMono occF iv order)
    (hN : ∀ r b, occF r b ≤ N) (hsum : iv.lowerRev + (order.map (sOf occF iv)).sum < 2 ^ 64)
    (hk : lessF a + N < 2 ^ 64) (hms : iv.matchSize + 1 < 2 ^ 64) :
    SrcFmdExt.backward_ext lessF occF (toT iv) a = Rs.Res.ok (toT (backwardExt lessF occF iv a)) :=
  backward_ext_eq_model lessF occF iv a N hpos h64 hm hN hsum hk hms

/-- translated `forward_ext` = mirror model (same hypotheses for the swapped interval and the complement symbol) -/
theorem fmd_forward_ext_source_eq_model (lessF : Nat → Nat) (occF : Nat → Nat → Nat) (iv : Bi) (a N : Nat)
    (hpos : 0 < iv.size) (h64 : iv.lowerRev + iv.size < 2 ^ 64) (hm : OccMono occF (swapped iv) order)
    (hN : ∀ r b, occF r b ≤ N) (hsum : iv.lower + (order.map (sOf occF (swapped iv))).sum < 2 ^ 64)
    (hk : lessF (dnaCompl a) + N < 2 ^ 64) (hms : iv.matchSize + 1 < 2 ^ 64) :
    SrcFmdExt.forward_ext lessF occF dnaCompl (toT iv) a = Rs.Res.ok (toT (forwardExt lessF occF iv a)) :=
  forward_ext_eq_model lessF occF iv a N hpos h64 hm hN hsum hk hms

/-- extension of an **empty** interval with non-zero bounds: no panic, empty again (whatever its other fields are) -/
theorem fmd_ext_of_empty_source (lessF : Nat → Nat) (occF : Nat → Nat → Nat) (iv : Bi) (a N B : Nat)
    (h0 : iv.size = 0) (hl : 1 ≤ iv.lower) (hlB : iv.lower ≤ B) (hr : 1 ≤ iv.lowerRev) (hrB : iv.lowerRev ≤ B)
    (hB : B < 2 ^ 64) (hN : ∀ r b, occF r b ≤ N) (hk : lessF a + N ≤ B) (hk' : lessF (dnaCompl a) + N ≤ B)
    (hms : iv.matchSize + 1 < 2 ^ 64) :
    DeadOk iv B (1 ≤ lessF a) True (SrcFmdExt.backward_ext lessF occF (toT iv) a) ∧
      DeadOk iv B True (1 ≤ lessF (dnaCompl a)) (SrcFmdExt.forward_ext lessF occF dnaCompl (toT iv) a) :=
  ⟨backward_ext_dead lessF occF iv a N B h0 hl hlB hr hrB hB hN hk hms,
   forward_ext_dead lessF occF iv a N B h0 hl hlB hr hrB hB hN hk' hms⟩

/-- translated `smems` = sweep model, for **every** family of operations the translated extension functions compute on
a closed set of safe intervals (`SafeOps`), up to the order of the matches; `hdead`: the model reports nothing when
`pattern[i]` does not occur (holds for `l ≥ 1`; how the text reaches the empty answer there is left free — seeded C06-H4).
The unconditional step-by-step equality is the soft module `Thm/GenSrcFmdSmemsModel.lean`. -/
theorem fmd_smems_source_eq_model (lessF : Nat → Nat) (occF : Nat → Nat → Nat) (ops : SmemModel.Ops Bi)
    (S : Nat → Bi → Prop) (pat : List Nat) (hS : SafeOps lessF occF ops S pat) (i l : Nat) (hi : i < pat.length)
    (hL : pat.length + 1 < 2 ^ 63)
    (hdead : (ops.initWith i (pat.getD i 0)).size = 0 → SmemModel.smems ops pat i l = []) :
    ∃ res, SrcFmdSmems.smems lessF occF dnaCompl pat i l = Rs.Res.ok res ∧
      res.Perm ((SmemModel.smems ops pat i l).map hitT) :=
  smems_eq_model_of hS i l hi hL hdead

/-- translated `all_smems` = sweep model, given that the translated `smems` returns the model's matches in some order -/
theorem fmd_all_smems_source_eq_model (lessF : Nat → Nat) (occF : Nat → Nat → Nat) (ops : SmemModel.Ops Bi)
    (pat : List Nat) (l : Nat) (hsm : SmemsOk lessF occF ops pat l) (hL : pat.length + 1 < 2 ^ 63) :
    ∃ res, SrcFmdAllSmems.all_smems lessF occF dnaCompl pat l = Rs.Res.ok res ∧
      res.Perm ((SmemModel.allSmems ops pat l).map hitT) :=
  all_smems_eq_model lessF occF ops pat l hsm hL

/-- the operations performed by the translated code are safe on every FM-index (`less`, `occ` bounded by `n`, `occ`
monotone in the row) for patterns of symbols with `less ≥ 1` -/
theorem fmd_source_ops_safe (lessF : Nat → Nat) (occF : Nat → Nat → Nat) (n : Nat) (pat : List Nat)
    (hI : IdxFacts lessF occF n) (hsym : ∀ a ∈ pat, SymOk lessF a) (hsz : M n * (pat.length + 2) < 2 ^ 64) :
    SafeOps lessF occF (srcOps lessF occF) (Safe n) pat :=
  safeOps hI hsym hsz

/-- **the translated `smems`, run on `less` / `occ` of an FMD index whose suffix array C03's checker accepts, does not
panic and returns exactly the supermaximal matches covering `i` of length `≥ l`, with both intervals right.**
Size hypothesis: `(13·n + 2)·(|pattern| + 2) < 2^64` (crude head-room of the `usize` arithmetic). -/
theorem fmd_smems_source_correct (seqs : List (List Nat)) (sa pat : List Nat)
    (hne : seqs ≠ []) (hseqs : ∀ s ∈ seqs, ∀ c ∈ s, isDna c = true)
    (hc : checkSA (fmdText seqs) sa = true) (hpat : ∀ c ∈ pat, isDna c = true)
    (hsz : M sa.length * (pat.length + 2) < 2 ^ 64) (i l : Nat) (hi : i < pat.length) (hl : 1 ≤ l) :
    ∃ res, SrcFmdSmems.smems (LF.lessRef (LF.bwtOf (fmdText seqs) sa)) (LF.occRef (LF.bwtOf (fmdText seqs) sa))
        dnaCompl pat i l = Rs.Res.ok res ∧ SmemsProp (fmdText seqs) sa pat i l (res.map obsT) :=
  smems_source_correct seqs sa pat hne hseqs (sortedAllB_of_checkSA seqs sa hne hseqs hc) hpat hsz i l hi hl

/-- **… and the translated `all_smems` exactly the supermaximal matches of length `≥ l`** -/
theorem fmd_all_smems_source_correct (seqs : List (List Nat)) (sa pat : List Nat)
    (hne : seqs ≠ []) (hseqs : ∀ s ∈ seqs, ∀ c ∈ s, isDna c = true)
    (hc : checkSA (fmdText seqs) sa = true) (hpat : ∀ c ∈ pat, isDna c = true)
    (hsz : M sa.length * (pat.length + 2) < 2 ^ 64) (l : Nat) (hl : 1 ≤ l) :
    ∃ res, SrcFmdAllSmems.all_smems (LF.lessRef (LF.bwtOf (fmdText seqs) sa)) (LF.occRef (LF.bwtOf (fmdText seqs) sa))
        dnaCompl pat l = Rs.Res.ok res ∧ AllSmemsProp (fmdText seqs) sa pat l (res.map obsT) := by
  obtain ⟨res, h1, _, h3⟩ := all_smems_source_correct seqs sa pat hne hseqs
    (sortedAllB_of_checkSA seqs sa hne hseqs hc) hpat hsz l hl
  exact ⟨res, h1, h3⟩

-- non-vacuity: the doc-test index `ATTC$GAAT$` (the translated code evaluated; hypotheses by `decide`)
private def T1 : List Nat := fmdText [[65, 84, 84, 67]]
private def sa1 : List Nat := [9, 4, 6, 7, 0, 3, 5, 8, 2, 1]
example : checkSA T1 sa1 = true := by decide
example : (SrcFmdSmems.smems (LF.lessRef (LF.bwtOf T1 sa1)) (LF.occRef (LF.bwtOf T1 sa1)) dnaCompl [65, 84, 84] 2 1)
    = Rs.Res.ok [((4, 2, 1, 3), 0, 3)] := by decide
example : (SrcFmdAllSmems.all_smems (LF.lessRef (LF.bwtOf T1 sa1)) (LF.occRef (LF.bwtOf T1 sa1)) dnaCompl [65, 84, 71] 1)
    = Rs.Res.ok [((3, 3, 2, 2), 0, 2), ((6, 5, 1, 1), 2, 1)] := by decide
-- a pattern symbol that does not occur (N): the empty interval is extended, nothing is reported, no panic
example : (SrcFmdSmems.smems (LF.lessRef (LF.bwtOf T1 sa1)) (LF.occRef (LF.bwtOf T1 sa1)) dnaCompl [65, 78, 84] 1 1)
    = Rs.Res.ok [] := by decide
example : ∃ res, SrcFmdSmems.smems (LF.lessRef (LF.bwtOf T1 sa1)) (LF.occRef (LF.bwtOf T1 sa1)) dnaCompl [65, 84, 84] 2 1
    = Rs.Res.ok res ∧ SmemsProp T1 sa1 [65, 84, 84] 2 1 (res.map obsT) :=
  fmd_smems_source_correct [[65, 84, 84, 67]] sa1 [65, 84, 84] (by decide) (by decide) (by decide) (by decide)
    (by decide) 2 1 (by decide) (by decide)
end source

/-! ## the accessor chain below the sweep, translated from the source text (session 6, genleft)

`RbV/Gen/SrcFmAccess.lean`: `FMDIndex::{occ, less}` → `FMIndex::{occ, less}` → the translated `Occ::get`
(`RbV/Gen/SrcOcc.lean`) / `less[a as usize]`, and the views `BiInterval::{forward, revcomp}`.  The tables are the ones the
translated `Occ::new` (`Gen/SrcOcc.lean`) and `less` (`Gen/SrcLess.lean`) build from the BWT — both files are regenerated on
`./check C06` as well.  Proofs: `RbV/Thm/GenSrcFmAccess.lean`. -/
section accessors
open RbV.Gen RbV.Thm.GenSrcFmdIndex RbV.Thm.GenSrcFmAccess RbV.FMDModel

/-- **`FMDIndex::less` / `FMDIndex::occ`, as written, on the tables the translated constructors build from the BWT, are the
specification's `less` / `occ`**: the translated `less(bwt, alphabet)` and `Occ::new(bwt, k, alphabet)` do not panic, and
on the index holding their results `less(a)` = number of BWT symbols `< a` for every `a ≤ max_symbol + 1`, `occ(r, a)` =
number of `a` in `bwt[0..=r]` for every row `r < n` and every symbol the table tracks — through both delegations
(`self.fmindex.occ(r, a)`, `self.occ.borrow().get(self.bwt.borrow(), r, a)`), for every sampling rate `1 ≤ k < 2^32` -/
theorem fmd_accessors_source_exact {Alph : Type} (maxSymbol : Alph → Option Nat) (symbols : Alph → List Nat)
    (isWordDollar : Alph → Bool) (bwt : List Nat) (k : Nat) (alphabet : Alph) (ms : Nat)
    (hms : maxSymbol alphabet = some ms) (hk : 0 < k) (hk32 : k < 2 ^ 32) (hn : bwt.length < 2 ^ 64)
    (hms' : ms + 2 < 2 ^ 64) (hsym : ∀ x ∈ bwt, x ≤ ms) (hal : ∀ a ∈ symbols alphabet, a ≤ ms)
    (hnd : (symbols alphabet).Nodup) (hw : isWordDollar alphabet = false → 36 ∉ symbols alphabet) :
    ∃ lessT occT k', SrcLess.less maxSymbol bwt alphabet = Rs.Res.ok lessT ∧
      SrcOcc.new maxSymbol symbols isWordDollar bwt k alphabet = Rs.Res.ok (occT, k') ∧
      (∀ a, a < ms + 2 →
        SrcFmAccess.fmdLess { fmindex := { bwt := bwt, less := lessT, occ := (occT, k') } } a
          = Rs.Res.ok (LF.lessRef bwt a)) ∧
      (∀ r a, r < bwt.length → a ∈ RbV.Thm.GenSrcOcc.alphaOf (symbols alphabet) (isWordDollar alphabet) (ms + 1) →
        SrcFmAccess.fmdOcc (fun s c => s.count c) { fmindex := { bwt := bwt, less := lessT, occ := (occT, k') } } r a
          = Rs.Res.ok (LF.occRef bwt r a)) :=
  accessors_exact maxSymbol symbols isWordDollar bwt k alphabet ms hms hk hk32 hn hms' hsym hal hnd hw

/-- `BiInterval::forward` / `revcomp`, as written: the half-open row intervals `[lower, lower + size)` /
`[lower_rev, lower_rev + size)` (the sums fit `usize`) — the two intervals `SmemsProp` speaks about -/
theorem biinterval_views_source_eq_model (iv : SrcFmAccess.BiInterval)
    (h1 : iv.lower + iv.size < 2 ^ 64) (h2 : iv.lower_rev + iv.size < 2 ^ 64) :
    SrcFmAccess.biForward iv = Rs.Res.ok { lower := iv.lower, upper := iv.lower + iv.size } ∧
    SrcFmAccess.biRevcomp iv = Rs.Res.ok { lower := iv.lower_rev, upper := iv.lower_rev + iv.size } :=
  ⟨biForward_eq iv h1, biRevcomp_eq iv h2⟩

/-- **the sweep over the tables built from the BWT — partial.**  For an FMD index over `seqs` whose suffix array C03's
checker accepts, with the tables built by the translated `less` / `Occ::new` from its BWT (alphabet hypotheses as in C04):
(1) the constructors do not panic; (2) the translated accessor chain returns `lessRef` / `occRef` of that BWT on every
in-range argument; (3) the translated `smems` run on these two functions does not panic and returns exactly the SMEMs.
**Missing for the full composition** (`fmd_smems_source_correct_composed`): the translated `smems` / `backward_ext` take
`less` / `occ` as *total* pure functions (dialect fmd), so (2) and (3) are linked only through the values — that every call
the sweep makes is in range (rows `< n`, symbols `≤ max_symbol + 1`: the accessors panic outside) is not derived; it needs
the range invariant `lower + size ≤ n` of every interval the sweep builds, which `Safe` does not carry. -/
theorem fmd_smems_source_correct_composed_partial {Alph : Type} (maxSymbol : Alph → Option Nat) (symbols : Alph → List Nat)
    (isWordDollar : Alph → Bool) (alphabet : Alph) (ms k : Nat) (seqs : List (List Nat)) (sa pat : List Nat)
    (hne : seqs ≠ []) (hseqs : ∀ s ∈ seqs, ∀ c ∈ s, isDna c = true)
    (hc : checkSA (fmdText seqs) sa = true) (hpat : ∀ c ∈ pat, isDna c = true)
    (hsz : M sa.length * (pat.length + 2) < 2 ^ 64) (i l : Nat) (hi : i < pat.length) (hl : 1 ≤ l)
    (hms : maxSymbol alphabet = some ms) (hk : 0 < k) (hk32 : k < 2 ^ 32) (hms' : ms + 2 < 2 ^ 64)
    (hsym : ∀ x ∈ LF.bwtOf (fmdText seqs) sa, x ≤ ms) (hal : ∀ a ∈ symbols alphabet, a ≤ ms)
    (hnd : (symbols alphabet).Nodup) (hw : isWordDollar alphabet = false → 36 ∉ symbols alphabet) :
    ∃ lessT occT k', SrcLess.less maxSymbol (LF.bwtOf (fmdText seqs) sa) alphabet = Rs.Res.ok lessT ∧
      SrcOcc.new maxSymbol symbols isWordDollar (LF.bwtOf (fmdText seqs) sa) k alphabet = Rs.Res.ok (occT, k') ∧
      (∀ a, a < ms + 2 →
        SrcFmAccess.fmdLess { fmindex := { bwt := LF.bwtOf (fmdText seqs) sa, less := lessT, occ := (occT, k') } } a
          = Rs.Res.ok (LF.lessRef (LF.bwtOf (fmdText seqs) sa) a)) ∧
      (∀ r a, r < sa.length → a ∈ RbV.Thm.GenSrcOcc.alphaOf (symbols alphabet) (isWordDollar alphabet) (ms + 1) →
        SrcFmAccess.fmdOcc (fun s c => s.count c)
            { fmindex := { bwt := LF.bwtOf (fmdText seqs) sa, less := lessT, occ := (occT, k') } } r a
          = Rs.Res.ok (LF.occRef (LF.bwtOf (fmdText seqs) sa) r a)) ∧
      ∃ res, SrcFmdSmems.smems (LF.lessRef (LF.bwtOf (fmdText seqs) sa)) (LF.occRef (LF.bwtOf (fmdText seqs) sa))
          dnaCompl pat i l = Rs.Res.ok res ∧ SmemsProp (fmdText seqs) sa pat i l (res.map obsT) := by
  have hlen : (LF.bwtOf (fmdText seqs) sa).length = sa.length := by simp [LF.bwtOf]
  have hn : (LF.bwtOf (fmdText seqs) sa).length < 2 ^ 64 := by
    rw [hlen]; unfold M at hsz
    have : 13 * sa.length + 2 ≤ (13 * sa.length + 2) * (pat.length + 2) := Nat.le_mul_of_pos_right _ (by omega)
    omega
  obtain ⟨lessT, occT, k', h1, h2, h3, h4⟩ := accessors_exact maxSymbol symbols isWordDollar (LF.bwtOf (fmdText seqs) sa) k
    alphabet ms hms hk hk32 hn hms' hsym hal hnd hw
  exact ⟨lessT, occT, k', h1, h2, h3, fun r a hr ha => h4 r a (by rw [hlen]; exact hr) ha,
    fmd_smems_source_correct seqs sa pat hne hseqs hc hpat hsz i l hi hl⟩

-- non-vacuity: the accessor chain evaluated on hand-made tables of the BWT `[1, 2, 1, 0]` (k = 2), and the views
example : SrcFmAccess.fmdLess { fmindex := { bwt := [1, 2, 1, 0], less := [0, 1, 3, 4], occ := ([[0, 0], [1, 2], [0, 1]], 2) } } 2
    = Rs.Res.ok 3 := by decide
example : SrcFmAccess.fmdOcc (fun s c => s.count c)
    { fmindex := { bwt := [1, 2, 1, 0], less := [0, 1, 3, 4], occ := ([[0, 0], [1, 2], [0, 1]], 2) } } 3 1 = Rs.Res.ok 2 := by decide
example : SrcFmAccess.fmdLess { fmindex := { bwt := [1, 2, 1, 0], less := [0, 1, 3, 4], occ := ([], 2) } } 4 = Rs.Res.panic := by
  decide
example : SrcFmAccess.biForward ⟨4, 2, 1, 3⟩ = Rs.Res.ok ⟨4, 5⟩ ∧ SrcFmAccess.biRevcomp ⟨4, 2, 1, 3⟩ = Rs.Res.ok ⟨2, 3⟩ := by
  decide
example : SrcFmAccess.biForward ⟨2 ^ 64 - 1, 2, 1, 3⟩ = Rs.Res.panic := by decide

end accessors

end RbV.Thm.C06
