import RbV.Lemmas.C15SrcQuad
import RbV.Thm.GenSrcProbs
import RbV.Gen.SrcProbsQuad
/-!
# C15: the translated integration helpers (`RbV/Gen/SrcProbsQuad.lean`) compute the log of the quadrature sum

Value-level statements (hard): for a density with finite-or-`ln 0` values `d i v`, a grid `xs = linspace a b n` (abstract) and
`a < b`, the translated helper does not panic and returns `r` with `|e^r − Q| ≤ δ·Q`, `Q` the trapezoid / Simpson sum with
the weights 1, 2, …, 2, 1 resp. 1, 4, 2, …, 4, 1 over the inner grid points *as the text enumerates them* (`innerPts`), times
`(b − a)/(2(n−1))` resp. `(b − a)/(3(n−1))`.  The last point is evaluated as `density(n, b)`, as in the text.
-/
set_option linter.unusedSimpArgs false
set_option linter.unusedVariables false
namespace RbV.Thm.GenSrcProbsQuad
open RbV RbV.Rs RbV.C15 RbV.Gen.SrcProbsQuad RbV.Thm.GenSrcProbs Real

/-- common tail: `ln_sum_exp(terms) + ln K₁ − ln K₂ …` given as a shift `c` of the sum -/
theorem sum_shift_error (E : ℝ → ℝ) (δ : ℝ) (h : ApproxExp E δ) (hδ : δ < 1) (terms : List LP) (c : ℝ) :
    |lin (shiftLP c (lnSumExp E terms)) - (terms.map lin).sum * exp c| ≤ δ * ((terms.map lin).sum * exp c) :=
  scale_error c (lnSumExp_error h hδ terms)

theorem trapezoid_error (E : ℝ → ℝ) (δ : ℝ) (h : ApproxExp E δ) (hδ : δ < 1) (linspace : XR → XR → Nat → List XR)
    (d : Nat → XR → LP) (α β : ℝ) (hw : α < β) (n : Nat) (hn : 2 ≤ n) :
    ∃ r : LP, ln_trapezoidal_integrate_exp (xrOps E) linspace (fun i v => emb (d i v)) (XR.fin α) (XR.fin β) n = Res.ok (emb r) ∧
      |lin r - (((innerPts (linspace (XR.fin α) (XR.fin β) n)).map fun it => 2 * lin (d it.1 it.2)).sum
          + lin (d 0 (XR.fin α)) + lin (d n (XR.fin β))) * ((β - α) / (2 * (n - 1)))|
        ≤ δ * ((((innerPts (linspace (XR.fin α) (XR.fin β) n)).map fun it => 2 * lin (d it.1 it.2)).sum
          + lin (d 0 (XR.fin α)) + lin (d n (XR.fin β))) * ((β - α) / (2 * (n - 1)))) := by
  have hE := posOn_of_approx h hδ
  simp only [ln_trapezoidal_integrate_exp]
  generalize linspace (XR.fin α) (XR.fin β) n = xs
  let terms : List LP := (innerPts xs).map (fun it => shiftLP (log 2) (d it.1 it.2)) ++ [d 0 (XR.fin α)] ++ [d n (XR.fin β)]
  have hmap : ∀ it : Nat × XR, ln_trapezoidal_integrate_exp_map1 (xrOps E) linspace (fun i v => emb (d i v)) it
      = emb (shiftLP (log 2) (d it.1 it.2)) := by
    intro ⟨i, v⟩
    simp [ln_trapezoidal_integrate_exp_map1, decR_two, ln_fin_pos, add_emb_fin]
  have hlist : List.map (ln_trapezoidal_integrate_exp_map1 (xrOps E) linspace fun i v => emb (d i v))
        (Rs.dropBack 1 ((Rs.enumIdx xs).drop 1)) ++ [emb (d 0 (XR.fin α))] ++ [emb (d n (XR.fin β))] = terms.map emb := by
    simp only [terms, List.map_append, List.map_map, List.map_cons, List.map_nil, innerPts]
    congr 2
    exact List.map_congr_left (fun it _ => hmap it)
  have hn1 : Rs.sub n 1 = Res.ok (n - 1) := by simp [Rs.sub]; omega
  have hnR : ((n - 1 : ℕ) : ℝ) = (n : ℝ) - 1 := by rw [Nat.cast_sub (by omega)]; simp
  have hnpos : (0 : ℝ) < (n : ℝ) - 1 := by
    have : (2 : ℝ) ≤ n := by exact_mod_cast hn
    linarith
  have hwpos : 0 < β - α := by linarith
  have hK : (0 : ℝ) < 2 * ((n : ℝ) - 1) := by positivity
  refine ⟨shiftLP (-log (2 * ((n : ℝ) - 1))) (shiftLP (log (β - α)) (lnSumExp E terms)), ?_, ?_⟩
  · simp only [hlist, ln_sum_exp_eq_model E hE terms, hn1, Res.ok_bind, Res.pure_eq_ok,
      ops_sub, ops_add, ops_ln, ops_mul, ops_ofDec, ops_ofNat, sub_fin, mul_fin, decR_two, hnR, ln_fin_pos hwpos,
      ln_fin_pos hK, add_emb_fin, sub_emb_fin]
  · have hsum : (terms.map lin).sum = ((innerPts xs).map fun it => 2 * lin (d it.1 it.2)).sum
        + lin (d 0 (XR.fin α)) + lin (d n (XR.fin β)) := by
      simp only [terms, List.map_append, List.map_map, List.sum_append, List.map_cons, List.map_nil, List.sum_cons,
        List.sum_nil, add_zero]
      congr 2
      apply congrArg
      apply List.map_congr_left
      intro it _
      simp only [Function.comp, lin_shiftLP, exp_log (show (0 : ℝ) < 2 by norm_num)]; ring
    have h1 := scale_error (-log (2 * ((n : ℝ) - 1))) (sum_shift_error E δ h hδ terms (log (β - α)))
    rw [exp_log hwpos, exp_neg, exp_log hK, hsum] at h1
    have e : ∀ S : ℝ, S * (β - α) * (2 * ((n : ℝ) - 1))⁻¹ = S * ((β - α) / (2 * ((n : ℝ) - 1))) := by
      intro S; rw [div_eq_mul_inv]; ring
    rw [e] at h1
    exact h1

/-- Simpson's weight as the text computes it, `(2 + (i % 2) * 2) as f64` -/
theorem simpson_weight_cast (i : Nat) : ((2 + i % 2 * 2 : ℕ) : ℝ) = if i % 2 = 1 then 4 else 2 := by
  rcases Nat.mod_two_eq_zero_or_one i with h | h <;> simp [h]

theorem simpson_error (E : ℝ → ℝ) (δ : ℝ) (h : ApproxExp E δ) (hδ : δ < 1) (linspace : XR → XR → Nat → List XR)
    (d : Nat → XR → LP) (α β : ℝ) (hw : α < β) (n : Nat) (hn : 2 ≤ n) (hodd : n % 2 = 1) :
    ∃ r : LP, ln_simpsons_integrate_exp (xrOps E) linspace (fun i v => emb (d i v)) (XR.fin α) (XR.fin β) n = Res.ok (emb r) ∧
      |lin r - (((innerPts (linspace (XR.fin α) (XR.fin β) n)).map fun it => (if it.1 % 2 = 1 then 4 else 2) * lin (d it.1 it.2)).sum
          + lin (d 0 (XR.fin α)) + lin (d n (XR.fin β))) * ((β - α) / (3 * (n - 1)))|
        ≤ δ * ((((innerPts (linspace (XR.fin α) (XR.fin β) n)).map fun it => (if it.1 % 2 = 1 then 4 else 2) * lin (d it.1 it.2)).sum
          + lin (d 0 (XR.fin α)) + lin (d n (XR.fin β))) * ((β - α) / (3 * (n - 1)))) := by
  have hE := posOn_of_approx h hδ
  simp only [ln_simpsons_integrate_exp]
  generalize linspace (XR.fin α) (XR.fin β) n = xs
  let wt : Nat → ℝ := fun i => ((2 + i % 2 * 2 : ℕ) : ℝ)
  have hwt : ∀ i, 0 < wt i := fun i => by simp only [wt]; positivity
  let terms : List LP := (innerPts xs).map (fun it => shiftLP (log (wt it.1)) (d it.1 it.2)) ++ [d 0 (XR.fin α)] ++ [d n (XR.fin β)]
  have hmap : ∀ it : Nat × XR, ln_simpsons_integrate_exp_map1 (xrOps E) linspace (fun i v => emb (d i v)) it
      = Res.ok (emb (shiftLP (log (wt it.1)) (d it.1 it.2))) := by
    intro ⟨i, v⟩
    have h2 : i % 2 * 2 < 2 ^ 64 := by omega
    have h3 : 2 + i % 2 * 2 < 2 ^ 64 := by omega
    simp only [ln_simpsons_integrate_exp_map1, Rs.mul, Rs.add, h2, h3, ↓reduceIte, Res.ok_bind, Res.pure_eq_ok, ops_add,
      ops_ln, ops_ofNat, ln_fin_pos (hwt i), add_emb_fin, wt]
  have hlist := mapM_ok _ _ (Rs.dropBack 1 ((Rs.enumIdx xs).drop 1)) (fun it _ => hmap it)
  have hn1 : Rs.sub n 1 = Res.ok (n - 1) := by simp [Rs.sub]; omega
  have hnR : ((n - 1 : ℕ) : ℝ) = (n : ℝ) - 1 := by rw [Nat.cast_sub (by omega)]; simp
  have hnpos : (0 : ℝ) < (n : ℝ) - 1 := by
    have : (2 : ℝ) ≤ n := by exact_mod_cast hn
    linarith
  have hwpos : 0 < β - α := by linarith
  have hterms : List.map (fun it : Nat × XR => emb (shiftLP (log (wt it.1)) (d it.1 it.2))) (Rs.dropBack 1 ((Rs.enumIdx xs).drop 1))
      ++ [emb (d 0 (XR.fin α))] ++ [emb (d n (XR.fin β))] = terms.map emb := by
    simp only [terms, List.map_append, List.map_map, List.map_cons, List.map_nil, innerPts]
    rfl
  refine ⟨shiftLP (-log 3) (shiftLP (-log ((n : ℝ) - 1)) (shiftLP (log (β - α)) (lnSumExp E terms))), ?_, ?_⟩
  · simp only [Rs.assert, hodd, beq_self_eq_true, ↓reduceIte, hlist, hterms, ln_sum_exp_eq_model E hE terms, hn1, Res.ok_bind,
      Res.pure_eq_ok, ops_sub, ops_add, ops_ln, ops_ofDec, ops_ofNat, sub_fin, decR_three, hnR, ln_fin_pos hwpos,
      ln_fin_pos hnpos, ln_fin_pos (show (0 : ℝ) < 3 by norm_num), add_emb_fin, sub_emb_fin]
  · have hsum : (terms.map lin).sum = ((innerPts xs).map fun it => (if it.1 % 2 = 1 then 4 else 2) * lin (d it.1 it.2)).sum
        + lin (d 0 (XR.fin α)) + lin (d n (XR.fin β)) := by
      simp only [terms, List.map_append, List.map_map, List.sum_append, List.map_cons, List.map_nil, List.sum_cons,
        List.sum_nil, add_zero]
      congr 2
      apply congrArg
      apply List.map_congr_left
      intro it _
      simp only [Function.comp, lin_shiftLP, exp_log (hwt it.1)]
      simp only [wt, simpson_weight_cast]; ring
    have h1 := scale_error (-log 3) (scale_error (-log ((n : ℝ) - 1)) (sum_shift_error E δ h hδ terms (log (β - α))))
    rw [exp_log hwpos, exp_neg, exp_log hnpos, exp_neg, exp_log (show (0 : ℝ) < 3 by norm_num), hsum] at h1
    have e : ∀ S : ℝ, S * (β - α) * ((n : ℝ) - 1)⁻¹ * (3 : ℝ)⁻¹ = S * ((β - α) / (3 * ((n : ℝ) - 1))) := by
      intro S; rw [div_eq_mul_inv, mul_inv]; ring
    rw [e] at h1
    exact h1

/-- what one closure call of `ln_trapezoidal_integrate_grid_exp` returns, as a total function of the item -/
noncomputable def gridTerm (E : ℝ → ℝ) (d : Nat → XR → LP) (gs : List ℝ) (it : Nat × ℝ) : XR :=
  XR.add (XR.sub (Gen.SrcProbs.ln_add_exp (xrOps E) (emb (d (it.1 - 1) (XR.fin (gs.getD (it.1 - 1) 0)))) (emb (d it.1 (XR.fin it.2))))
    (XR.ln (XR.fin 2))) (XR.ln (XR.fin (it.2 - gs.getD (it.1 - 1) 0)))

/-- the trapezoid over the cell ending at grid point `it = (i, gᵢ)` -/
noncomputable def gridCell (d : Nat → XR → LP) (gs : List ℝ) (it : Nat × ℝ) : ℝ :=
  (it.2 - gs.getD (it.1 - 1) 0) / 2 * (lin (d (it.1 - 1) (XR.fin (gs.getD (it.1 - 1) 0))) + lin (d it.1 (XR.fin it.2)))

theorem grid_error (E : ℝ → ℝ) (δ : ℝ) (h : ApproxExp E δ) (hδ : δ < 1) (d : Nat → XR → LP) (gs : List ℝ)
    (hinc : ∀ it ∈ Rs.enumIdxFrom 1 gs.tail, gs.getD (it.1 - 1) 0 < it.2) :
    ∃ r : LP, ln_trapezoidal_integrate_grid_exp (xrOps E) (fun i v => emb (d i v)) (gs.map XR.fin) = Res.ok (emb r) ∧
      |lin r - ((Rs.enumIdxFrom 1 gs.tail).map (gridCell d gs)).sum|
        ≤ (δ * (1 + (δ + dropTol)) + (δ + dropTol)) * ((Rs.enumIdxFrom 1 gs.tail).map (gridCell d gs)).sum := by
  have hE := posOn_of_approx h hδ
  have hδ0 := h.delta_nonneg
  have hτ := dropTol_nonneg
  set items := Rs.enumIdxFrom 1 gs.tail with hitems
  have hdrop : (Rs.enumIdx (gs.map XR.fin)).drop 1 = items.map (fun it => (it.1, XR.fin it.2)) := by
    cases gs with
    | nil => rfl
    | cons a t => simp only [List.map_cons, hitems, List.tail_cons, ← enumIdxFrom_map]; rfl
  -- every closure call succeeds and returns `gridTerm`
  have hcall : ∀ it ∈ items, ln_trapezoidal_integrate_grid_exp_map1 (xrOps E) (fun i v => emb (d i v)) (gs.map XR.fin)
      (it.1, XR.fin it.2) = Res.ok (gridTerm E d gs it) := by
    intro it hit
    have hb := mem_enumIdxFrom 1 gs.tail it hit
    have hlen : it.1 - 1 < gs.length := by
      have : gs.tail.length = gs.length - 1 := List.length_tail
      omega
    have hs : Rs.sub it.1 1 = Res.ok (it.1 - 1) := by simp [Rs.sub]; omega
    simp only [ln_trapezoidal_integrate_grid_exp_map1, hs, idx_map_fin gs _ hlen, Res.ok_bind, Res.pure_eq_ok, gridTerm,
      ops_add, ops_sub, ops_ln, ops_ofDec, decR_two, sub_fin]
  have hmapM := mapM_ok (ln_trapezoidal_integrate_grid_exp_map1 (xrOps E) (fun i v => emb (d i v)) (gs.map XR.fin))
    (fun x : Nat × XR => match x with | (i, XR.fin g) => gridTerm E d gs (i, g) | _ => XR.nan)
    (items.map (fun it => (it.1, XR.fin it.2)))
    (by intro x hx; obtain ⟨it, hit, rfl⟩ := List.mem_map.mp hx; exact hcall it hit)
  -- every term is within `δ + dropTol` of its trapezoid
  have hterm : ∀ it ∈ items, ∃ t : LP, gridTerm E d gs it = emb t ∧
      |lin t - gridCell d gs it| ≤ (δ + dropTol) * gridCell d gs it := by
    intro it hit
    obtain ⟨r, hr, hn⟩ := ln_add_exp_near_model E hE (d (it.1 - 1) (XR.fin (gs.getD (it.1 - 1) 0))) (d it.1 (XR.fin it.2))
    have hw : 0 < it.2 - gs.getD (it.1 - 1) 0 := by have := hinc it hit; linarith
    obtain ⟨e1, e2⟩ := trapezoid_term h hδ hn hw
    exact ⟨_, by simp only [gridTerm, hr]; exact e1, e2⟩
  obtain ⟨ts, hts, hes⟩ := terms_exist (gridTerm E d gs) (gridCell d gs) (δ + dropTol) items hterm
  have hlist : List.map (fun x : Nat × XR => match x with | (i, XR.fin g) => gridTerm E d gs (i, g) | _ => XR.nan)
      (items.map (fun it => (it.1, XR.fin it.2))) = ts.map emb := by
    rw [List.map_map, ← hts]; rfl
  refine ⟨lnSumExp E ts, ?_, ?_⟩
  · simp only [ln_trapezoidal_integrate_grid_exp, hdrop, hmapM, hlist, Res.ok_bind, ln_sum_exp_eq_model E hE ts, Res.pure_eq_ok]
  · set Q := (items.map (gridCell d gs)).sum with hQ
    have hQ0 : 0 ≤ Q := by
      apply List.sum_nonneg
      intro v hv
      obtain ⟨it, hit, rfl⟩ := List.mem_map.mp hv
      have := hinc it hit
      exact mul_nonneg (by linarith) (add_nonneg (lin_nonneg _) (lin_nonneg _))
    have h1 := lnSumExp_error h hδ ts
    have h2 : (ts.map lin).sum ≤ (1 + (δ + dropTol)) * Q := by have := (abs_le.mp hes).2; linarith
    have h3 : δ * (ts.map lin).sum ≤ δ * ((1 + (δ + dropTol)) * Q) := mul_le_mul_of_nonneg_left h2 hδ0
    have e : lin (lnSumExp E ts) - Q = (lin (lnSumExp E ts) - (ts.map lin).sum) + ((ts.map lin).sum - Q) := by ring
    rw [e]
    calc _ ≤ |lin (lnSumExp E ts) - (ts.map lin).sum| + |(ts.map lin).sum - Q| := abs_add_le _ _
      _ ≤ δ * ((1 + (δ + dropTol)) * Q) + (δ + dropTol) * Q := by linarith
      _ = (δ * (1 + (δ + dropTol)) + (δ + dropTol)) * Q := by ring

end RbV.Thm.GenSrcProbsQuad
