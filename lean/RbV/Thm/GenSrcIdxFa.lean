import RbV.Gen.SrcIdxFa
import RbV.Model.IndexedFasta
import RbV.Lemmas.IndexedFasta
import RbV.Lemmas.IndexedFastaSrc
import RbV.Thm.GenSrcTactics
/-!
# The translated `IndexedReader` (`RbV/Gen/SrcIdxFa.lean`) against the mirror model and the property C12

The generated definitions take the reader as an opaque value with the operations `fillBuf`, `consume`, `seekStart`.
Here they are instantiated with the reader of the mirror model (`IdxFa.St`: the file from the current position on, the
number of buffered bytes, the refill counter; `sched` = the chunk schedule) — trusted: std's `BufReader` over a
`Read + Seek` behaves like that.
-/
set_option linter.unusedSimpArgs false
set_option linter.unusedVariables false
namespace RbV.Thm.GenSrcIdxFa
open RbV RbV.Rs RbV.IdxFa RbV.Fastx RbV.Thm.GenSrc
open RbV.Gen.SrcIdxFa (IndexRecord)

/-- `BufRead::fill_buf` of the model reader: refill when nothing is buffered, hand out the buffered bytes; never fails -/
@[reducible] def fillBufOp (sched : Nat → Nat) (s : St) : Except IoErr (List Nat) × St :=
  (.ok ((IdxFa.fillBuf sched s).rest.take (IdxFa.fillBuf sched s).avail), IdxFa.fillBuf sched s)
/-- `BufRead::consume` -/
@[reducible] def consumeOp (s : St) (n : Nat) : St := IdxFa.consume s n
/-- `Seek::seek(SeekFrom::Start(o))` on a `BufReader`: the buffer is discarded, the schedule restarts; never fails -/
@[reducible] def seekOp (file : Bytes) (_ : St) (o : Nat) : Except IoErr Nat × St :=
  (.ok o, { rest := file.drop o, avail := 0, k := 0 })
/-- the `.fai` entry as the Rust struct (without the name) -/
@[reducible] def toRec (idx : Idx) : IndexRecord := ⟨idx.len, idx.off, idx.lb, idx.lB⟩

def eofErr : IoErr := ⟨"UnexpectedEof", "FASTA file is truncated."⟩
def oobErr : IoErr := ⟨"Other", "FASTA read interval was out of bounds"⟩
def intervalErr : IoErr := ⟨"Other", "Invalid query interval"⟩

/-! ## `seek_to` -/

/-- `seek_to` = the model's `seekTo`: seeks to `offset + (start / line_bases) * line_bytes + start % line_bases`, returns
the column `start % line_bases` (no overflow: the target offset fits `u64`) -/
theorem seekTo_eq_model (file : Bytes) (idx : Idx) (start : Nat) (s : St)
    (hlb : 0 < idx.lb) (hst : start ≤ idx.len) (hfit : pos idx start < 2 ^ 64) :
    Gen.SrcIdxFa.seekTo (seekOp file) s (toRec idx) start =
      Res.ok (.ok (IdxFa.seekTo file idx start).2, (IdxFa.seekTo file idx start).1) := by
  unfold pos at hfit
  have e0 : Rs.assert (decide (start ≤ idx.len)) = Res.ok () := Rs.assert_ok (by simpa using hst)
  have e1 : Rs.rem start idx.lb = Res.ok (start % idx.lb) := Rs.rem_ok hlb
  have e2 : Rs.div start idx.lb = Res.ok (start / idx.lb) := Rs.div_ok hlb
  have e3 : Rs.mul 64 (start / idx.lb) idx.lB = Res.ok (start / idx.lb * idx.lB) := Rs.mul_ok (by omega)
  have e4 : Rs.add 64 idx.off (start / idx.lb * idx.lB) = Res.ok (idx.off + start / idx.lb * idx.lB) := Rs.add_ok (by omega)
  have e5 : Rs.add 64 (idx.off + start / idx.lb * idx.lB) (start % idx.lb) =
      Res.ok (idx.off + start / idx.lb * idx.lB + start % idx.lb) := Rs.add_ok (by omega)
  have e3' : Rs.mul 64 idx.lB (start / idx.lb) = Res.ok (start / idx.lb * idx.lB) := by
    rw [Nat.mul_comm]; exact Rs.mul_ok (by rw [Nat.mul_comm]; omega)
  have e4' : Rs.add 64 (start / idx.lb * idx.lB) idx.off = Res.ok (idx.off + start / idx.lb * idx.lB) := by
    rw [Nat.add_comm]; exact Rs.add_ok (by omega)
  simp [Gen.SrcIdxFa.seekTo, IdxFa.seekTo, pos, e0, e1, e2, e3, e4, e5, e3', e4']

/-- `seek_to` refuses a start behind the end of the record (`assert!`) -/
theorem seekTo_oob_panics (file : Bytes) (idx : Idx) (start : Nat) (s : St) (hst : idx.len < start) :
    Gen.SrcIdxFa.seekTo (seekOp file) s (toRec idx) start = Res.panic := by
  have : ¬ start ≤ idx.len := by omega
  simp [Gen.SrcIdxFa.seekTo, Rs.assert, this]

/-! ## `read_line`: what its callers rely on -/

/-- outcome of a `read_line` call that the callers can work with: `Ok(n)`, `tr` bytes consumed from the refilled
buffer, the first `n` of them appended to the output, `StepOk` -/
inductive StepPost (sched : Nat → Nat) (idx : Idx) (s : St) (lo bl : Nat) (buf : Bytes) :
    Res (Except IoErr Nat × St × Nat × List Nat) → Prop where
  | mk (tr n lo' : Nat) (out : Bytes) (hout : out = buf ++ s.rest.take n)
      (ok : StepOk idx (IdxFa.fillBuf sched s).avail lo bl tr n lo') :
      StepPost sched idx s lo bl buf (Res.ok (.ok n, IdxFa.consume (IdxFa.fillBuf sched s) tr, lo', out))

/-- … and at the end of the file: the truncation error -/
inductive EofPost : Res (Except IoErr Nat × St × Nat × List Nat) → Prop where
  | mk (s' : St) (lo' : Nat) (buf' : Bytes) : EofPost (Res.ok (.error eofErr, s', lo', buf'))

theorem readLine_eof (sched : Nat → Nat) (idx : Idx) (s : St) (lo bl : Nat) (buf : Bytes)
    (hr : s.rest = []) (hav : s.avail ≤ s.rest.length) :
    EofPost (Gen.SrcIdxFa.readLine (fillBufOp sched) consumeOp s (toRec idx) lo bl buf) := by
  have h0 := fillBuf_avail_nil sched s hr hav
  have hr' := fillBuf_rest sched s
  simp only [Gen.SrcIdxFa.readLine, fillBufOp, h0, hr', hr, List.take_nil, List.isEmpty_nil, if_true,
    Res.pure_eq_ok, List.take_zero, ite_true]
  exact EofPost.mk _ _ _

/-- one step at the head of a translated body (as `rs_head` of `GenSrcTactics`, plus slices and assertions) -/
macro "io_head" : tactic =>
  `(tactic| first
      | (rw [Rs.add_ok]; rotate_left; omega)
      | (rw [Rs.sub_ok]; rotate_left; omega)
      | (rw [Rs.mul_ok]; rotate_left; omega)
      | (rw [Rs.div_ok]; rotate_left; omega)
      | (rw [Rs.rem_ok]; rotate_left; omega)
      | (rw [Rs.slice_ok]; rotate_left; omega; omega)
      | (rw [Rs.assert_ok]; rotate_left; (simp only [decide_eq_true_eq, gt_iff_lt, ge_iff_le]; omega))
      | simp only [Res.ok_bind, Res.panic_bind, Res.pure_eq_ok, pure_bind, decide_eq_true_eq,
          Bool.and_eq_true, Bool.or_eq_true, Bool.not_eq_true', decide_eq_false_iff_not, beq_iff_eq, bne_iff_ne,
          ite_true, ite_false, Res.ok.injEq, gt_iff_lt, ge_iff_le, Bool.false_eq_true, if_false, if_true])

/-- **One successful `read_line` call** (hard obligation, branch-agnostic proof): on a stream that is not at its end,
from a state with the loop invariant, the translated `read_line` returns `Ok(n)`, has consumed `tr > 0` buffered bytes and
appended the first `n` of them — the bases between the old and the new column — to the output (`StepOk`).  Every path of
the generated term is walked (`io_head` / `split`); at each leaf the numbers consumed / kept are read off the term and
`StepOk` is discharged by `omega`.  Which bytes of the terminator are skipped in which call is *not* fixed (seeded C12-H2). -/
theorem readLine_step (f : Bytes) (sched : Nat → Nat) (idx : Idx) (s : St) (lo cur line bl : Nat) (buf : Bytes)
    (hlb : 0 < idx.lb) (hlB : idx.lb < idx.lB) (hs : ∀ k, 0 < sched k) (h64 : idx.lB < 2 ^ 64)
    (inv : Inv f idx s lo cur line) (hbl : 0 < bl) (hne : s.rest ≠ []) :
    StepPost sched idx s lo bl buf (Gen.SrcIdxFa.readLine (fillBufOp sched) consumeOp s (toRec idx) lo bl buf) := by
  have hlo := inv.lo_lt
  have ha_pos := fillBuf_avail_pos sched s hs hne
  have ha_le := fillBuf_avail_le sched s inv.avail_le
  have hr := fillBuf_rest sched s
  have hlen : (List.take (IdxFa.fillBuf sched s).avail s.rest).length = (IdxFa.fillBuf sched s).avail := by
    rw [List.length_take]; omega
  have hnil : (List.take (IdxFa.fillBuf sched s).avail s.rest).isEmpty = false := by
    rw [List.isEmpty_eq_false_iff, ← List.length_pos_iff]; omega
  unfold Gen.SrcIdxFa.readLine
  simp only [fillBufOp, consumeOp, toRec, hr, hnil, hlen]
  generalize ha : (IdxFa.fillBuf sched s).avail = a at *
  generalize hsrc : List.take a s.rest = src at *
  repeat' (first | io_head | split)
  all_goals try simp only [List.drop_zero, Nat.sub_zero]
  all_goals (refine StepPost.mk _ _ _ _ ?_ ⟨?_, ?_, ?_, ?_, ?_, ?_⟩)
  all_goals first
    | omega
    | (split <;> omega)
    | (subst hsrc; first
        | (rw [List.take_take]; congr 2; omega)
        | simp)

/-! ## `read_into_buffer` -/

/-- the loop `while bases_left > 0 { bases_left -= self.read_line(..)?; }` from a state with the loop invariant: the
requested bases when all of them lie inside the file, the truncation error otherwise -/
theorem while1_spec (f file : Bytes) (sched : Nat → Nat) (idx : Idx) (stop : Nat)
    (hlb : 0 < idx.lb) (hlB : idx.lb < idx.lB) (hs : ∀ k, 0 < sched k) (h64 : idx.lB < 2 ^ 64) :
    ∀ gas s lo cur line seq, Inv f idx s lo cur line → cur ≤ stop → s.rest.length < gas →
      ((∀ i, cur ≤ i → i < stop → pos idx i < f.length) →
        ∃ s' lo', Gen.SrcIdxFa.readIntoBuffer_while1 (fillBufOp sched) consumeOp (seekOp file) (toRec idx) gas s seq
            (stop - cur) lo = Res.ok (.next (s', seq ++ slice f idx cur stop, 0, lo'))) ∧
      (cur < stop → f.length ≤ pos idx (stop - 1) →
        ∃ s' seq', Gen.SrcIdxFa.readIntoBuffer_while1 (fillBufOp sched) consumeOp (seekOp file) (toRec idx) gas s seq
            (stop - cur) lo = Res.ok (.ret (.error eofErr, s', seq'))) := by
  intro gas
  induction gas with
  | zero => intro s lo cur line seq _ _ h; omega
  | succ gas ih =>
    intro s lo cur line seq inv hcs hgas
    by_cases hdone : stop - cur = 0
    · have : cur = stop := by omega
      subst this
      refine ⟨fun _ => ⟨s, lo, ?_⟩, fun h => by omega⟩
      simp [Gen.SrcIdxFa.readIntoBuffer_while1, slice_self]
    · have hb : 0 < stop - cur := by omega
      have hpos' : decide (stop - cur > 0) = true := by simpa using hb
      have hpos'' : (stop - cur != 0) = true := by simp; omega
      have hpos''' : decide (0 < stop - cur) = true := by simpa using hb
      by_cases hne : s.rest = []
      · -- end of file
        have hpost := readLine_eof sched idx s lo (stop - cur) seq hne inv.avail_le
        generalize hres : Gen.SrcIdxFa.readLine (fillBufOp sched) consumeOp s (toRec idx) lo (stop - cur) seq = res at hpost
        cases hpost with
        | mk s' lo' buf' =>
          have hbase : f.length ≤ idx.off + line * idx.lB + lo := by
            have := inv.rest_eq; rw [hne] at this
            exact List.drop_eq_nil_iff.mp this.symm
          have hp := inv.base_le_pos hlb hlB
          refine ⟨fun hall => ?_, fun _ _ => ⟨s', buf', ?_⟩⟩
          · have := hall cur (Nat.le_refl _) (by omega); omega
          · rw [Gen.SrcIdxFa.readIntoBuffer_while1]
            simp only [hpos', hpos'', hpos''', if_true, hres, Res.ok_bind, Res.pure_eq_ok, bind_pure_comp, pure_bind]
      · have hpost := readLine_step f sched idx s lo cur line (stop - cur) seq hlb hlB hs h64 inv hb hne
        generalize hres : Gen.SrcIdxFa.readLine (fillBufOp sched) consumeOp s (toRec idx) lo (stop - cur) seq = res at hpost
        cases hpost with
        | mk tr n lo' out hout ok =>
          generalize hk : s.rest.take n = kept at hout
          have hk := hk.symm
          subst hout
          obtain ⟨line', inv', hshort, hnr, hnl, hnb⟩ := inv_step f sched idx s lo cur line (stop - cur) tr n lo' hlb hlB inv ok
          have hsub : Rs.sub (stop - cur) n = Res.ok (stop - (cur + n)) := by
            rw [Rs.sub_ok hnb]; congr 1; omega
          have hunf : Gen.SrcIdxFa.readIntoBuffer_while1 (fillBufOp sched) consumeOp (seekOp file) (toRec idx) (gas + 1) s seq
              (stop - cur) lo =
              Gen.SrcIdxFa.readIntoBuffer_while1 (fillBufOp sched) consumeOp (seekOp file) (toRec idx) gas
                (IdxFa.consume (IdxFa.fillBuf sched s) tr) (seq ++ kept) (stop - (cur + n)) lo' := by
            rw [Gen.SrcIdxFa.readIntoBuffer_while1]
            simp only [hpos', hpos'', hpos''', if_true, hres, Res.ok_bind, Res.pure_eq_ok, hsub, pure_bind]
          have hposj : ∀ j, j < n → pos idx (cur + j) = idx.off + line * idx.lB + lo + j := by
            intro j hj
            have hlo : lo < idx.lb := by
              rcases Nat.lt_or_ge lo idx.lb with h | h
              · exact h
              · have : max lo idx.lb = lo := by omega
                omega
            have hc : cur + j = line * idx.lb + (lo + j) := by have := inv.cur_eq; omega
            rw [hc, pos_line idx hlb line (lo + j) (by omega)]; omega
          have hslice : kept = slice f idx cur (cur + n) := by
            rw [hk]; exact take_eq_slice f s.rest idx _ cur n inv.rest_eq hnr hposj
          have hcn : cur + n ≤ stop := by omega
          obtain ⟨ih1, ih2⟩ := ih _ lo' (cur + n) line' (seq ++ kept) inv' hcn (by omega)
          refine ⟨fun hall => ?_, fun hlt htr => ?_⟩
          · obtain ⟨s', lo'', h⟩ := ih1 (fun i h1 h2 => hall i (by omega) h2)
            refine ⟨s', lo'', ?_⟩
            rw [hunf, h, hslice, List.append_assoc, slice_append f idx (Nat.le_add_right cur n) hcn]
          · by_cases hreach : cur + n = stop
            · exfalso
              have hbase : idx.off + line * idx.lB + lo < f.length := by
                have h1 := inv.rest_eq
                have h2 : (f.drop (idx.off + line * idx.lB + lo)).length = f.length - (idx.off + line * idx.lB + lo) :=
                  List.length_drop
                have h3 : 0 < s.rest.length := List.length_pos_iff.mpr hne
                rw [h1, h2] at h3; omega
              have hrl2 : s.rest.length = f.length - (idx.off + line * idx.lB + lo) := by
                rw [inv.rest_eq]; exact List.length_drop
              have hn : 0 < n := by omega
              have hp := hposj (n - 1) (by omega)
              have : cur + (n - 1) = stop - 1 := by omega
              rw [this] at hp
              omega
            · obtain ⟨s', seq', h⟩ := ih2 (by omega) htr
              exact ⟨s', seq', by rw [hunf, h]⟩

/-- the `io::Error` the code builds for each error of the mirror model -/
def toIo : Err → IoErr
  | .eof => eofErr
  | .oob => oobErr
  | .interval => intervalErr
  | .nofetch => ⟨"Other", "No sequence fetched for reading."⟩
  | .name => ⟨"Other", "Unknown sequence name"⟩
  | .rid => ⟨"Other", "Invalid record index in fasta file."⟩
  | .assert => ⟨"panic", "assert"⟩
  | .fuel => ⟨"panic", "fuel"⟩

/-- what `read_into_buffer` returns, as far as the property fixes it: `Ok(())` with exactly the model's bytes in `seq`, or
the model's error (the content of `seq` and the reader position after an error are not fixed) -/
def Agrees : Except Err Bytes → Except IoErr Unit × St × List Nat → Prop
  | .ok b, (r, _, seq) => r = .ok () ∧ seq = b
  | .error e, (r, _, _) => r = .error (toIo e)

/-- all requested positions inside the file, or the last one outside -/
theorem inside_or_cut (file : Bytes) (idx : Idx) (hlb : 0 < idx.lb) (hlB : idx.lb < idx.lB) (start stop : Nat) :
    (∀ i, start ≤ i → i < stop → pos idx i < file.length) ∨ (start < stop ∧ file.length ≤ pos idx (stop - 1)) := by
  by_cases h : start < stop ∧ file.length ≤ pos idx (stop - 1)
  · exact Or.inr h
  · left
    intro i h1 h2
    have hm : pos idx i ≤ pos idx (stop - 1) := pos_mono idx hlb (Nat.le_of_lt hlB) (by omega)
    have : ¬ file.length ≤ pos idx (stop - 1) := fun h' => h ⟨by omega, h'⟩
    omega

/-- **`read_into_buffer`: translated code = mirror model**, at the level the property fixes (returned bytes / error), for
every file, every `.fai` entry with `0 < line_bases < line_bytes < 2^64` whose seek target fits `u64`, every chunk
schedule, every initial reader state and buffer content, every fuel above the file length. -/
theorem readIntoBuffer_eq_model (file : Bytes) (sched : Nat → Nat) (idx : Idx) (start stop : Nat) (s0 : St) (seq0 : Bytes)
    (fuel : Nat) (hlb : 0 < idx.lb) (hlB : idx.lb < idx.lB) (hs : ∀ k, 0 < sched k) (h64 : idx.lB < 2 ^ 64)
    (hfit : pos idx start < 2 ^ 64) (hfuel : file.length < fuel) :
    ∃ out, Gen.SrcIdxFa.readIntoBuffer (fillBufOp sched) consumeOp (seekOp file) s0 (toRec idx) start stop seq0 fuel
        = Res.ok out ∧ Agrees (IdxFa.readIntoBuffer file sched idx start stop) out := by
  unfold Gen.SrcIdxFa.readIntoBuffer IdxFa.readIntoBuffer
  by_cases h1 : stop > idx.len
  · simp only [h1, decide_true, if_true, Res.pure_eq_ok]
    exact ⟨_, rfl, rfl⟩
  by_cases h2 : start > stop
  · simp only [h1, h2, decide_true, decide_false, if_true, if_false, Res.pure_eq_ok, Bool.false_eq_true]
    exact ⟨_, rfl, rfl⟩
  have hsub : Rs.sub stop start = Res.ok (stop - start) := Rs.sub_ok (by omega)
  have hseek := seekTo_eq_model file idx start s0 hlb (by omega) hfit
  have inv := seekTo_inv file idx start hlb hlB
  have hfl := seekTo_fuel file idx start
  have hspecM := readLoop_spec file sched idx (stop - start) stop hlb hlB hs
  have hspecS := while1_spec file file sched idx stop hlb hlB hs h64 fuel _ _ start _ ([] : Bytes) inv (by omega) (by omega)
  simp only [h1, h2, decide_false, if_false, Bool.false_eq_true, hsub, Res.ok_bind, hseek, Res.pure_eq_ok]
  by_cases he : start = stop
  · -- empty interval: no `read_line` call at all
    subst he
    obtain ⟨s', lo', h⟩ := hspecS.1 (fun i a b => by omega)
    rw [Nat.sub_self] at h ⊢
    refine ⟨_, by simp only [h, Res.ok_bind]; rfl, ?_⟩
    simp [readLoop, Agrees, slice_self]
  have hcap : 0 < stop - start := by omega
  have hspecM := hspecM hcap (file.length + 1) _ _ start _ inv (by omega) hfl
  rcases inside_or_cut file idx hlb hlB start stop with hin | ⟨hlt, hcut⟩
  · obtain ⟨s', lo', h⟩ := hspecS.1 hin
    refine ⟨_, by simp only [h, Res.ok_bind]; rfl, ?_⟩
    simp only [hspecM.1 hin, Agrees, List.nil_append, and_self]
  · obtain ⟨s', seq', h⟩ := hspecS.2 hlt hcut
    obtain ⟨m, _, _, _, hm⟩ := hspecM.2 hlt hcut
    refine ⟨_, by simp only [h, Res.ok_bind]; rfl, ?_⟩
    simp only [hm, Agrees, toIo]

/-! ## The byte iterator: `fill_buffer`, `next` -/

/-- position of the base at the stream position when the column is inside the bases of the line -/
theorem pos_cur_of_inv {f : Bytes} {idx : Idx} {s : St} {lo cur line : Nat} (inv : Inv f idx s lo cur line)
    (hlb : 0 < idx.lb) (hlo : lo < idx.lb) (j : Nat) (hj : lo + j < idx.lb) :
    pos idx (cur + j) = idx.off + line * idx.lB + lo + j := by
  have hc : cur + j = line * idx.lb + (lo + j) := by have := inv.cur_eq; omega
  rw [hc, pos_line idx hlb line (lo + j) hj]; omega

/-- the loop `while self.buf.is_empty() { self.bases_left -= self.reader.read_line(.., bases_to_read, &mut self.buf)?; }` -/
theorem fill_while_spec (f : Bytes) (sched : Nat → Nat) (idx : Idx) (cap bi btr bl cur : Nat)
    (hlb : 0 < idx.lb) (hlB : idx.lb < idx.lB) (hs : ∀ k, 0 < sched k) (h64 : idx.lB < 2 ^ 64)
    (hbtr : 0 < btr) (hbb : btr ≤ bl) :
    ∀ gas s lo line, Inv f idx s lo cur line → s.rest.length + 1 < gas →
      (pos idx cur < f.length →
        ∃ s' lo' n line', 0 < n ∧ n ≤ btr ∧
          Gen.SrcIdxFa.fillBuffer_while1 (fillBufOp sched) consumeOp cap (toRec idx) bi btr gas s bl lo [] =
            Res.ok (.next (s', bl - n, lo', slice f idx cur (cur + n))) ∧
          Inv f idx s' lo' (cur + n) line' ∧ s'.rest.length ≤ s.rest.length ∧
          (∀ j, j < n → pos idx (cur + j) < f.length)) ∧
      (f.length ≤ pos idx cur →
        ∃ s' lo' buf', Gen.SrcIdxFa.fillBuffer_while1 (fillBufOp sched) consumeOp cap (toRec idx) bi btr gas s bl lo [] =
            Res.ok (.ret (.error eofErr, s', bl, lo', buf', bi))) := by
  intro gas
  induction gas with
  | zero => intro s lo line _ h; omega
  | succ gas ih =>
    intro s lo line inv hgas
    by_cases hne : s.rest = []
    · have hpost := readLine_eof sched idx s lo btr [] hne inv.avail_le
      generalize hres : Gen.SrcIdxFa.readLine (fillBufOp sched) consumeOp s (toRec idx) lo btr [] = res at hpost
      cases hpost with
      | mk s' lo' buf' =>
        have hbase : f.length ≤ idx.off + line * idx.lB + lo := by
          have := inv.rest_eq; rw [hne] at this
          exact List.drop_eq_nil_iff.mp this.symm
        have hp := inv.base_le_pos hlb hlB
        refine ⟨fun h => by omega, fun _ => ⟨s', lo', buf', ?_⟩⟩
        rw [Gen.SrcIdxFa.fillBuffer_while1]
        simp only [List.isEmpty_nil, if_true, hres, Res.ok_bind, Res.pure_eq_ok, pure_bind]
    · have hpost := readLine_step f sched idx s lo cur line btr [] hlb hlB hs h64 inv hbtr hne
      generalize hres : Gen.SrcIdxFa.readLine (fillBufOp sched) consumeOp s (toRec idx) lo btr [] = res at hpost
      cases hpost with
      | mk tr n lo' out hout ok =>
        obtain ⟨line', inv', hshort, hnr, hnl, hnb⟩ := inv_step f sched idx s lo cur line btr tr n lo' hlb hlB inv ok
        have hsub : Rs.sub bl n = Res.ok (bl - n) := Rs.sub_ok (by omega)
        have hunf : Gen.SrcIdxFa.fillBuffer_while1 (fillBufOp sched) consumeOp cap (toRec idx) bi btr (gas + 1) s bl lo [] =
            Gen.SrcIdxFa.fillBuffer_while1 (fillBufOp sched) consumeOp cap (toRec idx) bi btr gas
              (IdxFa.consume (IdxFa.fillBuf sched s) tr) (bl - n) lo' out := by
          rw [Gen.SrcIdxFa.fillBuffer_while1]
          simp only [List.isEmpty_nil, if_true, hres, Res.ok_bind, Res.pure_eq_ok, hsub, pure_bind]
        have hlen : 0 < s.rest.length := List.length_pos_iff.mpr hne
        by_cases hn0 : n = 0
        · -- only terminator bytes were skipped: the buffer is still empty, the loop goes on
          subst hn0
          simp only [List.take_zero, List.append_nil] at hout
          subst hout
          rw [Nat.add_zero] at inv'
          rw [Nat.sub_zero] at hunf
          obtain ⟨ih1, ih2⟩ := ih _ lo' line' inv' (by omega)
          refine ⟨fun h => ?_, fun h => ?_⟩
          · obtain ⟨s', lo'', n, line'', h1, h2, h3, h4, h5, h6⟩ := ih1 h
            exact ⟨s', lo'', n, line'', h1, h2, by rw [hunf, h3], h4, by omega, h6⟩
          · obtain ⟨s', lo'', buf', h1⟩ := ih2 h
            exact ⟨s', lo'', buf', by rw [hunf, h1]⟩
        · have hnpos : 0 < n := by omega
          have hlo : lo < idx.lb := by
            rcases Nat.lt_or_ge lo idx.lb with h | h
            · exact h
            · have : max lo idx.lb = lo := by omega
              omega
          have hposj : ∀ j, j < n → pos idx (cur + j) = idx.off + line * idx.lB + lo + j := by
            intro j hj
            have : max lo idx.lb = idx.lb := by omega
            exact pos_cur_of_inv inv hlb hlo j (by omega)
          have hslice : s.rest.take n = slice f idx cur (cur + n) :=
            take_eq_slice f s.rest idx _ cur n inv.rest_eq hnr hposj
          have hrl2 : s.rest.length = f.length - (idx.off + line * idx.lB + lo) := by
            rw [inv.rest_eq]; exact List.length_drop
          have hout' : out = slice f idx cur (cur + n) := by rw [hout, List.nil_append, hslice]
          have hne' : out.isEmpty = false := by
            rw [List.isEmpty_eq_false_iff, ← List.length_pos_iff, hout', slice_length]; omega
          have hgas' : ∃ g, gas = g + 1 := ⟨gas - 1, by omega⟩
          obtain ⟨g, hg⟩ := hgas'
          have hend : Gen.SrcIdxFa.fillBuffer_while1 (fillBufOp sched) consumeOp cap (toRec idx) bi btr gas
              (IdxFa.consume (IdxFa.fillBuf sched s) tr) (bl - n) lo' out =
              Res.ok (.next (IdxFa.consume (IdxFa.fillBuf sched s) tr, bl - n, lo', out)) := by
            rw [hg, Gen.SrcIdxFa.fillBuffer_while1]
            simp only [hne', Bool.false_eq_true, if_false, Res.pure_eq_ok]
          have hin : ∀ j, j < n → pos idx (cur + j) < f.length := by
            intro j hj; rw [hposj j hj]; omega
          refine ⟨fun _ => ⟨_, lo', n, line', hnpos, hnb, by rw [hunf, hend, hout'], inv', by omega, hin⟩, fun h => ?_⟩
          exfalso
          have := hposj 0 hnpos
          rw [Nat.add_zero] at this
          omega

/-- what `fill_buffer` delivers (see `fillBuffer_spec`) -/
abbrev FillPost (f : Bytes) (sched : Nat → Nat) (idx : Idx) (cap bi bl cur : Nat) (buf : Bytes) (fuel : Nat) (s : St)
    (lo : Nat) : Prop :=
  (pos idx cur < f.length →
    ∃ s' lo' n line', 0 < n ∧ n ≤ bl ∧
      Gen.SrcIdxFa.fillBuffer (fillBufOp sched) consumeOp cap s (toRec idx) bl lo buf bi fuel =
        Res.ok (.ok (), s', bl - n, lo', slice f idx cur (cur + n), 0) ∧
      Inv f idx s' lo' (cur + n) line' ∧ s'.rest.length ≤ s.rest.length ∧
      (∀ j, j < n → pos idx (cur + j) < f.length)) ∧
  (f.length ≤ pos idx cur →
    ∃ s' bl' lo' buf' bi', Gen.SrcIdxFa.fillBuffer (fillBufOp sched) consumeOp cap s (toRec idx) bl lo buf bi fuel =
        Res.ok (.error eofErr, s', bl', lo', buf', bi'))

/-- `fill_buffer` = clear the buffer, run the refill loop with *some* positive request `btr ≤ bases_left`, reset `buf_idx` -/
theorem fillBuffer_tail (f : Bytes) (sched : Nat → Nat) (idx : Idx) (cap bi bl cur : Nat) (buf : Bytes)
    (hlb : 0 < idx.lb) (hlB : idx.lb < idx.lB) (hs : ∀ k, 0 < sched k) (h64 : idx.lB < 2 ^ 64)
    (fuel : Nat) (s : St) (lo line : Nat) (inv : Inv f idx s lo cur line) (hfuel : s.rest.length + 1 < fuel)
    (btr : Nat) (hb1 : 0 < btr) (hb2 : btr ≤ bl)
    (hfb : Gen.SrcIdxFa.fillBuffer (fillBufOp sched) consumeOp cap s (toRec idx) bl lo buf bi fuel =
      (Gen.SrcIdxFa.fillBuffer_while1 (fillBufOp sched) consumeOp cap (toRec idx) bi btr fuel s bl lo [] >>= fun t3 =>
        match t3 with
        | .ret v => pure v
        | .next (reader, bl', lo', buf') => pure (.ok (), reader, bl', lo', buf', 0))) :
    FillPost f sched idx cap bi bl cur buf fuel s lo := by
  obtain ⟨h1, h2⟩ := fill_while_spec f sched idx cap bi btr bl cur hlb hlB hs h64 hb1 hb2 fuel s lo line inv hfuel
  refine ⟨fun h => ?_, fun h => ?_⟩
  · obtain ⟨s', lo', n, line', a1, a2, a3, a4, a5, a6⟩ := h1 h
    exact ⟨s', lo', n, line', a1, by omega, by rw [hfb, a3]; rfl, a4, a5, a6⟩
  · obtain ⟨s', lo', buf', a1⟩ := h2 h
    exact ⟨s', bl, lo', buf', bi, by rw [hfb, a1]; rfl⟩

/-- **`fill_buffer`**: from a state with the loop invariant and `bases_left > 0`: the next chunk of bases (at least one,
at most `bases_left`, ending at a line end or where the buffered bytes end) when the next base lies inside the file, the
truncation error otherwise.  The chunk size asked for — `min(self.buf.capacity(), bases_left)` in the pinned text,
`min(MAX_FASTA_BUFFER_SIZE, bases_left)` in seeded C12-H1 — only has to be positive and at most `bases_left`. -/
theorem fillBuffer_spec (f : Bytes) (sched : Nat → Nat) (idx : Idx) (cap bi bl cur : Nat) (buf : Bytes)
    (hlb : 0 < idx.lb) (hlB : idx.lb < idx.lB) (hs : ∀ k, 0 < sched k) (h64 : idx.lB < 2 ^ 64)
    (hcap : 0 < cap) (hbl : 0 < bl) (fuel : Nat) (s : St) (lo line : Nat)
    (inv : Inv f idx s lo cur line) (hfuel : s.rest.length + 1 < fuel) :
    FillPost f sched idx cap bi bl cur buf fuel s lo := by
  have hass : Rs.assert (decide (bl > 0)) = Res.ok () := Rs.assert_ok (by simpa using hbl)
  have hass' : Rs.assert (decide (0 < bl)) = Res.ok () := Rs.assert_ok (by simpa using hbl)
  have hass'' : Rs.assert (bl != 0) = Res.ok () := Rs.assert_ok (by simp; omega)
  first
    | exact fillBuffer_tail f sched idx cap bi bl cur buf hlb hlB hs h64 fuel s lo line inv hfuel
        (min cap bl) (by omega) (by omega)
        (by unfold Gen.SrcIdxFa.fillBuffer; simp only [hass, hass', hass'', Res.ok_bind]
            refine congrArg _ (funext fun t3 => ?_); cases t3 <;> rfl)
    | exact fillBuffer_tail f sched idx cap bi bl cur buf hlb hlB hs h64 fuel s lo line inv hfuel
        (min bl cap) (by omega) (by omega)
        (by unfold Gen.SrcIdxFa.fillBuffer; simp only [hass, hass', hass'', Res.ok_bind]
            refine congrArg _ (funext fun t3 => ?_); cases t3 <;> rfl)
    | exact fillBuffer_tail f sched idx cap bi bl cur buf hlb hlB hs h64 fuel s lo line inv hfuel
        (min Gen.SrcIdxFa.MAX_FASTA_BUFFER_SIZE bl) (by simp only [Gen.SrcIdxFa.MAX_FASTA_BUFFER_SIZE]; omega) (by omega)
        (by unfold Gen.SrcIdxFa.fillBuffer; simp only [hass, hass', hass'', Res.ok_bind]
            refine congrArg _ (funext fun t3 => ?_); cases t3 <;> rfl)
    | exact fillBuffer_tail f sched idx cap bi bl cur buf hlb hlB hs h64 fuel s lo line inv hfuel
        (min bl Gen.SrcIdxFa.MAX_FASTA_BUFFER_SIZE) (by simp only [Gen.SrcIdxFa.MAX_FASTA_BUFFER_SIZE]; omega) (by omega)
        (by unfold Gen.SrcIdxFa.fillBuffer; simp only [hass, hass', hass'', Res.ok_bind]
            refine congrArg _ (funext fun t3 => ?_); cases t3 <;> rfl)

/-- the iterator state: reader, `bases_left`, `line_offset`, `buf`, `buf_idx` -/
abbrev ItSt := St × Nat × Nat × List Nat × Nat

/-- what a consumer of the iterator sees: `next` is called until it returns `None` (`calls` bounds the number of calls) -/
def drainIt (sched : Nat → Nat) (cap : Nat) (idx : Idx) (fuel : Nat) : Nat → ItSt → Res (List (Except IoErr Nat))
  | 0, _ => Res.fuel
  | calls + 1, st => do
    let r ← Gen.SrcIdxFa.next (fillBufOp sched) consumeOp cap st.1 (toRec idx) st.2.1 st.2.2.1 st.2.2.2.1 st.2.2.2.2 fuel
    match r.1 with
    | none => pure []
    | some item => do
      let more ← drainIt sched cap idx fuel calls r.2
      pure (item :: more)

/-- items of a successful / failed run -/
def okItems (b : Bytes) : List (Except IoErr Nat) := b.map .ok

theorem next_buffered (sched : Nat → Nat) (cap : Nat) (idx : Idx) (fuel : Nat) (s : St) (bl lo : Nat) (buf : Bytes) (i : Nat)
    (hi : i < buf.length) (h64 : buf.length < 2 ^ 64) :
    Gen.SrcIdxFa.next (fillBufOp sched) consumeOp cap s (toRec idx) bl lo buf i fuel =
      Res.ok (some (.ok buf[i]), s, bl, lo, buf, i + 1) := by
  have e1 : Rs.idx buf i = Res.ok buf[i] := Rs.idx_ok hi
  have e2 : Rs.add 64 i 1 = Res.ok (i + 1) := Rs.add_ok (by omega)
  have e3 : Rs.add 64 1 i = Res.ok (i + 1) := by
    have : Rs.add 64 1 i = Res.ok (1 + i) := Rs.add_ok (by omega)
    rw [this, Nat.add_comm]
  simp [Gen.SrcIdxFa.next, hi, e1, e2, e3]

theorem next_done (sched : Nat → Nat) (cap : Nat) (idx : Idx) (fuel : Nat) (s : St) (lo : Nat) (buf : Bytes) (i : Nat)
    (hi : buf.length ≤ i) :
    Gen.SrcIdxFa.next (fillBufOp sched) consumeOp cap s (toRec idx) 0 lo buf i fuel =
      Res.ok (none, s, 0, lo, buf, i) := by
  have : ¬ i < buf.length := by omega
  simp [Gen.SrcIdxFa.next, this]


theorem next_fill_ok (sched : Nat → Nat) (cap : Nat) (idx : Idx) (fuel : Nat) (s s' : St) (bl bl' lo lo' : Nat)
    (buf chunk : Bytes) (i : Nat) (hi : buf.length ≤ i) (hbl : 0 < bl) (hc : 0 < chunk.length)
    (hfb : Gen.SrcIdxFa.fillBuffer (fillBufOp sched) consumeOp cap s (toRec idx) bl lo buf i fuel =
      Res.ok (.ok (), s', bl', lo', chunk, 0)) :
    Gen.SrcIdxFa.next (fillBufOp sched) consumeOp cap s (toRec idx) bl lo buf i fuel =
      Res.ok (some (.ok chunk[0]), s', bl', lo', chunk, 1) := by
  have h1 : ¬ i < buf.length := by omega
  have e1 : Rs.idx chunk 0 = Res.ok chunk[0] := Rs.idx_ok hc
  simp [Gen.SrcIdxFa.next, h1, hbl, hfb, e1]

theorem next_fill_err (sched : Nat → Nat) (cap : Nat) (idx : Idx) (fuel : Nat) (s s' : St) (bl bl' lo lo' : Nat)
    (buf buf' : Bytes) (i i' : Nat) (e : IoErr) (hi : buf.length ≤ i) (hbl : 0 < bl)
    (hfb : Gen.SrcIdxFa.fillBuffer (fillBufOp sched) consumeOp cap s (toRec idx) bl lo buf i fuel =
      Res.ok (.error e, s', bl', lo', buf', i')) :
    Gen.SrcIdxFa.next (fillBufOp sched) consumeOp cap s (toRec idx) bl lo buf i fuel =
      Res.ok (some (.error e), s', 0, lo', buf', buf'.length) := by
  have h1 : ¬ i < buf.length := by omega
  simp [Gen.SrcIdxFa.next, h1, hbl, hfb]

theorem okItems_append (a b : Bytes) : okItems (a ++ b) = okItems a ++ okItems b := by simp [okItems]

/-- **The drained iterator**, from any state with the loop invariant: the buffered bytes not yet yielded, then the
requested bases when all of them lie inside the file; otherwise a correct strictly shorter prefix, then the truncation
error as the last item. -/
theorem drain_spec (f : Bytes) (sched : Nat → Nat) (idx : Idx) (cap stop fuel : Nat)
    (hlb : 0 < idx.lb) (hlB : idx.lb < idx.lB) (hs : ∀ k, 0 < sched k) (h64 : idx.lB < 2 ^ 64)
    (hcap : 0 < cap) (hstop : stop < 2 ^ 64) :
    ∀ calls s lo cur line buf i, Inv f idx s lo cur line → cur ≤ stop → s.rest.length + 1 < fuel →
      buf.length < 2 ^ 64 → (buf.length - i) + (stop - cur) + 2 ≤ calls →
      ((∀ j, cur ≤ j → j < stop → pos idx j < f.length) →
        drainIt sched cap idx fuel calls (s, stop - cur, lo, buf, i) =
          Res.ok (okItems (buf.drop i ++ slice f idx cur stop))) ∧
      (cur < stop → f.length ≤ pos idx (stop - 1) →
        ∃ m, cur ≤ m ∧ m < stop ∧ (∀ j, cur ≤ j → j < m → pos idx j < f.length) ∧ f.length ≤ pos idx m ∧
          drainIt sched cap idx fuel calls (s, stop - cur, lo, buf, i) =
            Res.ok (okItems (buf.drop i ++ slice f idx cur m) ++ [.error eofErr])) := by
  intro calls
  induction calls with
  | zero => intro s lo cur line buf i _ _ _ _ h; omega
  | succ calls ih =>
    intro s lo cur line buf i inv hcs hfuel hb64 hcalls
    by_cases hi : i < buf.length
    · -- a buffered byte
      have hn := next_buffered sched cap idx fuel s (stop - cur) lo buf i hi hb64
      obtain ⟨ih1, ih2⟩ := ih s lo cur line buf (i + 1) inv hcs hfuel hb64 (by omega)
      have hdrop : buf.drop i = buf[i] :: buf.drop (i + 1) := (List.drop_eq_getElem_cons hi)
      refine ⟨fun hall => ?_, fun hlt htr => ?_⟩
      · rw [drainIt]
        simp only [hn, Res.ok_bind, ih1 hall, Res.pure_eq_ok, hdrop, List.cons_append, okItems, List.map_cons]
      · obtain ⟨m, m1, m2, m3, m4, m5⟩ := ih2 hlt htr
        refine ⟨m, m1, m2, m3, m4, ?_⟩
        rw [drainIt]
        simp only [hn, Res.ok_bind, m5, Res.pure_eq_ok, hdrop, List.cons_append, okItems, List.map_cons]
    · have hi' : buf.length ≤ i := by omega
      have hdrop : buf.drop i = [] := List.drop_eq_nil_of_le hi'
      by_cases hdone : stop - cur = 0
      · have : cur = stop := by omega
        subst this
        refine ⟨fun _ => ?_, fun h => by omega⟩
        rw [drainIt, Nat.sub_self]
        simp only [next_done sched cap idx fuel s lo buf i hi', Res.ok_bind, Res.pure_eq_ok, hdrop, slice_self,
          List.append_nil, okItems, List.map_nil]
      · have hbl : 0 < stop - cur := by omega
        obtain ⟨f1, f2⟩ := fillBuffer_spec f sched idx cap i (stop - cur) cur buf hlb hlB hs h64 hcap hbl fuel s lo line
          inv hfuel
        by_cases hin : pos idx cur < f.length
        · obtain ⟨s', lo', n, line', n1, n2, hfb, inv', hshort, hinside⟩ := f1 hin
          have hclen : (slice f idx cur (cur + n)).length = n := by rw [slice_length]; omega
          have hc0 : 0 < (slice f idx cur (cur + n)).length := by rw [hclen]; exact n1
          have hn := next_fill_ok sched cap idx fuel s s' (stop - cur) (stop - cur - n) lo lo' buf
            (slice f idx cur (cur + n)) i hi' hbl hc0 hfb
          have hbl' : stop - cur - n = stop - (cur + n) := by omega
          rw [hbl'] at hn
          have g1 : cur + n ≤ stop := by clear ih f1 f2 hfb hn hinside; omega
          have g2 : s'.rest.length + 1 < fuel := by clear ih f1 f2 hfb hn hinside; omega
          have g3 : (slice f idx cur (cur + n)).length < 2 ^ 64 := by clear ih f1 f2 hfb hn hinside; omega
          have g4 : (slice f idx cur (cur + n)).length - 1 + (stop - (cur + n)) + 2 ≤ calls := by
            clear ih f1 f2 hfb hn hinside; omega
          obtain ⟨ih1, ih2⟩ := ih s' lo' (cur + n) line' (slice f idx cur (cur + n)) 1 inv' g1 g2 g3 g4
          have hchunk : slice f idx cur (cur + n) =
              (slice f idx cur (cur + n))[0]'(by omega) :: (slice f idx cur (cur + n)).drop 1 := by
            have := List.drop_eq_getElem_cons (l := slice f idx cur (cur + n)) (i := 0) (by omega)
            simpa using this
          refine ⟨fun hall => ?_, fun hlt htr => ?_⟩
          · rw [drainIt]
            simp only [hn, Res.ok_bind, ih1 (fun j a b => hall j (by omega) b), Res.pure_eq_ok, hdrop, List.nil_append]
            rw [← slice_append f idx (Nat.le_add_right cur n) (by omega : cur + n ≤ stop)]
            conv => rhs; rw [hchunk]
            simp only [okItems, List.map_cons, List.cons_append, List.map_append]
          · by_cases hreach : cur + n = stop
            · exfalso
              have := hinside (n - 1) (by omega)
              have e : cur + (n - 1) = stop - 1 := by omega
              rw [e] at this
              omega
            · obtain ⟨m, m1, m2, m3, m4, m5⟩ := ih2 (by omega) htr
              refine ⟨m, by omega, m2, ?_, m4, ?_⟩
              · intro j j1 j2
                by_cases hj : j < cur + n
                · have := hinside (j - cur) (by omega)
                  have e : cur + (j - cur) = j := by omega
                  rw [e] at this; exact this
                · exact m3 j (by omega) j2
              · rw [drainIt]
                simp only [hn, Res.ok_bind, m5, Res.pure_eq_ok, hdrop, List.nil_append]
                rw [← slice_append f idx (Nat.le_add_right cur n) m1]
                conv => rhs; rw [hchunk]
                simp only [okItems, List.map_cons, List.cons_append, List.map_append, List.append_assoc]
        · have hout : f.length ≤ pos idx cur := by omega
          obtain ⟨s', bl', lo', buf', bi', hfb⟩ := f2 hout
          have hn := next_fill_err sched cap idx fuel s s' (stop - cur) bl' lo lo' buf buf' i bi' eofErr hi' hbl hfb
          have hcalls' : ∃ c, calls = c + 1 := ⟨calls - 1, by omega⟩
          obtain ⟨c, hc⟩ := hcalls'
          have hend : drainIt sched cap idx fuel calls (s', 0, lo', buf', buf'.length) = Res.ok [] := by
            rw [hc, drainIt]
            simp only [next_done sched cap idx fuel s' lo' buf' buf'.length (Nat.le_refl _), Res.ok_bind, Res.pure_eq_ok]
          refine ⟨fun hall => ?_, fun hlt htr => ⟨cur, Nat.le_refl _, hlt, fun j a b => by omega, hout, ?_⟩⟩
          · have := hall cur (Nat.le_refl _) (by omega); omega
          · rw [drainIt]
            simp only [hn, Res.ok_bind, hend, Res.pure_eq_ok, hdrop, slice_self, List.append_nil, okItems, List.map_nil,
              List.nil_append]


/-- the items the model's drained iterator stands for: the bytes, then the error that ended it (if any) -/
def itemsOf (r : Bytes × Option Err) : List (Except IoErr Nat) :=
  okItems r.1 ++ (match r.2 with | none => [] | some e => [.error (toIo e)])

/-- **The drained translated iterator = the mirror model's `readLoop`** with the capacity `read_into_iter` asks for, from
the state `seek_to` leaves — for every file, `.fai` entry with `0 < line_bases < line_bytes`, chunk schedule, and *every
positive value* of `self.buf.capacity()` (`Vec::with_capacity(c)` only promises `≥ c`; the chunk size is not observable). -/
theorem iter_eq_model (file : Bytes) (sched : Nat → Nat) (idx : Idx) (cap start stop fuel calls : Nat)
    (hlb : 0 < idx.lb) (hlB : idx.lb < idx.lB) (hs : ∀ k, 0 < sched k) (h64 : idx.lB < 2 ^ 64)
    (hcap : 0 < cap) (hstop : stop < 2 ^ 64) (h1 : start ≤ stop) (hfuel : file.length + 1 < fuel)
    (hcalls : stop - start + 2 ≤ calls) :
    drainIt sched cap idx fuel calls
        ((IdxFa.seekTo file idx start).1, stop - start, (IdxFa.seekTo file idx start).2, [], 0) =
      Res.ok (itemsOf (readLoop sched idx (min 512 (min (stop - start) idx.lb)) (file.length + 1)
        (IdxFa.seekTo file idx start).1 (IdxFa.seekTo file idx start).2 (stop - start))) := by
  have inv := seekTo_inv file idx start hlb hlB
  have hfl := seekTo_fuel file idx start
  have hS := drain_spec file sched idx cap stop fuel hlb hlB hs h64 hcap hstop calls _ _ start _ [] 0 inv h1 (by omega)
    (by simp) (by simpa using hcalls)
  by_cases he : start = stop
  · subst he
    rw [hS.1 (fun j a b => by omega), Nat.sub_self]
    simp [readLoop, itemsOf, okItems, slice_self]
  have hcap' : 0 < min 512 (min (stop - start) idx.lb) := by omega
  have hM := readLoop_spec' file sched idx _ stop hlb hlB hs hcap' (file.length + 1) _ _ start _ inv h1 hfl
  rcases inside_or_cut file idx hlb hlB start stop with hin | ⟨hlt, hcut⟩
  · rw [hS.1 hin, hM.1 hin]
    simp [itemsOf]
  · obtain ⟨m, m1, m2, m3, m4, m5⟩ := hS.2 hlt hcut
    obtain ⟨m', n1, n2, n3, n4, n5⟩ := hM.2 hlt hcut
    have hmm : m = m' := by
      rcases Nat.lt_trichotomy m m' with h | h | h
      · have := n3 m m1 h; omega
      · exact h
      · have := m3 m' n1 h; omega
    subst hmm
    rw [m5, n5]
    simp [itemsOf, toIo]


/-! ## `idx_by_rid`, `fetch_by_rid`, `fetch_all_by_rid`, `read` -/

/-- the `.fai` records as the Rust `Vec<IndexRecord>` (`Index::inner`, without the names) -/
def toRecs (index : List (Bytes × Idx)) : List IndexRecord := index.map fun e => toRec e.2

theorem idxByRid_eq_model (index : List (Bytes × Idx)) (rid : Nat) :
    Gen.SrcIdxFa.idxByRid (toRecs index) rid =
      Res.ok (match IdxFa.idxByRid index rid with
        | .ok i => .ok (toRec i)
        | .error e => .error (toIo e)) := by
  unfold Gen.SrcIdxFa.idxByRid IdxFa.idxByRid toRecs
  rw [List.getElem?_map]
  cases h : index[rid]? <;> simp [toIo]

/-- the fetch state of the Rust struct (`fetched_idx`, `start`, `stop`) for what the model's `fetch*` stored -/
def fetchState (r : Fetched) : Option IndexRecord × Option Nat × Option Nat := (some (toRec r.idx), some r.start, some r.stop)

/-- `fetch_by_rid`: translated code = mirror model — an unknown record number is the error and leaves the fetch state
alone, a known one stores the entry and the interval -/
theorem fetchByRid_eq_model (index : List (Bytes × Idx)) (fi : Option IndexRecord) (a b : Option Nat) (rid start stop : Nat) :
    Gen.SrcIdxFa.fetchByRid (toRecs index) fi a b rid start stop =
      Res.ok (match IdxFa.fetchByRid index rid start stop with
        | .ok r => (.ok (), fetchState r)
        | .error e => (.error (toIo e), fi, a, b)) := by
  unfold Gen.SrcIdxFa.fetchByRid IdxFa.fetchByRid
  rw [idxByRid_eq_model]
  cases h : IdxFa.idxByRid index rid <;> simp [Except.map, fetchState]

theorem fetchAllByRid_eq_model (index : List (Bytes × Idx)) (fi : Option IndexRecord) (a b : Option Nat) (rid : Nat) :
    Gen.SrcIdxFa.fetchAllByRid (toRecs index) fi a b rid =
      Res.ok (match IdxFa.fetchAllByRid index rid with
        | .ok r => (.ok (), fetchState r)
        | .error e => (.error (toIo e), fi, a, b)) := by
  unfold Gen.SrcIdxFa.fetchAllByRid IdxFa.fetchAllByRid
  rw [idxByRid_eq_model]
  cases h : IdxFa.idxByRid index rid <;> simp [Except.map, fetchState]

/-- `read` = `read_into_buffer` on what was fetched; an error before any fetch -/
theorem read_eq {ρ : Type} (fb : ρ → Except IoErr (List Nat) × ρ) (co : ρ → Nat → ρ) (sk : ρ → Nat → Except IoErr Nat × ρ)
    (s : ρ) (r : IndexRecord) (start stop : Nat) (seq : List Nat) (fuel : Nat) :
    Gen.SrcIdxFa.read fb co sk s (some r) (some start) (some stop) seq fuel =
      Gen.SrcIdxFa.readIntoBuffer fb co sk s r start stop seq fuel := by
  unfold Gen.SrcIdxFa.read
  simp only [Res.pure_eq_ok, bind_pure_comp]
  cases Gen.SrcIdxFa.readIntoBuffer fb co sk s r start stop seq fuel <;> rfl

theorem read_nofetch {ρ : Type} (fb : ρ → Except IoErr (List Nat) × ρ) (co : ρ → Nat → ρ)
    (sk : ρ → Nat → Except IoErr Nat × ρ) (s : ρ) (seq : List Nat) (fuel : Nat) :
    Gen.SrcIdxFa.read fb co sk s none none none seq fuel = Res.ok (.error (toIo .nofetch), s, seq) := by
  simp [Gen.SrcIdxFa.read, toIo]

end RbV.Thm.GenSrcIdxFa
