import RbV.Gen.SrcIdxFa
import RbV.Model.IndexedFasta
import RbV.Lemmas.IndexedFasta
import RbV.Lemmas.IndexedFastaSrc
import RbV.Thm.GenSrcTactics
/-!
# The translated `IndexedReader` (`RbV/Gen/SrcIdxFa.lean`) against the mirror model and the property C12

The generated definitions take the reader as an opaque value with the operations `fillBuf`, `consume`, `seekStart`.
Here they are instantiated with the reader of the mirror model (`IdxFa.St`: the file from the current position on, the
number of buffered bytes, the refill counter; `sched` = the chunk schedule) — trusted: std's `BufReader` over a
`Read + Seek` behaves like that.
-/
set_option linter.unusedSimpArgs false
set_option linter.unusedVariables false
namespace RbV.Thm.GenSrcIdxFa
open RbV RbV.Rs RbV.IdxFa RbV.Fastx RbV.Thm.GenSrc
open RbV.Gen.SrcIdxFa (IndexRecord)

/-- `BufRead::fill_buf` of the model reader: refill when nothing is buffered, hand out the buffered bytes; never fails -/
@[reducible] def fillBufOp (sched : Nat → Nat) (s : St) : Except IoErr (List Nat) × St :=
  (.ok ((IdxFa.fillBuf sched s).rest.take (IdxFa.fillBuf sched s).avail), IdxFa.fillBuf sched s)
/-- `BufRead::consume` -/
@[reducible] def consumeOp (s : St) (n : Nat) : St := IdxFa.consume s n
/-- `Seek::seek(SeekFrom::Start(o))` on a `BufReader`: the buffer is discarded, the schedule restarts; never fails -/
@[reducible] def seekOp (file : Bytes) (_ : St) (o : Nat) : Except IoErr Nat × St :=
  (.ok o, { rest := file.drop o, avail := 0, k := 0 })
/-- the `.fai` entry as the Rust struct (without the name) -/
@[reducible] def toRec (idx : Idx) : IndexRecord := ⟨idx.len, idx.off, idx.lb, idx.lB⟩

def eofErr : IoErr := ⟨"UnexpectedEof", "FASTA file is truncated."⟩
def oobErr : IoErr := ⟨"Other", "FASTA read interval was out of bounds"⟩
def intervalErr : IoErr := ⟨"Other", "Invalid query interval"⟩

/-! ## `seek_to` -/

/-- `seek_to` = the model's `seekTo`: seeks to `offset + (start / line_bases) * line_bytes + start % line_bases`, returns
the column `start % line_bases` (no overflow: the target offset fits `u64`) -/
theorem seekTo_eq_model (file : Bytes) (idx : Idx) (start : Nat) (s : St)
    (hlb : 0 < idx.lb) (hst : start ≤ idx.len) (hfit : pos idx start < 2 ^ 64) :
    Gen.SrcIdxFa.seekTo (seekOp file) s (toRec idx) start =
      Res.ok (.ok (IdxFa.seekTo file idx start).2, (IdxFa.seekTo file idx start).1) := by
  unfold pos at hfit
  have e0 : Rs.assert (decide (start ≤ idx.len)) = Res.ok () := Rs.assert_ok (by simpa using hst)
  have e1 : Rs.rem start idx.lb = Res.ok (start % idx.lb) := Rs.rem_ok hlb
  have e2 : Rs.div start idx.lb = Res.ok (start / idx.lb) := Rs.div_ok hlb
  have e3 : Rs.mul 64 (start / idx.lb) idx.lB = Res.ok (start / idx.lb * idx.lB) := Rs.mul_ok (by omega)
  have e4 : Rs.add 64 idx.off (start / idx.lb * idx.lB) = Res.ok (idx.off + start / idx.lb * idx.lB) := Rs.add_ok (by omega)
  have e5 : Rs.add 64 (idx.off + start / idx.lb * idx.lB) (start % idx.lb) =
      Res.ok (idx.off + start / idx.lb * idx.lB + start % idx.lb) := Rs.add_ok (by omega)
  have e3' : Rs.mul 64 idx.lB (start / idx.lb) = Res.ok (start / idx.lb * idx.lB) := by
    rw [Nat.mul_comm]; exact Rs.mul_ok (by rw [Nat.mul_comm]; omega)
  have e4' : Rs.add 64 (start / idx.lb * idx.lB) idx.off = Res.ok (idx.off + start / idx.lb * idx.lB) := by
    rw [Nat.add_comm]; exact Rs.add_ok (by omega)
  simp [Gen.SrcIdxFa.seekTo, IdxFa.seekTo, pos, e0, e1, e2, e3, e4, e5, e3', e4']

/-- `seek_to` refuses a start behind the end of the record (`assert!`) -/
theorem seekTo_oob_panics (file : Bytes) (idx : Idx) (start : Nat) (s : St) (hst : idx.len < start) :
    Gen.SrcIdxFa.seekTo (seekOp file) s (toRec idx) start = Res.panic := by
  have : ¬ start ≤ idx.len := by omega
  simp [Gen.SrcIdxFa.seekTo, Rs.assert, this]

/-! ## `read_line`: what its callers rely on -/

/-- outcome of a `read_line` call that the callers can work with: `Ok(n)`, `tr` bytes consumed from the refilled
buffer, the first `n` of them appended to the output, `StepOk` -/
inductive StepPost (sched : Nat → Nat) (idx : Idx) (s : St) (lo bl : Nat) (buf : Bytes) :
    Res (Except IoErr Nat × St × Nat × List Nat) → Prop where
  | mk (tr n lo' : Nat) (kept : Bytes) (hk : kept = s.rest.take n)
      (ok : StepOk idx (IdxFa.fillBuf sched s).avail lo bl tr n lo') :
      StepPost sched idx s lo bl buf (Res.ok (.ok n, IdxFa.consume (IdxFa.fillBuf sched s) tr, lo', buf ++ kept))

/-- … and at the end of the file: the truncation error -/
inductive EofPost : Res (Except IoErr Nat × St × Nat × List Nat) → Prop where
  | mk (s' : St) (lo' : Nat) (buf' : Bytes) : EofPost (Res.ok (.error eofErr, s', lo', buf'))

theorem readLine_eof (sched : Nat → Nat) (idx : Idx) (s : St) (lo bl : Nat) (buf : Bytes)
    (hr : s.rest = []) (hav : s.avail ≤ s.rest.length) :
    EofPost (Gen.SrcIdxFa.readLine (fillBufOp sched) consumeOp s (toRec idx) lo bl buf) := by
  have h0 := fillBuf_avail_nil sched s hr hav
  have hr' := fillBuf_rest sched s
  simp only [Gen.SrcIdxFa.readLine, fillBufOp, h0, hr', hr, List.take_nil, List.isEmpty_nil, if_true,
    Res.pure_eq_ok, List.take_zero, ite_true]
  exact EofPost.mk _ _ _

/-- one step at the head of a translated body (as `rs_head` of `GenSrcTactics`, plus slices and assertions) -/
macro "io_head" : tactic =>
  `(tactic| first
      | (rw [Rs.add_ok]; rotate_left; omega)
      | (rw [Rs.sub_ok]; rotate_left; omega)
      | (rw [Rs.mul_ok]; rotate_left; omega)
      | (rw [Rs.div_ok]; rotate_left; omega)
      | (rw [Rs.rem_ok]; rotate_left; omega)
      | (rw [Rs.slice_ok]; rotate_left; omega; omega)
      | (rw [Rs.assert_ok]; rotate_left; (simp only [decide_eq_true_eq, gt_iff_lt, ge_iff_le]; omega))
      | simp only [Res.ok_bind, Res.panic_bind, Res.pure_eq_ok, pure_bind, decide_eq_true_eq,
          Bool.and_eq_true, Bool.or_eq_true, Bool.not_eq_true', decide_eq_false_iff_not, beq_iff_eq, bne_iff_ne,
          ite_true, ite_false, Res.ok.injEq, gt_iff_lt, ge_iff_le, Bool.false_eq_true, if_false, if_true])

/-- **One successful `read_line` call** (hard obligation, branch-agnostic proof): on a stream that is not at its end,
from a state with the loop invariant, the translated `read_line` returns `Ok(n)`, has consumed `tr > 0` buffered bytes and
appended the first `n` of them — the bases between the old and the new column — to the output (`StepOk`).  Every path of
the generated term is walked (`io_head` / `split`); at each leaf the numbers consumed / kept are read off the term and
`StepOk` is discharged by `omega`.  Which bytes of the terminator are skipped in which call is *not* fixed (seeded C12-H2). -/
theorem readLine_step (f : Bytes) (sched : Nat → Nat) (idx : Idx) (s : St) (lo cur line bl : Nat) (buf : Bytes)
    (hlb : 0 < idx.lb) (hlB : idx.lb < idx.lB) (hs : ∀ k, 0 < sched k) (h64 : idx.lB < 2 ^ 64)
    (inv : Inv f idx s lo cur line) (hbl : 0 < bl) (hne : s.rest ≠ []) :
    StepPost sched idx s lo bl buf (Gen.SrcIdxFa.readLine (fillBufOp sched) consumeOp s (toRec idx) lo bl buf) := by
  have hlo := inv.lo_lt
  have ha_pos := fillBuf_avail_pos sched s hs hne
  have ha_le := fillBuf_avail_le sched s inv.avail_le
  have hr := fillBuf_rest sched s
  have hlen : (List.take (IdxFa.fillBuf sched s).avail s.rest).length = (IdxFa.fillBuf sched s).avail := by
    rw [List.length_take]; omega
  have hnil : (List.take (IdxFa.fillBuf sched s).avail s.rest).isEmpty = false := by
    rw [List.isEmpty_eq_false_iff, ← List.length_pos_iff]; omega
  unfold Gen.SrcIdxFa.readLine
  simp only [fillBufOp, consumeOp, toRec, hr, hnil, hlen]
  generalize ha : (IdxFa.fillBuf sched s).avail = a at *
  generalize hsrc : List.take a s.rest = src at *
  repeat' (first | io_head | split)
  all_goals simp only [List.drop_zero, Nat.sub_zero]
  all_goals (refine StepPost.mk _ _ _ _ ?_ ⟨?_, ?_, ?_, ?_, ?_, ?_⟩)
  all_goals first
    | omega
    | (split <;> omega)
    | (subst hsrc; rw [List.take_take]; congr 1; omega)

/-! ## `read_into_buffer` -/

/-- the loop `while bases_left > 0 { bases_left -= self.read_line(..)?; }` from a state with the loop invariant: the
requested bases when all of them lie inside the file, the truncation error otherwise -/
theorem while1_spec (f file : Bytes) (sched : Nat → Nat) (idx : Idx) (stop : Nat)
    (hlb : 0 < idx.lb) (hlB : idx.lb < idx.lB) (hs : ∀ k, 0 < sched k) (h64 : idx.lB < 2 ^ 64) :
    ∀ gas s lo cur line seq, Inv f idx s lo cur line → cur ≤ stop → s.rest.length < gas →
      ((∀ i, cur ≤ i → i < stop → pos idx i < f.length) →
        ∃ s' lo', Gen.SrcIdxFa.readIntoBuffer_while1 (fillBufOp sched) consumeOp (seekOp file) (toRec idx) gas s seq
            (stop - cur) lo = Res.ok (.next (s', seq ++ slice f idx cur stop, 0, lo'))) ∧
      (cur < stop → f.length ≤ pos idx (stop - 1) →
        ∃ s' seq', Gen.SrcIdxFa.readIntoBuffer_while1 (fillBufOp sched) consumeOp (seekOp file) (toRec idx) gas s seq
            (stop - cur) lo = Res.ok (.ret (.error eofErr, s', seq'))) := by
  intro gas
  induction gas with
  | zero => intro s lo cur line seq _ _ h; omega
  | succ gas ih =>
    intro s lo cur line seq inv hcs hgas
    by_cases hdone : stop - cur = 0
    · have : cur = stop := by omega
      subst this
      refine ⟨fun _ => ⟨s, lo, ?_⟩, fun h => by omega⟩
      simp [Gen.SrcIdxFa.readIntoBuffer_while1, slice_self]
    · have hb : 0 < stop - cur := by omega
      have hpos' : decide (stop - cur > 0) = true := by simpa using hb
      by_cases hne : s.rest = []
      · -- end of file
        have hpost := readLine_eof sched idx s lo (stop - cur) seq hne inv.avail_le
        generalize hres : Gen.SrcIdxFa.readLine (fillBufOp sched) consumeOp s (toRec idx) lo (stop - cur) seq = res at hpost
        cases hpost with
        | mk s' lo' buf' =>
          have hbase : f.length ≤ idx.off + line * idx.lB + lo := by
            have := inv.rest_eq; rw [hne] at this
            exact List.drop_eq_nil_iff.mp this.symm
          have hp := inv.base_le_pos hlb hlB
          refine ⟨fun hall => ?_, fun _ _ => ⟨s', buf', ?_⟩⟩
          · have := hall cur (Nat.le_refl _) (by omega); omega
          · rw [Gen.SrcIdxFa.readIntoBuffer_while1]
            simp only [hpos', if_true, hres, Res.ok_bind, Res.pure_eq_ok, bind_pure_comp, pure_bind]
      · have hpost := readLine_step f sched idx s lo cur line (stop - cur) seq hlb hlB hs h64 inv hb hne
        generalize hres : Gen.SrcIdxFa.readLine (fillBufOp sched) consumeOp s (toRec idx) lo (stop - cur) seq = res at hpost
        cases hpost with
        | mk tr n lo' kept hk ok =>
          obtain ⟨line', inv', hshort, hnr, hnl, hnb⟩ := inv_step f sched idx s lo cur line (stop - cur) tr n lo' hlb hlB inv ok
          have hsub : Rs.sub (stop - cur) n = Res.ok (stop - (cur + n)) := by
            rw [Rs.sub_ok hnb]; congr 1; omega
          have hunf : Gen.SrcIdxFa.readIntoBuffer_while1 (fillBufOp sched) consumeOp (seekOp file) (toRec idx) (gas + 1) s seq
              (stop - cur) lo =
              Gen.SrcIdxFa.readIntoBuffer_while1 (fillBufOp sched) consumeOp (seekOp file) (toRec idx) gas
                (IdxFa.consume (IdxFa.fillBuf sched s) tr) (seq ++ kept) (stop - (cur + n)) lo' := by
            rw [Gen.SrcIdxFa.readIntoBuffer_while1]
            simp only [hpos', if_true, hres, Res.ok_bind, Res.pure_eq_ok, hsub, pure_bind]
          have hposj : ∀ j, j < n → pos idx (cur + j) = idx.off + line * idx.lB + lo + j := by
            intro j hj
            have hlo : lo < idx.lb := by
              rcases Nat.lt_or_ge lo idx.lb with h | h
              · exact h
              · have : max lo idx.lb = lo := by omega
                omega
            have hc : cur + j = line * idx.lb + (lo + j) := by have := inv.cur_eq; omega
            rw [hc, pos_line idx hlb line (lo + j) (by omega)]; omega
          have hslice : kept = slice f idx cur (cur + n) := by
            rw [hk]; exact take_eq_slice f s.rest idx _ cur n inv.rest_eq hnr hposj
          have hcn : cur + n ≤ stop := by omega
          obtain ⟨ih1, ih2⟩ := ih _ lo' (cur + n) line' (seq ++ kept) inv' hcn (by omega)
          refine ⟨fun hall => ?_, fun hlt htr => ?_⟩
          · obtain ⟨s', lo'', h⟩ := ih1 (fun i h1 h2 => hall i (by omega) h2)
            refine ⟨s', lo'', ?_⟩
            rw [hunf, h, hslice, List.append_assoc, slice_append f idx (Nat.le_add_right cur n) hcn]
          · by_cases hreach : cur + n = stop
            · exfalso
              have hbase : idx.off + line * idx.lB + lo < f.length := by
                have h1 := inv.rest_eq
                have h2 : (f.drop (idx.off + line * idx.lB + lo)).length = f.length - (idx.off + line * idx.lB + lo) :=
                  List.length_drop
                have h3 : 0 < s.rest.length := List.length_pos_iff.mpr hne
                rw [h1, h2] at h3; omega
              have hrl2 : s.rest.length = f.length - (idx.off + line * idx.lB + lo) := by
                rw [inv.rest_eq]; exact List.length_drop
              have hn : 0 < n := by omega
              have hp := hposj (n - 1) (by omega)
              have : cur + (n - 1) = stop - 1 := by omega
              rw [this] at hp
              omega
            · obtain ⟨s', seq', h⟩ := ih2 (by omega) htr
              exact ⟨s', seq', by rw [hunf, h]⟩

/-- the `io::Error` the code builds for each error of the mirror model -/
def toIo : Err → IoErr
  | .eof => eofErr
  | .oob => oobErr
  | .interval => intervalErr
  | .nofetch => ⟨"Other", "No sequence fetched for reading."⟩
  | .name => ⟨"Other", "Unknown sequence name"⟩
  | .rid => ⟨"Other", "Invalid record index in fasta file."⟩
  | .assert => ⟨"panic", "assert"⟩
  | .fuel => ⟨"panic", "fuel"⟩

/-- what `read_into_buffer` returns, as far as the property fixes it: `Ok(())` with exactly the model's bytes in `seq`, or
the model's error (the content of `seq` and the reader position after an error are not fixed) -/
def Agrees : Except Err Bytes → Except IoErr Unit × St × List Nat → Prop
  | .ok b, (r, _, seq) => r = .ok () ∧ seq = b
  | .error e, (r, _, _) => r = .error (toIo e)

/-- all requested positions inside the file, or the last one outside -/
theorem inside_or_cut (file : Bytes) (idx : Idx) (hlb : 0 < idx.lb) (hlB : idx.lb < idx.lB) (start stop : Nat) :
    (∀ i, start ≤ i → i < stop → pos idx i < file.length) ∨ (start < stop ∧ file.length ≤ pos idx (stop - 1)) := by
  by_cases h : start < stop ∧ file.length ≤ pos idx (stop - 1)
  · exact Or.inr h
  · left
    intro i h1 h2
    have hm : pos idx i ≤ pos idx (stop - 1) := pos_mono idx hlb (Nat.le_of_lt hlB) (by omega)
    have : ¬ file.length ≤ pos idx (stop - 1) := fun h' => h ⟨by omega, h'⟩
    omega

/-- **`read_into_buffer`: translated code = mirror model**, at the level the property fixes (returned bytes / error), for
every file, every `.fai` entry with `0 < line_bases < line_bytes < 2^64` whose seek target fits `u64`, every chunk
schedule, every initial reader state and buffer content, every fuel above the file length. -/
theorem readIntoBuffer_eq_model (file : Bytes) (sched : Nat → Nat) (idx : Idx) (start stop : Nat) (s0 : St) (seq0 : Bytes)
    (fuel : Nat) (hlb : 0 < idx.lb) (hlB : idx.lb < idx.lB) (hs : ∀ k, 0 < sched k) (h64 : idx.lB < 2 ^ 64)
    (hfit : pos idx start < 2 ^ 64) (hfuel : file.length < fuel) :
    ∃ out, Gen.SrcIdxFa.readIntoBuffer (fillBufOp sched) consumeOp (seekOp file) s0 (toRec idx) start stop seq0 fuel
        = Res.ok out ∧ Agrees (IdxFa.readIntoBuffer file sched idx start stop) out := by
  unfold Gen.SrcIdxFa.readIntoBuffer IdxFa.readIntoBuffer
  by_cases h1 : stop > idx.len
  · simp only [h1, decide_true, if_true, Res.pure_eq_ok]
    exact ⟨_, rfl, rfl⟩
  by_cases h2 : start > stop
  · simp only [h1, h2, decide_true, decide_false, if_true, if_false, Res.pure_eq_ok, Bool.false_eq_true]
    exact ⟨_, rfl, rfl⟩
  have hsub : Rs.sub stop start = Res.ok (stop - start) := Rs.sub_ok (by omega)
  have hseek := seekTo_eq_model file idx start s0 hlb (by omega) hfit
  have inv := seekTo_inv file idx start hlb hlB
  have hfl := seekTo_fuel file idx start
  have hspecM := readLoop_spec file sched idx (stop - start) stop hlb hlB hs
  have hspecS := while1_spec file file sched idx stop hlb hlB hs h64 fuel _ _ start _ ([] : Bytes) inv (by omega) (by omega)
  simp only [h1, h2, decide_false, if_false, Bool.false_eq_true, hsub, Res.ok_bind, hseek, Res.pure_eq_ok]
  by_cases he : start = stop
  · -- empty interval: no `read_line` call at all
    subst he
    obtain ⟨s', lo', h⟩ := hspecS.1 (fun i a b => by omega)
    rw [Nat.sub_self] at h ⊢
    refine ⟨_, by simp only [h, Res.ok_bind]; rfl, ?_⟩
    simp [readLoop, Agrees, slice_self]
  have hcap : 0 < stop - start := by omega
  have hspecM := hspecM hcap (file.length + 1) _ _ start _ inv (by omega) hfl
  rcases inside_or_cut file idx hlb hlB start stop with hin | ⟨hlt, hcut⟩
  · obtain ⟨s', lo', h⟩ := hspecS.1 hin
    refine ⟨_, by simp only [h, Res.ok_bind]; rfl, ?_⟩
    simp only [hspecM.1 hin, Agrees, List.nil_append, and_self]
  · obtain ⟨s', seq', h⟩ := hspecS.2 hlt hcut
    obtain ⟨m, _, _, _, hm⟩ := hspecM.2 hlt hcut
    refine ⟨_, by simp only [h, Res.ok_bind]; rfl, ?_⟩
    simp only [hm, Agrees, toIo]

end RbV.Thm.GenSrcIdxFa
