import RbV.Ref.SA
import RbV.Ref.SAComplete
import RbV.Ref.SAUnique
import RbV.Model.Kasai
import RbV.Model.Sus
import RbV.Model.Transform
import RbV.Model.SampledGet
import RbV.Model.LFMulti
import RbV.Model.PosTypes
import RbV.Lemmas.SaisMain
import RbV.Thm.GenSrcSmallInts
import RbV.Lemmas.SmallInts
import RbV.Thm.GenSrcSampledGet
import RbV.Thm.GenSrcOcc
import RbV.Lemmas.SaisWidth
import RbV.Gen.SaisWidth
import RbV.Thm.GenSrcSus
import RbV.Thm.GenSrcLcp
import RbV.Thm.GenSrcTransform
import RbV.Thm.GenSrcPosTypes
import RbV.Thm.GenSrcSaisBuckets
import RbV.Thm.GenSrcSaisCalcPos
import RbV.Thm.GenSrcSaisCalcPosSafe
import RbV.Thm.GenSrcSaisLms
import RbV.Thm.GenSrcSaisConstruct
/-!
# C03 — suffix array = sorted permutation of all suffixes; LCP; shortest unique substrings

Statements only; the proofs of the helper lemmas are in `RbV/Spec/SufOrder.lean` and `RbV/Ref/SA.lean`.

The driver accepts a returned array `sa` for a byte text `t` iff `checkSA t sa`, for an integer text iff
`checkSorted t sa`; it compares the LCP array with `lcpRef t sa` and the shortest-unique-substring lengths with
`susRef t p`.  The theorems say what these oracles mean, for all texts and arrays.
-/
namespace RbV.Thm.C03
open RbV

/-- **Soundness of the acceptance function.**  An accepted array is a permutation of all positions that is
strictly increasing in suffix order under *one* total order on the sentinel occurrences (ranks `rk`, all below
`B`, pairwise distinct, the final sentinel least; every sentinel below every other symbol, other symbols by
value).  Only adjacent pairs are compared by `checkSA`; transitivity of the lexicographic order lifts this to
all pairs. -/
theorem checkSA_sound (t sa : List Nat) (h : checkSA t sa = true) :
    ∃ B rk, SentinelOrder t B rk ∧
      sa.Perm (List.range t.length) ∧
      sa.Pairwise (fun i j => lexLt ((keyText t B rk).drop i) ((keyText t B rk).drop j)) := by
  obtain ⟨B, rk, ho, hp, hs⟩ := checkSA_isSA t sa h
  rw [length_keyText] at hp
  exact ⟨B, rk, ho, hp, hs⟩

example : checkSA [65, 36, 65, 36] [3, 1, 2, 0] = true := by decide
example : checkSA [36, 65, 36, 66, 36] [4, 2, 0, 1, 3] = true := by decide
example : checkSA [36, 65, 36, 66, 36] [4, 0, 2, 1, 3] = true := by decide   -- the other consistent sentinel order …
example : checkSA [36, 65, 36, 66, 36] [0, 4, 2, 1, 3] = false := by decide  -- … but the final sentinel must be least
example : checkSA [65, 36, 65, 36] [3, 1, 0, 2] = false := by decide         -- one order for *all* comparisons

/-- **Completeness of the acceptance function.**  If a non-empty text's array is a permutation sorted under
*any* sentinel order (final sentinel least), it is accepted: the order read off the array is then order-isomorphic
to the witness on the sentinel positions.  So `checkSA` never rejects an array on which the property holds. -/
theorem checkSA_complete (t sa : List Nat) (hne : t ≠ [])
    (h : ∃ B rk, SentinelOrder t B rk ∧
      sa.Perm (List.range t.length) ∧
      sa.Pairwise (fun i j => lexLt ((keyText t B rk).drop i) ((keyText t B rk).drop j))) :
    checkSA t sa = true := by
  obtain ⟨B, rk, ho, hp, hs⟩ := h
  apply checkSA_complete_aux t sa hne
  refine ⟨B, rk, ho, ?_, hs⟩
  rw [length_keyText]; exact hp

/-- acceptance is exactly the property (non-empty texts) -/
theorem checkSA_iff (t sa : List Nat) (hne : t ≠ []) : checkSA t sa = true ↔ IsSA t sa :=
  ⟨checkSA_isSA t sa, checkSA_complete_aux t sa hne⟩

/-- Integer texts (and any fixed key text): accepted iff it is the sorted permutation of all suffixes. -/
theorem checkSorted_iff_sorted (ks sa : List Nat) :
    checkSorted ks sa = true ↔
      (sa.Perm (List.range ks.length) ∧ sa.Pairwise (fun i j => lexLt (ks.drop i) (ks.drop j))) :=
  checkSorted_iff ks sa

example : checkSorted [3, 2, 2, 4, 4, 1, 2, 1, 0] [8, 7, 5, 6, 1, 2, 0, 4, 3] = true := by decide

/-- **Mirror model of `transform_text` ties SA-IS to the property**: if an array is the sorted suffix permutation
of the sentinel-aware rank transform of a text (what `Sais::construct` is asked to produce), then it satisfies the
property for the byte text, under the sentinel order "a later sentinel occurrence is smaller". -/
theorem transform_sorted_isSA (t sa : List Nat) (hne : t ≠ [])
    (hmin : ∀ p, p < t.length → sentinelOf t ≤ t.getD p 0)
    (hp : sa.Perm (List.range t.length))
    (hs : sa.Pairwise (fun i j => lexLt ((Transform.transformText t).drop i) ((Transform.transformText t).drop j))) :
    IsSA t sa :=
  Transform.transform_sorted_isSA t sa hne hmin ⟨by rw [Transform.length_transformText]; exact hp, hs⟩

example : Transform.transformText [65, 36, 67, 36, 65, 36] = [3, 2, 4, 1, 3, 0] := by decide

/-- **The sorted suffix permutation is unique**: for a fixed key text (an integer text, or a byte text with a
fixed sentinel order) two accepted arrays are equal — the property determines the result of `suffix_array_int`
completely, and that of `suffix_array` up to the order chosen for the sentinel occurrences. -/
theorem checkSorted_unique (ks sa sa' : List Nat) (h : checkSorted ks sa = true) (h' : checkSorted ks sa' = true) :
    sa = sa' :=
  suffixSorted_unique ks sa sa' ((checkSorted_iff ks sa).mp h) ((checkSorted_iff ks sa').mp h')

/-- the order used is a strict total order on lists (so "sorted" determines the array when suffixes differ) -/
theorem lexLt_strict_total (x y z : List Nat) :
    ¬ lexLt x x ∧ (lexLt x y → lexLt y z → lexLt x z) ∧ (x ≠ y → lexLt x y ∨ lexLt y x) :=
  ⟨lexLt_irrefl x, lexLt_trans, lexLt_total x y⟩

/-- `cpl a b` is the length of the longest common prefix: the first `cpl a b` symbols agree, and every
common prefix is at most that long. -/
theorem cpl_spec (a b : List Nat) :
    a.take (cpl a b) = b.take (cpl a b) ∧ cpl a b ≤ a.length ∧ cpl a b ≤ b.length ∧
    ∀ l, l ≤ a.length → l ≤ b.length → a.take l = b.take l → l ≤ cpl a b :=
  ⟨cpl_take a b, cpl_le_left a b, cpl_le_right a b, fun l h1 h2 h3 => cpl_max a b l h1 h2 h3⟩

/-- the reference LCP array: length n+1, −1 at both ends, entry r+1 = common prefix of the suffixes at
`sa[r]` and `sa[r+1]` -/
theorem lcpRef_spec (t sa : List Nat) (hne : sa ≠ []) :
    (lcpRef t sa).length = sa.length + 1 ∧ (lcpRef t sa)[0]? = some (-1) ∧
    (lcpRef t sa).getLast? = some (-1) ∧
    ∀ r, r + 1 < sa.length →
      (lcpRef t sa)[r + 1]? = some (cpl (t.drop (sa.getD r 0)) (t.drop (sa.getD (r + 1) 0)) : Int) :=
  ⟨length_lcpRef t sa hne, (lcpRef_ends t sa).1, (lcpRef_ends t sa).2, lcpRef_inner t sa⟩

example : lcpRef [1, 2, 1, 2, 0] [4, 2, 0, 3, 1] = [-1, 0, 2, 0, 1, -1] := by decide

/-- **Mirror model of `lcp()` (Kasai loop) refines the reference**: for every non-empty text and every
permutation of its positions that is sorted in suffix order and starts with `n-1`, the loop (running `l`, decrement
by one, `while` extension, `lcp.set(rank, l)`) returns `lcpRef t sa`. -/
theorem kasai_eq_lcpRef (t sa : List Nat) (hn : 0 < t.length)
    (hperm : sa.Perm (List.range t.length))
    (hsorted : sa.Pairwise (fun i j => lexLt (t.drop i) (t.drop j)))
    (hhead : sa.head? = some (t.length - 1)) :
    Kasai.kasai t sa = lcpRef t sa :=
  Kasai.kasai_eq_lcpRef t sa ⟨hperm, hsorted, hhead⟩ hn

/-- … and its hypotheses hold for every accepted array of a text whose only sentinel is its last symbol -/
theorem kasai_exact_of_checkSA (t sa : List Nat) (hc : checkSA t sa = true)
    (hsingle : ∀ p, t[p]? = some (sentinelOf t) → p = t.length - 1)
    (hmin : ∀ p, p < t.length → sentinelOf t ≤ t.getD p 0) :
    Kasai.kasai t sa = lcpRef t sa := by
  have hn : 0 < t.length := by
    cases t with
    | nil => simp [checkSA] at hc
    | cons a l => simp
  exact Kasai.kasai_eq_lcpRef t sa (Kasai.sorted_of_checkSA_single t sa hc hsingle hmin) hn

example : Kasai.kasai [1, 2, 1, 2, 0] [4, 2, 0, 3, 1] = [-1, 0, 2, 0, 1, -1] := by decide

/-- **Mirror model of `shortest_unique_substrings` refines the reference**: on a sorted suffix permutation
(n ≥ 2, first entry n−1) and its LCP array, the loop `len = 1 + max(lcp[i], lcp[i+1]); if n − p ≥ len { sus[p] =
Some(len) }` yields `susRef t p` at every position: the longest prefix a suffix shares with *any* other suffix is
shared with one of its two neighbours in the array. -/
theorem sus_model_eq (t sa : List Nat) (hn : 2 ≤ t.length)
    (hperm : sa.Perm (List.range t.length))
    (hsorted : sa.Pairwise (fun i j => lexLt (t.drop i) (t.drop j)))
    (hhead : sa.head? = some (t.length - 1)) :
    Sus.susModel sa (lcpRef t sa) = (List.range t.length).map (susRef t) :=
  Sus.susModel_eq t sa ⟨hperm, hsorted, hhead⟩ hn

example : Sus.susModel [7, 6, 3, 0, 4, 1, 5, 2] (lcpRef [71, 67, 84, 71, 67, 84, 65, 36] [7, 6, 3, 0, 4, 1, 5, 2])
    = [some 4, some 3, some 2, some 4, some 3, some 2, some 1, some 1] := by decide

/-- `susRef t p = some l`: the substring of length `l` starting at `p` lies inside the text, occurs nowhere
else, and every shorter non-empty substring starting at `p` has another occurrence. -/
theorem susRef_spec_some (t : List Nat) (p l : Nat) (h : susRef t p = some l) :
    1 ≤ l ∧ p + l ≤ t.length ∧
    (∀ q, OccursAt ((t.drop p).take l) t q → q = p) ∧
    (∀ l', 1 ≤ l' → l' < l → ∃ q, q ≠ p ∧ OccursAt ((t.drop p).take l') t q) :=
  susRef_some t p l h

/-- `susRef t p = none`: every non-empty substring starting at `p` occurs somewhere else as well. -/
theorem susRef_spec_none (t : List Nat) (p : Nat) (h : susRef t p = none) :
    ∀ l, 1 ≤ l → p + l ≤ t.length → ∃ q, q ≠ p ∧ OccursAt ((t.drop p).take l) t q :=
  susRef_none t p h

example : (List.range 8).map (susRef [71, 67, 84, 71, 67, 84, 65, 36]) =
    [some 4, some 3, some 2, some 4, some 3, some 2, some 1, some 1] := by decide


/-- **Mirror model of `SampledSuffixArray::get` is exact** (texts whose last symbol is their unique smallest
symbol): for every sampling rate `s ≥ 1`, every Occ sampling rate `k ≥ 1` and every row `i`, the LF walk to the next
sampled row (with the cached row for the BWT sentinel), run on the mirror models of `less()`, `Occ::new` and
`Occ::get`, returns `sa[i]`.  Rests on the LF-mapping lemma (`RbV/Model/LFMap.lean`). -/
theorem sampled_get_exact (t sa : List Nat) (s k m : Nat)
    (hperm : sa.Perm (List.range t.length))
    (hsorted : sa.Pairwise (fun i j => lexLt (t.drop i) (t.drop j)))
    (hhead : sa.head? = some (t.length - 1))
    (hpos : 0 < t.length)
    (hmin : ∀ p, p < t.length → t.getD (t.length - 1) 0 ≤ t.getD p 0)
    (huniq : ∀ p, p < t.length → t.getD p 0 = t.getD (t.length - 1) 0 → p = t.length - 1)
    (hs : 0 < s) (hk : 0 < k) (hm : ∀ x ∈ t, x < m) (i : Nat) (hi : i < t.length) :
    Sampled.sampledGet (bwtRef t sa) sa s (t.getD (t.length - 1) 0) (OccM.lessModel (bwtRef t sa) m)
      (fun r c => OccM.occGet (OccM.occNewLoop (bwtRef t sa) k c) (bwtRef t sa) k r c) i = some (sa.getD i 0) :=
  Sampled.sampled_get_correct_models t sa ⟨hperm, hsorted, hhead⟩ ⟨hpos, hmin, huniq⟩ s k hs hk m hm i hi

example : (List.range 6).map (Sampled.sampledGet (bwtRef [99, 97, 98, 99, 97, 36] [5, 4, 1, 2, 3, 0])
      [5, 4, 1, 2, 3, 0] 4 36 (OccM.lessModel (bwtRef [99, 97, 98, 99, 97, 36] [5, 4, 1, 2, 3, 0]) 101)
      (fun r c => OccM.occGet (OccM.occNewLoop (bwtRef [99, 97, 98, 99, 97, 36] [5, 4, 1, 2, 3, 0]) 3 c)
        (bwtRef [99, 97, 98, 99, 97, 36] [5, 4, 1, 2, 3, 0]) 3 r c))
    = [some 5, some 4, some 1, some 2, some 3, some 0] := by decide


/-- **… and for every text of the property's quantifier** (any number of sentinel occurrences, the sentinel being
the smallest symbol): for every array accepted by `checkSA`, `get(i) = sa[i]` at every row, for every sampling rate
and every Occ rate.  The LF step is exact for every row whose BWT symbol is not the sentinel
(`LFMulti.lf_mapping_multi`); the other rows are answered from `extra_rows`. -/
theorem sampled_get_exact_all (t sa : List Nat) (s k m : Nat) (hc : checkSA t sa = true)
    (hmin : ∀ p, p < t.length → sentinelOf t ≤ t.getD p 0)
    (hs : 0 < s) (hk : 0 < k) (hm : ∀ x ∈ t, x < m) (i : Nat) (hi : i < t.length) :
    Sampled.sampledGet (bwtRef t sa) sa s (sentinelOf t) (OccM.lessModel (bwtRef t sa) m)
      (fun r c => OccM.occGet (OccM.occNewLoop (bwtRef t sa) k c) (bwtRef t sa) k r c) i = some (sa.getD i 0) :=
  LFMulti.sampled_get_correct_multi t sa hc hmin s k hs hk m hm i hi


/-- **SA-IS, first mechanism** (kept from the earlier state, when it was the only proved fragment of SA-IS; the full
statement — the model of `Sais::construct` equals the sorted suffix permutation — is now proved below:
`sais_construct_sorted`, `sais_int_model_sorted`, `sais_model_sorted`).  `PosTypes::new`: in a text whose last symbol
occurs nowhere else, a position is typed S exactly when its suffix is smaller than the next suffix (and the last
position is S). -/
theorem sais_postypes_partial (ks : List Nat)
    (hu : ∀ i, i + 1 < ks.length → ks.getD i 0 ≠ ks.getD (ks.length - 1) 0) (p : Nat) (hp : p < ks.length) :
    (PosTypes.posTypes ks)[p]? =
      some (decide (lexLt (ks.drop p) (ks.drop (p + 1))) || decide (p + 1 = ks.length)) :=
  PosTypes.posTypes_spec ks hu p hp

-- the LMS positions of the text pinned in the repo's `test_pos_types`
example :
    let ty := PosTypes.posTypes [71, 67, 67, 84, 84, 65, 65, 67, 65, 84, 84, 65, 84, 84, 65, 67, 71, 67, 67, 84, 65, 36]
    (List.range 22).filter (fun p => p ≠ 0 && ty.getD p false && !ty.getD (p - 1) true) = [1, 5, 8, 11, 14, 17, 21] := by
  decide

/-! ## SA-IS itself: the mirror model `RbV/Model/Sais.lean` (run by the driver next to the implementation on every case)

`Sais.Valid t` is what `Sais::construct` expects of its text: non-empty, the last symbol is the unique minimum, the
alphabet is dense (`suffix_array_int` documents exactly this; `transform_text` establishes it). -/

/-- **(a) `transform_text`** hands SA-IS a text it accepts, and the executable mirror (ranks looked up in the sorted
alphabet) equals the specification-level transform, whose order is that of the property: sentinels get distinct
ranks decreasing from left to right, below all other symbols, which keep their order (`Transform.transform_iso`). -/
theorem sais_transform_text (t : List Nat) (hne : t ≠ []) (hmin : ∀ p, p < t.length → sentinelOf t ≤ t.getD p 0) :
    Sais.transformText t = Transform.transformText t ∧ Sais.Valid (Transform.transformText t) ∧
    (∀ p q, p < t.length → q < t.length →
      ((Transform.transformText t).getD p 0 < (Transform.transformText t).getD q 0 ↔
        keyAt t (t.count (sentinelOf t)) (Transform.rkAfter t) p < keyAt t (t.count (sentinelOf t)) (Transform.rkAfter t) q)) :=
  ⟨Sais.transformText_eq t, Sais.valid_transformText t hne hmin, Transform.transform_iso t hne hmin⟩

example : Sais.transformText [65, 36, 67, 36, 65, 36] = [3, 2, 4, 1, 3, 0] := by decide

/-- **(b) first loop of `calc_lms_pos`**: `lms_pos` = exactly the LMS positions in ascending order, and
`reduced_text_pos[r]` = number of LMS positions before `r`, for every LMS position `r`. -/
theorem sais_lms_pos (ty : List Bool) (red : List Nat) (n : Nat) (hn : n ≤ red.length) :
    (Sais.forUp n (Sais.collectStep ty) ([], red, 0)).1 = (List.range n).filter (Sais.isLms ty) ∧
    (∀ r, r < n → Sais.isLms ty r = true →
      (Sais.forUp n (Sais.collectStep ty) ([], red, 0)).2.1.getD r 0 = ((List.range r).filter (Sais.isLms ty)).length) :=
  ⟨(Sais.collect_spec ty red n hn).1, (Sais.collect_spec ty red n hn).2.2.2.1⟩

example : (Sais.forUp 9 (Sais.collectStep (Sais.tyOf [3, 2, 2, 4, 4, 1, 2, 1, 0])) ([], List.replicate 9 0, 0)).1 = [1, 5, 8] := by
  decide

/-- **(c) `init_bucket_start`**: for a dense text, `bucket_start[c]` = number of symbols smaller than `c`
(prefix sums of the symbol counts, one bucket per symbol `0..max`). -/
theorem bucket_start_spec (t : List Nat) (hd : ∀ c x, x ∈ t → c ≤ x → c ∈ t) :
    Sais.initBucketStart t = (List.range (Sais.maxSucc t)).map (fun c => t.countP (fun x => decide (x < c))) :=
  Sais.initBucketStart_eq t hd

/-- **(c) `init_bucket_end`**: `bucket_end[c]` = (number of symbols ≤ `c`) − 1. -/
theorem bucket_end_spec (t : List Nat) (hne : t ≠ []) (hd : ∀ c x, x ∈ t → c ≤ x → c ∈ t) :
    Sais.initBucketEnd (Sais.initBucketStart t) t.length =
      (List.range (Sais.maxSucc t)).map (fun c => t.countP (fun x => decide (x < c + 1)) - 1) :=
  Sais.initBucketEnd_eq t hne hd

example : Sais.initBucketStart [3, 2, 2, 4, 4, 1, 2, 1, 0] = [0, 1, 3, 6, 7] ∧
    Sais.initBucketEnd (Sais.initBucketStart [3, 2, 2, 4, 4, 1, 2, 1, 0]) 9 = [0, 2, 5, 6, 8] := by decide

/-- **(d) `calc_pos` places every position exactly once**, whatever the order of the LMS positions in `lms_pos`
(every LMS position once): L pass and S pass invariants (bucket pointers stay inside their areas, no slot is written
twice, no undefined entry is read by the S pass, every L-type and S-type position is reached). -/
theorem sais_calc_pos_perm (t : List Nat) (hv : Sais.Valid t) (lms : List Nat) (hl : Sais.LmsList t lms) :
    (Sais.calcPosRun t (Sais.tyOf t) lms).pos.Perm (List.range t.length) :=
  Sais.calcPos_perm t hv lms hl

/-- **(d) `model_is_perm`**: the model's output is a permutation of `0..n`. -/
theorem model_is_perm (t : List Nat) (hne : t ≠ []) (hmin : ∀ p, p < t.length → sentinelOf t ≤ t.getD p 0) :
    (Sais.suffixArray t).Perm (List.range t.length) := by
  obtain ⟨B, rk, _, hp, _⟩ := Sais.suffixArray_isSA t hne hmin
  rw [length_keyText] at hp
  exact hp

/-- **(e) `induced_sort_correct`**: `calc_pos` run on the LMS positions sorted by their suffixes returns the sorted
suffix permutation (L-suffixes are placed in order from the left end of their buckets, then S-suffixes from the right
end).  The general form (`Sais.induced_sort`) is for any relation satisfying the induced-sorting axioms; it is also
used with the order of the typed LMS substrings for the first call. -/
theorem induced_sort_correct (t : List Nat) (hv : Sais.Valid t) (lms : List Nat)
    (hl : Sais.LmsList t lms) (hs : lms.Pairwise (fun p q => lexLt (t.drop p) (t.drop q))) :
    SuffixSorted t (Sais.calcPosRun t (Sais.tyOf t) lms).pos :=
  Sais.induced_sort_suffix t hv lms ⟨hl, hs⟩

set_option maxRecDepth 100000 in
example : (Sais.calcPosRun [3, 2, 2, 4, 4, 1, 2, 1, 0] (Sais.tyOf [3, 2, 2, 4, 4, 1, 2, 1, 0]) [8, 5, 1]).pos
    = [8, 7, 5, 6, 1, 2, 0, 4, 3] := by decide

/-- **(f) `lms_substring_eq`** decides equality of the typed LMS substrings (symbols with their L/S type from one LMS
position to the next): comparing symbols and LMS flags only, as the code does, is enough. -/
theorem sais_lms_substring_eq (t : List Nat) (hv : Sais.Valid t) (i j : Nat)
    (hi : Sais.isLms (Sais.tyOf t) i = true) (hj : Sais.isLms (Sais.tyOf t) j = true) (hij : i ≠ j) :
    Sais.lmsSubEq t (Sais.tyOf t) i j = true ↔ Sais.key t i = Sais.key t j :=
  Sais.lmsSubEq_iff t hv i j hi hj hij

/-- **(f) the first call of `calc_pos`** (LMS positions in text order) sorts all positions by their typed LMS
substring, and the reduced text written by the naming loop compares position-wise like these substrings … -/
theorem sais_first_pass (t : List Nat) (hv : Sais.Valid t) (h2 : 2 ≤ t.length) :
    (Sais.pos1 t).Perm (List.range t.length) ∧
    (Sais.pos1 t).Pairwise (fun x y => ¬ lexLt (Sais.key t y) (Sais.key t x)) :=
  ⟨Sais.sdone_perm (Sais.first_pass t hv h2), Sais.pairwise_of_sdone (Sais.first_pass t hv h2)⟩

/-- **(f)** … so that the suffixes of the reduced text compare exactly like the suffixes of the text at the LMS
positions (the reduced text being any list of labels that compares like the typed LMS substrings). -/
theorem sais_reduced_order (t : List Nat) (hv : Sais.Valid t) (h2 : 2 ≤ t.length) (red : List Nat)
    (hlen : red.length = (Sais.lmsBelow (Sais.tyOf t) t.length).length)
    (hord : ∀ a b, a < red.length → b < red.length →
      (red.getD a 0 < red.getD b 0 ↔
        lexLt (Sais.key t ((Sais.lmsBelow (Sais.tyOf t) t.length).getD a 0))
          (Sais.key t ((Sais.lmsBelow (Sais.tyOf t) t.length).getD b 0))) ∧
      (red.getD a 0 = red.getD b 0 ↔
        Sais.key t ((Sais.lmsBelow (Sais.tyOf t) t.length).getD a 0) =
          Sais.key t ((Sais.lmsBelow (Sais.tyOf t) t.length).getD b 0)))
    (a b : Nat) (ha : a < red.length) (hb : b < red.length) :
    (lexLt (red.drop a) (red.drop b) ↔
      lexLt (t.drop ((Sais.lmsBelow (Sais.tyOf t) t.length).getD a 0))
        (t.drop ((Sais.lmsBelow (Sais.tyOf t) t.length).getD b 0))) :=
  Sais.lms_suffix_order t hv h2 red hlen hord a b ha hb

/-- **(f) `calc_lms_pos` / `sort_lms_suffixes`**: afterwards `lms_pos` holds every LMS position exactly once, sorted by
suffix — by naming alone when all LMS substrings differ, else through the recursion on the reduced text (which is
again a text `Sais::construct` accepts, of less than the length). -/
theorem sais_lms_sorted (f : Nat) (t : List Nat) (hv : Sais.Valid t) (hn : t.length ≤ f + 1) (s : Sais.St)
    (hs : t.length ≤ s.redPos.length) :
    Sais.LmsList t (Sais.calcLmsPos (Sais.construct f) t (Sais.tyOf t) s).lmsPos ∧
    (Sais.calcLmsPos (Sais.construct f) t (Sais.tyOf t) s).lmsPos.Pairwise (fun p q => lexLt (t.drop p) (t.drop q)) :=
  Sais.calcLmsPos_sorted f (fun t' s' hv' hf hs' => Sais.construct_sorted f t' s' hv' hf hs') t hv hn s hs

/-- **(g) `Sais::construct` sorts**: for every text it accepts, with fuel ≥ length and `reduced_text_pos` at least as
long as the text (as `Sais::new(n)` allocates it), `pos` is the sorted suffix permutation. -/
theorem sais_construct_sorted (f : Nat) (t : List Nat) (s : Sais.St) (hv : Sais.Valid t) (hf : t.length ≤ f)
    (hs : t.length ≤ s.redPos.length) : SuffixSorted t (Sais.construct f t s).pos :=
  Sais.construct_sorted f t s hv hf hs

/-- **(g) `suffix_array_int`**: the model's output is accepted by `checkSorted` — it is the (unique) sorted suffix
permutation — for every integer text ending in its unique minimum with a dense alphabet. -/
theorem sais_int_model_sorted (t : List Nat) (hv : Sais.Valid t) : checkSorted t (Sais.suffixArrayInt t) = true :=
  (checkSorted_iff t _).mpr (Sais.suffixArrayInt_sorted t hv)

example : Sais.Valid [3, 2, 2, 4, 4, 1, 2, 1, 0] := Sais.valid_of_validB _ (by decide)
set_option maxRecDepth 100000 in
example : Sais.suffixArrayInt [3, 2, 2, 4, 4, 1, 2, 1, 0] = [8, 7, 5, 6, 1, 2, 0, 4, 3] := by decide

/-- **(g) `sais_model_sorted`**: for every non-empty byte text whose last symbol is its smallest one (the `assert!` of
`sentinel_count`), the mirror model of `suffix_array` returns an array that the acceptance function accepts, i.e. that
satisfies the property C03 (`checkSA_iff`): a permutation of all positions, sorted under one consistent order of the
sentinel occurrences.  No size bound, any number of sentinels, any recursion depth. -/
theorem sais_model_sorted (t : List Nat) (hne : t ≠ []) (hmin : ∀ p, p < t.length → sentinelOf t ≤ t.getD p 0) :
    checkSA t (Sais.suffixArray t) = true :=
  (checkSA_iff t _ hne).mpr (Sais.suffixArray_isSA t hne hmin)

-- two reads with equal LMS substrings across sentinels: one recursion level
set_option maxRecDepth 100000 in
example : Sais.suffixArray [98, 97, 110, 97, 110, 97, 36, 98, 97, 110, 97, 110, 97, 36] =
    [13, 6, 12, 5, 10, 3, 8, 1, 7, 0, 11, 4, 9, 2] := by decide

/-! ## `LCPArray = SmallInts<i8, isize>`: the container `lcp()` writes through, translated from the source text

`lcp()` builds its result with `SmallInts::from_elem(-1, n + 1)` and fills it exclusively through `set`; readers use
`get` / `iter`.  `RbV/Gen/SrcSmallInts.lean` is regenerated from `src/data_structures/smallints.rs` on every `./check C03`
(docs/notes/GEN.md, "Translated function bodies"); proofs in `RbV/Thm/GenSrcSmallInts.lean`, the container theorems proper
are C18's.  Stated here for the `i8` range `[-128, 127]`. -/
section lcp_container
open RbV.Thm.GenSrcSmallInts

/-- `SmallInts::from_elem(-1, m)`, as written, passes both assertions and builds `m` small entries `-1`; then any sequence
of `set`s at existing indices, run with the **translated** `set`, does not panic, and the translated `get` reads back, at
every index, the last value written there (or `-1`), `None` beyond the end — the plain-vector behaviour `lcp()` relies on,
including values `≥ 127` that go to the overflow map -/
theorem lcp_container_source_exact (m : Nat) (writes : List (Nat × Int)) (hw : ∀ x ∈ writes, x.1 < m) :
    Gen.SrcSmallInts.fromElem (β := Int) (cBS (-128) 127) cSB (cZ (-128) 127) ltI 127 1 8 (-1) m
      = Rs.Res.ok (List.replicate m (-1), []) ∧
    ∃ small big,
      (writes.map (fun x => Spec.SmallInts.Op.set x.1 x.2)).foldlM (srcStep (-128) 127 1 8) (List.replicate m (-1), [])
        = Rs.Res.ok (small, big) ∧
      ∀ i, Gen.SrcSmallInts.get (cBS (-128) 127) cSB (cZ (-128) 127) ltI 127 1 8 small big i
        = Rs.Res.ok ((writes.foldl (fun l x => l.set x.1 x.2) (List.replicate m (-1)))[i]?) := by
  refine ⟨fromElem_eq_model (-128) 127 (by omega) 1 8 (by omega) (-1) m (by omega), ?_⟩
  have habs0 := Lemmas.SmallInts.abs_fromElem 127 (-1) m (by omega)
  have hok : ∀ (ws : List (Nat × Int)) (l : List Int), l.length = m → (∀ x ∈ ws, x.1 < m) →
      OpsOk l (ws.map (fun x => Spec.SmallInts.Op.set x.1 x.2)) := by
    intro ws
    induction ws with
    | nil => intro _ _ _; trivial
    | cons x ws ih =>
      intro l hl hx
      refine ⟨by simpa [hl] using hx x (by simp), ih _ (by simpa [Spec.SmallInts.specStep] using hl) ?_⟩
      intro y hy; exact hx y (by simp [hy])
  have hrun := run_eq_model (-128) 127 1 8 _ _ _ habs0
    (hok writes _ (by simp [Spec.SmallInts.specFromElem]) hw)
  have habs := Lemmas.SmallInts.abs_run (-128) 127 (writes.map (fun x => Spec.SmallInts.Op.set x.1 x.2)) _ _ habs0
  have hspec : ∀ (ws : List (Nat × Int)) (l : List Int),
      (ws.map (fun x => Spec.SmallInts.Op.set x.1 x.2)).foldl Spec.SmallInts.specStep l
        = ws.foldl (fun l x => l.set x.1 x.2) l := by
    intro ws
    induction ws with
    | nil => intro l; rfl
    | cons x ws ih => intro l; simp only [List.map_cons, List.foldl_cons, Spec.SmallInts.specStep, ih]
  refine ⟨_, _, hrun, fun i => ?_⟩
  rw [get_eq_model, Lemmas.SmallInts.get_of_abs 127 _ _ habs i, hspec]
  rfl

-- an LCP value of exactly 127 (= `i8::MAX`, the overflow marker) written through the translated `set` reads back
example : (do
    let (sm, bg) ← Gen.SrcSmallInts.set (cBS (-128) 127) cSB (cZ (-128) 127) ltI 127 1 8 [-1, -1, -1] [] 1 127
    Gen.SrcSmallInts.get (cBS (-128) 127) cSB (cZ (-128) 127) ltI 127 1 8 sm bg 1) = Rs.Res.ok (some 127) := by decide

end lcp_container
/-! ## `SampledSuffixArray::get` translated from the source text (docs/notes/GEN.md, "Translated function bodies")

`RbV/Gen/SrcSampledGet.lean` is regenerated from `src/data_structures/suffix_array.rs` by `tools/rs2lean.py` on every
`./check C03` (proofs: `RbV/Thm/GenSrcSampledGet.lean`): the `loop` is a recursive helper on fuel `len + 1`,
`self.extra_rows[&pos]` an abstract partial lookup followed by `.unwrap()`, `self.occ.borrow().get(…)` the abstract `occF`. -/

/-- **`SampledSuffixArray::get`, as written, returns what the mirror model `Sampled.sampledGet` returns** whenever that is
`some v` (the model's `none` stands for a failed lookup / exhausted fuel, where the code would panic), with the stored
`sample` vector and `extra_rows` map being what `SuffixArray::sample` puts there, provided every LF step stays inside
the BWT (`hstep`), every BWT symbol indexes the `less` array, suffix-array entries are positions and `n + 1 < 2^63` -/
theorem sampled_get_source_eq_model (occF : Nat → Nat → Nat) (bwt sa : List Nat) (s sent : Nat) (lessA : List Nat)
    (hs : 0 < s) (hsa : ∀ p, sa.getD p 0 < bwt.length) (hsym : ∀ c ∈ bwt, c < lessA.length)
    (hstep : ∀ pos, pos < bwt.length → pos % s ≠ 0 → bwt.getD pos 0 ≠ sent →
      lessA.getD (bwt.getD pos 0) 0 + occF (pos - 1) (bwt.getD pos 0) < bwt.length)
    (hn : bwt.length + 1 < 2 ^ 63) (i v : Nat) (h : Sampled.sampledGet bwt sa s sent lessA occF i = some v) :
    Gen.SrcSampledGet.get (Sampled.extraRow bwt sa s sent) occF bwt.length bwt lessA (Sampled.sampleVec sa s) s sent i
      = Rs.Res.ok (some v) :=
  GenSrcSampledGet.get_eq_model occF bwt sa s sent lessA hs hsa hsym hstep hn i v h

/-- **generated code = specification: `get(i) = Some(sa[i])`** for the translated `SampledSuffixArray::get`, on every
array accepted by `checkSA`, for every text of the property's quantifier (any number of sentinel occurrences, the
sentinel being the smallest symbol), every sampling rate `s ≥ 1`, every Occ rate `k ≥ 1` and every row — with `less` =
the model of `less()` and `occ` = the model of `Occ::get ∘ Occ::new` (both proved equal to the translated functions in
C04: `less_source_eq_model`, `occ_get_source_eq_model`); no panic, fuel sufficient -/
theorem sampled_get_source_exact_all (t sa : List Nat) (s k m : Nat) (hc : checkSA t sa = true)
    (hmin : ∀ p, p < t.length → sentinelOf t ≤ t.getD p 0)
    (hs : 0 < s) (hk : 0 < k) (hm : ∀ x ∈ t, x < m) (hlen : t.length + 1 < 2 ^ 63) (i : Nat) (hi : i < t.length) :
    Gen.SrcSampledGet.get (Sampled.extraRow (bwtRef t sa) sa s (sentinelOf t))
      (fun r c => OccM.occGet (OccM.occNewLoop (bwtRef t sa) k c) (bwtRef t sa) k r c) (bwtRef t sa).length (bwtRef t sa)
      (OccM.lessModel (bwtRef t sa) m) (Sampled.sampleVec sa s) s (sentinelOf t) i = Rs.Res.ok (some (sa.getD i 0)) := by
  obtain ⟨B, rk, ho, hp, hpw⟩ := checkSA_isSA t sa hc
  rw [length_keyText] at hp
  have hsal : sa.length = t.length := by simpa using hp.length_eq
  have hbl : (bwtRef t sa).length = t.length := by unfold bwtRef; rw [List.length_map, hsal]
  have hpos : 0 < t.length := by omega
  apply GenSrcSampledGet.get_eq_model _ _ _ _ _ _ hs
  · intro p
    rw [hbl]
    by_cases hpl : p < sa.length
    · rw [GenSrc.getD_of_lt sa p 0 hpl]
      simpa using (hp.mem_iff).mp (List.getElem_mem hpl)
    · rw [List.getD_eq_getElem?_getD, List.getElem?_eq_none (by omega)]; exact hpos
  · intro c hcm
    rw [GenSrcLess.length_lessModel]
    unfold bwtRef at hcm
    obtain ⟨p, _, rfl⟩ := List.mem_map.mp hcm
    have hlt : (p + t.length - 1) % t.length < t.length := Nat.mod_lt _ hpos
    rw [List.getD_eq_getElem?_getD, List.getElem?_eq_getElem hlt]
    exact hm _ (List.getElem_mem hlt)
  · intro pos hposn hmod _
    have hpos1 : 1 ≤ pos := by
      rcases Nat.eq_zero_or_pos pos with h0 | h0
      · subst h0; simp at hmod
      · exact h0
    have hcm : (bwtRef t sa).getD pos 0 < m := by
      rw [GenSrc.getD_of_lt _ pos 0 hposn]
      have hmem : (bwtRef t sa)[pos] ∈ bwtRef t sa := List.getElem_mem hposn
      unfold bwtRef at hmem
      obtain ⟨p, _, hpe⟩ := List.mem_map.mp hmem
      have hlt : (p + t.length - 1) % t.length < t.length := Nat.mod_lt _ hpos
      rw [List.getD_eq_getElem?_getD, List.getElem?_eq_getElem hlt] at hpe
      have := hm _ (List.getElem_mem hlt)
      simp only [Option.getD_some] at hpe
      unfold bwtRef
      rw [← hpe]; exact this
    have e1 : (OccM.lessModel (bwtRef t sa) m).getD ((bwtRef t sa).getD pos 0) 0
        = lessRef (bwtRef t sa) ((bwtRef t sa).getD pos 0) := by
      rw [List.getD_eq_getElem?_getD, OccM.less_eq _ m _ hcm]; rfl
    have e2 := OccM.occ_get_eq (bwtRef t sa) k (pos - 1) ((bwtRef t sa).getD pos 0) hk (by omega)
    rw [e1]
    show lessRef _ _ + OccM.occGet _ _ k (pos - 1) _ < _
    rw [OccM.occNewLoop_eq _ k _ hk, e2]
    exact GenSrcSampledGet.lf_step_lt (bwtRef t sa) pos hpos1 hposn
  · rw [hbl]; exact hlen
  · exact sampled_get_exact_all t sa s k m hc hmin hs hk hm i hi

/-- the `occ` of `sampled_get_source_exact_all` is what the translated `Occ::get` (`RbV/Gen/SrcOcc.lean`, regenerated
from `bwt.rs` on every `./check C03` as well) returns on a table whose column `c` is the checkpoint column built by the
loop of `Occ::new` — for every `1 ≤ k < 2^32` and every row (restated from C04, `RbV/Thm/GenSrcOcc.lean`) -/
theorem sampled_get_occ_source_eq_model (occ : List (List Nat)) (k : Nat) (bwt : List Nat) (r c : Nat)
    (hcp : occ[c]? = some (OccM.occNewLoop bwt k c)) (hk : 0 < k) (hk32 : k < 2 ^ 32) (hr : r < bwt.length)
    (hn : bwt.length < 2 ^ 64) :
    Gen.SrcOcc.get (fun s x => s.count x) occ k bwt r c
      = Rs.Res.ok (OccM.occGet (OccM.occNewLoop bwt k c) bwt k r c) := by
  rw [OccM.occNewLoop_eq bwt k c hk] at hcp ⊢
  rw [OccM.occ_get_eq bwt k r c hk hr]
  exact GenSrcOcc.get_exact_of_table occ k bwt r c hcp hk hk32 hr hn

-- GATTACA$-like text "A$A$" (65, 36), sampling rate 2: every row through the translated function
example : (List.range 4).map (fun i => Gen.SrcSampledGet.get (Sampled.extraRow (bwtRef [65, 36, 65, 36] [3, 1, 2, 0]) [3, 1, 2, 0] 2 36)
      (fun r c => OccM.occGet (OccM.occNewLoop (bwtRef [65, 36, 65, 36] [3, 1, 2, 0]) 3 c) (bwtRef [65, 36, 65, 36] [3, 1, 2, 0]) 3 r c)
      4 (bwtRef [65, 36, 65, 36] [3, 1, 2, 0]) (OccM.lessModel (bwtRef [65, 36, 65, 36] [3, 1, 2, 0]) 67)
      (Sampled.sampleVec [3, 1, 2, 0] 2) 2 36 i) = [3, 1, 2, 0].map (fun v => Rs.Res.ok (some v)) := by decide
-- a row outside the array is `None`; an empty `extra_rows` map where an entry is needed: the hash-map index panics
example : Gen.SrcSampledGet.get (fun _ => none) (fun _ _ => 0) 4 [65, 65, 36, 36] [0, 0] [3, 2] 2 36 7 = Rs.Res.ok none := by
  decide
example : Gen.SrcSampledGet.get (fun _ => none) (fun _ _ => 0) 4 [65, 65, 36, 36] (List.replicate 67 0) [3, 2] 2 36 3
    = Rs.Res.panic := by decide
/-! ### Integer widths of SA-IS (`u8`/`u16`/`u32`/`u64` dispatch)

The mirror keeps every text as `List Nat`.  In the Rust code the transformed text is a `Vec<T>` with `T` chosen by
`suffix_array` from `alphabet.len() + sentinel_count`, and the reduced text of each recursion level a `Vec<S>` with `S`
chosen by `calc_lms_pos` from `lms_substring_count`; every value stored goes through `cast(v).unwrap()`, which panics
(does not truncate) when `v` does not fit.  The guards and the types they select are **extracted from the source text**
(`RbV/Gen/SaisWidth.lean`, regenerated on every `./check C03`).  Below: every guard's bound fits the type of its arm;
every value the mirror stores is below the dispatching count; hence no `cast(..).unwrap()` of the dispatch can fail —
the `Nat` model loses nothing. -/

/-- every guarded arm of both dispatches instantiates a type that holds the largest count the guard admits -/
theorem sais_width_arms_fit :
    (∀ a ∈ RbV.Gen.SaisWidth.transformArms, a.1 < 2 ^ a.2) ∧ (∀ a ∈ RbV.Gen.SaisWidth.reducedArms, a.1 < 2 ^ a.2) := by
  decide

/-- **`sais_reduced_width_fits`**: in the naming loop of `sort_lms_suffixes` (run on the `pos` the first `calc_pos`
leaves, for every valid text with at least two symbols and at least one LMS position), the final `label` and every
entry of `reduced_text` fit the type `calc_lms_pos` selects from `lms_substring_count` (a `usize`): no
`cast(label).unwrap()` panics, no name is truncated. -/
theorem sais_reduced_width_fits (t : List Nat) (hv : Sais.Valid t) (h2 : 2 ≤ t.length) (s : Sais.St)
    (hs : s.pos = Sais.pos1 t) (hm : 0 < (Sais.lmsBelow (Sais.tyOf t) t.length).length)
    (husize : (Sais.lmsBelow (Sais.tyOf t) t.length).length < 2 ^ 64)
    (helse : RbV.Gen.SaisWidth.reducedElse = 64) :
    let cnt := (Sais.lmsBelow (Sais.tyOf t) t.length).length
    let bits := Sais.pick RbV.Gen.SaisWidth.reducedArms RbV.Gen.SaisWidth.reducedElse cnt
    (Sais.naming t (Sais.tyOf t) cnt s).label < 2 ^ bits ∧ ∀ v ∈ (Sais.naming t (Sais.tyOf t) cnt s).red, v < 2 ^ bits := by
  intro cnt bits
  obtain ⟨h1, h3⟩ := Sais.naming_lt_count t hv h2 s hs hm
  have hf := fun v hv => Sais.pick_fits RbV.Gen.SaisWidth.reducedArms RbV.Gen.SaisWidth.reducedElse cnt v
    sais_width_arms_fit.2 (by rw [helse]; exact husize) hv
  exact ⟨hf _ h1, fun v hv => hf v (h3 v hv)⟩

/-- **`sais_transform_width_fits`**: every value `transform_text::<T>` stores fits the type `suffix_array` selects from
`alphabet.len() + sentinel_count` -/
theorem sais_transform_width_fits (t : List Nat)
    (husize : (Sais.alphabet t).length + t.count (sentinelOf t) < 2 ^ 64)
    (helse : RbV.Gen.SaisWidth.transformElse = 64) :
    ∀ v ∈ Sais.transformText t, v < 2 ^ Sais.pick RbV.Gen.SaisWidth.transformArms RbV.Gen.SaisWidth.transformElse
      ((Sais.alphabet t).length + t.count (sentinelOf t)) := by
  intro v hv
  exact Sais.pick_fits _ _ _ v sais_width_arms_fit.1 (by rw [helse]; exact husize) (Sais.transformText_lt t v hv)

-- non-vacuity: the dispatch on a count of 300 selects 16 bits, on 70 000 32 bits; the final arms are `u64`; a valid text
-- with two LMS positions (`2 1 2 1 0`)
example : Sais.pick RbV.Gen.SaisWidth.reducedArms RbV.Gen.SaisWidth.reducedElse 300 = 16 ∧
    Sais.pick RbV.Gen.SaisWidth.reducedArms RbV.Gen.SaisWidth.reducedElse 70000 = 32 ∧
    Sais.pick RbV.Gen.SaisWidth.transformArms RbV.Gen.SaisWidth.transformElse 255 = 8 := by decide
example : RbV.Gen.SaisWidth.reducedElse = 64 ∧ RbV.Gen.SaisWidth.transformElse = 64 := by decide
example : ∀ v ∈ (Sais.naming [2, 1, 2, 1, 0] (Sais.tyOf [2, 1, 2, 1, 0]) 2
    { Sais.St.new 5 with pos := Sais.pos1 [2, 1, 2, 1, 0] }).red, v < 2 ^ 8 :=
  (sais_reduced_width_fits [2, 1, 2, 1, 0] (Sais.valid_of_validB _ (by decide)) (by decide)
    { Sais.St.new 5 with pos := Sais.pos1 [2, 1, 2, 1, 0] } rfl (by decide) (by decide) (by decide)).2
example : ∀ v ∈ Sais.transformText [3, 2, 3, 2, 1], v < 2 ^ 8 :=
  sais_transform_width_fits [3, 2, 3, 2, 1] (by decide) (by decide)

/-! ### translated text of `shortest_unique_substrings` (`RbV/Gen/SrcSus.lean`, regenerated on every run; builder genfmd) -/

/-- translated `shortest_unique_substrings` = mirror model `Sus.susModel`, for every suffix array `pos` (entries `≤ n`) and
LCP vector of `n + 1` entries in which `max(lcp[i], lcp[i+1])` is never negative (`-1 as usize` would overflow `1 + …`) -/
theorem sus_source_eq_model (pos : List Nat) (lcp : List Int) (hlen : lcp.length = pos.length + 1)
    (hn : pos.length + 1 < 2 ^ 63) (hrow : ∀ i, i < pos.length → Thm.GenSrcSus.RowOk pos lcp i) :
    Gen.SrcSus.sus pos lcp = Rs.Res.ok (Sus.susModel pos lcp) :=
  Thm.GenSrcSus.sus_eq_model pos lcp hlen hn hrow

/-- **the translated `shortest_unique_substrings` on every accepted suffix array (single sentinel, `n ≥ 2`) and its LCP
array returns `susRef` at every position** — no mirror model left between the text of the function and the reference -/
theorem sus_source_exact (t sa : List Nat) (hc : checkSA t sa = true)
    (hsingle : ∀ p, t[p]? = some (sentinelOf t) → p = t.length - 1)
    (hmin : ∀ p, p < t.length → sentinelOf t ≤ t.getD p 0) (hn : 2 ≤ t.length) (hsz : t.length + 1 < 2 ^ 62) :
    Gen.SrcSus.sus sa (lcpRef t sa) = Rs.Res.ok ((List.range t.length).map (susRef t)) :=
  Thm.GenSrcSus.sus_source_exact t sa (Kasai.sorted_of_checkSA_single t sa hc hsingle hmin) hn hsz

-- the doc-test `GCTGCTA$`: the translated code evaluated
example : Gen.SrcSus.sus [7, 6, 3, 0, 4, 1, 5, 2] (lcpRef [71, 67, 84, 71, 67, 84, 65, 36] [7, 6, 3, 0, 4, 1, 5, 2])
    = Rs.Res.ok [some 4, some 3, some 2, some 4, some 3, some 2, some 1, some 1] := by decide
-- the one-symbol text `$`: `max(-1, -1) as usize` is `usize::MAX`, `1 + …` overflows (panic with overflow checks; the
-- mirror model, which reads `as usize` of a negative value as 0, says `[some 1]`) — outside `n ≥ 2`
example : Gen.SrcSus.sus [0] [-1, -1] = Rs.Res.panic := by decide

/-! ### translated text of `lcp` (Kasai; `RbV/Gen/SrcLcp.lean`, regenerated on every run; builder gensa, `tools/rs2lean_gensa.py`) -/

-- (the step-by-step equality `translated lcp = Kasai.kasai` on every permutation starting with `n - 1` —
-- `RbV.Thm.GenSrcLcpModel.lcp_eq_model` — is a *soft* obligation since the model-free proof of `lcp_source_exact` exists:
-- another carried `l`, or another LCP algorithm (seeded change C03-H4), keeps the property)

/-- **the translated `lcp` on every accepted suffix array of a single-sentinel text returns `lcpRef`** (length `n + 1`, `-1` at
both ends, longest common prefix of neighbouring suffixes inside: `lcpRef_spec`) — proved model-free (loop invariant `l ≤` true
LCP with the predecessor, `Thm.GenSrcLcp.for2_sorted`), no mirror model between the text of the function and the reference -/
theorem lcp_source_exact (t sa : List Nat) (hc : checkSA t sa = true)
    (hsingle : ∀ p, t[p]? = some (sentinelOf t) → p = t.length - 1)
    (hmin : ∀ p, p < t.length → sentinelOf t ≤ t.getD p 0) (hn : 2 ≤ t.length) (hsz : t.length + 1 < 2 ^ 63) :
    Gen.SrcLcp.lcp t sa = Rs.Res.ok (lcpRef t sa) :=
  Thm.GenSrcLcp.lcp_source_exact t sa (Kasai.sorted_of_checkSA_single t sa hc hsingle hmin) (by omega) hsz

/-- the translated `lcp` refuses a suffix array of another length (`assert_eq!`) -/
theorem lcp_source_length_mismatch_panics (t sa : List Nat) (h : t.length ≠ sa.length) :
    Gen.SrcLcp.lcp t sa = Rs.Res.panic :=
  Thm.GenSrcLcp.lcp_length_mismatch_panics t sa h

-- the translated code evaluated: `abab$`, and the doc test `GCTGCTA$` through translated `lcp` then translated `sus`
example : Gen.SrcLcp.lcp [1, 2, 1, 2, 0] [4, 2, 0, 3, 1] = Rs.Res.ok [-1, 0, 2, 0, 1, -1] := by decide
example : (do let l ← Gen.SrcLcp.lcp [71, 67, 84, 71, 67, 84, 65, 36] [7, 6, 3, 0, 4, 1, 5, 2]
              Gen.SrcSus.sus [7, 6, 3, 0, 4, 1, 5, 2] l)
    = Rs.Res.ok [some 4, some 3, some 2, some 4, some 3, some 2, some 1, some 1] := by decide
-- a first entry other than `n - 1`: `rank[p] - 1` underflows for the position of rank 0
example : Gen.SrcLcp.lcp [1, 2, 0] [0, 2, 1] = Rs.Res.panic := by decide

/-! ### translated text of `sentinel_count` and `transform_text` (`RbV/Gen/SrcTransform.lean`; builder gensa)

`T` is read at a 64-bit unsigned type, `num_traits::cast::<usize, T>` as an abstract `castT` that is value-preserving below
`alphabet.len() + sentinel_count` (hypothesis `hcast`; `sais_transform_width_fits` proves that bound for the type the width
dispatch selects); `RankTransform::new` is the translated `Gen.SrcAlphabet.rankNew`.  The obligation is stated **modulo the
freedom the property leaves** (`Transform.Ok`, `RbV/Lemmas/TransformSpec.lean`): which distinct ranks below all other symbols
the sentinel occurrences get is not fixed, only that they are pairwise distinct and the final one is least. -/

/-- translated `sentinel_count`: the `assert!` passes when no symbol is below the last one, the fold counts its occurrences -/
theorem sentinel_count_source_eq_model (t : List Nat) (hne : t ≠ []) (hmin : ∀ a ∈ t, sentinelOf t ≤ a)
    (hsz : t.length < 2 ^ 64) : Gen.SrcTransform.sentinel_count t = Rs.Res.ok (t.count (sentinelOf t)) :=
  Thm.GenSrcTransform.sentinel_count_eq_model t hne hmin hsz

/-- … and a text with a symbol below its last one is refused -/
theorem sentinel_count_source_refuses (t : List Nat) (hne : t ≠ []) (a : Nat) (ha : a ∈ t) (hlt : a < sentinelOf t) :
    Gen.SrcTransform.sentinel_count t = Rs.Res.panic :=
  Thm.GenSrcTransform.sentinel_count_unsorted_panics t hne a ha hlt

/-- **translated `transform_text` = the mirror model modulo the sentinel order**: on the alphabet of the text and its
sentinel count it does not panic and returns a text `tt` of the same length in which every non-sentinel symbol is
`rank + (sentinel_count − 1)` (as in `Transform.transformText`) and the sentinel occurrences carry pairwise distinct values
below `sentinel_count`, the final one the least (`Transform.Ok`; the mirror model is the instance "decreasing from left to
right": `Transform.ok_transformText`) -/
theorem transform_text_source_eq_model (castT : Nat → Option Nat) (t : List Nat) (hne : t ≠ []) (hb : ∀ c ∈ t, c < 256)
    (hsz : t.length + 256 < 2 ^ 64)
    (hcast : ∀ x, x < (Alpha.mk t).length + t.count (sentinelOf t) → castT x = some x) :
    ∃ tt, Gen.SrcTransform.transform_text castT t (Alpha.mk t) (t.count (sentinelOf t)) = Rs.Res.ok tt ∧ Transform.Ok t tt :=
  Thm.GenSrcTransform.transform_text_spec castT t hne hb hsz hcast

/-- **what `Sais::construct` and the property need of it** (the corollary `sais_transform_text` states for the mirror):
the first three statements of `suffix_array` — translated `Alphabet::new`, `sentinel_count`, `transform_text` — hand SA-IS
a text `tt` it accepts (`Sais.Valid`: last symbol the unique minimum, dense alphabet), and every sorted suffix permutation
of `tt` is accepted by `checkSA` for the byte text -/
theorem transform_text_source_feeds_sais (castT : Nat → Option Nat) (t : List Nat) (hne : t ≠ []) (hb : ∀ c ∈ t, c < 256)
    (hmin : ∀ p, p < t.length → sentinelOf t ≤ t.getD p 0) (hsz : t.length + 256 < 2 ^ 64)
    (hcast : ∀ x, x < (Alpha.mk t).length + t.count (sentinelOf t) → castT x = some x) :
    ∃ tt, (do let alphabet ← Gen.SrcAlphabet.alphabetNew t
              let sc ← Gen.SrcTransform.sentinel_count t
              Gen.SrcTransform.transform_text castT t alphabet sc) = Rs.Res.ok tt ∧
      Sais.Valid tt ∧ tt.length = t.length ∧ ∀ sa, SuffixSorted tt sa → checkSA t sa = true := by
  obtain ⟨tt, h1, h2⟩ := Thm.GenSrcTransform.transform_text_spec castT t hne hb hsz hcast
  have hmin' : ∀ a ∈ t, sentinelOf t ≤ a := by
    intro a ha
    obtain ⟨i, hi, he⟩ := Sais.exists_getD_of_mem t a ha
    rw [← he]; exact hmin i hi
  refine ⟨tt, ?_, h2.valid hne hmin, h2.len, fun sa hs => (checkSA_iff t sa hne).mpr (h2.isSA hne hmin sa hs)⟩
  rw [Thm.GenSrcAlphabet.alphabetNew_eq_model t hb, Thm.GenSrcTransform.sentinel_count_eq_model t hne hmin' (by omega)]
  exact h1

-- `CA$` evaluated through the translated code (`cast` into `u8`); with one sentinel the sentinel order is forced (the
-- evaluation of a multi-sentinel text, whose numbers depend on the order chosen, is in `Thm/GenSrcTransformModel.lean`)
example : (do let alphabet ← Gen.SrcAlphabet.alphabetNew [67, 65, 36]
              let sc ← Gen.SrcTransform.sentinel_count [67, 65, 36]
              Gen.SrcTransform.transform_text (fun x => if x < 256 then some x else none) [67, 65, 36] alphabet sc)
    = Rs.Res.ok [2, 1, 0] := by decide
example : Transform.Ok [65, 36, 67, 36, 65, 36] [3, 2, 4, 1, 3, 0] := Transform.ok_transformText _ (by decide)
example : Transform.Ok [65, 36, 67, 36, 65, 36] [3, 1, 4, 2, 3, 0] := Transform.ok_transformTextUp _ (by decide)
-- a text whose last symbol is not its smallest is refused by the `assert!`; a cast that does not fit panics
example : Gen.SrcTransform.sentinel_count [36, 65] = Rs.Res.panic := by decide
example : Gen.SrcTransform.transform_text (fun x => if x < 2 then some x else none) [65, 67, 36] (Alpha.mk [65, 67, 36]) 1
    = Rs.Res.panic := by decide

/-! ### translated text of `PosTypes::{new, is_s_pos, is_l_pos, is_lms_pos}` (`RbV/Gen/SrcPosTypes.lean`; builder gensa)

The `BitVec` is read as the vector of its bits (`new_fill`, `set_bit`, `get_bit` with bounds checks), `T` at `u64`. -/

/-- translated `PosTypes::new` = the mirror model `PosTypes.posTypes` (the L/S typing SA-IS's model and proofs use) on every
non-empty text: the right-to-left loop never reads or writes out of range -/
theorem postypes_new_source_eq_model (t : List Nat) (hne : t ≠ []) (hsz : t.length < 2 ^ 64) :
    Gen.SrcPosTypes.new t = Rs.Res.ok (PosTypes.posTypes t) :=
  Thm.GenSrcPosTypes.new_eq_model t hne hsz

/-- **translated `PosTypes::new` is correct**: in a text whose last symbol occurs nowhere else the translated function
marks a position S exactly when its suffix is smaller than the next one (composition with `sais_postypes_partial`) -/
theorem postypes_new_source_correct (t : List Nat) (hne : t ≠ []) (hsz : t.length < 2 ^ 64)
    (hu : ∀ i, i + 1 < t.length → t.getD i 0 ≠ t.getD (t.length - 1) 0) :
    ∃ ty, Gen.SrcPosTypes.new t = Rs.Res.ok ty ∧ ∀ p, p < t.length →
      ty[p]? = some (decide (lexLt (t.drop p) (t.drop (p + 1))) || decide (p + 1 = t.length)) :=
  ⟨_, Thm.GenSrcPosTypes.new_eq_model t hne hsz, fun p hp => PosTypes.posTypes_spec t hu p hp⟩

/-- translated `is_s_pos`, `is_l_pos`, `is_lms_pos` = the model's predicates at every position of the bit vector (beyond it
the bv crate panics; the model's totalised predicates say `false`) -/
theorem postypes_predicates_source_eq_model (ty : List Bool) (p : Nat) (hp : p < ty.length) :
    Gen.SrcPosTypes.is_s_pos ty p = Rs.Res.ok (Sais.isS ty p) ∧ Gen.SrcPosTypes.is_l_pos ty p = Rs.Res.ok (Sais.isL ty p) ∧
      Gen.SrcPosTypes.is_lms_pos ty p = Rs.Res.ok (Sais.isLms ty p) :=
  ⟨Thm.GenSrcPosTypes.is_s_pos_eq_model ty p hp, Thm.GenSrcPosTypes.is_l_pos_eq_model ty p hp,
    Thm.GenSrcPosTypes.is_lms_pos_eq_model ty p hp⟩

-- the text of the repo's `test_pos_types` through the translated code: its LMS positions
example : (do let ty ← Gen.SrcPosTypes.new [71, 67, 67, 84, 84, 65, 65, 67, 65, 84, 84, 65, 84, 84, 65, 67, 71, 67, 67, 84, 65, 36]
              (List.range 22).filterM (Gen.SrcPosTypes.is_lms_pos ty)) = Rs.Res.ok [1, 5, 8, 11, 14, 17, 21] := by decide
example : Gen.SrcPosTypes.new [] = Rs.Res.panic := by decide
example : Gen.SrcPosTypes.is_lms_pos [false, true] 2 = Rs.Res.panic := by decide

/-! ### translated text of `Sais::init_bucket_start`, `Sais::init_bucket_end` (`RbV/Gen/SrcSaisBuckets.lean`; builder gensa)

`bucket_sizes` is the `Rs.VecMap` (`contains_key`, `*get_mut(k).unwrap() += 1`, `values()` in ascending key order:
`RbV/Basic/RsSemGensa.lean`), `cast::<T, usize>` an abstract `castU` that preserves the symbols of the text. -/

/-- translated `init_bucket_start` = the mirror model `Sais.initBucketStart` on **every** text (prefix sums of the counts of
the occurring symbols in ascending order; the `VecMap` afterwards holds `count` for every occurring symbol and nothing
else): no missing key at `get_mut(..).unwrap()`, no overflow -/
theorem init_bucket_start_source_eq_model (castU : Nat → Option Nat) (bs0 : Rs.VecMap) (bst0 t : List Nat)
    (hc : ∀ c ∈ t, castU c = some c) (hsz : t.length < 2 ^ 64) :
    ∃ m, Gen.SrcSaisBuckets.init_bucket_start castU bs0 bst0 t = Rs.Res.ok (m, Sais.initBucketStart t) ∧
      ∀ k, Rs.VecMap.get m k = Sais.cOpt t k :=
  Thm.GenSrcSaisBuckets.init_bucket_start_spec castU bs0 bst0 t hc hsz

/-- translated `init_bucket_end` = the mirror model `Sais.initBucketEnd` when `bucket_start` is non-empty, its later entries
are positive and the text is non-empty — exactly what keeps `&bucket_start[1..]`, `r - 1`, `text.len() - 1` from panicking -/
theorem init_bucket_end_source_eq_model (bst be0 t : List Nat) (hne : t ≠ []) (hb : bst ≠ [])
    (hpos : ∀ r ∈ bst.drop 1, 1 ≤ r) :
    Gen.SrcSaisBuckets.init_bucket_end bst be0 t = Rs.Res.ok (Sais.initBucketEnd bst t.length) :=
  Thm.GenSrcSaisBuckets.init_bucket_end_spec bst be0 t hne hb hpos

/-- **the two translated functions on a text SA-IS accepts** (`Sais.Valid`): `bucket_start[c]` = number of symbols below `c`,
`bucket_end[c]` = (number of symbols `≤ c`) − 1 — `bucket_start_spec` / `bucket_end_spec` for the code itself -/
theorem buckets_source_correct (castU : Nat → Option Nat) (bs0 : Rs.VecMap) (bst0 be0 t : List Nat) (hv : Sais.Valid t)
    (hc : ∀ c ∈ t, castU c = some c) (hsz : t.length < 2 ^ 64) :
    ∃ m, (do let (m, bst) ← Gen.SrcSaisBuckets.init_bucket_start castU bs0 bst0 t
             let be ← Gen.SrcSaisBuckets.init_bucket_end bst be0 t
             pure (m, bst, be)) =
      Rs.Res.ok (m, (List.range (Sais.maxSucc t)).map (Sais.cntLt t),
        (List.range (Sais.maxSucc t)).map (fun c => Sais.cntLt t (c + 1) - 1)) := by
  obtain ⟨m, h1, _⟩ := Thm.GenSrcSaisBuckets.init_bucket_start_spec castU bs0 bst0 t hc hsz
  have hne : t ≠ [] := by intro e; have := hv.pos; rw [e] at this; simp at this
  refine ⟨m, ?_⟩
  rw [h1]
  simp only [Rs.Res.ok_bind]
  rw [Thm.GenSrcSaisBuckets.init_bucket_end_valid be0 t hv]
  simp only [Rs.Res.ok_bind, Rs.Res.pure_eq_ok]
  rw [Sais.initBucketEnd_eq t hne hv.dense, Sais.initBucketStart_eq t hv.dense]

-- the integer text of the doc test of `suffix_array_int` through the translated code
example : (do let (m, bst) ← Gen.SrcSaisBuckets.init_bucket_start some [] [] [3, 2, 2, 4, 4, 1, 2, 1, 0]
              let be ← Gen.SrcSaisBuckets.init_bucket_end bst [] [3, 2, 2, 4, 4, 1, 2, 1, 0]
              pure (bst, be)) = Rs.Res.ok ([0, 1, 3, 6, 7], [0, 2, 5, 6, 8]) := by decide
-- a symbol that does not fit `usize` (`cast(c).unwrap()`), and the empty text (`&bucket_start[1..]`), panic
example : Gen.SrcSaisBuckets.init_bucket_start (fun _ => none) [] [] [1, 0] = Rs.Res.panic := by decide
example : Gen.SrcSaisBuckets.init_bucket_end [] [] [] = Rs.Res.panic := by decide

/-! ### translated text of `Sais::calc_pos` (`RbV/Gen/SrcSaisCalcPos.lean`; builder gensa) -/

/-- **translated `calc_pos` = the mirror model `Sais.calcPosRun`, step by step, on every index-safe run** — with the
*translated* `init_bucket_start`, `init_bucket_end`, `is_l_pos`, `is_s_pos` in the place of its callees, on a text SA-IS
accepts with its L/S typing: placement of the LMS positions from the right (`wrapping_sub`), bucket-end reset, L pass with
the `p == n || p == 0` skip, S pass with only the `p == 0` skip.  `SafeRun` says that every index the three passes of the
*model* use is in range (the model totalises such accesses, the code panics); it holds for every list of the LMS positions
(`calc_pos_source_eq_model` below), this form is for arbitrary `lms_pos` contents. -/
theorem calc_pos_source_eq_model_on_safe_runs (castU : Nat → Option Nat) (pos0 lms : List Nat) (bsz : Rs.VecMap)
    (bst0 be0 t : List Nat) (hv : Sais.Valid t) (hc : ∀ c ∈ t, castU c = some c) (hsz : t.length < 2 ^ 64)
    (hsafe : Thm.GenSrcSaisCalcPos.SafeRun t (Sais.tyOf t) lms) :
    ∃ m, Gen.SrcSaisCalcPos.calc_pos castU (Gen.SrcPosTypes.is_l_pos (Sais.tyOf t)) (Gen.SrcPosTypes.is_s_pos (Sais.tyOf t))
        (Gen.SrcPosTypes.is_lms_pos (Sais.tyOf t)) (Gen.SrcSaisBuckets.init_bucket_start castU)
        Gen.SrcSaisBuckets.init_bucket_end pos0 lms bsz bst0 be0 t (Sais.tyOf t) =
      Rs.Res.ok ((Sais.calcPosRun t (Sais.tyOf t) lms).pos, m, (Sais.calcPosRun t (Sais.tyOf t) lms).bStart,
        (Sais.calcPosRun t (Sais.tyOf t) lms).bEnd) := by
  obtain ⟨m, h1, _⟩ := Thm.GenSrcSaisBuckets.init_bucket_start_spec castU bsz bst0 t hc hsz
  exact ⟨m, Thm.GenSrcSaisCalcPos.calc_pos_eq_model castU _ _ _ _ _ pos0 lms bsz bst0 be0 t (Sais.tyOf t) m hc
    (fun q hq => Thm.GenSrcPosTypes.is_l_pos_eq_model _ q hq) (fun q hq => Thm.GenSrcPosTypes.is_s_pos_eq_model _ q hq)
    h1 (fun be => Thm.GenSrcSaisBuckets.init_bucket_end_valid be t hv) hsafe⟩

/-- **translated `calc_pos` = the mirror model `Sais.calcPosRun`** on every text SA-IS accepts and every arrangement `lms` of
its LMS positions in `lms_pos` (each exactly once): the translated code never panics — every run is index-safe
(`Thm.GenSrcSaisCalcPos.safeRun_of_valid`, from the loop invariants of the three passes) — and returns the model's `pos`,
`bucket_start`, `bucket_end` -/
theorem calc_pos_source_eq_model (castU : Nat → Option Nat) (pos0 lms : List Nat) (bsz : Rs.VecMap)
    (bst0 be0 t : List Nat) (hv : Sais.Valid t) (hc : ∀ c ∈ t, castU c = some c) (hsz : t.length < 2 ^ 64)
    (hl : Sais.LmsList t lms) :
    ∃ m, Gen.SrcSaisCalcPos.calc_pos castU (Gen.SrcPosTypes.is_l_pos (Sais.tyOf t)) (Gen.SrcPosTypes.is_s_pos (Sais.tyOf t))
        (Gen.SrcPosTypes.is_lms_pos (Sais.tyOf t)) (Gen.SrcSaisBuckets.init_bucket_start castU)
        Gen.SrcSaisBuckets.init_bucket_end pos0 lms bsz bst0 be0 t (Sais.tyOf t) =
      Rs.Res.ok ((Sais.calcPosRun t (Sais.tyOf t) lms).pos, m, (Sais.calcPosRun t (Sais.tyOf t) lms).bStart,
        (Sais.calcPosRun t (Sais.tyOf t) lms).bEnd) :=
  calc_pos_source_eq_model_on_safe_runs castU pos0 lms bsz bst0 be0 t hv hc hsz
    (Thm.GenSrcSaisCalcPos.safeRun_of_valid t hv hsz lms hl)

/-- **the translated `calc_pos` on suffix-sorted LMS positions returns the sorted suffix permutation** (induced sorting,
`induced_sort_correct`, for the code itself) -/
theorem calc_pos_source_sorted (castU : Nat → Option Nat) (pos0 lms : List Nat) (bsz : Rs.VecMap)
    (bst0 be0 t : List Nat) (hv : Sais.Valid t) (hc : ∀ c ∈ t, castU c = some c) (hsz : t.length < 2 ^ 64)
    (hl : Sais.LmsSorted t lms) :
    ∃ pos m bs be, Gen.SrcSaisCalcPos.calc_pos castU (Gen.SrcPosTypes.is_l_pos (Sais.tyOf t))
        (Gen.SrcPosTypes.is_s_pos (Sais.tyOf t)) (Gen.SrcPosTypes.is_lms_pos (Sais.tyOf t))
        (Gen.SrcSaisBuckets.init_bucket_start castU) Gen.SrcSaisBuckets.init_bucket_end pos0 lms bsz bst0 be0 t (Sais.tyOf t) =
      Rs.Res.ok (pos, m, bs, be) ∧ SuffixSorted t pos := by
  obtain ⟨m, h⟩ := calc_pos_source_eq_model castU pos0 lms bsz bst0 be0 t hv hc hsz hl.1
  exact ⟨_, m, _, _, h, Sais.induced_sort_suffix t hv lms hl⟩

-- the run on the doc-test text of `suffix_array_int` with its sorted LMS positions is index-safe, and the translated code
-- evaluated on it returns the suffix array
example : Thm.GenSrcSaisCalcPos.SafeRun [3, 2, 2, 4, 4, 1, 2, 1, 0] (Sais.tyOf [3, 2, 2, 4, 4, 1, 2, 1, 0]) [8, 5, 1] :=
  ⟨by decide, by decide, by decide, by decide⟩
example : (do
    let ty ← Gen.SrcPosTypes.new [3, 2, 2, 4, 4, 1, 2, 1, 0]
    let r ← Gen.SrcSaisCalcPos.calc_pos some (Gen.SrcPosTypes.is_l_pos ty) (Gen.SrcPosTypes.is_s_pos ty)
      (Gen.SrcPosTypes.is_lms_pos ty) (Gen.SrcSaisBuckets.init_bucket_start some) Gen.SrcSaisBuckets.init_bucket_end
      [] [8, 5, 1] [] [] [] [3, 2, 2, 4, 4, 1, 2, 1, 0] ty
    pure r.1) = Rs.Res.ok [8, 7, 5, 6, 1, 2, 0, 4, 3] := by decide
-- an LMS list with a position outside the text: the code panics (the model drops the write)
example : Gen.SrcSaisCalcPos.calc_pos some (fun _ => Rs.Res.ok false) (fun _ => Rs.Res.ok false) (fun _ => Rs.Res.ok false)
    (Gen.SrcSaisBuckets.init_bucket_start some) Gen.SrcSaisBuckets.init_bucket_end [] [7] [] [] [] [1, 0] [false, true]
    = Rs.Res.panic := by decide

/-! ### translated text of `Sais::lms_substring_eq`, `Sais::calc_lms_pos` (`RbV/Gen/SrcSaisLms.lean`; builder gensa) -/

/-- translated `lms_substring_eq` (with the translated `is_lms_pos`) = the mirror model `Sais.lmsSubEq` for two **different**
positions of a text SA-IS accepts: `for k in 0..` never leaves the text (it stops at the latest when a cursor reaches the
final position) and the fuel `n + 1` suffices; with `sais_lms_substring_eq` the translated function decides equality of typed
LMS substrings -/
theorem lms_substring_eq_source_eq_model (t : List Nat) (hv : Sais.Valid t) (i j : Nat) (hi : i < t.length) (hj : j < t.length)
    (hij : i ≠ j) (hsz : t.length + t.length < 2 ^ 64) :
    Gen.SrcSaisLms.lms_substring_eq (Gen.SrcPosTypes.is_l_pos (Sais.tyOf t)) (Gen.SrcPosTypes.is_s_pos (Sais.tyOf t))
      (Gen.SrcPosTypes.is_lms_pos (Sais.tyOf t)) t (Sais.tyOf t) i j = Rs.Res.ok (Sais.lmsSubEq t (Sais.tyOf t) i j) :=
  Thm.GenSrcSaisLms.lms_substring_eq_eq_model _ _ _ t (Sais.tyOf t) i j hi hj hij hsz
    (fun p hp => Sais.sym_ne_last hv p hp)
    (fun q hq => Thm.GenSrcPosTypes.is_lms_pos_eq_model _ q (by rw [Sais.length_tyOf]; exact hq))

/-- translated `calc_lms_pos` = the model's collection loop (`Sais.collectStep`: exactly the LMS positions ascending and their
indices, `sais_lms_pos`), then `calc_pos` on them, then `sort_lms_suffixes` at the width the dispatch selects — for every pair
of callees (they are abstract parameters; `calc_pos` is `calc_pos_source_eq_model_partial`) -/
theorem calc_lms_pos_source_eq_model
    (calcPos : List Nat → List Nat → Rs.VecMap → List Nat → List Nat → List Nat → List Bool →
      Rs.Res (List Nat × Rs.VecMap × List Nat × List Nat))
    (sortLms : Nat → List Nat → List Nat → List Nat → Rs.VecMap → List Nat → List Nat → List Nat → List Bool → Nat →
      Rs.Res (List Nat × List Nat × List Nat × Rs.VecMap × List Nat × List Nat))
    (pos lms0 rtp : List Nat) (bsz : Rs.VecMap) (bst be t : List Nat) (hr : t.length ≤ rtp.length) (hsz : t.length < 2 ^ 64) :
    Gen.SrcSaisLms.calc_lms_pos (Gen.SrcPosTypes.is_l_pos (Sais.tyOf t)) (Gen.SrcPosTypes.is_s_pos (Sais.tyOf t))
        (Gen.SrcPosTypes.is_lms_pos (Sais.tyOf t)) calcPos sortLms pos lms0 rtp bsz bst be t (Sais.tyOf t) =
      (do let c := Sais.forUp t.length (Sais.collectStep (Sais.tyOf t)) ([], rtp, 0)
          let (pos, bsz, bst, be) ← calcPos pos c.1 bsz bst be t (Sais.tyOf t)
          sortLms (Thm.GenSrcSaisLms.widthOf c.1.length) pos c.1 c.2.1 bsz bst be t (Sais.tyOf t) c.1.length) :=
  Thm.GenSrcSaisLms.calc_lms_pos_eq_model _ _ _ calcPos sortLms (Sais.tyOf t)
    (fun q hq => Thm.GenSrcPosTypes.is_lms_pos_eq_model _ q hq) pos lms0 rtp bsz bst be t (Sais.length_tyOf t) hr hsz

-- the LMS substrings at 1 and 3 (`1 3 1`) are equal, those at 1 and 5 (`1 3 0`) are not
example : (do let ty ← Gen.SrcPosTypes.new [2, 1, 3, 1, 3, 1, 3, 0]
              let a ← Gen.SrcSaisLms.lms_substring_eq (Gen.SrcPosTypes.is_l_pos ty) (Gen.SrcPosTypes.is_s_pos ty)
                        (Gen.SrcPosTypes.is_lms_pos ty) [2, 1, 3, 1, 3, 1, 3, 0] ty 1 3
              let b ← Gen.SrcSaisLms.lms_substring_eq (Gen.SrcPosTypes.is_l_pos ty) (Gen.SrcPosTypes.is_s_pos ty)
                        (Gen.SrcPosTypes.is_lms_pos ty) [2, 1, 3, 1, 3, 1, 3, 0] ty 1 5
              pure (a, b)) = Rs.Res.ok (true, false) := by decide
-- `i = j = n − 1`: the scan runs off the text (never called so)
example : (do let ty ← Gen.SrcPosTypes.new [1, 0]
              Gen.SrcSaisLms.lms_substring_eq (Gen.SrcPosTypes.is_l_pos ty) (Gen.SrcPosTypes.is_s_pos ty)
                (Gen.SrcPosTypes.is_lms_pos ty) [1, 0] ty 1 1) = Rs.Res.panic := by decide

/-- **translated `sort_lms_suffixes` (with the translated `is_lms_pos`, `lms_substring_eq`) = the mirror model
`Sais.sortLmsSuffixes`** on a text SA-IS accepts, for every `construct` of the next recursion level that returns what the
model's `rec` returns: the naming loop is `Sais.naming` (`reduced_text[reduced_text_pos[p]] = label`, `lms_substring_eq(prev, p)`
on two different positions, `cast(label)` with `label < count`), then `label + 1 < count` decides between the recursion with the
`lms_pos` backup and the filter of `pos`.  Hypotheses = what the model-level proof establishes before the call (`pos` a
duplicate-free list of positions — a permutation after `calc_pos` —, `reduced_text_pos` maps the LMS positions below `count`,
`count` = number of LMS positions) and what keeps the casts from panicking -/
theorem sort_lms_suffixes_source_eq_model (castS : Nat → Option Nat)
    (constructF : List Nat → List Nat → List Nat → Rs.VecMap → List Nat → List Nat → List Nat →
      Rs.Res (List Nat × List Nat × List Nat × Rs.VecMap × List Nat × List Nat))
    (t : List Nat) (hv : Sais.Valid t) (cnt : Nat) (rec : List Nat → Sais.St → Sais.St) (s : Sais.St) (bsz : Rs.VecMap)
    (hsz : t.length + t.length < 2 ^ 64) (hcast : ∀ x, x < cnt → castS x = some x) (hc63 : cnt < 2 ^ 63)
    (hnd : s.pos.Nodup) (hlt : ∀ p ∈ s.pos, p < t.length) (hne : 0 < s.pos.length)
    (h0 : s.pos.getD 0 0 < s.redPos.length ∧ s.redPos.getD (s.pos.getD 0 0) 0 < cnt)
    (hrp : ∀ p ∈ s.pos, Sais.isLms (Sais.tyOf t) p = true → p < s.redPos.length ∧ s.redPos.getD p 0 < cnt)
    (hcount : (s.pos.filter (Sais.isLms (Sais.tyOf t))).length ≤ cnt)
    (hrec : ∀ red, ∃ bsz', constructF s.pos s.lmsPos s.redPos bsz s.bStart s.bEnd red =
      Rs.Res.ok ((rec red s).pos, (rec red s).lmsPos, (rec red s).redPos, bsz', (rec red s).bStart, (rec red s).bEnd))
    (hback : ∀ red, ∀ p ∈ (rec red s).pos, p < s.lmsPos.length) :
    ∃ bsz', Gen.SrcSaisLms.sort_lms_suffixes (Gen.SrcPosTypes.is_l_pos (Sais.tyOf t)) (Gen.SrcPosTypes.is_s_pos (Sais.tyOf t))
        (Gen.SrcPosTypes.is_lms_pos (Sais.tyOf t)) castS constructF s.pos s.lmsPos s.redPos bsz s.bStart s.bEnd t
        (Sais.tyOf t) cnt =
      Rs.Res.ok ((Sais.sortLmsSuffixes rec t (Sais.tyOf t) cnt s).pos, (Sais.sortLmsSuffixes rec t (Sais.tyOf t) cnt s).lmsPos,
        (Sais.sortLmsSuffixes rec t (Sais.tyOf t) cnt s).redPos, bsz', (Sais.sortLmsSuffixes rec t (Sais.tyOf t) cnt s).bStart,
        (Sais.sortLmsSuffixes rec t (Sais.tyOf t) cnt s).bEnd) :=
  Thm.GenSrcSaisLms.sort_lms_suffixes_eq_model _ _ _ castS constructF t (Sais.tyOf t) cnt rec s bsz (Sais.length_tyOf t) hsz
    (fun p hp => Sais.sym_ne_last hv p hp)
    (fun q hq => Thm.GenSrcPosTypes.is_lms_pos_eq_model _ q (by rw [Sais.length_tyOf]; exact hq))
    hcast hc63 hnd hlt hne (fun _ => h0) hrp hcount (fun _ _ => hrec _) (fun _ _ => hback _)

-- the naming of `2 1 3 1 3 1 3 0` through the translated code (sorted `pos`, LMS positions 1, 3, 5, 7 ↦ indices 0..3): the
-- equal LMS substrings at 3 and 1 get one label (reduced text `2 2 1 0`), `label + 1 = 3 < 4`: the recursion is entered (a stub)
example : (do
    let ty ← Gen.SrcPosTypes.new [2, 1, 3, 1, 3, 1, 3, 0]
    let r ← Gen.SrcSaisLms.sort_lms_suffixes (Gen.SrcPosTypes.is_l_pos ty) (Gen.SrcPosTypes.is_s_pos ty)
      (Gen.SrcPosTypes.is_lms_pos ty) some (fun _ _ _ _ _ _ red => Rs.Res.ok (red, [], [], [], [], []))
      [7, 5, 3, 1, 0, 6, 4, 2] [1, 3, 5, 7] [0, 0, 0, 1, 0, 2, 0, 3] [] [] [] [2, 1, 3, 1, 3, 1, 3, 0] ty 4
    pure r.1) = Rs.Res.ok [2, 2, 1, 0] := by decide

/-! ### `Sais::construct` and the two entry points: the translated pieces tied into one recursion (`Thm/GenSrcSaisConstruct.lean`) -/

/-- **the fuelled recursion over the translated functions = the mirror model `Sais.construct`** on every text SA-IS accepts:
`constructSrc (f + 1)` is the translated `construct` (translated `PosTypes::new`, `calc_lms_pos`, `calc_pos` on the translated bucket
functions and predicates) whose `sort_lms_suffixes` calls `constructSrc f`; no panic at any level, the fuel `t.length` suffices
(the reduced text is shorter), all six fields agree.  `castU` (symbol → `usize`) never fails, `castS w` is value-preserving
below `2^w` for the width `w` the dispatch selects. -/
theorem construct_source_eq_model (castU : Nat → Option Nat) (castS : Nat → Nat → Option Nat)
    (hcU : ∀ c, castU c = some c) (hcS : ∀ w x, x < 2 ^ w → castS w x = some x)
    (f : Nat) (t : List Nat) (s : Sais.St) (bsz : Rs.VecMap) (hv : Sais.Valid t) (hf : t.length ≤ f)
    (hs : t.length ≤ s.redPos.length) (hsz : s.redPos.length < 2 ^ 62) :
    ∃ bsz', Thm.GenSrcSaisConstruct.constructSrc castU castS f s.pos s.lmsPos s.redPos bsz s.bStart s.bEnd t =
      Rs.Res.ok ((Sais.construct f t s).pos, (Sais.construct f t s).lmsPos, (Sais.construct f t s).redPos, bsz',
        (Sais.construct f t s).bStart, (Sais.construct f t s).bEnd) := by
  -- the translated units this statement is about, named so that the orchestrator does not count it when one of them cannot be
  -- regenerated (`stale_source_theorems` in `./check` looks for the unit names)
  have _u := (@Gen.SrcSaisLms.construct, @Gen.SrcSaisCalcPos.calc_pos, @Gen.SrcSaisBuckets.init_bucket_start, @Gen.SrcPosTypes.new)
  exact Thm.GenSrcSaisConstruct.constructSrc_eq_model castU castS hcU hcS f t s bsz hv hf hs hsz

/-- **`suffix_array_int` from the source text**: `Sais::new(n)`, the recursion over the translated functions, `sais.pos` returns
an array accepted by `checkSorted` for every dense integer text that ends in its unique minimum (`n < 2^62`) -/
theorem suffix_array_int_source_sorted (castU : Nat → Option Nat) (castS : Nat → Nat → Option Nat)
    (hcU : ∀ c, castU c = some c) (hcS : ∀ w x, x < 2 ^ w → castS w x = some x)
    (t : List Nat) (hv : Sais.Valid t) (hsz : t.length < 2 ^ 62) :
    ∃ sa, Thm.GenSrcSaisConstruct.suffixArrayIntSrc castU castS t = Rs.Res.ok sa ∧ checkSorted t sa = true := by
  -- the translated units this statement is about, named so that the orchestrator does not count it when one of them cannot be
  -- regenerated (`stale_source_theorems` in `./check` looks for the unit names)
  have _u := (@Gen.SrcSaisLms.construct, @Gen.SrcSaisCalcPos.calc_pos, @Gen.SrcSaisBuckets.init_bucket_start, @Gen.SrcPosTypes.new)
  obtain ⟨r, h1, h2⟩ := Thm.GenSrcSaisConstruct.constructSrc_sorted castU castS hcU hcS t t.length hv (Nat.le_refl _) hsz
  refine ⟨r.1, ?_, (checkSorted_iff_sorted t r.1).mpr h2⟩
  unfold Thm.GenSrcSaisConstruct.suffixArrayIntSrc
  rw [h1]; rfl

/-- **`suffix_array` from the source text** returns an array accepted by `checkSA` (⇔ the property C03, `checkSA_iff`) for every
non-empty byte text whose last symbol is its smallest, `n + 256 < 2^62`: translated `Alphabet::new`, `sentinel_count`,
`transform_text`, then the recursion over the translated `construct` / `PosTypes::new` / `calc_lms_pos` / `calc_pos` /
`init_bucket_*` / `sort_lms_suffixes` / `lms_substring_eq` started from `Sais::new(n)`, then `sais.pos` — no panic anywhere.
**Partial** in exactly this sense: (1) the five glue statements of `suffix_array` itself (`Sais::new`, the `match` on
`alphabet.len() + sentinel_count` with its guards, `sais.pos`) and the recursion knot are the hand-written
`suffixArraySrc` / `constructSrc`, not translated text — the `match` is represented by the abstract `castT` with the contract
the arm taken guarantees (`sais_transform_width_fits` proves it of the *extracted* guards, `Gen/SaisWidth.lean`); (2) the
`cast`s are abstract functions with the contracts `hcast`, `hcU`, `hcS` (value-preserving where the type is wide enough), not
derived from `num_traits`. -/
theorem suffix_array_source_sorted_partial (castT castU : Nat → Option Nat) (castS : Nat → Nat → Option Nat)
    (t : List Nat) (hne : t ≠ []) (hb : ∀ c ∈ t, c < 256) (hmin : ∀ p, p < t.length → sentinelOf t ≤ t.getD p 0)
    (hsz : t.length + 256 < 2 ^ 62)
    (hcast : ∀ x, x < (Alpha.mk t).length + t.count (sentinelOf t) → castT x = some x)
    (hcU : ∀ c, castU c = some c) (hcS : ∀ w x, x < 2 ^ w → castS w x = some x) :
    ∃ sa, Thm.GenSrcSaisConstruct.suffixArraySrc castT castU castS t = Rs.Res.ok sa ∧ checkSA t sa = true := by
  -- the translated units this statement is about, named so that the orchestrator does not count it when one of them cannot be
  -- regenerated (`stale_source_theorems` in `./check` looks for the unit names)
  have _u := (@Gen.SrcSaisLms.construct, @Gen.SrcSaisCalcPos.calc_pos, @Gen.SrcSaisBuckets.init_bucket_start, @Gen.SrcPosTypes.new)
  have q : (2 : Nat) ^ 62 < 2 ^ 64 := by decide
  obtain ⟨tt, h1, hv, hlen, hacc⟩ := transform_text_source_feeds_sais castT t hne hb hmin (by omega) hcast
  obtain ⟨r, h2, h3⟩ := Thm.GenSrcSaisConstruct.constructSrc_sorted castU castS hcU hcS tt t.length hv (by omega) (by omega)
  refine ⟨r.1, ?_, hacc r.1 h3⟩
  unfold Thm.GenSrcSaisConstruct.suffixArraySrc
  have hmin' : ∀ a ∈ t, sentinelOf t ≤ a := by
    intro a ha
    obtain ⟨i, hi, he⟩ := Sais.exists_getD_of_mem t a ha
    rw [← he]; exact hmin i hi
  rw [Thm.GenSrcAlphabet.alphabetNew_eq_model t hb, Thm.GenSrcTransform.sentinel_count_eq_model t hne hmin' (by omega)] at h1 ⊢
  simp only [Rs.Res.ok_bind] at h1 ⊢
  rw [h1]
  simp only [Rs.Res.ok_bind]
  rw [h2]; rfl

-- both entry points evaluated through the translated code: the doc tests of `suffix_array_int` and a two-sentence text
set_option maxRecDepth 100000 in
example : Thm.GenSrcSaisConstruct.suffixArrayIntSrc some (fun w x => if x < 2 ^ w then some x else none)
    [3, 2, 2, 4, 4, 1, 2, 1, 0] = Rs.Res.ok [8, 7, 5, 6, 1, 2, 0, 4, 3] := by decide
set_option maxRecDepth 100000 in
example : (do let sa ← Thm.GenSrcSaisConstruct.suffixArraySrc (fun x => if x < 256 then some x else none) some
                (fun w x => if x < 2 ^ w then some x else none) [98, 97, 36, 98, 97, 36]
              pure (checkSA [98, 97, 36, 98, 97, 36] sa)) = Rs.Res.ok true := by decide

end RbV.Thm.C03
