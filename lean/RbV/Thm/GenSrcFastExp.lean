import RbV.Lemmas.C15Src
import RbV.Gen.SrcFastExp
/-!
# C15: the translated text of `FastExp::fastexp` (`RbV/Gen/SrcFastExp.lean`) is the bit-trick model

At `xrOps E` (exact arithmetic; `from_bits` = IEEE-754 binary64 decoding) and for `MIN_VAL < x ≤ 0` the translated body
returns `2^k · P(y)` with `k = ⌈ONEBYLOG2·x⌉`, `y = ONEBYLOG2·x − k` and `P = fastexpPolyGen` (the polynomial over the
coefficients of `Gen/Scales.lean`, Horner steps in source order): no `i64` overflow, the shift stays inside the exponent
field, the assembled bit pattern decodes to exactly `2^k`.  Below `MIN_VAL` it is `exp`.
-/
set_option linter.unusedSimpArgs false
namespace RbV.Thm.GenSrcFastExp
open RbV RbV.Rs RbV.C15 Real

theorem fromBits_pow2 (e : ℕ) (h1 : 1 ≤ e) (h2 : e ≤ 2046) :
    XR.fromBits (e * 2 ^ 52) = XR.fin ((2 : ℝ) ^ ((e : ℤ) - 1023)) := by
  have a1 : e * 2 ^ 52 / 2 ^ 63 % 2 = 0 := by omega
  have a2 : e * 2 ^ 52 / 2 ^ 52 % 2 ^ 11 = e := by omega
  have a3 : e * 2 ^ 52 % 2 ^ 52 = 0 := by omega
  unfold XR.fromBits
  simp only [a1, a2, a3]
  have : e ≠ 2047 := by omega
  have : e ≠ 0 := by omega
  simp [*]

theorem fastexp_eq_model (E : ℝ → ℝ) (x : ℝ) (hlo : decR Gen.Scales.minVal < x) (hhi : x ≤ 0)
    (hk1 : 1 ≤ ⌈decR Gen.Scales.oneByLog2 * x⌉ + 1023) (hk2 : ⌈decR Gen.Scales.oneByLog2 * x⌉ + 1023 ≤ 2046)
    (hc0 : 0 ≤ decR Gen.Scales.oneByLog2) :
    Gen.SrcFastExp.fastexp (xrOps E) (XR.fin x) =
      Res.ok (XR.fin ((2 : ℝ) ^ ⌈decR Gen.Scales.oneByLog2 * x⌉ *
        fastexpPolyGen (decR Gen.Scales.oneByLog2 * x - ⌈decR Gen.Scales.oneByLog2 * x⌉))) := by
  unfold Gen.Scales.minVal at hlo
  unfold Gen.Scales.oneByLog2 at *
  set c := decR ⟨1442695041, 9⟩ with hc
  set k := ⌈c * x⌉ with hk
  have hcx : c * x ≤ 0 := mul_nonpos_of_nonneg_of_nonpos hc0 hhi
  have htr : XR.truncI64 (XR.fin (c * x)) = k := by
    have hk0 : k ≤ 0 := by rw [hk, Int.ceil_le]; simpa using hcx
    have hfc : (if 0 ≤ c * x then ⌊c * x⌋ else ⌈c * x⌉) = k := by
      split
      · have : c * x = 0 := le_antisymm hcx ‹_›
        rw [hk, this]; simp
      · rfl
    simp only [XR.truncI64, hfc]
    omega
  obtain ⟨e, he⟩ : ∃ e : ℕ, k + 1023 = (e : ℤ) := ⟨(k + 1023).toNat, by omega⟩
  have he1 : 1 ≤ e := by omega
  have he2 : e ≤ 2046 := by omega
  have hadd : Rs.iadd 64 k 1023 = Res.ok (e : ℤ) := by
    rw [Rs.iadd_ok (by unfold Rs.InS; omega), he]
  have hshl : Rs.ishl64 (e : ℤ) 52 = Res.ok ((e * 2 ^ 52 : ℕ) : ℤ) := by
    have hlt : e * 2 ^ 52 < 2 ^ 63 := by omega
    unfold Rs.ishl64
    simp only [show (52 : ℕ) < 64 by norm_num, ↓reduceIte]
    rw [show ((e : ℤ) * ((2 ^ 52 : ℕ) : ℤ)) = ((e * 2 ^ 52 : ℕ) : ℤ) by push_cast; ring,
      Rs.ofSigned_natCast (by omega), Rs.toSigned_of_lt (by omega)]
  have hof : Rs.ofSigned 64 ((e * 2 ^ 52 : ℕ) : ℤ) = e * 2 ^ 52 := Rs.ofSigned_natCast (by omega)
  have hpow : (2 : ℝ) ^ ((e : ℤ) - 1023) = (2 : ℝ) ^ k := by rw [← he]; congr 1; ring
  simp only [Gen.SrcFastExp.fastexp, Gen.SrcFastExp.MIN_VAL, Gen.SrcFastExp.ONEBYLOG2, Gen.SrcFastExp.OFFSET_F64,
    Gen.SrcFastExp.FRACTION_F64, Gen.SrcFastExp.COEFF_0, Gen.SrcFastExp.COEFF_1, Gen.SrcFastExp.COEFF_2,
    Gen.SrcFastExp.COEFF_3, Gen.SrcFastExp.COEFF_4, ops_lt, ops_ofDec, ops_mul, ops_sub, ops_add, ops_truncI64, ops_ofInt, ops_fromBits,
    lt_fin, mul_fin, sub_fin, add_fin, hlo, decide_true, ↓reduceIte, ← hc, htr, hadd, hshl, hof, Res.ok_bind,
    Res.pure_eq_ok, fromBits_pow2 e he1 he2, hpow]
  rfl

/-- at and below `MIN_VAL` the text calls the exact `exp` -/
theorem fastexp_below (E : ℝ → ℝ) (x : ℝ) (h : x ≤ decR Gen.Scales.minVal) :
    Gen.SrcFastExp.fastexp (xrOps E) (XR.fin x) = Res.ok (XR.fin (exp x)) := by
  unfold Gen.Scales.minVal at h
  simp [Gen.SrcFastExp.fastexp, Gen.SrcFastExp.MIN_VAL, not_lt.mpr h]

/-- `fastexp(−∞) = 0` (what the callers in `stats/probs` rely on for `ln 0` operands) -/
theorem fastexp_ninf (E : ℝ → ℝ) : Gen.SrcFastExp.fastexp (xrOps E) XR.ninf = Res.ok (XR.fin 0) := by
  simp [Gen.SrcFastExp.fastexp, Gen.SrcFastExp.MIN_VAL, XR.lt, XR.exp]

end RbV.Thm.GenSrcFastExp
