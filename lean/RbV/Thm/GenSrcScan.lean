import RbV.Basic.RsSem
import RbV.Basic.Scan
/-!
Shared by the equality proofs of the scanner-type search loops (`kmp::Matches::next`, genpm): a translated
`for (i, c) in self.text.by_ref() { s = step(s, c); if acc(s) { return Some(i + 1 - m) } }  None`, driven by `Rs.drain`
until `None`, lists what the generic scanner `Scan.scan step acc m` lists.  The matcher-specific part of a proof is one
unfolding of the generated loop helper under the automaton invariant (`hnil`, `hcons`) and the shape of `next` (`hnext`).
-/
namespace RbV.Thm.GenSrcScan
open RbV RbV.Rs

section
variable {σ : Type} (step : σ → Nat → σ) (acc : σ → Bool) (m : Nat) (Inv : List Nat → σ → Prop)
variable (iter : List Nat → Nat → σ → Res (σ × (List Nat × Nat) × Option (Option Nat)))
variable (next : σ → (List Nat × Nat) → Res (σ × (List Nat × Nat) × Option Nat))
variable (hnil : ∀ i s, iter [] i s = Res.ok (s, ([], i), none))
variable (hcons : ∀ pre s c rest, Inv pre s → c < 256 → pre.length + 1 + rest.length < 2 ^ 64 →
  iter (c :: rest) pre.length s =
    if acc (step s c) then Res.ok (step s c, (rest, pre.length + 1), some (some (pre.length + 1 - m)))
    else iter rest (pre.length + 1) (step s c))
variable (hnext : ∀ s tx s' tx' r, iter tx.1 tx.2 s = Res.ok (s', tx', r) → next s tx = Res.ok (s', tx', r.join))
variable (hstep : ∀ pre s c, Inv pre s → Inv (pre ++ [c]) (step s c))
include hnil hcons hstep

/-- outcome of one run of the loop -/
def StepSpec (rest pre : List Nat) (s s' : σ) (tx' : List Nat × Nat) (r : Option (Option Nat)) : Prop :=
  (r = none ∧ tx'.1 = [] ∧ Scan.scan step acc m rest pre.length s = []) ∨
  (∃ v pre', r = some (some v) ∧ Inv pre' s' ∧ pre'.length = tx'.2 ∧ pre'.length + tx'.1.length = pre.length + rest.length ∧
      tx'.1.length < rest.length ∧ tx'.1 <:+ rest ∧
      Scan.scan step acc m rest pre.length s = v :: Scan.scan step acc m tx'.1 tx'.2 s')

theorem iter_spec : ∀ (rest pre : List Nat) (s : σ), Inv pre s → (∀ c ∈ rest, c < 256) →
    pre.length + rest.length < 2 ^ 64 →
    ∃ s' tx' r, iter rest pre.length s = Res.ok (s', tx', r) ∧ StepSpec step acc m Inv rest pre s s' tx' r := by
  intro rest
  induction rest with
  | nil =>
    intro pre s _ _ _
    exact ⟨s, ([], pre.length), none, hnil _ _, Or.inl ⟨rfl, rfl, by simp [Scan.scan]⟩⟩
  | cons c rest ih =>
    intro pre s hinv hb h64
    have hc : c < 256 := hb c (by simp)
    have hinv' := hstep pre s c hinv
    have hlen : (pre ++ [c]).length = pre.length + 1 := by simp
    have hco := hcons pre s c rest hinv hc (by simp at h64; omega)
    by_cases hacc : acc (step s c) = true
    · refine ⟨step s c, (rest, pre.length + 1), some (some (pre.length + 1 - m)), by rw [hco]; simp [hacc],
        Or.inr ⟨_, pre ++ [c], rfl, hinv', by simp, by simp; omega, by simp, List.suffix_cons c rest, ?_⟩⟩
      simp [Scan.scan, hacc]
    · obtain ⟨s', tx', r, hrun, hspec⟩ := ih (pre ++ [c]) _ hinv' (fun x hx => hb x (by simp [hx]))
        (by simp at h64 ⊢; omega)
      rw [hlen] at hrun
      refine ⟨s', tx', r, by rw [hco]; simp [hacc, hrun], ?_⟩
      rcases hspec with ⟨h1, h2, h3⟩ | ⟨v, pre', h1, h2, h3, h4, h5, hs, h6⟩
      · left
        rw [hlen] at h3
        exact ⟨h1, h2, by simp [Scan.scan, hacc, h3]⟩
      · right
        rw [hlen] at h6
        refine ⟨v, pre', h1, h2, h3, by simp at h4 ⊢; omega, by simp; omega, hs.trans (List.suffix_cons c rest), ?_⟩
        simp [Scan.scan, hacc, h6]

include hnext

/-- the translated `next` as a step function on the pair (automaton state, text iterator) -/
def nextS (st : σ × (List Nat × Nat)) : Res ((σ × (List Nat × Nat)) × Option Nat) := do
  let (s', tx', r) ← next st.1 st.2
  pure ((s', tx'), r)

omit hnil hcons hstep hnext in
theorem nextS_eq (s : σ) (tx : List Nat × Nat) (s' : σ) (tx' : List Nat × Nat) (r : Option Nat)
    (h : next s tx = Res.ok (s', tx', r)) : nextS next (s, tx) = Res.ok ((s', tx'), r) := by
  simp [nextS, h]

/-- calling the translated `next` until `None` lists what the scanner lists -/
theorem drain_eq_scan : ∀ (fuel : Nat) (rest pre : List Nat) (s : σ), Inv pre s → (∀ c ∈ rest, c < 256) →
    pre.length + rest.length < 2 ^ 64 → rest.length < fuel →
    Rs.drain (nextS next) fuel (s, (rest, pre.length)) = Res.ok (Scan.scan step acc m rest pre.length s) := by
  intro fuel
  induction fuel with
  | zero => intro rest pre s _ _ _ h; omega
  | succ fuel ih =>
    intro rest pre s hinv hb h64 hf
    obtain ⟨s', tx', r, hrun, hspec⟩ := iter_spec step acc m Inv iter hnil hcons hstep rest pre s hinv hb h64
    have hn := nextS_eq next _ _ _ _ _ (hnext s (rest, pre.length) s' tx' r hrun)
    rcases hspec with ⟨h1, _, h3⟩ | ⟨v, pre', h1, h2, h3, h4, h5, hs, h6⟩
    · subst h1
      rw [h3]
      exact Rs.drain_none _ _ _ _ hn
    · subst h1
      obtain ⟨rest', i'⟩ := tx'
      simp only at h3 h4 h5 h6 hs
      subst h3
      rw [h6]
      exact Rs.drain_some _ _ _ _ _ _ hn
        (ih rest' pre' s' h2 (fun c hc => hb c (hs.subset hc)) (by omega) (by omega))

end
end RbV.Thm.GenSrcScan
