import RbV.Model.IndexedFasta
import RbV.Lemmas.IndexedFasta
import RbV.Thm.GenSrcIdxFa
import RbV.Thm.GenSrcIdxFaIter
/-!
# C12 — indexed FASTA random access returns exactly the requested slice

The mirror model (`RbV/Model/IndexedFasta.lean`) follows `IndexedReader` line by line and is parameterised by the
**chunk schedule** `sched : Nat → Nat` (how many bytes each refill of the internal buffer obtains).  The theorems
below hold for *every* schedule with positive chunks, i.e. for every fragmentation of the underlying `read()`
results and every buffer capacity — this quantifier is covered by proof, not by sampling.

`WellFormed file idx seq` is the hypothesis of the property ("a FASTA file whose records have a uniform line length
and a matching .fai index"); `file.take n` is the file truncated to `n` bytes.
-/
namespace RbV.Thm.C12
open RbV.Fastx RbV.IdxFa

/-- positions of requested bases lie inside a file that is cut after the last requested base -/
private theorem positions_inside {file seq : Bytes} {idx : Idx} (wf : WellFormed file idx seq)
    {start stop n : Nat} (hstop : stop ≤ idx.len) (hin : start = stop ∨ pos idx (stop - 1) < n) :
    ∀ i, start ≤ i → i < stop → pos idx i < (file.take n).length := by
  intro i h1 h2
  have hlt : i < seq.length := by have := wf.len_eq; omega
  have hp : pos idx i < file.length := by
    have := wf.at_pos i hlt
    rcases Nat.lt_or_ge (pos idx i) file.length with h | h
    · exact h
    · rw [List.getElem?_eq_none h] at this; cases this
  have hm : pos idx i ≤ pos idx (stop - 1) := pos_mono idx wf.lb_pos (Nat.le_of_lt wf.lB_gt) (by omega)
  simp only [List.length_take]; omega

private theorem slice_cut {file seq : Bytes} {idx : Idx} (wf : WellFormed file idx seq)
    {a b n : Nat} (hab : a ≤ b) (hb : b ≤ idx.len) (hin : a = b ∨ pos idx (b - 1) < n) :
    slice (file.take n) idx a b = (seq.drop a).take (b - a) := by
  have hl := wf.len_eq
  apply slice_of_at _ _ _ _ _ hab (by omega)
  intro i h1 h2
  have hm : pos idx i ≤ pos idx (b - 1) := pos_mono idx wf.lb_pos (Nat.le_of_lt wf.lB_gt) (by omega)
  rw [List.getElem?_take, if_pos (by omega)]
  exact wf.at_pos i (by omega)

/-- **Reading into a buffer, possibly from a truncated file.**  If the file is cut anywhere *after* the last
requested base (in particular: not cut at all, `n ≥ file.length`), `read` yields exactly `seq[start..stop]`, for
every chunk schedule. -/
theorem read_cut_ok (file seq : Bytes) (idx : Idx) (start stop n : Nat) (sched : Nat → Nat)
    (wf : WellFormed file idx seq) (h1 : start ≤ stop) (h2 : stop ≤ idx.len) (hs : ∀ k, 0 < sched k)
    (hin : start = stop ∨ pos idx (stop - 1) < n) :
    readIntoBuffer (file.take n) sched idx start stop = .ok ((seq.drop start).take (stop - start)) := by
  unfold readIntoBuffer
  rw [if_neg (by omega), if_neg (by omega)]
  by_cases he : start = stop
  · subst he; simp [readLoop]
  · have spec := (readLoop_spec (file.take n) sched idx (stop - start) stop wf.lb_pos wf.lB_gt hs (by omega)
      _ _ _ start _ (seekTo_inv (file.take n) idx start wf.lb_pos wf.lB_gt) h1 (seekTo_fuel _ idx start)).1
      (positions_inside wf h2 hin)
    simp only [spec, slice_cut wf h1 h2 hin]

/-- **`read` on the intact file** (the property's main clause): exactly `seq[start..stop]`, whatever the
fragmentation. -/
theorem read_correct (file seq : Bytes) (idx : Idx) (start stop : Nat) (sched : Nat → Nat)
    (wf : WellFormed file idx seq) (h1 : start ≤ stop) (h2 : stop ≤ idx.len) (hs : ∀ k, 0 < sched k) :
    readIntoBuffer file sched idx start stop = .ok ((seq.drop start).take (stop - start)) := by
  have hl := wf.len_eq
  have := read_cut_ok file seq idx start stop file.length sched wf h1 h2 hs (by
    by_cases he : start = stop
    · exact Or.inl he
    · right
      have := wf.at_pos (stop - 1) (by omega)
      rcases Nat.lt_or_ge (pos idx (stop - 1)) file.length with h | h
      · exact h
      · rw [List.getElem?_eq_none h] at this; cases this)
  rwa [List.take_of_length_le (Nat.le_refl _)] at this

/-- **The byte iterator, possibly on a truncated file**: drained, it yields exactly `seq[start..stop]` and no error
item, for every chunk schedule. -/
theorem iter_cut_ok (file seq : Bytes) (idx : Idx) (start stop n : Nat) (sched : Nat → Nat)
    (wf : WellFormed file idx seq) (h1 : start ≤ stop) (h2 : stop ≤ idx.len) (hs : ∀ k, 0 < sched k)
    (hin : start = stop ∨ pos idx (stop - 1) < n) :
    readIter (file.take n) sched idx start stop = .ok ((seq.drop start).take (stop - start), none) := by
  unfold readIter
  rw [if_neg (by omega), if_neg (by omega)]
  by_cases he : start = stop
  · subst he; simp [readLoop]
  · have hlb := wf.lb_pos
    have spec := (readLoop_spec (file.take n) sched idx (min 512 (min (stop - start) idx.lb)) stop wf.lb_pos wf.lB_gt
      hs (by omega) _ _ _ start _ (seekTo_inv (file.take n) idx start wf.lb_pos wf.lB_gt) h1
      (seekTo_fuel _ idx start)).1 (positions_inside wf h2 hin)
    simp only [spec, slice_cut wf h1 h2 hin]

theorem iter_correct (file seq : Bytes) (idx : Idx) (start stop : Nat) (sched : Nat → Nat)
    (wf : WellFormed file idx seq) (h1 : start ≤ stop) (h2 : stop ≤ idx.len) (hs : ∀ k, 0 < sched k) :
    readIter file sched idx start stop = .ok ((seq.drop start).take (stop - start), none) := by
  have hl := wf.len_eq
  have := iter_cut_ok file seq idx start stop file.length sched wf h1 h2 hs (by
    by_cases he : start = stop
    · exact Or.inl he
    · right
      have := wf.at_pos (stop - 1) (by omega)
      rcases Nat.lt_or_ge (pos idx (stop - 1)) file.length with h | h
      · exact h
      · rw [List.getElem?_eq_none h] at this; cases this)
  rwa [List.take_of_length_le (Nat.le_refl _)] at this

/-- **Truncation inside the span**: a file cut at or before the last requested base makes `read` fail with the
end-of-file error — never short or shifted data — for every chunk schedule. -/
theorem read_truncated (file seq : Bytes) (idx : Idx) (start stop n : Nat) (sched : Nat → Nat)
    (wf : WellFormed file idx seq) (h1 : start < stop) (h2 : stop ≤ idx.len) (hs : ∀ k, 0 < sched k)
    (hcut : n ≤ pos idx (stop - 1)) :
    readIntoBuffer (file.take n) sched idx start stop = .error .eof := by
  unfold readIntoBuffer
  rw [if_neg (by omega), if_neg (by omega)]
  obtain ⟨m, _, _, _, hm⟩ := (readLoop_spec (file.take n) sched idx (stop - start) stop wf.lb_pos wf.lB_gt hs (by omega)
    _ _ _ start _ (seekTo_inv (file.take n) idx start wf.lb_pos wf.lB_gt) (Nat.le_of_lt h1)
    (seekTo_fuel _ idx start)).2 h1 (by simp only [List.length_take]; omega)
  simp only [hm]

/-- … and the iterator yields a *correct, strictly shorter prefix* of the slice and then the end-of-file error. -/
theorem iter_truncated (file seq : Bytes) (idx : Idx) (start stop n : Nat) (sched : Nat → Nat)
    (wf : WellFormed file idx seq) (h1 : start < stop) (h2 : stop ≤ idx.len) (hs : ∀ k, 0 < sched k)
    (hcut : n ≤ pos idx (stop - 1)) :
    ∃ m, m < stop - start ∧
      readIter (file.take n) sched idx start stop = .ok (((seq.drop start).take (stop - start)).take m, some .eof) := by
  unfold readIter
  rw [if_neg (by omega), if_neg (by omega)]
  have hlb := wf.lb_pos
  obtain ⟨m, hm1, hm2, hm3, hm⟩ := (readLoop_spec (file.take n) sched idx (min 512 (min (stop - start) idx.lb)) stop
    wf.lb_pos wf.lB_gt hs (by omega) _ _ _ start _ (seekTo_inv (file.take n) idx start wf.lb_pos wf.lB_gt)
    (Nat.le_of_lt h1) (seekTo_fuel _ idx start)).2 h1 (by simp only [List.length_take]; omega)
  refine ⟨m - start, by omega, ?_⟩
  simp only [hm]
  have hl := wf.len_eq
  have hsl : slice (file.take n) idx start m = (seq.drop start).take (m - start) := by
    apply slice_of_at _ _ _ _ _ hm1 (by omega)
    intro i hi1 hi2
    have := hm3 i hi1 hi2
    simp only [List.length_take] at this
    rw [List.getElem?_take, if_pos (by omega)]
    exact wf.at_pos i (by omega)
  rw [hsl, List.take_take]
  congr 3
  omega

/-! ## Error table -/

/-- reading before any fetch is an error -/
theorem read_nofetch (file : Bytes) (sched : Nat → Nat) :
    read file sched none = .error .nofetch ∧ readIt file sched none = .error .nofetch := ⟨rfl, rfl⟩

/-- `stop > len` is refused (by `read` and by `read_iter`), whatever the file and the schedule -/
theorem read_out_of_bounds (file : Bytes) (sched : Nat → Nat) (idx : Idx) (start stop : Nat) (h : idx.len < stop) :
    readIntoBuffer file sched idx start stop = .error .oob ∧ readIter file sched idx start stop = .error .oob := by
  simp [readIntoBuffer, readIter, h]

/-- `start > stop` is refused -/
theorem read_inverted (file : Bytes) (sched : Nat → Nat) (idx : Idx) (start stop : Nat)
    (h1 : stop ≤ idx.len) (h2 : stop < start) :
    readIntoBuffer file sched idx start stop = .error .interval ∧
    readIter file sched idx start stop = .error .interval := by
  have : ¬ stop > idx.len := by omega
  simp [readIntoBuffer, readIter, this, h2]

/-- an unknown record number is refused by every fetch variant that takes one -/
theorem fetch_unknown_rid (index : List (Bytes × Idx)) (rid start stop : Nat) (h : index.length ≤ rid) :
    fetchByRid index rid start stop = .error .rid ∧ fetchAllByRid index rid = .error .rid := by
  simp [fetchByRid, fetchAllByRid, idxByRid, List.getElem?_eq_none h, Except.map]

/-- an unknown name is refused by every fetch variant that takes one -/
theorem fetch_unknown_name (index : List (Bytes × Idx)) (name : Bytes) (start stop : Nat)
    (h : ∀ e ∈ index, e.1 ≠ name) :
    fetch index name start stop = .error .name ∧ fetchAll index name = .error .name := by
  have : ridOfName index name = none := by
    unfold ridOfName
    rw [Option.map_eq_none_iff, List.find?_eq_none]
    intro e he
    have : e.1 ∈ index := by
      have := List.mem_reverse.mp he
      exact (List.mem_zipIdx' this).2 ▸ List.getElem_mem _
    simpa using h e.1 this
  simp [fetch, fetchAll, idxByName, this, Except.map]

/-- a known record number selects that record's index entry, with the interval given / the whole record -/
theorem fetch_known_rid (index : List (Bytes × Idx)) (rid start stop : Nat) (h : rid < index.length) :
    fetchByRid index rid start stop = .ok ⟨index[rid].2, start, stop⟩ ∧
    fetchAllByRid index rid = .ok ⟨index[rid].2, 0, index[rid].2.len⟩ := by
  simp [fetchByRid, fetchAllByRid, idxByRid, List.getElem?_eq_getElem h, Except.map]

/-- the executable check the driver applies to every case (file, `.fai` entry, sequence obtained with the FASTA
parser model) establishes `WellFormed`, i.e. every case the driver accepts is in the domain of the theorems above -/
theorem wfCheck_sound (file : Bytes) (idx : Idx) (seq : Bytes) (h : wfCheck file idx seq = true) :
    WellFormed file idx seq := wfCheck_sound' file idx seq h

/-! ## The source text of `IndexedReader`, translated (`RbV/Gen/SrcIdxFa.lean`, regenerated on every `./check C12`)

`tools/rs2lean_cf.py` (sub-dialect "io") translates the text of `seek_to`, `read_line`, `read_into_buffer`,
`IndexedReaderIterator::{fill_buffer, next}`; the `BufReader` is the reader of the mirror model (`fillBufOp`, `consumeOp`,
`seekOp` of `Thm/GenSrcIdxFa.lean`: file + position + chunk schedule).  For these functions the tie code ↔ model is a
theorem about the text.  `fuel` bounds the translated `while` loops: any number above the file length. -/

open RbV.Thm.GenSrcIdxFa in
/-- `seek_to` computes `offset + (start / line_bases) * line_bytes + start % line_bases`, seeks there and returns the
column — exactly the model's `seekTo` — when `start ≤ len` and the offset fits `u64`; … -/
theorem seek_to_source_eq_model (file : Bytes) (idx : Idx) (start : Nat) (s : St)
    (hlb : 0 < idx.lb) (hst : start ≤ idx.len) (hfit : pos idx start < 2 ^ 64) :
    Gen.SrcIdxFa.seekTo (seekOp file) s (toRec idx) start =
      .ok (.ok (seekTo file idx start).2, (seekTo file idx start).1) :=
  seekTo_eq_model file idx start s hlb hst hfit

open RbV.Thm.GenSrcIdxFa in
/-- … and panics (`assert!`) on a start behind the end of the record -/
theorem seek_to_source_out_of_range_panics (file : Bytes) (idx : Idx) (start : Nat) (s : St) (hst : idx.len < start) :
    Gen.SrcIdxFa.seekTo (seekOp file) s (toRec idx) start = .panic :=
  seekTo_oob_panics file idx start s hst

open RbV.Thm.GenSrcIdxFa in
/-- **`read_line`, what its callers rely on** (the state in which a line end is left is *not* fixed): from a state with
the loop invariant, (1) at the end of the stream the truncation error; (2) otherwise `Ok(n)`: `tr > 0` buffered bytes
consumed, the first `n ≤ bases_left` of them appended to the output, and these are the bases between the old and the new
column (`StepOk`). -/
theorem read_line_source_contract (f : Bytes) (sched : Nat → Nat) (idx : Idx) (s : St) (lo cur line bl : Nat) (buf : Bytes)
    (hlb : 0 < idx.lb) (hlB : idx.lb < idx.lB) (hs : ∀ k, 0 < sched k) (h64 : idx.lB < 2 ^ 64)
    (inv : Inv f idx s lo cur line) (hbl : 0 < bl) :
    (s.rest = [] → EofPost (Gen.SrcIdxFa.readLine (fillBufOp sched) consumeOp s (toRec idx) lo bl buf)) ∧
    (s.rest ≠ [] → StepPost sched idx s lo bl buf
      (Gen.SrcIdxFa.readLine (fillBufOp sched) consumeOp s (toRec idx) lo bl buf)) :=
  ⟨fun h => readLine_eof sched idx s lo bl buf h inv.avail_le,
   fun h => readLine_step f sched idx s lo cur line bl buf hlb hlB hs h64 inv hbl h⟩

open RbV.Thm.GenSrcIdxFa in
/-- **`read_into_buffer`: translated code = mirror model** on the returned bytes / error (`Agrees`), for every file and
`.fai` entry with `0 < line_bases < line_bytes`, every chunk schedule, every earlier state of reader and buffer. -/
theorem read_into_buffer_source_eq_model (file : Bytes) (sched : Nat → Nat) (idx : Idx) (start stop : Nat) (s0 : St)
    (seq0 : Bytes) (fuel : Nat) (hlb : 0 < idx.lb) (hlB : idx.lb < idx.lB) (hs : ∀ k, 0 < sched k)
    (h64 : idx.lB < 2 ^ 64) (hfit : pos idx start < 2 ^ 64) (hfuel : file.length < fuel) :
    ∃ out, Gen.SrcIdxFa.readIntoBuffer (fillBufOp sched) consumeOp (seekOp file) s0 (toRec idx) start stop seq0 fuel
        = .ok out ∧ Agrees (readIntoBuffer file sched idx start stop) out :=
  readIntoBuffer_eq_model file sched idx start stop s0 seq0 fuel hlb hlB hs h64 hfit hfuel

open RbV.Thm.GenSrcIdxFa in
/-- **The translated `read_into_buffer` returns exactly `seq[start..stop]`** for every well-formed file and every chunk
schedule, whatever the reader position and the buffer content were before (no mirror model in the statement). -/
theorem read_source_correct (file seq : Bytes) (idx : Idx) (start stop : Nat) (sched : Nat → Nat) (s0 : St) (seq0 : Bytes)
    (fuel : Nat) (wf : WellFormed file idx seq) (h1 : start ≤ stop) (h2 : stop ≤ idx.len) (hs : ∀ k, 0 < sched k)
    (h64 : idx.lB < 2 ^ 64) (hfit : pos idx start < 2 ^ 64) (hfuel : file.length < fuel) :
    ∃ s', Gen.SrcIdxFa.readIntoBuffer (fillBufOp sched) consumeOp (seekOp file) s0 (toRec idx) start stop seq0 fuel
        = .ok (.ok (), s', (seq.drop start).take (stop - start)) := by
  obtain ⟨⟨r, s', out⟩, h, ha⟩ :=
    readIntoBuffer_eq_model file sched idx start stop s0 seq0 fuel wf.lb_pos wf.lB_gt hs h64 hfit hfuel
  rw [read_correct file seq idx start stop sched wf h1 h2 hs] at ha
  obtain ⟨hr, ho⟩ := ha
  exact ⟨s', by rw [h, hr, ho]⟩

open RbV.Thm.GenSrcIdxFa in
/-- **Truncation inside the span**: the translated `read_into_buffer` returns the "FASTA file is truncated." error
(`io::ErrorKind::UnexpectedEof`) — never `Ok` with short or shifted data. -/
theorem read_source_truncated (file seq : Bytes) (idx : Idx) (start stop n : Nat) (sched : Nat → Nat) (s0 : St)
    (seq0 : Bytes) (fuel : Nat) (wf : WellFormed file idx seq) (h1 : start < stop) (h2 : stop ≤ idx.len)
    (hs : ∀ k, 0 < sched k) (hcut : n ≤ pos idx (stop - 1))
    (h64 : idx.lB < 2 ^ 64) (hfit : pos idx start < 2 ^ 64) (hfuel : (file.take n).length < fuel) :
    ∃ s' seq', Gen.SrcIdxFa.readIntoBuffer (fillBufOp sched) consumeOp (seekOp (file.take n)) s0 (toRec idx) start stop
        seq0 fuel = .ok (.error eofErr, s', seq') := by
  obtain ⟨⟨r, s', out⟩, h, ha⟩ :=
    readIntoBuffer_eq_model (file.take n) sched idx start stop s0 seq0 fuel wf.lb_pos wf.lB_gt hs h64 hfit hfuel
  rw [read_truncated file seq idx start stop n sched wf h1 h2 hs hcut] at ha
  exact ⟨s', out, by rw [h]; exact congrArg (fun x => Rs.Res.ok (x, s', out)) ha⟩

open RbV.Thm.GenSrcIdxFa in
/-- **`fill_buffer`** (one refill of the iterator's private buffer, from a state with the loop invariant, `bases_left > 0`):
the next chunk of at least one and at most `bases_left` bases when the next base lies inside the file, an error otherwise;
for every positive chunk size asked for (`capacity()` or a constant: seeded change C12-H1). -/
theorem fill_buffer_source_spec (f : Bytes) (sched : Nat → Nat) (idx : Idx) (cap bi bl cur : Nat) (buf : Bytes)
    (hlb : 0 < idx.lb) (hlB : idx.lb < idx.lB) (hs : ∀ k, 0 < sched k) (h64 : idx.lB < 2 ^ 64)
    (hcap : 0 < cap) (hbl : 0 < bl) (fuel : Nat) (s : St) (lo line : Nat)
    (inv : Inv f idx s lo cur line) (hfuel : s.rest.length + 1 < fuel) :
    (pos idx cur < f.length →
      ∃ s' lo' n line', 0 < n ∧ n ≤ bl ∧
        Gen.SrcIdxFa.fillBuffer (fillBufOp sched) consumeOp cap s (toRec idx) bl lo buf bi fuel =
          .ok (.ok (), s', bl - n, lo', slice f idx cur (cur + n), 0) ∧
        Inv f idx s' lo' (cur + n) line' ∧ s'.rest.length ≤ s.rest.length ∧
        (∀ j, j < n → pos idx (cur + j) < f.length)) ∧
    (f.length ≤ pos idx cur →
      ∃ s' bl' lo' buf' bi', Gen.SrcIdxFa.fillBuffer (fillBufOp sched) consumeOp cap s (toRec idx) bl lo buf bi fuel =
          .ok (.error eofErr, s', bl', lo', buf', bi')) :=
  fillBuffer_spec f sched idx cap bi bl cur buf hlb hlB hs h64 hcap hbl fuel s lo line inv hfuel

open RbV.Thm.GenSrcIdxFa in
/-- **The byte iterator: translated code = mirror model.**  `drainIt` calls the translated `next` (which calls the
translated `fill_buffer`, which calls the translated `read_line`) until it returns `None`; from the state the translated
`seek_to` leaves (first conjunct), the items are exactly those of the model's `readIter`: the bytes, then the error that
ended it, if any.  (`read_into_iter` itself — two comparisons and a struct literal — is read by hand: it yields the state
`(reader after seek_to, bases_left = stop - start, line_offset, buf = [], buf_idx = 0)`.) -/
theorem iter_source_eq_model (file : Bytes) (sched : Nat → Nat) (idx : Idx) (cap start stop fuel calls : Nat) (s0 : St)
    (hlb : 0 < idx.lb) (hlB : idx.lb < idx.lB) (hs : ∀ k, 0 < sched k) (h64 : idx.lB < 2 ^ 64)
    (hcap : 0 < cap) (h1 : start ≤ stop) (h2 : stop ≤ idx.len) (hstop : stop < 2 ^ 64) (hfit : pos idx start < 2 ^ 64)
    (hfuel : file.length + 1 < fuel) (hcalls : stop - start + 2 ≤ calls) :
    Gen.SrcIdxFa.seekTo (seekOp file) s0 (toRec idx) start =
      .ok (.ok (seekTo file idx start).2, (seekTo file idx start).1) ∧
    ∃ r, readIter file sched idx start stop = .ok r ∧
      drainIt sched cap idx fuel calls ((seekTo file idx start).1, stop - start, (seekTo file idx start).2, [], 0) =
        .ok (itemsOf r) := by
  refine ⟨seekTo_eq_model file idx start s0 hlb (by omega) hfit, _, ?_,
    iter_eq_model file sched idx cap start stop fuel calls hlb hlB hs h64 hcap hstop h1 hfuel hcalls⟩
  unfold readIter
  rw [if_neg (by omega), if_neg (by omega)]

open RbV.Thm.GenSrcIdxFa in
/-- **The drained translated iterator yields exactly `seq[start..stop]`** and no error item, for every well-formed file,
every chunk schedule, every positive buffer capacity. -/
theorem iter_source_correct (file seq : Bytes) (idx : Idx) (cap start stop fuel calls : Nat) (sched : Nat → Nat)
    (wf : WellFormed file idx seq) (h1 : start ≤ stop) (h2 : stop ≤ idx.len) (hs : ∀ k, 0 < sched k)
    (h64 : idx.lB < 2 ^ 64) (hcap : 0 < cap) (hstop : stop < 2 ^ 64)
    (hfuel : file.length + 1 < fuel) (hcalls : stop - start + 2 ≤ calls) :
    drainIt sched cap idx fuel calls ((seekTo file idx start).1, stop - start, (seekTo file idx start).2, [], 0) =
      .ok (okItems ((seq.drop start).take (stop - start))) := by
  have hm := iter_correct file seq idx start stop sched wf h1 h2 hs
  unfold readIter at hm
  rw [if_neg (by omega), if_neg (by omega)] at hm
  rw [iter_eq_model file sched idx cap start stop fuel calls wf.lb_pos wf.lB_gt hs h64 hcap hstop h1 hfuel hcalls,
    Except.ok.inj hm]
  simp [itemsOf]

open RbV.Thm.GenSrcIdxFa in
/-- … and on a file cut inside the span: a correct strictly shorter prefix, then the truncation error as the last item. -/
theorem iter_source_truncated (file seq : Bytes) (idx : Idx) (cap start stop n fuel calls : Nat) (sched : Nat → Nat)
    (wf : WellFormed file idx seq) (h1 : start < stop) (h2 : stop ≤ idx.len) (hs : ∀ k, 0 < sched k)
    (hcut : n ≤ pos idx (stop - 1)) (h64 : idx.lB < 2 ^ 64) (hcap : 0 < cap) (hstop : stop < 2 ^ 64)
    (hfuel : (file.take n).length + 1 < fuel) (hcalls : stop - start + 2 ≤ calls) :
    ∃ m, m < stop - start ∧
      drainIt sched cap idx fuel calls
          ((seekTo (file.take n) idx start).1, stop - start, (seekTo (file.take n) idx start).2, [], 0) =
        .ok (okItems (((seq.drop start).take (stop - start)).take m) ++ [.error eofErr]) := by
  obtain ⟨m, hm1, hm⟩ := iter_truncated file seq idx start stop n sched wf h1 h2 hs hcut
  unfold readIter at hm
  rw [if_neg (by omega), if_neg (by omega)] at hm
  refine ⟨m, hm1, ?_⟩
  rw [iter_eq_model (file.take n) sched idx cap start stop fuel calls wf.lb_pos wf.lB_gt hs h64 hcap hstop
    (Nat.le_of_lt h1) hfuel hcalls, Except.ok.inj hm]
  simp [itemsOf, toIo]

open RbV.Thm.GenSrcIdxFa in
/-- `fetch_by_rid` / `fetch_all_by_rid` (and `idx_by_rid` below them): translated code = mirror model — an unknown record
number is an error that leaves the fetch state alone, a known one stores the `.fai` entry and the interval -/
theorem fetch_by_rid_source_eq_model (index : List (Bytes × Idx)) (fi : Option Gen.SrcIdxFa.IndexRecord) (a b : Option Nat)
    (rid start stop : Nat) :
    Gen.SrcIdxFa.fetchByRid (toRecs index) fi a b rid start stop =
      .ok (match fetchByRid index rid start stop with
        | .ok r => (.ok (), fetchState r)
        | .error e => (.error (toIo e), fi, a, b)) ∧
    Gen.SrcIdxFa.fetchAllByRid (toRecs index) fi a b rid =
      .ok (match fetchAllByRid index rid with
        | .ok r => (.ok (), fetchState r)
        | .error e => (.error (toIo e), fi, a, b)) :=
  ⟨fetchByRid_eq_model index fi a b rid start stop, fetchAllByRid_eq_model index fi a b rid⟩

open RbV.Thm.GenSrcIdxFa in
/-- `read`: `read_into_buffer` on what was fetched; the "No sequence fetched" error before any fetch -/
theorem read_source_dispatch {ρ : Type} (fb : ρ → Except Rs.IoErr (List Nat) × ρ) (co : ρ → Nat → ρ)
    (sk : ρ → Nat → Except Rs.IoErr Nat × ρ) (s : ρ) (r : Gen.SrcIdxFa.IndexRecord) (start stop : Nat) (seq : List Nat)
    (fuel : Nat) :
    Gen.SrcIdxFa.read fb co sk s (some r) (some start) (some stop) seq fuel =
      Gen.SrcIdxFa.readIntoBuffer fb co sk s r start stop seq fuel ∧
    Gen.SrcIdxFa.read fb co sk s none none none seq fuel = .ok (.error (toIo .nofetch), s, seq) :=
  ⟨read_eq fb co sk s r start stop seq fuel, RbV.Thm.GenSrcIdxFa.read_nofetch fb co sk s seq fuel⟩

open RbV.Thm.GenSrcIdxFa in
/-- **Translated `fetch_by_rid` followed by translated `read` returns exactly `seq[start..stop]`** of record `rid`, for
every well-formed file, every chunk schedule, whatever was fetched or read before. -/
theorem fetch_read_source_correct (index : List (Bytes × Idx)) (file seq : Bytes) (rid start stop : Nat)
    (sched : Nat → Nat) (s0 : St) (seq0 : Bytes) (fuel : Nat) (fi0 : Option Gen.SrcIdxFa.IndexRecord) (a0 b0 : Option Nat)
    (hr : rid < index.length) (wf : WellFormed file index[rid].2 seq) (h1 : start ≤ stop) (h2 : stop ≤ index[rid].2.len)
    (hs : ∀ k, 0 < sched k) (h64 : index[rid].2.lB < 2 ^ 64) (hfit : pos index[rid].2 start < 2 ^ 64)
    (hfuel : file.length < fuel) :
    ∃ fi a b s', Gen.SrcIdxFa.fetchByRid (toRecs index) fi0 a0 b0 rid start stop = .ok (.ok (), fi, a, b) ∧
      Gen.SrcIdxFa.read (fillBufOp sched) consumeOp (seekOp file) s0 fi a b seq0 fuel =
        .ok (.ok (), s', (seq.drop start).take (stop - start)) := by
  obtain ⟨s', h⟩ := read_source_correct file seq index[rid].2 start stop sched s0 seq0 fuel wf h1 h2 hs h64 hfit hfuel
  refine ⟨some (toRec index[rid].2), some start, some stop, s', ?_, ?_⟩
  · rw [fetchByRid_eq_model, (fetch_known_rid index rid start stop hr).1]; rfl
  · rw [read_eq]; exact h

open RbV.Thm.GenSrcIdxFa in
/-- **Translated `fetch_all_by_rid` followed by translated `read` returns the whole sequence** of record `rid` — the
interval it stores is `[0, idx.len)` taken from the `.fai` entry, and that is exactly the record's sequence; for every
well-formed file, every chunk schedule, whatever was fetched or read before (session 5). -/
theorem fetch_all_read_source_correct (index : List (Bytes × Idx)) (file seq : Bytes) (rid : Nat)
    (sched : Nat → Nat) (s0 : St) (seq0 : Bytes) (fuel : Nat) (fi0 : Option Gen.SrcIdxFa.IndexRecord) (a0 b0 : Option Nat)
    (hr : rid < index.length) (wf : WellFormed file index[rid].2 seq)
    (hs : ∀ k, 0 < sched k) (h64 : index[rid].2.lB < 2 ^ 64) (hfit : pos index[rid].2 0 < 2 ^ 64)
    (hfuel : file.length < fuel) :
    ∃ fi a b s', Gen.SrcIdxFa.fetchAllByRid (toRecs index) fi0 a0 b0 rid = .ok (.ok (), fi, a, b) ∧
      Gen.SrcIdxFa.read (fillBufOp sched) consumeOp (seekOp file) s0 fi a b seq0 fuel = .ok (.ok (), s', seq) := by
  obtain ⟨s', h⟩ := read_source_correct file seq index[rid].2 0 index[rid].2.len sched s0 seq0 fuel wf
    (Nat.zero_le _) (Nat.le_refl _) hs h64 hfit hfuel
  refine ⟨some (toRec index[rid].2), some 0, some index[rid].2.len, s', ?_, ?_⟩
  · rw [fetchAllByRid_eq_model, (fetch_known_rid index rid 0 0 hr).2]; rfl
  · rw [read_eq, h, wf.len_eq]; simp

open RbV.Thm.GenSrcIdxFa in
/-- **Translated `fetch_by_rid` followed by translated `read` on a file cut inside the requested span** is the
"FASTA file is truncated." error — the fetch itself succeeds (it only consults the `.fai` entry), the read never
returns `Ok` with short or shifted data; whatever was fetched or read before (session 5). -/
theorem fetch_read_source_truncated (index : List (Bytes × Idx)) (file seq : Bytes) (rid start stop n : Nat)
    (sched : Nat → Nat) (s0 : St) (seq0 : Bytes) (fuel : Nat) (fi0 : Option Gen.SrcIdxFa.IndexRecord) (a0 b0 : Option Nat)
    (hr : rid < index.length) (wf : WellFormed file index[rid].2 seq) (h1 : start < stop) (h2 : stop ≤ index[rid].2.len)
    (hs : ∀ k, 0 < sched k) (hcut : n ≤ pos index[rid].2 (stop - 1)) (h64 : index[rid].2.lB < 2 ^ 64)
    (hfit : pos index[rid].2 start < 2 ^ 64) (hfuel : (file.take n).length < fuel) :
    ∃ fi a b s' seq', Gen.SrcIdxFa.fetchByRid (toRecs index) fi0 a0 b0 rid start stop = .ok (.ok (), fi, a, b) ∧
      Gen.SrcIdxFa.read (fillBufOp sched) consumeOp (seekOp (file.take n)) s0 fi a b seq0 fuel =
        .ok (.error eofErr, s', seq') := by
  obtain ⟨s', seq', h⟩ :=
    read_source_truncated file seq index[rid].2 start stop n sched s0 seq0 fuel wf h1 h2 hs hcut h64 hfit hfuel
  refine ⟨some (toRec index[rid].2), some start, some stop, s', seq', ?_, ?_⟩
  · rw [fetchByRid_eq_model, (fetch_known_rid index rid start stop hr).1]; rfl
  · rw [read_eq]; exact h

/-! ## `read_into_iter` / `read_iter` translated from the source text (session 6, genleft)

`RbV/Gen/SrcIdxFaIter.lean`; proofs `RbV/Thm/GenSrcIdxFaIter.lean`.  The iterator struct carries the ghost field `buf_cap` =
the argument of `Vec::with_capacity(..)` (std: `capacity() >= n`). -/

open RbV.Thm.GenSrcIdxFa RbV.Thm.GenSrcIdxFaIter in
/-- **`read_into_iter`, as written, asks for a positive buffer capacity** whenever there is something to read
(`min(MAX_FASTA_BUFFER_SIZE, min(bases_left, line_bases)) > 0` for `start < stop`, `line_bases > 0`), and starts the
iterator in the state genio's theorems assumed: reader after the translated `seek_to`, `bases_left = stop - start`, empty
buffer, `buf_idx = 0`.  Out-of-range and inverted intervals are the two errors. -/
theorem read_into_iter_source_capacity_pos (file : Bytes) (idx : Idx) (start stop : Nat) (s : St)
    (hlb : 0 < idx.lb) (hfit : pos idx start < 2 ^ 64) :
    (idx.len < stop → ∃ e, Gen.SrcIdxFaIter.readIntoIter (seekOp file) s (toRec idx) start stop = .ok (.error e) ∧
        (e = oobErr ∨ (stop < start ∧ e = intervalErr))) ∧
    (stop ≤ idx.len → stop < start →
      Gen.SrcIdxFaIter.readIntoIter (seekOp file) s (toRec idx) start stop = .ok (.error intervalErr)) ∧
    (stop ≤ idx.len → start ≤ stop →
      ∃ it, Gen.SrcIdxFaIter.readIntoIter (seekOp file) s (toRec idx) start stop = .ok (.ok it) ∧
        it.reader = (seekTo file idx start).1 ∧ it.record = toRec idx ∧ it.bases_left = stop - start ∧
        it.line_offset = (seekTo file idx start).2 ∧ it.buf = [] ∧ it.buf_idx = 0 ∧ (start < stop → 0 < it.buf_cap)) := by
  obtain ⟨h1, h2, h3⟩ := readIntoIter_spec file idx start stop s hlb hfit
  refine ⟨h1, h2, fun a b => ?_⟩
  obtain ⟨it, hit, hok⟩ := h3 a b
  exact ⟨it, hit, hok.reader, hok.record, hok.bases, hok.lo, hok.buf, hok.bidx, hok.cap⟩

open RbV.Thm.GenSrcIdxFa RbV.Thm.GenSrcIdxFaIter in
/-- `read_iter`: `read_into_iter` on what was fetched; the "No sequence fetched" error before any fetch -/
theorem read_iter_source_dispatch {ρ : Type} (sk : ρ → Nat → Except Rs.IoErr Nat × ρ) (s : ρ)
    (r : Gen.SrcIdxFa.IndexRecord) (start stop : Nat) :
    Gen.SrcIdxFaIter.readIter sk s (some r) (some start) (some stop) = Gen.SrcIdxFaIter.readIntoIter sk s r start stop ∧
    Gen.SrcIdxFaIter.readIter sk s none none none = .ok (.error (toIo .nofetch)) :=
  ⟨readIter_eq sk s r start stop, readIter_nofetch sk s⟩

open RbV.Thm.GenSrcIdxFa RbV.Thm.GenSrcIdxFaIter in
/-- **From the translated constructor**: `read_into_iter(idx, start, stop)` as written, then the translated `next` drained
with the capacity that constructor asked for, yields exactly `seq[start..stop]` and no error item — for every well-formed
file, every chunk schedule, every interval `start ≤ stop ≤ len` (the empty one included: capacity 0, the iterator ends at
once).  No capacity hypothesis is left. -/
theorem read_iter_source_correct (file seq : Bytes) (idx : Idx) (start stop fuel calls : Nat) (sched : Nat → Nat) (s0 : St)
    (wf : WellFormed file idx seq) (h1 : start ≤ stop) (h2 : stop ≤ idx.len) (hs : ∀ k, 0 < sched k)
    (h64 : idx.lB < 2 ^ 64) (hstop : stop < 2 ^ 64) (hfit : pos idx start < 2 ^ 64)
    (hfuel : file.length + 1 < fuel) (hcalls : stop - start + 2 ≤ calls) :
    ∃ it, Gen.SrcIdxFaIter.readIntoIter (seekOp file) s0 (toRec idx) start stop = .ok (.ok it) ∧
      drainIt sched it.buf_cap idx fuel calls (it.reader, it.bases_left, it.line_offset, it.buf, it.buf_idx) =
        .ok (okItems ((seq.drop start).take (stop - start))) := by
  obtain ⟨it, hit, hok⟩ := (readIntoIter_spec file idx start stop s0 wf.lb_pos hfit).2.2 h2 h1
  refine ⟨it, hit, ?_⟩
  rw [hok.reader, hok.bases, hok.lo, hok.buf, hok.bidx]
  by_cases hlt : start < stop
  · exact iter_source_correct file seq idx it.buf_cap start stop fuel calls sched wf h1 h2 hs h64 (hok.cap hlt)
      hstop hfuel hcalls
  · have he : stop - start = 0 := by omega
    rw [he, drainIt_empty sched _ idx fuel calls (by omega)]
    simp [okItems]

/-! ## Non-vacuity: a concrete two-line record, LF and CRLF -/

private def exFile : Bytes := [62, 97, 10, 65, 67, 71, 10, 84, 10]        -- ">a\nACG\nT\n"
private def exIdx : Idx := { len := 4, off := 3, lb := 3, lB := 4 }
private def exSeq : Bytes := [65, 67, 71, 84]

private theorem exWf : WellFormed exFile exIdx exSeq :=
  ⟨rfl, by decide, by decide, by
    intro i h
    have : i < 4 := h
    match i, this with
    | 0, _ => rfl
    | 1, _ => rfl
    | 2, _ => rfl
    | 3, _ => rfl⟩

/-- one byte per refill: the request 1..4 crosses the line terminator -/
example : readIntoBuffer exFile (fun _ => 1) exIdx 1 4 = .ok [67, 71, 84] :=
  read_correct exFile exSeq exIdx 1 4 (fun _ => 1) exWf (by decide) (by decide) (fun _ => by decide)

example : readIter exFile (fun k => k + 1) exIdx 0 4 = .ok ([65, 67, 71, 84], none) :=
  iter_correct exFile exSeq exIdx 0 4 (fun k => k + 1) exWf (by decide) (by decide) (fun _ => by omega)

/-- cut in front of the last base (offset 7): an error, not `ACG` -/
example : readIntoBuffer (exFile.take 7) (fun _ => 2) exIdx 0 4 = .error .eof :=
  read_truncated exFile exSeq exIdx 0 4 7 (fun _ => 2) exWf (by decide) (by decide) (fun _ => by decide) (by decide)

open RbV.Thm.GenSrcIdxFa in
/-- the translated code, one byte per refill, a dirty buffer and a reader left somewhere else: `CGT` -/
example : ∃ s', Gen.SrcIdxFa.readIntoBuffer (fillBufOp (fun _ => 1)) consumeOp (seekOp exFile) ⟨[1, 2], 1, 5⟩ (toRec exIdx)
    1 4 [7, 7] 10 = .ok (.ok (), s', [67, 71, 84]) :=
  read_source_correct exFile exSeq exIdx 1 4 (fun _ => 1) _ _ 10 exWf (by decide) (by decide) (fun _ => by decide)
    (by decide) (by decide) (by decide)

open RbV.Thm.GenSrcIdxFa in
example : ∃ s' seq', Gen.SrcIdxFa.readIntoBuffer (fillBufOp (fun _ => 2)) consumeOp (seekOp (exFile.take 7)) ⟨[], 0, 0⟩
    (toRec exIdx) 0 4 [] 10 = .ok (.error eofErr, s', seq') :=
  read_source_truncated exFile exSeq exIdx 0 4 7 (fun _ => 2) _ _ 10 exWf (by decide) (by decide) (fun _ => by decide)
    (by decide) (by decide) (by decide) (by decide)

open RbV.Thm.GenSrcIdxFa in
example : Gen.SrcIdxFa.seekTo (seekOp exFile) ⟨[], 0, 0⟩ (toRec exIdx) 3 = .ok (.ok 0, ⟨[84, 10], 0, 0⟩) :=
  seek_to_source_eq_model exFile exIdx 3 _ (by decide) (by decide) (by decide)

open RbV.Thm.GenSrcIdxFa in
/-- the translated iterator, refills of 1, 2, 3, … bytes, a buffer capacity of 2: `A C G T`, then `None` -/
example : drainIt (fun k => k + 1) 2 exIdx 20 10 ((seekTo exFile exIdx 0).1, 4 - 0, (seekTo exFile exIdx 0).2, [], 0) =
    .ok [.ok 65, .ok 67, .ok 71, .ok 84] :=
  iter_source_correct exFile exSeq exIdx 2 0 4 20 10 (fun k => k + 1) exWf (by decide) (by decide) (fun _ => by omega)
    (by decide) (by decide) (by decide) (by decide) (by decide)

open RbV.Thm.GenSrcIdxFa in
example : ∃ fi a b s', Gen.SrcIdxFa.fetchByRid (toRecs [([97], exIdx)]) none none none 0 1 4 = .ok (.ok (), fi, a, b) ∧
    Gen.SrcIdxFa.read (fillBufOp (fun _ => 3)) consumeOp (seekOp exFile) ⟨[], 0, 0⟩ fi a b [] 10 =
      .ok (.ok (), s', [67, 71, 84]) :=
  fetch_read_source_correct [([97], exIdx)] exFile exSeq 0 1 4 (fun _ => 3) _ _ 10 none none none (by decide) exWf
    (by decide) (by decide) (fun _ => by decide) (by decide) (by decide) (by decide)

open RbV.Thm.GenSrcIdxFa RbV.Thm.GenSrcIdxFaIter in
/-- from the translated `read_into_iter` (dirty reader, interval 1..4): the iterator it builds, drained, gives `C G T` -/
example : ∃ it, Gen.SrcIdxFaIter.readIntoIter (seekOp exFile) ⟨[1, 2], 1, 5⟩ (toRec exIdx) 1 4 = .ok (.ok it) ∧
    drainIt (fun k => k + 1) it.buf_cap exIdx 20 10 (it.reader, it.bases_left, it.line_offset, it.buf, it.buf_idx) =
      .ok [.ok 67, .ok 71, .ok 84] :=
  read_iter_source_correct exFile exSeq exIdx 1 4 20 10 (fun k => k + 1) _ exWf (by decide) (by decide) (fun _ => by omega)
    (by decide) (by decide) (by decide) (by decide) (by decide)

open RbV.Thm.GenSrcIdxFa in
-- the requested capacity, evaluated: min(MAX_FASTA_BUFFER_SIZE, min(3, 3)) = 3; an inverted interval is refused
example : (match Gen.SrcIdxFaIter.readIntoIter (seekOp exFile) ⟨[], 0, 0⟩ (toRec exIdx) 1 4 with
    | .ok (.ok it) => it.buf_cap | _ => 0) = 3 := by decide
open RbV.Thm.GenSrcIdxFa in
example : (match Gen.SrcIdxFaIter.readIter (seekOp exFile) ⟨[], 0, 0⟩ (some (toRec exIdx)) (some 3) (some 2) with
    | .ok (.error e) => e == intervalErr | _ => false) = true := by decide

end RbV.Thm.C12
