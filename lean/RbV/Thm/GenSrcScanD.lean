import RbV.Basic.RsSem
/-!
Shared by the equality proofs of the approximate matchers (`ukkonen::Matches::next`, `myers::Matches::next`; genukk): a
translated

    for (i, c) in self.text.by_ref() { <one column step>; if <hit> { return Some((i, d)) } }  None

driven by `Rs.drain` until `None`, lists what the generic column scanner `runO stepO` lists.  The matcher-specific part
of a proof is one unfolding of the generated loop helper under the invariant of the model (`hnil`, `hcons`), the shape of
`next` (`hnext`) and the preservation of the invariant (`hstep`).  `R i s` is the source-level state that represents the
model state `s` before text position `i` (Ukkonen: which of the two buffers is the current column depends on the parity
of `i`).
-/
namespace RbV.Thm.GenSrcScanD
open RbV RbV.Rs

/-- the generic scanner: one model step per text symbol, a pair (position, value) whenever the step reports a value -/
def runO {σ δ : Type} (stepO : σ → Nat → σ × Option δ) : σ → Nat → List Nat → List (Nat × δ)
  | _, _, [] => []
  | s, i, c :: t =>
    match (stepO s c).2 with
    | some d => (i, d) :: runO stepO (stepO s c).1 (i + 1) t
    | none => runO stepO (stepO s c).1 (i + 1) t

/-- case distinction on what a model step reports (a plain function, so that statements about it in different files
are syntactically the same term) -/
def branch {δ β : Type} (o : Option δ) (hit : δ → β) (miss : β) : β :=
  match o with
  | some d => hit d
  | none => miss

@[simp] theorem branch_some {δ β : Type} (d : δ) (hit : δ → β) (miss : β) : branch (some d) hit miss = hit d := rfl
@[simp] theorem branch_none {δ β : Type} (hit : δ → β) (miss : β) : branch (none : Option δ) hit miss = miss := rfl

section
variable {σ ρ δ : Type} (stepO : σ → Nat → σ × Option δ) (Inv : σ → Prop) (Sym : Nat → Prop) (R : Nat → σ → ρ)
variable (iter : List Nat → Nat → ρ → Res (ρ × (List Nat × Nat) × Option (Option (Nat × δ))))
variable (next : ρ → (List Nat × Nat) → Res (ρ × (List Nat × Nat) × Option (Nat × δ)))
variable (hnil : ∀ i r, iter [] i r = Res.ok (r, ([], i), none))
variable (hcons : ∀ i s c rest, Inv s → Sym c → i + 1 + rest.length < 2 ^ 64 →
  iter (c :: rest) i (R i s) =
    branch (stepO s c).2 (fun d => Res.ok (R (i + 1) (stepO s c).1, (rest, i + 1), some (some (i, d))))
      (iter rest (i + 1) (R (i + 1) (stepO s c).1)))
variable (hnext : ∀ r tx r' tx' o, iter tx.1 tx.2 r = Res.ok (r', tx', o) → next r tx = Res.ok (r', tx', o.join))
variable (hstep : ∀ s c, Inv s → Sym c → Inv (stepO s c).1)
include hnil hcons hstep

/-- outcome of one run of the loop -/
def StepSpec (rest : List Nat) (i : Nat) (s : σ) (r' : ρ) (tx' : List Nat × Nat) (o : Option (Option (Nat × δ))) : Prop :=
  (o = none ∧ tx'.1 = [] ∧ runO stepO s i rest = []) ∨
  (∃ v s', o = some (some v) ∧ Inv s' ∧ r' = R tx'.2 s' ∧ tx'.2 + tx'.1.length = i + rest.length ∧
      tx'.1.length < rest.length ∧ tx'.1 <:+ rest ∧ runO stepO s i rest = v :: runO stepO s' tx'.2 tx'.1)

theorem iter_spec : ∀ (rest : List Nat) (i : Nat) (s : σ), Inv s → (∀ c ∈ rest, Sym c) → i + rest.length < 2 ^ 64 →
    ∃ r' tx' o, iter rest i (R i s) = Res.ok (r', tx', o) ∧ StepSpec stepO Inv R rest i s r' tx' o := by
  intro rest
  induction rest with
  | nil =>
    intro i s _ _ _
    exact ⟨R i s, ([], i), none, hnil _ _, Or.inl ⟨rfl, rfl, by simp [runO]⟩⟩
  | cons c rest ih =>
    intro i s hinv hb h64
    have hc : Sym c := hb c (by simp)
    have hinv' := hstep s c hinv hc
    have hco := hcons i s c rest hinv hc (by simp at h64; omega)
    cases hacc : (stepO s c).2 with
    | some d =>
      rw [hacc, branch_some] at hco
      refine ⟨_, (rest, i + 1), some (some (i, d)), hco,
        Or.inr ⟨_, (stepO s c).1, rfl, hinv', rfl, by simp; omega, by simp, List.suffix_cons c rest, ?_⟩⟩
      simp [runO, hacc]
    | none =>
      rw [hacc, branch_none] at hco
      obtain ⟨r', tx', o, hrun, hspec⟩ := ih (i + 1) _ hinv' (fun x hx => hb x (by simp [hx])) (by simp at h64 ⊢; omega)
      refine ⟨r', tx', o, by rw [hco]; exact hrun, ?_⟩
      rcases hspec with ⟨h1, h2, h3⟩ | ⟨v, s', h1, h2, h3, h4, h5, hs, h6⟩
      · left
        exact ⟨h1, h2, by simp [runO, hacc, h3]⟩
      · right
        refine ⟨v, s', h1, h2, h3, by simp at h4 ⊢; omega, by simp; omega, hs.trans (List.suffix_cons c rest), ?_⟩
        simp [runO, hacc, h6]

include hnext

/-- the translated `next` as a step function on the pair (matcher state, text iterator) -/
def nextS (st : ρ × (List Nat × Nat)) : Res ((ρ × (List Nat × Nat)) × Option (Nat × δ)) := do
  let (r', tx', o) ← next st.1 st.2
  pure ((r', tx'), o)

omit hnil hcons hstep hnext in
theorem nextS_eq (r : ρ) (tx : List Nat × Nat) (r' : ρ) (tx' : List Nat × Nat) (o : Option (Nat × δ))
    (h : next r tx = Res.ok (r', tx', o)) : nextS next (r, tx) = Res.ok ((r', tx'), o) := by
  simp [nextS, h]

/-- calling the translated `next` until `None` lists what the scanner lists -/
theorem drain_eq_run : ∀ (fuel : Nat) (rest : List Nat) (i : Nat) (s : σ), Inv s → (∀ c ∈ rest, Sym c) →
    i + rest.length < 2 ^ 64 → rest.length < fuel →
    Rs.drain (nextS next) fuel (R i s, (rest, i)) = Res.ok (runO stepO s i rest) := by
  intro fuel
  induction fuel with
  | zero => intro rest i s _ _ _ h; omega
  | succ fuel ih =>
    intro rest i s hinv hb h64 hf
    obtain ⟨r', tx', o, hrun, hspec⟩ := iter_spec stepO Inv Sym R iter hnil hcons hstep rest i s hinv hb h64
    have hn := nextS_eq next _ _ _ _ _ (hnext (R i s) (rest, i) r' tx' o hrun)
    rcases hspec with ⟨h1, _, h3⟩ | ⟨v, s', h1, h2, h3, h4, h5, hs, h6⟩
    · subst h1
      rw [h3]
      exact Rs.drain_none _ _ _ _ hn
    · subst h1
      obtain ⟨rest', i'⟩ := tx'
      simp only at h3 h4 h5 h6 hs
      subst h3
      rw [h6]
      exact Rs.drain_some _ _ _ _ _ _ hn
        (ih rest' i' s' h2 (fun c hc => hb c (hs.subset hc)) (by omega) (by omega))

end
end RbV.Thm.GenSrcScanD
