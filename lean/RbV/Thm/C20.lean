import RbV.Spec.Orf
import RbV.Spec.Alphabet
import RbV.Spec.Gc
import RbV.Ref.Complement
import RbV.Model.OrfScan
import RbV.Lemmas.OrfScan
import RbV.Lemmas.OrfScanP
import RbV.Thm.GenSrcOrf
import RbV.Thm.GenSrcOrfNew
import RbV.Thm.GenSrcGc
import RbV.Thm.GenSrcAlphabet
/-!
# C20 — ORF finder, complements, alphabets / rank transform, GC content

Property theorems (statements only; helper lemmas live in `RbV/Spec`, `RbV/Ref`, `RbV/Lemmas`).

* Complement: the tables `Gen.Complement.dna/rna` are a **dump of the running Rust code over all 256 bytes**
  (regenerated on every check); the `decide`d facts below are therefore statements about the real
  `complement`, and the lifted theorems hold for every symbol and every sequence.
* Alphabet / rank transform: the model enumerates a bit set in ascending order, as `bit_set::BitSet` does.
* ORF: `acceptOrf` is the oracle of the driver; `acceptOrf_iff` says it is exactly the sandwich of the property.
-/
namespace RbV.Thm.C20
open RbV RbV.Compl

/-! ## Complement -/

/-- the dumped tables have 256 entries, all of them bytes -/
theorem complement_tables_wellformed :
    tblInRange Gen.Complement.dna = true ∧ tblInRange Gen.Complement.rna = true := by decide +kernel

/-- table facts, each checked by the kernel over all 256 entries of the dumped tables -/
theorem complement_tables_involutive :
    tblInvolutive Gen.Complement.dna = true ∧ tblInvolutive Gen.Complement.rna = true := by decide +kernel

theorem complement_tables_case :
    tblCase Gen.Complement.dna = true ∧ tblCase Gen.Complement.rna = true := by decide +kernel

theorem complement_tables_identity_outside :
    tblIdOutside Gen.Complement.dna dnaCodes = true ∧ tblIdOutside Gen.Complement.rna rnaCodes = true := by
  decide +kernel

/-- DNA complement is an involution — for every symbol -/
theorem dna_complement_involution (b : Nat) :
    comp Gen.Complement.dna (comp Gen.Complement.dna b) = b :=
  comp_comp complement_tables_wellformed.1 complement_tables_involutive.1 b

/-- RNA complement is an involution — for every symbol -/
theorem rna_complement_involution (b : Nat) :
    comp Gen.Complement.rna (comp Gen.Complement.rna b) = b :=
  comp_comp complement_tables_wellformed.2 complement_tables_involutive.2 b

/-- complement preserves case: an upper-case letter goes to an upper-case letter, its lower-case twin to the
lower-case twin of the image; a lower-case letter goes to a lower-case letter -/
theorem complement_preserves_case (b : Nat) (hb : b < 256) :
    (isUpper b = true → isUpper (comp Gen.Complement.dna b) = true ∧
        comp Gen.Complement.dna (b + 32) = comp Gen.Complement.dna b + 32) ∧
    (isLower b = true → isLower (comp Gen.Complement.dna b) = true) ∧
    (isUpper b = true → isUpper (comp Gen.Complement.rna b) = true ∧
        comp Gen.Complement.rna (b + 32) = comp Gen.Complement.rna b + 32) ∧
    (isLower b = true → isLower (comp Gen.Complement.rna b) = true) := by
  have hd := complement_tables_case.1
  have hr := complement_tables_case.2
  have h1 := all_range hd hb
  have h2 := all_range hr hb
  simp only [Bool.and_eq_true, Bool.or_eq_true, Bool.not_eq_true', beq_iff_eq] at h1 h2
  refine ⟨?_, ?_, ?_, ?_⟩
  · intro hu
    rcases h1.1 with h | h
    · rw [hu] at h; cases h
    · exact h
  · intro hl
    rcases h1.2 with h | h
    · rw [hl] at h; cases h
    · exact h
  · intro hu
    rcases h2.1 with h | h
    · rw [hu] at h; cases h
    · exact h
  · intro hl
    rcases h2.2 with h | h
    · rw [hl] at h; cases h
    · exact h

/-- complement is the identity on everything that is not an IUPAC nucleotide code -/
theorem complement_identity_outside_codes (b : Nat) :
    (b ∉ dnaCodes → comp Gen.Complement.dna b = b) ∧ (b ∉ rnaCodes → comp Gen.Complement.rna b = b) := by
  have hd := complement_tables_identity_outside.1
  have hr := complement_tables_identity_outside.2
  have hld : Gen.Complement.dna.length = 256 := by decide +kernel
  have hlr : Gen.Complement.rna.length = 256 := by decide +kernel
  by_cases hb : b < 256
  · have h1 := all_range hd hb
    have h2 := all_range hr hb
    simp only [Bool.or_eq_true, List.contains_iff_mem, beq_iff_eq] at h1 h2
    exact ⟨fun h => h1.resolve_left h, fun h => h2.resolve_left h⟩
  · exact ⟨fun _ => comp_of_ge hld (by omega), fun _ => comp_of_ge hlr (by omega)⟩

/-- the four bases pair as Watson and Crick found: A–T (A–U), C–G, in both cases -/
theorem complement_watson_crick :
    [65, 84, 67, 71, 97, 116, 99, 103].map (comp Gen.Complement.dna) = [84, 65, 71, 67, 116, 97, 103, 99] ∧
    [65, 85, 67, 71, 97, 117, 99, 103].map (comp Gen.Complement.rna) = [85, 65, 71, 67, 117, 97, 103, 99] := by
  decide +kernel

/-- reverse-complementing twice restores **any** sequence (DNA) -/
theorem dna_revcomp_revcomp (s : List Nat) :
    revcomp Gen.Complement.dna (revcomp Gen.Complement.dna s) = s :=
  revcomp_revcomp complement_tables_wellformed.1 complement_tables_involutive.1 s

/-- reverse-complementing twice restores **any** sequence (RNA) -/
theorem rna_revcomp_revcomp (s : List Nat) :
    revcomp Gen.Complement.rna (revcomp Gen.Complement.rna s) = s :=
  revcomp_revcomp complement_tables_wellformed.2 complement_tables_involutive.2 s

example : revcomp Gen.Complement.dna [65, 67, 71, 84, 110, 35] = [35, 110, 65, 67, 71, 84] := by decide +kernel

/-! ## Alphabet and rank transform -/

/-- the members of `Alphabet::new(symbols)` are exactly the given byte values -/
theorem alphabet_members (syms : List Nat) (b : Nat) : b ∈ Alpha.mk syms ↔ b ∈ syms ∧ b < 256 :=
  Alpha.mem_mk syms b

/-- a text is accepted exactly when all its symbols are members -/
theorem is_word_iff (syms t : List Nat) :
    Alpha.isWord (Alpha.mk syms) t = true ↔ ∀ c ∈ t, c ∈ syms ∧ c < 256 := by
  rw [Alpha.isWord_iff]
  constructor
  · intro h c hc; exact (Alpha.mem_mk syms c).mp (h c hc)
  · intro h c hc; exact (Alpha.mem_mk syms c).mpr (h c hc)

/-- the rank transform is an order-preserving bijection of the alphabet onto `0 .. |A|`:
it maps members below `|A|`, is strictly monotone (hence injective) on members, and every value below `|A|` is the
rank of a member; moreover the rank of a member is the number of smaller members. -/
theorem rank_bijective_monotone (syms : List Nat) :
    let A := Alpha.mk syms
    (∀ a ∈ A, Alpha.rank A a < A.length) ∧
    (∀ a ∈ A, ∀ b ∈ A, (a < b ↔ Alpha.rank A a < Alpha.rank A b)) ∧
    (∀ r, r < A.length → ∃ a ∈ A, Alpha.rank A a = r) ∧
    (∀ a ∈ A, Alpha.rank A a = Alpha.countLt A a) := by
  intro A
  have hs : A.Pairwise (· < ·) := Alpha.mk_sorted syms
  refine ⟨?_, ?_, ?_, ?_⟩
  · intro a ha
    obtain ⟨i, hi, rfl⟩ := List.mem_iff_getElem.mp ha
    rw [Alpha.rank_getElem A hs i hi]; exact hi
  · intro a ha b hb
    obtain ⟨i, hi, rfl⟩ := List.mem_iff_getElem.mp ha
    obtain ⟨j, hj, rfl⟩ := List.mem_iff_getElem.mp hb
    rw [Alpha.rank_getElem A hs i hi, Alpha.rank_getElem A hs j hj]
    constructor
    · intro hlt
      by_cases hij : i < j
      · exact hij
      · exfalso
        by_cases heq : i = j
        · subst heq; omega
        · have := (List.pairwise_iff_getElem.mp hs) j i hj hi (by omega)
          omega
    · intro hij
      exact (List.pairwise_iff_getElem.mp hs) i j hi hj hij
  · intro r hr
    exact ⟨A[r], List.getElem_mem hr, Alpha.rank_getElem A hs r hr⟩
  · intro a ha
    exact Alpha.rank_eq_countLt A hs a ha

example : Alpha.transform (Alpha.mk [84, 65, 71, 67, 65]) [71, 65, 84, 84, 65, 67, 65] = [2, 0, 3, 3, 0, 1, 0] := by
  decide

/-! ## Open reading frames -/

/-- **The oracle is the property.**  `acceptOrf` holds of a reported list exactly when: every reported triple is
an open reading frame (start codon, first in-frame stop codon after it, length a multiple of three) of length at
least `minLen` with offset `start % 3`; no triple is reported twice; and every open reading frame more than two
bases longer than `minLen` is reported. -/
theorem acceptOrf_iff (seq : List Nat) (starts stops : List (List Nat)) (minLen : Nat)
    (out : List (Nat × Nat × Nat)) :
    Orf.acceptOrf seq starts stops minLen out = true ↔
      (∀ t ∈ out, Orf.IsOrf seq starts stops t.1 t.2.1 ∧ minLen ≤ t.2.1 - t.1 ∧ t.2.2 = t.1 % 3) ∧
      out.Nodup ∧
      (∀ s e, Orf.IsOrf seq starts stops s e → minLen + 2 < e - s → (s, e, s % 3) ∈ out) := by
  unfold Orf.acceptOrf
  simp only [Bool.and_eq_true, List.all_eq_true, decide_eq_true_eq, Bool.or_eq_true, beq_iff_eq,
    List.contains_iff_mem, Orf.isOrfB_iff]
  constructor
  · intro ⟨⟨h1, h2⟩, h3⟩
    refine ⟨fun t ht => ⟨(h1 t ht).1.1, (h1 t ht).1.2, (h1 t ht).2⟩, h2, ?_⟩
    intro s e hio hlen
    rcases h3 (s, e) ((Orf.mem_allOrfs seq starts stops s e).mpr hio) with h | h
    · simp only at h; omega
    · exact h
  · intro ⟨h1, h2, h3⟩
    refine ⟨⟨fun t ht => ⟨⟨(h1 t ht).1, (h1 t ht).2.1⟩, (h1 t ht).2.2⟩, h2⟩, ?_⟩
    intro p hp
    by_cases hlen : p.2 - p.1 ≤ minLen + 2
    · exact Or.inl hlen
    · exact Or.inr (h3 p.1 p.2 ((Orf.mem_allOrfs seq starts stops p.1 p.2).mp hp) (by omega))

/-- an open reading frame is determined by its start: the answer has no freedom beyond the two-base slack -/
theorem orf_end_unique (seq : List Nat) (starts stops : List (List Nat)) (s e e' : Nat)
    (h : Orf.IsOrf seq starts stops s e) (h' : Orf.IsOrf seq starts stops s e') : e = e' := by
  have h1 := (Orf.isOrfB_iff seq starts stops s e).mpr h
  have h2 := (Orf.isOrfB_iff seq starts stops s e').mpr h'
  unfold Orf.isOrfB at h1 h2
  simp only [Bool.and_eq_true, beq_iff_eq] at h1 h2
  have := h1.2.symm.trans h2.2
  exact Option.some.inj this

-- ATGAAATGA: one frame; ATG AAA TGA from 0 to 9
example : Orf.allOrfs [65, 84, 71, 65, 65, 65, 84, 71, 65] [[65, 84, 71]] [[84, 71, 65]] = [(0, 9)] := by decide
example : Orf.acceptOrf [65, 84, 71, 65, 65, 65, 84, 71, 65] [[65, 84, 71]] [[84, 71, 65]] 5 [(0, 9, 0)] = true := by
  decide

/-- **[B] The sliding-window finder of `orf.rs` is sound and complete.**  For codon sets of three-symbol codons
with no codon both start and stop, the mirror model of `Matches::next` (window, three per-frame lists of pending
starts, flush at a stop codon with the `break` on the first too-short start) reports *exactly* the open reading
frames that are more than `minLen + 2` long, with offset `start % 3`, and each of them once — for every sequence,
all codon sets and every `minLen`. -/
theorem orf_sound_complete (seq : List Nat) (starts stops : List (List Nat)) (minLen : Nat)
    (h3s : ∀ c ∈ starts, c.length = 3) (h3p : ∀ c ∈ stops, c.length = 3) (hd : ∀ c ∈ starts, c ∉ stops) :
    (∀ t, t ∈ Model.OrfScan.findAll starts stops minLen seq ↔
        (Orf.IsOrf seq starts stops t.1 t.2.1 ∧ minLen + 2 < t.2.1 - t.1 ∧ t.2.2 = t.1 % 3)) ∧
    (Model.OrfScan.findAll starts stops minLen seq).Nodup := by
  have inv := Lemmas.OrfScan.run_inv (minLen := minLen) h3s h3p hd seq [] Model.OrfScan.State.init rfl
    Lemmas.OrfScan.init_inv
  refine ⟨?_, inv.nodup⟩
  intro t
  unfold Model.OrfScan.findAll
  rw [show ([] : List Nat).length = 0 from rfl] at inv
  rw [inv.out t]
  unfold Lemmas.OrfScan.Good
  constructor
  · rintro ⟨h1, _, h3, h4⟩; exact ⟨h1, h3, h4⟩
  · rintro ⟨h1, h3, h4⟩
    exact ⟨h1, h1.2.1, h3, h4⟩

/-- … hence the model's answer is always accepted by the oracle (the model sits at the lower end of the sandwich) -/
theorem orf_model_accepted (seq : List Nat) (starts stops : List (List Nat)) (minLen : Nat)
    (h3s : ∀ c ∈ starts, c.length = 3) (h3p : ∀ c ∈ stops, c.length = 3) (hd : ∀ c ∈ starts, c ∉ stops) :
    Orf.acceptOrf seq starts stops minLen (Model.OrfScan.findAll starts stops minLen seq) = true := by
  obtain ⟨hm, hn⟩ := orf_sound_complete seq starts stops minLen h3s h3p hd
  rw [acceptOrf_iff]
  refine ⟨?_, hn, ?_⟩
  · intro t ht
    obtain ⟨h1, h2, h3⟩ := (hm t).mp ht
    exact ⟨h1, by omega, h3⟩
  · intro s e hio hlen
    exact (hm (s, e, s % 3)).mpr ⟨hio, hlen, rfl⟩

-- nested starts, two frames: ATG ATG AAA TAA G ATG TAG  (min_len 0): both nested frames and the shifted one
example : Model.OrfScan.findAll [[65, 84, 71]] [[84, 65, 65], [84, 65, 71]] 0
    [65, 84, 71, 65, 84, 71, 65, 65, 65, 84, 65, 65, 71, 65, 84, 71, 84, 65, 71] = [(0, 12, 0), (3, 12, 0), (13, 19, 1)] := by
  decide +kernel

/-! ## The source text of `Matches::next` (translated on every run, `Gen/SrcOrf.lean`)

`tools/rs2lean.py` translates the text of `Matches::next` into `Gen.SrcOrf.next` (+ loop helpers) and the length test of
its flush loop into `Gen.SrcOrf.next_lenTest`; `GenSrcOrf.collect T …` calls the translated `next` (with length test `T`)
until it returns `None`, as `Iterator::collect` does.  `Rs.Res.ok v` = no panic, no loop ran out of fuel, result `v`.
The property leaves frames of length `minLen … minLen + 2` free; accordingly the tie is stated for *every* length test
inside that freedom (`Model.OrfScan.LenTestOk`), and the test found in the source is shown to be inside it. -/

/-- **The ORF mirror model is sound and complete for every length test inside the freedom of the property.**
`findAllP P` is the mirror model of `Matches::next` whose flush loop uses the test `P index start_pos`; if `P` accepts
every frame longer than `minLen + 2` and only frames at least `minLen` long, the oracle accepts the model's answer
(every reported triple is an ORF of length ≥ `minLen` with offset `start % 3`, none twice, every ORF longer than
`minLen + 2` is reported). -/
theorem orf_model_any_test_accepted (seq : List Nat) (starts stops : List (List Nat)) (minLen : Nat)
    (P : Nat → Nat → Bool) (hP : Model.OrfScan.LenTestOk P minLen seq.length)
    (h3s : ∀ c ∈ starts, c.length = 3) (h3p : ∀ c ∈ stops, c.length = 3) (hd : ∀ c ∈ starts, c ∉ stops) :
    Orf.acceptOrf seq starts stops minLen (Model.OrfScan.findAllP P starts stops seq) = true := by
  obtain ⟨hm0, hn0⟩ := orf_sound_complete seq starts stops 0 h3s h3p hd
  obtain ⟨hm, _⟩ := orf_sound_complete seq starts stops minLen h3s h3p hd
  have hsub0 := Lemmas.OrfScanP.findAllP_sublist_all h3s P seq (stops := stops)
  have hsub := Lemmas.OrfScanP.findAll_sublist_findAllP h3s P minLen seq hP (stops := stops)
  rw [acceptOrf_iff]
  refine ⟨?_, hsub0.nodup hn0, ?_⟩
  · intro t ht
    obtain ⟨h1, _, h3⟩ := (hm0 t).mp (hsub0.subset ht)
    exact ⟨h1, Lemmas.OrfScanP.findAllP_len h3s P minLen seq hP t ht, h3⟩
  · intro s e hio hlen
    exact hsub.subset ((hm (s, e, s % 3)).mpr ⟨hio, hlen, rfl⟩)

/-- **`Matches::next` as written in the source = the mirror model** (`orf_next_source_eq_model`): for every length test
`T` that computes `P` on the arguments the loop passes, calling the translated `next` on a fresh iterator until it
returns `None` never panics and yields exactly `findAllP P` — all sequences shorter than `2^64 - 1`, all codon sets with
three-symbol start codons, every `minLen`. -/
theorem orf_next_source_eq_model (T : Nat → Nat → Nat → Rs.Res Bool) (P : Nat → Nat → Bool)
    (seq : List Nat) (starts stops : List (List Nat)) (minLen : Nat)
    (hT : GenSrcOrf.TestIs T P minLen seq.length) (h3s : ∀ c ∈ starts, c.length = 3) (hlen : seq.length + 1 < 2 ^ 64)
    (fuel : Nat) (hf : (Model.OrfScan.findAllP P starts stops seq).length < fuel) :
    GenSrcOrf.collect T starts stops minLen fuel [[], [], []] [] [] (GenSrcOrf.enumFrom 0 seq)
      = Rs.Res.ok (Model.OrfScan.findAllP P starts stops seq) :=
  GenSrcOrf.collect_findAllP T P starts stops minLen seq hT h3s hlen fuel hf

/-- the length test found in the source text never panics on the arguments the loop passes and lies inside the freedom
of the property: it accepts every frame longer than `minLen + 2` and only frames at least `minLen` long -/
theorem orf_length_test_source_in_slack (minLen B : Nat) (hB : B + 2 < 2 ^ 64) :
    GenSrcOrf.TestIs Gen.SrcOrf.next_lenTest (GenSrcOrf.srcTest minLen) minLen B ∧
    Model.OrfScan.LenTestOk (GenSrcOrf.srcTest minLen) minLen B :=
  ⟨GenSrcOrf.srcTest_is minLen B hB, GenSrcOrf.srcTest_ok minLen B hB⟩

/-- **The source text of `Matches::next` is sound and complete**: iterating the *translated* `next` (with the length
test of the source) over any sequence shorter than `2^64 - 2` yields a list the oracle accepts. -/
theorem orf_next_source_accepted (seq : List Nat) (starts stops : List (List Nat)) (minLen : Nat)
    (h3s : ∀ c ∈ starts, c.length = 3) (h3p : ∀ c ∈ stops, c.length = 3) (hd : ∀ c ∈ starts, c ∉ stops)
    (hlen : seq.length + 2 < 2 ^ 64) :
    ∃ out, (∀ fuel, out.length < fuel →
        GenSrcOrf.collect Gen.SrcOrf.next_lenTest starts stops minLen fuel [[], [], []] [] [] (GenSrcOrf.enumFrom 0 seq)
          = Rs.Res.ok out) ∧
      Orf.acceptOrf seq starts stops minLen out = true := by
  obtain ⟨h1, h2⟩ := orf_length_test_source_in_slack minLen seq.length hlen
  exact ⟨_, fun fuel hf => orf_next_source_eq_model _ _ seq starts stops minLen h1 h3s (by omega) fuel hf,
    orf_model_any_test_accepted seq starts stops minLen _ h2 h3s h3p hd⟩

/-- **From the translated constructors** (genleft): `Finder::new(starts, stops, min_len)` as written, `.find_all(seq)` as
written (with `State::new()` as written), then the translated `next` with the length test of the source until `None`
(`GenSrcOrfNew.findAllSrc`) never panics and yields a list the oracle accepts.  The initial iterator state is no longer
read off the constructors by hand. -/
theorem orf_find_all_source_accepted (seq : List Nat) (starts stops : List (List Nat)) (minLen : Nat)
    (h3s : ∀ c ∈ starts, c.length = 3) (h3p : ∀ c ∈ stops, c.length = 3) (hd : ∀ c ∈ starts, c ∉ stops)
    (hlen : seq.length + 2 < 2 ^ 64) :
    ∃ out, (∀ fuel, out.length < fuel →
        GenSrcOrfNew.findAllSrc Gen.SrcOrf.next_lenTest starts stops minLen fuel seq = Rs.Res.ok out) ∧
      Orf.acceptOrf seq starts stops minLen out = true := by
  obtain ⟨out, h1, h2⟩ := orf_next_source_accepted seq starts stops minLen h3s h3p hd hlen
  exact ⟨out, fun fuel hf => by rw [GenSrcOrfNew.findAllSrc_eq]; exact h1 fuel hf, h2⟩

/-- the translated constructors, as values: `Finder::new` keeps the codons and `min_len`; `find_all` starts with three
empty start-position lists, an empty codon window, nothing found, and the sequence enumerated from 0 -/
theorem orf_constructors_source_eq_model (seq : List Nat) (starts stops : List (List Nat)) (minLen : Nat) :
    Gen.SrcOrfNew.findAll (Gen.SrcOrfNew.finderNew starts stops minLen) seq
      = { finder := { start_codons := starts, stop_codons := stops, min_len := minLen },
          state := { start_pos := [[], [], []], codon := [], found := [] },
          seq := GenSrcOrf.enumFrom 0 seq } := by
  rw [GenSrcOrfNew.findAll_eq, GenSrcOrfNew.finderNew_eq]

-- non-vacuity: constructors and iterator evaluated end to end on ATG ATG AAA TAA G ATG TAG (minimum length outside the slack)
example : GenSrcOrfNew.findAllSrc Gen.SrcOrf.next_lenTest [[65, 84, 71]] [[84, 65, 65], [84, 65, 71]] 3 9
    [65, 84, 71, 65, 84, 71, 65, 65, 65, 84, 65, 65, 71, 65, 84, 71, 84, 65, 71]
    = Rs.Res.ok [(0, 12, 0), (3, 12, 0), (13, 19, 1)] := by decide +kernel

/-- with the length test of the pinned text (`index + 1 - start_pos > min_len`) the translated `next` yields exactly
what the mirror model `findAll` — the one the driver runs next to the code on every case — yields -/
theorem orf_next_source_pinned_test_eq_findAll (T : Nat → Nat → Nat → Rs.Res Bool)
    (seq : List Nat) (starts stops : List (List Nat)) (minLen : Nat)
    (hT : GenSrcOrf.TestIs T (Model.OrfScan.pinnedTest minLen) minLen seq.length)
    (h3s : ∀ c ∈ starts, c.length = 3) (hlen : seq.length + 1 < 2 ^ 64)
    (fuel : Nat) (hf : (Model.OrfScan.findAll starts stops minLen seq).length < fuel) :
    GenSrcOrf.collect T starts stops minLen fuel [[], [], []] [] [] (GenSrcOrf.enumFrom 0 seq)
      = Rs.Res.ok (Model.OrfScan.findAll starts stops minLen seq) := by
  rw [Model.OrfScan.findAll_eq_findAllP] at hf ⊢
  exact orf_next_source_eq_model T _ seq starts stops minLen hT h3s hlen fuel hf

-- non-vacuity: the translated `next` on ATG ATG AAA TAA G ATG TAG (frames of length 12, 9 and 6).  The minimum lengths
-- are chosen outside the slack of every frame (3: all three are longer than 3 + 2; 13: none is at least 13 long), so that
-- a source change that only moves the length test inside the slack does not break the examples.
example : GenSrcOrf.collect Gen.SrcOrf.next_lenTest [[65, 84, 71]] [[84, 65, 65], [84, 65, 71]] 3 9 [[], [], []] [] []
    (GenSrcOrf.enumFrom 0 [65, 84, 71, 65, 84, 71, 65, 65, 65, 84, 65, 65, 71, 65, 84, 71, 84, 65, 71])
    = Rs.Res.ok [(0, 12, 0), (3, 12, 0), (13, 19, 1)] := by decide +kernel
example : GenSrcOrf.collect Gen.SrcOrf.next_lenTest [[65, 84, 71]] [[84, 65, 65], [84, 65, 71]] 13 9 [[], [], []] [] []
    (GenSrcOrf.enumFrom 0 [65, 84, 71, 65, 84, 71, 65, 65, 65, 84, 65, 65, 71, 65, 84, 71, 84, 65, 71])
    = Rs.Res.ok [] := by decide +kernel
-- inside the slack both answers are accepted: min_len 9, the frame 3..12 of length 9 may be reported or not
example : Orf.acceptOrf [65, 84, 71, 65, 84, 71, 65, 65, 65, 84, 65, 65, 71, 65, 84, 71, 84, 65, 71]
    [[65, 84, 71]] [[84, 65, 65], [84, 65, 71]] 9 [(0, 12, 0), (3, 12, 0)] = true ∧
  Orf.acceptOrf [65, 84, 71, 65, 84, 71, 65, 65, 65, 84, 65, 65, 71, 65, 84, 71, 84, 65, 71]
    [[65, 84, 71]] [[84, 65, 65], [84, 65, 71]] 9 [(0, 12, 0)] = true := by decide +kernel

/-! ## GC content -/

/-- the exact GC fraction lies in [0, 1] -/
theorem gc_fraction_bounds (s : List Nat) : Gc.gcCount s ≤ s.length := Gc.gcCount_le s

/-- the tolerance test of the driver is `|p/q − c/l| ≤ 10⁻⁶`, cross-multiplied -/
theorem gc_tolerance_iff (p q c l : Nat) :
    Gc.within1e6 p q c l = true ↔
      ((p : Int) * l - c * q) * 1000000 ≤ q * l ∧ ((c : Int) * q - p * l) * 1000000 ≤ q * l :=
  Gc.within1e6_iff p q c l

/-! ### the source text of `gcn_content` (translated on every run, `Gen/SrcGc.lean`)

The integer part of the GC functions is tied by a theorem about the source text; the `f32` conversion and division are
abstract parameters (`toF32`, `fdiv`) of the translated definition and stay with the numerical clause of the driver. -/

/-- `gc_content` as written in the source (`gcn_content(sequence, 1)`): for a sequence shorter than `2^64` it divides the
number of `C G c g` symbols by the length, both converted to `f32` -/
theorem gc_content_source_counts {F : Type} (toF32 : Nat → F) (fdiv : F → F → F) (s : List Nat) (hlen : s.length < 2 ^ 64) :
    Gen.SrcGc.gcnContent toF32 fdiv s 1 = Rs.Res.ok (fdiv (toF32 (Gc.gcCount s)) (toF32 s.length)) := by
  rw [GenSrcGc.gcnContent_eq_model toF32 fdiv s 1 (by omega) hlen, Rs.stepByGo_one]

/-- `gc3_content` as written in the source (`gcn_content(sequence, 3)`): the same over the symbols at positions
`0, 3, 6, …` — the reading `every3 · 0` the driver accepts first -/
theorem gc3_content_source_counts {F : Type} (toF32 : Nat → F) (fdiv : F → F → F) (s : List Nat) (hlen : s.length < 2 ^ 64) :
    Gen.SrcGc.gcnContent toF32 fdiv s 3
      = Rs.Res.ok (fdiv (toF32 (Gc.gcCount (Gc.every3 s 0))) (toF32 (Gc.every3 s 0).length)) := by
  rw [GenSrcGc.gcnContent_eq_model toF32 fdiv s 3 (by omega) hlen, GenSrcGc.stepByGo3_eq_every3]

-- GATATACA: 2 of 8; positions 0, 3, 6 = G A C: 2 of 3 (the documented example)
example : Gen.SrcGc.gcnContent (F := Nat × Nat) (fun n => (n, 1)) (fun a b => (a.1, b.1)) [71, 65, 84, 65, 84, 65, 67, 65] 3
    = Rs.Res.ok (2, 3) := by decide

/-! ### the source text of `Alphabet` / `RankTransform` (translated on every run, `Gen/SrcAlphabet.lean`)

`bit_set::BitSet` and `vec_map::VecMap<u8>` are the containers `Rs.BitSet` (ascending member list) and `Rs.VecMap`
(association list) of `RsSem.lean` — the trusted meaning of the two crates; everything `alphabets/mod.rs` does with them
is translated text. -/

/-- `Alphabet::new(symbols)` as written in the source builds exactly the model's alphabet, whose members are the given
bytes (`alphabet_members`) -/
theorem alphabet_new_source_eq_model (syms : List Nat) (hb : ∀ c ∈ syms, c < 256) :
    Gen.SrcAlphabet.alphabetNew syms = Rs.Res.ok (Alpha.mk syms) :=
  GenSrcAlphabet.alphabetNew_eq_model syms hb

/-- `Alphabet::insert` as written in the source -/
theorem alphabet_insert_source_eq_model (syms : List Nat) (a : Nat) (ha : a < 256) :
    Gen.SrcAlphabet.alphabetInsert (Alpha.mk syms) a = Rs.Res.ok (Alpha.mk (a :: syms)) :=
  GenSrcAlphabet.alphabetInsert_eq_model syms a ha

/-- `Alphabet::is_word`, `max_symbol`, `len` as written in the source, on the alphabet `Alphabet::new(syms)` builds:
a text is accepted iff all its symbols are among `syms` (`is_word_iff`), the maximal symbol is the last member, the size
is the number of members -/
theorem alphabet_queries_source_eq_model (syms t : List Nat) :
    Gen.SrcAlphabet.isWord (Alpha.mk syms) t = Rs.Res.ok (Alpha.isWord (Alpha.mk syms) t) ∧
    (Alpha.isWord (Alpha.mk syms) t = true ↔ ∀ c ∈ t, c ∈ syms ∧ c < 256) ∧
    Gen.SrcAlphabet.maxSymbol (Alpha.mk syms) = Rs.Res.ok (Alpha.maxSymbol (Alpha.mk syms)) ∧
    Gen.SrcAlphabet.len (Alpha.mk syms) = Rs.Res.ok (Alpha.mk syms).length :=
  ⟨GenSrcAlphabet.isWord_eq_model _ t, is_word_iff syms t,
   GenSrcAlphabet.maxSymbol_eq_model _ (Alpha.mk_sorted syms) (fun a ha => ((Alpha.mem_mk syms a).mp ha).2),
   GenSrcAlphabet.len_eq_model _⟩

/-- **`RankTransform::{new, get, transform}` as written in the source**: `new` builds a map that sends every member of
the alphabet to its rank in the model (`rank_bijective_monotone`: an order-preserving bijection onto `0..|A|`) and nothing
else; `get` returns that rank and panics outside the alphabet; `transform` maps a word over the alphabet to its ranks. -/
theorem rank_transform_source_eq_model (syms : List Nat) :
    ∃ m, Gen.SrcAlphabet.rankNew (Alpha.mk syms) = Rs.Res.ok m ∧
      (∀ a, Gen.SrcAlphabet.rankGet m a
          = if a ∈ Alpha.mk syms then Rs.Res.ok (Alpha.rank (Alpha.mk syms) a) else Rs.Res.panic) ∧
      (∀ t, (∀ c ∈ t, c ∈ Alpha.mk syms) →
          Gen.SrcAlphabet.transform m t = Rs.Res.ok (Alpha.transform (Alpha.mk syms) t)) := by
  have hl : (Alpha.mk syms).length ≤ 256 := by
    unfold Alpha.mk
    exact Nat.le_trans (List.length_filter_le _ _) (by simp)
  obtain ⟨m, h1, h2⟩ := GenSrcAlphabet.rankNew_eq_model (Alpha.mk syms) (Alpha.mk_sorted syms) hl
  exact ⟨m, h1, fun a => GenSrcAlphabet.rankGet_eq_model _ m h2 a,
    fun t ht => GenSrcAlphabet.transform_eq_model _ m h2 t ht⟩

-- the translated constructors and queries on "TAGCA": alphabet A C G T, ranks 0 1 2 3, the full byte alphabet
example : (do let a ← Gen.SrcAlphabet.alphabetNew [84, 65, 71, 67, 65]
              let m ← Gen.SrcAlphabet.rankNew a
              Gen.SrcAlphabet.transform m [71, 65, 84, 84, 65, 67, 65]) = Rs.Res.ok [2, 0, 3, 3, 0, 1, 0] := by decide
example : (do let a ← Gen.SrcAlphabet.alphabetNew (List.range 256)
              let m ← Gen.SrcAlphabet.rankNew a
              Gen.SrcAlphabet.transform m [255, 0, 128]) = Rs.Res.ok [255, 0, 128] := by decide +kernel
example : (do let a ← Gen.SrcAlphabet.alphabetNew [65, 67]
              let m ← Gen.SrcAlphabet.rankNew a
              Gen.SrcAlphabet.rankGet m 66) = Rs.Res.panic := by decide

end RbV.Thm.C20
