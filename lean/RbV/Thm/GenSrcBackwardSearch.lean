import RbV.Gen.SrcBackwardSearch
import RbV.Model.BackwardSearch
import RbV.Thm.GenSrcBasic
/-!
# The translated text of `FMIndexable::backward_search` equals the mirror model `BSModel.backwardSearch`

`RbV/Gen/SrcBackwardSearch.lean` is regenerated from `src/data_structures/fmindex.rs` by `tools/rs2lean.py` on every
`./check C05`.  The trait methods `self.less(a)`, `self.occ(r, a)` are function parameters (`lessF`, `occF`), `self.bwt()`
a list; the `break` of the loop is a flag in the fold state; the result enum is the generated inductive
`BackwardSearchResult` (`toGen` maps the model's `BSRes` to it).  Hypotheses = what keeps the checked `usize` arithmetic
from panicking: a non-empty BWT (`len() - 1`), `less(a) ≥ 1` for the pattern symbols (`less + occ - 1`; the property's
precondition "the sentinel is smaller than every pattern symbol"), `less(a) + occ(r, a) < 2^64`, `n, m < 2^64`.
-/
-- the simp sets name every fact a harmless rewrite of the Rust text may need; on the pinned text some are unused
set_option linter.unusedSimpArgs false

namespace RbV.Thm.GenSrcBackwardSearch
open RbV RbV.Rs RbV.Gen.SrcBackwardSearch RbV.Thm.GenSrc RbV.BSModel

/-- the model's result as a value of the generated enum -/
def toGen : BSRes → BackwardSearchResult
  | .complete l u => .Complete (l, u)
  | .part l u m => .Partial (l, u) m
  | .absent => .Absent

/-- the fold state of the translated loop for a model state (and the `break` flag) -/
def tup (s : St) (b : Bool) : Nat × Nat × Nat × Nat × Bool × Nat × Bool := (s.pl, s.pr, s.l, s.r, s.complete, s.matched, b)

variable (lessF : Nat → Nat) (occF : Nat → Nat → Nat) (bwt : List Nat)

/-- after `break` the remaining pattern symbols leave the state unchanged -/
theorem loop_broken (s : St) : ∀ rest : List Nat,
    rest.foldlM (backward_search_for1 lessF occF bwt) (tup s true) = Res.ok (tup s true) := by
  intro rest
  induction rest with
  | nil => rfl
  | cons a rest ih =>
    have : backward_search_for1 lessF occF bwt (tup s true) a = Res.ok (tup s true) := by
      simp [backward_search_for1, tup]
    rw [List.foldlM_cons, this, Res.ok_bind, ih]

/-- one round of the loop (not yet broken) -/
theorem step_eq (s : St) (a : Nat) (hless : 1 ≤ lessF a) (hb : ∀ r, lessF a + occF r a < 2 ^ 64)
    (hm : s.matched + 1 < 2 ^ 64) :
    backward_search_for1 lessF occF bwt (tup s false) a =
      Res.ok (if lessF a + (if s.l > 0 then occF (s.l - 1) a else 0) > lessF a + occF s.r a - 1 then
          tup { l := lessF a + (if s.l > 0 then occF (s.l - 1) a else 0), r := lessF a + occF s.r a - 1,
                pl := s.l, pr := s.r, matched := s.matched, complete := false } true
        else
          tup { l := lessF a + (if s.l > 0 then occF (s.l - 1) a else 0), r := lessF a + occF s.r a - 1,
                pl := s.l, pr := s.r, matched := s.matched + 1, complete := s.complete } false) := by
  have h1 := hb (s.l - 1)
  have h2 := hb s.r
  have e1 : Rs.sub s.l 1 = Res.ok (s.l - 1) ∨ ¬ s.l > 0 := by
    by_cases h : s.l > 0
    · exact Or.inl (Rs.sub_ok (by omega))
    · exact Or.inr h
  have e2 : Rs.add 64 (lessF a) (occF (s.l - 1) a) = Res.ok (lessF a + occF (s.l - 1) a) := Rs.add_ok h1
  have e3 : Rs.add 64 (lessF a) 0 = Res.ok (lessF a) := Rs.add_ok (by omega)
  have e4 : Rs.add 64 (lessF a) (occF s.r a) = Res.ok (lessF a + occF s.r a) := Rs.add_ok h2
  have e2' : Rs.add 64 (occF (s.l - 1) a) (lessF a) = Res.ok (lessF a + occF (s.l - 1) a) := by
    rw [Nat.add_comm (lessF a)]; exact Rs.add_ok (by omega)
  have e3' : Rs.add 64 0 (lessF a) = Res.ok (lessF a) := by simpa using (Rs.add_ok (w := 64) (a := 0) (b := lessF a) (by omega))
  have e4' : Rs.add 64 (occF s.r a) (lessF a) = Res.ok (lessF a + occF s.r a) := by
    rw [Nat.add_comm (lessF a)]; exact Rs.add_ok (by omega)
  have e6' : Rs.add 64 1 s.matched = Res.ok (s.matched + 1) := by rw [Nat.add_comm]; exact Rs.add_ok (by omega)
  have e5 : Rs.sub (lessF a + occF s.r a) 1 = Res.ok (lessF a + occF s.r a - 1) := Rs.sub_ok (by omega)
  have e6 : Rs.add 64 s.matched 1 = Res.ok (s.matched + 1) := Rs.add_ok hm
  simp only [backward_search_for1, tup]
  by_cases hl : s.l > 0
  · have e1' : Rs.sub s.l 1 = Res.ok (s.l - 1) := by rcases e1 with h | h; exact h; exact absurd hl h
    have hl' : s.l ≠ 0 := by omega
    by_cases hc : lessF a + occF (s.l - 1) a > lessF a + occF s.r a - 1
    · simp [hl, hl', hc, e1', e2, e2', e4, e4', e5, e6, e6']
    · simp [hl, hl', hc, e1', e2, e2', e4, e4', e5, e6, e6']
  · have hl0 : s.l = 0 := by omega
    by_cases hc : lessF a > lessF a + occF s.r a - 1
    · simp [hl, hl0, hc, e3, e3', e4, e4', e5, e6, e6']
    · simp [hl, hl0, hc, e3, e3', e4, e4', e5, e6, e6']

/-- the interval bounds of the model's loop stay below `2^64` (so that `r + 1`, `pr + 1` do not overflow) -/
theorem loop_bounds : ∀ (rev : List Nat) (s : St),
    (∀ a ∈ rev, 1 ≤ lessF a ∧ ∀ r, lessF a + occF r a < 2 ^ 64) → s.r + 1 < 2 ^ 64 → s.pr + 1 < 2 ^ 64 →
    (loop lessF occF rev s).r + 1 < 2 ^ 64 ∧ (loop lessF occF rev s).pr + 1 < 2 ^ 64 := by
  intro rev
  induction rev with
  | nil => intro s _ h1 h2; exact ⟨h1, h2⟩
  | cons a rest ih =>
    intro s h h1 h2
    obtain ⟨hl, hb⟩ := h a (by simp)
    have := hb s.r
    rw [loop_cons]
    by_cases hc : lessF a + (if s.l > 0 then occF (s.l - 1) a else 0) > lessF a + occF s.r a - 1
    · rw [if_pos hc]
      exact ⟨by show lessF a + occF s.r a - 1 + 1 < 2 ^ 64; omega, h1⟩
    · rw [if_neg hc]
      exact ih _ (fun b hb' => h b (List.mem_cons_of_mem _ hb')) (by show lessF a + occF s.r a - 1 + 1 < 2 ^ 64; omega) h1

/-- the translated loop computes the model's `loop` (the flag says whether it was left through `break`) -/
theorem loop_eq : ∀ (rev : List Nat) (s : St),
    (∀ a ∈ rev, 1 ≤ lessF a ∧ ∀ r, lessF a + occF r a < 2 ^ 64) → s.matched + rev.length < 2 ^ 64 →
    ∃ b, rev.foldlM (backward_search_for1 lessF occF bwt) (tup s false) = Res.ok (tup (loop lessF occF rev s) b) := by
  intro rev
  induction rev with
  | nil => intro s _ _; exact ⟨false, rfl⟩
  | cons a rest ih =>
    intro s h hm
    obtain ⟨hl, hb⟩ := h a (by simp)
    simp only [List.length_cons] at hm
    rw [List.foldlM_cons, step_eq lessF occF bwt s a hl hb (by omega), Res.ok_bind, loop_cons]
    by_cases hc : lessF a + (if s.l > 0 then occF (s.l - 1) a else 0) > lessF a + occF s.r a - 1
    · rw [if_pos hc, if_pos hc]
      exact ⟨true, loop_broken lessF occF bwt _ rest⟩
    · rw [if_neg hc, if_neg hc]
      exact ih _ (fun b hb' => h b (List.mem_cons_of_mem _ hb')) (by show s.matched + 1 + rest.length < 2 ^ 64; omega)

/-- **`backward_search` as written in the source = the mirror model `BSModel.backwardSearch`** over the same abstract
`less` / `occ`, on an index of `bwt.len()` rows; the result enum is mapped by `toGen` -/
theorem backward_search_eq_model (pat : List Nat) (hn : 0 < bwt.length) (hn' : bwt.length < 2 ^ 64)
    (hm : pat.length < 2 ^ 64) (hless : ∀ a ∈ pat, 1 ≤ lessF a) (hb : ∀ a ∈ pat, ∀ r, lessF a + occF r a < 2 ^ 64) :
    backward_search lessF occF bwt pat = Res.ok (toGen (backwardSearch lessF occF bwt.length pat)) := by
  have hall : ∀ a ∈ pat.reverse, 1 ≤ lessF a ∧ ∀ r, lessF a + occF r a < 2 ^ 64 :=
    fun a ha => ⟨hless a (List.mem_reverse.mp ha), hb a (List.mem_reverse.mp ha)⟩
  obtain ⟨b, hloop⟩ := loop_eq lessF occF bwt pat.reverse ⟨0, bwt.length - 1, 0, bwt.length - 1, 0, true⟩ hall
    (by simp; omega)
  obtain ⟨hr, hpr⟩ := loop_bounds lessF occF pat.reverse ⟨0, bwt.length - 1, 0, bwt.length - 1, 0, true⟩ hall
    (by simp only []; omega) (by simp only []; omega)
  have e1 : Rs.sub bwt.length 1 = Res.ok (bwt.length - 1) := Rs.sub_ok (by omega)
  unfold backwardSearch finish
  generalize loop lessF occF pat.reverse ⟨0, bwt.length - 1, 0, bwt.length - 1, 0, true⟩ = s' at *
  have e2 : Rs.add 64 s'.r 1 = Res.ok (s'.r + 1) := Rs.add_ok hr
  have e3 : Rs.add 64 s'.pr 1 = Res.ok (s'.pr + 1) := Rs.add_ok hpr
  simp only [tup] at hloop
  by_cases hmz : s'.matched > 0
  · have hmz' : s'.matched ≠ 0 := by omega
    by_cases hc : s'.complete = true
    · simp [-List.foldlM_reverse, backward_search, e1, hloop, hmz, hmz', hc, e2, e3, toGen]
    · simp [-List.foldlM_reverse, backward_search, e1, hloop, hmz, hmz', hc, e2, e3, toGen]
  · have hmz' : s'.matched = 0 := by omega
    simp [-List.foldlM_reverse, backward_search, e1, hloop, hmz, hmz', toGen]

end RbV.Thm.GenSrcBackwardSearch
