import RbV.Gen.SrcFmdSmems
import RbV.Model.Smems
import RbV.Thm.GenSrcFmdExt
import RbV.Thm.GenSrcBasic
/-!
# The translated text of `FMDIndex::smems` equals the mirror model `SmemModel.smems`

`RbV/Gen/SrcFmdSmems.lean` is regenerated from `src/data_structures/fmindex.rs` by `tools/rs2lean_fm.py` (dialect "fmd")
on every `./check C06`.  The translated `smems` *calls* the translated `init_interval_with`, `forward_ext`,
`backward_ext` of `RbV/Gen/SrcFmdExt.lean` (which may panic); the `isize` variables `k`, `j`, `last_size` are `Int`s
(the model keeps `k + 1`, `j + 1` as naturals).

The equality is stated for **every** family of interval operations `ops : Ops Bi` that the translated extension
functions compute on a set of *safe* intervals (`SafeOps`: `S d iv` — "`iv` can be extended `d` more times without a
panic"; closed under the extensions by pattern symbols), and **up to the order of the result** (`List.Perm`): the
property fixes neither the value of an extension of an empty interval (seeded change C06-H1) nor the order in which the
matches are returned (C06-H2), nor what happens on the way to the empty answer when `pattern[i]` does not occur (C06-H4:
`smems_eq_model_of` takes "the model reports nothing then" as a hypothesis; the unconditional equality is the soft module
`RbV/Thm/GenSrcFmdSmemsModel.lean`).  `RbV/Thm/GenSrcFmdIndex.lean` instantiates `S` for an FMD index.
-/
set_option linter.unusedSimpArgs false
set_option linter.unusedVariables false

namespace RbV.Thm.GenSrcFmdSmems
open RbV RbV.Rs RbV.Gen RbV.Thm.GenSrc RbV.FMDModel RbV.SmemModel RbV.Thm.GenSrcFmdExt

/-- a candidate `(interval, match_len)` / a reported match as the translated code sees them -/
def pairT (p : Bi × Nat) : BiT × Nat := (toT p.1, p.2)
def hitT (h : Hit Bi) : BiT × Nat × Nat := (toT h.iv, h.pos, h.len)

/-- The translated extension functions compute `ops` on safe intervals.  `S d iv`: `iv` may be extended `d` more
times; `L`: bound of `match_len + d`. -/
structure SafeOps (lessF : Nat → Nat) (occF : Nat → Nat → Nat) (ops : Ops Bi) (S : Nat → Bi → Prop) (pat : List Nat) :
    Prop where
  size : ∀ iv, ops.size iv = iv.size
  mono : ∀ d iv, S (d + 1) iv → S d iv
  small : ∀ d iv, S d iv → iv.size < 2 ^ 63
  init : ∀ i, i < pat.length →
    SrcFmdExt.init_interval_with lessF dnaCompl (pat.getD i 0) = Res.ok (toT (ops.initWith i (pat.getD i 0))) ∧
      S pat.length (ops.initWith i (pat.getD i 0))
  fwd : ∀ d iv a, S (d + 1) iv → a ∈ pat →
    SrcFmdExt.forward_ext lessF occF dnaCompl (toT iv) a = Res.ok (toT (ops.fwd iv a)) ∧ S d (ops.fwd iv a)
  bwd : ∀ d iv a, S (d + 1) iv → (a ∈ pat ∨ a = 36) →
    SrcFmdExt.backward_ext lessF occF (toT iv) a = Res.ok (toT (ops.bwd iv a)) ∧ (ops.bwd iv a).size < 2 ^ 63 ∧
      (a ∈ pat → S d (ops.bwd iv a))

section
variable {lessF : Nat → Nat} {occF : Nat → Nat → Nat} {ops : Ops Bi} {S : Nat → Bi → Prop} {pat : List Nat}
  (hS : SafeOps lessF occF ops S pat)

/-- invariant of a candidate: safe for `d` more extensions, and its length can still grow `d` times -/
def PI (S : Nat → Bi → Prop) (pat : List Nat) (d : Nat) (p : Bi × Nat) : Prop := S d p.1 ∧ p.2 + d ≤ pat.length + 1

include hS in
theorem PI.mono {d : Nat} {p : Bi × Nat} (h : PI S pat (d + 1) p) : PI S pat d p :=
  ⟨hS.mono d p.1 h.1, by have := h.2; omega⟩

include hS in
theorem PI.mono_le {d d' : Nat} {p : Bi × Nat} (hd : d ≤ d') (h : PI S pat d' p) : PI S pat d p := by
  induction d' with
  | zero => have : d = 0 := by omega
            subst this; exact h
  | succ n ih =>
    by_cases he : d = n + 1
    · subst he; exact h
    · exact ih (by omega) (PI.mono hS h)

theorem isEmpty_map {α β : Type} (f : α → β) (l : List α) : (l.map f).isEmpty = l.isEmpty := by
  cases l <;> rfl

theorem getD_mem' (l : List Nat) (i : Nat) (h : i < l.length) : l.getD i 0 ∈ l := by
  rw [List.getD_eq_getElem?_getD, List.getElem?_eq_getElem h]
  exact List.getElem_mem h

theorem two63_lt : (2 : Nat) ^ 63 < 2 ^ 64 := by decide

theorem toSigned_small {x : Nat} (h : x < 2 ^ 63) : Rs.toSigned 64 x = (x : Int) := Rs.toSigned_of_lt h

/-! ### the forward sweep -/

include hS in
/-- the forward `for` loop follows `fwdLoop`; `D` further extensions remain after it -/
theorem for1_eq (D : Nat) : ∀ (rest : List Nat) (iv : Bi) (ml : Nat) (curr : List (Bi × Nat)),
    (∀ a ∈ rest, a ∈ pat) → S (rest.length + D) iv → ml + rest.length + D ≤ pat.length + 1 → pat.length + 1 < 2 ^ 63 →
    (∀ p ∈ curr, PI S pat D p) →
    SrcFmdSmems.smems_for1 lessF occF dnaCompl rest (curr.map pairT, toT iv, ml) =
        Res.ok (((fwdLoop ops rest iv ml curr).1).map pairT, toT (fwdLoop ops rest iv ml curr).2.1,
          (fwdLoop ops rest iv ml curr).2.2) ∧
      (∀ p ∈ (fwdLoop ops rest iv ml curr).1 ++ [((fwdLoop ops rest iv ml curr).2.1, (fwdLoop ops rest iv ml curr).2.2)],
        PI S pat D p) := by
  intro rest
  induction rest with
  | nil =>
    intro iv ml curr _ hs hml _ hc
    refine ⟨by simp [SrcFmdSmems.smems_for1, fwdLoop], ?_⟩
    intro p hp
    simp only [fwdLoop, List.mem_append, List.mem_singleton] at hp
    rcases hp with hp | rfl
    · exact hc p hp
    · exact ⟨by simpa using hs, by simp only [List.length_nil] at hml; omega⟩
  | cons a rest ih =>
    intro iv ml curr hsym hs hml hL hc
    have hs' : S ((rest.length + D) + 1) iv := by
      simpa [List.length_cons, Nat.add_right_comm] using hs
    obtain ⟨hf, hfs⟩ := hS.fwd (rest.length + D) iv a hs' (hsym a (by simp))
    have hivD : PI S pat D (iv, ml) :=
      PI.mono_le hS (by omega) (⟨hs', by simp only [List.length_cons] at hml; omega⟩ : PI S pat (rest.length + D + 1) (iv, ml))
    have e1 : Rs.add 64 ml 1 = Res.ok (ml + 1) := Rs.add_ok (by
      have := two63_lt; simp only [List.length_cons] at hml; omega)
    have e1' : Rs.add 64 1 ml = Res.ok (ml + 1) := by
      rw [Nat.add_comm ml]; exact Rs.add_ok (by have := two63_lt; simp only [List.length_cons] at hml; omega)
    have hsz := hS.size
    have hcurr' : ∀ p ∈ (if iv.size ≠ (ops.fwd iv a).size then curr ++ [(iv, ml)] else curr), PI S pat D p := by
      intro p hp
      split at hp
      · rw [List.mem_append, List.mem_singleton] at hp
        rcases hp with hp | rfl
        · exact hc p hp
        · exact hivD
      · exact hc p hp
    have hstep := ih (ops.fwd iv a) (ml + 1) (if iv.size ≠ (ops.fwd iv a).size then curr ++ [(iv, ml)] else curr)
      (fun x hx => hsym x (List.mem_cons_of_mem _ hx)) hfs (by simp only [List.length_cons] at hml; omega) hL hcurr'
    have hmapc : (if iv.size ≠ (ops.fwd iv a).size then curr ++ [(iv, ml)] else curr).map pairT =
        (if iv.size ≠ (ops.fwd iv a).size then curr.map pairT ++ [(toT iv, ml)] else curr.map pairT) := by
      split <;> simp [pairT]
    rw [hmapc] at hstep
    have hq1 : ((ops.fwd iv a).size != iv.size) = (iv.size != (ops.fwd iv a).size) := by
      rw [Bool.eq_iff_iff]; simp only [bne_iff_ne, ne_eq]; exact ⟨fun h e => h e.symm, fun h e => h e.symm⟩
    have hq2 : (0 == (ops.fwd iv a).size) = ((ops.fwd iv a).size == 0) := by
      rw [Bool.eq_iff_iff]; simp only [beq_iff_eq]; exact ⟨fun h => h.symm, fun h => h.symm⟩
    by_cases hne : iv.size = (ops.fwd iv a).size
    · by_cases hz : (ops.fwd iv a).size = 0
      · refine ⟨by simp [SrcFmdSmems.smems_for1, fwdLoop, hf, hsz, hq1, hq2, hne, hz, e1, e1'], ?_⟩
        intro p hp
        simp only [fwdLoop, hsz, hne, hz, ne_eq, not_true_eq_false, if_false, if_true, List.mem_append,
          List.mem_singleton] at hp
        rcases hp with hp | rfl
        · exact hc p hp
        · exact hivD
      · simp only [hne, ne_eq, not_true_eq_false, if_false] at hstep
        have hz' : ¬ 0 = (ops.fwd iv a).size := fun e => hz e.symm
        refine ⟨by simp [SrcFmdSmems.smems_for1, fwdLoop, hf, hsz, hq1, hq2, hne, hz, hz', e1, e1', hstep.1], ?_⟩
        simpa [fwdLoop, hsz, hne, hz] using hstep.2
    · by_cases hz : (ops.fwd iv a).size = 0
      · have hne0 : iv.size ≠ 0 := by rw [hz] at hne; exact hne
        have hne0' : ¬ 0 = iv.size := fun e => hne0 e.symm
        refine ⟨by simp [SrcFmdSmems.smems_for1, fwdLoop, hf, hsz, hq1, hq2, hne, hne0, hne0', hz, e1, e1', pairT], ?_⟩
        intro p hp
        simp only [fwdLoop, hsz, hne0, hz, ne_eq, not_false_eq_true, if_true, List.mem_append,
          List.mem_singleton] at hp
        rcases hp with (hp | rfl) | rfl
        · exact hc p hp
        · exact hivD
        · exact hivD
      · simp only [hne, ne_eq, not_false_eq_true, if_true] at hstep
        have hz' : ¬ 0 = (ops.fwd iv a).size := fun e => hz e.symm
        have hne' : ¬ (ops.fwd iv a).size = iv.size := fun e => hne e.symm
        refine ⟨by simp [SrcFmdSmems.smems_for1, fwdLoop, hf, hsz, hq1, hq2, hne, hne', hz, hz', e1, e1', hstep.1, pairT], ?_⟩
        simpa [fwdLoop, hsz, hne, hz] using hstep.2

/-! ### the backward sweep: `k`, `j` are `Int`s in the translation, `kk = k + 1`, `jj = j + 1` in the model -/

theorem k_eq_m1 (kk : Nat) : (((kk : Int) - 1) == (-1 : Int)) = (kk == 0) := by
  by_cases h : kk = 0
  · subst h; rfl
  · have h1 : ((kk : Int) - 1) ≠ -1 := by omega
    rw [beq_eq_false_iff_ne.mpr h1, beq_eq_false_iff_ne.mpr h]

theorem k_lt_j (kk jj : Nat) : decide (((kk : Int) - 1) < ((jj : Int) - 1)) = decide (kk < jj) := by
  by_cases h : kk < jj
  · have : ((kk : Int) - 1) < ((jj : Int) - 1) := by omega
    simp [h, this]
  · have : ¬ ((kk : Int) - 1) < ((jj : Int) - 1) := by omega
    simp [h, this]

theorem iadd_k (kk : Nat) (h : kk < 2 ^ 63) : Rs.iadd 64 ((kk : Int) - 1) 1 = Res.ok (kk : Int) := by
  have : InS 64 ((kk : Int) - 1 + 1) := by
    unfold InS
    have h63 : ((2 ^ (64 - 1) : Nat) : Int) = ((2 ^ 63 : Nat) : Int) := rfl
    rw [h63]
    omega
  rw [Rs.iadd_ok this]
  congr 1
  omega

theorem natCast_ne (a : Nat) (b : Int) : ((a : Int) != b) = ((a : Int) != b) := rfl

include hS in
/-- the inner `for (interval, match_len) in prev.iter()` loop follows `innerLoop` -/
theorem for3_eq (a kk d l : Nat) (ha : a ∈ pat ∨ a = 36) (hkk : kk < 2 ^ 63) (hL : pat.length + 1 < 2 ^ 63) :
    ∀ (prev : List (Bi × Nat)) (st : InnerSt Bi), (∀ p ∈ prev, PI S pat (d + 1) p) →
      SrcFmdSmems.smems_for3 lessF occF dnaCompl a ((kk : Int) - 1) l (prev.map pairT)
          ((st.jj : Int) - 1, st.ms.map hitT, st.last, st.curr.map pairT) =
        Res.ok (((innerLoop ops a kk l prev st).jj : Int) - 1, (innerLoop ops a kk l prev st).ms.map hitT,
          (innerLoop ops a kk l prev st).last, (innerLoop ops a kk l prev st).curr.map pairT) ∧
      (a ∈ pat → (∀ p ∈ st.curr, PI S pat d p) → ∀ p ∈ (innerLoop ops a kk l prev st).curr, PI S pat d p) := by
  intro prev
  induction prev with
  | nil => intro st _; exact ⟨by simp [SrcFmdSmems.smems_for3, innerLoop], fun _ h => by simpa [innerLoop] using h⟩
  | cons p rest ih =>
    intro st hprev
    obtain ⟨iv, ml⟩ := p
    have hp := hprev (iv, ml) (by simp)
    obtain ⟨hb, hbsz, hbs⟩ := hS.bwd d iv a hp.1 ha
    have hsz := hS.size
    have hml : ml + 1 < 2 ^ 64 := by have := hp.2; have := two63_lt; simp only at *; omega
    have e1 : Rs.add 64 ml 1 = Res.ok (ml + 1) := Rs.add_ok hml
    have e1' : Rs.add 64 1 ml = Res.ok (ml + 1) := by rw [Nat.add_comm ml]; exact Rs.add_ok (by omega)
    have e2 := iadd_k kk hkk
    have e3 : Rs.ofSigned 64 (kk : Int) = kk := Rs.ofSigned_natCast (by have := two63_lt; omega)
    have e4 := toSigned_small hbsz
    -- the two conditions, in the model's form
    generalize hhit : ((ops.size (ops.bwd iv a) == 0 || kk == 0) && st.curr.isEmpty && decide (kk < st.jj) &&
      decide (l ≤ ml)) = hit
    generalize hpush : (ops.size (ops.bwd iv a) != 0 && ((ops.size (ops.bwd iv a) : Nat) : Int) != st.last) = push
    have hhit' : ((((((ops.bwd iv a).size == 0) || (((kk : Int) - 1) == (-1 : Int))) && (st.curr.map pairT).isEmpty) &&
        (decide (((kk : Int) - 1) < ((st.jj : Int) - 1)))) && (decide (ml ≥ l))) = hit := by
      rw [← hhit, k_eq_m1, k_lt_j, isEmpty_map, hsz]
    have hpush' : (((ops.bwd iv a).size != 0) && ((((ops.bwd iv a).size : Nat) : Int) != st.last)) = push := by
      rw [← hpush, hsz]
    have hhit'' : ((((((((kk : Int) - 1) == (-1 : Int)) || ((ops.bwd iv a).size == 0))) && (st.curr.map pairT).isEmpty) &&
        (decide (((kk : Int) - 1) < ((st.jj : Int) - 1)))) && (decide (ml ≥ l))) = hit := by
      rw [Bool.or_comm]; exact hhit'
    have hpush'' : (((((ops.bwd iv a).size : Nat) : Int) != st.last) && ((ops.bwd iv a).size != 0)) = push := by
      rw [Bool.and_comm]; exact hpush'
    have hrec := ih ⟨if push then st.curr ++ [(ops.bwd iv a, ml + 1)] else st.curr,
      if push then ((ops.size (ops.bwd iv a) : Nat) : Int) else st.last,
      if hit then kk else st.jj, if hit then st.ms ++ [⟨iv, kk, ml⟩] else st.ms⟩
      (fun q hq => hprev q (List.mem_cons_of_mem _ hq))
    have hmodel : innerLoop ops a kk l ((iv, ml) :: rest) st =
        innerLoop ops a kk l rest ⟨if push then st.curr ++ [(ops.bwd iv a, ml + 1)] else st.curr,
          if push then ((ops.size (ops.bwd iv a) : Nat) : Int) else st.last,
          if hit then kk else st.jj, if hit then st.ms ++ [⟨iv, kk, ml⟩] else st.ms⟩ := by
      simp only [innerLoop, hhit, hpush]
    rw [hmodel]
    constructor
    · rw [← hrec.1]
      simp only [SrcFmdSmems.smems_for3, List.map_cons, pairT, hb, Res.ok_bind, toT_3, e4, hhit', hpush', hhit'', hpush'']
      cases hit <;> cases push <;>
        simp [e1, e1', e2, e3, hitT, pairT, hsz]
    · intro hapat hcurr
      apply hrec.2 hapat
      intro q hq
      simp only at hq
      split at hq
      · rw [List.mem_append, List.mem_singleton] at hq
        rcases hq with hq | rfl
        · exact hcurr q hq
        · exact ⟨hbs hapat, by have := hp.2; simp only at *; omega⟩
      · exact hcurr q hq

theorem bind_proj {α β : Type} {x : Res α} {f : α → β} {v : β} (h : (x >>= fun r => pure (f r)) = Res.ok v) :
    ∃ r, x = Res.ok r ∧ f r = v := by
  obtain ⟨r, hr, hv⟩ := Res.bind_eq_ok.mp h
  exact ⟨r, hr, by simpa using hv⟩

include hS in
/-- the outer `for k in (-1..i as isize).rev()` loop follows `outerLoop` (`n + 1` rounds remain) -/
theorem for2_eq (l : Nat) (ivT : BiT) (mlT : Nat) (hL : pat.length + 1 < 2 ^ 63) :
    ∀ (n : Nat) (prev : List (Bi × Nat)) (jj : Nat) (ms : List (Hit Bi)) (currT : List (BiT × Nat)),
      n ≤ pat.length → (∀ p ∈ prev, PI S pat (n + 1) p) →
      ∃ r, SrcFmdSmems.smems_for2 lessF occF dnaCompl pat ivT mlT l (Rs.downToM1 n)
          (currT, (jj : Int) - 1, ms.map hitT, prev.map pairT) = Res.ok r ∧
        r.2.2.1 = (outerLoop ops pat l n prev jj ms).map hitT := by
  intro n
  induction n with
  | zero =>
    intro prev jj ms currT _ hprev
    have h3 := (for3_eq hS 36 0 0 l (Or.inr rfl) (by decide) hL prev ⟨[], -1, jj, ms⟩ hprev).1
    have hk : ((0 : Nat) : Int) - 1 = -1 := rfl
    rw [hk] at h3
    simp only [List.map_nil] at h3
    apply bind_proj
    simp only [SrcFmdSmems.smems_for2, Rs.downToM1, outerLoop, h3, Res.ok_bind, Res.pure_eq_ok, beq_self_eq_true,
      if_true, bind_pure_comp, pure_bind, map_pure]
    split <;> simp [SrcFmdSmems.smems_for2]
  | succ n ih =>
    intro prev jj ms currT hn hprev
    have hmem : pat.getD n 0 ∈ pat := getD_mem' pat n (by omega)
    have h3 := for3_eq hS (pat.getD n 0) (n + 1) (n + 1) l (Or.inl hmem) (by omega) hL prev ⟨[], -1, jj, ms⟩ hprev
    have hk : ((n + 1 : Nat) : Int) - 1 = (n : Int) := by omega
    rw [hk] at h3
    simp only [List.map_nil] at h3
    have hcur := h3.2 hmem (by intro p hp; simp at hp)
    have e1 : ((n : Int) == (-1 : Int)) = false := beq_eq_false_iff_ne.mpr (by omega)
    have e2 : Rs.ofSigned 64 (n : Int) = n := Rs.ofSigned_natCast (by have := two63_lt; omega)
    have e3 : Rs.idx pat n = Res.ok (pat.getD n 0) := RbV.Thm.GenSrc.idx_getD pat n 0 (by omega)
    by_cases he : (innerLoop ops (pat.getD n 0) (n + 1) l prev ⟨[], -1, jj, ms⟩).curr.isEmpty = true
    · apply bind_proj
      simp only [SrcFmdSmems.smems_for2, Rs.downToM1, outerLoop, h3.1, he, isEmpty_map, e1, e2, e3, Res.ok_bind,
        Res.pure_eq_ok, if_true, if_false, bind_pure_comp, pure_bind, map_pure, Bool.false_eq_true]
    · obtain ⟨r, hrec, hr3⟩ := ih (innerLoop ops (pat.getD n 0) (n + 1) l prev ⟨[], -1, jj, ms⟩).curr
        (innerLoop ops (pat.getD n 0) (n + 1) l prev ⟨[], -1, jj, ms⟩).jj
        (innerLoop ops (pat.getD n 0) (n + 1) l prev ⟨[], -1, jj, ms⟩).ms (prev.map pairT) (by omega) hcur
      refine ⟨r, ?_, ?_⟩
      · simp only [SrcFmdSmems.smems_for2, Rs.downToM1, h3.1, he, isEmpty_map, e1, e2, e3, Res.ok_bind,
          Res.pure_eq_ok, if_true, if_false, bind_pure_comp, pure_bind, map_pure, Bool.false_eq_true, hrec]
      · rw [hr3]
        simp only [outerLoop, he, if_false, Bool.false_eq_true]

/-! ### `smems` -/

include hS in
/-- **the translated `smems` returns the mirror model's matches (over the operations the translated extension functions
compute), up to their order.**  `hdead`: when `pattern[i]` does not occur (the initial interval is empty) the model
reports nothing — true for `l ≥ 1` on every index (`smems_dead`); the property says nothing else about this case, so a
text that returns the empty list right away (seeded change C06-H4) is accepted as well as one that runs the sweep on the
empty interval.  The unconditional step-by-step equality is the soft `GenSrcFmdSmemsModel.smems_eq_model`. -/
theorem smems_eq_model_of (i l : Nat) (hi : i < pat.length) (hL : pat.length + 1 < 2 ^ 63)
    (hdead : (ops.initWith i (pat.getD i 0)).size = 0 → SmemModel.smems ops pat i l = []) :
    ∃ res, SrcFmdSmems.smems lessF occF dnaCompl pat i l = Res.ok res ∧
      res.Perm ((SmemModel.smems ops pat i l).map hitT) := by
  obtain ⟨hinit, hinitS⟩ := hS.init i hi
  have hsz := hS.size
  have e0 : Rs.idx pat i = Res.ok (pat.getD i 0) := RbV.Thm.GenSrc.idx_getD pat i 0 hi
  have e1 : Rs.add 64 i 1 = Res.ok (i + 1) := Rs.add_ok (by have := two63_lt; omega)
  have e1' : Rs.add 64 1 i = Res.ok (i + 1) := by rw [Nat.add_comm i]; exact Rs.add_ok (by have := two63_lt; omega)
  have e2 : Rs.add 64 0 1 = Res.ok 1 := Rs.add_ok (by decide)
  have e2' : Rs.add 64 1 0 = Res.ok 1 := Rs.add_ok (by decide)
  have e3 : Rs.slice pat (i + 1) pat.length = Res.ok (pat.drop (i + 1)) := by
    rw [Rs.slice_ok (by omega) (Nat.le_refl _)]
    congr 1
    rw [List.take_of_length_le]
    simp
  have e4 : Rs.toSigned 64 pat.length = (pat.length : Int) := toSigned_small (by omega)
  have e5 : Rs.toSigned 64 i = (i : Int) := toSigned_small (by omega)
  generalize hml0 : (if ops.size (ops.initWith i (pat.getD i 0)) ≠ 0 then 1 else 0) = ml0
  have hml0' : (if (ops.initWith i (pat.getD i 0)).size ≠ 0 then 1 else 0) = ml0 := by rw [← hml0, hsz]
  have hml0le : ml0 ≤ 1 := by rw [← hml0]; split <;> omega
  have hdrop : (pat.drop (i + 1)).length = pat.length - (i + 1) := List.length_drop
  have hf := for1_eq hS (i + 1) (pat.drop (i + 1)) (ops.initWith i (pat.getD i 0)) ml0 []
    (fun a ha => List.mem_of_mem_drop ha) (by rw [hdrop]; have : pat.length - (i + 1) + (i + 1) = pat.length := by omega
                                              rw [this]; exact hinitS)
    (by rw [hdrop]; omega) hL (by intro p hp; simp at hp)
  simp only [List.map_nil] at hf
  obtain ⟨r2, h2, hr2⟩ := for2_eq hS l (toT (fwdLoop ops (pat.drop (i + 1)) (ops.initWith i (pat.getD i 0)) ml0 []).2.1)
    (fwdLoop ops (pat.drop (i + 1)) (ops.initWith i (pat.getD i 0)) ml0 []).2.2 hL i
    (forwardPhase ops pat i) (pat.length + 1) [] [] (by omega)
    (by
      intro p hp
      apply hf.2 p
      simp only [forwardPhase, hml0, List.mem_reverse] at hp
      exact hp)
  have hfp : (forwardPhase ops pat i).map pairT =
      (((fwdLoop ops (pat.drop (i + 1)) (ops.initWith i (pat.getD i 0)) ml0 []).1).map pairT ++
        [(toT (fwdLoop ops (pat.drop (i + 1)) (ops.initWith i (pat.getD i 0)) ml0 []).2.1,
          (fwdLoop ops (pat.drop (i + 1)) (ops.initWith i (pat.getD i 0)) ml0 []).2.2)]).reverse := by
    simp only [forwardPhase, hml0, pairT, List.map_reverse, List.map_append, List.map_cons, List.map_nil]
  have hjj : ((pat.length + 1 : Nat) : Int) - 1 = (pat.length : Int) := by omega
  rw [hfp, hjj] at h2
  simp only [List.map_nil, List.reverse_append, List.reverse_cons, List.reverse_nil, List.nil_append,
    List.singleton_append, List.cons_append] at h2
  have hrev := Rs.irange_m1_rev i
  by_cases hz : (ops.initWith i (pat.getD i 0)).size = 0
  · have hM := hdead hz
    first
      | -- a text that leaves at once when the symbol is absent
        (refine ⟨[], ?_, ?_⟩
         · simp [-List.getD_eq_getElem?_getD, SrcFmdSmems.smems, e0, hinit, hz]
         · rw [hM]; exact List.Perm.refl _)
      | -- a text that runs the sweep on the empty interval
        (have hm : ml0 = 0 := by rw [← hml0', if_neg (by simpa using hz)]
         subst hm
         have hmodel : SmemModel.smems ops pat i l = outerLoop ops pat l i (forwardPhase ops pat i) (pat.length + 1) [] := rfl
         rw [hmodel, ← hr2]
         simp [-List.getD_eq_getElem?_getD, SrcFmdSmems.smems, e0, hinit, hz, e1, e1', e2, e2', e3, hf.1, e4, e5, hrev, h2,
           List.reverse_perm])
  · have hm : ml0 = 1 := by rw [← hml0', if_pos (by simpa using hz)]
    subst hm
    have hmodel : SmemModel.smems ops pat i l = outerLoop ops pat l i (forwardPhase ops pat i) (pat.length + 1) [] := rfl
    rw [hmodel, ← hr2]
    simp [-List.getD_eq_getElem?_getD, SrcFmdSmems.smems, e0, hinit, hz, e1, e1', e2, e2', e3, hf.1, e4, e5, hrev, h2,
      List.reverse_perm]

end
end RbV.Thm.GenSrcFmdSmems
