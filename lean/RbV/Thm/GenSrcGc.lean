import RbV.Gen.SrcGc
import RbV.Spec.Gc
import RbV.Thm.GenSrcBasic
/-!
# The translated text of `gc::gcn_content` (counting part) equals the GC model

`RbV/Gen/SrcGc.lean` is regenerated from `src/seq_analysis/gc.rs` on every `./check C20` (dialect "cf": `step_by`, `fold`
with a closure over a `match` with `|` alternatives).  The `f32` conversion and division stay outside: `x as f32` and `/`
are the abstract parameters `toF32`, `fdiv` of the generated definition, so the theorem says *which two integers* are
converted and divided: the number of `C G c g` among the symbols at positions `0, step, 2·step, …` and the number of
those positions.  `Rs.stepBy` (`RsSem.lean`) panics for `step = 0`, as `Iterator::step_by` does.
-/
set_option linter.unusedSimpArgs false
namespace RbV.Thm.GenSrcGc
open RbV RbV.Rs RbV.Gen.SrcGc
variable {F : Type}

theorem stepByGo_length_le {α : Type} (n : Nat) : ∀ (l : List α) (k : Nat), (Rs.stepByGo n k l).length ≤ l.length := by
  intro l
  induction l with
  | nil => intro k; simp [Rs.stepByGo]
  | cons a t ih =>
    intro k
    cases k with
    | zero => simp only [Rs.stepByGo, List.length_cons]; have := ih (n - 1); omega
    | succ k => simp only [Rs.stepByGo, List.length_cons]; have := ih k; omega

/-- the closure of the `fold`: `(l, count) ↦ (l + 1, count + [symbol is one of C G c g])` -/
theorem fold_step (toF32 : Nat → F) (fdiv : F → F → F) (l c a : Nat) (hl : l + 1 < 2 ^ 64) (hc : c ≤ l) :
    gcnContent_fold1 toF32 fdiv (l, c) a = Res.ok (l + 1, c + if Gc.isGC a then 1 else 0) := by
  have e1 : Rs.add 64 l 1 = Res.ok (l + 1) := Rs.add_ok hl
  have e2 : Rs.add 64 c 1 = Res.ok (c + 1) := Rs.add_ok (by omega)
  have e1' : Rs.add 64 1 l = Res.ok (l + 1) := by rw [Nat.add_comm l 1]; exact Rs.add_ok (by omega)
  have e2' : Rs.add 64 1 c = Res.ok (c + 1) := by rw [Nat.add_comm c 1]; exact Rs.add_ok (by omega)
  cases hg : Gc.isGC a
  · unfold Gc.isGC at hg
    simp only [Bool.or_eq_false_iff, beq_eq_false_iff_ne, ne_eq] at hg
    simp [gcnContent_fold1, e1, e2, e1', e2', hg]
  · unfold Gc.isGC at hg
    simp only [Bool.or_eq_true, beq_iff_eq] at hg
    rcases hg with ((rfl | rfl) | rfl) | rfl <;> simp [gcnContent_fold1, e1, e2, e1', e2']

theorem fold_eq (toF32 : Nat → F) (fdiv : F → F → F) :
    ∀ (s : List Nat) (l c : Nat), l + s.length < 2 ^ 64 → c ≤ l →
      s.foldlM (gcnContent_fold1 toF32 fdiv) (l, c) = Res.ok (l + s.length, c + Gc.gcCount s) := by
  intro s
  induction s with
  | nil => intro l c _ _; simp [Gc.gcCount]
  | cons a t ih =>
    intro l c hl hc
    simp only [List.length_cons] at hl
    have hb := fold_step toF32 fdiv l c a (by omega) hc
    have := ih (l + 1) (c + if Gc.isGC a then 1 else 0) (by omega) (by split <;> omega)
    simp only [List.foldlM_cons, hb, Res.ok_bind, this, List.length_cons, Gc.gcCount, List.countP_cons]
    congr 2 <;> omega

/-- **`gcn_content` as written in the source**: for a positive `step` and a sequence shorter than `2^64` the translated
function does not panic and returns `count as f32 / l as f32` where `l` is the number of sampled positions
`0, step, 2·step, …` and `count` the number of `C G c g` among the symbols there. -/
theorem gcnContent_eq_model (toF32 : Nat → F) (fdiv : F → F → F) (s : List Nat) (step : Nat) (hstep : 0 < step)
    (hlen : s.length < 2 ^ 64) :
    gcnContent toF32 fdiv s step
      = Res.ok (fdiv (toF32 (Gc.gcCount (Rs.stepByGo step 0 s))) (toF32 (Rs.stepByGo step 0 s).length)) := by
  have h := fold_eq toF32 fdiv (Rs.stepByGo step 0 s) 0 0 (by have := stepByGo_length_le step s 0; omega) (Nat.le_refl _)
  simp only [Nat.zero_add] at h
  simp [gcnContent, Rs.stepBy_ok hstep, h]

/-- `step_by(0)` panics -/
theorem gcnContent_step_zero_panics (toF32 : Nat → F) (fdiv : F → F → F) (s : List Nat) :
    gcnContent toF32 fdiv s 0 = Res.panic := by simp [gcnContent, Rs.stepBy]

/-- every third symbol, starting with the first: the model `every3 · 0` of the driver -/
theorem stepByGo3_eq_every3 : ∀ s : List Nat, Rs.stepByGo 3 0 s = Gc.every3 s 0
  | [] => by decide
  | [a] => by simp [Rs.stepByGo, Gc.every3]
  | [a, b] => by simp [Rs.stepByGo, Gc.every3]
  | a :: b :: c :: t => by
    have ih := stepByGo3_eq_every3 t
    have hlen : ((a :: b :: c :: t).length + 2 - 0) / 3 = (t.length + 2 - 0) / 3 + 1 := by
      simp only [List.length_cons]; omega
    simp only [Rs.stepByGo, ih, Gc.every3, hlen, List.range_succ_eq_map, List.map_cons, List.map_map]
    simp only [Nat.zero_add, Nat.mul_zero, Nat.sub_zero]
    have hf : ∀ i, ((fun i => (a :: b :: c :: t).getD (3 * i) 0) ∘ Nat.succ) i = t.getD (3 * i) 0 := by
      intro i
      have : 3 * (i + 1) = 3 * i + 1 + 1 + 1 := by omega
      simp only [Function.comp, Nat.succ_eq_add_one, this, List.getD_cons_succ]
    rw [List.map_congr_left (fun i _ => hf i)]
    simp

example : gcnContent (F := Nat × Nat) (fun n => (n, 1)) (fun a b => (a.1, b.1)) [71, 65, 84, 65, 84, 65, 67, 65] 3
    = Res.ok (2, 3) := by decide
example : gcnContent (F := Nat × Nat) (fun n => (n, 1)) (fun a b => (a.1, b.1)) [71, 65, 84, 65, 84, 65, 67, 65] 1
    = Res.ok (2, 8) := by decide

end RbV.Thm.GenSrcGc
