import RbV.Thm.C09
import RbV.Thm.GenSrcMyersNew
import RbV.Thm.GenSrcMyersNewLong
/-!
# Soft module (tools/gen_tables.py: `soft_modules`, failure = note, never a broken obligation): the constructors of the Myers matchers

Word-level statements about the tables `new_ambig` stores.  They are *not* property-level: the bits of a mask above the pattern
length are not determined by C09 (seeded C09-H2 changes them and is property-preserving), and the proofs follow the shape of the
translated loops.  Restated here (not in `Thm/C09.lean`) so that such a rewrite gives a note, not an alarm.
-/
namespace RbV.Thm.C09soft
open RbV.EditDist RbV.Thm.C09

/-! ### The constructors on the translated source text (genlong)

`RbV/Gen/SrcMyersSimpleNew.lean` (`Myers::new`, `new_ambig` of simple.rs), `RbV/Gen/SrcMyersLongCtor.lean` (of long.rs),
`RbV/Gen/SrcMyersBuilder.lean` (`MyersBuilder::{ambig, text_wildcard, build, build_long}`).  Proofs: `Thm/GenSrcMyersNew.lean`. -/

/-- **`Myers::new_ambig` of simple.rs, as written, builds the per-symbol equality masks**: entry `a` of `peq` is the model's mask
of text symbol `a` under "equal or listed in the ambiguity map" (`eqvA`), replaced by `T::max_value()` for every text wildcard
(`tabWord`); `bound = 1 << (m − 1)`; `m`; an empty states store.  No panic for a pattern of `1..w` bytes (the two `assert!`s, the
`from_usize(..).unwrap()`s, `T::one() << i`).  Word types of `8n` bits; `w` and `m` must fit `DistType`. -/
theorem myers_new_source_eq_model (w wd : Nat) (p : List Nat) (amb : Option (List (Nat × List Nat))) (wild : Option (List Nat))
    (hw8 : w / 8 * 8 = w) (hw64 : w < 2 ^ 64) (hwwd : w < 2 ^ wd) (hm1 : 1 ≤ p.length) (hmw : p.length ≤ w)
    (hb : ∀ c ∈ p, c < 256) (hamb : RbV.Thm.GenSrcMyersNew.AmbOk amb) (hwild : ∀ c ∈ wild.getD [], c < 256) :
    RbV.Gen.SrcMyersSimpleNew.newAmbig (w := w) (wd := wd) (pattern := p) (opt_ambigs := amb) (opt_wildcards := wild) =
      RbV.Rs.Res.ok (RbV.Thm.GenSrc.tab 256 (RbV.Thm.GenSrcMyersNew.tabWord w amb wild p), 2 ^ (p.length - 1), p.length, []) :=
  RbV.Thm.GenSrcMyersNew.newAmbig_eq_model w wd p amb wild hw8 hw64 hwwd hm1 hmw hb hamb hwild

/-- on the pattern bits `i < m` — all the search reads — the constructor's words are the masks of the property's symbol
equivalence (identity, ambiguity map, text wildcards: `Drv/C09.lean: mkEqv`) -/
theorem myers_new_source_masks_correct (w : Nat) (amb : Option (List (Nat × List Nat))) (wild : Option (List Nat)) (p : List Nat)
    (a i : Nat) (hi : i < p.length) (hw : p.length ≤ w) :
    (RbV.Thm.GenSrcMyersNew.tabWord w amb wild p a).testBit i = RbV.Thm.GenSrcMyersNew.eqvOf amb wild p[i] a :=
  RbV.Thm.GenSrcMyersNew.tabWord_bit w amb wild p a i hi hw

/-- **from the translated constructor to the specification** (no text wildcards: `Myers::new`, `MyersBuilder` with `ambig` only):
whatever `new_ambig(pattern, opt_ambigs, None)` returns, `find_all_end` on it yields exactly the Sellers hits of the ambiguity
equivalence — translated constructor → translated `Matches::new` → translated `next` until `None`; the statement names no
model-side table.  (With text wildcards the stored words differ from the model's `peqTab` in the bits `≥ m`, which the search
never reads — `myers_new_source_masks_correct`; the composition for that case is not proved: the mirror model's states are
compared word by word.) -/
theorem myers_find_all_end_source_exact_from_new (w wd : Nat) (p t : List Nat) (k : Nat)
    (amb : Option (List (Nat × List Nat))) (hw8 : w / 8 * 8 = w) (hw1 : 1 < w) (hw64 : w < 2 ^ 64) (hwwd : w < 2 ^ wd)
    (hm1 : 1 ≤ p.length) (hmw : p.length ≤ w) (hb : ∀ c ∈ p, c < 256) (hamb : RbV.Thm.GenSrcMyersNew.AmbOk amb)
    (hbt : ∀ c ∈ t, c < 256) (h64 : t.length < 2 ^ 64) :
    (do let (peq, bound, m, _) ← RbV.Gen.SrcMyersSimpleNew.newAmbig (w := w) (wd := wd) (pattern := p) (opt_ambigs := amb)
          (opt_wildcards := none)
        RbV.Thm.GenSrcMyersMatches.findAllSrc w wd peq bound m t k) =
      RbV.Rs.Res.ok (hits (unitW (RbV.Thm.GenSrcMyersNew.eqvA amb)) p t k) := by
  rw [RbV.Thm.GenSrcMyersNew.newAmbig_eq_model w wd p amb none hw8 hw64 hwwd hm1 hmw hb hamb (by simp)]
  simp only [RbV.Rs.Res.ok_bind, RbV.Thm.GenSrcMyersNew.tabWord_no_wild]
  exact myers_find_all_end_source_exact w wd (RbV.Thm.GenSrcMyersNew.eqvA amb) p t k hw1 hm1 hmw (by omega) (by omega) hbt h64

/-- `MyersBuilder::ambig` / `text_wildcard` / `build` / `build_long`, as written -/
theorem myers_builder_source_eq_model (w wd : Nat) (ambigs : List (Nat × List Nat)) (wild : List Nat) (byte : Nat)
    (eqs p : List Nat) (c : Nat) :
    RbV.Gen.SrcMyersBuilder.ambig (w := w) (wd := wd) (ambigs := ambigs) (wildcards := wild) (byte := byte) (equivalents := eqs) =
      RbV.Rs.Res.ok (RbV.Rs.hmInsert ambigs byte (eqs ++ [byte])) ∧
    (∀ k', RbV.Rs.hmGet (RbV.Rs.hmInsert ambigs byte (eqs ++ [byte])) k' =
      if k' = byte then some (eqs ++ [byte]) else RbV.Rs.hmGet ambigs k') ∧
    RbV.Gen.SrcMyersBuilder.textWildcard (w := w) (wd := wd) (ambigs := ambigs) (wildcards := wild) (wildcard := c) =
      RbV.Rs.Res.ok (wild ++ [c]) ∧
    RbV.Gen.SrcMyersBuilder.build (w := w) (wd := wd) (ambigs := ambigs) (wildcards := wild) (pattern := p) =
      RbV.Gen.SrcMyersSimpleNew.newAmbig (w := w) (wd := wd) (pattern := p) (opt_ambigs := some ambigs) (opt_wildcards := some wild) ∧
    RbV.Gen.SrcMyersBuilder.buildLong (w := w) (wd := wd) (ambigs := ambigs) (wildcards := wild) (pattern := p) =
      RbV.Gen.SrcMyersLongCtor.newAmbig (w := w) (pattern := p) (opt_ambigs := some ambigs) (opt_wildcards := some wild) :=
  ⟨RbV.Thm.GenSrcMyersNew.ambig_eq_model w wd ambigs wild byte eqs,
   fun k' => RbV.Thm.GenSrcMyersNew.hmGet_hmInsert ambigs byte (eqs ++ [byte]) k',
   RbV.Thm.GenSrcMyersNew.textWildcard_eq_model w wd ambigs wild c,
   RbV.Thm.GenSrcMyersNew.build_eq_model w wd ambigs wild p, RbV.Thm.GenSrcMyersNew.buildLong_eq_model w wd ambigs wild p⟩

-- non-vacuity: the translated constructors evaluated (`u8` words; pattern 1 2 1; symbol 2 also matches 7; wildcard 9)
set_option maxRecDepth 40000 in
example : (RbV.Gen.SrcMyersSimpleNew.newAmbig (w := 8) (wd := 8) (pattern := [1, 2, 1])
      (opt_ambigs := some [(2, [7, 2])]) (opt_wildcards := some [9]) >>= fun r => pure (r.1.take 10, r.2.1, r.2.2.1)) =
    RbV.Rs.Res.ok ([0, 0b101, 0b010, 0, 0, 0, 0, 0b010, 0, 255], 0b100, 3) := by decide
example : (do let r ← RbV.Gen.SrcMyersSimpleNew.new (w := 8) (wd := 8) (pattern := []); pure r.2.1) = RbV.Rs.Res.panic := by decide
example : (do let r ← RbV.Gen.SrcMyersSimpleNew.new (w := 8) (wd := 8) (pattern := [1, 1, 1, 1, 1, 1, 1, 1, 1]); pure r.2.1) =
    RbV.Rs.Res.panic := by decide
set_option maxRecDepth 40000 in
example : (RbV.Gen.SrcMyersLongCtor.new (w := 8) (pattern := [1, 2, 1, 1, 2, 1, 1, 2, 1, 3]) >>= fun r =>
    pure (r.1.map (fun b => (b.1.take 4, b.2)), r.2.1)) =
    RbV.Rs.Res.ok ([([0, 0b01101101, 0b10010010, 0], 128), ([0, 0b01, 0, 0b10], 2)], 10) := by decide

/-- **`long::Myers::new_ambig`, as written, builds one `Peq` per block**: `pattern.chunks(w)` are the model's blocks
`blocksOf w p`; per block the table `tabWord` of the block's symbols (all-ones for text wildcards) and `bound = 1 << (len − 1)`;
`m`; an empty states store.  No panic for a pattern of `1 ..= usize::MAX / 2` bytes. -/
theorem myers_long_new_source_eq_model (w : Nat) (p : List Nat) (amb : Option (List (Nat × List Nat)))
    (wild : Option (List Nat)) (hw : 1 ≤ w) (hw64 : w < 2 ^ 64) (hm1 : 1 ≤ p.length)
    (hm : p.length ≤ 18446744073709551615 / 2) (hb : ∀ c ∈ p, c < 256) (hamb : RbV.Thm.GenSrcMyersNew.AmbOk amb)
    (hwild : ∀ c ∈ wild.getD [], c < 256) :
    RbV.Gen.SrcMyersLongCtor.newAmbig (w := w) (pattern := p) (opt_ambigs := amb) (opt_wildcards := wild) =
      RbV.Rs.Res.ok ((RbV.Model.MyersLong.blocksOf w p).map (RbV.Thm.GenSrcMyersNewLong.peqOf w amb wild), p.length, []) :=
  RbV.Thm.GenSrcMyersNewLong.long_newAmbig_eq_model w p amb wild hw hw64 hm1 hm hb hamb hwild

/-- … without text wildcards these are the model's tables `peqL` -/
theorem myers_long_new_source_tables_are_peqL (w : Nat) (amb : Option (List (Nat × List Nat))) (blks : List (List Nat)) :
    blks.map (RbV.Thm.GenSrcMyersNewLong.peqOf w amb none) =
      RbV.Thm.GenSrcMyersLongStep.peqL w (RbV.Thm.GenSrcMyersNew.eqvA amb) blks :=
  RbV.Thm.GenSrcMyersNewLong.peqOf_no_wild w amb blks

/-- **block-based matcher, from the translated constructor to the specification** (no text wildcards: `long::Myers::new`,
`build_long` with `ambig` only): translated `new_ambig` → translated `Matches::new` → translated `next` until `None` = the
Sellers hits of the ambiguity equivalence; no model-side table is named -/
theorem myers_long_find_all_end_source_exact_from_new (w : Nat) (p t : List Nat) (k : Nat)
    (amb : Option (List (Nat × List Nat))) (hw : 2 ≤ w) (hw62 : w < 2 ^ 62) (hm1 : 1 ≤ p.length)
    (h63 : p.length + w + 2 < 2 ^ 63) (hb : ∀ c ∈ p, c < 256) (hamb : RbV.Thm.GenSrcMyersNew.AmbOk amb)
    (hbt : ∀ c ∈ t, c < 256) (h64 : t.length < 2 ^ 64) :
    (do let (peq, m, _) ← RbV.Gen.SrcMyersLongCtor.newAmbig (w := w) (pattern := p) (opt_ambigs := amb) (opt_wildcards := none)
        RbV.Thm.GenSrcMyersLongMatches.findAllSrc w peq m t k) =
      RbV.Rs.Res.ok (hits (unitW (RbV.Thm.GenSrcMyersNew.eqvA amb)) p t k) := by
  rw [RbV.Thm.GenSrcMyersNewLong.long_newAmbig_eq_model w p amb none (by omega) (by omega) hm1 (by omega) hb hamb (by simp)]
  simp only [RbV.Rs.Res.ok_bind, RbV.Thm.GenSrcMyersNewLong.peqOf_no_wild]
  exact myers_long_find_all_end_source_exact_every_width w (RbV.Thm.GenSrcMyersNew.eqvA amb) p t k hw hw62 hm1 h63 hbt h64

end RbV.Thm.C09soft
