import RbV.Gen.SrcHmmBackward
import RbV.Lemmas.HmmSrc
/-!
# The translated text of `hmm::backward` equals the mirror model `Hmm.backward` (at exact weights)

`RbV/Gen/SrcHmmBackward.lean` is regenerated from `src/stats/hmm/mod.rs` on every `./check C14`.  Instantiated at exact
numerators (`Rs.natOps`) and a specification-level model (`Rs.hmmOps m`) the translated function returns — without panic —
the table of backward rows (`brow`: row `i` = the backward column for the last `i` observations) and the likelihood of the
mirror model, for every model and every non-empty observation sequence (shorter than 2^64, as every slice is: the loop
computes `i + 1` in `usize`).  The three branches of the loop (`i == 0` with the `len > 1` test inside, `i == len - 1`, else)
are followed under one invariant on the table and on `prob_vec_final`.
-/
set_option linter.unusedSimpArgs false
set_option linter.unusedVariables false

namespace RbV.Thm.GenSrcHmmBackward
open RbV RbV.Rs RbV.Hmm RbV.Gen.SrcHmmBackward

/-- row `i` of the backward table: the backward column for the last `i` observations -/
def brow (m : Hmm) (obs : List Nat) (i : Nat) : List Nat := bcol m (obs.drop (obs.length - i))

theorem bcol_length (m : Hmm) (os : List Nat) : (bcol m os).length = m.S := by
  cases os <;> simp [bcol, stepB, tab]

theorem brow_length (m : Hmm) (obs : List Nat) (i : Nat) : (brow m obs i).length = m.S := bcol_length _ _

theorem brow_zero (m : Hmm) (obs : List Nat) : brow m obs 0 = tab m.S m.fin := by
  simp [brow, bcol]

theorem brow_succ (m : Hmm) (obs : List Nat) {i b : Nat} (hi : i < obs.length) (hb : obs.reverse[i]? = some b) :
    brow m obs (i + 1) = stepB m (brow m obs i) b := by
  have h1 : obs.length - (i + 1) < obs.length := by omega
  have hb' : obs[obs.length - (i + 1)] = b := by
    rw [List.getElem?_reverse (by omega)] at hb
    have e : obs.length - 1 - i = obs.length - (i + 1) := by omega
    rw [e, List.getElem?_eq_getElem h1] at hb
    exact Option.some.inj hb
  unfold brow
  rw [List.drop_eq_getElem_cons h1, hb', show obs.length - (i + 1) + 1 = obs.length - i by omega]
  rfl

/-- the summands of the final sum -/
def pvFinal (m : Hmm) (obs : List Nat) : List Nat :=
  (List.range m.S).map fun k => ix (brow m obs (obs.length - 1)) k * m.init k * m.emit k (obs.getD 0 0)

theorem pvFinal_sum (m : Hmm) (obs : List Nat) (h : obs ≠ []) : (pvFinal m obs).sum = Hmm.backward m obs := by
  cases obs with
  | nil => exact absurd rfl h
  | cons o os => simp [pvFinal, Hmm.backward, finalB, sumS, brow]

/-- the table: `f` rows written -/
def VInv (m : Hmm) (obs : List Nat) (f : Nat) (vals : List (List Nat)) : Prop :=
  vals.length = obs.length ∧ (∀ t, t < obs.length → ∃ r, vals[t]? = some r ∧ r.length = m.S) ∧
  (∀ t, t < f → vals[t]? = some (brow m obs t))

theorem VInv.set {m : Hmm} {obs : List Nat} {f : Nat} {vals : List (List Nat)} (h : VInv m obs f vals) (hf : f < obs.length)
    {r : List Nat} (hr : r = brow m obs f) : VInv m obs (f + 1) (vals.set f r) := by
  obtain ⟨h1, h2, h3⟩ := h
  refine ⟨by simp [h1], ?_, ?_⟩
  · intro t ht
    by_cases htf : t = f
    · subst htf; exact ⟨r, by simp [h1, hf], by rw [hr]; exact brow_length _ _ _⟩
    · rw [List.getElem?_set_ne (by omega)]; exact h2 t ht
  · intro t ht
    by_cases htf : t = f
    · subst htf; simp [h1, hf, hr]
    · rw [List.getElem?_set_ne (by omega)]; exact h3 t (by omega)

/-- number of rows written after `j` iterations -/
def filled (n j : Nat) : Nat := if j = 0 then 0 else min (j + 1) n

def Inv (m : Hmm) (obs : List Nat) (j : Nat) (s : List (List Nat) × List Nat) : Prop :=
  VInv m obs (filled obs.length j) s.1 ∧ (j = 0 → s.2 = []) ∧ (j = obs.length → s.2 = pvFinal m obs)

/-- `for j in hmm.states() { vals[[0, *j]] = hmm.end_prob(j) }` -/
theorem for2_eq (z : Nat) (m : Hmm) (vals : List (List Nat)) (r0 : List Nat) (h0 : vals[0]? = some r0) (hl : r0.length = m.S) :
    List.foldlM (backward_for2 (natOps z) (hmmOps m)) vals (List.range m.S) = Res.ok (vals.set 0 (tab m.S m.fin)) := by
  obtain ⟨s', h1, h2, _⟩ := fill_row (fun s => s) (backward_for2 (natOps z) (hmmOps m)) m.fin 0 m.S (fun _ _ => True) vals r0 h0
    hl trivial (by
      intro j s hj hf _
      obtain ⟨a', ha', hf'⟩ := hf.step hj
      exact ⟨a', by simp [backward_for2, ha'], hf', trivial⟩)
  rw [h1, h2]; rfl

/-- the summands of one cell of row `i + 1`, read from row `i` -/
theorem map_cell (z : Nat) (m : Hmm) (n i b j : Nat) (hin : i ≤ n) (s : List (List Nat)) (cur : List Nat)
    (hc : ∀ k, k < m.S → Rs.get2 s i k = Res.ok (ix cur k))
    (f : List (List Nat) → Nat → Nat → Nat → Nat → Nat → Res Nat)
    (hf : ∀ k, f s n i b j k = (do
      let t1 ← Rs.get2 s i k
      let t2 ← Rs.sub n i
      pure ((natOps z).mul ((natOps z).mul t1 ((hmmOps m).trans j k t2)) ((hmmOps m).emit k b)))) :
    List.mapM (f s n i b j) (List.range m.S)
      = Res.ok ((List.range m.S).map fun k => ix cur k * m.trans j k * m.emit k b) := by
  apply mapM_range_ok
  intro k hk
  have e : Rs.sub n i = Res.ok (n - i) := sub_ok hin
  simp [hf, hc k hk, e]

theorem get_row {s : List (List Nat)} {i : Nat} {cur : List Nat} {S : Nat} (h : s[i]? = some cur) (hl : cur.length = S) :
    ∀ k, k < S → Rs.get2 s i k = Res.ok (ix cur k) := by
  intro k hk
  rw [get2_ok h (by omega), ix_eq_getElem (by omega)]

/-- the final sum's summands, read from row `i` -/
theorem map_final (z : Nat) (m : Hmm) (i b : Nat) (s : List (List Nat)) (cur : List Nat)
    (hc : ∀ k, k < m.S → Rs.get2 s i k = Res.ok (ix cur k)) (f : List (List Nat) → Nat → Nat → Nat → Res Nat)
    (hf : ∀ k, f s i b k = (do
      let t1 ← Rs.get2 s i k
      pure ((natOps z).mul ((natOps z).mul t1 ((hmmOps m).init k)) ((hmmOps m).emit k b)))) :
    List.mapM (f s i b) (List.range m.S) = Res.ok ((List.range m.S).map fun k => ix cur k * m.init k * m.emit k b) := by
  apply mapM_range_ok
  intro k hk
  simp [hf, hc k hk]

/-- an ordinary iteration (`1 ≤ i < len - 1`): row `i + 1` from row `i` -/
theorem for4_eq (z : Nat) (m : Hmm) (n i b : Nat) (hin : i ≤ n) (h64 : i + 1 < 2 ^ 64) (vals : List (List Nat))
    (cur r0 : List Nat) (hp : vals[i]? = some cur) (hpl : cur.length = m.S) (h0 : vals[i + 1]? = some r0)
    (hl : r0.length = m.S) :
    List.foldlM (backward_for4 (natOps z) (hmmOps m) n i b) vals (List.range m.S)
      = Res.ok (vals.set (i + 1) (stepB m cur b)) := by
  obtain ⟨s', h1, h2, _⟩ := fill_row (fun s => s) (backward_for4 (natOps z) (hmmOps m) n i b)
    (fun j => sumS m.S fun k => ix cur k * m.trans j k * m.emit k b) (i + 1) m.S (fun _ _ => True) vals r0 h0 hl trivial (by
      intro j s hj hf _
      obtain ⟨a', ha', hf'⟩ := hf.step hj
      have ha' : Rs.set2 s (i + 1) j (sumS m.S fun k => ix cur k * m.trans j k * m.emit k b) = Res.ok a' := ha'
      have hne : i ≠ i + 1 := by omega
      have hc : ∀ k, k < m.S → Rs.get2 s i k = Res.ok (ix cur k) := by
        intro k hk; rw [hf.get_other hne]; exact get_row hp hpl k hk
      have hmap := map_cell z m n i b j hin s cur hc (backward_map4 (natOps z) (hmmOps m)) (fun k => by simp [backward_map4])
      have e1 : Rs.add 64 i 1 = Res.ok (i + 1) := add_ok h64
      have hs : ((List.range m.S).map fun k => ix cur k * m.trans j k * m.emit k b).sum
          = sumS m.S fun k => ix cur k * m.trans j k * m.emit k b := rfl
      exact ⟨a', by simp [backward_for4, hmap, e1, hs, ha'], hf', trivial⟩)
  rw [h1, h2]; rfl

/-- the first iteration with more than one observation: row 1 from row 0, `prob_vec_final` untouched -/
theorem for3_eq_many (z : Nat) (m : Hmm) (obs : List Nat) (n b : Nat) (hn : 1 < obs.length) (vals : List (List Nat)) (pvf : List Nat)
    (cur r0 : List Nat) (hp : vals[0]? = some cur) (hpl : cur.length = m.S) (h0 : vals[1]? = some r0) (hl : r0.length = m.S) :
    List.foldlM (backward_for3 (natOps z) (hmmOps m) obs n 0 b) (vals, pvf) (List.range m.S)
      = Res.ok (vals.set 1 (stepB m cur b), pvf) := by
  obtain ⟨s', h1, h2, h3⟩ := fill_row (fun s => s.1) (backward_for3 (natOps z) (hmmOps m) obs n 0 b)
    (fun j => sumS m.S fun k => ix cur k * m.trans j k * m.emit k b) 1 m.S (fun _ s => s.2 = pvf) (vals, pvf) r0 h0 hl rfl (by
      intro j s hj hf hq
      obtain ⟨v, p⟩ := s
      simp only at hf hq
      subst hq
      obtain ⟨a', ha', hf'⟩ := hf.step hj
      have ha' : Rs.set2 v 1 j (sumS m.S fun k => ix cur k * m.trans j k * m.emit k b) = Res.ok a' := ha'
      have hne : 0 ≠ 1 := by omega
      have hc : ∀ k, k < m.S → Rs.get2 v 0 k = Res.ok (ix cur k) := by
        intro k hk; rw [hf.get_other hne]; exact get_row hp hpl k hk
      have hmap := map_cell z m n 0 b j (Nat.zero_le _) v cur hc (backward_map1 (natOps z) (hmmOps m))
        (fun k => by simp [backward_map1])
      have e1 : Rs.add 64 0 1 = Res.ok 1 := by decide
      have hs : ((List.range m.S).map fun k => ix cur k * m.trans j k * m.emit k b).sum
          = sumS m.S fun k => ix cur k * m.trans j k * m.emit k b := rfl
      have hd : decide (obs.length > 1) = true := by simp [hn]
      exact ⟨(a', p), by simp [backward_for3, hmap, e1, hs, ha', hd, hn], hf', rfl⟩)
  obtain ⟨v', p'⟩ := s'
  simp only at h2 h3
  rw [h1, h2, h3]; rfl

/-- the first iteration with a single observation: the table is left alone, `prob_vec_final` is computed from row 0 -/
theorem for3_eq_one (z : Nat) (m : Hmm) (obs : List Nat) (n b : Nat) (hn : ¬ 1 < obs.length) (vals : List (List Nat))
    (cur : List Nat) (hp : vals[0]? = some cur) (hpl : cur.length = m.S) :
    List.foldlM (backward_for3 (natOps z) (hmmOps m) obs n 0 b) (vals, []) (List.range m.S)
      = Res.ok (vals, (List.range m.S).map fun k => ix cur k * m.init k * m.emit k b) := by
  have hc : ∀ k, k < m.S → Rs.get2 vals 0 k = Res.ok (ix cur k) := get_row hp hpl
  obtain ⟨s', h1, h2⟩ := foldlM_range_inv (backward_for3 (natOps z) (hmmOps m) obs n 0 b)
    (fun j s => s.1 = vals ∧ (j = 0 ∧ s.2 = [] ∨ s.2 = (List.range m.S).map fun k => ix cur k * m.init k * m.emit k b))
    m.S (vals, []) ⟨rfl, Or.inl ⟨rfl, rfl⟩⟩ (by
      intro j s hj ⟨hv, _⟩
      obtain ⟨v, p⟩ := s
      simp only at hv
      subst hv
      have hmap := map_cell z m n 0 b j (Nat.zero_le _) v cur hc (backward_map1 (natOps z) (hmmOps m))
        (fun k => by simp [backward_map1])
      have hfin := map_final z m 0 b v cur hc (backward_map2 (natOps z) (hmmOps m)) (fun k => by simp [backward_map2])
      have hd : decide (obs.length > 1) = false := by simp [hn]
      exact ⟨(v, _), by simp [backward_for3, hmap, hfin, hd, hn], rfl, Or.inr rfl⟩)
  obtain ⟨v', p'⟩ := s'
  simp only at h2
  obtain ⟨hv, hp'⟩ := h2
  subst hv
  rw [h1]
  rcases hp' with ⟨hS, hp'⟩ | hp'
  · rw [hp', hS]; rfl
  · rw [hp']

theorem for1_eq (z : Nat) (m : Hmm) (obs : List Nat) (h64 : obs.length < 2 ^ 64) (s0 : List (List Nat) × List Nat)
    (h : Inv m obs 0 s0) :
    ∃ s', List.foldlM (backward_for1 (natOps z) (hmmOps m) obs obs.length) s0 (Rs.enumerate obs.reverse) = Res.ok s' ∧
      Inv m obs obs.length s' := by
  have := foldlM_enumFrom_inv (backward_for1 (natOps z) (hmmOps m) obs obs.length) (Inv m obs) obs.reverse 0 s0 h (by
    intro j b s _ hb hinv
    simp only [Nat.sub_zero] at hb
    have hjn : j < obs.length := by
      rcases Nat.lt_or_ge j obs.length with h | h
      · exact h
      · rw [List.getElem?_eq_none (by simpa using h)] at hb; cases hb
    obtain ⟨v, p⟩ := s
    obtain ⟨⟨hv1, hv2, hv3⟩, hp0, _⟩ := hinv
    simp only at hv1 hv2 hv3 hp0
    by_cases hj0 : j = 0
    · subst hj0
      have hp0 := hp0 rfl
      subst hp0
      obtain ⟨r0, hr0, hl0⟩ := hv2 0 hjn
      have hf2 := for2_eq z m v r0 hr0 hl0
      have hV0 : VInv m obs 1 (v.set 0 (tab m.S m.fin)) :=
        VInv.set (f := 0) ⟨hv1, hv2, fun t ht => absurd ht (by omega)⟩ hjn (brow_zero m obs).symm
      have hrow0 : (v.set 0 (tab m.S m.fin))[0]? = some (tab m.S m.fin) := by simp [hv1, hjn]
      by_cases hn1 : 1 < obs.length
      · obtain ⟨r1, hr1, hl1⟩ := hV0.2.1 1 hn1
        have hf3 := for3_eq_many z m obs obs.length b hn1 _ [] _ r1 hrow0 (tab_length _ _) hr1 hl1
        refine ⟨((v.set 0 (tab m.S m.fin)).set 1 (stepB m (tab m.S m.fin) b), []), by simp [backward_for1, hf2, hf3], ?_,
          by simp, by simp; omega⟩
        have hf : filled obs.length (0 + 1) = 1 + 1 := by simp [filled]; omega
        rw [hf]
        refine VInv.set hV0 hn1 ?_
        rw [brow_succ m obs hjn hb, brow_zero]
      · have hf3 := for3_eq_one z m obs obs.length b hn1 _ _ hrow0 (tab_length _ _)
        have hn : obs.length = 1 := by omega
        refine ⟨(v.set 0 (tab m.S m.fin), (List.range m.S).map fun k => ix (tab m.S m.fin) k * m.init k * m.emit k b),
          by simp [backward_for1, hf2, hf3], ?_, by simp, ?_⟩
        · have hf : filled obs.length (0 + 1) = 1 := by simp [filled]; omega
          rw [hf]; exact hV0
        · intro _
          have hb0 : obs[0]? = some b := by
            rw [List.getElem?_reverse (by omega)] at hb
            simpa [hn] using hb
          have hb1 : obs.getD 0 0 = b := by simp [List.getD, hb0]
          simp only [pvFinal, hn, Nat.sub_self, brow_zero, hb1]
    · have hjb : (j == 0) = false := by simp [hj0]
      have hfj : filled obs.length j = j + 1 := by simp [filled, hj0]; omega
      rw [hfj] at hv3
      have e1 : Rs.sub obs.length 1 = Res.ok (obs.length - 1) := sub_one_ok (by omega)
      have hcur := hv3 j (by omega)
      have hc := get_row hcur (brow_length m obs j)
      by_cases hlast : j = obs.length - 1
      · have hfin := map_final z m j b v _ hc (backward_map3 (natOps z) (hmmOps m)) (fun k => by simp [backward_map3])
        have hjl : (j == obs.length - 1) = true := by simp [hlast]
        refine ⟨(v, (List.range m.S).map fun k => ix (brow m obs j) k * m.init k * m.emit k b),
          by simp [backward_for1, hjb, hj0, e1, hjl, hfin, if_pos hlast], ?_, by simp [hj0], ?_⟩
        · have hf : filled obs.length (j + 1) = j + 1 := by simp [filled]; omega
          rw [hf]; exact ⟨hv1, hv2, hv3⟩
        · intro _
          have hb0 : obs.getD 0 0 = b := by
            rw [List.getElem?_reverse (by omega)] at hb
            have e : obs.length - 1 - j = 0 := by omega
            rw [e] at hb
            simp [List.getD, hb]
          simp only [pvFinal, ← hlast, hb0]
      · have hjl : (j == obs.length - 1) = false := by simp [hlast]
        obtain ⟨r1, hr1, hl1⟩ := hv2 (j + 1) (by omega)
        have hf4 := for4_eq z m obs.length j b (by omega) (by omega) v _ r1 hcur (brow_length m obs j) hr1 hl1
        refine ⟨(v.set (j + 1) (stepB m (brow m obs j) b), p),
          by simp [backward_for1, hjb, hj0, e1, hjl, hlast, hf4], ?_, by simp, by simp; omega⟩
        have hf : filled obs.length (j + 1) = j + 1 + 1 := by simp [filled]; omega
        rw [hf]
        exact VInv.set ⟨hv1, hv2, hv3⟩ (by omega) (brow_succ m obs hjn hb).symm)
  simpa [Rs.enumerate] using this

/-- **`hmm::backward` as written in the source = the mirror model**, at exact weights: for every model and every non-empty
observation sequence the translated function returns, without panic, the table of backward rows and the model's likelihood -/
theorem backward_eq_model (z : Nat) (m : Hmm) (obs : List Nat) (h : obs ≠ []) (h64 : obs.length < 2 ^ 64) :
    Gen.SrcHmmBackward.backward (natOps z) (hmmOps m) obs
      = Res.ok ((List.range obs.length).map (brow m obs), Hmm.backward m obs) := by
  have hn : 0 < obs.length := List.length_pos_iff.mpr h
  have h0 : Inv m obs 0 (Rs.zeros2 z obs.length m.S, []) :=
    ⟨⟨zeros2_length _ _ _, fun t ht => ⟨_, zeros2_getElem? z _ _ t ht, by simp⟩, fun t ht => absurd ht (by simp [filled])⟩,
      fun _ => rfl, fun hh => absurd hh (by omega)⟩
  obtain ⟨⟨v, p⟩, hf, ⟨hv1, _, hv3⟩, _, hp⟩ := for1_eq z m obs h64 _ h0
  simp only at hv1 hv3 hp
  have hfl : filled obs.length obs.length = obs.length := by
    have : obs.length ≠ 0 := by omega
    simp [filled, this]
  rw [hfl] at hv3
  have htab : v = (List.range obs.length).map (brow m obs) := table_ext hv1 hv3
  have hp' : p = pvFinal m obs := hp trivial
  simp [Gen.SrcHmmBackward.backward, hf, hp', pvFinal_sum m obs h, ← htab]

end RbV.Thm.GenSrcHmmBackward
