import RbV.Gen.SrcLcskpp
import RbV.Model.Lcskpp
import RbV.Lemmas.LcskppFinal
import RbV.Thm.GenSrcFenwick
/-!
# C19 — the text of `sparse::lcskpp` (translated on every `./check C19`: `RbV/Gen/SrcLcskpp.lean`) equals the mirror model

`lcskpp_eq_model`: for every `sort_unstable` / `binary_search` that meet the contracts of std (`Rs.SortOk` on the derived
order of the event triples `(u32, u32, u32)`, `Rs.BSearchOk`), every strictly sorted match list with fewer than 2³¹ matches
whose coordinates `+ k` fit `u32`, and `k ≥ 1`, the translated function returns exactly what the model `Model.Lcskpp.lcskpp`
returns (path, score, the whole `dp_vector`): no panic (no index out of range, no overflow of the checked `u32` / `usize`
arithmetic, the assertion holds, the casts `as u32` / `as i32` / `as usize` do not change a value) and the traceback loop
ends by its own condition.  The proofs supply, per loop, the facts under which every checked operation succeeds and let
`simp` rewrite with them; the sweep lemma takes these facts from the model's invariant (`Lemmas.Lcskpp.Inv`) before and after
the event.
-/
set_option linter.unusedSimpArgs false
set_option linter.unusedVariables false
namespace RbV.Thm.GenSrcLcskpp
open RbV RbV.Rs RbV.KChain RbV.QGram RbV.Model.Lcskpp RbV.Lemmas.Lcskpp RbV.Gen.SrcLcskpp

/-! ### the derived orders -/

theorem ole_NN (a b : Nat × Nat) : (ROrd.le a b : Bool) = (decide (a.1 < b.1) || (a.1 == b.1 && decide (a.2 ≤ b.2))) := by
  simp only [ROrd.le]
  rw [Bool.eq_iff_iff]
  simp only [Bool.or_eq_true, Bool.and_eq_true, Bool.not_eq_true', decide_eq_true_eq, decide_eq_false_iff_not, beq_iff_eq]
  omega

theorem ole_NI (a b : Nat × Int) : (ROrd.le a b : Bool) = (decide (a.1 < b.1) || (a.1 == b.1 && decide (a.2 ≤ b.2))) := by
  simp only [ROrd.le]
  rw [Bool.eq_iff_iff]
  simp only [Bool.or_eq_true, Bool.and_eq_true, Bool.not_eq_true', decide_eq_true_eq, decide_eq_false_iff_not, beq_iff_eq]
  omega

theorem omax_NN : (Rs.omax (α := Nat × Nat)) = maxNN := by
  funext a b; simp only [Rs.omax, maxNN, ole_NN]

theorem omax_NI (a b : Nat × Int) : Rs.omax a b = maxNI a b := by
  simp only [Rs.omax, maxNI, ole_NI]

theorem olt_M (a b : M) : Rs.olt a b = mLt a b := by
  simp only [Rs.olt, mLt, ole_NN]
  rw [Bool.eq_iff_iff]
  simp only [Bool.or_eq_true, Bool.and_eq_true, Bool.not_eq_true', decide_eq_true_eq, decide_eq_false_iff_not, beq_iff_eq,
    Bool.or_eq_false_iff, Bool.and_eq_false_iff, bne_iff_ne, ne_eq, beq_eq_false_iff_ne]
  omega

theorem ole_Ev (a b : Ev) : (ROrd.le a b : Bool) = evLe a b := by
  simp only [ROrd.le, evLe]
  rw [Bool.eq_iff_iff]
  simp only [Bool.or_eq_true, Bool.and_eq_true, Bool.not_eq_true', decide_eq_true_eq, decide_eq_false_iff_not, beq_iff_eq,
    Bool.or_eq_false_iff, Bool.and_eq_false_iff, bne_iff_ne, ne_eq, beq_eq_false_iff_ne]
  omega

theorem evLe_antisymm (a b : Ev) (h1 : evLe a b = true) (h2 : evLe b a = true) : a = b := by
  rw [evLe_iff] at h1 h2
  obtain ⟨a1, a2, a3⟩ := a
  obtain ⟨b1, b2, b3⟩ := b
  simp only at h1 h2
  have e1 : a1 = b1 := by omega
  have e2 : a2 = b2 := by omega
  have e3 : a3 = b3 := by omega
  subst e1 e2 e3; rfl

/-- **the sort**: whatever `sort_unstable` does, if it returns a permutation that is ascending in the derived order of the
triples it returns the model's event vector — the events are pairwise different -/
theorem sort_events (sortEv : List Ev → List Ev) (hsort : SortOk sortEv) (ms : List M) (k : Nat) :
    sortEv (eventsFrom ms.length k 0 ms) = sortedEvents ms k := by
  obtain ⟨hp, hs⟩ := hsort (eventsFrom ms.length k 0 ms)
  refine List.Perm.eq_of_pairwise (le := fun a b => evLe a b = true) (fun a b _ _ => evLe_antisymm a b) ?_
    (sortedEvents_pairwise ms k) (hp.trans (List.mergeSort_perm _ _).symm)
  exact hs.imp (fun {a b} h => by rw [← ole_Ev]; exact h)

/-! ### the assertion loop -/

theorem foldlM_unit {α : Type} (f : Unit → α → Res Unit) (l : List α) (h : ∀ a ∈ l, f () a = Res.ok ()) :
    List.foldlM f () l = Res.ok () := by
  induction l with
  | nil => rfl
  | cons a t ih =>
    rw [List.foldlM_cons, h a (by simp), Res.ok_bind]
    exact ih (fun b hb => h b (by simp [hb]))

theorem idx_getD {α : Type} (l : List α) (i : Nat) (d : α) (h : i < l.length) : Rs.idx l i = Res.ok (l.getD i d) := by
  rw [Rs.idx_ok h, List.getD_eq_getElem?_getD, List.getElem?_eq_getElem h]; rfl

theorem for1_ok (sortEv : List Ev → List Ev) (bs : List M → M → Except Nat Nat) (ms : List M) (hs : ms.Pairwise lexLt) :
    List.foldlM (lcskpp_for1 sortEv bs ms) () (List.range' 1 (ms.length - 1)) = Res.ok () := by
  apply foldlM_unit
  intro i hi
  rw [List.mem_range'_1] at hi
  have e1 : Rs.sub i 1 = Res.ok (i - 1) := Rs.sub_ok (by omega)
  have e2 : Rs.idx ms (i - 1) = Res.ok (mAt ms (i - 1)) := idx_getD ms _ _ (by omega)
  have e3 : Rs.idx ms i = Res.ok (mAt ms i) := idx_getD ms _ _ (by omega)
  have e4 : mLt (mAt ms (i - 1)) (mAt ms i) = true := (mLt_iff _ _).mpr (mAt_lexLt hs (by omega) (by omega))
  simp [lcskpp_for1, e1, e2, e3, olt_M, e4, Rs.assert]

/-! ### the event list -/

theorem for2_fold (sortEv : List Ev → List Ev) (bs : List M → M → Except Nat Nat) (ms : List M) (k : Nat) :
    ∀ (l : List M) (i0 : Nat) (ev : List Ev) (n : Nat), (∀ m ∈ l, m.1 + k < 2 ^ 32 ∧ m.2 + k < 2 ^ 32) →
      i0 + l.length + ms.length ≤ 2 ^ 32 →
      List.foldlM (lcskpp_for2 sortEv bs ms k) (ev, n) (l.zipIdx i0)
        = Res.ok (ev ++ eventsFrom ms.length k i0 l, nFrom k n l) := by
  intro l
  induction l with
  | nil => intro i0 ev n _ _; simp [eventsFrom, nFrom]
  | cons m r ih =>
    intro i0 ev n hb hl
    obtain ⟨hx, hy⟩ := hb m (by simp)
    simp only [List.length_cons] at hl
    have e1 : Rs.add 64 i0 ms.length = Res.ok (i0 + ms.length) := Rs.add_ok (by omega)
    have e2 : Rs.cast 32 (i0 + ms.length) = i0 + ms.length := Nat.mod_eq_of_lt (by omega)
    have e3 : Rs.add 32 m.1 k = Res.ok (m.1 + k) := Rs.add_ok hx
    have e4 : Rs.add 32 m.2 k = Res.ok (m.2 + k) := Rs.add_ok hy
    have e5 : Rs.cast 32 i0 = i0 := Nat.mod_eq_of_lt (by omega)
    rw [List.zipIdx_cons, List.foldlM_cons]
    have hstep : lcskpp_for2 sortEv bs ms k (ev, n) (m, i0)
        = Res.ok (ev ++ [(m.1, m.2, i0 + ms.length), (m.1 + k, m.2 + k, i0)], max (max n (m.1 + k)) (m.2 + k)) := by
      have e1' : Rs.add 64 ms.length i0 = Res.ok (i0 + ms.length) := by rw [Rs.add_ok (by omega), Nat.add_comm]
      have e3' : Rs.add 32 k m.1 = Res.ok (m.1 + k) := by rw [Rs.add_ok (by omega), Nat.add_comm]
      have e4' : Rs.add 32 k m.2 = Res.ok (m.2 + k) := by rw [Rs.add_ok (by omega), Nat.add_comm]
      simp [lcskpp_for2, e1, e2, e3, e4, e5, e1', e3', e4'] <;> omega
    rw [hstep, Res.ok_bind, ih (i0 + 1) _ _ (fun m' hm' => hb m' (by simp [hm'])) (by omega)]
    simp [eventsFrom, nFrom]

theorem eventsFrom_length (len k : Nat) : ∀ (l : List M) (i0 : Nat), (eventsFrom len k i0 l).length = 2 * l.length := by
  intro l
  induction l with
  | nil => intro _; rfl
  | cons m r ih => intro i0; simp only [eventsFrom, List.length_cons, ih]; omega

theorem sortedEvents_length (ms : List M) (k : Nat) : (sortedEvents ms k).length = 2 * ms.length := by
  unfold sortedEvents; rw [List.length_mergeSort, eventsFrom_length]

theorem nFrom_le (k B : Nat) : ∀ (l : List M) (n : Nat), n ≤ B → (∀ m ∈ l, m.1 + k ≤ B ∧ m.2 + k ≤ B) → nFrom k n l ≤ B := by
  intro l
  induction l with
  | nil => intro n h _; exact h
  | cons m r ih =>
    intro n h hb
    have := hb m (by simp)
    exact ih _ (by omega) (fun m' hm' => hb m' (by simp [hm']))

/-- `FenwickTree::new` as written in the source = the model's `new` -/
theorem fenwickNew_eq_model {α : Type} (dflt : α) (len : Nat) (h : len + 1 < 2 ^ 64) :
    RbV.Gen.SrcFenwickNew.new dflt len = Res.ok (Model.Fenwick.new dflt len) := by
  simp [RbV.Gen.SrcFenwickNew.new, Model.Fenwick.new, Rs.add_ok h]

/-! ### numeric side conditions, bounds on the scores -/

/-- what keeps the machine arithmetic of `lcskpp` inside its types: fewer than 2³¹ matches (`idx + len` fits `u32`, match
indices fit `i32`), every coordinate `+ k` fits `u32` -/
structure Bnd (ms : List M) (k : Nat) : Prop where
  len : ms.length < 2 ^ 31
  xy : ∀ m ∈ ms, m.1 + k < 2 ^ 32 ∧ m.2 + k < 2 ^ 32

theorem max0_le {l : List Nat} {v : Nat} (h : ∀ a ∈ l, a ≤ v) : max0 l ≤ v := by
  rcases max0_zero_or_mem l with h0 | hm
  · omega
  · exact h _ hm

/-- a chain ending at match `p` scores at most `min(x, y) + k`: the scores fit wherever the coordinates do -/
theorem F_le {ms : List M} {k : Nat} (hk : 0 < k) (hs : ms.Pairwise lexLt) :
    ∀ p, p < ms.length → F ms k p ≤ min (mAt ms p).1 (mAt ms p).2 + k := by
  intro p
  induction p using Nat.strongRecOn with
  | _ p ih =>
    intro hp
    rw [F_rec hk hs hp]
    have hA : A ms k p ≤ min (mAt ms p).1 (mAt ms p).2 := by
      unfold A
      apply max0_le
      intro a ha
      obtain ⟨⟨m, w⟩, hmw, rfl⟩ := List.mem_map.mp ha
      obtain ⟨hT, hn⟩ := List.mem_filter.mp hmw
      obtain ⟨r, hr, hm, hw⟩ := entry_F hs hT
      simp only [nonov, Bool.and_eq_true, decide_eq_true_eq] at hn
      subst hm
      have hrp : r < p := idx_lt_of_x_lt hs hr hp (by omega)
      have := ih r hrp hr
      simp only [hw]; omega
    have hB : Bc ms k p ≤ min (mAt ms p).1 (mAt ms p).2 + k := by
      unfold Bc
      apply max0_le
      intro a ha
      obtain ⟨⟨m, w⟩, hmw, rfl⟩ := List.mem_map.mp ha
      obtain ⟨hT, hn⟩ := List.mem_filter.mp hmw
      obtain ⟨r, hr, hm, hw⟩ := entry_F hs hT
      simp only [cont, Bool.and_eq_true, beq_iff_eq] at hn
      subst hm
      have hrp : r < p := idx_lt_of_x_lt hs hr hp (by omega)
      have := ih r hrp hr
      simp only [hw]; omega
    omega

theorem F_lt {ms : List M} {k : Nat} (hk : 0 < k) (hs : ms.Pairwise lexLt) (hB : Bnd ms k) {p : Nat} (hp : p < ms.length) :
    F ms k p < 2 ^ 32 := by
  have h1 := F_le hk hs p hp
  have h2 := hB.xy _ (mAt_mem hp)
  omega

theorem tree_length {ms : List M} {k : Nat} {done : List Ev} {s : St} (hI : Inv ms k done s) :
    s.tree.length = nFrom k 0 ms + 1 := by
  obtain ⟨ups, ht, _⟩ := hI.tree
  rw [ht, Lemmas.Fenwick.run, GenSrcFenwick.run_length]
  simp [Model.Fenwick.new]

theorem nFrom_lt {ms : List M} {k : Nat} (hB : Bnd ms k) : nFrom k 0 ms < 2 ^ 32 := by
  have := nFrom_le k (2 ^ 32 - 1) ms 0 (by omega) (fun m hm => by have := hB.xy m hm; omega)
  omega

/-! ### `binary_search` by its contract = the model's lookup -/

theorem bs_find (bs : List M → M → Except Nat Nat) (hbs : BSearchOk bs) {ms : List M} (hs : ms.Pairwise lexLt) (key : M) :
    match findFrom key 0 ms with
    | some c => bs ms key = .ok c
    | none => ∃ i, bs ms key = .error i := by
  have hpw : ms.Pairwise (fun a b => Rs.olt a b = true) := hs.imp (fun {a b} h => by rw [olt_M]; exact (mLt_iff a b).mpr h)
  obtain ⟨h1, h2⟩ := hbs ms key hpw
  cases hf : findFrom key 0 ms with
  | none =>
    have hnot := findFrom_none hf
    cases hb : bs ms key with
    | error i => exact ⟨i, rfl⟩
    | ok i => exact absurd (List.mem_of_getElem? (h1 i hb)) hnot
  | some c =>
    obtain ⟨j, hj, hcj, hm⟩ := findFrom_some hf
    have hc : c = j := by omega
    subst hc
    cases hb : bs ms key with
    | error i => exact absurd (hm ▸ mAt_mem hj) (h2 i hb)
    | ok i =>
      have hi := h1 i hb
      obtain ⟨hil, hie⟩ := List.getElem?_eq_some_iff.mp hi
      have : mAt ms i = mAt ms c := by
        rw [hm]; unfold mAt; rw [List.getD_eq_getElem?_getD, hi]; rfl
      show Except.ok i = Except.ok c
      rw [mAt_inj hs hil hj this]

/-! ### the sweep -/

theorem getD_set_self {α : Type} (l : List α) (p : Nat) (v d : α) (h : p < l.length) : (l.set p v).getD p d = v := by
  rw [List.getD_eq_getElem?_getD, List.getElem?_set_self h]; rfl

theorem for3_start (sortEv : List Ev → List Ev) (bs : List M → M → Except Nat Nat) {ms : List M} {k : Nat} (hB : Bnd ms k)
    (hk : 0 < k) (hs : ms.Pairwise lexLt) {done : List Ev} {s : St} {p : Nat} (hI : Inv ms k done s) (hp : p < ms.length)
    (hbefore : ∀ d ∈ done, evLe d (startEv ms p) = true)
    (hcomplete : ∀ e' ∈ sortedEvents ms k, evLe (startEv ms p) e' = false → e' ∈ done) :
    lcskpp_for3 sortEv bs ms k (s.tree, s.dp, s.best) (startEv ms p)
      = Res.ok ((stepEv ms k s (startEv ms p)).tree, (stepEv ms k s (startEv ms p)).dp, (stepEv ms k s (startEv ms p)).best) := by
  have hlen := hB.len
  have hlt : p < s.dp.length := by rw [hI.len_dp]; omega
  obtain ⟨hq1, hq2⟩ := query_spec hk hs hI hp hbefore hcomplete
  have hTl := tree_length hI
  have hy : (mAt ms p).2 + k ≤ nFrom k 0 ms := (nFrom_ge k ms 0 _ (mAt_mem hp)).2
  have hn32 := nFrom_lt hB
  have eget : RbV.Gen.SrcFenwick.get (Rs.omax (α := Nat × Nat)) (0, 0) s.tree (mAt ms p).2
      = Res.ok (Model.Fenwick.get maxNN (0, 0) s.tree (mAt ms p).2) := by
    rw [omax_NN]; exact GenSrcFenwick.get_eq_model _ _ _ _ (by omega) (by omega)
  have hFp := F_lt hk hs hB hp
  have hFr := F_rec hk hs hp
  rw [stepEv_start ms k s p hp hI.len_dp]
  generalize Model.Fenwick.get maxNN (0, 0) s.tree (mAt ms p).2 = b at hq1 hq2 eget
  have ecast : Rs.cast 32 ms.length = ms.length := Nat.mod_eq_of_lt (by omega)
  have erem : Rs.rem (p + ms.length) ms.length = Res.ok p := by
    rw [Rs.rem_ok (by omega), Nat.add_mod_right, Nat.mod_eq_of_lt hp]
  have ege : ms.length ≤ p + ms.length := by omega
  have eset1 : ∀ v, Rs.setIdx s.dp p v = Res.ok (s.dp.set p v) := fun v => Rs.setIdx_ok hlt
  have eset2 : ∀ v w, Rs.setIdx (s.dp.set p v) p w = Res.ok (s.dp.set p w) := fun v w => by
    rw [Rs.setIdx_ok (by simpa using hlt), List.set_set]
  have eidx : ∀ v, Rs.idx (s.dp.set p v) p = Res.ok v := fun v => by
    rw [idx_getD _ _ (0, 0) (by simpa using hlt), getD_set_self _ _ _ _ hlt]
  have ecs : Rs.castSigned 32 p = (p : Int) := Rs.castSigned_of_lt (by omega)
  by_cases hpos : 0 < b.1
  · obtain ⟨q, hq, hb2, -, -, -⟩ := hq2 hpos
    have eadd : Rs.add 32 k b.1 = Res.ok (k + b.1) := Rs.add_ok (by omega)
    have eadd' : Rs.add 32 b.1 k = Res.ok (k + b.1) := by rw [Rs.add_ok (by omega), Nat.add_comm]
    have esgn : Rs.toSigned 32 b.2 = (b.2 : Int) := Rs.toSigned_of_lt (by omega)
    simp [lcskpp_for3, startEv, ecast, erem, ege, eset1, eget, hpos, eadd, eadd', esgn, ecs, eset2, eidx, omax_NI]
  · simp [lcskpp_for3, startEv, ecast, erem, ege, eset1, eget, hpos, ecs, eset2, eidx, omax_NI]

theorem for3_end (sortEv : List Ev → List Ev) (bs : List M → M → Except Nat Nat) (hbs : BSearchOk bs) {ms : List M} {k : Nat}
    (hB : Bnd ms k) (hk : 0 < k) (hs : ms.Pairwise lexLt) {done : List Ev} {s : St} {p : Nat} (hI : Inv ms k done s)
    (hp : p < ms.length) (hnot : endEv ms k p ∉ done)
    (hcomplete : ∀ e' ∈ sortedEvents ms k, evLe (endEv ms k p) e' = false → e' ∈ done) :
    lcskpp_for3 sortEv bs ms k (s.tree, s.dp, s.best) (endEv ms k p)
      = Res.ok ((stepEv ms k s (endEv ms k p)).tree, (stepEv ms k s (endEv ms k p)).dp, (stepEv ms k s (endEv ms k p)).best) := by
  have hlen := hB.len
  have hlt : p < s.dp.length := by rw [hI.len_dp]; omega
  have hTl := tree_length hI
  have hn32 := nFrom_lt hB
  have hxy := hB.xy _ (mAt_mem hp)
  have ecast : Rs.cast 32 ms.length = ms.length := Nat.mod_eq_of_lt (by omega)
  have ecastp : Rs.cast 32 p = p := Nat.mod_eq_of_lt (by omega)
  have erem : Rs.rem p ms.length = Res.ok p := by rw [Rs.rem_ok (by omega), Nat.mod_eq_of_lt hp]
  have ege : ¬ ms.length ≤ p := by omega
  have ecs : Rs.castSigned 32 p = (p : Int) := Rs.castSigned_of_lt (by omega)
  have eidxp : Rs.idx s.dp p = Res.ok (s.dp.getD p (0, 0)) := idx_getD _ _ _ hlt
  have esetF : ∀ v, RbV.Gen.SrcFenwick.set (Rs.omax (α := Nat × Nat)) (0, 0) s.tree ((mAt ms p).2 + k) v
      = Res.ok (Model.Fenwick.set maxNN (0, 0) s.tree ((mAt ms p).2 + k) v) := fun v => by
    rw [omax_NN]; exact GenSrcFenwick.set_eq_model _ _ _ _ _ (by omega) (by omega)
  have esub1 : Rs.sub ((mAt ms p).1 + k) k = Res.ok (mAt ms p).1 := by rw [Rs.sub_ok (by omega), Nat.add_sub_cancel]
  have esub2 : Rs.sub ((mAt ms p).2 + k) k = Res.ok (mAt ms p).2 := by rw [Rs.sub_ok (by omega), Nat.add_sub_cancel]
  cases hlook : contLookup ms k p with
  | none =>
    rw [stepEv_end_none ms k s p hp hlook]
    unfold contLookup at hlook
    split at hlook
    · next hc =>
      simp only [Bool.and_eq_true, decide_eq_true_eq] at hc
      have esub3 : Rs.sub (mAt ms p).1 1 = Res.ok ((mAt ms p).1 - 1) := Rs.sub_ok (by omega)
      have esub4 : Rs.sub (mAt ms p).2 1 = Res.ok ((mAt ms p).2 - 1) := Rs.sub_ok (by omega)
      have hb := bs_find bs hbs hs ((mAt ms p).1 + k - k - 1, (mAt ms p).2 + k - k - 1)
      rw [hlook] at hb
      simp only [Nat.add_sub_cancel] at hb
      obtain ⟨i, hbi⟩ := hb
      simp [lcskpp_for3, endEv, ecast, ecastp, erem, ege, hc.1, hc.2, esub1, esub2, esub3, esub4, hbi, eidxp, esetF]
    · next hc =>
      have hc' : ¬ (k < (mAt ms p).1 + k ∧ k < (mAt ms p).2 + k) := by
        simpa only [Bool.and_eq_true, decide_eq_true_eq, gt_iff_lt] using hc
      have hc'' : ((mAt ms p).1 = 0) ∨ ((mAt ms p).2 = 0) := by omega
      rcases hc'' with h0 | h0
      · simp [lcskpp_for3, endEv, ecast, ecastp, erem, ege, h0, eidxp, esetF]
      · simp only [h0, Nat.zero_add] at esetF
        simp [lcskpp_for3, endEv, ecast, ecastp, erem, ege, h0, eidxp, esetF]
  | some c =>
    rw [stepEv_end_some ms k s p c hp hI.len_dp hlook]
    obtain ⟨hc, hcont⟩ := contLookup_some hlook
    have hcend : endEv ms k c ∈ done := by
      apply hcomplete _ ((mem_sortedEvents ms k _).mpr ⟨c, hc, Or.inr rfl⟩)
      rw [Bool.eq_false_iff]; intro h
      rw [evLe_iff] at h
      simp only [endEv] at h
      simp only [cont, Bool.and_eq_true, beq_iff_eq] at hcont
      omega
    have hFc : (s.dp.getD c (0, 0)).1 = F ms k c := hI.ended c hc hcend
    have hFle := F_le hk hs c hc
    have hcont' := hcont
    simp only [cont, Bool.and_eq_true, beq_iff_eq] at hcont'
    unfold contLookup at hlook
    split at hlook
    · next hcd =>
      simp only [Bool.and_eq_true, decide_eq_true_eq] at hcd
      have esub3 : Rs.sub (mAt ms p).1 1 = Res.ok ((mAt ms p).1 - 1) := Rs.sub_ok (by omega)
      have esub4 : Rs.sub (mAt ms p).2 1 = Res.ok ((mAt ms p).2 - 1) := Rs.sub_ok (by omega)
      have hb := bs_find bs hbs hs ((mAt ms p).1 + k - k - 1, (mAt ms p).2 + k - k - 1)
      rw [hlook] at hb
      simp only [Nat.add_sub_cancel] at hb
      have hb' : bs ms ((mAt ms p).1 - 1, (mAt ms p).2 - 1) = .ok c := hb
      have eidxc : Rs.idx s.dp c = Res.ok (s.dp.getD c (0, 0)) := idx_getD _ _ _ (by rw [hI.len_dp]; omega)
      have eadd : Rs.add 32 (s.dp[c]?.getD (0, 0)).1 1 = Res.ok ((s.dp[c]?.getD (0, 0)).1 + 1) := by
        rw [← List.getD_eq_getElem?_getD]; exact Rs.add_ok (by rw [hFc]; omega)
      have eadd' : Rs.add 32 1 (s.dp[c]?.getD (0, 0)).1 = Res.ok ((s.dp[c]?.getD (0, 0)).1 + 1) := by
        rw [← List.getD_eq_getElem?_getD, Rs.add_ok (by rw [hFc]; omega), Nat.add_comm]
      have ecsc : Rs.castSigned 32 c = (c : Int) := Rs.castSigned_of_lt (by omega)
      have eset1 : ∀ v, Rs.setIdx s.dp p v = Res.ok (s.dp.set p v) := fun v => Rs.setIdx_ok hlt
      have eidx : ∀ v, Rs.idx (s.dp.set p v) p = Res.ok v := fun v => by
        rw [idx_getD _ _ (0, 0) (by simpa using hlt), getD_set_self _ _ _ _ hlt]
      simp [lcskpp_for3, endEv, ecast, ecastp, erem, ege, hcd.1, hcd.2, esub1, esub2, esub3, esub4, hb', eidxp, eidxc, eadd, eadd',
        ecsc, ecs, eset1, eidx, omax_NI, esetF]
    · cases hlook

theorem for3_fold (sortEv : List Ev → List Ev) (bs : List M → M → Except Nat Nat) (hbs : BSearchOk bs) {ms : List M} {k : Nat}
    (hB : Bnd ms k) (hk : 0 < k) (hs : ms.Pairwise lexLt) :
    ∀ (rest done : List Ev), sortedEvents ms k = done ++ rest →
      List.foldlM (lcskpp_for3 sortEv bs ms k)
          ((done.foldl (stepEv ms k) (initSt ms k)).tree, (done.foldl (stepEv ms k) (initSt ms k)).dp,
            (done.foldl (stepEv ms k) (initSt ms k)).best) rest
        = Res.ok ((sweep ms k).tree, (sweep ms k).dp, (sweep ms k).best) := by
  intro rest
  induction rest with
  | nil => intro done h; rw [List.append_nil] at h; rw [← h]; rfl
  | cons e rest ih =>
    intro done h
    have hI := sweep_inv_prefix hk hs h
    obtain ⟨hnot, hbefore, hcomplete⟩ := split_facts (sortedEvents_pairwise ms k) (sortedEvents_nodup ms k) h
    have hmem : e ∈ sortedEvents ms k := by rw [h]; simp
    have hnext := ih (done ++ [e]) (by simpa using h)
    rw [List.foldl_append] at hnext
    simp only [List.foldl_cons, List.foldl_nil] at hnext
    rw [List.foldlM_cons]
    obtain ⟨p, hp, rfl | rfl⟩ := (mem_sortedEvents ms k e).mp hmem
    · rw [for3_start sortEv bs hB hk hs hI hp hbefore hcomplete, Res.ok_bind]; exact hnext
    · rw [for3_end sortEv bs hbs hB hk hs hI hp hnot hcomplete, Res.ok_bind]; exact hnext

/-! ### the traceback -/

theorem while_eq (sortEv : List Ev → List Ev) (bs : List M → M → Except Nat Nat) (dp : List (Nat × Int)) (hdp : dp.length < 2 ^ 63) :
    ∀ (fuel : Nat) (prev : Int) (tb l : List Nat), traceLoop dp fuel prev = some l → (∀ i ∈ l, i < dp.length) →
      ∃ pm, lcskpp_while1 sortEv bs dp fuel (tb, prev) = Res.ok (tb ++ l, pm) := by
  intro fuel
  induction fuel with
  | zero => intro prev tb l h; simp [traceLoop] at h
  | succ f ih =>
    intro prev tb l h hall
    rw [traceLoop] at h
    by_cases hge : prev ≥ 0
    · rw [if_pos hge] at h
      cases hrec : traceLoop dp f (dp.getD prev.toNat (0, 0)).2 with
      | none => rw [hrec] at h; cases h
      | some l' =>
        rw [hrec] at h
        simp only [Option.map_some, Option.some.injEq] at h
        subst h
        have hi : prev.toNat < dp.length := hall _ (by simp)
        have ecu : Rs.castUnsigned 64 prev = prev.toNat := by
          have e : prev = ((prev.toNat : Nat) : Int) := by omega
          rw [e, Rs.castUnsigned_natCast (by omega)]; omega
        have eidx : Rs.idx dp prev.toNat = Res.ok (dp.getD prev.toNat (0, 0)) := idx_getD _ _ _ hi
        obtain ⟨pm, hpm⟩ := ih (dp.getD prev.toNat (0, 0)).2 (tb ++ [prev.toNat]) l' hrec (fun i hi' => hall i (by simp [hi']))
        refine ⟨pm, ?_⟩
        rw [List.getD_eq_getElem?_getD] at hpm
        rw [lcskpp_while1]
        simp [hge, ecu, eidx, hpm]
    · rw [if_neg hge] at h
      simp only [Option.some.injEq] at h
      subst h
      refine ⟨prev, ?_⟩
      rw [lcskpp_while1]
      simp [hge]

/-! ### the function -/

/-- **`sparse::lcskpp` as written in the source = the mirror model**, for every `sort_unstable` / `binary_search` meeting
the contracts of std: same path, same score, same `dp_vector`; no panic, the traceback loop ends by its own condition. -/
theorem lcskpp_eq_model (sortEv : List Ev → List Ev) (bs : List M → M → Except Nat Nat) (hsort : SortOk sortEv)
    (hbs : BSearchOk bs) (ms : List M) (k : Nat) (hk : 0 < k) (hs : ms.Pairwise lexLt) (hB : Bnd ms k) :
    ∃ r, Model.Lcskpp.lcskpp ms k = .ok r ∧ Gen.SrcLcskpp.lcskpp sortEv bs ms k = Res.ok (r.path, r.score, r.dp) := by
  cases hms : ms with
  | nil => exact ⟨{ path := [], score := 0, dp := [] }, by simp [Model.Lcskpp.lcskpp], by simp [Gen.SrcLcskpp.lcskpp]⟩
  | cons m0 rest0 =>
    rw [← hms]
    have hne : 0 < ms.length := by rw [hms]; simp
    have hemp : ms.isEmpty = false := by rw [hms]; rfl
    have hsorted : sortedStrict ms = true := (sortedStrict_iff ms).mpr hs
    have hlen := hB.len
    obtain ⟨⟨p, hp, hb2, hb1⟩, _⟩ := final_best hk hs hne
    obtain ⟨tb, ht, hall, -, -, -⟩ := trace_spec hk hs p hp (ms.length + 1) (by omega)
    refine ⟨{ path := (p :: tb).reverse, score := (sweep ms k).best.1, dp := (sweep ms k).dp }, ?_, ?_⟩
    · unfold Model.Lcskpp.lcskpp
      simp only [hemp, hsorted, Bool.false_eq_true, if_false, Bool.not_true, hb2, ht]
    · have hk32 : k < 2 ^ 32 := by have := (hB.xy m0 (by rw [hms]; simp)).1; omega
      have ek : Rs.cast 32 k = k := Nat.mod_eq_of_lt hk32
      have e1 := for1_ok sortEv bs ms hs
      have e2 := for2_fold sortEv bs ms k ms 0 [] 0 hB.xy (by omega)
      rw [List.nil_append] at e2
      have e3 := sort_events sortEv hsort ms k
      have e4 : RbV.Gen.SrcFenwickNew.new ((0, 0) : Nat × Nat) (nFrom k 0 ms) = Res.ok (Model.Fenwick.new (0, 0) (nFrom k 0 ms)) :=
        fenwickNew_eq_model _ _ (by have := nFrom_lt hB; omega)
      have e5 : Rs.resize ([] : List (Nat × Int)) (sortedEvents ms k).length (0, (0 : Int)) = List.replicate (2 * ms.length) (0, 0) := by
        simp [Rs.resize, sortedEvents_length]
      have e6 := for3_fold sortEv bs hbs hB hk hs (sortedEvents ms k) [] (by simp)
      simp only [List.foldl_nil, initSt] at e6
      have hdpl : (sweep ms k).dp.length = 2 * ms.length := (sweep_inv hk hs).len_dp
      obtain ⟨pm, e7⟩ := while_eq sortEv bs (sweep ms k).dp (by omega) (ms.length + 1) (p : Int) [] (p :: tb) ht
        (fun i hi => by have := hall i hi; omega)
      have hbest : (sweep ms k).best = ((sweep ms k).best.1, (p : Int)) := by rw [← hb2]
      unfold Gen.SrcLcskpp.lcskpp
      simp only [hemp, Bool.false_eq_true, if_false, ek, e1, e2, e3, e4, e5, e6, Res.ok_bind, Res.pure_eq_ok, bind_pure_comp]
      rw [hbest]
      simp only [e7, Res.ok_bind, List.nil_append, Functor.map, Res.bind]

/-! ### the contracts are satisfiable (used by the non-vacuity examples) -/

/-- a `sort_unstable` meeting `SortOk`: merge sort by the derived order -/
def stdSortEv (l : List Ev) : List Ev := l.mergeSort (fun a b => Rs.ole a b)

theorem stdSortEv_ok : SortOk stdSortEv := by
  intro l
  refine ⟨List.mergeSort_perm _ _, ?_⟩
  have h := List.pairwise_mergeSort (le := fun a b : Ev => Rs.ole a b)
    (fun a b c h1 h2 => by simp only [Rs.ole, ole_Ev] at h1 h2 ⊢; exact evLe_trans a b c h1 h2)
    (fun a b => by simp only [Rs.ole, ole_Ev]; exact evLe_total a b) l
  exact h

/-- a `binary_search` meeting `BSearchOk`: first position holding the key -/
def stdBsM (l : List M) (key : M) : Except Nat Nat :=
  match findFrom key 0 l with
  | some i => .ok i
  | none => .error 0

theorem stdBsM_ok : BSearchOk stdBsM := by
  intro l key _
  unfold stdBsM
  constructor
  · intro i h
    cases hf : findFrom key 0 l with
    | none => rw [hf] at h; cases h
    | some c =>
      rw [hf] at h
      obtain ⟨j, hj, hcj, hm⟩ := findFrom_some hf
      have : i = j := by cases h; omega
      subst this
      unfold mAt at hm
      rw [List.getD_eq_getElem?_getD, List.getElem?_eq_getElem hj] at hm
      rw [List.getElem?_eq_getElem hj]; exact congrArg some hm
  · intro i h
    cases hf : findFrom key 0 l with
    | none => exact findFrom_none hf
    | some c => rw [hf] at h; cases h

end RbV.Thm.GenSrcLcskpp
