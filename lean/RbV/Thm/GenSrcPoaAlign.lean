import RbV.Gen.SrcPoaAlign
import RbV.Model.PoaI32
/-!
# The `Traceback` table of poa.rs as translated from the source text: `get`, `set`, `new_row`, `initialize_scores`

Representation: a row `(cells, start, stop)` of the Rust matrix *represents* a model row `BRow` (`RowRep`) when start / stop
agree, both are empty or not, every in-band position exists, and the cells agree position by position up to trailing
`MIN_SCORE` padding (`new_row` allocates `size + 1` cells, the model keeps the computed ones and `BRow.get` answers
`mcell` for the rest).  `TbRep tb t`: the translated `Traceback` represents the model table `BTable`.
-/
set_option linter.unusedSimpArgs false
set_option linter.unusedVariables false
namespace RbV.Thm.GenSrcPoaAlign
open RbV RbV.NW RbV.Rs RbV.Rs.Res RbV.Poa RbV.Poa.Model RbV.Gen.SrcPoaAlign

/-! ### `i32` -/

/-- an `Option` of the checked-`i32` mirror as an outcome -/
def liftO {α : Type} : Option α → Res α
  | some a => ok a
  | none => panic

theorem inS32_iff (v : Int) : InS 32 v ↔ I32.InRange v := by
  unfold InS I32.InRange
  have : ((2 ^ (32 - 1) : Nat) : Int) = 2147483648 := by decide
  rw [this]; omega

theorem iadd32_eq (a b : Int) : Rs.iadd 32 a b = liftO (I32.add a b) := by
  unfold Rs.iadd I32.add
  by_cases h : InS 32 (a + b)
  · rw [if_pos h, if_pos ((inS32_iff _).mp h)]; rfl
  · rw [if_neg h, if_neg (fun h' => h ((inS32_iff _).mpr h'))]; rfl

theorem imul32_eq (a b : Int) : Rs.imul 32 a b = liftO (I32.mul b a) := by
  unfold Rs.imul I32.mul
  rw [Int.mul_comm b a]
  by_cases h : InS 32 (a * b)
  · rw [if_pos h, if_pos ((inS32_iff _).mp h)]; rfl
  · rw [if_neg h, if_neg (fun h' => h ((inS32_iff _).mpr h'))]; rfl

theorem usizeAsI32_eq (j : Nat) : Rs.usizeAsI32 j = I32.ofUsize j := by
  unfold Rs.usizeAsI32 Rs.toSigned Rs.cast I32.ofUsize
  have e1 : (2 : Nat) ^ 32 = 4294967296 := by decide
  have e2 : (2 : Nat) ^ (32 - 1) = 2147483648 := by decide
  rw [e1, e2]
  split <;> omega

theorem iadd32_some {a b v : Int} (h : I32.add a b = some v) : Rs.iadd 32 a b = ok v := by rw [iadd32_eq, h]; rfl
theorem imul32_some {a b v : Int} (h : I32.mul b a = some v) : Rs.imul 32 a b = ok v := by rw [imul32_eq, h]; rfl

/-! ### rows -/

abbrev Row := List Cell × Nat × Nat

structure RowRep (rr : Row) (br : BRow) : Prop where
  start : rr.2.1 = br.start
  stop : rr.2.2 = br.stop
  empty : rr.1 = [] ↔ br.cells = []
  len : rr.1 ≠ [] → br.stop - br.start ≤ rr.1.length
  cells : ∀ k, rr.1.getD k mcell = br.cells.getD k mcell

theorem minScore_eq : RbV.Gen.Limits.minScorePoa = minScore := rfl

theorem get_eq (tb : Rs.Poa.Traceback) (i j : Nat) (rr : Row) (br : BRow) (h : tb.matrix[i]? = some rr) (hr : RowRep rr br) :
    Traceback_get tb i j = ok (br.get j) := by
  obtain ⟨cs, s, e⟩ := rr
  have hs := hr.start; have he := hr.stop; have hem := hr.empty; have hl := hr.len; have hc := hr.cells
  simp only at hs he hem hl hc
  unfold Traceback_get BRow.get
  simp only [Rs.idx_of_getElem? h, Res.ok_bind, minScore_eq]
  by_cases h1 : s ≤ j ∧ j < e ∧ cs ≠ []
  · obtain ⟨h1a, h1b, h1c⟩ := h1
    have hne : br.cells ≠ [] := fun hh => h1c (hem.mpr hh)
    have hlen := hl h1c
    have c1 : (!(decide (s > j) || decide (e ≤ j) || cs.isEmpty)) = true := by
      cases cs with
      | nil => exact absurd rfl h1c
      | cons a l => simp; omega
    have c2 : (decide (br.start ≤ j) && decide (j < br.stop) && !br.cells.isEmpty) = true := by
      cases hb : br.cells with
      | nil => exact absurd hb hne
      | cons a l => simp; omega
    have hk : j - s < cs.length := by omega
    have := hc (j - s)
    rw [if_pos c1, if_pos c2, Rs.sub_ok (by omega)]
    simp only [Res.ok_bind, Rs.idx_ok hk, Res.pure_eq_ok]
    rw [← hs, ← this]; simp [List.getD, List.getElem?_eq_getElem hk]
  · have c1 : (!(decide (s > j) || decide (e ≤ j) || cs.isEmpty)) = false := by
      cases cs with
      | nil => simp
      | cons a l => simp at h1 ⊢; omega
    have c2 : (decide (br.start ≤ j) && decide (j < br.stop) && !br.cells.isEmpty) = false := by
      cases hb : br.cells with
      | nil => simp
      | cons a l =>
        have : cs ≠ [] := fun hh => by rw [hem.mp hh] at hb; cases hb
        simp [this] at h1 ⊢; omega
    rw [c1, c2]
    simp only [Bool.false_eq_true, if_false, Res.pure_eq_ok, Res.ok_bind, mcell, ← he]
    by_cases hj : j = 0
    · simp [hj]
    · by_cases hj2 : e ≤ j
      · simp [hj, hj2]
      · have : ¬ j ≥ e := by omega
        simp [hj, hj2, this]

theorem lt_of_getElem? {α : Type} {l : List α} {i : Nat} {a : α} (h : l[i]? = some a) : i < l.length := by
  rcases Nat.lt_or_ge i l.length with h1 | h1
  · exact h1
  · rw [List.getElem?_eq_none h1] at h; cases h

theorem set_get_self {α : Type} {l : List α} {i : Nat} {a b : α} (h : l[i]? = some a) : (l.set i b)[i]? = some b := by
  simp [List.getElem?_set, lt_of_getElem? h]

theorem setIdx_set {α : Type} {l : List α} {i : Nat} (a b : α) (h : i < l.length) :
    Rs.setIdx (l.set i a) i b = ok (l.set i b) := by
  rw [Rs.setIdx_ok (by simpa using h), List.set_set]

theorem idx_set {α : Type} {l : List α} {i : Nat} (a : α) (h : i < l.length) : Rs.idx (l.set i a) i = ok a := by
  apply Rs.idx_of_getElem?; simp [List.getElem?_set, h]

theorem set_self_of_getElem? {α : Type} {l : List α} {i : Nat} {a : α} (h : l[i]? = some a) : l.set i a = l := by
  apply List.ext_getElem?
  intro k
  by_cases hk : i = k
  · subst hk; rw [set_get_self h, h]
  · simp [List.getElem?_set, hk]

theorem set_eq (tb : Rs.Poa.Traceback) (i j : Nat) (cell : Cell) (cs : List Cell) (s e : Nat)
    (h : tb.matrix[i]? = some (cs, s, e)) (h1 : s ≤ j) (h2 : j ≤ e) (h3 : j - s < cs.length) :
    Traceback_set tb i j cell = ok { tb with matrix := tb.matrix.set i (cs.set (j - s) cell, s, e) } := by
  unfold Traceback_set
  have c : (!(decide (s > j) || decide (e < j))) = true := by simp; omega
  simp only [Rs.idx_of_getElem? h, Res.ok_bind, c, if_true, Rs.sub_ok h1, Rs.setIdx_ok h3,
    Rs.setIdx_ok (lt_of_getElem? h), Res.pure_eq_ok]

/-- `set` outside `[start, stop]` does nothing -/
theorem set_out (tb : Rs.Poa.Traceback) (i j : Nat) (cell : Cell) (cs : List Cell) (s e : Nat)
    (h : tb.matrix[i]? = some (cs, s, e)) (h1 : j < s ∨ e < j) : Traceback_set tb i j cell = ok tb := by
  unfold Traceback_set
  have c : (!(decide (s > j) || decide (e < j))) = false := by simp; omega
  simp only [Rs.idx_of_getElem? h, Res.ok_bind, c, Bool.false_eq_true, if_false, Res.pure_eq_ok]

theorem new_row_for1_fold (row : Nat) : ∀ (l : List Nat) (tb : Rs.Poa.Traceback) (cs : List Cell) (s e : Nat),
    tb.matrix[row]? = some (cs, s, e) →
    List.foldlM (Traceback_new_row_for1 row) tb l =
      ok { tb with matrix := tb.matrix.set row (cs ++ List.replicate l.length mcell, s, e) }
  | [], tb, cs, s, e, h => by
    simp only [List.foldlM_nil, Res.pure_eq_ok, List.length_nil, List.replicate_zero, List.append_nil]
    congr 1
    cases tb with
    | mk r c la m =>
      simp only [Rs.Poa.Traceback.mk.injEq, true_and]
      simp only at h
      exact (set_self_of_getElem? h).symm
  | a :: l, tb, cs, s, e, h => by
    simp only [List.foldlM_cons]
    have e1 : Traceback_new_row_for1 row tb a = ok { tb with matrix := tb.matrix.set row (cs ++ [mcell], s, e) } := by
      unfold Traceback_new_row_for1
      simp only [Rs.idx_of_getElem? h, Res.ok_bind, Rs.setIdx_ok (lt_of_getElem? h), Res.pure_eq_ok, minScore_eq]
      rfl
    rw [e1]
    simp only [Res.ok_bind]
    rw [new_row_for1_fold row l _ (cs ++ [mcell]) s e (set_get_self h)]
    simp only [List.set_set, List.length_cons, List.replicate_succ, List.append_assoc, List.singleton_append]

theorem new_row_eq (tb : Rs.Poa.Traceback) (row size : Nat) (gap xclip : Int) (start end_ : Nat) (s0 e0 : Nat)
    (h : tb.matrix[row]? = some ([], s0, e0)) (c0 : Cell)
    (hc : (if start = 0 then (I32.mul gap (I32.ofUsize row)).map (fun g => cmax ⟨g, .d none⟩ ⟨xclip, .x 0⟩) else some mcell)
      = some c0) :
    Traceback_new_row tb row size gap xclip start end_ =
      ok { tb with matrix := tb.matrix.set row (c0 :: List.replicate size mcell, start, end_) } := by
  unfold Traceback_new_row
  have hl := lt_of_getElem? h
  simp only [Rs.idx_of_getElem? h, Res.ok_bind, Rs.setIdx_ok hl, List.length_set, List.set_set,
    Rs.idx_of_getElem? (set_get_self h), minScore_eq, usizeAsI32_eq]
  by_cases hs : start = 0
  · simp only [hs, if_true, Option.map_eq_some_iff] at hc
    obtain ⟨gv, hg, hc0⟩ := hc
    simp only [hs, decide_true, if_true, imul32_some hg, Res.ok_bind, setIdx_set _ _ hl, idx_set _ hl,
      Res.pure_eq_ok, List.nil_append]
    rw [new_row_for1_fold row _ _ [cmax ⟨gv, .d none⟩ ⟨xclip, .x 0⟩] 0 end_ (set_get_self h)]
    simp [Rs.rangeIncl, hc0]
  · simp only [hs, if_false, Option.some.injEq] at hc
    simp only [hs, decide_false, Bool.false_eq_true, if_false, Res.ok_bind, setIdx_set _ _ hl, idx_set _ hl,
      Res.pure_eq_ok, List.nil_append]
    rw [new_row_for1_fold row _ _ [⟨minScore, .m none⟩] start end_ (set_get_self h)]
    simp [Rs.rangeIncl, ← hc, mcell]

/-! ### inversion of the `Option` loops of the checked-`i32` mirror -/

theorem mapC_cons_some {α β : Type} {f : α → Option β} {a : α} {l : List α} {r : List β} (h : mapC f (a :: l) = some r) :
    ∃ b bs, f a = some b ∧ mapC f l = some bs ∧ r = b :: bs := by
  simp only [mapC] at h
  cases h1 : f a with
  | none => rw [h1] at h; cases h
  | some b =>
    rw [h1] at h
    cases h2 : mapC f l with
    | none => rw [h2] at h; cases h
    | some bs => rw [h2] at h; simp only [Option.some.injEq] at h; exact ⟨b, bs, rfl, rfl, h.symm⟩

theorem mapC_length {α β : Type} {f : α → Option β} : ∀ {l : List α} {r : List β}, mapC f l = some r → r.length = l.length
  | [], r, h => by simp only [mapC, Option.some.injEq] at h; subst h; rfl
  | a :: l, r, h => by
    obtain ⟨b, bs, _, h2, rfl⟩ := mapC_cons_some h
    simp [mapC_length h2]

theorem foldlC_cons_some {α β : Type} {f : β → α → Option β} {a : α} {l : List α} {b r : β}
    (h : foldlC f b (a :: l) = some r) : ∃ b', f b a = some b' ∧ foldlC f b' l = some r := by
  simp only [foldlC] at h
  cases h1 : f b a with
  | none => rw [h1] at h; cases h
  | some b' => rw [h1] at h; exact ⟨b', rfl, h⟩

/-! ### `with_capacity`, `initialize_scores` -/

/-- one cell of row 0 (`initialize_scores`, before column 0 is overwritten) -/
def row0Cell (gap yclip : Int) (j : Nat) : Option Cell :=
  match I32.mul gap (I32.ofUsize j) with
  | none => none
  | some g => some (cmax ⟨g, .i none⟩ ⟨yclip, .y 0 j⟩)

theorem init_for1_fold (gap yclip : Int) : ∀ (l : List Nat) (tb : Rs.Poa.Traceback) (cs : List Cell) (s e : Nat)
    (cells : List Cell), tb.matrix[0]? = some (cs, s, e) → mapC (row0Cell gap yclip) l = some cells →
    List.foldlM (Traceback_initialize_scores_for1 gap yclip) tb l =
      ok { tb with matrix := tb.matrix.set 0 (cs ++ cells, s, e) }
  | [], tb, cs, s, e, cells, h, hm => by
    simp only [mapC, Option.some.injEq] at hm
    subst hm
    simp only [List.foldlM_nil, Res.pure_eq_ok, List.append_nil, set_self_of_getElem? h]
  | a :: l, tb, cs, s, e, cells, h, hm => by
    obtain ⟨b, bs, h1, h2, rfl⟩ := mapC_cons_some hm
    simp only [List.foldlM_cons]
    unfold row0Cell at h1
    cases hg : I32.mul gap (I32.ofUsize a) with
    | none => rw [hg] at h1; cases h1
    | some g =>
      rw [hg] at h1
      simp only [Option.some.injEq] at h1
      have e1 : Traceback_initialize_scores_for1 gap yclip tb a = ok { tb with matrix := tb.matrix.set 0 (cs ++ [b], s, e) } := by
        unfold Traceback_initialize_scores_for1
        simp only [usizeAsI32_eq, imul32_some hg, Res.ok_bind, Rs.idx_of_getElem? h, Rs.setIdx_ok (lt_of_getElem? h),
          Res.pure_eq_ok, h1]
      rw [e1]
      simp only [Res.ok_bind]
      rw [init_for1_fold gap yclip l _ (cs ++ [b]) s e bs (set_get_self h) h2]
      simp only [List.set_set, List.append_assoc, List.singleton_append]

theorem init_eq (m n : Nat) (gap yclip : Int) (r0 : BRow) (h : bRow0C gap yclip n = some r0)
    (hn : n + 1 < 2 ^ 64) (hm : m + 1 < 2 ^ 64) :
    (do let tb ← Traceback_with_capacity m n
        Traceback_initialize_scores tb gap yclip) =
      ok { rows := m, cols := n, last := 0, matrix := (r0.cells, 0, n + 1) :: List.replicate m ([], 0, n + 1) } := by
  have hb : bRow0C gap yclip n = (match I32.mul gap (I32.ofUsize 0) with
      | none => none
      | some _ => match mapC (row0Cell gap yclip) (List.range' 1 n) with
        | none => none
        | some cs => some { cells := ⟨0, .m none⟩ :: cs, start := 0, stop := n + 1 }) := rfl
  rw [hb] at h
  cases h0 : I32.mul gap (I32.ofUsize 0) with
  | none => rw [h0] at h; cases h
  | some g0 =>
    rw [h0] at h
    simp only at h
    cases h1 : mapC (row0Cell gap yclip) (List.range' 1 n) with
    | none => rw [h1] at h; cases h
    | some cs =>
      rw [h1] at h
      simp only [Option.some.injEq] at h
      subst h
      have hall : mapC (row0Cell gap yclip) (Rs.rangeIncl 0 n) = some (cmax ⟨g0, .i none⟩ ⟨yclip, .y 0 0⟩ :: cs) := by
        have : Rs.rangeIncl 0 n = 0 :: List.range' 1 n := by
          unfold Rs.rangeIncl; simp [List.range'_succ]
        rw [this]
        simp only [mapC, row0Cell, h0]
        rw [h1]
      unfold Traceback_with_capacity Traceback_initialize_scores
      simp only [Rs.add_ok hn, Rs.add_ok hm, Res.ok_bind, Res.pure_eq_ok, List.replicate_succ]
      rw [init_for1_fold gap yclip _ _ [] 0 (n + 1) _ (by simp) hall]
      simp [Rs.idx, Rs.setIdx]

/-! ### `Poa::custom`: predecessor loop, column loop -/

theorem get_inband (tb : Rs.Poa.Traceback) (i j : Nat) (cs : List Cell) (s e : Nat) (h : tb.matrix[i]? = some (cs, s, e))
    (h1 : s ≤ j) (h2 : j < e) (h3 : j - s < cs.length) : Traceback_get tb i j = ok (cs.getD (j - s) mcell) := by
  have hne : cs ≠ [] := by intro hh; subst hh; simp at h3
  unfold Traceback_get
  have c1 : (!(decide (s > j) || decide (e ≤ j) || cs.isEmpty)) = true := by
    cases cs with
    | nil => exact absurd rfl hne
    | cons a l => simp; omega
  simp only [Rs.idx_of_getElem? h, Res.ok_bind, c1, if_true, Rs.sub_ok h1, Rs.idx_ok h3, Res.pure_eq_ok]
  simp [List.getD, List.getElem?_eq_getElem h3]

/-! ### generic list / `Option`-loop lemmas used by the proofs about `custom` -/

theorem set_append_len {α : Type} (l : List α) (a b : α) (r : List α) : (l ++ a :: r).set l.length b = l ++ b :: r := by
  induction l with
  | nil => rfl
  | cons x l ih => simp [ih]

theorem getElem?_append_len {α : Type} (l : List α) (a : α) (r : List α) : (l ++ a :: r)[l.length]? = some a := by
  induction l with
  | nil => rfl
  | cons x l ih => simp [ih]

theorem getElem?_set_ne' {α : Type} (l : List α) (i k : Nat) (a : α) (h : i ≠ k) : (l.set i a)[k]? = l[k]? := by
  simp [List.getElem?_set, h]

/-- candidate and insertion scan of a row, column by column (as the Rust loop interleaves them) -/
def colLoopC (cand : Nat → Option Cell) (gap : Int) (iOp : POp) : Cell → List Nat → Option (List Cell)
  | _, [] => some []
  | left, j :: js =>
    match cand j with
    | none => none
    | some c =>
      match I32.add left.score gap with
      | none => none
      | some s =>
        match colLoopC cand gap iOp (cmax c ⟨s, iOp⟩) js with
        | none => none
        | some rest => some (cmax c ⟨s, iOp⟩ :: rest)

theorem colLoopC_of (cand : Nat → Option Cell) (gap : Int) (iOp : POp) : ∀ (js : List Nat) (left : Cell) (cands cs : List Cell),
    mapC cand js = some cands → insScanC gap iOp left cands = some cs → colLoopC cand gap iOp left js = some cs
  | [], left, cands, cs, h1, h2 => by
    simp only [mapC, Option.some.injEq] at h1; subst h1
    simp only [insScanC, Option.some.injEq] at h2; subst h2; rfl
  | j :: js, left, cands, cs, h1, h2 => by
    obtain ⟨c, cands', hc, h1', rfl⟩ := mapC_cons_some h1
    simp only [insScanC] at h2
    cases hs : I32.add left.score gap with
    | none => rw [hs] at h2; cases h2
    | some s =>
      rw [hs] at h2
      simp only at h2
      cases hr : insScanC gap iOp (cmax c ⟨s, iOp⟩) cands' with
      | none => rw [hr] at h2; cases h2
      | some rest =>
        rw [hr] at h2
        simp only [Option.some.injEq] at h2
        simp only [colLoopC, hc, hs, colLoopC_of cand gap iOp js _ cands' rest h1' hr, h2]

theorem insScanC_length (gap : Int) (iOp : POp) : ∀ (cands : List Cell) (left : Cell) (cs : List Cell),
    insScanC gap iOp left cands = some cs → cs.length = cands.length
  | [], left, cs, h => by simp only [insScanC, Option.some.injEq] at h; subst h; rfl
  | c :: cands, left, cs, h => by
    simp only [insScanC] at h
    cases hs : I32.add left.score gap with
    | none => rw [hs] at h; cases h
    | some s =>
      rw [hs] at h
      simp only at h
      cases hr : insScanC gap iOp (cmax c ⟨s, iOp⟩) cands with
      | none => rw [hr] at h; cases h
      | some rest =>
        rw [hr] at h
        simp only [Option.some.injEq] at h
        subst h
        simp [insScanC_length gap iOp cands _ rest hr]

theorem getD_append_default {α : Type} (l : List α) (d : α) (k : Nat) : (l ++ [d]).getD k d = l.getD k d := by
  simp only [List.getD_eq_getElem?_getD]
  rcases Nat.lt_or_ge k l.length with h | h
  · rw [List.getElem?_append_left h]
  · rw [List.getElem?_append_right h, List.getElem?_eq_none h]
    cases k - l.length <;> simp

theorem colUpdate_length (i : Nat) : ∀ (mcs : List (Int × Nat)) (cs : List Cell), (colUpdate i mcs cs).length = mcs.length
  | [], cs => by cases cs <;> simp [colUpdate]
  | mc :: mcs, [] => by simp [colUpdate]
  | mc :: mcs, c :: cs => by simp [colUpdate, colUpdate_length i mcs cs]

theorem enumerate_eq {α : Type} (l : List α) : Rs.enumerate l = Rs.enumFrom 0 l := rfl

theorem bRow0C_shape {gap yclip : Int} {n : Nat} {r0 : BRow} (h : bRow0C gap yclip n = some r0) :
    r0.start = 0 ∧ r0.stop = n + 1 ∧ r0.cells.length = n + 1 := by
  have hb : bRow0C gap yclip n = (match I32.mul gap (I32.ofUsize 0) with
      | none => none
      | some _ => match mapC (row0Cell gap yclip) (List.range' 1 n) with
        | none => none
        | some cs => some { cells := ⟨0, .m none⟩ :: cs, start := 0, stop := n + 1 }) := rfl
  rw [hb] at h
  cases h0 : I32.mul gap (I32.ofUsize 0) with
  | none => rw [h0] at h; cases h
  | some g0 =>
    rw [h0] at h
    simp only at h
    cases h1 : mapC (row0Cell gap yclip) (List.range' 1 n) with
    | none => rw [h1] at h; cases h
    | some cs =>
      rw [h1] at h
      simp only [Option.some.injEq] at h
      subst h
      simp [mapC_length h1]

end RbV.Thm.GenSrcPoaAlign
