import RbV.Lemmas.C15SrcAdd
import RbV.Gen.SrcProbs
/-!
# C15: theorems about the *translated text* of `src/stats/probs/mod.rs` (`RbV/Gen/SrcProbs.lean`)

The generated definitions are generic in the abstract `f64`; here they are read at `xrOps E` (`RbV/Lemmas/C15Src.lean`:
`ℝ ∪ {±∞, NaN}`, exact arithmetic, `fastexp = E`).  A model value `a : LP` (`none = ln 0`) enters as `emb a`.
Obligations are stated at the level the property determines (error bounds, exactness, neutral elements, the weights of
the quadrature rules); the branch-by-branch equalities with the hand-written model are in `GenSrcProbsModel.lean` (soft).
The proofs walk every path of the generated term (`split_ifs`) and close each leaf with one of a few leaf lemmas, so that
reordered branches, commuted operands and additional admissible exits are re-proved.
-/
set_option linter.unusedSimpArgs false
set_option linter.unusedVariables false
set_option linter.unreachableTactic false
set_option linter.unusedTactic false
set_option linter.unnecessarySeqFocus false
namespace RbV.Thm.GenSrcProbs
open RbV RbV.Rs RbV.C15 RbV.Gen.SrcProbs Real

/-- what the proofs need of the approximate exponential for the *value* of `ln_1p(E d)` to be finite -/
def PosOn (E : ℝ → ℝ) : Prop := ∀ d : ℝ, d ≤ 0 → 0 < E d

theorem posOn_of_approx {E δ} (h : ApproxExp E δ) (hδ : δ < 1) : PosOn E := fun _ hd => h.pos hδ hd
theorem posOn_exp : PosOn exp := fun d _ => exp_pos d

/-- the literal of an early-exit test found in the text is at most `dropGap` -/
macro "lit_le_gap" h:ident : tactic =>
  `(tactic| (rw [decR_eq] at $h:ident; norm_num at $h:ident; unfold dropGap; norm_num))

/-! ### `ln_add_exp` -/

theorem ln_add_exp_near_model (E : ℝ → ℝ) (hE : PosOn E) (a b : LP) :
    ∃ r : LP, ln_add_exp (xrOps E) (emb a) (emb b) = emb r ∧ AddNear E a b r := by
  cases a with
  | none =>
    cases b with
    | none => exact ⟨none, by simp [ln_add_exp, ln_zero], addNear_model ..⟩
    | some y =>
      refine ⟨some y, ?_, addNear_model ..⟩
      simp [ln_add_exp, ln_zero]
  | some x =>
    cases b with
    | none => exact ⟨some x, by simp [ln_add_exp, ln_zero], addNear_model ..⟩
    | some y =>
      rcases lt_or_ge x y with h | h
      · have hE1 : (-1 : ℝ) < E (x - y) := by have := hE (x - y) (by linarith); linarith
        have hmax : max x y = y := max_eq_right h.le
        have hmin : min x y = x := min_eq_left h.le
        simp only [ln_add_exp, ln_zero, emb_some, ops_eq, ops_lt, ops_add, ops_sub, ops_ln1p, ops_fastexp, ops_inf,
          ops_negInf, ops_ofDec, eq_fin_ninf, eq_fin_pinf, lt_fin, sub_fin, fastexp_fin, add_fin, ln1p_fin hE1, h,
          decide_true, decide_false, Bool.false_eq_true, ↓reduceIte, if_true, if_false]
        (try split_ifs) <;>
        first
          | (refine ⟨some _, rfl, Or.inl ?_⟩; simp [lnAddExp, hmax, hmin]; done)
          | (rename_i hc; refine ⟨some y, rfl, Or.inr ⟨x, y, rfl, rfl, ?_, by rw [hmax]⟩⟩
             rw [hmax, hmin]; simp only [decide_eq_true_eq] at hc; rw [decR_eq] at hc; norm_num at hc; unfold dropGap; linarith)
      · have hE1 : (-1 : ℝ) < E (y - x) := by have := hE (y - x) (by linarith); linarith
        have hmax : max x y = x := max_eq_left h
        have hmin : min x y = y := min_eq_right h
        have hn : ¬ x < y := not_lt.mpr h
        simp only [ln_add_exp, ln_zero, emb_some, ops_eq, ops_lt, ops_add, ops_sub, ops_ln1p, ops_fastexp, ops_inf,
          ops_negInf, ops_ofDec, eq_fin_ninf, eq_fin_pinf, lt_fin, sub_fin, fastexp_fin, add_fin, ln1p_fin hE1, hn,
          decide_true, decide_false, Bool.false_eq_true, ↓reduceIte, if_true, if_false]
        (try split_ifs) <;>
        first
          | (refine ⟨some _, rfl, Or.inl ?_⟩; simp [lnAddExp, hmax, hmin]; done)
          | (rename_i hc; refine ⟨some x, rfl, Or.inr ⟨x, y, rfl, rfl, ?_, by rw [hmax]⟩⟩
             rw [hmax, hmin]; simp only [decide_eq_true_eq] at hc; rw [decR_eq] at hc; norm_num at hc; unfold dropGap; linarith)

/-- the error bound of the property for the translated `ln_add_exp`: `δ ·` smaller operand, plus `dropTol ·` larger
operand for an early exit (none in the pinned text) -/
theorem ln_add_exp_error (E : ℝ → ℝ) (δ : ℝ) (h : ApproxExp E δ) (hδ : δ < 1) (a b r : LP)
    (hr : ln_add_exp (xrOps E) (emb a) (emb b) = emb r) :
    |lin r - (lin a + lin b)| ≤ δ * min (lin a) (lin b) + dropTol * max (lin a) (lin b) := by
  obtain ⟨r', hr', hn⟩ := ln_add_exp_near_model E (posOn_of_approx h hδ) a b
  rw [hr'] at hr
  rw [← emb_inj hr]
  exact hn.error h hδ

/-! ### `ln_1m_exp`, `ln_one_minus_exp`, `ln_sub_exp` -/

theorem ln_1m_exp_spec (E : ℝ → ℝ) (δ : ℝ) (h : ApproxExp E δ) (hδ : δ ≤ 1 / 2) (x : ℝ) (hx : x ≤ 0) :
    ∃ r : LP, ln_1m_exp (xrOps E) (XR.fin x) = Res.ok (emb r) ∧ |lin r - (1 - exp x)| ≤ δ * exp x := by
  have hδ0 := h.delta_nonneg
  have hl2 : (0 : ℝ) < log 2 := log_pos one_lt_two
  simp only [ln_1m_exp, Rs.assert, ops_le, ops_lt, ops_ofDec, ops_neg, ops_ln1p, ops_ln, ops_fastexp, ops_expm1, ops_exp,
    ops_ln2, le_fin, lt_fin, neg_fin, fastexp_fin, expm1_fin, exp_fin, decR_zero, hx, decide_true, ↓reduceIte,
    Res.pure_eq_ok, Res.ok_bind, bind_pure_comp, decide_eq_true_eq]
  (try split_ifs) <;> (try rename_i hc) <;> (try (rw [decR_eq] at hc; norm_num at hc)) <;>
  first
    | exact leaf_expm1 hδ0 hx
    | exact leaf_ln1p E (h x hx) (approx_lt_one h hδ (by linarith))
    | exact leaf_ln1p exp (by simpa using mul_nonneg hδ0 (exp_pos x).le) (exp_lt_one_iff.mpr (by linarith))

theorem ln_one_minus_exp_spec (E : ℝ → ℝ) (δ : ℝ) (h : ApproxExp E δ) (hδ : δ ≤ 1 / 2) (a : LP) (ha : lin a ≤ 1) :
    ∃ r : LP, ln_one_minus_exp (xrOps E) (emb a) = Res.ok (emb r) ∧ |lin r - (1 - lin a)| ≤ δ * lin a := by
  cases a with
  | none =>
    refine ⟨some 0, ?_, by simp [lin]⟩
    simp [ln_one_minus_exp, ln_1m_exp, Rs.assert, XR.le, XR.lt]
  | some x =>
    have hx : x ≤ 0 := by
      by_contra hc
      have : 1 < exp x := by have := exp_lt_exp.mpr (not_le.mp hc); rwa [exp_zero] at this
      simp only [lin] at ha; linarith
    obtain ⟨r, hr, he⟩ := ln_1m_exp_spec E δ h hδ x hx
    exact ⟨r, by simp [ln_one_minus_exp, hr], he⟩

theorem ln_one_minus_exp_spec_fin (E : ℝ → ℝ) (δ : ℝ) (h : ApproxExp E δ) (hδ : δ ≤ 1 / 2) (x : ℝ) (hx : x ≤ 0) :
    ∃ r : LP, ln_one_minus_exp (xrOps E) (XR.fin x) = Res.ok (emb r) ∧ |lin r - (1 - exp x)| ≤ δ * exp x :=
  ln_one_minus_exp_spec E δ h hδ (some x) (by simpa [lin] using hx)

/-- the translated `ln_sub_exp` never panics on `p1 ≤ p0` and is within `δ · e^{p1}` of `e^{p0} − e^{p1}` -/
theorem ln_sub_exp_spec (E : ℝ → ℝ) (δ : ℝ) (h : ApproxExp E δ) (hδ : δ ≤ 1 / 2) (a b : LP) (hab : lin b ≤ lin a) :
    ∃ r : LP, ln_sub_exp (xrOps E) (emb a) (emb b) = Res.ok (emb r) ∧ |lin r - (lin a - lin b)| ≤ δ * lin b := by
  have hδ0 := h.delta_nonneg
  cases b with
  | none => exact ⟨a, by cases a <;> simp [ln_sub_exp, ln_zero], by simp [lin]⟩
  | some y =>
    cases a with
    | none => simp only [lin] at hab; exact absurd hab (not_le.mpr (exp_pos y))
    | some x =>
      have hyx : y ≤ x := exp_le_exp.mp hab
      have hd : y - x ≤ 0 := by linarith
      obtain ⟨r', hr', he⟩ := ln_one_minus_exp_spec_fin E δ h hδ (y - x) hd
      have hexp : exp y = exp x * exp (y - x) := by rw [← exp_add]; ring_nf
      simp only [ln_sub_exp, ln_zero, Rs.assert, emb_some, ops_eq, ops_le, ops_lt, ops_add, ops_sub, ops_relEq, ops_epsilon,
        ops_inf, ops_negInf, ops_ofDec, eq_fin_ninf, eq_fin_pinf, le_fin, lt_fin, sub_fin, relEq_zero, hyx, hr',
        add_fin_emb, decide_true, decide_false, Bool.false_eq_true, Bool.or_false, Bool.false_or, ↓reduceIte,
        Res.pure_eq_ok, Res.ok_bind, decide_eq_true_eq]
      (try split_ifs) <;>
      first
        | (rename_i hc; subst hc; exact ⟨none, rfl, by simp only [lin, sub_self, abs_zero]; positivity⟩)
        | (refine ⟨addLP x r', rfl, ?_⟩
           rw [lin_addLP]
           show |exp x * lin r' - (exp x - exp y)| ≤ δ * exp y
           have e1 : exp x * lin r' - (exp x - exp y) = exp x * (lin r' - (1 - exp (y - x))) := by rw [hexp]; ring
           rw [e1, abs_mul, abs_of_pos (exp_pos _), hexp]
           calc exp x * |lin r' - (1 - exp (y - x))| ≤ exp x * (δ * exp (y - x)) :=
                 mul_le_mul_of_nonneg_left he (exp_pos _).le
             _ = δ * (exp x * exp (y - x)) := by ring)

/-! ### `Prob::checked` and the conversions -/

/-- the translated `Prob::checked` accepts exactly the finite values of `[0, 1]` — in particular not NaN, ±∞ -/
theorem checked_iff (E : ℝ → ℝ) (p v : XR) :
    Gen.SrcProbs.checked (xrOps E) p = Except.ok v ↔ v = p ∧ ∃ x : ℝ, p = XR.fin x ∧ 0 ≤ x ∧ x ≤ 1 := by
  have d0 : decR ⟨0, 0⟩ = 0 := decR_zero
  have d1 : decR ⟨1, 0⟩ = 1 := by rw [decR_eq]; simp
  cases p with
  | fin x =>
    simp only [Gen.SrcProbs.checked, ops_le, ops_lt, ops_ofDec, le_fin, lt_fin, d0, d1, Bool.and_eq_true, decide_eq_true_eq]
    by_cases h0 : 0 ≤ x <;> by_cases h1 : x ≤ 1 <;>
      simp [h0, h1, not_le.mp, not_lt.mpr, eq_comm, lt_irrefl] <;> intros <;> linarith
  | ninf => simp [Gen.SrcProbs.checked, XR.le, XR.lt]
  | pinf => simp [Gen.SrcProbs.checked, XR.le, XR.lt]
  | nan => simp [Gen.SrcProbs.checked, XR.le, XR.lt]

theorem checked_rejects (E : ℝ → ℝ) (p : XR) (hp : ¬ ∃ x : ℝ, p = XR.fin x ∧ 0 ≤ x ∧ x ≤ 1) :
    ∃ e, Gen.SrcProbs.checked (xrOps E) p = Except.error e := by
  cases hc : Gen.SrcProbs.checked (xrOps E) p with
  | error e => exact ⟨e, rfl⟩
  | ok v => exact absurd ((checked_iff E p v).mp hc).2 hp

/-- the six `From` impls at finite arguments, as real functions -/
theorem conversions_eq_model (E : ℝ → ℝ) (x : ℝ) :
    prob_of_logprob (xrOps E) (XR.fin x) = XR.fin (E x) ∧
    prob_of_phred (xrOps E) (XR.fin x) = XR.fin (exp (-x / 10 * log 10)) ∧
    (0 < x → logprob_of_prob (xrOps E) (XR.fin x) = XR.fin (log x)) ∧
    logprob_of_prob (xrOps E) (XR.fin 0) = XR.ninf ∧
    logprob_of_phred (xrOps E) (XR.fin x) = XR.fin (x * (C15.PHRED_TO_LOG_FACTOR : ℝ)) ∧
    (0 < x → phred_of_prob (xrOps E) (XR.fin x) = XR.fin (-10 * (log x / log 10))) ∧
    phred_of_logprob (xrOps E) (XR.fin x) = XR.fin (x * (C15.LOG_TO_PHRED_FACTOR : ℝ)) := by
  have d10 : decR ⟨10, 0⟩ = 10 := by rw [decR_eq]; simp
  have dm10 : decR ⟨(-10), 0⟩ = -10 := by rw [decR_eq]; simp
  refine ⟨rfl, ?_, ?_, ?_, ?_, ?_, ?_⟩
  · simp [prob_of_phred, XR.powf, XR.div, d10]
  · intro hx; simp [logprob_of_prob, ln_fin_pos hx]
  · simp [logprob_of_prob]
  · simp only [logprob_of_phred, ops_mul, ops_ofDec, mul_fin]; rfl
  · intro hx; simp [phred_of_prob, log10_fin_pos hx, dm10]
  · simp only [phred_of_logprob, ops_mul, ops_ofDec, mul_fin]; rfl

/-- `Prob → PHREDProb → Prob` through the translated conversions is exact -/
theorem prob_phred_roundtrip (E : ℝ → ℝ) (p : ℝ) (hp : 0 < p) :
    prob_of_phred (xrOps E) (phred_of_prob (xrOps E) (XR.fin p)) = XR.fin p := by
  rw [((conversions_eq_model E p).2.2.2.2.2.1) hp, (conversions_eq_model E _).2.1]
  have h10 : log 10 ≠ 0 := (log_pos (by norm_num)).ne'
  have : -(-10 * (log p / log 10)) / 10 * log 10 = log p := by field_simp
  rw [this, exp_log hp]

/-- `Prob → LogProb → Prob`: the only error is that of `fastexp` -/
theorem prob_logprob_roundtrip (E : ℝ → ℝ) (δ : ℝ) (h : ApproxExp E δ) (p : ℝ) (hp : 0 < p) (hp1 : p ≤ 1) :
    ∃ q : ℝ, prob_of_logprob (xrOps E) (logprob_of_prob (xrOps E) (XR.fin p)) = XR.fin q ∧ |q - p| ≤ δ * p := by
  rw [((conversions_eq_model E p).2.2.1) hp]
  refine ⟨E (log p), rfl, ?_⟩
  have := h (log p) (log_nonpos hp.le hp1)
  rwa [exp_log hp] at this

/-- `LogProb → PHREDProb → LogProb` multiplies by the product of the two extracted literals (within 10⁻¹⁵ of 1) -/
theorem logprob_phred_roundtrip (E : ℝ → ℝ) (x : ℝ) :
    ∃ y : ℝ, logprob_of_phred (xrOps E) (phred_of_logprob (xrOps E) (XR.fin x)) = XR.fin y ∧
      y = x * ((C15.LOG_TO_PHRED_FACTOR * C15.PHRED_TO_LOG_FACTOR : ℚ) : ℝ) := by
  rw [(conversions_eq_model E x).2.2.2.2.2.2, (conversions_eq_model E _).2.2.2.2.1]
  exact ⟨_, rfl, by push_cast; ring⟩

/-! ### `ln_sum_exp` -/

theorem lt_emb (a b : LP) : XR.lt (emb a) (emb b) = decide (lin a < lin b) := by
  cases a <;> cases b <;> simp [lin, exp_pos, (exp_pos _).le, not_lt.mpr]

theorem lin_le_none {y : LP} (h : lin y ≤ lin none) : y = none := by
  cases y with
  | none => rfl
  | some v => simp only [lin] at h; exact absurd h (not_le.mpr (exp_pos v))

theorem for1_step (E : ℝ → ℝ) (a p : XR) (i k : Nat) :
    ln_sum_exp_for1 (xrOps E) (a, i) (k, p) = if XR.lt a p then (p, k) else (a, i) := by
  by_cases h : XR.lt a p = true <;> simp [ln_sum_exp_for1, h]

/-- the maximum loop: afterwards `imax` points at an entry equal to `pmax`, and no entry is larger -/
theorem for1_fold (E : ℝ → ℝ) (t : List LP) : ∀ (k : Nat) (pm : LP) (im : Nat) (pre : List LP), pre.length = k →
    pre[im]? = some pm → (∀ y ∈ pre, lin y ≤ lin pm) →
    ∃ (pm' : LP) (im' : Nat), List.foldl (ln_sum_exp_for1 (xrOps E)) (emb pm, im) (Rs.enumIdxFrom k (t.map emb)) = (emb pm', im') ∧
      (pre ++ t)[im']? = some pm' ∧ ∀ y ∈ pre ++ t, lin y ≤ lin pm' := by
  induction t with
  | nil => intro k pm im pre _ h1 h2; exact ⟨pm, im, rfl, by simpa using h1, by simpa using h2⟩
  | cons p t ih =>
    intro k pm im pre hk h1 h2
    simp only [List.map_cons, Rs.enumIdxFrom, List.foldl_cons, for1_step, lt_emb]
    have hlen : (pre ++ [p]).length = k + 1 := by simp [hk]
    by_cases hlt : lin pm < lin p
    · simp only [hlt, decide_true, ↓reduceIte]
      obtain ⟨pm', im', e1, e2, e3⟩ := ih (k + 1) p k (pre ++ [p]) hlen (by simp [← hk])
        (by intro y hy; rcases List.mem_append.mp hy with hy | hy
            · exact le_trans (h2 y hy) hlt.le
            · simp only [List.mem_singleton] at hy; rw [hy])
      exact ⟨pm', im', e1, by simpa using e2, by simpa using e3⟩
    · simp only [hlt, decide_false, Bool.false_eq_true, ↓reduceIte]
      have him : im < pre.length := by
        by_contra hc; rw [List.getElem?_eq_none (not_lt.mp hc)] at h1; cases h1
      obtain ⟨pm', im', e1, e2, e3⟩ := ih (k + 1) pm im (pre ++ [p]) hlen
        (by rw [List.getElem?_append_left him]; exact h1)
        (by intro y hy; rcases List.mem_append.mp hy with hy | hy
            · exact h2 y hy
            · simp only [List.mem_singleton] at hy; rw [hy]; exact not_lt.mp hlt)
      exact ⟨pm', im', e1, by simpa using e2, by simpa using e3⟩

theorem fmap1_step (E : ℝ → ℝ) (M : ℝ) (imax i : Nat) (q : LP) :
    ln_sum_exp_fmap1 (xrOps E) (XR.fin M) imax (i, emb q) =
      match q with
      | none => none
      | some y => if i = imax then none else some (XR.fin (E (y - M))) := by
  cases q with
  | none => simp [ln_sum_exp_fmap1, ln_zero]
  | some y =>
    by_cases h : i = imax
    · subst h; simp [ln_sum_exp_fmap1, ln_zero]
    · have h2 : ¬ imax = i := fun e => h e.symm
      simp [ln_sum_exp_fmap1, ln_zero, h, h2]

@[simp] theorem fmap1_ninf (E : ℝ → ℝ) (M : ℝ) (imax i : Nat) :
    ln_sum_exp_fmap1 (xrOps E) (XR.fin M) imax (i, XR.ninf) = none := fmap1_step E M imax i none

@[simp] theorem fmap1_fin (E : ℝ → ℝ) (M y : ℝ) (imax i : Nat) :
    ln_sum_exp_fmap1 (xrOps E) (XR.fin M) imax (i, XR.fin y) = if i = imax then none else some (XR.fin (E (y - M))) :=
  fmap1_step E M imax i (some y)

/-- the summation pass behind the position of the maximum: every finite entry contributes -/
theorem fmap_nohole (E : ℝ → ℝ) (M : ℝ) (imax : Nat) (l : List LP) : ∀ k, imax < k →
    List.filterMap (ln_sum_exp_fmap1 (xrOps E) (XR.fin M) imax) (Rs.enumIdxFrom k (l.map emb)) =
      ((finites l).map fun y => E (y - M)).map XR.fin := by
  induction l with
  | nil => intro k _; rfl
  | cons q l ih =>
    intro k hk
    have hne : k ≠ imax := by omega
    cases q with
    | none => simpa [Rs.enumIdxFrom, fmap1_step, finites] using ih (k + 1) (by omega)
    | some y => simpa [Rs.enumIdxFrom, fmap1_step, finites, hne] using ih (k + 1) (by omega)

/-- the summation pass: every finite entry except the one at `imax` contributes -/
theorem fmap_hole (E : ℝ → ℝ) (M : ℝ) (l : List LP) : ∀ (k im : Nat), l[im]? = some (some M) →
    ∃ rest : List ℝ, List.filterMap (ln_sum_exp_fmap1 (xrOps E) (XR.fin M) (k + im)) (Rs.enumIdxFrom k (l.map emb)) = rest.map XR.fin ∧
      rest.sum + E (M - M) = ((finites l).map fun y => E (y - M)).sum ∧ ∀ v ∈ rest, ∃ y ∈ finites l, v = E (y - M) := by
  induction l with
  | nil => intro k im h; simp at h
  | cons q l ih =>
    intro k im h
    cases im with
    | zero =>
      simp only [List.getElem?_cons_zero, Option.some.injEq] at h
      subst h
      refine ⟨(finites l).map fun y => E (y - M), ?_, ?_, ?_⟩
      · simp only [List.map_cons, Rs.enumIdxFrom, Nat.add_zero, emb_some, List.filterMap_cons]
        rw [show ln_sum_exp_fmap1 (xrOps E) (XR.fin M) k (k, XR.fin M) = none by
          simpa using fmap1_step E M k k (some M)]
        exact fmap_nohole E M k l (k + 1) (by omega)
      · simp [finites, add_comm]
      · intro v hv; obtain ⟨y, hy, rfl⟩ := List.mem_map.mp hv
        exact ⟨y, by simp [finites] at hy ⊢; exact Or.inr hy, rfl⟩
    | succ im =>
      simp only [List.getElem?_cons_succ] at h
      obtain ⟨rest, e1, e2, e3⟩ := ih (k + 1) im h
      have hidx : k + (im + 1) = k + 1 + im := by omega
      have hne : k ≠ k + 1 + im := by omega
      cases q with
      | none =>
        refine ⟨rest, ?_, by simpa [finites] using e2, by simpa [finites] using e3⟩
        simp only [List.map_cons, Rs.enumIdxFrom, List.filterMap_cons, hidx]
        rw [show ln_sum_exp_fmap1 (xrOps E) (XR.fin M) (k + 1 + im) (k, emb none) = none by
          simpa using fmap1_step E M (k + 1 + im) k none]
        exact e1
      | some y =>
        refine ⟨E (y - M) :: rest, ?_, ?_, ?_⟩
        · simp only [List.map_cons, Rs.enumIdxFrom, List.filterMap_cons, hidx]
          rw [show ln_sum_exp_fmap1 (xrOps E) (XR.fin M) (k + 1 + im) (k, emb (some y)) = some (XR.fin (E (y - M))) by
            simpa [hne] using fmap1_step E M (k + 1 + im) k (some y)]
          simp only [e1]
        · simp only [finites, List.filterMap_cons, id, List.map_cons, List.sum_cons] at e2 ⊢
          linarith
        · intro v hv
          rcases List.mem_cons.mp hv with rfl | hv
          · exact ⟨y, by simp [finites], rfl⟩
          · obtain ⟨z, hz, rfl⟩ := e3 v hv
            exact ⟨z, by simp [finites] at hz ⊢; exact Or.inr hz, rfl⟩

theorem mem_finites {l : List LP} {y : ℝ} : y ∈ finites l ↔ some y ∈ l := by
  simp [finites]

/-- the translated `ln_sum_exp` is the model's `lnSumExp` (any position of a maximal entry may be the excluded one) -/
theorem ln_sum_exp_eq_model (E : ℝ → ℝ) (hE : PosOn E) (l : List LP) :
    ln_sum_exp (xrOps E) (l.map emb) = Res.ok (emb (lnSumExp E l)) := by
  cases l with
  | nil => simp [ln_sum_exp, ln_zero, lnSumExp, finites]
  | cons a t =>
    obtain ⟨pm, im, e1, e2, e3⟩ := for1_fold E t 1 a 0 [a] rfl rfl (by simp)
    have hdrop : (Rs.enumIdx (emb a :: t.map emb)).drop 1 = Rs.enumIdxFrom 1 (t.map emb) := rfl
    simp only [ln_sum_exp, ln_zero, List.map_cons, List.isEmpty_cons, Bool.false_eq_true, ↓reduceIte, Rs.idx,
      List.getElem?_cons_zero, Res.ok_bind, hdrop, e1, ops_eq, ops_negInf, ops_inf, ops_add, ops_ln1p, Res.pure_eq_ok]
    simp only [List.singleton_append] at e2 e3
    cases pm with
    | none =>
      have hall : finites (a :: t) = [] := by
        rw [List.eq_nil_iff_forall_not_mem]
        intro y hy
        have := lin_le_none (e3 _ (mem_finites.mp hy))
        cases this
      simp [lnSumExp, hall]
    | some M =>
      obtain ⟨rest, f1, f2, f3⟩ := fmap_hole E M (a :: t) 0 im e2
      have hMmem : M ∈ finites (a :: t) := mem_finites.mpr (List.mem_of_getElem? e2)
      have hle : ∀ y ∈ finites (a :: t), y ≤ M := fun y hy => exp_le_exp.mp (e3 _ (mem_finites.mp hy))
      have hpos : ∀ v ∈ rest, 0 < v := by
        intro v hv; obtain ⟨y, hy, rfl⟩ := f3 v hv
        exact hE _ (by have := hle y hy; linarith)
      have hsum0 : 0 ≤ rest.sum := List.sum_nonneg fun v hv => (hpos v hv).le
      have henum : Rs.enumIdx (emb a :: t.map emb) = Rs.enumIdxFrom 0 ((a :: t).map emb) := rfl
      rw [henum]
      rw [Nat.zero_add] at f1
      simp only [emb_some, eq_fin_ninf, eq_fin_pinf, Bool.false_eq_true, ↓reduceIte, f1, fsum_fin,
        ln1p_fin (show (-1 : ℝ) < rest.sum by linarith), add_fin]
      -- the model side
      unfold lnSumExp
      cases hf : finites (a :: t) with
      | nil => rw [hf] at hMmem; cases hMmem
      | cons x xs =>
        rw [hf] at hMmem hle f2
        have hM : lmax x xs = M :=
          le_antisymm (hle _ (lmax_mem x xs)) (le_lmax x xs M hMmem)
        simp only [hM]
        have hperm := List.perm_cons_erase hMmem
        have hs : ((x :: xs).map fun y => E (y - M)).sum
            = E (M - M) + (((x :: xs).erase M).map fun y => E (y - M)).sum := by
          rw [(hperm.map _).sum_eq]; simp
        have : rest.sum = (((x :: xs).erase M).map fun y => E (y - M)).sum := by linarith
        rw [this]
        rfl

theorem ln_sum_exp_error (E : ℝ → ℝ) (δ : ℝ) (h : ApproxExp E δ) (hδ : δ < 1) (l : List LP) :
    ∃ r : LP, ln_sum_exp (xrOps E) (l.map emb) = Res.ok (emb r) ∧ |lin r - (l.map lin).sum| ≤ δ * (l.map lin).sum :=
  ⟨_, ln_sum_exp_eq_model E (posOn_of_approx h hδ) l, lnSumExp_error h hδ l⟩

/-! ### `scan_ln_add_exp`, `ln_cumsum_exp` -/

theorem scan_step_near (E : ℝ → ℝ) (hE : PosOn E) (s p : LP) :
    ∃ r : LP, scan_ln_add_exp (xrOps E) (emb s) (emb p) = (emb r, some (emb r)) ∧ AddNear E s p r := by
  obtain ⟨r, hr, hn⟩ := ln_add_exp_near_model E hE s p
  exact ⟨r, by simp [scan_ln_add_exp, hr], hn⟩

theorem iterScan_near (E : ℝ → ℝ) (hE : PosOn E) : ∀ (ps : List LP) (s : LP),
    ∃ rs : List LP, Rs.iterScan (scan_ln_add_exp (xrOps E)) (emb s) (ps.map emb) = rs.map emb ∧ ScanNear E s ps rs
  | [], _ => ⟨[], rfl, rfl⟩
  | p :: ps, s => by
    obtain ⟨r, hr, hn⟩ := scan_step_near E hE s p
    obtain ⟨rs, hrs, hs⟩ := iterScan_near E hE ps r
    exact ⟨r :: rs, by simp [Rs.iterScan, hr, hrs], r, rs, rfl, hn, hs⟩

/-- the translated `ln_cumsum_exp`, consumed to its end, is a scan whose every step is an admissible addition of the
translated `ln_add_exp`; one output per input -/
theorem ln_cumsum_exp_eq_scan (E : ℝ → ℝ) (hE : PosOn E) (l : List LP) :
    ∃ rs : List LP, ln_cumsum_exp (xrOps E) (l.map emb) = rs.map emb ∧ ScanNear E none l rs ∧ rs.length = l.length := by
  obtain ⟨rs, h1, h2⟩ := iterScan_near E hE l none
  exact ⟨rs, by simpa [ln_cumsum_exp, ln_zero] using h1, h2, h2.length⟩

/-- every entry `k` of the translated cumulative sum is within `(δ + 2(k+1)·dropTol) ·` prefix sum of the prefix sum
(`dropTol = 10⁻¹⁵` only pays for early exits of `ln_add_exp`; the pinned text has none, see `GenSrcProbsModel`) -/
theorem ln_cumsum_exp_error (E : ℝ → ℝ) (δ : ℝ) (h : ApproxExp E δ) (hδ : δ < 1) (l rs : List LP)
    (hrs : ln_cumsum_exp (xrOps E) (l.map emb) = rs.map emb) (k : ℕ) (r : LP) (hr : rs[k]? = some r)
    (hk : δ + 2 * (k + 1 : ℕ) * dropTol ≤ 1) :
    |lin r - ((l.take (k + 1)).map lin).sum| ≤ (δ + 2 * (k + 1 : ℕ) * dropTol) * ((l.take (k + 1)).map lin).sum := by
  obtain ⟨rs', h1, h2, _⟩ := ln_cumsum_exp_eq_scan E (posOn_of_approx h hδ) l
  have : rs = rs' := by
    rw [h1] at hrs
    exact (List.map_injective_iff.mpr (fun a b hab => emb_inj hab) hrs).symm
  subst this
  have := ScanNear.error h hδ l none rs 0 0 le_rfl (by simp [lin]) h2 k r hr (by simpa using hk)
  simpa using this

end RbV.Thm.GenSrcProbs
