import RbV.Thm.GenSrcPwColumn
/-!
# A whole column of the main loop of the translated `Aligner::custom` (`custom_for3`) and the outer loop (builder genalign; C01)
-/
set_option linter.unusedSimpArgs false
set_option linter.unusedVariables false
namespace RbV.Thm.GenSrcPwColStep
open RbV RbV.Rs RbV.Gen.TbCodes RbV.Gen.Limits RbV.Gen.SrcPwTypes RbV.Gen.SrcPwCustom RbV.Align RbV.Model.PairwiseFill
open RbV.Thm.GenSrcPwTypes RbV.Thm.GenSrcPwCustom RbV.Thm.GenSrcPwColumn

/-! ### the reset loop, explicit -/

/-- `l` with the entries `i .. i + k` overwritten by `MIN_SCORE` -/
def resetL (l : List Int) : Nat → Nat → List Int
  | _, 0 => l
  | i, k + 1 => resetL (l.set i minScore) (i + 1) k

theorem resetL_length (l : List Int) : ∀ k i, (resetL l i k).length = l.length := by
  intro k; induction k generalizing l with
  | zero => intro i; rfl
  | succ k ih => intro i; simp only [resetL]; rw [ih, List.length_set]

theorem resetL_getD (k : Nat) : ∀ (l : List Int) (i t : Nat), i + k ≤ l.length →
    (resetL l i k).getD t 0 = if i ≤ t ∧ t < i + k then minScore else l.getD t 0 := by
  induction k with
  | zero => intro l i t h; simp only [resetL]; rw [if_neg (by omega)]
  | succ k ih =>
    intro l i t h
    simp only [resetL]
    rw [ih _ _ _ (by rw [List.length_set]; omega)]
    by_cases h1 : i + 1 ≤ t ∧ t < i + 1 + k
    · rw [if_pos h1, if_pos (by omega)]
    · rw [if_neg h1]
      by_cases h2 : t = i
      · subst h2; rw [getD_set_self _ _ _ _ (by omega), if_pos (by omega)]
      · rw [getD_set_other _ _ _ _ _ (Ne.symm h2), if_neg (by omega)]

theorem reset_loop' (w : Nat → Nat → Int) (iT dT snT sn0T : Int → Int → Bool) (c : Nat) (hc : c < 2) :
    ∀ (k i : Nat) (a : Aligner) (l : List Int), a.S.length = 2 → a.S.getD c [] = l → i + k ≤ l.length →
      List.foldlM (custom_for4 w iT dT snT sn0T c) a (List.range' i k) = .ok { a with S := a.S.set c (resetL l i k) } := by
  intro k
  induction k with
  | zero =>
    intro i a l hS2 hl hik
    simp only [List.range'_zero, List.foldlM_nil, Res.pure_eq_ok, resetL]
    rw [← hl]
    congr 1
    cases a
    simp only [Aligner.mk.injEq, true_and, and_true]
    exact (set_getD_self _ _ _).symm
  | succ k ih =>
    intro i a l hS2 hl hik
    have h1 := reset_step w iT dT snT sn0T a c i l hS2 hc hl (by omega)
    have h2 := ih (i + 1) { a with S := a.S.set c (l.set i minScore) } (l.set i minScore)
      (by simp [hS2]) (getD_set_self _ _ _ _ (by omega)) (by rw [List.length_set]; omega)
    simp only [List.range'_succ, List.foldlM_cons, h1, Res.ok_bind, h2, List.set_set, resetL]

/-! ### the model side of the `i = 0` block, with the tie-break of the `Sn` tracker as a parameter -/

open RbV.I32 in
/-- `edgeC` in `obind` form -/
def edgeO (sc : Sc) (clipPen : Int) (gapCode clipCode : Tb) (k : Nat) : Option (Int × Tb) :=
  if k = 1 then obind (add sc.go sc.ge) fun v => some (v, Tb.start)
  else
    obind (mul sc.ge (ofUsize k)) fun t =>
    obind (add sc.go t) fun g =>
    obind (add clipPen sc.go) fun c0 =>
    obind (add c0 sc.ge) fun c => some (if g > c then (g, gapCode) else (c, clipCode))

theorem edgeO_eq (sc : Sc) (clipPen : Int) (gapCode clipCode : Tb) (k : Nat) :
    edgeO sc clipPen gapCode clipCode k = edgeC sc clipPen gapCode clipCode k := by
  unfold edgeO edgeC
  by_cases h : k = 1
  · simp only [h, if_true]; cases I32.add sc.go sc.ge <;> rfl
  · simp only [h, if_false]
    cases I32.mul sc.ge (I32.ofUsize k) with
    | none => rfl
    | some t =>
    simp only [obind_some]
    cases I32.add sc.go t with
    | none => rfl
    | some g =>
    simp only [obind_some]
    cases I32.add clipPen sc.go with
    | none => rfl
    | some c0 =>
    simp only [obind_some]
    cases I32.add c0 sc.ge <;> rfl

open RbV.I32 in
/-- `rowJ0C` (the block "Handle i = 0 case" + the reset) with the tie-break `snT` as a parameter -/
def rowJ0T (T : Ties) (sc : Sc) (cl : Clip) (m n j : Nat) (prev0 : Row) : Option Row :=
  obind (edgeO sc cl.yp .del .ypre j) fun e =>
  let d0 := e.1
  let td := e.2
  let s0 := upd d0 cl.yp
  let ts0 : Tb := if d0 > cl.yp then .del else .ypre
  if j = n ∧ prev0.sn > s0 then
    some ⟨prev0.sn, minScore, d0, prev0.sn, if m = 0 then prev0.sn else minScore, ⟨.ysuf, .start, td, prev0.t.ly, 0⟩⟩
  else
    obind (add s0 cl.ys) fun c =>
      some ⟨s0, minScore, d0, if T.snT c prev0.sn = true then c else prev0.sn, if m = 0 then s0 else minScore,
        ⟨ts0, .start, td, if T.snT c prev0.sn = true then n - j else prev0.t.ly, 0⟩⟩

theorem rowJ0T_pinned (sc : Sc) (cl : Clip) (x y : List Nat) (j : Nat) (prev0 : Row) :
    rowJ0T pinned sc cl x.length y.length j prev0 = rowJ0C sc cl x y j prev0 := by
  unfold rowJ0T rowJ0C
  rw [edgeO_eq]
  cases edgeC sc cl.yp .del .ypre j with
  | none => rfl
  | some e =>
    obtain ⟨d0, td⟩ := e
    simp only [obind_some, pinned, decide_eq_true_eq]
    by_cases hc : j = y.length ∧ prev0.sn > upd d0 cl.yp
    · rw [if_pos hc]; unfold upd at hc; rw [if_pos hc]
    · rw [if_neg hc]; unfold upd at hc; rw [if_neg hc]; unfold upd
      cases I32.add (if d0 > cl.yp then d0 else cl.yp) cl.ys <;> rfl

open RbV.I32 in
/-- `xclipC` in `obind` form -/
def xclipO (sc : Sc) (cl : Clip) (j : Nat) : Option Int :=
  obind (mul sc.ge (ofUsize j)) fun t => obind (add sc.go t) fun g => add cl.xp (max cl.yp g)

theorem xclipO_eq (sc : Sc) (cl : Clip) (j : Nat) : xclipO sc cl j = xclipC sc cl j := by
  unfold xclipO xclipC
  cases I32.mul sc.ge (I32.ofUsize j) with
  | none => rfl
  | some t => simp only [obind_some]; cases I32.add sc.go t <;> rfl

/-- row 0 of the previous column as the block reads it (`Sn[0]`, `Ly[0]`) -/
def row0P (a : Aligner) : Row := ⟨0, 0, 0, a.Sn.getD 0 0, 0, ⟨.start, .start, .start, a.Ly.getD 0 0, 0⟩⟩

/-- the state after the `i = 0` block and the reset loop of column `j`, row 0 = `r0` -/
def startCol (a : Aligner) (m c j : Nat) (r0 : Row) : Aligner :=
  { a with
    I := a.I.set c ((a.I.getD c []).set 0 minScore)
    D := a.D.set c ((a.D.getD c []).set 0 r0.d)
    S := a.S.set c (resetL ((a.S.getD c []).set 0 r0.s) 1 m)
    Sn := a.Sn.set 0 r0.sn
    Ly := a.Ly.set 0 r0.t.ly
    traceback := { a.traceback with
      matrix := a.traceback.matrix.set (0 * a.traceback.cols + j) (cellOf r0.t.ts .start r0.t.td) } }

theorem k_start : tbStart = enc .start := rfl
theorem k_ysuf : tbYclipSuffix = enc .ysuf := rfl
theorem cD_start_new (t : Tb) : setDBits ⟨0⟩ (enc t) = .ok (cD .start t) := by
  have : TbCell.setBits 0 iPos (enc .start) = 0 := by decide
  rw [setDBits_eq_model _ _ (enc_le_max t)]
  simp only [cD, this]
theorem ite_decide_and (p : Prop) [Decidable p] (q : Prop) [Decidable q] :
    ((if p then decide q else false) = true) = (p ∧ q) := by
  by_cases h : p <;> simp [h]

theorem block_eq (w : Nat → Nat → Int) (T : Ties) (a : Aligner) (x y : List Nat) (m n j : Nat)
    (hd : Dims a m n) (hx : x.length = m) (hy : y.length = n) (hj : 1 ≤ j) (hjn : j ≤ n) :
    custom_for3 w T.iT T.dT T.snT T.sn0T x y m n a j =
      ofOpt (rowJ0T T (scOf w a) (clOf a) m n j (row0P a)) >>= fun r0 =>
      ofOpt (xclipO (scOf w a) (clOf a) j) >>= fun xc =>
        List.foldlM (custom_for5 w T.iT T.dT T.snT T.sn0T x m n j (j % 2) (1 - j % 2) (y.getD (j - 1) 0) xc)
          (startCol a m (j % 2) j r0) (List.range' 1 m) := by
  obtain ⟨S2, I2, D2, Srow, Irow, Drow, hSn, hLy, hLx, htb, hrows, hcols⟩ := hd
  have hc : j % 2 < 2 := by omega
  have eIc : Rs.idx a.I (j % 2) = .ok (a.I.getD (j % 2) []) := idxD _ _ (by omega)
  have eDc : Rs.idx a.D (j % 2) = .ok (a.D.getD (j % 2) []) := idxD _ _ (by omega)
  have eSc : Rs.idx a.S (j % 2) = .ok (a.S.getD (j % 2) []) := idxD _ _ (by omega)
  have lSc : (a.S.getD (j % 2) []).length = m + 1 := Srow _ hc
  have lIc : (a.I.getD (j % 2) []).length = m + 1 := Irow _ hc
  have lDc : (a.D.getD (j % 2) []).length = m + 1 := Drow _ hc
  have g1 : Rs.sub 1 (j % 2) = .ok (1 - j % 2) := Rs.sub_ok (by omega)
  have g2 : Rs.sub j 1 = .ok (j - 1) := Rs.sub_ok hj
  have g3 : Rs.idx y (j - 1) = .ok (y.getD (j - 1) 0) := idxD _ _ (by omega)
  have hm64 : m + 1 < 2 ^ 64 := by
    have := htb.2; rw [hrows, hcols] at this
    exact Nat.lt_of_le_of_lt (Nat.le_mul_of_pos_right _ (by omega)) this
  have g4 : Rs.add 64 m 1 = .ok (m + 1) := Rs.add_ok hm64
  have f1 : ∀ v, Rs.setIdx (a.I.getD (j % 2) []) 0 v = .ok ((a.I.getD (j % 2) []).set 0 v) := fun v => setIdx_ok' _ _ _ (by omega)
  have f2 : ∀ l, Rs.setIdx a.I (j % 2) l = .ok (a.I.set (j % 2) l) := fun l => setIdx_ok' _ _ _ (by omega)
  have f3 : ∀ v, Rs.setIdx (a.D.getD (j % 2) []) 0 v = .ok ((a.D.getD (j % 2) []).set 0 v) := fun v => setIdx_ok' _ _ _ (by omega)
  have f4 : ∀ l, Rs.setIdx a.D (j % 2) l = .ok (a.D.set (j % 2) l) := fun l => setIdx_ok' _ _ _ (by omega)
  have f5 : ∀ v, Rs.setIdx (a.S.getD (j % 2) []) 0 v = .ok ((a.S.getD (j % 2) []).set 0 v) := fun v => setIdx_ok' _ _ _ (by omega)
  have f6 : ∀ l, Rs.setIdx a.S (j % 2) l = .ok (a.S.set (j % 2) l) := fun l => setIdx_ok' _ _ _ (by omega)
  have f7 : ∀ l : List Int, Rs.idx (a.D.set (j % 2) l) (j % 2) = .ok l := fun l => by
    rw [Rs.idx_ok (by rw [List.length_set]; omega)]; simp
  have f8 : ∀ v : Int, Rs.idx ((a.D.getD (j % 2) []).set 0 v) 0 = .ok v := fun v => by
    rw [Rs.idx_ok (by rw [List.length_set]; omega)]; simp
  have f9 : ∀ l : List Int, Rs.idx (a.S.set (j % 2) l) (j % 2) = .ok l := fun l => by
    rw [Rs.idx_ok (by rw [List.length_set]; omega)]; simp
  have f10 : ∀ v : Int, Rs.idx ((a.S.getD (j % 2) []).set 0 v) 0 = .ok v := fun v => by
    rw [Rs.idx_ok (by rw [List.length_set]; omega)]; simp
  have f11 : ∀ l l' : List Int, Rs.setIdx (a.S.set (j % 2) l) (j % 2) l' = .ok (a.S.set (j % 2) l') := fun l l' => by
    rw [setIdx_ok' _ _ _ (by rw [List.length_set]; omega), List.set_set]
  have f12 : ∀ v u : Int, Rs.setIdx ((a.S.getD (j % 2) []).set 0 v) 0 u = .ok ((a.S.getD (j % 2) []).set 0 u) := fun v u => by
    rw [setIdx_ok' _ _ _ (by rw [List.length_set]; omega), List.set_set]
  have f13 : Rs.idx a.Sn 0 = .ok (a.Sn.getD 0 0) := idxD _ _ (by omega)
  have f14 : ∀ v, Rs.setIdx a.Sn 0 v = .ok (a.Sn.set 0 v) := fun v => setIdx_ok' _ _ _ (by omega)
  have f15 : ∀ v, Rs.setIdx a.Ly 0 v = .ok (a.Ly.set 0 v) := fun v => setIdx_ok' _ _ _ (by omega)
  have f16 : Rs.sub n j = .ok (n - j) := Rs.sub_ok hjn
  have eW : ∀ c, tbSet a.traceback 0 j c =
      .ok { a.traceback with matrix := a.traceback.matrix.set (0 * a.traceback.cols + j) c } :=
    fun c => tbSet_eq_model _ _ _ _ htb (by omega) (by omega)
  have hR : ∀ (v : Int) (vI vD : List (List Int)) (vLx vLy : List Nat) (vSn : List Int) (vtb : Traceback) (vsc : Scoring),
      List.foldlM (custom_for4 w T.iT T.dT T.snT T.sn0T (j % 2))
        (⟨vI, vD, a.S.set (j % 2) ((a.S.getD (j % 2) []).set 0 v), vLx, vLy, vSn, vtb, vsc⟩ : Aligner) (List.range' 1 m) =
      .ok (⟨vI, vD, a.S.set (j % 2) (resetL ((a.S.getD (j % 2) []).set 0 v) 1 m), vLx, vLy, vSn, vtb, vsc⟩ : Aligner) := fun v vI vD vLx vLy vSn vtb vsc => by
    rw [reset_loop' w T.iT T.dT T.snT T.sn0T (j % 2) hc m 1 _ ((a.S.getD (j % 2) []).set 0 v) (by simp [S2])
      (getD_set_self _ _ _ _ (by omega)) (by rw [List.length_set]; omega)]
    simp only [List.set_set]
  unfold custom_for3
  simp only [rowJ0T, edgeO, xclipO, row0P, scOf, clOf, startCol, ofOpt_obind, apply_ite ofOpt]
  by_cases hj1 : j = 1
  · simp only [eq_true hj1, if_true, g1, g2, g3, g4, eIc, eDc, eSc, f1, f2, f3, f4, f5, f6, f7, f8, f9, f10, f11, f12, f13, f14, f15, f16, eW,
      cellNew_eq_model, Res.pure_eq_ok, Res.ok_bind, bind_pure_comp, iadd32, imul32, castSigned32, k_start, k_del, k_ypre, k_ysuf,
      cD_start_new, setS_cD, setS_cell, ite_ok, ite_fst, ite_snd, ite_cD, ite_cell, minScore_eq, bind_assoc, ofOpt_obind,
      ofOpt_some, Nat.add_sub_cancel, hR, ite_decide_and, upd_fold,
      apply_ite Aligner.S, apply_ite Aligner.Sn, apply_ite Aligner.Ly, apply_ite Aligner.Lx, apply_ite Aligner.I,
      apply_ite Aligner.D, apply_ite Aligner.traceback, apply_ite Aligner.scoring, ite_self, ite_set0, ite_setN, ite_set2]
    refine bind_congr (fun x1 => ?_)
    by_cases hcond : j = n ∧ a.Sn.getD 0 0 > upd x1 a.scoring.yclip_prefix
    · rw [if_pos hcond, if_pos hcond]
      simp only [ofOpt_some, Res.ok_bind, eW, hR, bind_assoc]
      iterate 3 (refine bind_congr (fun _ => ?_))
      simp only [set_getD_self]
      try rfl
    · rw [if_neg hcond, if_neg hcond]
      simp only [ofOpt_obind, bind_assoc]
      generalize I32.add _ a.scoring.yclip_suffix = o
      cases o with
      | none => simp only [ofOpt_none, Res.panic_bind]
      | some c =>
        simp only [ofOpt_some, Res.ok_bind, ite_ok, eW, hR, bind_assoc, ite_fst, ite_snd, upd_fold,
          apply_ite Aligner.S, apply_ite Aligner.Sn, apply_ite Aligner.Ly, apply_ite Aligner.Lx, apply_ite Aligner.I,
          apply_ite Aligner.D, apply_ite Aligner.traceback, apply_ite Aligner.scoring, ite_self, ite_set0, ite_setN, ite_set2]
        iterate 3 (refine bind_congr (fun _ => ?_))
        rfl
  · simp only [eq_false hj1, if_false, g1, g2, g3, g4, eIc, eDc, eSc, f1, f2, f3, f4, f5, f6, f7, f8, f9, f10, f11, f12, f13, f14, f15, f16, eW,
      cellNew_eq_model, Res.pure_eq_ok, Res.ok_bind, bind_pure_comp, iadd32, imul32, castSigned32, k_start, k_del, k_ypre, k_ysuf,
      cD_start_new, setS_cD, setS_cell, ite_ok, ite_fst, ite_snd, ite_cD, ite_cell, minScore_eq, bind_assoc, ofOpt_obind,
      ofOpt_some, Nat.add_sub_cancel, hR, ite_decide_and, upd_fold,
      apply_ite Aligner.S, apply_ite Aligner.Sn, apply_ite Aligner.Ly, apply_ite Aligner.Lx, apply_ite Aligner.I,
      apply_ite Aligner.D, apply_ite Aligner.traceback, apply_ite Aligner.scoring, ite_self, ite_set0, ite_setN, ite_set2]
    iterate 4 (refine bind_congr (fun _ => ?_))
    rename_i t11 t12 t13 t14
    by_cases hcond : j = n ∧ a.Sn.getD 0 0 > upd (upd t12 t14) a.scoring.yclip_prefix
    · rw [if_pos hcond]
      have hc2 : (j = n ∧ a.Sn.getD 0 0 > upd (upd t12 t14) a.scoring.yclip_prefix) = True := eq_true hcond
      simp only [hc2, if_true, ite_true]
      simp only [ofOpt_some, Res.ok_bind, eW, hR, bind_assoc]
      iterate 3 (refine bind_congr (fun _ => ?_))
      simp only [set_getD_self]
      try rfl
    · rw [if_neg hcond]
      have hc2 : (j = n ∧ a.Sn.getD 0 0 > upd (upd t12 t14) a.scoring.yclip_prefix) = False := eq_false hcond
      simp only [hc2, if_false, ite_false]
      simp only [ofOpt_obind, bind_assoc]
      generalize I32.add _ a.scoring.yclip_suffix = o
      cases o with
      | none => simp only [ofOpt_none, Res.panic_bind]
      | some c =>
        simp only [ofOpt_some, Res.ok_bind, ite_ok, eW, hR, bind_assoc, ite_fst, ite_snd, upd_fold,
          apply_ite Aligner.S, apply_ite Aligner.Sn, apply_ite Aligner.Ly, apply_ite Aligner.Lx, apply_ite Aligner.I,
          apply_ite Aligner.D, apply_ite Aligner.traceback, apply_ite Aligner.scoring, ite_self, ite_set0, ite_setN, ite_set2]
        iterate 3 (refine bind_congr (fun _ => ?_))
        rfl

end RbV.Thm.GenSrcPwColStep
