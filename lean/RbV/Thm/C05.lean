import RbV.Ref.BS
import RbV.Model.LFMapping
import RbV.Model.LFSortedCheck
import RbV.Model.SampledSA
import RbV.Model.SampleBuild
import RbV.Lemmas.SortedBridge
import RbV.Thm.GenSrcBackwardSearch
import RbV.Thm.GenSrcOcc
import RbV.Thm.GenSrcFmAccess
/-!
# C05 — FM-index backward search returns exactly the pattern's occurrences

The oracle of the correspondence run is `checkBS t sa p res` (`RbV/Ref/BS.lean`): `t` the indexed text, `sa` the
suffix array as the implementation printed it, `p` the pattern, `res` the `BackwardSearchResult`.  The theorems say
that it accepts exactly the results the property allows (`BSProp`, `RbV/Spec/FMIndex.lean`), for every text, array,
pattern and result — and that the property fixes the kind of result and the partial length uniquely.
Helper lemmas live in `RbV/Ref/BS.lean`.
-/
namespace RbV.Thm.C05
open RbV

/-- **Base theorem.** The acceptance function decides the property statement: `Complete(iv)` is accepted iff the
pattern occurs and `iv` lies inside the array and maps through it to exactly the occurrence set; `Partial(iv, l)` iff
`0 < l < |p|`, `l` is the length of the longest occurring suffix and `iv` maps to exactly that suffix's occurrences;
`Absent` iff not even the last symbol occurs. -/
theorem checkBS_iff (t sa p : List Nat) (hp : p ≠ []) (res : BSRes) :
    checkBS t sa p res = true ↔ BSProp t sa p res := by
  cases res with
  | complete lo hi =>
    simp only [checkBS, BSProp, Bool.and_eq_true, beq_iff_eq, longestSuf_full_iff, mapsToB_iff]
  | part lo hi l =>
    simp only [checkBS, BSProp, Bool.and_eq_true, beq_iff_eq, decide_eq_true_eq, mapsToB_iff,
      isLongestSuf_iff]
    constructor
    · rintro ⟨⟨⟨h1, h2⟩, h3⟩, h4⟩; subst h3; exact ⟨h1, h2, rfl, h4⟩
    · rintro ⟨h1, h2, h3, h4⟩; subst h3; exact ⟨⟨⟨h1, h2⟩, rfl⟩, h4⟩
  | absent =>
    simp only [checkBS, BSProp, beq_iff_eq, longestSuf_zero_iff p t hp]

/-- what "maps to exactly the occurrences" means, spelled out: the rows `lo ≤ r < hi` exist, every one of them holds
an occurrence position, and every occurrence position is held by one of them -/
theorem mapsTo_spelled_out (sa : List Nat) (lo hi : Nat) (p t : List Nat) :
    MapsTo sa lo hi p t ↔
      (lo ≤ hi ∧ hi ≤ sa.length ∧
        (∀ r, lo ≤ r → r < hi → OccursAt p t (sa.getD r 0)) ∧
        (∀ i, OccursAt p t i → ∃ r, lo ≤ r ∧ r < hi ∧ sa.getD r 0 = i)) := by
  unfold MapsTo
  constructor
  · rintro ⟨h1, h2, h3⟩
    refine ⟨h1, h2, ?_, ?_⟩
    · intro r hr1 hr2
      apply (h3 _).mp
      exact mem_ivMap_of_row sa lo hi r hr1 hr2 (by omega)
    · intro i hi'
      exact row_of_mem_ivMap sa lo hi i ((h3 i).mpr hi')
  · rintro ⟨h1, h2, h3, h4⟩
    refine ⟨h1, h2, ?_⟩
    intro i
    constructor
    · intro hm
      obtain ⟨r, hr1, hr2, hr3⟩ := row_of_mem_ivMap sa lo hi i hm
      rw [← hr3]; exact h3 r hr1 hr2
    · intro ho
      obtain ⟨r, hr1, hr2, hr3⟩ := h4 i ho
      rw [← hr3]; exact mem_ivMap_of_row sa lo hi r hr1 hr2 (by omega)

/-- the three kinds of result exclude each other, so "Complete exactly when the pattern occurs" and "Absent exactly
when the last symbol does not occur" are consequences of `BSProp` -/
theorem result_kind_determined (t sa p : List Nat) (hp : p ≠ []) (res : BSRes) (h : BSProp t sa p res) :
    (Occurs p t ↔ ∃ lo hi, res = .complete lo hi) ∧
    (¬ Occurs (suffix p 1) t ↔ res = .absent) ∧
    (∀ lo hi l, res = .part lo hi l → IsLongestSuf p t l) := by
  have hlen : 1 ≤ p.length := by
    cases p with
    | nil => exact absurd rfl hp
    | cons a q => simp
  cases res with
  | complete lo hi =>
    refine ⟨⟨fun _ => ⟨lo, hi, rfl⟩, fun _ => h.1⟩, ⟨fun hn => ?_, fun hn => by cases hn⟩, fun _ _ _ hh => by cases hh⟩
    exact absurd (occurs_suffix_mono p t 1 p.length hlen (by rw [suffix_length]; exact h.1)) hn
  | part lo hi l =>
    obtain ⟨h1, h2, h3, h4⟩ := h
    refine ⟨⟨fun ho => ?_, fun ⟨_, _, hh⟩ => by cases hh⟩, ⟨fun hn => ?_, fun hn => by cases hn⟩, ?_⟩
    · exact absurd (by rw [suffix_length]; exact ho) (h3.2.2 p.length h2 (Nat.le_refl _))
    · exact absurd (occurs_suffix_mono p t 1 l h1 h3.2.1) hn
    · intro lo' hi' l' hh; cases hh; exact h3
  | absent =>
    refine ⟨⟨fun ho => ?_, fun ⟨_, _, hh⟩ => by cases hh⟩, ⟨fun _ => rfl, fun _ => h⟩, fun _ _ _ hh => by cases hh⟩
    exact absurd (occurs_suffix_mono p t 1 p.length hlen (by rw [suffix_length]; exact ho)) h

/-- the partial length the property asks for is unique -/
theorem partial_length_unique (p t : List Nat) (l₁ l₂ : Nat) :
    IsLongestSuf p t l₁ → IsLongestSuf p t l₂ → l₁ = l₂ :=
  isLongestSuf_unique p t l₁ l₂

/-- for every non-empty pattern some result satisfies the property (the statement is not vacuous, and the checker
can never reject every answer): with `occ := positions of the longest occurring suffix` and an array that lists them
in its first rows -/
theorem some_result_accepted (t p : List Nat) (hp : p ≠ []) :
    ∃ sa res, checkBS t sa p res = true := by
  have hlen : 1 ≤ p.length := by
    cases p with
    | nil => exact absurd rfl hp
    | cons a q => simp
  let m := longestSuf p t p.length
  by_cases h0 : m = 0
  · exact ⟨[], .absent, by simp only [checkBS, beq_iff_eq]; exact h0⟩
  · by_cases hf : m = p.length
    · refine ⟨occurrences p t, .complete 0 (occurrences p t).length, ?_⟩
      simp only [checkBS, Bool.and_eq_true, beq_iff_eq]
      refine ⟨hf, ?_⟩
      rw [mapsToB_iff]
      exact ⟨Nat.zero_le _, Nat.le_refl _, fun i => by simp [ivMap, mem_occurrences]⟩
    · have hle := longestSuf_le p t p.length
      refine ⟨occurrences (suffix p m) t, .part 0 (occurrences (suffix p m) t).length m, ?_⟩
      simp only [checkBS, Bool.and_eq_true, beq_iff_eq, decide_eq_true_eq]
      refine ⟨⟨⟨by omega, by omega⟩, rfl⟩, ?_⟩
      rw [mapsToB_iff]
      exact ⟨Nat.zero_le _, Nat.le_refl _, fun i => by simp [ivMap, mem_occurrences]⟩

/-! Non-vacuity on concrete inputs: text `GATTACA$` of the repo's tests (`A=0 C=1 G=2 T=3 $` coded as 71 65 84 … is
not needed here; symbols are plain numbers), its suffix array `[7,6,4,1,5,0,3,2]`. -/
section examples
/-- "GATTACA$" with $=0, A=1, C=2, G=3, T=4 -/
private def txt : List Nat := [3, 1, 4, 4, 1, 2, 1, 0]
private def sa : List Nat := [7, 6, 4, 1, 5, 0, 3, 2]

-- pattern "TA" is complete with rows 6..7 ↦ {3}
example : checkBS txt sa [4, 1] (.complete 6 7) = true := by decide
-- a wrong interval is rejected
example : checkBS txt sa [4, 1] (.complete 6 8) = false := by decide
-- pattern "GTACA": longest occurring suffix "TACA" (length 4) at position 3, row 6 — the repo's partial-match test
example : checkBS txt sa [3, 4, 1, 2, 1] (.part 6 7 4) = true := by decide
example : checkBS txt sa [3, 4, 1, 2, 1] (.part 6 7 3) = false := by decide
example : checkBS txt sa [3, 4, 1, 2, 1] (.complete 6 7) = false := by decide
-- a symbol that does not occur: Absent
example : checkBS txt sa [1, 5] .absent = true := by decide
example : checkBS txt sa [1, 2] .absent = false := by decide
example : BSProp txt sa [4, 1] (.complete 6 7) := (checkBS_iff txt sa [4, 1] (by decide) _).mp (by decide)
end examples

/-! ## [B] mirror model of `backward_search` and the LF-mapping argument

`BSModel.backwardSearch less occ n pat` (`RbV/Model/BackwardSearch.lean`) follows the Rust function line by line over
abstract `less`/`occ`; `LF.lessRef`, `LF.occRef`, `LF.bwtOf` (`RbV/Model/LFMapping.lean`) are the values the index
components hold for the BWT of `(t, sa)`.  `LF.Sorted t sa a` is the sortedness hypothesis, a conjunction of bounded
(hence decidable) statements about `(t, sa, a)`: `sa` is a permutation of the positions, rows are ordered by first
symbol, two rows starting with `a` are ordered like the rows of the following positions, and the text does not end
in `a`.  Every suffix array in the sense of C03 (any consistent order of the sentinels) satisfies it for every
non-sentinel symbol; nothing is assumed about the order among the sentinel rows. -/

/-- **LF-mapping lemma**: on a sorted array, if row `x` starts with `a` and row `z` holds the next text position,
then `x = less(a) + #{rows before z whose BWT symbol is a}` -/
theorem lf_mapping (t sa : List Nat) (a x z : Nat) (hs : LF.Sorted t sa a) (hx : x < sa.length) (hz : z < sa.length)
    (hxa : t.getD (sa.getD x 0) 0 = a) (hzx : sa.getD z 0 = sa.getD x 0 + 1) :
    x = LF.lessRef (LF.bwtOf t sa) a + LF.occLt (LF.bwtOf t sa) z a :=
  LF.lf_mapping hs x z hx hz hxa hzx

/-- **interval refinement**: the rows whose suffix starts with `a·P` are
`less a + occ(a, lo-1) … less a + occ(a, hi-1) - 1` when `lo … hi-1` are the rows whose suffix starts with `P` -/
theorem lf_step (t sa : List Nat) (a : Nat) (hs : LF.Sorted t sa a) :
    BSModel.LFStep t sa (LF.lessRef (LF.bwtOf t sa)) (LF.occRef (LF.bwtOf t sa)) a :=
  LF.lfStep_of_sorted hs

/-- loop-invariant part, for *any* `less`/`occ` that provide the LF step (last non-empty interval, matched length,
completeness flag) -/
theorem backward_search_correct_of_LF (t sa pat : List Nat) (less : Nat → Nat) (occ : Nat → Nat → Nat)
    (hp : pat ≠ []) (hn : 0 < sa.length)
    (hrange : ∀ row, row < sa.length → sa.getD row 0 ≤ t.length)
    (hs : BSModel.Surj t sa) (hless : ∀ a ∈ pat, 1 ≤ less a) (hLF : ∀ a ∈ pat, BSModel.LFStep t sa less occ a) :
    BSProp t sa pat (BSModel.backwardSearch less occ sa.length pat) :=
  BSModel.backwardSearch_correct_of_LF t sa pat less occ hp hn hrange hs hless hLF

/-- **`backward_search` is correct** for every text ending in a symbol smaller than all pattern symbols (one or
many sentinels), every array sorted in the sense above, and every non-empty pattern: the mirror model's result
satisfies the property statement -/
theorem backward_search_correct (t sa pat : List Nat) (hp : pat ≠ []) (hn : 0 < t.length)
    (hsent : ∀ a ∈ pat, t.getD (t.length - 1) 0 < a)
    (hsorted : ∀ a ∈ pat, LF.Sorted t sa a) :
    BSProp t sa pat
      (BSModel.backwardSearch (LF.lessRef (LF.bwtOf t sa)) (LF.occRef (LF.bwtOf t sa)) sa.length pat) :=
  LF.backwardSearch_correct t sa pat hp hn hsent hsorted

/-- the same with the sortedness hypothesis given as the Boolean `LF.sortedAllB t sa` (permutation test plus
conditions on adjacent rows only), which the driver evaluates on the array the implementation printed -/
theorem backward_search_correct_decidable (t sa pat : List Nat) (hp : pat ≠ []) (hn : 0 < t.length)
    (hsent : ∀ a ∈ pat, t.getD (t.length - 1) 0 < a)
    (hsorted : LF.sortedAllB t sa = true) :
    BSProp t sa pat
      (BSModel.backwardSearch (LF.lessRef (LF.bwtOf t sa)) (LF.occRef (LF.bwtOf t sa)) sa.length pat) :=
  backward_search_correct t sa pat hp hn hsent
    (fun a ha => LF.sortedAllB_sound t sa hsorted a (Nat.ne_of_lt (hsent a ha)))

example : BSProp [3, 1, 4, 4, 1, 2, 1, 0] [7, 6, 4, 1, 5, 0, 3, 2] [3, 4, 1, 2, 1]
    (BSModel.backwardSearch (LF.lessRef (LF.bwtOf [3, 1, 4, 4, 1, 2, 1, 0] [7, 6, 4, 1, 5, 0, 3, 2]))
      (LF.occRef (LF.bwtOf [3, 1, 4, 4, 1, 2, 1, 0] [7, 6, 4, 1, 5, 0, 3, 2])) 8 [3, 4, 1, 2, 1]) :=
  backward_search_correct_decidable _ _ _ (by decide) (by decide) (by decide) (by decide)

/-- **`backward_search` is correct on every suffix array in the sense of C03**: no sortedness hypothesis left.  For
every non-empty text whose last symbol (the sentinel) is its smallest symbol and is smaller than all pattern symbols,
every array with `IsSA t sa` (sorted under some consistent order of the sentinel occurrences, `RbV/Spec/SufOrder.lean`)
and every non-empty pattern, the mirror model's result satisfies the property statement.  The bridge
`IsSA t sa → LF.Sorted t sa a` is `RbV.SortedBridge.isSA_lfSorted`. -/
theorem backward_search_correct_of_isSA (t sa pat : List Nat) (hp : pat ≠ []) (hne : t ≠ [])
    (h : IsSA t sa)
    (hmin : ∀ p, p < t.length → sentinelOf t ≤ t.getD p 0)
    (hsent : ∀ a ∈ pat, t.getD (t.length - 1) 0 < a) :
    BSProp t sa pat
      (BSModel.backwardSearch (LF.lessRef (LF.bwtOf t sa)) (LF.occRef (LF.bwtOf t sa)) sa.length pat) :=
  backward_search_correct t sa pat hp (List.length_pos_iff.mpr hne) hsent
    (fun a ha => SortedBridge.isSA_lfSorted t sa hne h hmin a (Nat.ne_of_lt (hsent a ha)))

/-- **`backward_search` is correct on every array accepted by C03's checker**: no sortedness hypothesis left.  For
every non-empty text whose last symbol (the sentinel) is its smallest symbol and is smaller than all pattern symbols,
every array `sa` with `checkSA t sa = true` (⇔ `IsSA t sa`, theorem `RbV.Thm.C03.checkSA_iff`) and every non-empty
pattern, the mirror model's result satisfies the property statement -/
theorem backward_search_correct_of_checkSA (t sa pat : List Nat) (hp : pat ≠ [])
    (hc : checkSA t sa = true)
    (hmin : ∀ p, p < t.length → sentinelOf t ≤ t.getD p 0)
    (hsent : ∀ a ∈ pat, t.getD (t.length - 1) 0 < a) :
    BSProp t sa pat
      (BSModel.backwardSearch (LF.lessRef (LF.bwtOf t sa)) (LF.occRef (LF.bwtOf t sa)) sa.length pat) :=
  backward_search_correct_of_isSA t sa pat hp (SortedBridge.checkSA_ne_nil t sa hc) (checkSA_isSA t sa hc) hmin hsent

-- GATTACA$ / GTACA again, now from C03's acceptance function; every hypothesis is decided
example : BSProp [3, 1, 4, 4, 1, 2, 1, 0] [7, 6, 4, 1, 5, 0, 3, 2] [3, 4, 1, 2, 1]
    (BSModel.backwardSearch (LF.lessRef (LF.bwtOf [3, 1, 4, 4, 1, 2, 1, 0] [7, 6, 4, 1, 5, 0, 3, 2]))
      (LF.occRef (LF.bwtOf [3, 1, 4, 4, 1, 2, 1, 0] [7, 6, 4, 1, 5, 0, 3, 2])) 8 [3, 4, 1, 2, 1]) :=
  backward_search_correct_of_checkSA _ _ _ (by decide) (by decide) (by decide) (by decide)

-- the same through `IsSA`, obtained from the checker
example : BSProp [3, 1, 4, 4, 1, 2, 1, 0] [7, 6, 4, 1, 5, 0, 3, 2] [3, 4, 1, 2, 1]
    (BSModel.backwardSearch (LF.lessRef (LF.bwtOf [3, 1, 4, 4, 1, 2, 1, 0] [7, 6, 4, 1, 5, 0, 3, 2]))
      (LF.occRef (LF.bwtOf [3, 1, 4, 4, 1, 2, 1, 0] [7, 6, 4, 1, 5, 0, 3, 2])) 8 [3, 4, 1, 2, 1]) :=
  backward_search_correct_of_isSA _ _ _ (by decide) (by decide) (checkSA_isSA _ _ (by decide)) (by decide) (by decide)

/-- **positions resolved through a sampled suffix array**: the mirror model of `SampledSuffixArray::get` (LF walk to
the next sampled row, or to a row whose BWT symbol is the sentinel, for which `sample` stores an extra entry) returns
`sa[index]` for every row, every sampling rate `s` and every text with one or many sentinels, provided the array
passes `sortedAllB` and the stored samples / extra rows hold what `SuffixArray::sample` puts there.  Hence
`Interval::occ` gives the same positions through the sampled array as through the full one. -/
theorem sampled_get_correct (t sa : List Nat) (s : Nat) (sampleGet extraGet : Nat → Nat)
    (hsorted : LF.sortedAllB t sa = true)
    (hsample : ∀ pos, pos < sa.length → pos % s = 0 → sampleGet (pos / s) = sa.getD pos 0)
    (hextra : ∀ pos, pos < sa.length → pos % s ≠ 0 →
      (LF.bwtOf t sa).getD pos 0 = t.getD (t.length - 1) 0 → extraGet pos = sa.getD pos 0)
    (index : Nat) (hi : index < sa.length) :
    SampledModel.get s (LF.bwtOf t sa) (t.getD (t.length - 1) 0) (LF.lessRef (LF.bwtOf t sa))
      (LF.occRef (LF.bwtOf t sa)) sampleGet extraGet sa.length index = some (sa.getD index 0) := by
  have hperm : sa.Perm (List.range t.length) := by
    simp only [LF.sortedAllB, Bool.and_eq_true] at hsorted
    exact List.isPerm_iff.mp hsorted.1
  exact SampledModel.get_correct t sa s sampleGet extraGet
    (fun a ha => LF.sortedAllB_sound t sa hsorted a (Ne.symm ha)) hperm hsample hextra index hi

-- GATTACA$, sampling rate 3: row 4 (position 5) is reached from the sample of row 6 … every row gives sa[row]
example : (List.range 8).map (fun i => SampledModel.get 3 (LF.bwtOf [3, 1, 4, 4, 1, 2, 1, 0] [7, 6, 4, 1, 5, 0, 3, 2]) 0
      (LF.lessRef (LF.bwtOf [3, 1, 4, 4, 1, 2, 1, 0] [7, 6, 4, 1, 5, 0, 3, 2]))
      (LF.occRef (LF.bwtOf [3, 1, 4, 4, 1, 2, 1, 0] [7, 6, 4, 1, 5, 0, 3, 2]))
      (fun q => [7, 6, 4, 1, 5, 0, 3, 2].getD (q * 3) 0) (fun _ => 0) 8 i)
    = [7, 6, 4, 1, 5, 0, 3, 2].map some := by decide

/-- … and with the stored data produced by the mirror model of `SuffixArray::sample` itself (`SampledModel.build`:
`sample` vector and `extra_rows` map after the construction loop) no hypothesis about the stored values is left:
construction followed by `get` returns `sa[index]` for every row, every sampling rate `s ≥ 1`, on every array
passing `sortedAllB` -/
theorem sampled_array_correct (t sa : List Nat) (s : Nat) (hs : 0 < s)
    (hsorted : LF.sortedAllB t sa = true) (index : Nat) (hi : index < sa.length) :
    SampledModel.get s (LF.bwtOf t sa) (t.getD (t.length - 1) 0) (LF.lessRef (LF.bwtOf t sa))
      (LF.occRef (LF.bwtOf t sa))
      (SampledModel.sampleGet (SampledModel.build sa (LF.bwtOf t sa) s (t.getD (t.length - 1) 0) sa.length).1)
      (SampledModel.extraGet (SampledModel.build sa (LF.bwtOf t sa) s (t.getD (t.length - 1) 0) sa.length).2)
      sa.length index = some (sa.getD index 0) :=
  sampled_get_correct t sa s _ _ hsorted
    (fun pos hpos hm => SampledModel.build_sample sa _ s _ hs sa.length pos hpos hm)
    (fun pos hpos hm hb => SampledModel.build_extra sa _ s _ sa.length pos hpos hm hb)
    index hi

/-- the same for every array accepted by C03's checker (⇔ `IsSA t sa`), on texts whose sentinel is the smallest
symbol: construction followed by `get` returns `sa[index]` for every row and every sampling rate `s ≥ 1` -/
theorem sampled_array_correct_of_checkSA (t sa : List Nat) (s : Nat) (hs : 0 < s)
    (hc : checkSA t sa = true)
    (hmin : ∀ p, p < t.length → sentinelOf t ≤ t.getD p 0) (index : Nat) (hi : index < sa.length) :
    SampledModel.get s (LF.bwtOf t sa) (t.getD (t.length - 1) 0) (LF.lessRef (LF.bwtOf t sa))
      (LF.occRef (LF.bwtOf t sa))
      (SampledModel.sampleGet (SampledModel.build sa (LF.bwtOf t sa) s (t.getD (t.length - 1) 0) sa.length).1)
      (SampledModel.extraGet (SampledModel.build sa (LF.bwtOf t sa) s (t.getD (t.length - 1) 0) sa.length).2)
      sa.length index = some (sa.getD index 0) :=
  sampled_array_correct t sa s hs (SortedBridge.checkSA_sortedAllB t sa hc hmin) index hi

/-- … and `get` alone, with the stored values as hypotheses -/
theorem sampled_get_correct_of_checkSA (t sa : List Nat) (s : Nat) (sampleGet extraGet : Nat → Nat)
    (hc : checkSA t sa = true)
    (hmin : ∀ p, p < t.length → sentinelOf t ≤ t.getD p 0)
    (hsample : ∀ pos, pos < sa.length → pos % s = 0 → sampleGet (pos / s) = sa.getD pos 0)
    (hextra : ∀ pos, pos < sa.length → pos % s ≠ 0 →
      (LF.bwtOf t sa).getD pos 0 = t.getD (t.length - 1) 0 → extraGet pos = sa.getD pos 0)
    (index : Nat) (hi : index < sa.length) :
    SampledModel.get s (LF.bwtOf t sa) (t.getD (t.length - 1) 0) (LF.lessRef (LF.bwtOf t sa))
      (LF.occRef (LF.bwtOf t sa)) sampleGet extraGet sa.length index = some (sa.getD index 0) :=
  sampled_get_correct t sa s sampleGet extraGet (SortedBridge.checkSA_sortedAllB t sa hc hmin) hsample hextra index hi

-- two sequences "A$A$" as bytes, sampling rate 2, from C03's checker: every row gives `sa[row]`
example : ∀ i, i < 4 → SampledModel.get 2 (LF.bwtOf [65, 36, 65, 36] [3, 1, 2, 0]) 36
      (LF.lessRef (LF.bwtOf [65, 36, 65, 36] [3, 1, 2, 0])) (LF.occRef (LF.bwtOf [65, 36, 65, 36] [3, 1, 2, 0]))
      (SampledModel.sampleGet (SampledModel.build [3, 1, 2, 0] (LF.bwtOf [65, 36, 65, 36] [3, 1, 2, 0]) 2 36 4).1)
      (SampledModel.extraGet (SampledModel.build [3, 1, 2, 0] (LF.bwtOf [65, 36, 65, 36] [3, 1, 2, 0]) 2 36 4).2)
      4 i = some ([3, 1, 2, 0].getD i 0) :=
  fun i hi => sampled_array_correct_of_checkSA [65, 36, 65, 36] [3, 1, 2, 0] 2 (by decide) (by decide) (by decide) i hi

-- two sequences "A$A$" (A=1, $=0), sampling rate 2: row 1 is not sampled and its BWT symbol is the sentinel → extra row
example : SampledModel.build [3, 1, 2, 0] (LF.bwtOf [1, 0, 1, 0] [3, 1, 2, 0]) 2 0 4 = ([3, 2], [(3, 0)]) := by decide

/-- … hence accepted by the oracle: on a sorted index the checker and the mirror model agree -/
theorem model_accepted (t sa pat : List Nat) (hp : pat ≠ []) (hn : 0 < t.length)
    (hsent : ∀ a ∈ pat, t.getD (t.length - 1) 0 < a)
    (hsorted : ∀ a ∈ pat, LF.Sorted t sa a) :
    checkBS t sa pat
      (BSModel.backwardSearch (LF.lessRef (LF.bwtOf t sa)) (LF.occRef (LF.bwtOf t sa)) sa.length pat) = true :=
  (checkBS_iff t sa pat hp _).mpr (backward_search_correct t sa pat hp hn hsent hsorted)

section model_examples
/-- "GATTACA$" with $=0, A=1, C=2, G=3, T=4 and its suffix array -/
private def txt' : List Nat := [3, 1, 4, 4, 1, 2, 1, 0]
private def sa' : List Nat := [7, 6, 4, 1, 5, 0, 3, 2]
-- the mirror model on the repo's test cases: GATTACA complete, GTACA partial (4), and an absent symbol
example : BSModel.backwardSearch (LF.lessRef (LF.bwtOf txt' sa')) (LF.occRef (LF.bwtOf txt' sa')) 8 [3, 1, 4, 4, 1, 2, 1]
    = .complete 5 6 := by decide
example : BSModel.backwardSearch (LF.lessRef (LF.bwtOf txt' sa')) (LF.occRef (LF.bwtOf txt' sa')) 8 [3, 4, 1, 2, 1]
    = .part 6 7 4 := by decide
example : BSModel.backwardSearch (LF.lessRef (LF.bwtOf txt' sa')) (LF.occRef (LF.bwtOf txt' sa')) 8 [1, 5]
    = .absent := by decide
example : LF.bwtOf txt' sa' = [1, 2, 4, 3, 1, 0, 4, 1] := by decide
end model_examples

/-! ## `FMIndexable::backward_search` translated from the source text (docs/notes/GEN.md, "Translated function bodies")

`RbV/Gen/SrcBackwardSearch.lean` is regenerated from `src/data_structures/fmindex.rs` by `tools/rs2lean.py` on every
`./check C05` (proofs: `RbV/Thm/GenSrcBackwardSearch.lean`).  The required trait methods `self.less(a)`, `self.occ(r, a)`,
`self.bwt()` are parameters; the `break` is a flag of the fold; `BackwardSearchResult` is a generated inductive
(`GenSrcBackwardSearch.toGen : BSRes → BackwardSearchResult`).  `Rs.Res.ok v` = no checked `usize` operation panics. -/

/-- **`backward_search`, as written, is the mirror model `BSModel.backwardSearch`** over the same `less`/`occ`, for a
non-empty BWT, `less(a) ≥ 1` on the pattern symbols (the subtraction `less + occ - 1`) and sums that fit a `usize` -/
theorem backward_search_source_eq_model (lessF : Nat → Nat) (occF : Nat → Nat → Nat) (bwt pat : List Nat)
    (hn : 0 < bwt.length) (hn' : bwt.length < 2 ^ 64) (hm : pat.length < 2 ^ 64) (hless : ∀ a ∈ pat, 1 ≤ lessF a)
    (hb : ∀ a ∈ pat, ∀ r, lessF a + occF r a < 2 ^ 64) :
    Gen.SrcBackwardSearch.backward_search lessF occF bwt pat
      = Rs.Res.ok (GenSrcBackwardSearch.toGen (BSModel.backwardSearch lessF occF bwt.length pat)) :=
  GenSrcBackwardSearch.backward_search_eq_model lessF occF bwt pat hn hn' hm hless hb

/-- **generated code satisfies the property**: on every LF-sorted array of a text whose last symbol is smaller than all
pattern symbols (one or many sentinels), the *translated* `backward_search` — run with `less`/`occ` of the BWT of
`(t, sa)` — returns without panicking a result that satisfies the property statement `BSProp`, for every non-empty
pattern (sizes below `2^64`) -/
theorem backward_search_source_correct (t sa pat : List Nat) (hp : pat ≠ []) (hn : 0 < t.length)
    (hlen : t.length < 2 ^ 64) (hm : pat.length < 2 ^ 64)
    (hsent : ∀ a ∈ pat, t.getD (t.length - 1) 0 < a)
    (hsorted : ∀ a ∈ pat, LF.Sorted t sa a) :
    ∃ res, Gen.SrcBackwardSearch.backward_search (LF.lessRef (LF.bwtOf t sa)) (LF.occRef (LF.bwtOf t sa))
        (LF.bwtOf t sa) pat = Rs.Res.ok (GenSrcBackwardSearch.toGen res) ∧ BSProp t sa pat res := by
  obtain ⟨a0, ha0⟩ : ∃ a, a ∈ pat := by
    cases pat with
    | nil => exact absurd rfl hp
    | cons a q => exact ⟨a, by simp⟩
  have hsa : sa.length = t.length := LF.sa_length (hsorted a0 ha0).perm
  have hbl : (LF.bwtOf t sa).length = sa.length := by simp [LF.bwtOf]
  refine ⟨_, ?_, backward_search_correct t sa pat hp hn hsent hsorted⟩
  rw [← hbl]
  apply GenSrcBackwardSearch.backward_search_eq_model
  · rw [hbl, hsa]; exact hn
  · rw [hbl, hsa]; exact hlen
  · exact hm
  · exact fun a ha => LF.less_pos (hsorted a ha) hn (hsent a ha)
  · intro a _ r
    have h1 := LF.less_add_count_le (LF.bwtOf t sa) a
    have h2 : LF.occRef (LF.bwtOf t sa) r a ≤ (LF.bwtOf t sa).count a := by
      unfold LF.occRef
      exact (List.take_sublist _ _).count_le a
    rw [hbl, hsa] at h1
    omega

/-- the `occ` the search is run with is what the translated `Occ::get` returns on the table of `Occ::new`
(`FMIndex::occ(r, a)` is `self.occ.get(&self.bwt, r, a)`): for every sampling rate `k ≥ 1` and every row, with
`bytecount::count` read as `List.count` (restated from C04, `RbV/Thm/GenSrcOcc.lean`; the generated file is rebuilt from
`bwt.rs` on every `./check C05` as well) -/
theorem occ_source_is_spec (occ : List (List Nat)) (k : Nat) (bwt : List Nat) (r a : Nat)
    (hcp : occ[a]? = some (OccM.occNew bwt k a)) (hk : 0 < k) (hk32 : k < 2 ^ 32) (hr : r < bwt.length)
    (hn : bwt.length < 2 ^ 64) :
    Gen.SrcOcc.get (fun s c => s.count c) occ k bwt r a = Rs.Res.ok (LF.occRef bwt r a) :=
  GenSrcOcc.get_exact_of_table occ k bwt r a hcp hk hk32 hr hn

-- GATTACA$: complete, partial (4 symbols) and absent through the translated function
example : Gen.SrcBackwardSearch.backward_search (LF.lessRef (LF.bwtOf [3, 1, 4, 4, 1, 2, 1, 0] [7, 6, 4, 1, 5, 0, 3, 2]))
    (LF.occRef (LF.bwtOf [3, 1, 4, 4, 1, 2, 1, 0] [7, 6, 4, 1, 5, 0, 3, 2])) (LF.bwtOf [3, 1, 4, 4, 1, 2, 1, 0] [7, 6, 4, 1, 5, 0, 3, 2])
    [3, 1, 4, 4, 1, 2, 1] = Rs.Res.ok (.Complete (5, 6)) := by decide
example : Gen.SrcBackwardSearch.backward_search (LF.lessRef (LF.bwtOf [3, 1, 4, 4, 1, 2, 1, 0] [7, 6, 4, 1, 5, 0, 3, 2]))
    (LF.occRef (LF.bwtOf [3, 1, 4, 4, 1, 2, 1, 0] [7, 6, 4, 1, 5, 0, 3, 2])) (LF.bwtOf [3, 1, 4, 4, 1, 2, 1, 0] [7, 6, 4, 1, 5, 0, 3, 2])
    [3, 4, 1, 2, 1] = Rs.Res.ok (.Partial (6, 7) 4) := by decide
example : Gen.SrcBackwardSearch.backward_search (LF.lessRef (LF.bwtOf [3, 1, 4, 4, 1, 2, 1, 0] [7, 6, 4, 1, 5, 0, 3, 2]))
    (LF.occRef (LF.bwtOf [3, 1, 4, 4, 1, 2, 1, 0] [7, 6, 4, 1, 5, 0, 3, 2])) (LF.bwtOf [3, 1, 4, 4, 1, 2, 1, 0] [7, 6, 4, 1, 5, 0, 3, 2])
    [1, 5] = Rs.Res.ok .Absent := by decide
-- an empty BWT: `self.bwt().len() - 1` underflows, the Rust code panics
example : Gen.SrcBackwardSearch.backward_search (fun _ => 0) (fun _ _ => 0) [] [1] = Rs.Res.panic := by decide

/-! ### `Interval::occ` translated from the source text (genleft; `RbV/Gen/SrcFmAccess.lean`, proofs
`RbV/Thm/GenSrcFmAccess.lean`).  `SA: SuffixArray` is an opaque type, `SuffixArray::get` the abstract, possibly panicking
`saGet`; the hypothesis `hget` — `get(i) = Some(sa[i])` on the rows of the array — holds for the plain vector
(`RawSuffixArray::get`) and is what `sampled_get_source_exact_all` (C03) proves of the translated `SampledSuffixArray::get`. -/

/-- **`Interval::occ`, as written, returns exactly the suffix-array entries of its rows** — the list `ivMap sa lo hi` the
property's `MapsTo` is stated over — without panic, for every interval inside the array -/
theorem interval_occ_source_eq_model {σ : Type} (saGet : σ → Nat → Rs.Res (Option Nat)) (s : σ) (sa : List Nat)
    (hget : ∀ i, i < sa.length → saGet s i = Rs.Res.ok (some (sa.getD i 0)))
    (lo hi : Nat) (h : hi ≤ sa.length) :
    Gen.SrcFmAccess.intervalOcc saGet { lower := lo, upper := hi } s = Rs.Res.ok (ivMap sa lo hi) :=
  RbV.Thm.GenSrcFmAccess.intervalOcc_eq_model saGet s sa hget lo hi h

/-- … and an interval that leaves the array panics (`.expect("Interval out of range of suffix array")`) -/
theorem interval_occ_source_out_of_range {σ : Type} (saGet : σ → Nat → Rs.Res (Option Nat)) (s : σ) (lo hi : Nat)
    (h : lo < hi) (hnone : saGet s lo = Rs.Res.ok none) :
    Gen.SrcFmAccess.intervalOcc saGet { lower := lo, upper := hi } s = Rs.Res.panic :=
  RbV.Thm.GenSrcFmAccess.intervalOcc_out_of_range saGet s lo hi h hnone

-- GATTACA$: rows 5..7 of the suffix array through the translated function (plain vector as `SuffixArray`)
example : Gen.SrcFmAccess.intervalOcc (fun (sa : List Nat) i => Rs.Res.ok sa[i]?) ⟨5, 7⟩ [7, 6, 4, 1, 5, 0, 3, 2]
    = Rs.Res.ok [0, 3] := by decide
example : Gen.SrcFmAccess.intervalOcc (fun (sa : List Nat) i => Rs.Res.ok sa[i]?) ⟨7, 9⟩ [7, 6, 4, 1, 5, 0, 3, 2]
    = Rs.Res.panic := by decide
example : Gen.SrcFmAccess.intervalOcc (fun (sa : List Nat) i => Rs.Res.ok sa[i]?) ⟨5, 7⟩ [7, 6, 4, 1, 5, 0, 3, 2]
    = Rs.Res.ok (ivMap [7, 6, 4, 1, 5, 0, 3, 2] 5 7) :=
  interval_occ_source_eq_model _ _ [7, 6, 4, 1, 5, 0, 3, 2]
    (fun i hi => by rw [List.getD_eq_getElem?_getD, List.getElem?_eq_getElem hi]; rfl) 5 7 (by decide)

end RbV.Thm.C05
