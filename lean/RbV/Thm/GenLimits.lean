import RbV.Gen.Limits
/-!
# Source-extracted obligation: score sentinels and limits of the aligners (DESIGN §8; C01, C02, C16)

`RbV/Gen/Limits.lean` is regenerated from the source text on every `./check C01|C02|C16` (tools/gen_tables.py) and this
module is re-checked.  `MIN_SCORE` is the "minus infinity" of the dynamic programmes; its doc comment promises that
adding two of them does not underflow an `i32` — that is `two_min_scores_no_i32_overflow`;
`min_score_headroom` says how much further penalty the sum tolerates.  `poa.rs` carries its own copy of the constant
("see alignment/pairwise/mod.rs"): `min_score_pairwise_eq_poa` keeps the two in step.

Renamed / removed / retyped constant: the extraction fails.  Changed value: these theorems fail when the new value
can overflow or the two copies diverge; `MAX_CELLS` and `DEFAULT_MATCH_SCORE` are tuning constants — the models are
meant to *follow* them (only sanity bounds are proved here).  Core Lean only.
-/
namespace RbV.Thm.GenLimits
open RbV.Gen.Limits

/-- the copy of `MIN_SCORE` in `poa.rs` is the constant of `pairwise/mod.rs` -/
theorem min_score_pairwise_eq_poa : minScorePairwise = minScorePoa := by decide

/-- adding two sentinels stays inside `i32` (both copies): `2·MIN_SCORE ≥ −2³¹` -/
theorem two_min_scores_no_i32_overflow :
    scoreBits = 32 ∧ -(2 ^ (scoreBits - 1) : Int) ≤ minScorePairwise + minScorePairwise ∧
      -(2 ^ (scoreBits - 1) : Int) ≤ minScorePoa + minScorePoa := by decide

/-- the sentinel is an `i32` and negative -/
theorem min_score_range : -(2 ^ 31 : Int) ≤ minScorePairwise ∧ minScorePairwise < 0 := by decide

/-- head-room ("reasonable scoring parameters" of the doc comment, made exact): two sentinels plus any further
non-positive penalty `p` stay inside `i32` as long as `p ≥ −2³¹ − 2·MIN_SCORE` -/
theorem min_score_headroom (p : Int) (hp : -(2 ^ 31 : Int) - (minScorePairwise + minScorePairwise) ≤ p) (hp0 : p ≤ 0) :
    -(2 ^ 31 : Int) ≤ minScorePairwise + minScorePairwise + p ∧ minScorePairwise + minScorePairwise + p < 2 ^ 31 := by
  have hneg : minScorePairwise < 0 := min_score_range.2
  have hc : (2 : Int) ^ 31 = 2147483648 := by decide
  rw [hc] at hp ⊢
  constructor <;> omega

/-- `MAX_CELLS` and `DEFAULT_MATCH_SCORE` are tuning constants (the models follow them); only: the guard
`num_cells() > MAX_CELLS` is not vacuous, the default k-mer match score is positive -/
theorem max_cells_pos_and_default_match_pos : 0 < maxCells ∧ 0 < defaultMatchScore := by decide

/-- non-vacuity of `min_score_headroom`: the boundary penalty itself satisfies the hypotheses (with the present
constant it is −429 496 730) -/
example : -(2 ^ 31 : Int) - (minScorePairwise + minScorePairwise) ≤ -(2 ^ 31 : Int) - (minScorePairwise + minScorePairwise) ∧
    -(2 ^ 31 : Int) - (minScorePairwise + minScorePairwise) ≤ 0 := by decide

end RbV.Thm.GenLimits
