import RbV.Gen.TbCodes
import RbV.Model.TbCell
/-!
# Source-extracted obligation: traceback-cell constants of `pairwise/mod.rs` (DESIGN §8; C01, C02)

`RbV/Gen/TbCodes.lean` is regenerated from the source text on every `./check C01|C02` (tools/gen_tables.py) and this
module is re-checked.  A constant that was renamed / removed / retyped makes the *extraction* fail; a constant whose
value changed makes one of the theorems below fail exactly when the change breaks what the traceback relies on:
two moves sharing a code, a code that does not fit the 4-bit field or exceeds `TB_MAX` (the `assert!` in `set_bits`
would fire), overlapping fields, a field outside the 16-bit cell.  A harmless renumbering (all codes still distinct
and ≤ `TB_MAX` ≤ 15, fields still disjoint) passes: the codes are private to the aligner.

Core Lean only, every proof by evaluation (`decide`) or from `RbV/Model/TbCell.lean`.
-/
namespace RbV.Thm.GenTbCodes
open RbV.Gen.TbCodes RbV.TbCell

/-- the nine move codes are pairwise distinct (a traceback step is decoded from the code alone) -/
theorem tb_codes_distinct : codes.Nodup := by decide

/-- every move code passes the `assert!(value <= TB_MAX)` of `set_bits`, and `TB_MAX` is itself a move -/
theorem tb_codes_le_max : (∀ c ∈ codes, c ≤ tbMax) ∧ tbMax ∈ codes := by decide

/-- `TB_MAX` fits the 4-bit field: `TB_MAX ≤ mask = 0b1111 < 16` -/
theorem tb_max_fits_field : tbMax ≤ fieldMask ∧ fieldMask + 1 = 2 ^ 4 ∧ tbMax < 16 := by decide

/-- the three 4-bit fields `[pos, pos+4)` are pairwise disjoint and lie inside the cell -/
theorem tb_fields_disjoint :
    positions.Pairwise (fun a b => a + 4 ≤ b ∨ b + 4 ≤ a) ∧ (∀ p ∈ positions, p + 4 ≤ cellBits) := by decide

/-- … written out for the three named positions -/
theorem tb_positions : positions = [iPos, dPos, sPos] ∧ iPos + 4 ≤ dPos ∧ dPos + 4 ≤ sPos ∧ sPos + 4 ≤ cellBits := by
  decide

theorem mem_positions_bound {p : Nat} (hp : p ∈ positions) : p + 4 ≤ 16 := by
  have h := tb_fields_disjoint.2 p hp
  rw [cellBits_eq] at h; exact h

theorem positions_apart : ∀ p ∈ positions, ∀ q ∈ positions, p ≠ q → p + 4 ≤ q ∨ q + 4 ≤ p := by decide

theorem le_max_lt16 {value : Nat} (h : value ≤ tbMax) : value < 16 :=
  Nat.lt_of_le_of_lt h tb_max_fits_field.2.2

/-- model of `set_bits`/`get_bits` over the generated mask, positions and width, for **every** cell content `v`,
every admissible value and every field: reading a field back returns what was written … -/
theorem tb_get_after_set (v value p : Nat) (hval : value ≤ tbMax) (hp : p ∈ positions) :
    getBits (setBits v p value) p = value :=
  get_set_same v p value (le_max_lt16 hval) (mem_positions_bound hp)

/-- … the other two fields are untouched … -/
theorem tb_set_preserves_other_fields (v value p q : Nat) (hval : value ≤ tbMax) (hp : p ∈ positions)
    (hq : q ∈ positions) (hpq : p ≠ q) : getBits (setBits v p value) q = getBits v q :=
  get_set_other v p q value (le_max_lt16 hval) (mem_positions_bound hq) (positions_apart p hp q hq hpq)

/-- … and the cell stays a `u16` (nothing is shifted out, so the model needs no truncation) -/
theorem tb_set_fits_cell (v value p : Nat) (hv : v < 2 ^ cellBits) (hval : value ≤ tbMax) (hp : p ∈ positions) :
    setBits v p value < 2 ^ cellBits := by
  rw [cellBits_eq] at hv ⊢
  exact setBits_lt v p value hv (le_max_lt16 hval) (mem_positions_bound hp)

/-- `set_all(value)` makes all three matrices read `value` -/
theorem tb_set_all (v value : Nat) (hval : value ≤ tbMax) :
    getBits (setAll v value) iPos = value ∧ getBits (setAll v value) dPos = value ∧
      getBits (setAll v value) sPos = value := by
  have hi : iPos ∈ positions := by decide
  have hd : dPos ∈ positions := by decide
  have hs : sPos ∈ positions := by decide
  have hid : iPos ≠ dPos := by decide
  have his : iPos ≠ sPos := by decide
  have hds : dPos ≠ sPos := by decide
  unfold setAll
  refine ⟨?_, ?_, ?_⟩
  · rw [tb_set_preserves_other_fields _ value sPos iPos hval hs hi (Ne.symm his),
      tb_set_preserves_other_fields _ value dPos iPos hval hd hi (Ne.symm hid), tb_get_after_set v value iPos hval hi]
  · rw [tb_set_preserves_other_fields _ value sPos dPos hval hs hd (Ne.symm hds), tb_get_after_set _ value dPos hval hd]
  · exact tb_get_after_set _ value sPos hval hs

/-! non-vacuity (stated through the constants, so that a harmless renumbering does not break the examples): a cell with
S = MATCH, D = DEL, I = YCLIP_SUFFIX — with the present codes `0b0100_0010_1000` — reads back field by field -/
example :
    let cell := setBits (setBits (setBits 0 sPos tbMatch) dPos tbDel) iPos tbYclipSuffix
    getBits cell sPos = tbMatch ∧ getBits cell dPos = tbDel ∧ getBits cell iPos = tbYclipSuffix ∧ cell < 2 ^ cellBits := by
  decide
example : tbYclipSuffix ≤ tbMax ∧ sPos ∈ positions ∧ iPos ≠ sPos := by decide
/-- the guard `value <= TB_MAX` matters: a value above the mask spills into the neighbouring field -/
example : getBits (setBits 0 iPos (fieldMask + 1)) (iPos + 4) = 1 := by decide

end RbV.Thm.GenTbCodes
