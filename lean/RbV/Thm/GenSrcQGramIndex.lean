import RbV.Gen.SrcQGramIndex
import RbV.Model.QGramIndex
import RbV.Lemmas.QGramIndex
import RbV.Thm.GenSrcBasic
/-!
# The translated text of `QGramIndex::with_max_count` equals the counting-sort model `buildIndex`

`RbV/Gen/SrcQGramIndex.lean` is regenerated from `src/data_structures/qgram_index.rs` on every `./check C19` (dialect
"cf").  Abstract parameters of the generated definition: `rankNew` (= `RankTransform::new`), `getWidth`
(= `ranks.get_width()`), `qgramsOf q text` (= the codes `ranks.qgrams(q, text)` yields: constructor + iterator, translated
and proved in `GenSrcQGrams`), `prescanAdd` (= `utils::prescan(·, ·, |a, b| a + b)`, translated and proved for C04; the
closure text is pinned by the translation spec).

The model is total (`getD`, `set`); the translated code panics on every index out of range, overflow or underflow.  The
equality therefore also says that, when every code is below the table size `2^(bits·q)` and the text has fewer than `2^64`
q-grams, the three loops never leave their vectors: counts stay below `2^64`, `address[c] ≤ address[c+1]`, and the slot
`address[c] + offset[c]` written for the `t`-th occurrence of an unmasked code lies inside `pos` (invariant `FillInv` of
`Lemmas/QGramIndex.lean`: `offset[c]` = number of occurrences of `c` so far).
-/
set_option linter.unusedSimpArgs false
set_option linter.unusedVariables false
namespace RbV.Thm.GenSrcQGramIndex
open RbV RbV.Rs RbV.Gen.SrcQGramIndex RbV.QGram RbV.Thm.GenSrc
variable {αβ ρ τ : Type}

/-- commuted operands -/
theorem add_ok' {w a b : Nat} (h : a + b < 2 ^ w) : Rs.add w b a = Res.ok (a + b) := by
  rw [Nat.add_comm a b] at *; exact Rs.add_ok h

theorem getD_bump1_le (l : List Nat) (i j : Nat) : (bump1 l i).getD j 0 ≤ l.getD j 0 + 1 := by
  unfold bump1; rw [getD_set]; split
  · rename_i h; rw [h.1]; omega
  · omega

theorem sum_set (l : List Nat) (i v : Nat) (h : i < l.length) : (l.set i v).sum + l.getD i 0 = l.sum + v := by
  induction l generalizing i with
  | nil => simp at h
  | cons a t ih =>
    cases i with
    | zero => simp; omega
    | succ i =>
      simp only [List.length_cons] at h
      have := ih i (by omega)
      simp only [List.set_cons_succ, List.sum_cons, List.getD_cons_succ]
      omega

theorem sum_bump1 (l : List Nat) (i : Nat) (h : i < l.length) : (bump1 l i).sum = l.sum + 1 := by
  have := sum_set l i (l.getD i 0 + 1) h
  unfold bump1; omega

theorem sum_foldl_bump1 (codes : List Nat) : ∀ (T : List Nat), (∀ c ∈ codes, c < T.length) →
    (codes.foldl bump1 T).sum = T.sum + codes.length := by
  induction codes with
  | nil => intro T _; simp
  | cons c codes ih =>
    intro T h
    simp only [List.foldl_cons, List.length_cons]
    rw [ih (bump1 T c) (by intro x hx; rw [length_bump1]; exact h x (List.mem_cons_of_mem _ hx)),
      sum_bump1 T c (h c List.mem_cons_self)]
    omega

theorem sum_map_mask_le (mc : Nat) (l : List Nat) : (l.map (fun a => if a > mc then 0 else a)).sum ≤ l.sum := by
  induction l with
  | nil => simp
  | cons a t ih => simp only [List.map_cons, List.sum_cons]; split <;> omega

theorem sum_replicate_zero (n : Nat) : (List.replicate n 0).sum = 0 := by
  induction n with
  | zero => rfl
  | succ n ih => simp [List.replicate_succ, ih]

theorem sum_take_le (l : List Nat) (k : Nat) : (l.take k).sum ≤ l.sum := by
  induction l generalizing k with
  | nil => simp
  | cons a t ih =>
    cases k with
    | zero => simp
    | succ k => simp only [List.take_succ_cons, List.sum_cons]; have := ih k; omega

section
variable (rankNew : αβ → ρ) (getWidth : Nat) (qgramsOf : Nat → τ → List Nat) (prescanAdd : List Nat → Nat → Res (List Nat))

/-- the counting loop `address[qgram] += 1` -/
theorem for1_eq : ∀ (codes T : List Nat), (∀ c ∈ codes, c < T.length) → (∀ j, T.getD j 0 + codes.length < 2 ^ 64) →
    withMaxCount_for1 rankNew getWidth qgramsOf prescanAdd codes T = Res.ok (codes.foldl bump1 T) := by
  intro codes
  induction codes with
  | nil => intro T _ _; simp [withMaxCount_for1]
  | cons c codes ih =>
    intro T hc hb
    have hcl := hc c List.mem_cons_self
    have e1 : Rs.idx T c = Res.ok (T.getD c 0) := idx_getD T c 0 hcl
    have e2 : Rs.add 64 (T.getD c 0) 1 = Res.ok (T.getD c 0 + 1) := Rs.add_ok (by have := hb c; simp only [List.length_cons] at this; omega)
    have e2' : Rs.add 64 1 (T.getD c 0) = Res.ok (T.getD c 0 + 1) :=
      add_ok' (by have := hb c; simp only [List.length_cons] at this; omega)
    have e3 : Rs.setIdx T c (T.getD c 0 + 1) = Res.ok (bump1 T c) := Rs.setIdx_ok hcl
    have := ih (bump1 T c) (by intro x hx; rw [length_bump1]; exact hc x (List.mem_cons_of_mem _ hx))
      (by intro j; have h1 := getD_bump1_le T c j; have h2 := hb j; simp only [List.length_cons] at h2; omega)
    simp [withMaxCount_for1, e1, e2, e2', e3, this, -List.getD_eq_getElem?_getD]

/-- the masking loop `if *a > max_count { *a = 0 }` -/
theorem for2_eq (mc : Nat) : ∀ (l acc : List Nat),
    l.foldlM (withMaxCount_for2 rankNew getWidth qgramsOf prescanAdd mc) acc
      = Res.ok (acc ++ l.map (fun a => if a > mc then 0 else a)) := by
  intro l
  induction l with
  | nil => intro acc; simp
  | cons a t ih =>
    intro acc
    by_cases h : a > mc <;> simp [List.foldlM_cons, withMaxCount_for2, h, ih]

/-- the loop that fills `pos`, under the invariant of the counting-sort proof -/
theorem for3_eq (m : List Nat) (size : Nat) (address codes : List Nat)
    (hal : address.length = size + 1)
    (haddr : ∀ c, c ≤ size → address.getD c 0 = (m.take c).sum)
    (hmc : ∀ c, c < size → m.getD c 0 = 0 ∨ m.getD c 0 = codes.count c)
    (hcodes : ∀ c ∈ codes, c < size) (hs64 : size + 1 < 2 ^ 64) (hsum : (m.take size).sum < 2 ^ 64) :
    ∀ (rest P : List Nat) (st : List Nat × List Nat), codes = P ++ rest → FillInv m size P st →
      withMaxCount_for3 rankNew getWidth qgramsOf prescanAdd address (rest.zipIdx P.length) st
        = Res.ok (fill address P.length rest st) := by
  intro rest
  induction rest with
  | nil => intro P st _ _; simp [withMaxCount_for3, fill]
  | cons x rest ih =>
    intro P st hs hinv
    obtain ⟨pos, offset⟩ := st
    have hx : x < size := hcodes x (by rw [hs]; simp)
    have hnext := fillInv_step m size address codes haddr hmc P x rest hs hx (pos, offset) hinv
    have hrec := ih (P ++ [x]) (fillStep address (pos, offset) P.length x) (by rw [hs]; simp) hnext
    simp only [List.length_append, List.length_singleton] at hrec
    obtain ⟨hl1, hl2, hI⟩ := hinv
    simp only at hl1 hl2
    have hmono : (m.take x).sum ≤ (m.take (x + 1)).sum := sum_take_mono m (by omega)
    have e1 : Rs.idx address x = Res.ok (address.getD x 0) := idx_getD address x 0 (by omega)
    have e2 : Rs.add 64 x 1 = Res.ok (x + 1) := Rs.add_ok (by omega)
    have e3 : Rs.idx address (x + 1) = Res.ok (address.getD (x + 1) 0) := idx_getD address (x + 1) 0 (by omega)
    have e4 : Rs.sub (address.getD (x + 1) 0) (address.getD x 0)
        = Res.ok (address.getD (x + 1) 0 - address.getD x 0) :=
      Rs.sub_ok (by rw [haddr (x + 1) (by omega), haddr x (by omega)]; exact hmono)
    have hdiff : address.getD (x + 1) 0 - address.getD x 0 = m.getD x 0 := by
      rw [haddr (x + 1) (by omega), haddr x (by omega), sum_take_succ]; omega
    have e2' : Rs.add 64 1 x = Res.ok (x + 1) := add_ok' (by omega)
    have hle : address.getD x 0 ≤ address.getD (x + 1) 0 := by
      rw [haddr (x + 1) (by omega), haddr x (by omega)]; exact hmono
    by_cases hm0 : m.getD x 0 = 0
    · have hb : (address.getD (x + 1) 0 - address.getD x 0 != 0) = false := by rw [hdiff, hm0]; rfl
      have hb' : (address.getD (x + 1) 0 != address.getD x 0) = false := by
        have : address.getD (x + 1) 0 = address.getD x 0 := by omega
        rw [this]; simp
      have hb'' : (address.getD x 0 != address.getD (x + 1) 0) = false := by
        have : address.getD (x + 1) 0 = address.getD x 0 := by omega
        rw [this]; simp
      have hb3 : decide (address.getD (x + 1) 0 > address.getD x 0) = false := by
        have : ¬ address.getD (x + 1) 0 > address.getD x 0 := by omega
        simpa using this
      have hd0 : address.getD (x + 1) 0 - address.getD x 0 = 0 := by omega
      have hd1 : address.getD (x + 1) 0 = address.getD x 0 := by omega
      have e4s : Rs.sub (address.getD x 0) (address.getD x 0) = Res.ok 0 := by
        rw [Rs.sub_ok (Nat.le_refl _), Nat.sub_self]
      have hstep : fillStep address (pos, offset) P.length x = (pos, offset) := by
        unfold fillStep; simp only [hb, Bool.false_eq_true, if_false]
      rw [hstep] at hrec
      simp [List.zipIdx_cons, withMaxCount_for3, fill, e1, e2, e2', e3, e4, e4s, hb, hb', hb'', hb3, hd0, hd1, hrec, hstep,
        -List.getD_eq_getElem?_getD]
    · have hb : (address.getD (x + 1) 0 - address.getD x 0 != 0) = true := by rw [hdiff]; simpa using hm0
      have hb' : (address.getD (x + 1) 0 != address.getD x 0) = true := by
        have : address.getD (x + 1) 0 ≠ address.getD x 0 := by omega
        simpa using this
      have hb'' : (address.getD x 0 != address.getD (x + 1) 0) = true := by
        have : address.getD x 0 ≠ address.getD (x + 1) 0 := by omega
        simpa using this
      have hb3 : decide (address.getD (x + 1) 0 > address.getD x 0) = true := by
        have : address.getD (x + 1) 0 > address.getD x 0 := by omega
        simpa using this
      have hd0 : ¬ address.getD (x + 1) 0 - address.getD x 0 = 0 := by omega
      have hd1 : ¬ address.getD (x + 1) 0 = address.getD x 0 := by omega
      have hd2 : ¬ address.getD x 0 = address.getD (x + 1) 0 := by omega
      have hd3 : address.getD x 0 < address.getD (x + 1) 0 := by omega
      obtain ⟨hoffx, _⟩ := hI x hx hm0
      simp only at hoffx
      have hmx : m.getD x 0 = codes.count x := by
        rcases hmc x hx with h | h
        · exact absurd h hm0
        · exact h
      have hlt : (posFrom x 0 P).length < m.getD x 0 := by
        rw [hmx, length_posFrom, hs, List.count_append, List.count_cons]; simp
      have hAx1 : (m.take (x + 1)).sum = (m.take x).sum + m.getD x 0 := sum_take_succ m x
      have hAle : (m.take (x + 1)).sum ≤ (m.take size).sum := sum_take_mono m (by omega)
      have e5 : Rs.idx offset x = Res.ok (offset.getD x 0) := idx_getD offset x 0 (by omega)
      have ha : address.getD x 0 = (m.take x).sum := haddr x (by omega)
      have e6 : Rs.add 64 (address.getD x 0) (offset.getD x 0) = Res.ok (address.getD x 0 + offset.getD x 0) :=
        Rs.add_ok (by rw [ha, hoffx]; omega)
      have e7 : ∀ v, Rs.setIdx pos (address.getD x 0 + offset.getD x 0) v
          = Res.ok (pos.set (address.getD x 0 + offset.getD x 0) v) :=
        fun v => Rs.setIdx_ok (by rw [ha, hoffx, hl1]; omega)
      have e8 : Rs.add 64 (offset.getD x 0) 1 = Res.ok (offset.getD x 0 + 1) := Rs.add_ok (by rw [hoffx]; omega)
      have e8' : Rs.add 64 1 (offset.getD x 0) = Res.ok (offset.getD x 0 + 1) := add_ok' (by rw [hoffx]; omega)
      have e6' : Rs.add 64 (offset.getD x 0) (address.getD x 0) = Res.ok (address.getD x 0 + offset.getD x 0) :=
        add_ok' (by rw [ha, hoffx]; omega)
      have e9 : ∀ v, Rs.setIdx offset x v = Res.ok (offset.set x v) := fun v => Rs.setIdx_ok (by omega)
      have hstep : fillStep address (pos, offset) P.length x
          = (pos.set (address.getD x 0 + offset.getD x 0) P.length, offset.set x (offset.getD x 0 + 1)) := by
        unfold fillStep; simp only [hb, if_true]
      rw [hstep] at hrec
      simp [List.zipIdx_cons, withMaxCount_for3, fill, e1, e2, e2', e3, e4, hb, hb', hb'', hb3, hd0, hd1, hd2, hd3, e5, e6,
        e6', e7, e8, e8', e9, hrec, hstep, -List.getD_eq_getElem?_getD]

/-- **`QGramIndex::with_max_count` as written in the source = `buildIndex`** on the q-gram codes of the text: when
`bits·q < 64`, every code is below `2^(bits·q)` and the text has fewer than `2^64` q-grams, the translated function never
panics and returns the model's address table and position list. -/
theorem withMaxCount_eq_model (q : Nat) (text : τ) (alphabet : αβ) (mc : Nat)
    (hw : getWidth < 2 ^ 32) (hbq : getWidth * q < 64)
    (hcodes : ∀ c ∈ qgramsOf q text, c < 2 ^ (getWidth * q)) (hlen : (qgramsOf q text).length < 2 ^ 64)
    (hps : ∀ l : List Nat, l.sum < 2 ^ 64 → prescanAdd l 0 = Res.ok (prescan 0 l)) :
    withMaxCount rankNew getWidth qgramsOf prescanAdd q text alphabet mc
      = Res.ok (q, (buildIndex (2 ^ (getWidth * q)) mc (qgramsOf q text)).1,
          (buildIndex (2 ^ (getWidth * q)) mc (qgramsOf q text)).2, rankNew alphabet) := by
  generalize hcd : qgramsOf q text = codes at *
  generalize hsz : 2 ^ (getWidth * q) = size at *
  have hsize : size ≤ 2 ^ 63 := by rw [← hsz]; exact Nat.pow_le_pow_right (by omega) (by omega)
  -- the tables of the model
  let counts := codes.foldl bump1 (List.replicate (size + 1) 0)
  let m := counts.map (fun a => if a > mc then 0 else a)
  let address := prescan 0 m
  have hcl : counts.length = size + 1 := by simp [counts, length_foldl_bump1]
  have hml : m.length = size + 1 := by simp [m, hcl]
  have hcounts : ∀ j, counts.getD j 0 = codes.count j := by
    intro j
    have := getD_foldl_bump1 codes (List.replicate (size + 1) 0)
      (by intro x hx; have := hcodes x hx; simp; omega) j
    rw [getD_replicate_zero] at this
    simpa [counts] using this
  have hm : ∀ j, j < size + 1 → m.getD j 0 = if codes.count j > mc then 0 else codes.count j := by
    intro j hj
    simp only [m, List.getD_eq_getElem?_getD, List.getElem?_map]
    have : counts[j]? = some (counts.getD j 0) := by
      rw [List.getD_eq_getElem?_getD, List.getElem?_eq_getElem (by omega)]; simp
    rw [this, hcounts j]; rfl
  have haddr : ∀ j, j ≤ size → address.getD j 0 = (m.take j).sum := by
    intro j hj
    have := getD_prescan 0 m j (by omega)
    simpa [address] using this
  have hmc : ∀ j, j < size → m.getD j 0 = 0 ∨ m.getD j 0 = codes.count j := by
    intro j hj; rw [hm j (by omega)]; split
    · left; rfl
    · right; rfl
  have hal : address.length = size + 1 := by simp [address, length_prescan, hml]
  have hlast : address.getLastD 0 = (m.take size).sum := by
    rw [getLastD_eq_getD address size hal, haddr size (Nat.le_refl _)]
  have hcsum : counts.sum = codes.length := by
    have := sum_foldl_bump1 codes (List.replicate (size + 1) 0) (by intro x hx; have := hcodes x hx; simp; omega)
    rw [sum_replicate_zero] at this
    simpa [counts] using this
  have hmsum : m.sum ≤ codes.length := by rw [← hcsum]; exact sum_map_mask_le mc counts
  have hinit : FillInv m size [] (List.replicate (address.getLastD 0) 0, List.replicate size 0) := by
    refine ⟨?_, List.length_replicate, fun j _ _ => ?_⟩
    · show (List.replicate (address.getLastD 0) 0).length = _
      rw [List.length_replicate, hlast]
    · simp only [posFrom, List.length_nil]
      exact ⟨getD_replicate_zero _ _, fun t ht => absurd ht (Nat.not_lt_zero _)⟩
  -- the translated statements, one by one
  have c0 : Rs.cast 32 getWidth = getWidth := by unfold Rs.cast; exact Nat.mod_eq_of_lt hw
  have c1 : Rs.mul 32 getWidth q = Res.ok (getWidth * q) := Rs.mul_ok (by omega)
  have c2 : Rs.checkedShl 64 1 (getWidth * q) = some size := by
    unfold Rs.checkedShl
    have h2 : 2 ^ (getWidth * q) < 2 ^ 64 := Nat.pow_lt_pow_right (by omega) hbq
    simp only [hbq, if_true, Nat.shiftLeft_eq, Nat.one_mul, Nat.mod_eq_of_lt h2]
    rw [hsz]
  have c3 : Rs.add 64 size 1 = Res.ok (size + 1) := Rs.add_ok (by omega)
  have c4 := for1_eq rankNew getWidth qgramsOf prescanAdd codes (List.replicate (size + 1) 0)
    (by intro x hx; have := hcodes x hx; simp; omega) (by intro j; rw [getD_replicate_zero]; omega)
  have c5 := for2_eq rankNew getWidth qgramsOf prescanAdd mc counts []
  have c6 : prescanAdd m 0 = Res.ok address := hps m (by omega)
  have c7 : address.getLast? = some (address.getLastD 0) := by
    cases hA : address with
    | nil => rw [hA] at hal; simp at hal
    | cons a t => simp [List.getLast?_cons, List.getLastD_cons]
  have c8 := for3_eq rankNew getWidth qgramsOf prescanAdd m size address codes hal haddr hmc hcodes (by omega)
    (by have := sum_take_le m size; omega) codes [] _ (by simp) hinit
  simp only [List.length_nil] at c8
  simp only [List.nil_append] at c5
  have c4' : withMaxCount_for1 rankNew getWidth qgramsOf prescanAdd codes (List.replicate (size + 1) 0)
      = Res.ok counts := c4
  have c5' : counts.foldlM (withMaxCount_for2 rankNew getWidth qgramsOf prescanAdd mc) [] = Res.ok m := c5
  have c8' : withMaxCount_for3 rankNew getWidth qgramsOf prescanAdd address (codes.zipIdx)
      (List.replicate (address.getLastD 0) 0, List.replicate size 0)
      = Res.ok (fill address 0 codes (List.replicate (address.getLastD 0) 0, List.replicate size 0)) := c8
  show withMaxCount rankNew getWidth qgramsOf prescanAdd q text alphabet mc
      = Res.ok (q, address, (fill address 0 codes (List.replicate (address.getLastD 0) 0, List.replicate size 0)).1,
          rankNew alphabet)
  unfold withMaxCount
  simp only [hcd, c0, c1, c2, c3, Rs.expect, Res.ok_bind, Res.pure_eq_ok, c4', c5', c6, c7, c8']

end

/-- the tables of the model: `address` has `size + 1` slots, is monotone, and its last value is the length of `pos` -/
theorem buildIndex_bounds (size mc : Nat) (codes : List Nat) (hcodes : ∀ c ∈ codes, c < size) (c : Nat) (hc : c < size) :
    (buildIndex size mc codes).1.length = size + 1 ∧
    (buildIndex size mc codes).1.getD c 0 ≤ (buildIndex size mc codes).1.getD (c + 1) 0 ∧
    (buildIndex size mc codes).1.getD (c + 1) 0 ≤ (buildIndex size mc codes).2.length := by
  let counts := codes.foldl bump1 (List.replicate (size + 1) 0)
  let m := counts.map (fun a => if a > mc then 0 else a)
  let address := prescan 0 m
  have hcl : counts.length = size + 1 := by simp [counts, length_foldl_bump1]
  have hml : m.length = size + 1 := by simp [m, hcl]
  have hcounts : ∀ j, counts.getD j 0 = codes.count j := by
    intro j
    have := getD_foldl_bump1 codes (List.replicate (size + 1) 0)
      (by intro x hx; have := hcodes x hx; simp; omega) j
    rw [getD_replicate_zero] at this
    simpa [counts] using this
  have hm : ∀ j, j < size + 1 → m.getD j 0 = if codes.count j > mc then 0 else codes.count j := by
    intro j hj
    simp only [m, List.getD_eq_getElem?_getD, List.getElem?_map]
    have : counts[j]? = some (counts.getD j 0) := by
      rw [List.getD_eq_getElem?_getD, List.getElem?_eq_getElem (by omega)]; simp
    rw [this, hcounts j]; rfl
  have haddr : ∀ j, j ≤ size → address.getD j 0 = (m.take j).sum := by
    intro j hj
    have := getD_prescan 0 m j (by omega)
    simpa [address] using this
  have hmc : ∀ j, j < size → m.getD j 0 = 0 ∨ m.getD j 0 = codes.count j := by
    intro j hj; rw [hm j (by omega)]; split
    · left; rfl
    · right; rfl
  have hal : address.length = size + 1 := by simp [address, length_prescan, hml]
  have hlast : address.getLastD 0 = (m.take size).sum := by
    rw [getLastD_eq_getD address size hal, haddr size (Nat.le_refl _)]
  have hinit : FillInv m size [] (List.replicate (address.getLastD 0) 0, List.replicate size 0) := by
    refine ⟨?_, List.length_replicate, fun j _ _ => ?_⟩
    · show (List.replicate (address.getLastD 0) 0).length = _
      rw [List.length_replicate, hlast]
    · simp only [posFrom, List.length_nil]
      exact ⟨getD_replicate_zero _ _, fun t ht => absurd ht (Nat.not_lt_zero _)⟩
  obtain ⟨hl1, _, _⟩ := fillInv_fill m size address codes haddr hmc hcodes codes [] _ (by simp) hinit
  simp only [List.length_nil] at hl1
  refine ⟨hal, ?_, ?_⟩
  · show address.getD c 0 ≤ address.getD (c + 1) 0
    rw [haddr c (by omega), haddr (c + 1) (by omega)]
    exact sum_take_mono m (by omega)
  · show address.getD (c + 1) 0
        ≤ (fill address 0 codes (List.replicate (address.getLastD 0) 0, List.replicate size 0)).1.length
    rw [hl1, haddr (c + 1) (by omega)]
    exact sum_take_mono m (by omega)

/-- **`qgram_matches` as written in the source** = the model's slice of `pos`, on the tables `with_max_count` builds: the
two reads of `address` and the slice `pos[a..b]` are in range -/
theorem qgramMatches_eq_model {αβ ρ τ : Type} (rankNew : αβ → ρ) (getWidth : Nat) (qgramsOf : Nat → τ → List Nat)
    (size mc : Nat) (codes : List Nat) (hcodes : ∀ c ∈ codes, c < size) (hs : size + 1 < 2 ^ 64) (c : Nat) (hc : c < size) :
    qgramMatches rankNew getWidth qgramsOf (buildIndex size mc codes).1 (buildIndex size mc codes).2 c
      = Res.ok (qgramMatchesModel (buildIndex size mc codes) c) := by
  obtain ⟨h1, h2, h3⟩ := buildIndex_bounds size mc codes hcodes c hc
  have e1 : Rs.idx (buildIndex size mc codes).1 c = Res.ok ((buildIndex size mc codes).1.getD c 0) :=
    idx_getD _ c 0 (by omega)
  have e2 : Rs.add 64 c 1 = Res.ok (c + 1) := Rs.add_ok (by omega)
  have e3 : Rs.idx (buildIndex size mc codes).1 (c + 1) = Res.ok ((buildIndex size mc codes).1.getD (c + 1) 0) :=
    idx_getD _ (c + 1) 0 (by omega)
  have e2' : Rs.add 64 1 c = Res.ok (c + 1) := add_ok' (by omega)
  have e4 := Rs.slice_ok (l := (buildIndex size mc codes).2) h2 h3
  simp only [qgramMatches, e1, e2, e2', e3, e4, Res.ok_bind, Res.pure_eq_ok, qgramMatchesModel]

/-- every reference code of a text over the alphabet is below the table size `2^(bits·q)` -/
theorem fwdCodes_lt (alpha : List Nat) (q : Nat) (text : List Nat) (ht : ∀ c ∈ text, c ∈ alpha) :
    ∀ c ∈ fwdCodes alpha q text, c < 2 ^ (bitsFor alpha.length * q) := by
  have fits : ∀ c ∈ alpha, rank alpha c < 2 ^ bitsFor alpha.length :=
    fun c hc => Nat.lt_of_lt_of_le (rank_lt_length hc) (le_two_pow_bitsFor _)
  intro c hc
  obtain ⟨i, hi⟩ := List.getElem?_of_mem hc
  rw [getElem?_fwdCodes] at hi
  split at hi
  · rename_i hlt
    simp only [Option.some.injEq] at hi
    rw [← hi]
    have hi' : i + q ≤ text.length := by omega
    have := code_lt (bitsFor alpha.length) ((window q text i).map (rank alpha))
      (by intro r hr; rcases List.mem_map.mp hr with ⟨c, hc, rfl⟩
          exact fits c (ht c (List.mem_of_mem_drop (List.mem_of_mem_take hc))))
    simpa [window_length hi'] using this
  · cases hi

theorem fwdCodes_length_le (alpha : List Nat) (q : Nat) (text : List Nat) :
    (fwdCodes alpha q text).length ≤ text.length + 1 := by
  simp [fwdCodes, windows]

end RbV.Thm.GenSrcQGramIndex
