import RbV.Gen.SrcOcc
import RbV.Model.OccTable
import RbV.Thm.GenSrcBasic
import RbV.Thm.GenSrcTactics
/-!
# The translated text of `Occ::new` / `Occ::get` (bwt.rs) equals the mirror models `OccM.occTable` / `OccM.occGet`

`RbV/Gen/SrcOcc.lean` is regenerated from `src/data_structures/bwt.rs` by `tools/rs2lean.py` on every `./check C04|C05`.

`Occ::new`: the alphabet is an opaque value; `alphabet.max_symbol()`, `alphabet.symbols.iter().collect::<Vec<usize>>()`
and `alphabet.is_word(b"$")` are abstract functions of it (parameters `maxSymbol`, `symbols`, `isWordDollar` of the
generated definition).  The theorem is stated for every such triple: the tracked symbols are `symbols alphabet`, plus
`$` = 36 when it is below the table size and `isWordDollar` says it is missing.  Hypotheses = what keeps the Rust code
from panicking: a non-empty alphabet (`max_symbol` is `Some`), `k ≥ 1` (`n / k`, `i % k`), every BWT symbol and every
tracked symbol at most the maximal symbol (`curr_occ[c]`, `occ[a]`), `n < 2^64` (`+= 1`).

`Occ::get`: `bytecount::count` is an abstract function (parameter `count`), instantiated with `List.count`.
-/
-- the simp sets name every fact a harmless rewrite of the Rust text may need; on the pinned text some are unused
set_option linter.unusedSimpArgs false

namespace RbV.Thm.GenSrcOcc
open RbV RbV.Rs RbV.Gen.SrcOcc RbV.Thm.GenSrc RbV.OccM

/-! ### `Occ::new` -/

theorem modify_eq_set {α : Type} (l : List α) (i : Nat) (f : α → α) (h : i < l.length) :
    l.modify i f = l.set i (f l[i]) := by
  apply List.ext_getElem?
  intro j
  rw [List.getElem?_modify, List.getElem?_set]
  by_cases hij : i = j
  · subst hij; simp [h]
  · simp [hij]

theorem bump_eq_set (cur : List Nat) (c : Nat) (h : c < cur.length) : bump cur c = cur.set c (cur[c] + 1) :=
  modify_eq_set cur c _ h

theorem length_bump (cur : List Nat) (c : Nat) : (bump cur c).length = cur.length := by simp [bump]

theorem length_pushAll (cur alpha : List Nat) (occ : List (List Nat)) : (pushAll cur alpha occ).length = occ.length := by
  unfold pushAll
  induction alpha generalizing occ with
  | nil => rfl
  | cons a as ih => rw [List.foldl_cons, ih]; simp

/-- the symbols whose columns `Occ::new` fills: the alphabet's, plus `$` when it fits the table and is missing -/
def alphaOf (syms : List Nat) (isw : Bool) (m : Nat) : List Nat := if 36 < m ∧ isw = false then syms ++ [36] else syms

variable {Alph : Type} (maxSymbol : Alph → Option Nat) (symbols : Alph → List Nat) (isWordDollar : Alph → Bool)

/-- `for &a in &alpha { occ[a].reserve(n / k as usize); }` has no effect (and does not panic for `k ≥ 1`, `a < m`) -/
theorem reserve_loop_eq (occ : List (List Nat)) (n k : Nat) (hk : 0 < k) :
    ∀ alpha : List Nat, (∀ a ∈ alpha, a < occ.length) →
      alpha.foldlM (new_for1 maxSymbol symbols isWordDollar occ n k) () = Res.ok () := by
  intro alpha
  induction alpha with
  | nil => intro _; rfl
  | cons a as ih =>
    intro h
    have ha : a < occ.length := h a (by simp)
    have e1 : Rs.idx occ a = Res.ok occ[a] := Rs.idx_ok ha
    have e2 : Rs.div n k = Res.ok (n / k) := Rs.div_ok hk
    have hstep : new_for1 maxSymbol symbols isWordDollar occ n k () a = Res.ok () := by
      simp [new_for1, e1, e2]
    rw [List.foldlM_cons, hstep, Res.ok_bind]
    exact ih (fun b hb => h b (List.mem_cons_of_mem _ hb))

/-- `for &a in &alpha { occ[a].push(curr_occ[a]); }` is the model's `pushAll` -/
theorem push_loop_eq (cur : List Nat) :
    ∀ (alpha : List Nat) (occ : List (List Nat)), (∀ a ∈ alpha, a < occ.length ∧ a < cur.length) →
      alpha.foldlM (new_for3 maxSymbol symbols isWordDollar cur) occ = Res.ok (pushAll cur alpha occ) := by
  intro alpha
  induction alpha with
  | nil => intro occ _; rfl
  | cons a as ih =>
    intro occ h
    obtain ⟨h1, h2⟩ := h a (by simp)
    have e1 : Rs.idx cur a = Res.ok (cur.getD a 0) := idx_getD cur a 0 h2
    have e2 : Rs.idx occ a = Res.ok occ[a] := Rs.idx_ok h1
    have e3 : ∀ v, Rs.setIdx occ a v = Res.ok (occ.set a v) := fun v => Rs.setIdx_ok h1
    have hstep : new_for3 maxSymbol symbols isWordDollar cur occ a
        = Res.ok (occ.modify a (· ++ [cur.getD a 0])) := by
      rw [modify_eq_set occ a _ h1]
      simp [new_for3, e1, e2, e3]
    rw [List.foldlM_cons, hstep, Res.ok_bind, ih _ (fun b hb => by
      have := h b (List.mem_cons_of_mem _ hb)
      simpa using this)]
    simp [pushAll]

/-- one round of `for (i, &c) in bwt.iter().enumerate()` is one step of the model's `occTableGo` -/
theorem step_eq (k : Nat) (alpha cur : List Nat) (occ : List (List Nat)) (c i : Nat) (hk : 0 < k)
    (hc : c < cur.length) (hb : ∀ v ∈ cur, v ≤ i) (hi : i + 1 < 2 ^ 64)
    (ha : ∀ a ∈ alpha, a < occ.length ∧ a < cur.length) :
    new_for2 maxSymbol symbols isWordDollar k alpha (cur, occ) (c, i)
      = Res.ok (bump cur c, if i % k = 0 then pushAll (bump cur c) alpha occ else occ) := by
  have hle : cur[c] ≤ i := hb _ (List.getElem_mem hc)
  have e1 : Rs.idx cur c = Res.ok cur[c] := Rs.idx_ok hc
  have e2 : Rs.add 64 cur[c] 1 = Res.ok (cur[c] + 1) := Rs.add_ok (by omega)
  have e3 : ∀ v, Rs.setIdx cur c v = Res.ok (cur.set c v) := fun v => Rs.setIdx_ok hc
  have e4 : Rs.rem i k = Res.ok (i % k) := Rs.rem_ok hk
  have e5 := push_loop_eq maxSymbol symbols isWordDollar (bump cur c) alpha occ
    (fun a h => by rw [length_bump]; exact ha a h)
  rw [bump_eq_set cur c hc] at e5 ⊢
  have e2' : Rs.add 64 1 cur[c] = Res.ok (cur[c] + 1) := by rw [Nat.add_comm]; exact Rs.add_ok (by omega)
  by_cases hm : i % k = 0
  · simp [new_for2, e1, e2, e2', e3, e4, e5, hm]
  · have hm' : ¬ 0 = i % k := fun h => hm h.symm
    simp [new_for2, e1, e2, e2', e3, e4, hm, hm']

/-- the translated main loop of `Occ::new` is the model's `occTableGo` -/
theorem main_loop_eq (k : Nat) (alpha : List Nat) (m : Nat) (hk : 0 < k) (ha : ∀ a ∈ alpha, a < m) :
    ∀ (xs : List Nat) (i : Nat) (cur : List Nat) (occ : List (List Nat)),
      cur.length = m → occ.length = m → (∀ x ∈ xs, x < m) → (∀ v ∈ cur, v ≤ i) → i + xs.length < 2 ^ 64 →
      (xs.zipIdx i).foldlM (new_for2 maxSymbol symbols isWordDollar k alpha) (cur, occ)
        = Res.ok (occTableGo k alpha xs i (cur, occ)) := by
  intro xs
  induction xs with
  | nil => intro i cur occ _ _ _ _ _; rfl
  | cons x xs ih =>
    intro i cur occ hcur hocc hx hb hi
    have hxm : x < cur.length := by rw [hcur]; exact hx x (by simp)
    simp only [List.length_cons] at hi
    rw [List.zipIdx_cons, List.foldlM_cons,
      step_eq maxSymbol symbols isWordDollar k alpha cur occ x i hk hxm hb (by omega)
        (fun a h => by rw [hcur, hocc]; exact ⟨ha a h, ha a h⟩), Res.ok_bind]
    have hb' : ∀ v ∈ bump cur x, v ≤ i + 1 := by
      intro v hv
      rw [bump_eq_set cur x hxm] at hv
      rcases List.mem_or_eq_of_mem_set hv with h | h
      · exact Nat.le_succ_of_le (hb v h)
      · have := hb _ (List.getElem_mem hxm); omega
    have hocc' : (if i % k = 0 then pushAll (bump cur x) alpha occ else occ).length = m := by
      split
      · rw [length_pushAll]; exact hocc
      · exact hocc
    rw [ih (i + 1) _ _ (by rw [length_bump]; exact hcur) hocc' (fun y hy => hx y (List.mem_cons_of_mem _ hy)) hb'
      (by omega)]
    simp only [occTableGo]

/-- **`Occ::new` as written in the source = the mirror model `occTable`** (the table with one column per symbol value
below `m = max_symbol + 1`; the columns of the tracked symbols filled at the rows `i % k == 0`), returned together
with `k` — for every opaque alphabet, under the hypotheses that keep the Rust code from panicking. -/
theorem new_eq_model (bwt : List Nat) (k : Nat) (alphabet : Alph) (ms : Nat)
    (hms : maxSymbol alphabet = some ms) (hk : 0 < k) (hn : bwt.length < 2 ^ 64) (hms' : ms + 1 < 2 ^ 64)
    (hsym : ∀ x ∈ bwt, x ≤ ms) (hal : ∀ a ∈ symbols alphabet, a ≤ ms) :
    new maxSymbol symbols isWordDollar bwt k alphabet
      = Res.ok (occTable bwt k (alphaOf (symbols alphabet) (isWordDollar alphabet) (ms + 1)) (ms + 1), k) := by
  have e1 : Rs.add 64 ms 1 = Res.ok (ms + 1) := Rs.add_ok hms'
  have hA : ∀ a ∈ alphaOf (symbols alphabet) (isWordDollar alphabet) (ms + 1), a < ms + 1 := by
    intro a h
    unfold alphaOf at h
    split at h
    · rename_i hc
      rcases List.mem_append.mp h with h | h
      · exact Nat.lt_succ_of_le (hal a h)
      · simp at h; omega
    · exact Nat.lt_succ_of_le (hal a h)
  have e2 := reserve_loop_eq maxSymbol symbols isWordDollar (List.replicate (ms + 1) ([] : List Nat)) bwt.length k hk
    (alphaOf (symbols alphabet) (isWordDollar alphabet) (ms + 1)) (by simpa using hA)
  have e3 := main_loop_eq maxSymbol symbols isWordDollar k (alphaOf (symbols alphabet) (isWordDollar alphabet) (ms + 1))
    (ms + 1) hk hA bwt 0 (List.replicate (ms + 1) 0) (List.replicate (ms + 1) []) (by simp) (by simp)
    (fun x hx => Nat.lt_succ_of_le (hsym x hx)) (by simp) (by omega)
  unfold alphaOf at e2 e3 ⊢
  unfold occTable
  by_cases hd : 36 < ms + 1 ∧ isWordDollar alphabet = false
  · simp only [hd, and_self, if_true] at e2 e3 ⊢
    simp [new, hms, e1, hd, e2, e3, -List.foldlM_append]
  · simp only [hd, if_false] at e2 e3 ⊢
    have hd' : ¬ (36 < ms + 1 ∧ isWordDollar alphabet = false) := hd
    simp only [not_and, Bool.not_eq_false] at hd'
    by_cases h36 : 36 < ms + 1
    · simp [new, hms, e1, h36, hd' h36, e2, e3, -List.foldlM_append]
    · simp [new, hms, e1, h36, e2, e3, -List.foldlM_append]

/-! ### `Occ::get` -/

/-- what keeps `Occ::get` from panicking on the checkpoint column `cp` of symbol `a`: the low checkpoint exists, the
forward sum fits a `usize`, and a high checkpoint — when the column has one — lies inside the BWT and is at least the
count that is subtracted from it.  All of it holds for the table built by `Occ::new` (`getSafe_occNew`). -/
structure GetSafe (cp bwt : List Nat) (k r a : Nat) : Prop where
  lo : r / k < cp.length
  fwd : cnt bwt (r / k * k + 1) r a + cp.getD (r / k) 0 < 2 ^ 64
  hi : ∀ hiOcc, cp[r / k + 1]? = some hiOcc →
    (r / k + 1) * k < bwt.length ∧ cnt bwt (r + 1) ((r / k + 1) * k) a ≤ hiOcc

/-- the table built by `Occ::new` satisfies `GetSafe` at every row -/
theorem getSafe_occNew (bwt : List Nat) (k r a : Nat) (hk : 0 < k) (hr : r < bwt.length) (hn : bwt.length < 2 ^ 64) :
    GetSafe (occNew bwt k a) bwt k r a := by
  have hlok : r / k * k ≤ r := Nat.div_mul_le_self r k
  have hr2 : r < (r / k + 1) * k := by
    have := Nat.lt_mul_div_succ r hk
    rw [Nat.mul_comm]; exact this
  have hle : ∀ q, occRef bwt q a ≤ bwt.length := by
    intro q
    unfold occRef
    exact Nat.le_trans List.count_le_length (by simp; omega)
  refine ⟨?_, ?_, ?_⟩
  · unfold occNew
    simp only [List.length_map, List.length_range]
    rw [Nat.lt_div_iff_mul_lt hk]
    omega
  · rw [getD_occNew bwt k a (r / k) hk (by omega)]
    have := occRef_split bwt (r / k * k) r a hlok
    have := hle r
    omega
  · intro hiOcc h
    have hv := getElem?_occNew bwt k a (r / k + 1) hiOcc h
    have hlt : r / k + 1 < (occNew bwt k a).length := (List.getElem?_eq_some_iff.mp h).1
    unfold occNew at hlt
    simp only [List.length_map, List.length_range] at hlt
    rw [Nat.lt_div_iff_mul_lt hk] at hlt
    refine ⟨by omega, ?_⟩
    have := occRef_split bwt r ((r / k + 1) * k) a (by omega)
    omega

theorem cnt_empty (bwt : List Nat) (lo hi c : Nat) (h : hi + 1 ≤ lo) : cnt bwt lo hi c = 0 := by
  unfold cnt
  have : hi + 1 - lo = 0 := by omega
  simp [this]

/-- **translated `Occ::get` on a table whose column `a` is the checkpoint table = the specification** `occRef`.
The proof does not follow the branch structure of the text: it supplies the facts the true table provides (the low
checkpoint holds `occRef (lo·k)`, a high checkpoint — if the column has one — lies inside the BWT and holds
`occRef ((lo+1)·k)`, counts over the two slices are differences of `occRef`, every checked operation stays in range)
and lets `rs_paths` walk all paths.  A rewrite that keeps the property (other threshold, other rule for choosing the
checkpoint to count from, an extra early exit on sampled rows) is re-proved; a wrong slice bound or a checkpoint read
that can go out of range is not. -/
theorem get_exact_of_table (occ : List (List Nat)) (k : Nat) (bwt : List Nat) (r a : Nat)
    (hcp : occ[a]? = some (occNew bwt k a)) (hk : 0 < k) (hk32 : k < 2 ^ 32) (hr : r < bwt.length)
    (hn : bwt.length < 2 ^ 64) :
    get (fun s c => s.count c) occ k bwt r a = Res.ok (occRef bwt r a) := by
  have hs := getSafe_occNew bwt k r a hk hr hn
  obtain ⟨hlo, hfwd, hhi⟩ := hs
  have hlok : r / k * k ≤ r := Nat.div_mul_le_self r k
  have hr2 : r < r / k * k + k := by
    have := Nat.lt_mul_div_succ r hk
    rw [Nat.mul_comm, Nat.add_mul, Nat.one_mul] at this; exact this
  have hdk : r / k ≤ r := Nat.div_le_self r k
  have hcomm : k * (r / k) = r / k * k := Nat.mul_comm _ _
  have hL : (occNew bwt k a).getD (r / k) 0 = occRef bwt (r / k * k) a := getD_occNew bwt k a (r / k) hk (by omega)
  have hLR0 := occRef_split bwt (r / k * k) r a hlok
  have hLR : occRef bwt r a ≤ occRef bwt (r / k * k) a + cnt bwt (r / k * k + 1) r a ∧
      occRef bwt (r / k * k) a + cnt bwt (r / k * k + 1) r a ≤ occRef bwt r a := by omega
  clear hLR0
  have hz : r = r / k * k → cnt bwt (r / k * k + 1) r a = 0 := fun h => cnt_empty _ _ _ _ (by omega)
  have hRn : occRef bwt r a ≤ bwt.length := by
    unfold occRef; exact Nat.le_trans List.count_le_length (by simp; omega)
  have e2 : Rs.idx occ a = Res.ok (occNew bwt k a) := Rs.idx_of_getElem? hcp
  have e3 : Rs.idx (occNew bwt k a) (r / k) = Res.ok (occRef bwt (r / k * k) a) := by
    rw [← hL]; exact idx_getD _ (r / k) 0 hlo
  obtain ⟨S1, e7, hS1⟩ : ∃ S, Rs.sliceIncl bwt (r / k * k + 1) r = Res.ok S ∧ S.count a = cnt bwt (r / k * k + 1) r a :=
    ⟨_, Rs.sliceIncl_ok (by omega) hr, rfl⟩
  have e7' : Rs.slice bwt (r / k * k + 1) (r + 1) = Res.ok S1 := by
    rw [Rs.sliceIncl_ok (by omega) hr] at e7
    rw [Rs.slice_ok (by omega) (by omega)]; exact e7
  have hhi' : ∀ v, (occNew bwt k a)[r / k + 1]? = some v →
      r / k * k + k < bwt.length ∧ (v ≤ occRef bwt r a + cnt bwt (r + 1) (r / k * k + k) a ∧
        occRef bwt r a + cnt bwt (r + 1) (r / k * k + k) a ≤ v) ∧
      ∃ S, Rs.sliceIncl bwt (r + 1) (r / k * k + k) = Res.ok S ∧ Rs.slice bwt (r + 1) (r / k * k + k + 1) = Res.ok S ∧
        S.count a = cnt bwt (r + 1) (r / k * k + k) a := by
    intro v h
    obtain ⟨hin, _⟩ := hhi v h
    have hv := getElem?_occNew bwt k a (r / k + 1) v h
    rw [Nat.add_mul, Nat.one_mul] at hin hv
    refine ⟨hin, ?_, _, Rs.sliceIncl_ok (by omega) hin, ?_, rfl⟩
    · rw [hv]; have := occRef_split bwt r (r / k * k + k) a (by omega); omega
    · rw [Rs.slice_ok (by omega) (by omega)]
  have e1 : Rs.div r k = Res.ok (r / k) := Rs.div_ok hk
  have e5 : Rs.mul 64 (r / k) k = Res.ok (r / k * k) := Rs.mul_ok (by omega)
  have e5' : Rs.mul 64 k (r / k) = Res.ok (r / k * k) := by rw [hcomm.symm]; exact Rs.mul_ok (by omega)
  have hhi'' : ∀ v, (occNew bwt k a)[r / k + 1]? = some v →
      Rs.mul 64 (r / k + 1) k = Res.ok (r / k * k + k) ∧ Rs.mul 64 k (r / k + 1) = Res.ok (r / k * k + k) := by
    intro v h
    obtain ⟨hin, _⟩ := hhi' v h
    have h1 : (r / k + 1) * k = r / k * k + k := by rw [Nat.add_mul, Nat.one_mul]
    have h2 : k * (r / k + 1) = r / k * k + k := by rw [Nat.mul_comm, h1]
    exact ⟨by rw [← h1]; exact Rs.mul_ok (by omega), by rw [← h2]; exact Rs.mul_ok (by omega)⟩
  clear hhi hfwd hlo hcp hL hcomm
  generalize cnt bwt (r / k * k + 1) r a = C1 at *
  generalize occRef bwt (r / k * k) a = L at *
  generalize occRef bwt r a = R at *
  generalize occNew bwt k a = cp at *
  generalize r / k * k = Lo at *
  generalize r / k = q at *
  cases hc1 : cp[q + 1]? with
  | none =>
    clear hhi' hhi''
    rs_paths [Gen.SrcOcc.get, hc1, e1, e2, e3, e5, e5', e7, e7', hS1]
  | some v =>
    obtain ⟨hin, hv, S2, e12, e12', hS2⟩ := hhi' v hc1
    obtain ⟨e11, e11'⟩ := hhi'' v hc1
    clear hhi' hhi''
    generalize cnt bwt (r + 1) (Lo + k) a = C2 at *
    rs_paths [Gen.SrcOcc.get, hc1, e1, e2, e3, e5, e5', e7, e7', hS1, e11, e11', e12, e12', hS2]

theorem alphaOf_nodup (syms : List Nat) (isw : Bool) (m : Nat) (hnd : syms.Nodup) (hw : isw = false → 36 ∉ syms) :
    (alphaOf syms isw m).Nodup := by
  unfold alphaOf
  split
  · rename_i h
    rw [List.nodup_append]
    refine ⟨hnd, by simp, ?_⟩
    intro x hx y hy
    simp at hy
    subst hy
    exact fun e => hw h.2 (e ▸ hx)
  · exact hnd

/-- **translated `Occ::get` on the table of the translated `Occ::new` = the specification** `occRef` (number of `a` in
`bwt[0..=r]`), for every sampling rate `k ≥ 1`, every row and every tracked symbol. -/
theorem get_new_exact (bwt : List Nat) (k : Nat) (alphabet : Alph) (ms : Nat)
    (hms : maxSymbol alphabet = some ms) (hk : 0 < k) (hk32 : k < 2 ^ 32) (hn : bwt.length < 2 ^ 64)
    (hms' : ms + 1 < 2 ^ 64) (hsym : ∀ x ∈ bwt, x ≤ ms) (hal : ∀ a ∈ symbols alphabet, a ≤ ms)
    (hnd : (symbols alphabet).Nodup) (hw : isWordDollar alphabet = false → 36 ∉ symbols alphabet)
    (a r : Nat) (ha : a ∈ alphaOf (symbols alphabet) (isWordDollar alphabet) (ms + 1)) (hr : r < bwt.length) :
    ∃ tbl k', new maxSymbol symbols isWordDollar bwt k alphabet = Res.ok (tbl, k') ∧
      get (fun s c => s.count c) tbl k' bwt r a = Res.ok (occRef bwt r a) := by
  refine ⟨_, _, new_eq_model maxSymbol symbols isWordDollar bwt k alphabet ms hms hk hn hms' hsym hal, ?_⟩
  have ham : a < ms + 1 := by
    unfold alphaOf at ha
    split at ha
    · rcases List.mem_append.mp ha with h | h
      · exact Nat.lt_succ_of_le (hal a h)
      · simp at h; omega
    · exact Nat.lt_succ_of_le (hal a ha)
  have hcol := occTable_col bwt k _ (ms + 1) a ha (alphaOf_nodup _ _ _ hnd hw) ham
  rw [occNewLoop_eq bwt k a hk] at hcol
  exact get_exact_of_table _ k bwt r a hcol hk hk32 hr hn

end RbV.Thm.GenSrcOcc
