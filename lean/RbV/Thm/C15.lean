import RbV.Lemmas.C15b
import RbV.Lemmas.C15c
import RbV.Lemmas.C15Gen
import RbV.Thm.GenSrcProbs
import RbV.Thm.GenSrcFastExp
import RbV.Thm.GenSrcProbsQuad
/-!
# C15 — log-space probability arithmetic agrees with linear-space arithmetic (real-number theorems, PARTIAL)

Model: `RbV/Lemmas/C15.lean`, `C15b.lean` (Mathlib; proof side only).  `LP = Option ℝ` with `none = ln 0`;
`lin` = linear-space image; the algorithms of `src/stats/probs/mod.rs` are transcribed with the exponential
they use as a parameter `E`.  `ApproxExp E δ` (`|E x − eˣ| ≤ δ·eˣ` for `x ≤ 0`) is the accuracy hypothesis on
`fastexp`; it is **measured** by the correspondence run (δ ≤ 10⁻⁵ observed), not proved.  `f64` rounding is not
modelled.  What is proved, for all operands:

* exactness of every formula when `E = exp` (the max-shift, `ln_1p`, both branches of `ln_1m_exp`, the guards for
  `ln 0` are right), and
* propagation of the approximation error: at most `δ` times the smaller operand (`add`), the sum of the
  operands (`sum`, `cumsum` – in fact the non-maximal ones), the subtrahend (`sub`, `1 − p`); with `δ ≤ 0.005` this
  is the "0.5 % of the largest operand" of the property.
-/
namespace RbV.Thm.C15
open RbV.C15 Real

/-! ### addition -/

/-- exact exponential: `ln_add_exp` computes `log(eᵃ + eᵇ)`, including the `ln 0` cases -/
theorem ln_add_exp_exact (a b : LP) : lin (lnAddExp exp a b) = lin a + lin b :=
  lnAddExp_exact a b

/-- approximate exponential with relative error `δ`: the linear-space error is at most `δ · min(eᵃ, eᵇ)` -/
theorem ln_add_exp_error (E : ℝ → ℝ) (δ : ℝ) (h : ApproxExp E δ) (hδ : δ < 1) (a b : LP) :
    |lin (lnAddExp E a b) - (lin a + lin b)| ≤ δ * min (lin a) (lin b) :=
  lnAddExp_error h hδ a b

/-- … hence within 0.5 % of the largest operand as soon as `δ ≤ 0.005` -/
theorem ln_add_exp_half_percent (E : ℝ → ℝ) (δ : ℝ) (h : ApproxExp E δ) (hδ : δ ≤ 0.005) (a b : LP) :
    |lin (lnAddExp E a b) - (lin a + lin b)| ≤ 0.005 * max (lin a) (lin b) := by
  have h1 := lnAddExp_error h (by linarith) a b
  have h2 : δ * min (lin a) (lin b) ≤ 0.005 * max (lin a) (lin b) :=
    mul_le_mul hδ (le_trans (min_le_left _ _) (le_max_left _ _)) (le_min (lin_nonneg a) (lin_nonneg b)) (by norm_num)
  linarith

/-- `ln 0` is neutral on both sides, for every `E` (no NaN can arise: the result is an operand) -/
theorem ln_add_exp_neutral (E : ℝ → ℝ) (a : LP) : lnAddExp E a none = a ∧ lnAddExp E none a = a := by
  cases a <;> simp [lnAddExp]

/-! ### n-ary and cumulative sums -/

theorem ln_sum_exp_exact (l : List LP) : lin (lnSumExp exp l) = (l.map lin).sum :=
  lnSumExp_exact l

theorem ln_sum_exp_error (E : ℝ → ℝ) (δ : ℝ) (h : ApproxExp E δ) (hδ : δ < 1) (l : List LP) :
    |lin (lnSumExp E l) - (l.map lin).sum| ≤ δ * (l.map lin).sum :=
  lnSumExp_error h hδ l

/-- the empty list and lists of `ln 0` entries sum to `ln 0` -/
theorem ln_sum_exp_zero (E : ℝ → ℝ) (l : List LP) (h : ∀ a ∈ l, a = none) : lnSumExp E l = none := by
  have : finites l = [] := by
    induction l with
    | nil => rfl
    | cons a t ih =>
      have ha := h a (List.mem_cons_self ..)
      subst ha
      simpa [finites] using ih (fun b hb => h b (List.mem_cons_of_mem _ hb))
  simp [lnSumExp, this]

/-- every entry `k` of `ln_cumsum_exp` is the exact prefix sum … -/
theorem ln_cumsum_exp_exact (l : List LP) (k : ℕ) (r : LP) (hr : (lnCumsumExp exp l)[k]? = some r) :
    lin r = ((l.take (k + 1)).map lin).sum :=
  lnCumsumExp_exact l k r hr

/-- … and within `δ ·` prefix sum of it with an approximate exponential (errors do not compound beyond that) -/
theorem ln_cumsum_exp_error (E : ℝ → ℝ) (δ : ℝ) (h : ApproxExp E δ) (hδ : δ < 1) (l : List LP) (k : ℕ) (r : LP)
    (hr : (lnCumsumExp E l)[k]? = some r) :
    |lin r - ((l.take (k + 1)).map lin).sum| ≤ δ * ((l.take (k + 1)).map lin).sum :=
  lnCumsumExp_error h hδ l k r hr

/-- the scan yields one output per input -/
theorem ln_cumsum_exp_length (E : ℝ → ℝ) (l : List LP) : (lnCumsumExp E l).length = l.length := by
  unfold lnCumsumExp
  generalize (none : LP) = s
  induction l generalizing s with
  | nil => rfl
  | cons p ps ih => simp [lnCumsumFrom, ih]

/-! ### complement and subtraction -/

/-- both branches of `ln_1m_exp` compute `log(1 − eˣ)`: the `ln_1p(−eˣ)` branch below the switch point … -/
theorem ln_one_minus_exp_fast_branch (x : ℝ) (hx : x < -0.693) :
    ln1mExp exp x = some (log (1 + -(exp x))) ∧ exp (log (1 + -(exp x))) = 1 - exp x := by
  have hx0 : x ≤ 0 := by linarith
  have h := ln1mExp_exact hx0
  have hb : ln1mExp exp x = some (log (1 + -(exp x))) := by simp [ln1mExp, hx]
  refine ⟨hb, ?_⟩
  rw [hb] at h; exact h

/-- … and the `ln(−expm1 x)` branch above it (`x = 0` gives `ln 0`) -/
theorem ln_one_minus_exp_exact_branch (x : ℝ) (hx : -0.693 ≤ x) (hx0 : x < 0) :
    ln1mExp exp x = some (log (-(exp x - 1))) ∧ exp (log (-(exp x - 1))) = 1 - exp x := by
  have h := ln1mExp_exact hx0.le
  have hb : ln1mExp exp x = some (log (-(exp x - 1))) := by simp [ln1mExp, not_lt.mpr hx, hx0.ne]
  refine ⟨hb, ?_⟩
  rw [hb] at h; exact h

theorem ln_one_minus_exp_exact (a : LP) (ha : lin a ≤ 1) : lin (lnOneMinusExp exp a) = 1 - lin a := by
  have := lnOneMinusExp_error approxExp_exp (by norm_num) a ha
  simp only [zero_mul, abs_nonpos_iff, sub_eq_zero] at this
  exact this

theorem ln_one_minus_exp_error (E : ℝ → ℝ) (δ : ℝ) (h : ApproxExp E δ) (hδ : δ ≤ 1 / 2) (a : LP) (ha : lin a ≤ 1) :
    |lin (lnOneMinusExp E a) - (1 - lin a)| ≤ δ * lin a :=
  lnOneMinusExp_error h hδ a ha

theorem ln_sub_exp_exact (a b : LP) (hab : lin b ≤ lin a) : lin (lnSubExp exp a b) = lin a - lin b :=
  lnSubExp_exact a b hab

theorem ln_sub_exp_error (E : ℝ → ℝ) (δ : ℝ) (h : ApproxExp E δ) (hδ : δ ≤ 1 / 2) (a b : LP) (hab : lin b ≤ lin a) :
    |lin (lnSubExp E a b) - (lin a - lin b)| ≤ δ * lin b :=
  lnSubExp_error h hδ a b hab

/-! ### integration helpers: the log-space quadrature sum is the linear-space quadrature sum -/

/-- `ln_sum_exp(terms) + ln(width) − ln(c)` has linear image `(Σ e^{termᵢ}) · width / c`
(trapezoid: terms = `ln f(xᵢ) + ln 2` inside, `ln f(a)`, `ln f(b)`, `c = 2(n−1)`; Simpson: weights 4/2, `c = 3(n−1)`). -/
theorem ln_quadrature_exact (terms : List LP) (r w c : ℝ) (hw : 0 < w) (hc : 0 < c)
    (hr : lnSumExp exp terms = some r) :
    exp (r + log w - log c) = (terms.map lin).sum * w / c := by
  have h := lnSumExp_exact terms
  rw [hr] at h
  have hl : lin (some r) = exp r := rfl
  rw [hl] at h
  rw [exp_sub, exp_add, exp_log hw, exp_log hc, h]

/-- the operand list built by `ln_trapezoidal_integrate_exp` (inner grid points with `+ ln 2`, then the two end
points; `f i` = log-density at grid point `i`, `n ≥ 2` points) sums to the trapezoid weights 1, 2, …, 2, 1 -/
theorem trapezoid_terms_sum (f : ℕ → ℝ) (n : ℕ) :
    ((((List.range (n - 2)).map fun i => (some (f (i + 1) + log 2) : LP)) ++ [some (f 0), some (f (n - 1))]).map lin).sum
      = 2 * ((List.range (n - 2)).map fun i => exp (f (i + 1))).sum + exp (f 0) + exp (f (n - 1)) := by
  simp only [List.map_append, List.map_map, List.sum_append, List.map_cons, List.map_nil, List.sum_cons,
    List.sum_nil, lin]
  have : ((fun a => lin a) ∘ fun i => (some (f (i + 1) + log 2) : LP)) = fun i => 2 * exp (f (i + 1)) := by
    funext i; simp only [Function.comp, lin]; rw [exp_add, exp_log (by norm_num)]; ring
  have h2 : (List.map (lin ∘ fun i => (some (f (i + 1) + log 2) : LP)) (List.range (n - 2))).sum
      = 2 * ((List.range (n - 2)).map fun i => exp (f (i + 1))).sum := by
    rw [show (lin ∘ fun i => (some (f (i + 1) + log 2) : LP)) = fun i => 2 * exp (f (i + 1)) from this]
    rw [List.sum_map_mul_left]
  rw [h2]; ring

/-- Simpson's weights as the code computes them: `(2 + (i % 2) * 2)` is 4 at odd and 2 at even inner grid points -/
theorem simpson_weight (i : ℕ) : (2 + (i % 2) * 2 : ℕ) = if i % 2 = 1 then 4 else 2 := by
  rcases Nat.mod_two_eq_zero_or_one i with h | h <;> simp [h]

/-! ### checked construction and scale factors -/

/-- `Prob::checked` accepts exactly the closed unit interval -/
theorem checked_accepts_iff (p : ℝ) : checked p = some p ↔ p ∈ Set.Icc (0 : ℝ) 1 := by
  unfold checked
  split <;> simp_all [Set.mem_Icc]

theorem checked_rejects_iff (p : ℝ) : checked p = none ↔ p < 0 ∨ 1 < p := by
  unfold checked
  split
  · rename_i h; simp only [reduceCtorEq, false_iff, not_or, not_lt]; exact h
  · rename_i h; simp only [true_iff]; by_contra hc; exact h ⟨by linarith [not_or.mp hc |>.1 |> not_lt.mp], by linarith [not_or.mp hc |>.2 |> not_lt.mp]⟩

/-- **source-extracted obligation** (DESIGN §8): the two scale literals of `src/stats/probs/mod.rs`, extracted from the
source text on *this* run (`RbV/Gen/Scales.lean`; exact rational values of the decimal literals), are inverse to each
other within 10⁻¹⁵ (the driver compares the factors observed through the `From` impls with the `f64` of the same
extracted literals and with ∓10/ln 10) -/
theorem phred_factors_inverse : |LOG_TO_PHRED_FACTOR * PHRED_TO_LOG_FACTOR - 1| < 1 / 10 ^ 15 := by
  unfold LOG_TO_PHRED_FACTOR PHRED_TO_LOG_FACTOR decQ Gen.Scales.logToPhred Gen.Scales.phredToLog
  rw [abs_lt]; constructor <;> norm_num

/-- … and each is within 10⁻¹⁵ resp. 10⁻¹⁶ of the exact factor `−10/ln 10` resp. `−ln 10/10` — **given** the enclosure
`2.30258509299404568 < ln 10 < 2.30258509299404569` (true: ln 10 = 2.302585092994045684…, but not proved here;
Mathlib has no 18-digit bound on `log 10`), hence the `_given_ln10_enclosure` in the name -/
theorem phred_factors_near_exact_given_ln10_enclosure
    (hlo : (2.30258509299404568 : ℝ) < log 10) (hhi : log 10 < (2.30258509299404569 : ℝ)) :
    |(LOG_TO_PHRED_FACTOR : ℝ) - (-10 / log 10)| < 1 / 10 ^ 15 ∧
    |(PHRED_TO_LOG_FACTOR : ℝ) - (-(log 10 / 10))| < 1 / 10 ^ 16 := by
  have hpos : (0 : ℝ) < log 10 := by linarith
  have h1 : (10 : ℝ) / log 10 < 10 / 2.30258509299404568 :=
    div_lt_div_of_pos_left (by norm_num) (by norm_num) hlo
  have h2 : (10 : ℝ) / 2.30258509299404569 < 10 / log 10 :=
    div_lt_div_of_pos_left (by norm_num) hpos hhi
  -- rational facts about the extracted literals (the only place their values enter; no value is pinned)
  have hL : (LOG_TO_PHRED_FACTOR : ℝ) = (Gen.Scales.logToPhred.mant : ℝ) / 10 ^ Gen.Scales.logToPhred.scale := by
    unfold LOG_TO_PHRED_FACTOR decQ; push_cast; rfl
  have hP : (PHRED_TO_LOG_FACTOR : ℝ) = (Gen.Scales.phredToLog.mant : ℝ) / 10 ^ Gen.Scales.phredToLog.scale := by
    unfold PHRED_TO_LOG_FACTOR decQ; push_cast; rfl
  have h3 : (LOG_TO_PHRED_FACTOR : ℝ) + 10 / 2.30258509299404568 < 1 / 10 ^ 15 := by
    rw [hL]; unfold Gen.Scales.logToPhred; norm_num
  have h4 : -(1 / 10 ^ 15 : ℝ) < (LOG_TO_PHRED_FACTOR : ℝ) + 10 / 2.30258509299404569 := by
    rw [hL]; unfold Gen.Scales.logToPhred; norm_num
  have h5 : (PHRED_TO_LOG_FACTOR : ℝ) + 2.30258509299404569 / 10 < 1 / 10 ^ 16 := by
    rw [hP]; unfold Gen.Scales.phredToLog; norm_num
  have h6 : -(1 / 10 ^ 16 : ℝ) < (PHRED_TO_LOG_FACTOR : ℝ) + 2.30258509299404568 / 10 := by
    rw [hP]; unfold Gen.Scales.phredToLog; norm_num
  constructor
  · rw [abs_lt, neg_div]; constructor <;> linarith
  · rw [abs_lt]; constructor <;> linarith

/-- Prob → PHRED → Prob is exact over the reals (`-10·log₁₀ p` written as `-10·(ln p / ln 10)`, `10^y` as `e^{y·ln 10}`) -/
theorem prob_phred_roundtrip (p : ℝ) (hp : 0 < p) : exp (-(-10 * (log p / log 10)) / 10 * log 10) = p := by
  have h10 : log 10 ≠ 0 := (log_pos (by norm_num)).ne'
  have : -(-10 * (log p / log 10)) / 10 * log 10 = log p := by field_simp
  rw [this, exp_log hp]

/-- LogProb → PHRED → LogProb with the exact factors `∓10/ln 10` is the identity -/
theorem logprob_phred_roundtrip (x : ℝ) : x * (-10 / log 10) * (-(log 10 / 10)) = x := by
  have h10 : log 10 ≠ 0 := (log_pos (by norm_num)).ne'
  field_simp

/-! ### the fast exponential: the bit trick is exact, only the polynomial approximates -/

/-- if the polynomial `P` approximates `2^y` on `(-1, 0]` with relative error `δ`, then
`fastexp x = 2^⌈x/ln 2⌉ · P(x/ln 2 − ⌈x/ln 2⌉)` satisfies the accuracy hypothesis `ApproxExp · δ` used by all
error theorems above (so the measured quantity is the accuracy of one polynomial on one unit interval) -/
theorem fastexp_reduction (P : ℝ → ℝ) (δ : ℝ)
    (hP : ∀ y : ℝ, -1 < y → y ≤ 0 → |P y - exp (y * log 2)| ≤ δ * exp (y * log 2)) :
    ApproxExp (fastexpModel P) δ :=
  fastexpModel_approx P δ hP

/-- **source-extracted obligation**: the polynomial with the coefficients `COEFF_0 … COEFF_4` extracted from
`src/utils/fastexp.rs` on this run is exact at both ends of the interval up to 5·10⁻⁶:
`P(0) = COEFF_0 = 1 = 2⁰`, `|P(-1) − 2⁻¹| < 5·10⁻⁶` -/
theorem fastexp_poly_endpoints :
    fastexpPolyGen 0 = 1 ∧ |fastexpPolyGen (-1) - 1 / 2| < 5 / 10 ^ 6 := by
  have e0 := fastexpPolyGen_cast 0
  have e1 := fastexpPolyGen_cast (-1)
  push_cast at e0 e1
  rw [e0, e1]
  have q0 : fastexpPolyGenQ 0 = 1 := by
    unfold fastexpPolyGenQ decQ Gen.Scales.coeff0 Gen.Scales.coeff1 Gen.Scales.coeff2 Gen.Scales.coeff3 Gen.Scales.coeff4
    norm_num
  have q1 : |fastexpPolyGenQ (-1) - 1 / 2| < 5 / 10 ^ 6 := by
    unfold fastexpPolyGenQ decQ Gen.Scales.coeff0 Gen.Scales.coeff1 Gen.Scales.coeff2 Gen.Scales.coeff3 Gen.Scales.coeff4
    rw [abs_lt]; constructor <;> norm_num
  refine ⟨by rw [q0]; norm_num, ?_⟩
  have : |((fastexpPolyGenQ (-1) : ℚ) : ℝ) - 1 / 2| = ((|fastexpPolyGenQ (-1) - 1 / 2| : ℚ) : ℝ) := by push_cast; rfl
  rw [this]
  have h := (Rat.cast_lt (K := ℝ)).mpr q1
  push_cast at h ⊢
  exact h

/-- the generated polynomial is the `fastexpPoly` of the reduction theorem above (`COEFF_0` is 1) -/
theorem fastexp_poly_is_model_poly (y : ℝ) :
    fastexpPolyGen y = fastexpPoly (decR Gen.Scales.coeff1) (decR Gen.Scales.coeff2) (decR Gen.Scales.coeff3)
      (decR Gen.Scales.coeff4) y :=
  fastexpPolyGen_eq (by unfold decQ Gen.Scales.coeff0; norm_num) y

/-- **source-extracted obligation**: the bit trick stays inside the normal `f64` range on the whole domain on which
it is used.  For `MIN_VAL < x ≤ 0` (the guard `if *self > MIN_VAL`; log-probabilities are ≤ 0) the integer
`bits = (ONEBYLOG2 · x) as i64` (truncation towards zero = ceiling for non-positive arguments) satisfies
`1 ≤ bits + OFFSET_F64 ≤ 2046`, so `(bits + OFFSET_F64) << FRACTION_F64` is the bit pattern of the normal number
`2^bits` (exponent field neither 0 = zero/subnormal nor 2047 = inf/NaN); `OFFSET_F64`/`FRACTION_F64` are the IEEE-754
double bias and fraction width. -/
theorem fastexp_exponent_field_in_range (x : ℝ) (hlo : decR Gen.Scales.minVal < x) (hhi : x ≤ 0) :
    1 ≤ ⌈decR Gen.Scales.oneByLog2 * x⌉ + Gen.Scales.offsetF64 ∧
      ⌈decR Gen.Scales.oneByLog2 * x⌉ + Gen.Scales.offsetF64 ≤ 2046 ∧
      Gen.Scales.fractionF64 = 52 ∧ Gen.Scales.offsetF64 = 2 ^ (62 - Gen.Scales.fractionF64) - 1 := by
  -- the only facts about the extracted values that are used (the proof survives any retuning within them):
  -- MIN_VAL ≥ −708, 0 < ONEBYLOG2 ≤ 1.4427 (then ONEBYLOG2·x > −1021.5), OFFSET_F64 = 1023
  have hm : (-708 : ℝ) ≤ decR Gen.Scales.minVal := by rw [decR_eq]; unfold Gen.Scales.minVal; norm_num
  have hc0 : (0 : ℝ) < decR Gen.Scales.oneByLog2 := by rw [decR_eq]; unfold Gen.Scales.oneByLog2; norm_num
  have hc1 : decR Gen.Scales.oneByLog2 ≤ 1.4427 := by rw [decR_eq]; unfold Gen.Scales.oneByLog2; norm_num
  have ho : Gen.Scales.offsetF64 = 1023 := by decide
  rw [ho]
  have hx : (-708 : ℝ) < x := lt_of_le_of_lt hm hlo
  have h1 : (-1022 : ℝ) < decR Gen.Scales.oneByLog2 * x := by nlinarith
  have h2 : decR Gen.Scales.oneByLog2 * x ≤ 0 := mul_nonpos_of_nonneg_of_nonpos hc0.le hhi
  have c1 : (-1022 : ℤ) < ⌈decR Gen.Scales.oneByLog2 * x⌉ := by
    rw [Int.lt_ceil]; push_cast; exact h1
  have c2 : ⌈decR Gen.Scales.oneByLog2 * x⌉ ≤ 0 := by
    rw [Int.ceil_le]; push_cast; exact h2
  refine ⟨by omega, by omega, by decide, by decide⟩

/-! ### non-vacuity -/

example : ApproxExp exp 0 := approxExp_exp
/-- hypotheses of `fastexp_exponent_field_in_range` are satisfiable (x = −499.5, just above the extracted `MIN_VAL`) -/
example : decR Gen.Scales.minVal < (-499.5 : ℝ) ∧ (-499.5 : ℝ) ≤ 0 := by
  rw [decR_eq]; unfold Gen.Scales.minVal; constructor <;> norm_num
/-- a (crude) approximate exponential satisfying the hypothesis with δ = 0.004 -/
example : ApproxExp (fun x => 1.004 * exp x) 0.004 := by
  intro x _
  have : (1.004 : ℝ) * exp x - exp x = 0.004 * exp x := by ring
  rw [this, abs_of_pos (mul_pos (by norm_num) (exp_pos x))]
example : lin (lnAddExp exp (some (log 0.5)) (some (log 0.2))) = 0.7 := by
  rw [ln_add_exp_exact]; simp only [lin]; rw [exp_log (by norm_num), exp_log (by norm_num)]; norm_num
example : lin (lnSumExp exp [none, some 0, none]) = 1 := by rw [ln_sum_exp_exact]; simp [lin]
example : lin (lnSubExp exp (some 0) (some (log 0.5))) = 0.5 := by
  rw [ln_sub_exp_exact _ _ (by simp only [lin]; rw [exp_log (by norm_num), exp_zero]; norm_num)]
  simp only [lin]; rw [exp_log (by norm_num), exp_zero]; norm_num
/-- hypotheses of `ln_cumsum_exp_exact` and `ln_quadrature_exact` are satisfiable -/
example : (lnCumsumExp exp [some 0, none])[1]? = some (some 0) := by
  simp [lnCumsumExp, lnCumsumFrom, lnAddExp]
example : ∃ r, lnSumExp exp [some 0, none] = some r := by
  simp [lnSumExp, finites]
example : checked 0.3 = some 0.3 ∧ checked 1.5 = none ∧ checked (-0.1) = none := by
  refine ⟨(checked_accepts_iff _).mpr ⟨by norm_num, by norm_num⟩, (checked_rejects_iff _).mpr (Or.inr (by norm_num)),
    (checked_rejects_iff _).mpr (Or.inl (by norm_num))⟩

/-! ### the translated source text (`RbV/Gen/SrcProbs.lean`, regenerated from `src/stats/probs/mod.rs` on every run)

`f64` is abstract in the generated definitions; they are read at `xrOps E`: `ℝ ∪ {±∞, NaN}` with exact arithmetic and
`fastexp = E` (`RbV/Lemmas/C15Src.lean`); `emb a` is the model value `a : LP` as such an `f64`.  Statements are at the level
the property determines; the branch-by-branch equalities with `lnAddExp`, `ln1mExp`, `lnSubExp`, `lnCumsumExp` are the soft
module `RbV/Thm/GenSrcProbsModel.lean`.  `dropTol = 10⁻¹⁵`, `dropGap = −37`. -/

/-- the translated `ln_add_exp` returns a finite-or-`ln 0` value that is the model's `lnAddExp`, or — only when the
operands are more than 37 apart in log space — the larger operand -/
theorem ln_add_exp_source_near_model (E : ℝ → ℝ) (hE : GenSrcProbs.PosOn E) (a b : LP) :
    ∃ r : LP, Gen.SrcProbs.ln_add_exp (xrOps E) (emb a) (emb b) = emb r ∧ AddNear E a b r :=
  GenSrcProbs.ln_add_exp_near_model E hE a b

/-- … hence `|exp(result) − (eᵃ + eᵇ)| ≤ δ · min(eᵃ, eᵇ) + 10⁻¹⁵ · max(eᵃ, eᵇ)` -/
theorem ln_add_exp_source_error (E : ℝ → ℝ) (δ : ℝ) (h : ApproxExp E δ) (hδ : δ < 1) (a b r : LP)
    (hr : Gen.SrcProbs.ln_add_exp (xrOps E) (emb a) (emb b) = emb r) :
    |lin r - (lin a + lin b)| ≤ δ * min (lin a) (lin b) + dropTol * max (lin a) (lin b) :=
  GenSrcProbs.ln_add_exp_error E δ h hδ a b r hr

/-- … within 0.5 % of the largest operand as soon as `δ ≤ 0.004` -/
theorem ln_add_exp_source_half_percent (E : ℝ → ℝ) (δ : ℝ) (h : ApproxExp E δ) (hδ : δ ≤ 0.004) (a b r : LP)
    (hr : Gen.SrcProbs.ln_add_exp (xrOps E) (emb a) (emb b) = emb r) :
    |lin r - (lin a + lin b)| ≤ 0.005 * max (lin a) (lin b) := by
  have h1 := GenSrcProbs.ln_add_exp_error E δ h (by linarith) a b r hr
  have hm : 0 ≤ max (lin a) (lin b) := le_trans (lin_nonneg a) (le_max_left _ _)
  have h2 : δ * min (lin a) (lin b) ≤ 0.004 * max (lin a) (lin b) :=
    mul_le_mul hδ (le_trans (min_le_left _ _) (le_max_left _ _)) (le_min (lin_nonneg a) (lin_nonneg b)) (by norm_num)
  have h3 : dropTol * max (lin a) (lin b) ≤ 0.001 * max (lin a) (lin b) :=
    mul_le_mul_of_nonneg_right (by unfold dropTol; norm_num) hm
  linarith

/-- with the exact exponential the translated `ln_add_exp` is exact up to `10⁻¹⁵` of the larger operand (exactly exact
on the pinned text: soft module) -/
theorem ln_add_exp_source_exact (a b r : LP)
    (hr : Gen.SrcProbs.ln_add_exp (xrOps exp) (emb a) (emb b) = emb r) :
    |lin r - (lin a + lin b)| ≤ dropTol * max (lin a) (lin b) := by
  have := GenSrcProbs.ln_add_exp_error exp 0 approxExp_exp (by norm_num) a b r hr
  simpa using this

/-- the translated `ln_sum_exp` **is** the model's `lnSumExp` (no panic; whichever maximal entry is excluded) -/
theorem ln_sum_exp_source_eq_model (E : ℝ → ℝ) (hE : GenSrcProbs.PosOn E) (l : List LP) :
    Gen.SrcProbs.ln_sum_exp (xrOps E) (l.map emb) = Rs.Res.ok (emb (lnSumExp E l)) :=
  GenSrcProbs.ln_sum_exp_eq_model E hE l

theorem ln_sum_exp_source_error (E : ℝ → ℝ) (δ : ℝ) (h : ApproxExp E δ) (hδ : δ < 1) (l : List LP) :
    ∃ r : LP, Gen.SrcProbs.ln_sum_exp (xrOps E) (l.map emb) = Rs.Res.ok (emb r) ∧
      |lin r - (l.map lin).sum| ≤ δ * (l.map lin).sum :=
  GenSrcProbs.ln_sum_exp_error E δ h hδ l

/-- the translated `ln_cumsum_exp` (the `ScanIter` consumed to its end) yields one entry per input, each step an
admissible addition by the translated `ln_add_exp` -/
theorem ln_cumsum_exp_source_is_scan (E : ℝ → ℝ) (hE : GenSrcProbs.PosOn E) (l : List LP) :
    ∃ rs : List LP, Gen.SrcProbs.ln_cumsum_exp (xrOps E) (l.map emb) = rs.map emb ∧ ScanNear E none l rs ∧
      rs.length = l.length :=
  GenSrcProbs.ln_cumsum_exp_eq_scan E hE l

/-- entry `k` is within `(δ + 2(k+1)·10⁻¹⁵) ·` prefix sum of the prefix sum -/
theorem ln_cumsum_exp_source_error (E : ℝ → ℝ) (δ : ℝ) (h : ApproxExp E δ) (hδ : δ < 1) (l rs : List LP)
    (hrs : Gen.SrcProbs.ln_cumsum_exp (xrOps E) (l.map emb) = rs.map emb) (k : ℕ) (r : LP) (hr : rs[k]? = some r)
    (hk : δ + 2 * (k + 1 : ℕ) * dropTol ≤ 1) :
    |lin r - ((l.take (k + 1)).map lin).sum| ≤ (δ + 2 * (k + 1 : ℕ) * dropTol) * ((l.take (k + 1)).map lin).sum :=
  GenSrcProbs.ln_cumsum_exp_error E δ h hδ l rs hrs k r hr hk

/-- the translated `ln_one_minus_exp` (through the translated `ln_1m_exp`, whichever branch, switch point and
exponential the text uses in the `ln_1p` branch): no panic for `p ≤ 1`, error `≤ δ · p` -/
theorem ln_one_minus_exp_source_error (E : ℝ → ℝ) (δ : ℝ) (h : ApproxExp E δ) (hδ : δ ≤ 1 / 2) (a : LP) (ha : lin a ≤ 1) :
    ∃ r : LP, Gen.SrcProbs.ln_one_minus_exp (xrOps E) (emb a) = Rs.Res.ok (emb r) ∧ |lin r - (1 - lin a)| ≤ δ * lin a :=
  GenSrcProbs.ln_one_minus_exp_spec E δ h hδ a ha

theorem ln_one_minus_exp_source_exact (a : LP) (ha : lin a ≤ 1) :
    ∃ r : LP, Gen.SrcProbs.ln_one_minus_exp (xrOps exp) (emb a) = Rs.Res.ok (emb r) ∧ lin r = 1 - lin a := by
  obtain ⟨r, h1, h2⟩ := GenSrcProbs.ln_one_minus_exp_spec exp 0 approxExp_exp (by norm_num) a ha
  exact ⟨r, h1, by simpa [sub_eq_zero] using h2⟩

/-- the translated `ln_sub_exp`: the `assert!(p0 >= p1)` holds, error `≤ δ · e^{p1}` (the `relative_eq!` shortcut is an
equality test in the absence of rounding) -/
theorem ln_sub_exp_source_error (E : ℝ → ℝ) (δ : ℝ) (h : ApproxExp E δ) (hδ : δ ≤ 1 / 2) (a b : LP) (hab : lin b ≤ lin a) :
    ∃ r : LP, Gen.SrcProbs.ln_sub_exp (xrOps E) (emb a) (emb b) = Rs.Res.ok (emb r) ∧
      |lin r - (lin a - lin b)| ≤ δ * lin b :=
  GenSrcProbs.ln_sub_exp_spec E δ h hδ a b hab

/-- the translated `Prob::checked` accepts exactly the finite numbers of `[0, 1]` (NaN and ±∞ are refused) -/
theorem prob_checked_source_iff (E : ℝ → ℝ) (p v : XR) :
    Gen.SrcProbs.checked (xrOps E) p = Except.ok v ↔ v = p ∧ ∃ x : ℝ, p = XR.fin x ∧ 0 ≤ x ∧ x ≤ 1 :=
  GenSrcProbs.checked_iff E p v

/-- the translated conversions: `Prob → PHREDProb → Prob` is exact -/
theorem prob_phred_source_roundtrip (E : ℝ → ℝ) (p : ℝ) (hp : 0 < p) :
    Gen.SrcProbs.prob_of_phred (xrOps E) (Gen.SrcProbs.phred_of_prob (xrOps E) (XR.fin p)) = XR.fin p :=
  GenSrcProbs.prob_phred_roundtrip E p hp

/-- `Prob → LogProb → Prob` has the relative error of `fastexp` -/
theorem prob_logprob_source_roundtrip (E : ℝ → ℝ) (δ : ℝ) (h : ApproxExp E δ) (p : ℝ) (hp : 0 < p) (hp1 : p ≤ 1) :
    ∃ q : ℝ, Gen.SrcProbs.prob_of_logprob (xrOps E) (Gen.SrcProbs.logprob_of_prob (xrOps E) (XR.fin p)) = XR.fin q ∧
      |q - p| ≤ δ * p :=
  GenSrcProbs.prob_logprob_roundtrip E δ h p hp hp1

/-- `LogProb → PHREDProb → LogProb` is within `10⁻¹⁵` relative of the identity (the literals of the text) -/
theorem logprob_phred_source_roundtrip (E : ℝ → ℝ) (x : ℝ) :
    ∃ y : ℝ, Gen.SrcProbs.logprob_of_phred (xrOps E) (Gen.SrcProbs.phred_of_logprob (xrOps E) (XR.fin x)) = XR.fin y ∧
      |y - x| ≤ 1 / 10 ^ 15 * |x| := by
  obtain ⟨y, h1, h2⟩ := GenSrcProbs.logprob_phred_roundtrip E x
  refine ⟨y, h1, ?_⟩
  have h3 := phred_factors_inverse
  have h4 : |((LOG_TO_PHRED_FACTOR * PHRED_TO_LOG_FACTOR : ℚ) : ℝ) - 1| < 1 / 10 ^ 15 := by
    have := (Rat.cast_lt (K := ℝ)).mpr h3
    push_cast at this ⊢
    simpa using this
  rw [h2, show x * ((LOG_TO_PHRED_FACTOR * PHRED_TO_LOG_FACTOR : ℚ) : ℝ) - x
      = x * (((LOG_TO_PHRED_FACTOR * PHRED_TO_LOG_FACTOR : ℚ) : ℝ) - 1) by ring, abs_mul, mul_comm]
  exact mul_le_mul_of_nonneg_right h4.le (abs_nonneg x)

/-- the literals the conversions use are the ones `Gen/Scales.lean` extracts -/
theorem source_factors_are_extracted (E : ℝ → ℝ) :
    Gen.SrcProbs.PHRED_TO_LOG_FACTOR (xrOps E) = XR.fin (PHRED_TO_LOG_FACTOR : ℝ) ∧
    Gen.SrcProbs.LOG_TO_PHRED_FACTOR (xrOps E) = XR.fin (LOG_TO_PHRED_FACTOR : ℝ) := ⟨rfl, rfl⟩

/-! non-vacuity of the source theorems -/
example : GenSrcProbs.PosOn exp := GenSrcProbs.posOn_exp
example : ∃ r : LP, Gen.SrcProbs.ln_add_exp (xrOps exp) (emb (some 0)) (emb none) = emb r :=
  ⟨some 0, by simp [Gen.SrcProbs.ln_add_exp, Gen.SrcProbs.ln_zero]⟩
example : Gen.SrcProbs.checked (xrOps exp) XR.nan ≠ Except.ok XR.nan := by
  intro h; obtain ⟨_, x, hx, _⟩ := (prob_checked_source_iff exp _ _).mp h; cases hx
example : Gen.SrcProbs.checked (xrOps exp) (XR.fin 0.3) = Except.ok (XR.fin 0.3) :=
  (prob_checked_source_iff exp _ _).mpr ⟨rfl, 0.3, rfl, by norm_num, by norm_num⟩
example : lin (some (-1) : LP) ≤ lin (some 0) := by simp [lin]

/-- the translated body of `FastExp::fastexp` (`RbV/Gen/SrcFastExp.lean`): for `MIN_VAL < x ≤ 0` it returns exactly
`2^k · P(y)`, `k = ⌈ONEBYLOG2·x⌉`, `y = ONEBYLOG2·x − k`, `P` the polynomial over the extracted coefficients — the `i64`
arithmetic does not overflow, the shifted exponent stays in its field and the assembled bit pattern decodes (IEEE-754
binary64) to `2^k`.  (`ONEBYLOG2` is the 10-digit literal, not `1/ln 2`: the distance to `fastexpModel` is part of the
measured `δ`.) -/
theorem fastexp_source_eq_bit_trick (E : ℝ → ℝ) (x : ℝ) (hlo : decR Gen.Scales.minVal < x) (hhi : x ≤ 0) :
    Gen.SrcFastExp.fastexp (xrOps E) (XR.fin x) =
      Rs.Res.ok (XR.fin ((2 : ℝ) ^ ⌈decR Gen.Scales.oneByLog2 * x⌉ *
        fastexpPolyGen (decR Gen.Scales.oneByLog2 * x - ⌈decR Gen.Scales.oneByLog2 * x⌉))) := by
  obtain ⟨h1, h2, _, _⟩ := fastexp_exponent_field_in_range x hlo hhi
  have ho : Gen.Scales.offsetF64 = 1023 := by decide
  rw [ho] at h1 h2
  exact GenSrcFastExp.fastexp_eq_model E x hlo hhi h1 h2 (by rw [decR_eq]; unfold Gen.Scales.oneByLog2; norm_num)

/-- at and below `MIN_VAL` the text is the exact `exp`; `fastexp(−∞) = 0` (the value `xrOps` gives `fastexp` at `−∞`) -/
theorem fastexp_source_below_cutoff (E : ℝ → ℝ) (x : ℝ) (h : x ≤ decR Gen.Scales.minVal) :
    Gen.SrcFastExp.fastexp (xrOps E) (XR.fin x) = Rs.Res.ok (XR.fin (exp x)) ∧
    Gen.SrcFastExp.fastexp (xrOps E) XR.ninf = Rs.Res.ok (XR.fin 0) :=
  ⟨GenSrcFastExp.fastexp_below E x h, GenSrcFastExp.fastexp_ninf E⟩

example : ∃ x : ℝ, decR Gen.Scales.minVal < x ∧ x ≤ 0 := ⟨0, by rw [decR_eq]; unfold Gen.Scales.minVal; norm_num, le_rfl⟩

/-! ### the translated integration helpers (`RbV/Gen/SrcProbsQuad.lean`): value-level statements

`d i v : LP` are the (finite or `ln 0`) density values, `linspace` is abstract (itertools-num), `innerPts xs` are the grid
points the text enumerates between the two ends (`.enumerate().dropping(1).dropping_back(1)`), with their indices. -/

/-- the translated `ln_trapezoidal_integrate_exp` does not panic and returns the log of the trapezoid sum — weights
1, 2, …, 2, 1 (cf. `trapezoid_terms_sum`), times `(b − a)/(2(n − 1))` — within `δ ·` that sum (the error of one `ln_sum_exp`) -/
theorem ln_trapezoidal_source_error (E : ℝ → ℝ) (δ : ℝ) (h : ApproxExp E δ) (hδ : δ < 1) (linspace : XR → XR → Nat → List XR)
    (d : Nat → XR → LP) (α β : ℝ) (hw : α < β) (n : Nat) (hn : 2 ≤ n) :
    ∃ r : LP, Gen.SrcProbsQuad.ln_trapezoidal_integrate_exp (xrOps E) linspace (fun i v => emb (d i v)) (XR.fin α) (XR.fin β) n
        = Rs.Res.ok (emb r) ∧
      |lin r - (((innerPts (linspace (XR.fin α) (XR.fin β) n)).map fun it => 2 * lin (d it.1 it.2)).sum
          + lin (d 0 (XR.fin α)) + lin (d n (XR.fin β))) * ((β - α) / (2 * (n - 1)))|
        ≤ δ * ((((innerPts (linspace (XR.fin α) (XR.fin β) n)).map fun it => 2 * lin (d it.1 it.2)).sum
          + lin (d 0 (XR.fin α)) + lin (d n (XR.fin β))) * ((β - α) / (2 * (n - 1)))) :=
  GenSrcProbsQuad.trapezoid_error E δ h hδ linspace d α β hw n hn

/-- the translated `ln_simpsons_integrate_exp` (odd `n`): weights 1, 4, 2, …, 4, 1 as the text computes them
(`(2 + (i % 2) * 2) as f64`, cf. `simpson_weight`; no `usize` overflow), times `(b − a)/(3(n − 1))`, within `δ ·` the sum -/
theorem ln_simpsons_source_error (E : ℝ → ℝ) (δ : ℝ) (h : ApproxExp E δ) (hδ : δ < 1) (linspace : XR → XR → Nat → List XR)
    (d : Nat → XR → LP) (α β : ℝ) (hw : α < β) (n : Nat) (hn : 2 ≤ n) (hodd : n % 2 = 1) :
    ∃ r : LP, Gen.SrcProbsQuad.ln_simpsons_integrate_exp (xrOps E) linspace (fun i v => emb (d i v)) (XR.fin α) (XR.fin β) n
        = Rs.Res.ok (emb r) ∧
      |lin r - (((innerPts (linspace (XR.fin α) (XR.fin β) n)).map fun it => (if it.1 % 2 = 1 then 4 else 2) * lin (d it.1 it.2)).sum
          + lin (d 0 (XR.fin α)) + lin (d n (XR.fin β))) * ((β - α) / (3 * (n - 1)))|
        ≤ δ * ((((innerPts (linspace (XR.fin α) (XR.fin β) n)).map fun it => (if it.1 % 2 = 1 then 4 else 2) * lin (d it.1 it.2)).sum
          + lin (d 0 (XR.fin α)) + lin (d n (XR.fin β))) * ((β - α) / (3 * (n - 1)))) :=
  GenSrcProbsQuad.simpson_error E δ h hδ linspace d α β hw n hn hodd

/-- `innerPts` of a five-point grid are the points 1, 2, 3 with their indices (non-vacuity of the statements above) -/
example (a b c d e : XR) : innerPts [a, b, c, d, e] = [(1, b), (2, c), (3, d)] := rfl

/-- the translated `ln_trapezoidal_integrate_grid_exp` on a strictly increasing grid `gs` (`hinc`: every grid point from the
second on is larger than its predecessor): no panic (`i − 1`, `grid[i − 1]`), and the result is the log of
`Σᵢ (gᵢ − gᵢ₋₁)/2 · (f(i−1, gᵢ₋₁) + f(i, gᵢ))` (`gridCell`) within the accumulated bound: `δ + 10⁻¹⁵` for the pairwise
`ln_add_exp` of each cell, then `δ` for the final `ln_sum_exp` -/
theorem ln_trapezoidal_grid_source_error (E : ℝ → ℝ) (δ : ℝ) (h : ApproxExp E δ) (hδ : δ < 1) (d : Nat → XR → LP) (gs : List ℝ)
    (hinc : ∀ it ∈ Rs.enumIdxFrom 1 gs.tail, gs.getD (it.1 - 1) 0 < it.2) :
    ∃ r : LP, Gen.SrcProbsQuad.ln_trapezoidal_integrate_grid_exp (xrOps E) (fun i v => emb (d i v)) (gs.map XR.fin)
        = Rs.Res.ok (emb r) ∧
      |lin r - ((Rs.enumIdxFrom 1 gs.tail).map (GenSrcProbsQuad.gridCell d gs)).sum|
        ≤ (δ * (1 + (δ + dropTol)) + (δ + dropTol)) * ((Rs.enumIdxFrom 1 gs.tail).map (GenSrcProbsQuad.gridCell d gs)).sum :=
  GenSrcProbsQuad.grid_error E δ h hδ d gs hinc

/-- the hypothesis is satisfiable: the grid 0, 1, 3 -/
example : ∀ it ∈ Rs.enumIdxFrom 1 ([0, 1, 3] : List ℝ).tail, ([0, 1, 3] : List ℝ).getD (it.1 - 1) 0 < it.2 := by
  intro it hit
  simp only [List.tail_cons, Rs.enumIdxFrom, List.mem_cons, List.not_mem_nil, or_false] at hit
  rcases hit with rfl | rfl <;> norm_num

end RbV.Thm.C15
