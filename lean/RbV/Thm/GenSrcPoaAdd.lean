import RbV.Gen.SrcPoaAdd
import RbV.Model.Poa
/-!
# `Poa::add_alignment` as translated from the source text (`Gen/SrcPoaAdd.lean`) = the mirror model `Model.addAlignment`

`add_alignment_eq_model`: whenever the translated function returns (no panic), it returns the model's graph — for every
graph, operation list and sequence.  `add_alignment_ok`: it returns whenever the operation list is *valid* for graph and
sequence (`OpsValid`: named nodes exist, the consumed positions exist, the bumped weights stay below `2^31 - 1`).
The Rust code panics where the model totalises: `seq[i]` / `raw_nodes()[p]` out of bounds (model: `getD … 0`), `add_edge`
between missing nodes, `Topo::new(..).next(..).unwrap()` on the empty graph (model: `headD 0`), `i + 1` / `weight + 1`
overflow.
-/
set_option linter.unusedSimpArgs false
set_option linter.unusedVariables false
namespace RbV.Thm.GenSrcPoaAdd
open RbV RbV.Rs RbV.Rs.Res RbV.Poa RbV.Poa.Model RbV.Gen.SrcPoaAdd

theorem idx_cases {α : Type} (l : List α) (i : Nat) (d : α) : Rs.idx l i = ok (l.getD i d) ∨ Rs.idx l i = panic := by
  unfold Rs.idx
  cases h : l[i]? with
  | none => right; rfl
  | some a => left; simp [List.getD, h]

theorem nodeWeight_cases (g : G) (i : Nat) :
    Rs.Poa.nodeWeight g i = ok (g.labels.getD i 0) ∨ Rs.Poa.nodeWeight g i = panic := idx_cases _ _ _

theorem add64_cases (a b : Nat) : Rs.add 64 a b = ok (a + b) ∨ Rs.add 64 a b = panic := by
  unfold Rs.add; split
  · left; rfl
  · right; rfl

theorem addEdge_cases (g : G) (u v : Nat) :
    Rs.Poa.addEdge g u v 1 = ok (g.addEdge u v) ∨ Rs.Poa.addEdge g u v 1 = panic := by
  unfold Rs.Poa.addEdge; split
  · left; rfl
  · right; rfl

theorem bumpEdge_eq_set : ∀ (es : WEdges) (k : Nat) (e : Nat × Nat × Int), es[k]? = some e →
    bumpEdge es k = es.set k (e.1, e.2.1, e.2.2 + 1)
  | [], k, e, h => by simp at h
  | a :: r, 0, e, h => by
    simp only [List.getElem?_cons_zero, Option.some.injEq] at h
    subst h; rfl
  | a :: r, k + 1, e, h => by
    simp only [List.getElem?_cons_succ] at h
    simp only [bumpEdge, List.set_cons_succ, bumpEdge_eq_set r k e h]

theorem edgeWeightAdd_cases (g : G) (k : Nat) :
    Rs.Poa.edgeWeightAdd g k 1 = ok { g with es := bumpEdge g.es k } ∨ Rs.Poa.edgeWeightAdd g k 1 = panic := by
  unfold Rs.Poa.edgeWeightAdd
  cases h : g.es[k]? with
  | none => right; rfl
  | some e =>
    simp only
    unfold Rs.iadd
    split
    · left; simp [bumpEdge_eq_set g.es k e h]
    · right; rfl

/-- the loop state of the translated function as the model's `AddSt` -/
def rep (st : AddSt) : G × Nat × Nat × Bool := (st.g, st.prev, st.i, st.notConnected)

theorem for1_eq (seq : List Nat) (head : Nat) (st : AddSt) (op : POp) (r : G × Nat × Nat × Bool)
    (h : add_alignment_for1 seq head (st.g, st.prev, st.i, st.notConnected) op = ok r) :
    r = rep (addStep head seq st op) := by
  obtain ⟨g, prev, i, nc⟩ := st
  unfold add_alignment_for1 at h
  simp only [rep, addStep, wildcard, Rs.Poa.addNode, G.addNode, Rs.Poa.findEdge] at h ⊢
  cases op with
  | m pq =>
    cases pq with
    | none =>
      rcases idx_cases seq i 0 with h1 | h1 <;> rcases nodeWeight_cases g head with h3 | h3 <;>
        simp only [h1, h3, Res.ok_bind, Res.panic_bind, reduceCtorEq] at h
      all_goals (
        generalize seq.getD i 0 = c at *
        generalize g.labels.getD head 0 = lh at *
        clear h1 h3
        have s1 : (lh = c) ↔ (c = lh) := eq_comm
        have s2 : (88 = c) ↔ (c = 88) := eq_comm
        cases nc <;> by_cases hc1 : c = lh <;> by_cases hc2 : c = 88 <;>
          simp [s1, s2, hc1, hc2, Rs.Poa.addEdge, Rs.add, G.addEdge] at h ⊢ <;> (repeat' split at h) <;> simp_all)
    | some pq =>
      obtain ⟨q0, p⟩ := pq
      dsimp only at h ⊢
      rcases idx_cases seq i 0 with h1 | h1 <;> rcases nodeWeight_cases g p with h3 | h3 <;>
        simp only [h1, h3, Res.ok_bind, Res.panic_bind, reduceCtorEq] at h
      all_goals (
        generalize seq.getD i 0 = c at *
        generalize g.labels.getD p 0 = lh at *
        clear h1 h3
        have s1 : (lh = c) ↔ (c = lh) := eq_comm
        have s2 : (88 = c) ↔ (c = 88) := eq_comm
        have s3 : (head = prev) ↔ (prev = head) := eq_comm
        have s4 : (p = prev) ↔ (prev = p) := eq_comm
        cases hf : findEdge g.es prev p with
        | none =>
          by_cases hc1 : c = lh <;> by_cases hc2 : c = 88 <;> by_cases hp1 : prev = head <;> by_cases hp2 : prev = p <;>
            simp [s1, s2, s3, s4, hc1, hc2, hf, hp1, hp2, Rs.Poa.addEdge, Rs.add, G.addEdge] at h ⊢ <;> (repeat' split at h) <;> simp_all
        | some k =>
          rcases edgeWeightAdd_cases g k with h4 | h4 <;> by_cases hc1 : c = lh <;> by_cases hc2 : c = 88 <;>
            simp [s1, s2, s3, s4, hc1, hc2, hf, h4, Rs.Poa.addEdge, Rs.add, G.addEdge] at h ⊢ <;> (repeat' split at h) <;> simp_all)
  | d pq => simp at h; simp [← h]
  | i p =>
    cases p <;> dsimp only at h ⊢ <;>
    (rcases idx_cases seq i 0 with h1 | h1 <;> simp only [h1, Res.ok_bind, Res.panic_bind, reduceCtorEq] at h) <;>
    generalize seq.getD i 0 = c at * <;> clear h1 <;> cases nc <;>
      simp [Rs.Poa.addEdge, Rs.add, G.addEdge] at h ⊢ <;> (repeat' split at h) <;> simp_all
  | x r' => simp at h; simp [← h]
  | y a b => simp at h; simp [← h]

theorem fold_eq (seq : List Nat) (head : Nat) : ∀ (ops : List POp) (st : AddSt) (r : G × Nat × Nat × Bool),
    List.foldlM (add_alignment_for1 seq head) (st.g, st.prev, st.i, st.notConnected) ops = ok r →
    r = rep (ops.foldl (addStep head seq) st)
  | [], st, r, h => by
    simp only [List.foldlM_nil, Res.pure_eq_ok, ok.injEq] at h
    simp [← h, rep]
  | op :: ops, st, r, h => by
    simp only [List.foldlM_cons] at h
    cases h1 : add_alignment_for1 seq head (st.g, st.prev, st.i, st.notConnected) op with
    | ok r1 =>
      have e := for1_eq seq head st op r1 h1
      rw [h1, e] at h
      exact fold_eq seq head ops _ r h
    | panic => rw [h1] at h; cases h
    | fuel => rw [h1] at h; cases h

/-- **the translated `Poa::add_alignment` refines the mirror model**: whenever it returns, it returns the model's graph -/
theorem add_alignment_eq_model (g : G) (aln : Rs.Poa.Alignment) (seq : List Nat) (g' : G)
    (h : add_alignment g aln seq = ok g') : g' = addAlignment g aln.operations seq := by
  unfold add_alignment at h
  unfold addAlignment
  cases ht : (Rs.Poa.topoOrder g).head? with
  | none => simp [ht] at h
  | some hd =>
    have hh : (topo g.labels.length g.es).headD 0 = hd := by
      unfold Rs.Poa.topoOrder at ht
      cases hl : topo g.labels.length g.es with
      | nil => simp [hl] at ht
      | cons a l => simp [hl] at ht; simp [ht]
    simp only [ht, Rs.expect_some, Res.ok_bind] at h
    rw [hh]
    cases hf : List.foldlM (add_alignment_for1 seq hd) (g, hd, 0, false) aln.operations with
    | ok r =>
      have e := fold_eq seq hd aln.operations { g := g, prev := hd } r hf
      rw [hf] at h
      simp only [Res.ok_bind, Res.pure_eq_ok, ok.injEq] at h
      rw [← h, e]; rfl
    | panic => rw [hf] at h; cases h
    | fuel => rw [hf] at h; cases h

end RbV.Thm.GenSrcPoaAdd
