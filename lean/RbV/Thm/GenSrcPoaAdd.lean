import RbV.Gen.SrcPoaAdd
import RbV.Model.Poa
/-!
# `Poa::add_alignment` as translated from the source text (`Gen/SrcPoaAdd.lean`) = the mirror model `Model.addAlignment`

`add_alignment_eq_model`: whenever the translated function returns (no panic), it returns the model's graph — for every
graph, operation list and sequence.  `add_alignment_ok`: it returns whenever the operation list is *valid* for graph and
sequence (`OpsValid`: named nodes exist, the consumed positions exist, the bumped weights stay below `2^31 - 1`).
The Rust code panics where the model totalises: `seq[i]` / `raw_nodes()[p]` out of bounds (model: `getD … 0`), `add_edge`
between missing nodes, `Topo::new(..).next(..).unwrap()` on the empty graph (model: `headD 0`), `i + 1` / `weight + 1`
overflow.
-/
set_option linter.unusedSimpArgs false
set_option linter.unusedVariables false
namespace RbV.Thm.GenSrcPoaAdd
open RbV RbV.Rs RbV.Rs.Res RbV.Poa RbV.Poa.Model RbV.Gen.SrcPoaAdd

theorem idx_cases {α : Type} (l : List α) (i : Nat) (d : α) : Rs.idx l i = ok (l.getD i d) ∨ Rs.idx l i = panic := by
  unfold Rs.idx
  cases h : l[i]? with
  | none => right; rfl
  | some a => left; simp [List.getD, h]

theorem nodeWeight_cases (g : G) (i : Nat) :
    Rs.Poa.nodeWeight g i = ok (g.labels.getD i 0) ∨ Rs.Poa.nodeWeight g i = panic := idx_cases _ _ _

theorem add64_cases (a b : Nat) : Rs.add 64 a b = ok (a + b) ∨ Rs.add 64 a b = panic := by
  unfold Rs.add; split
  · left; rfl
  · right; rfl

theorem addEdge_cases (g : G) (u v : Nat) :
    Rs.Poa.addEdge g u v 1 = ok (g.addEdge u v) ∨ Rs.Poa.addEdge g u v 1 = panic := by
  unfold Rs.Poa.addEdge; split
  · left; rfl
  · right; rfl

theorem bumpEdge_eq_set : ∀ (es : WEdges) (k : Nat) (e : Nat × Nat × Int), es[k]? = some e →
    bumpEdge es k = es.set k (e.1, e.2.1, e.2.2 + 1)
  | [], k, e, h => by simp at h
  | a :: r, 0, e, h => by
    simp only [List.getElem?_cons_zero, Option.some.injEq] at h
    subst h; rfl
  | a :: r, k + 1, e, h => by
    simp only [List.getElem?_cons_succ] at h
    simp only [bumpEdge, List.set_cons_succ, bumpEdge_eq_set r k e h]

theorem edgeWeightAdd_cases (g : G) (k : Nat) :
    Rs.Poa.edgeWeightAdd g k 1 = ok { g with es := bumpEdge g.es k } ∨ Rs.Poa.edgeWeightAdd g k 1 = panic := by
  unfold Rs.Poa.edgeWeightAdd
  cases h : g.es[k]? with
  | none => right; rfl
  | some e =>
    simp only
    unfold Rs.iadd
    split
    · left; simp [bumpEdge_eq_set g.es k e h]
    · right; rfl

/-- the loop state of the translated function as the model's `AddSt` -/
def rep (st : AddSt) : G × Nat × Nat × Bool := (st.g, st.prev, st.i, st.notConnected)

theorem for1_eq (seq : List Nat) (head : Nat) (st : AddSt) (op : POp) (r : G × Nat × Nat × Bool)
    (h : add_alignment_for1 seq head (st.g, st.prev, st.i, st.notConnected) op = ok r) :
    r = rep (addStep head seq st op) := by
  obtain ⟨g, prev, i, nc⟩ := st
  unfold add_alignment_for1 at h
  simp only [rep, addStep, wildcard, Rs.Poa.addNode, G.addNode, Rs.Poa.findEdge] at h ⊢
  cases op with
  | m pq =>
    cases pq with
    | none =>
      rcases idx_cases seq i 0 with h1 | h1 <;> rcases nodeWeight_cases g head with h3 | h3 <;>
        simp only [h1, h3, Res.ok_bind, Res.panic_bind, reduceCtorEq] at h
      all_goals (
        generalize seq.getD i 0 = c at *
        generalize g.labels.getD head 0 = lh at *
        clear h1 h3
        have s1 : (lh = c) ↔ (c = lh) := eq_comm
        have s2 : (88 = c) ↔ (c = 88) := eq_comm
        cases nc <;> by_cases hc1 : c = lh <;> by_cases hc2 : c = 88 <;>
          simp [s1, s2, hc1, hc2, Rs.Poa.addEdge, Rs.add, G.addEdge] at h ⊢ <;> (repeat' split at h) <;> simp_all)
    | some pq =>
      obtain ⟨q0, p⟩ := pq
      dsimp only at h ⊢
      rcases idx_cases seq i 0 with h1 | h1 <;> rcases nodeWeight_cases g p with h3 | h3 <;>
        simp only [h1, h3, Res.ok_bind, Res.panic_bind, reduceCtorEq] at h
      all_goals (
        generalize seq.getD i 0 = c at *
        generalize g.labels.getD p 0 = lh at *
        clear h1 h3
        have s1 : (lh = c) ↔ (c = lh) := eq_comm
        have s2 : (88 = c) ↔ (c = 88) := eq_comm
        have s3 : (head = prev) ↔ (prev = head) := eq_comm
        have s4 : (p = prev) ↔ (prev = p) := eq_comm
        cases hf : findEdge g.es prev p with
        | none =>
          by_cases hc1 : c = lh <;> by_cases hc2 : c = 88 <;> by_cases hp1 : prev = head <;> by_cases hp2 : prev = p <;>
            simp [s1, s2, s3, s4, hc1, hc2, hf, hp1, hp2, Rs.Poa.addEdge, Rs.add, G.addEdge] at h ⊢ <;> (repeat' split at h) <;> simp_all
        | some k =>
          rcases edgeWeightAdd_cases g k with h4 | h4 <;> by_cases hc1 : c = lh <;> by_cases hc2 : c = 88 <;>
            simp [s1, s2, s3, s4, hc1, hc2, hf, h4, Rs.Poa.addEdge, Rs.add, G.addEdge] at h ⊢ <;> (repeat' split at h) <;> simp_all)
  | d pq => simp at h; simp [← h]
  | i p =>
    cases p <;> dsimp only at h ⊢ <;>
    (rcases idx_cases seq i 0 with h1 | h1 <;> simp only [h1, Res.ok_bind, Res.panic_bind, reduceCtorEq] at h) <;>
    generalize seq.getD i 0 = c at * <;> clear h1 <;> cases nc <;>
      simp [Rs.Poa.addEdge, Rs.add, G.addEdge] at h ⊢ <;> (repeat' split at h) <;> simp_all
  | x r' => simp at h; simp [← h]
  | y a b => simp at h; simp [← h]

theorem fold_eq (seq : List Nat) (head : Nat) : ∀ (ops : List POp) (st : AddSt) (r : G × Nat × Nat × Bool),
    List.foldlM (add_alignment_for1 seq head) (st.g, st.prev, st.i, st.notConnected) ops = ok r →
    r = rep (ops.foldl (addStep head seq) st)
  | [], st, r, h => by
    simp only [List.foldlM_nil, Res.pure_eq_ok, ok.injEq] at h
    simp [← h, rep]
  | op :: ops, st, r, h => by
    simp only [List.foldlM_cons] at h
    cases h1 : add_alignment_for1 seq head (st.g, st.prev, st.i, st.notConnected) op with
    | ok r1 =>
      have e := for1_eq seq head st op r1 h1
      rw [h1, e] at h
      exact fold_eq seq head ops _ r h
    | panic => rw [h1] at h; cases h
    | fuel => rw [h1] at h; cases h

/-- **the translated `Poa::add_alignment` refines the mirror model**: whenever it returns, it returns the model's graph -/
theorem add_alignment_eq_model (g : G) (aln : Rs.Poa.Alignment) (seq : List Nat) (g' : G)
    (h : add_alignment g aln seq = ok g') : g' = addAlignment g aln.operations seq := by
  unfold add_alignment at h
  unfold addAlignment
  cases ht : (Rs.Poa.topoOrder g).head? with
  | none => simp [ht] at h
  | some hd =>
    have hh : (topo g.labels.length g.es).headD 0 = hd := by
      unfold Rs.Poa.topoOrder at ht
      cases hl : topo g.labels.length g.es with
      | nil => simp [hl] at ht
      | cons a l => simp [hl] at ht; simp [ht]
    simp only [ht, Rs.expect_some, Res.ok_bind] at h
    rw [hh]
    cases hf : List.foldlM (add_alignment_for1 seq hd) (g, hd, 0, false) aln.operations with
    | ok r =>
      have e := fold_eq seq hd aln.operations { g := g, prev := hd } r hf
      rw [hf] at h
      simp only [Res.ok_bind, Res.pure_eq_ok, ok.injEq] at h
      rw [← h, e]; rfl
    | panic => rw [hf] at h; cases h
    | fuel => rw [hf] at h; cases h

/-! ### totality on valid operation lists -/

/-- the operation list is valid for a query of length `n` and a graph with `m` nodes, from consumption index `i`: every consumed
position exists, every named node exists (`Yclip(_, r)` continues at `r`) -/
def SeqOK (n m : Nat) : Nat → List POp → Prop
  | _, [] => True
  | i, .m none :: r => i < n ∧ SeqOK n m (i + 1) r
  | i, .m (some (_, p)) :: r => i < n ∧ p < m ∧ SeqOK n m (i + 1) r
  | i, .i _ :: r => i < n ∧ SeqOK n m (i + 1) r
  | i, .d _ :: r => SeqOK n m i r
  | i, .x _ :: r => SeqOK n m i r
  | _, .y _ c :: r => SeqOK n m c r

theorem idx_getD {α : Type} (l : List α) (i : Nat) (d : α) (h : i < l.length) : Rs.idx l i = ok (l.getD i d) := by
  rw [Rs.idx_ok h]; simp [List.getD, List.getElem?_eq_getElem h]

theorem zipIdx_mem_lt {α : Type} : ∀ (l : List α) (k0 : Nat) (x : α) (i : Nat), (x, i) ∈ l.zipIdx k0 → i < k0 + l.length
  | [], k0, x, i, h => by simp at h
  | a :: l, k0, x, i, h => by
    simp only [List.zipIdx_cons, List.mem_cons, Prod.mk.injEq] at h
    rcases h with ⟨_, rfl⟩ | h
    · simp
    · have := zipIdx_mem_lt l (k0 + 1) x i h
      simp only [List.length_cons]; omega

theorem findEdge_lt (es : WEdges) (u v k : Nat) (h : findEdge es u v = some k) : k < es.length := by
  unfold findEdge at h
  simp only at h
  have hm := List.mem_of_getLast? h
  simp only [List.mem_map, List.mem_filter] at hm
  obtain ⟨⟨e, i⟩, ⟨hmem, _⟩, rfl⟩ := hm
  have := zipIdx_mem_lt es 0 e i hmem
  omega

theorem bumpEdge_mem : ∀ (es : WEdges) (k : Nat) (e' : Nat × Nat × Int), e' ∈ bumpEdge es k →
    e' ∈ es ∨ ∃ e ∈ es, e' = (e.1, e.2.1, e.2.2 + 1)
  | [], k, e', h => by simp [bumpEdge] at h
  | a :: r, 0, e', h => by
    simp only [bumpEdge, List.mem_cons] at h
    rcases h with rfl | h
    · right; exact ⟨a, List.mem_cons_self .., rfl⟩
    · left; exact List.mem_cons_of_mem _ h
  | a :: r, k + 1, e', h => by
    simp only [bumpEdge, List.mem_cons] at h
    rcases h with rfl | h
    · left; exact List.mem_cons_self ..
    · rcases bumpEdge_mem r k e' h with h1 | ⟨e, he, h1⟩
      · left; exact List.mem_cons_of_mem _ h1
      · right; exact ⟨e, List.mem_cons_of_mem _ he, h1⟩

/-- invariant of the addition loop: nodes in range, weights with room for `K` more increments -/
structure AInv (head m K : Nat) (st : AddSt) : Prop where
  head : head < st.g.labels.length
  prev : st.prev < st.g.labels.length
  m : m ≤ st.g.labels.length
  hK : (K : Int) < 2147483647
  hw : ∀ e ∈ st.g.es, -2147483648 ≤ e.2.2 ∧ e.2.2 + (K : Int) ≤ 2147483647

theorem addEdge_ok' (g : G) (u v : Nat) (hu : u < g.labels.length) (hv : v < g.labels.length) :
    Rs.Poa.addEdge g u v 1 = ok (g.addEdge u v) := by
  unfold Rs.Poa.addEdge; rw [if_pos ⟨hu, hv⟩]; rfl

theorem edgeWeightAdd_ok' (g : G) (k : Nat) (hk : k < g.es.length)
    (hw : -2147483648 ≤ g.es[k].2.2 ∧ g.es[k].2.2 + 1 ≤ 2147483647) :
    Rs.Poa.edgeWeightAdd g k 1 = ok { g with es := bumpEdge g.es k } := by
  unfold Rs.Poa.edgeWeightAdd
  have hge : g.es[k]? = some g.es[k] := List.getElem?_eq_getElem hk
  rw [hge]
  simp only
  have : InS 32 (g.es[k].2.2 + 1) := by
    unfold InS
    have e : ((2 ^ (32 - 1) : Nat) : Int) = 2147483648 := by decide
    rw [e]; omega
  rw [Rs.iadd_ok this]
  simp [bumpEdge_eq_set g.es k _ hge]

/-- the model's step keeps the invariant (one increment less to go) -/
theorem addStep_inv (head m K : Nat) (seq : List Nat) (st : AddSt) (op : POp) (hinv : AInv head m (K + 1) st)
    (hp : ∀ a p, op = .m (some (a, p)) → p < m) : AInv head m K (addStep head seq st op) := by
  obtain ⟨g, prev, i, nc⟩ := st
  obtain ⟨h1, h2, h3, h4, h5⟩ := hinv
  simp only at h1 h2 h3 h5
  have hK : (K : Int) < 2147483647 := by omega
  have hw0 : ∀ e ∈ g.es, -2147483648 ≤ e.2.2 ∧ e.2.2 + (K : Int) ≤ 2147483647 := fun e he => by have := h5 e he; omega
  have hwadd : ∀ (u v : Nat), ∀ e ∈ g.es ++ [(u, v, (1 : Int))], -2147483648 ≤ e.2.2 ∧ e.2.2 + (K : Int) ≤ 2147483647 := by
    intro u v e he
    rcases List.mem_append.mp he with he | he
    · exact hw0 e he
    · simp only [List.mem_singleton] at he; subst he; simp only; omega
  have hwadd2 : ∀ (u v u' v' : Nat), ∀ e ∈ g.es ++ [(u, v, (1 : Int))] ++ [(u', v', (1 : Int))],
      -2147483648 ≤ e.2.2 ∧ e.2.2 + (K : Int) ≤ 2147483647 := by
    intro u v u' v' e he
    rcases List.mem_append.mp he with he | he
    · exact hwadd u v e he
    · simp only [List.mem_singleton] at he; subst he; simp only; omega
  have hwbump : ∀ k, ∀ e ∈ bumpEdge g.es k, -2147483648 ≤ e.2.2 ∧ e.2.2 + (K : Int) ≤ 2147483647 := by
    intro k e he
    rcases bumpEdge_mem g.es k e he with he | ⟨e0, he0, rfl⟩
    · exact hw0 e he
    · have := h5 e0 he0; simp only; omega
  cases op with
  | m pq =>
    cases pq with
    | none =>
      simp only [addStep, G.addNode, G.addEdge]
      by_cases hc : (decide (seq.getD i 0 ≠ g.labels.getD head 0) && decide (seq.getD i 0 ≠ wildcard)) = true <;> cases nc <;>
        simp only [hc, if_true, if_false, Bool.false_eq_true] <;>
        (refine ⟨?_, ?_, ?_, hK, ?_⟩ <;> simp only [List.length_append, List.length_singleton] <;>
          first | omega | exact hw0 | exact hwadd _ _ | exact hwadd2 _ _ _ _ | skip)
    | some pq =>
      obtain ⟨a, p⟩ := pq
      have hpm := hp a p rfl
      simp only [addStep, G.addNode, G.addEdge]
      by_cases hc : (decide (seq.getD i 0 ≠ g.labels.getD p 0) && decide (seq.getD i 0 ≠ wildcard)) = true
      · simp only [hc, if_true]
        refine ⟨?_, ?_, ?_, hK, ?_⟩ <;> simp only [List.length_append, List.length_singleton] <;>
          first | omega | exact hwadd _ _
      · simp only [hc, if_false, Bool.false_eq_true]
        cases hf : findEdge g.es prev p with
        | some k => exact ⟨h1, by simp only; omega, h3, hK, hwbump k⟩
        | none =>
          simp only
          split
          · exact ⟨h1, by simp only; omega, h3, hK, hwadd _ _⟩
          · exact ⟨h1, by simp only; omega, h3, hK, hw0⟩
  | d pq => exact ⟨h1, h2, h3, hK, hw0⟩
  | i p =>
    cases p <;> simp only [addStep, G.addNode, G.addEdge] <;> cases nc <;>
      (try simp only [if_true, if_false, Bool.false_eq_true]) <;>
      (refine ⟨?_, ?_, ?_, hK, ?_⟩ <;> simp only [List.length_append, List.length_singleton] <;>
        first | omega | exact hw0 | exact hwadd _ _)
  | x r => exact ⟨h1, h2, h3, hK, hw0⟩
  | y a b => exact ⟨h1, h2, h3, hK, hw0⟩

/-- under the invariant and with the consumed position / named node in range, one step of the translated loop returns the
model's step -/
theorem for1_total (seq : List Nat) (head m K : Nat) (st : AddSt) (op : POp) (hinv : AInv head m (K + 1) st)
    (hn : seq.length < 2 ^ 64)
    (hi : (∀ pq, op = .m pq → st.i < seq.length) ∧ (∀ p, op = .i p → st.i < seq.length))
    (hp : ∀ a p, op = .m (some (a, p)) → p < m) :
    add_alignment_for1 seq head (st.g, st.prev, st.i, st.notConnected) op = ok (rep (addStep head seq st op)) := by
  obtain ⟨g, prev, i, nc⟩ := st
  obtain ⟨h1, h2, h3, h4, h5⟩ := hinv
  simp only at h1 h2 h3 h5 hi
  have l1 := Nat.lt_succ_of_lt h1
  have l2 := Nat.lt_succ_of_lt h2
  have l3 := Nat.lt_succ_self g.labels.length
  unfold add_alignment_for1
  simp only [rep, addStep, wildcard, Rs.Poa.addNode, G.addNode, Rs.Poa.findEdge]
  cases op with
  | m pq =>
    have hil := hi.1 pq rfl
    have e1 := idx_getD seq i 0 hil
    have e3 : Rs.add 64 i 1 = ok (i + 1) := Rs.add_ok (by omega)
    cases pq with
    | none =>
      have e2 : Rs.Poa.nodeWeight g head = ok (g.labels.getD head 0) := idx_getD _ _ _ h1
      simp only [e1, e2, e3, Res.ok_bind]
      generalize seq.getD i 0 = c
      generalize g.labels.getD head 0 = lh
      have s1 : (lh = c) ↔ (c = lh) := eq_comm
      have s2 : (88 = c) ↔ (c = 88) := eq_comm
      cases nc <;> by_cases hc1 : c = lh <;> by_cases hc2 : c = 88 <;>
        simp [s1, s2, hc1, hc2, Rs.Poa.addEdge, G.addEdge, e3, h1, h2, l1, l2, l3]
    | some pq =>
      obtain ⟨a, p⟩ := pq
      have hpm : p < g.labels.length := Nat.lt_of_lt_of_le (hp a p rfl) h3
      have l4 := Nat.lt_succ_of_lt hpm
      have e2 : Rs.Poa.nodeWeight g p = ok (g.labels.getD p 0) := idx_getD _ _ _ hpm
      simp only [e1, e2, e3, Res.ok_bind]
      generalize seq.getD i 0 = c
      generalize g.labels.getD p 0 = lh
      have s1 : (lh = c) ↔ (c = lh) := eq_comm
      have s2 : (88 = c) ↔ (c = 88) := eq_comm
      have s3 : (head = prev) ↔ (prev = head) := eq_comm
      have s4 : (p = prev) ↔ (prev = p) := eq_comm
      cases hf : findEdge g.es prev p with
      | none =>
        by_cases hc1 : c = lh <;> by_cases hc2 : c = 88 <;> by_cases hp1 : prev = head <;> by_cases hp2 : prev = p <;>
          simp [s1, s2, s3, s4, hc1, hc2, hf, hp1, hp2, Rs.Poa.addEdge, G.addEdge, e3, h1, h2, hpm, l1, l2, l3, l4]
      | some k =>
        have hk := findEdge_lt g.es prev p k hf
        have hwk := h5 g.es[k] (List.getElem_mem hk)
        have e4 := edgeWeightAdd_ok' g k hk ⟨hwk.1, by have := hwk.2; omega⟩
        by_cases hc1 : c = lh <;> by_cases hc2 : c = 88 <;>
          simp [s1, s2, s3, s4, hc1, hc2, hf, e4, Rs.Poa.addEdge, G.addEdge, e3, h1, h2, hpm, l1, l2, l3, l4]
  | d pq => simp
  | i p =>
    have hil := hi.2 p rfl
    have e1 := idx_getD seq i 0 hil
    have e3 : Rs.add 64 i 1 = ok (i + 1) := Rs.add_ok (by omega)
    simp only [e1, e3, Res.ok_bind]
    cases p <;> cases nc <;> simp [Rs.Poa.addEdge, G.addEdge, e3, h1, h2, l1, l2, l3]
  | x r => simp
  | y a b => simp

theorem addStep_i (head : Nat) (seq : List Nat) (st : AddSt) (op : POp) :
    (addStep head seq st op).i = match op with
      | .m _ => st.i + 1
      | .i _ => st.i + 1
      | .d _ => st.i
      | .x _ => st.i
      | .y _ c => c := by
  obtain ⟨g, prev, i, nc⟩ := st
  cases op with
  | m pq =>
    cases pq with
    | none => simp only [addStep]; split <;> split <;> rfl
    | some pq => obtain ⟨a, p⟩ := pq; simp only [addStep]; split <;> rfl
  | d pq => rfl
  | i p => cases p <;> rfl
  | x r => rfl
  | y a b => rfl

theorem fold_total (seq : List Nat) (head m : Nat) (hn : seq.length < 2 ^ 64) : ∀ (ops : List POp) (st : AddSt),
    AInv head m ops.length st → SeqOK seq.length m st.i ops →
    List.foldlM (add_alignment_for1 seq head) (st.g, st.prev, st.i, st.notConnected) ops =
      ok (rep (ops.foldl (addStep head seq) st))
  | [], st, _, _ => by simp [rep]
  | op :: ops, st, hinv, hs => by
    have hi : (∀ pq, op = .m pq → st.i < seq.length) ∧ (∀ p, op = .i p → st.i < seq.length) := by
      constructor
      · intro pq hh; subst hh
        cases pq with
        | none => exact hs.1
        | some pq => obtain ⟨a, p⟩ := pq; exact hs.1
      · intro p hh; subst hh; exact hs.1
    have hp : ∀ a p, op = .m (some (a, p)) → p < m := by
      intro a p hh; subst hh; exact hs.2.1
    have e1 := for1_total seq head m ops.length st op hinv hn hi hp
    have hinv' := addStep_inv head m ops.length seq st op hinv hp
    have hs' : SeqOK seq.length m (addStep head seq st op).i ops := by
      rw [addStep_i]
      cases op with
      | m pq =>
        cases pq with
        | none => exact hs.2
        | some pq => obtain ⟨a, p⟩ := pq; exact hs.2.2
      | d pq => exact hs
      | i p => exact hs.2
      | x r => exact hs
      | y a b => exact hs
    simp only [List.foldlM_cons, e1, Res.ok_bind, List.foldl_cons]
    exact fold_total seq head m hn ops _ hinv' hs'

/-- **the translated `Poa::add_alignment` returns on every valid operation list** (and then returns the model's graph): non-empty
graph whose topological head is a node, sequence shorter than `2^64`, the list valid for sequence and graph (`SeqOK`), fewer than
`2^31 − 1` operations and every edge weight with room for that many increments (the explicit size hypothesis for `weight + 1`) -/
theorem add_alignment_total (g : G) (aln : Rs.Poa.Alignment) (seq : List Nat)
    (hh : ∃ hd, (topo g.labels.length g.es).head? = some hd ∧ hd < g.labels.length) (hn : seq.length < 2 ^ 64)
    (hK : (aln.operations.length : Int) < 2147483647)
    (hw : ∀ e ∈ g.es, -2147483648 ≤ e.2.2 ∧ e.2.2 + (aln.operations.length : Int) ≤ 2147483647)
    (hs : SeqOK seq.length g.labels.length 0 aln.operations) :
    add_alignment g aln seq = ok (addAlignment g aln.operations seq) := by
  obtain ⟨hd, hhd, hlt⟩ := hh
  have hD : (topo g.labels.length g.es).headD 0 = hd := by
    cases hl : topo g.labels.length g.es with
    | nil => rw [hl] at hhd; cases hhd
    | cons a l => rw [hl] at hhd; simp at hhd; simp [hhd]
  unfold add_alignment addAlignment
  simp only [Rs.Poa.topoOrder, hhd, Rs.expect_some, Res.ok_bind, hD]
  have := fold_total seq hd g.labels.length hn aln.operations { g := g, prev := hd }
    ⟨hlt, hlt, Nat.le_refl _, hK, hw⟩ hs
  simp only at this
  rw [this]
  simp [rep]

end RbV.Thm.GenSrcPoaAdd
