import RbV.Gen.SrcFastx
import RbV.Model.Fastq
/-!
# The translated sniffer `fastx::get_kind_detailed` / `get_kind` / `get_kind_seek` (`RbV/Gen/SrcFastx.lean`) against the model
`sniff` (C11)

The source `R: Read` is known through `read_exact(&mut [u8; 1])`, `seek(SeekFrom::Current(d))` and — for the reader that is
handed back — `io::Cursor::new(buf).chain(reader)`.  Instantiation (trusted reading of std): a source is the list of the bytes
it has not delivered yet (`get_kind`) resp. the file and a position (`get_kind_seek`); `read_exact` takes `buf.len()` bytes or
fails with `UnexpectedEof`; the chain of a cursor over `buf` and a source delivers `buf ++ source`.
-/
set_option linter.unusedSimpArgs false
set_option linter.unusedVariables false
namespace RbV.Thm.GenSrcFastx
open RbV RbV.Rs RbV.Fastx

def eofErr : IoErr := ⟨"UnexpectedEof", "failed to fill whole buffer"⟩

/-- the error for a first byte that is neither `>` nor `@` -/
def illegalStart (b : Nat) : IoErr :=
  IoErr.mk "InvalidData" (Rs.format "Not a valid FASTA/FASTQ, illegal start character '{}'" [b])

/-- `Read::read_exact(&mut buf)` on a source given by its pending bytes -/
def readExactOp (s : Bytes) (buf : Bytes) : Except IoErr Unit × Bytes × Bytes :=
  if buf.length ≤ s.length then (.ok (), s.drop buf.length, s.take buf.length) else (.error eofErr, [], buf)

/-- `io::Cursor::new(buf).chain(reader)` -/
def chainOp (buf : Bytes) (s : Bytes) : Bytes := buf ++ s

/-- the `Kind` of the generated file for the model's -/
def toKind : Fastx.Kind → Gen.SrcFastx.Kind
  | .fasta => Gen.SrcFastx.Kind.FASTA
  | .fastq => Gen.SrcFastx.Kind.FASTQ

/-- what the sniffer answers on a source holding `file` -/
def sniffRes (file : Bytes) : Except IoErr Gen.SrcFastx.Kind :=
  match file with
  | [] => .error eofErr
  | b :: _ => match sniff file with
    | some k => .ok (toKind k)
    | none => .error (illegalStart b)

/-- **`get_kind_detailed`**: at end of input the reader comes back with the `read_exact` error; otherwise the chained reader
delivers exactly the bytes of the original source again, together with the verdict on the first byte -/
theorem getKindDetailed_eq_model (file : Bytes) :
    Gen.SrcFastx.getKindDetailed readExactOp chainOp file =
      Res.ok (match file with
        | [] => .error ([], eofErr)
        | _ :: _ => .ok (file, sniffRes file)) := by
  cases file with
  | nil => simp [Gen.SrcFastx.getKindDetailed, readExactOp]
  | cons b r =>
    by_cases h62 : b = 62
    · subst h62; simp [Gen.SrcFastx.getKindDetailed, readExactOp, chainOp, Rs.idx, sniffRes, sniff, toKind]
    · by_cases h64 : b = 64
      · subst h64; simp [Gen.SrcFastx.getKindDetailed, readExactOp, chainOp, Rs.idx, sniffRes, sniff, toKind]
      · have hs : sniff (b :: r) = none := by
          unfold sniff
          split <;> simp_all
        simp only [Gen.SrcFastx.getKindDetailed, readExactOp, chainOp, Rs.idx, sniffRes, hs, illegalStart, List.length_cons,
          List.length_nil, Nat.le_add_left, if_true, Res.pure_eq_ok, Res.ok_bind, List.drop_succ_cons, List.drop_zero,
          List.take_succ_cons, List.take_zero, List.getElem?_cons_zero, List.cons_append, List.nil_append]
        first | done | (split <;> simp_all)

/-- **`get_kind`**: `Ok((chained reader, kind))` with the chained reader delivering the whole original input again, or the
error (`UnexpectedEof` on empty input, `InvalidData` for an illegal start character) -/
theorem getKind_eq_model (file : Bytes) :
    Gen.SrcFastx.getKind readExactOp chainOp file =
      Res.ok (match sniffRes file with
        | .ok k => .ok (file, k)
        | .error e => .error e) := by
  rw [Gen.SrcFastx.getKind, getKindDetailed_eq_model]
  cases file with
  | nil => simp [sniffRes]
  | cons b r => cases h : sniffRes (b :: r) <;> simp [h]

/-! ## `get_kind_seek` -/

/-- `read_exact` on a seekable source: the file and the position -/
def readExactAt (s : Bytes × Nat) (buf : Bytes) : Except IoErr Unit × (Bytes × Nat) × Bytes :=
  if s.2 + buf.length ≤ s.1.length then (.ok (), (s.1, s.2 + buf.length), (s.1.drop s.2).take buf.length)
  else (.error eofErr, (s.1, s.1.length), buf)

/-- `seek(SeekFrom::Current(d))` (never fails on positions that stay ≥ 0) -/
def seekCurOp (s : Bytes × Nat) (d : Int) : Except IoErr Nat × (Bytes × Nat) :=
  (.ok ((s.2 : Int) + d).toNat, (s.1, ((s.2 : Int) + d).toNat))

/-- **`get_kind_seek`** on a non-empty source at position 0: the verdict on the first byte, position unchanged -/
theorem getKindSeek_eq_model (b : Nat) (r : Bytes) :
    Gen.SrcFastx.getKindSeek readExactAt seekCurOp (b :: r, 0) = Res.ok (sniffRes (b :: r), (b :: r, 0)) := by
  by_cases h62 : b = 62
  · subst h62; simp [Gen.SrcFastx.getKindSeek, readExactAt, seekCurOp, Rs.idx, sniffRes, sniff, toKind]
  · by_cases h64 : b = 64
    · subst h64; simp [Gen.SrcFastx.getKindSeek, readExactAt, seekCurOp, Rs.idx, sniffRes, sniff, toKind]
    · have hs : sniff (b :: r) = none := by
        unfold sniff
        split <;> simp_all
      simp only [Gen.SrcFastx.getKindSeek, readExactAt, seekCurOp, Rs.idx, sniffRes, hs, illegalStart, List.length_cons,
        List.length_nil, Nat.zero_add, Nat.le_add_left, if_true, Res.pure_eq_ok, Res.ok_bind, List.drop_zero,
        List.take_succ_cons, List.take_zero, List.getElem?_cons_zero]
      first | done | rfl | (split <;> simp_all) | simp

/-- … and on an empty source: `UnexpectedEof` -/
theorem getKindSeek_empty :
    ∃ s, Gen.SrcFastx.getKindSeek readExactAt seekCurOp ([], 0) = Res.ok (.error eofErr, s) := by
  exact ⟨([], 0), by simp [Gen.SrcFastx.getKindSeek, readExactAt]⟩


/-! ## `EitherRecords::initialize` / `kind` -/

/-- the state of `EitherRecords` after sniffing a source that holds `file`, and what `kind()` answers: at end of input no
iterator ("Data is empty"); otherwise the iterator of the sniffed format over the chained reader — which delivers `file`
again —, or the `InvalidData` error of an illegal start character (the reader is gone then).  `fa` / `fq` stand for
`fasta::Reader::new(chain).records()` / `fastq::Reader::new(chain).records()`. -/
def eitherAfter {α β : Type} (fa : Bytes → α) (fq : Bytes → β) (file : Bytes) :
    Except IoErr Gen.SrcFastx.Kind × Option (α ⊕ β) :=
  match file with
  | [] => (.error ⟨"UnexpectedEof", "Data is empty"⟩, none)
  | b :: _ => match sniff file with
    | some .fasta => (.ok Gen.SrcFastx.Kind.FASTA, some (.inl (fa file)))
    | some .fastq => (.ok Gen.SrcFastx.Kind.FASTQ, some (.inr (fq file)))
    | none => (.error (illegalStart b), none)

/-- **`EitherRecords::initialize`** on a fresh object (`records: None, reader: Some(source)`) -/
theorem eitherInitialize_eq_model {α β : Type} (fa : Bytes → α) (fq : Bytes → β) (file : Bytes) :
    Gen.SrcFastx.eitherInitialize readExactOp chainOp fa fq none (some file) =
      Res.ok ((match (eitherAfter fa fq file).1, file with
                | .error e, _ :: _ => .error e
                | _, _ => .ok ()), (eitherAfter fa fq file).2, none) := by
  have hk : eofErr.kind = "UnexpectedEof" := rfl
  cases file with
  | nil => simp [Gen.SrcFastx.eitherInitialize, getKind_eq_model, sniffRes, eitherAfter, hk]
  | cons b r =>
    by_cases h62 : b = 62
    · subst h62; simp [Gen.SrcFastx.eitherInitialize, getKind_eq_model, sniffRes, eitherAfter, sniff, toKind]
    · by_cases h64 : b = 64
      · subst h64; simp [Gen.SrcFastx.eitherInitialize, getKind_eq_model, sniffRes, eitherAfter, sniff, toKind]
      · have hs : sniff (b :: r) = none := by
          unfold sniff
          split <;> simp_all
        have hi : ((illegalStart b).kind == "UnexpectedEof") = false := by simp [illegalStart]
        have hi' : ¬ (illegalStart b).kind = "UnexpectedEof" := by simp [illegalStart]
        simp [Gen.SrcFastx.eitherInitialize, getKind_eq_model, sniffRes, eitherAfter, hs, hi, hi']

/-- … and once the reader has been taken (`reader: None`), `initialize` does nothing -/
theorem eitherInitialize_again {α β : Type} (fa : Bytes → α) (fq : Bytes → β) (recs : Option (α ⊕ β)) :
    Gen.SrcFastx.eitherInitialize readExactOp chainOp fa fq recs none = Res.ok (.ok (), recs, none) := by
  simp [Gen.SrcFastx.eitherInitialize]

/-- **`EitherRecords::kind`** on a fresh object: the verdict of `sniff`, and the object now holds the iterator of that format
over a reader that delivers the whole input again -/
theorem eitherKind_eq_model {α β : Type} (fa : Bytes → α) (fq : Bytes → β) (file : Bytes) :
    Gen.SrcFastx.eitherKind readExactOp chainOp fa fq none (some file) =
      Res.ok ((eitherAfter fa fq file).1, (eitherAfter fa fq file).2, none) := by
  rw [Gen.SrcFastx.eitherKind, eitherInitialize_eq_model]
  cases file with
  | nil => simp [eitherAfter]
  | cons b r =>
    by_cases h62 : b = 62
    · subst h62; simp [eitherAfter, sniff]
    · by_cases h64 : b = 64
      · subst h64; simp [eitherAfter, sniff]
      · have hs : sniff (b :: r) = none := by
          unfold sniff
          split <;> simp_all
        simp [eitherAfter, hs]


/-! ## `EitherRecords::next` -/

/-- how `next` wraps an item of the FASTA iterator: `Ok(r)` ↦ `Ok(EitherRecord::FASTA(r))`, `Err(e)` ↦ `Err(Error::IO(e))` -/
def wrapFa {γ δ ε : Type} (x : Except IoErr γ) : Except (IoErr ⊕ ε) (γ ⊕ δ) := (x.map Sum.inl).mapError Sum.inl
/-- … of the FASTQ iterator: `Ok(EitherRecord::FASTQ(r))`, `Err(Error::FASTQ(e))` -/
def wrapFq {γ δ ε : Type} (x : Except ε δ) : Except (IoErr ⊕ ε) (γ ⊕ δ) := (x.map Sum.inr).mapError Sum.inr

/-- mapping the value and mapping the error of a `Result` commute (the two orders of `.map(..).map_err(..)`) -/
theorem map_mapError_comm {ε ε' α β : Type} (f : α → β) (g : ε → ε') (x : Except ε α) :
    Except.map f (Except.mapError g x) = Except.mapError g (Except.map f x) := by
  cases x <;> rfl

/-- **`EitherRecords::next`** once the reader has been taken: the call is handed to the iterator the object holds (its new
state is written back), the item wrapped; no iterator (empty input / illegal start before) — `None` -/
theorem eitherNext_eq_model {α β γ δ ε : Type} (fa : Bytes → α) (fq : Bytes → β)
    (faN : α → Option (Except IoErr γ) × α) (fqN : β → Option (Except ε δ) × β) (recs : Option (α ⊕ β)) :
    Gen.SrcFastx.eitherNext readExactOp chainOp fa fq faN fqN recs none =
      Res.ok (match recs with
        | some (.inl a) => ((faN a).1.map wrapFa, some (.inl (faN a).2), none)
        | some (.inr b) => ((fqN b).1.map wrapFq, some (.inr (fqN b).2), none)
        | none => (none, none, none)) := by
  rw [Gen.SrcFastx.eitherNext, eitherInitialize_again]
  rcases recs with _ | (a | b) <;> simp [wrapFa, wrapFq, map_mapError_comm] <;> rfl

/-- … and the first call on a fresh object: sniff, then the same dispatch; an illegal start character is reported as the
item `Some(Err(Error::IO(_)))` -/
theorem eitherNext_fresh {α β γ δ ε : Type} (fa : Bytes → α) (fq : Bytes → β)
    (faN : α → Option (Except IoErr γ) × α) (fqN : β → Option (Except ε δ) × β) (file : Bytes) :
    Gen.SrcFastx.eitherNext readExactOp chainOp fa fq faN fqN none (some file) =
      (match file, sniff file with
       | b :: _, none => Res.ok (some (.error (.inl (illegalStart b))), none, none)
       | _, _ => Gen.SrcFastx.eitherNext readExactOp chainOp fa fq faN fqN (eitherAfter fa fq file).2 none) := by
  rw [eitherNext_eq_model]
  rw [Gen.SrcFastx.eitherNext, eitherInitialize_eq_model]
  cases file with
  | nil => simp [eitherAfter, sniff]
  | cons b r =>
    by_cases h62 : b = 62
    · subst h62; simp [eitherAfter, sniff, wrapFa, map_mapError_comm]; rfl
    · by_cases h64 : b = 64
      · subst h64; simp [eitherAfter, sniff, wrapFq, map_mapError_comm]; rfl
      · have hs : sniff (b :: r) = none := by
          unfold sniff
          split <;> simp_all
        simp [eitherAfter, hs]


/-! ## `EitherRecords` drained -/

/-- an iterator `next` in `Res` as the pure abstract operation `EitherRecords::next` is translated against (where the
translated `next` does not return normally — never, on the inputs of the theorems — the iterator just ends) -/
def totalNext {σ a : Type} (nx : σ → Res (σ × Option a)) (s : σ) : Option a × σ :=
  match nx s with
  | .ok (s', o) => (o, s')
  | _ => (none, s)

/-- `EitherRecords` as an iterator state machine for `Rs.drain`: state = (`records`, `reader`) -/
def eitherSrcNext {α β γ δ ε : Type} (fa : Bytes → α) (fq : Bytes → β)
    (faN : α → Option (Except IoErr γ) × α) (fqN : β → Option (Except ε δ) × β) (st : Option (α ⊕ β) × Option Bytes) :
    Res ((Option (α ⊕ β) × Option Bytes) × Option (Except (IoErr ⊕ ε) (γ ⊕ δ))) := do
  let (o, recs, rd) ← Gen.SrcFastx.eitherNext readExactOp chainOp fa fq faN fqN st.1 st.2
  pure ((recs, rd), o)

/-- draining an initialised `EitherRecords` that holds the FASTA iterator = draining that iterator, items wrapped -/
theorem drain_either_fasta {α β γ δ ε : Type} (fa : Bytes → α) (fq : Bytes → β)
    (nx : α → Res (α × Option (Except IoErr γ))) (fqN : β → Option (Except ε δ) × β) :
    ∀ (n : Nat) (s : α) (items : List (Except IoErr γ)), Rs.drain nx n s = Res.ok items →
      Rs.drain (eitherSrcNext fa fq (totalNext nx) fqN) n (some (.inl s), none) =
        Res.ok (items.map (wrapFa (δ := δ) (ε := ε))) := by
  intro n
  induction n with
  | zero => intro s items h; simp [Rs.drain] at h
  | succ n ih =>
    intro s items h
    cases hq : nx s with
    | ok p =>
      obtain ⟨s', r⟩ := p
      have hstep : eitherSrcNext fa fq (totalNext nx) fqN (some (.inl s), none) =
          Res.ok ((some (.inl s'), none), r.map wrapFa) := by
        simp [eitherSrcNext, eitherNext_eq_model, totalNext, hq]
      cases r with
      | none =>
        have : items = [] := by simpa [Rs.drain, hq] using h.symm
        subst this
        simp [Rs.drain, hstep]
      | some a =>
        cases hd : Rs.drain nx n s' with
        | ok rest =>
          have : items = a :: rest := by simpa [Rs.drain, hq, hd] using h.symm
          subst this
          simp [Rs.drain, hstep, ih s' rest hd]
        | panic => simp [Rs.drain, hq, hd] at h
        | fuel => simp [Rs.drain, hq, hd] at h
    | panic => simp [Rs.drain, hq] at h
    | fuel => simp [Rs.drain, hq] at h

/-- … and the FASTQ iterator -/
theorem drain_either_fastq {α β γ δ ε : Type} (fa : Bytes → α) (fq : Bytes → β)
    (faN : α → Option (Except IoErr γ) × α) (nx : β → Res (β × Option (Except ε δ))) :
    ∀ (n : Nat) (s : β) (items : List (Except ε δ)), Rs.drain nx n s = Res.ok items →
      Rs.drain (eitherSrcNext fa fq faN (totalNext nx)) n (some (.inr s), none) =
        Res.ok (items.map (wrapFq (γ := γ))) := by
  intro n
  induction n with
  | zero => intro s items h; simp [Rs.drain] at h
  | succ n ih =>
    intro s items h
    cases hq : nx s with
    | ok p =>
      obtain ⟨s', r⟩ := p
      have hstep : eitherSrcNext fa fq faN (totalNext nx) (some (.inr s), none) =
          Res.ok ((some (.inr s'), none), r.map wrapFq) := by
        simp [eitherSrcNext, eitherNext_eq_model, totalNext, hq]
      cases r with
      | none =>
        have : items = [] := by simpa [Rs.drain, hq] using h.symm
        subst this
        simp [Rs.drain, hstep]
      | some a =>
        cases hd : Rs.drain nx n s' with
        | ok rest =>
          have : items = a :: rest := by simpa [Rs.drain, hq, hd] using h.symm
          subst this
          simp [Rs.drain, hstep, ih s' rest hd]
        | panic => simp [Rs.drain, hq, hd] at h
        | fuel => simp [Rs.drain, hq, hd] at h
    | panic => simp [Rs.drain, hq] at h
    | fuel => simp [Rs.drain, hq] at h

/-- the first `next` of a fresh object whose input starts with a legal character behaves like the first `next` of the
initialised object, so the drained sequences coincide -/
theorem drain_either_fresh {α β γ δ ε : Type} (fa : Bytes → α) (fq : Bytes → β)
    (faN : α → Option (Except IoErr γ) × α) (fqN : β → Option (Except ε δ) × β) (file : Bytes) (k : Fastx.Kind)
    (hk : sniff file = some k) (n : Nat) :
    Rs.drain (eitherSrcNext fa fq faN fqN) n (none, some file) =
      Rs.drain (eitherSrcNext fa fq faN fqN) n ((eitherAfter fa fq file).2, none) := by
  cases n with
  | zero => rfl
  | succ n =>
    have h1 : eitherSrcNext fa fq faN fqN (none, some file) =
        eitherSrcNext fa fq faN fqN ((eitherAfter fa fq file).2, none) := by
      simp only [eitherSrcNext]
      rw [eitherNext_fresh]
      cases file with
      | nil => simp [sniff] at hk
      | cons b r => simp [hk]
    simp only [Rs.drain, h1]

end RbV.Thm.GenSrcFastx
