import RbV.Gen.SrcFmdExt
import RbV.Model.FMDExt
import RbV.Thm.GenSrcTactics
/-!
# The translated text of the bi-interval operations of the FMD index equals the mirror model `FMDModel`

`RbV/Gen/SrcFmdExt.lean` is regenerated from `src/data_structures/fmindex.rs` by `tools/rs2lean_fm.py` (dialect "fmd")
on every `./check C06`: `BiInterval::swapped`, `FMDIndex::init_interval_with`, `init_interval`, `backward_ext`,
`forward_ext`.  `BiInterval` is the tuple `(lower, lower_rev, size, match_size)` (`toT` / `ofT`), the trait methods
`self.fmindex.less(a)` / `self.fmindex.occ(r, a)` are function parameters (`lessF`, `occF`), `dna::complement` is
`complF` (instantiated with the specification's `dnaCompl`).

Hypotheses = what keeps the checked `usize` / `u8` arithmetic from panicking (the model computes in `Nat` with truncated
subtraction): the interval is **non-empty** (so `lower + size - 1` does not underflow — this also leaves the value on
empty intervals free, which the property does: seeded change C06-H1), `occ` does not decrease between the two rows that
are read, no sum reaches `2^64`.  The companion `*_dead` statements say what the sweep needs of an extension of an *empty*
interval: it does not panic and is empty again.
-/
-- the simp sets name every fact a harmless rewrite of the Rust text may need; on the pinned text some are unused
set_option linter.unusedSimpArgs false
set_option linter.unusedVariables false

namespace RbV.Thm.GenSrcFmdExt
open RbV RbV.Rs RbV.Gen RbV.Thm.GenSrc RbV.FMDModel

/-- `BiInterval` as the translated code sees it: the tuple of its fields in declaration order -/
abbrev BiT := Nat × Nat × Nat × Nat

def toT (b : Bi) : BiT := (b.lower, b.lowerRev, b.size, b.matchSize)
def ofT (t : BiT) : Bi := ⟨t.1, t.2.1, t.2.2.1, t.2.2.2⟩

@[simp] theorem ofT_toT (b : Bi) : ofT (toT b) = b := rfl
@[simp] theorem toT_ofT (t : BiT) : toT (ofT t) = t := rfl
@[simp] theorem toT_1 (b : Bi) : (toT b).1 = b.lower := rfl
@[simp] theorem toT_2 (b : Bi) : (toT b).2.1 = b.lowerRev := rfl
@[simp] theorem toT_3 (b : Bi) : (toT b).2.2.1 = b.size := rfl
@[simp] theorem toT_4 (b : Bi) : (toT b).2.2.2 = b.matchSize := rfl

theorem toT_inj {a b : Bi} (h : toT a = toT b) : a = b := by
  have := congrArg ofT h
  simpa using this

theorem two8 : (2 : Nat) ^ 8 = 256 := by decide

/-! ### `swapped`, `init_interval_with`, `init_interval` -/

theorem swapped_eq_model (iv : Bi) :
    SrcFmdExt.swapped iv.lower iv.lowerRev iv.size iv.matchSize = Res.ok (toT (swapped iv)) := by
  simp [SrcFmdExt.swapped, toT, swapped]

/-- `init_interval_with(a)` for `a < 255` (`a + 1` is computed in `u8`) and `less(a) ≤ less(a + 1)` -/
theorem init_interval_with_eq_model (lessF : Nat → Nat) (a : Nat) (ha : a < 255) (hm : lessF a ≤ lessF (a + 1)) :
    SrcFmdExt.init_interval_with lessF dnaCompl a = Res.ok (toT (initIntervalWith lessF a)) := by
  have e1 : Rs.add 8 a 1 = Res.ok (a + 1) := Rs.add_ok (by rw [two8]; omega)
  have e1' : Rs.add 8 1 a = Res.ok (a + 1) := by rw [Nat.add_comm a 1]; exact Rs.add_ok (by rw [two8]; omega)
  have e2 : Rs.sub (lessF (a + 1)) (lessF a) = Res.ok (lessF (a + 1) - lessF a) := Rs.sub_ok hm
  simp [SrcFmdExt.init_interval_with, e1, e1', e2, toT, initIntervalWith]

theorem init_interval_eq_model (bwt : List Nat) :
    SrcFmdExt.init_interval bwt = Res.ok (toT (initInterval bwt.length)) := by
  simp [SrcFmdExt.init_interval, toT, initInterval]

/-! ### `backward_ext` -/

/-- the size the loop computes for symbol `b` -/
def sOf (occF : Nat → Nat → Nat) (iv : Bi) (b : Nat) : Nat :=
  occF (iv.lower + iv.size - 1) b - (if iv.lower = 0 then 0 else occF (iv.lower - 1) b)

/-- `occ` does not decrease between the two rows `backward_ext` reads, for the symbols of `ord` -/
def OccMono (occF : Nat → Nat → Nat) (iv : Bi) (ord : List Nat) : Prop :=
  ∀ b ∈ ord, (if iv.lower = 0 then 0 else occF (iv.lower - 1) b) ≤ occF (iv.lower + iv.size - 1) b

/-- the symbol loop follows `extLoop` (state order of the translation: `(l, o, s)`) -/
theorem for1_eq (lessF : Nat → Nat) (occF : Nat → Nat → Nat) (iv : Bi) (a : Nat) (hlo : 1 ≤ iv.lower + iv.size)
    (h64 : iv.lower + iv.size < 2 ^ 64) :
    ∀ (ord : List Nat) (l s o : Nat), OccMono occF iv ord →
      l + s + (ord.map (sOf occF iv)).sum < 2 ^ 64 →
      SrcFmdExt.backward_ext_for1 lessF occF (toT iv) a ord (l, o, s) =
        Res.ok ((extLoop occF iv a ord (l, s, o)).1, (extLoop occF iv a ord (l, s, o)).2.2,
          (extLoop occF iv a ord (l, s, o)).2.1) := by
  intro ord
  induction ord with
  | nil => intro l s o _ _; simp [SrcFmdExt.backward_ext_for1, extLoop]
  | cons b rest ih =>
    intro l s o hm hs
    simp only [List.map_cons, List.sum_cons] at hs
    have hmb := hm b (by simp)
    have hm' : OccMono occF iv rest := fun x hx => hm x (List.mem_cons_of_mem _ hx)
    have e1 : Rs.add 64 l s = Res.ok (l + s) := Rs.add_ok (by omega)
    have e1' : Rs.add 64 s l = Res.ok (l + s) := by rw [Nat.add_comm l s]; exact Rs.add_ok (by omega)
    have e3 : Rs.add 64 iv.lower iv.size = Res.ok (iv.lower + iv.size) := Rs.add_ok h64
    have e3' : Rs.add 64 iv.size iv.lower = Res.ok (iv.lower + iv.size) := by
      rw [Nat.add_comm iv.lower]; exact Rs.add_ok (by omega)
    have e4 : Rs.sub (iv.lower + iv.size) 1 = Res.ok (iv.lower + iv.size - 1) := Rs.sub_ok hlo
    have hstep := ih (l + s) (sOf occF iv b) (if iv.lower = 0 then 0 else occF (iv.lower - 1) b) hm'
      (by unfold sOf at hs ⊢; omega)
    by_cases h0 : iv.lower = 0
    · have e5 : Rs.sub (occF (iv.lower + iv.size - 1) b) 0 = Res.ok (occF (iv.lower + iv.size - 1) b) :=
        Rs.sub_ok (by omega)
      have hc : (iv.lower == 0) = true := by simp [h0]
      have hc' : (0 == iv.lower) = true := by simp [h0]
      have hm0 : (if iv.lower = 0 then 0 else occF (iv.lower - 1) b) = 0 := if_pos h0
      have hg : ¬ (0 < iv.lower) := by omega
      simp only [sOf, hm0, Nat.sub_zero] at hstep
      by_cases hb : b = a
      · subst hb
        simp [SrcFmdExt.backward_ext_for1, extLoop, e1, e1', e3, e3', e4, e5, hc, hc', hm0, hg]
      · have hb' : ¬ a = b := fun h => hb h.symm
        have hbq : (a == b) = false := by simp [hb']
        simp [SrcFmdExt.backward_ext_for1, extLoop, e1, e1', e3, e3', e4, e5, hc, hc', hm0, hg, hb, hb', hbq, hstep]
    · have e2 : Rs.sub iv.lower 1 = Res.ok (iv.lower - 1) := Rs.sub_ok (by omega)
      have hc : (iv.lower == 0) = false := by simp [h0]
      have hc' : (0 == iv.lower) = false := by simp; omega
      have hm0 : (if iv.lower = 0 then 0 else occF (iv.lower - 1) b) = occF (iv.lower - 1) b := if_neg h0
      have hg : 0 < iv.lower := by omega
      rw [hm0] at hmb
      have e5 : Rs.sub (occF (iv.lower + iv.size - 1) b) (occF (iv.lower - 1) b) =
          Res.ok (occF (iv.lower + iv.size - 1) b - occF (iv.lower - 1) b) := Rs.sub_ok hmb
      simp only [sOf, hm0] at hstep
      by_cases hb : b = a
      · subst hb
        simp [SrcFmdExt.backward_ext_for1, extLoop, e1, e1', e2, e3, e3', e4, e5, hc, hc', hm0, hg]
      · have hb' : ¬ a = b := fun h => hb h.symm
        have hbq : (a == b) = false := by simp [hb']
        simp [SrcFmdExt.backward_ext_for1, extLoop, e1, e1', e2, e3, e3', e4, e5, hc, hc', hm0, hg, hb, hb', hbq, hstep]

/-- the component of `extLoop`'s result that is added to `less(a)` is at most the `occ` value it was read from -/
theorem extLoop_o_le (occF : Nat → Nat → Nat) (iv : Bi) (a : Nat) (N : Nat)
    (hN : ∀ r b, occF r b ≤ N) : ∀ (ord : List Nat) (st : Nat × Nat × Nat), st.2.2 ≤ N →
      (extLoop occF iv a ord st).2.2 ≤ N := by
  intro ord
  induction ord with
  | nil => intro st h; simpa [extLoop] using h
  | cons b rest ih =>
    intro st h
    obtain ⟨l, s, o⟩ := st
    simp only [extLoop]
    have hb : (if iv.lower = 0 then 0 else occF (iv.lower - 1) b) ≤ N := by
      split
      · omega
      · exact hN _ _
    split
    · exact hb
    · exact ih _ hb

/-- **`backward_ext` on a non-empty interval**: the translated text computes the mirror model's bi-interval.
`N` bounds the values of `occ` (for the index: the text length). -/
theorem backward_ext_eq_model (lessF : Nat → Nat) (occF : Nat → Nat → Nat) (iv : Bi) (a N : Nat)
    (hpos : 0 < iv.size) (h64 : iv.lower + iv.size < 2 ^ 64) (hm : OccMono occF iv order)
    (hN : ∀ r b, occF r b ≤ N) (hsum : iv.lowerRev + (order.map (sOf occF iv)).sum < 2 ^ 64)
    (hk : lessF a + N < 2 ^ 64) (hms : iv.matchSize + 1 < 2 ^ 64) :
    SrcFmdExt.backward_ext lessF occF (toT iv) a = Res.ok (toT (backwardExt lessF occF iv a)) := by
  have hloop := for1_eq lessF occF iv a (by omega) h64 order iv.lowerRev 0 0 hm (by omega)
  have ho := extLoop_o_le occF iv a N hN order (iv.lowerRev, 0, 0) (by simp)
  have e6 : Rs.add 64 (lessF a) (extLoop occF iv a order (iv.lowerRev, 0, 0)).2.2 =
      Res.ok (lessF a + (extLoop occF iv a order (iv.lowerRev, 0, 0)).2.2) := Rs.add_ok (by omega)
  have e6' : Rs.add 64 (extLoop occF iv a order (iv.lowerRev, 0, 0)).2.2 (lessF a) =
      Res.ok (lessF a + (extLoop occF iv a order (iv.lowerRev, 0, 0)).2.2) := by
    rw [Nat.add_comm (lessF a)]; exact Rs.add_ok (by omega)
  have e7 : Rs.add 64 iv.matchSize 1 = Res.ok (iv.matchSize + 1) := Rs.add_ok hms
  have e7' : Rs.add 64 1 iv.matchSize = Res.ok (iv.matchSize + 1) := by
    rw [Nat.add_comm iv.matchSize]; exact Rs.add_ok (by omega)
  have hne : iv.size ≠ 0 := by omega
  have hne' : ¬ (0 = iv.size) := by omega
  have hres : toT (backwardExt lessF occF iv a) =
      (lessF a + (extLoop occF iv a order (iv.lowerRev, 0, 0)).2.2, (extLoop occF iv a order (iv.lowerRev, 0, 0)).1,
        (extLoop occF iv a order (iv.lowerRev, 0, 0)).2.1, iv.matchSize + 1) := rfl
  rw [hres]
  unfold order at hloop e6 e6' ⊢
  simp [SrcFmdExt.backward_ext, hloop, e6, e6', e7, e7', hne, hne']

/-! ### `forward_ext` -/

/-- **`forward_ext` on a non-empty interval** (hypotheses of `backward_ext_eq_model` for the swapped interval and the
complement symbol) -/
theorem forward_ext_eq_model (lessF : Nat → Nat) (occF : Nat → Nat → Nat) (iv : Bi) (a N : Nat)
    (hpos : 0 < iv.size) (h64 : iv.lowerRev + iv.size < 2 ^ 64) (hm : OccMono occF (swapped iv) order)
    (hN : ∀ r b, occF r b ≤ N) (hsum : iv.lower + (order.map (sOf occF (swapped iv))).sum < 2 ^ 64)
    (hk : lessF (dnaCompl a) + N < 2 ^ 64) (hms : iv.matchSize + 1 < 2 ^ 64) :
    SrcFmdExt.forward_ext lessF occF dnaCompl (toT iv) a = Res.ok (toT (forwardExt lessF occF iv a)) := by
  have hb := backward_ext_eq_model lessF occF (swapped iv) (dnaCompl a) N hpos h64 hm hN hsum hk hms
  have s1 := swapped_eq_model iv
  have s2 := swapped_eq_model (backwardExt lessF occF (swapped iv) (dnaCompl a))
  simp [SrcFmdExt.forward_ext, s1, hb, s2, forwardExt]

/-! ### extension of an *empty* interval (the dead start of `smems`: `pattern[i]` does not occur)

Stated without reference to the mirror model's value: the property does not say which empty bi-interval an extension
of an empty bi-interval is.  The pinned text runs the loop (every size is `occ(lower-1, b) - occ(lower-1, b) = 0`), a
text with an early exit for empty intervals (seeded change C06-H1) returns the interval itself. -/

/-- what the sweep needs of the extension `x` of the empty interval `iv`: no panic, empty again, bounds kept -/
def DeadOk (iv : Bi) (B : Nat) (pl pr : Prop) (x : Res BiT) : Prop :=
  match x with
  | .ok r => r.2.2.1 = 0 ∧ (pl → 1 ≤ r.1) ∧ r.1 ≤ B ∧ (pr → 1 ≤ r.2.1) ∧ r.2.1 ≤ B ∧ r.2.2.2 = iv.matchSize + 1
  | _ => False

theorem extLoop_dead (occF : Nat → Nat → Nat) (iv : Bi) (a : Nat) (h0 : iv.size = 0) (hl : iv.lower ≠ 0) :
    ∀ (ord : List Nat) (st : Nat × Nat × Nat), st.2.1 = 0 →
      (extLoop occF iv a ord st).1 = st.1 ∧ (extLoop occF iv a ord st).2.1 = 0
  | [], st, h => by simpa [extLoop] using h
  | b :: rest, (l, s, o), h => by
    simp only at h
    subst h
    simp only [extLoop, h0, if_neg hl, Nat.add_zero, Nat.sub_self]
    split
    · exact ⟨rfl, rfl⟩
    · exact extLoop_dead occF iv a h0 hl rest _ rfl

theorem sOf_dead (occF : Nat → Nat → Nat) (iv : Bi) (h0 : iv.size = 0) (hl : iv.lower ≠ 0) (b : Nat) :
    sOf occF iv b = 0 := by
  simp [sOf, h0, hl]

theorem sum_sOf_dead (occF : Nat → Nat → Nat) (iv : Bi) (h0 : iv.size = 0) (hl : iv.lower ≠ 0) :
    ∀ ord : List Nat, (ord.map (sOf occF iv)).sum = 0
  | [] => rfl
  | b :: rest => by simp [sOf_dead occF iv h0 hl b, sum_sOf_dead occF iv h0 hl rest]

/-- `backward_ext` of an empty interval with non-zero bounds `≤ B` -/
theorem backward_ext_dead (lessF : Nat → Nat) (occF : Nat → Nat → Nat) (iv : Bi) (a N B : Nat)
    (h0 : iv.size = 0) (hl : 1 ≤ iv.lower) (hlB : iv.lower ≤ B) (hr : 1 ≤ iv.lowerRev) (hrB : iv.lowerRev ≤ B)
    (hB : B < 2 ^ 64) (hN : ∀ r b, occF r b ≤ N) (hk : lessF a + N ≤ B)
    (hms : iv.matchSize + 1 < 2 ^ 64) :
    DeadOk iv B (1 ≤ lessF a) True (SrcFmdExt.backward_ext lessF occF (toT iv) a) := by
  have hl0 : iv.lower ≠ 0 := by omega
  have hm : OccMono occF iv order := by
    intro b _
    simp [h0, hl0]
  have hloop := for1_eq lessF occF iv a (by omega) (by omega) order iv.lowerRev 0 0 hm
    (by rw [sum_sOf_dead occF iv h0 hl0]; omega)
  have hd := extLoop_dead occF iv a h0 hl0 order (iv.lowerRev, 0, 0) rfl
  have ho := extLoop_o_le occF iv a N hN order (iv.lowerRev, 0, 0) (by simp)
  have e6 : Rs.add 64 (lessF a) (extLoop occF iv a order (iv.lowerRev, 0, 0)).2.2 =
      Res.ok (lessF a + (extLoop occF iv a order (iv.lowerRev, 0, 0)).2.2) := Rs.add_ok (by omega)
  have e6' : Rs.add 64 (extLoop occF iv a order (iv.lowerRev, 0, 0)).2.2 (lessF a) =
      Res.ok (lessF a + (extLoop occF iv a order (iv.lowerRev, 0, 0)).2.2) := by
    rw [Nat.add_comm (lessF a)]; exact Rs.add_ok (by omega)
  have e7 : Rs.add 64 iv.matchSize 1 = Res.ok (iv.matchSize + 1) := Rs.add_ok hms
  have e7' : Rs.add 64 1 iv.matchSize = Res.ok (iv.matchSize + 1) := by
    rw [Nat.add_comm iv.matchSize]; exact Rs.add_ok (by omega)
  have hd1 := hd.1
  have hd2 := hd.2
  simp only at hd1 hd2
  unfold order at hloop e6 e6' hd1 hd2 ho
  simp [DeadOk, SrcFmdExt.backward_ext, hloop, e6, e6', e7, e7', h0, hd1, hd2]
  all_goals (try omega)

/-- `forward_ext` of an empty interval with non-zero bounds `≤ B` -/
theorem forward_ext_dead (lessF : Nat → Nat) (occF : Nat → Nat → Nat) (iv : Bi) (a N B : Nat)
    (h0 : iv.size = 0) (hl : 1 ≤ iv.lower) (hlB : iv.lower ≤ B) (hr : 1 ≤ iv.lowerRev) (hrB : iv.lowerRev ≤ B)
    (hB : B < 2 ^ 64) (hN : ∀ r b, occF r b ≤ N) (hk : lessF (dnaCompl a) + N ≤ B)
    (hms : iv.matchSize + 1 < 2 ^ 64) :
    DeadOk iv B True (1 ≤ lessF (dnaCompl a)) (SrcFmdExt.forward_ext lessF occF dnaCompl (toT iv) a) := by
  have hb := backward_ext_dead lessF occF (swapped iv) (dnaCompl a) N B h0 hr hrB hl hlB hB hN hk hms
  have s1 := swapped_eq_model iv
  unfold DeadOk at hb
  split at hb
  · rename_i r hr'
    have hr'' : SrcFmdExt.backward_ext lessF occF (toT (swapped iv)) (dnaCompl a) = Res.ok r := hr'
    have s2 := swapped_eq_model (ofT r)
    simp only [ofT] at s2
    simp only [swapped] at hb
    obtain ⟨hb1, hb2, hb3, hb4, hb5, hb6⟩ := hb
    simp only [SrcFmdExt.forward_ext, toT_1, toT_2, toT_3, toT_4, s1, hr'', s2, Res.ok_bind, Res.pure_eq_ok, bind_pure_comp, pure_bind, map_pure]
    have hb4' := hb4 trivial
    simp [DeadOk, toT, swapped, hb1, hb6]
    refine ⟨?_, ?_, ?_, ?_⟩ <;> first | omega | exact hb2 | exact hb4 | (intro; omega)
  · exact absurd hb id

end RbV.Thm.GenSrcFmdExt
