import RbV.Gen.SrcPwCustom
import RbV.Thm.GenSrcPwModes
/-!
# The translated `Aligner::custom` does not write `self.scoring` (builder genalign; C01)

`custom_keeps_scoring`: `KeepsScoring` (of `Thm/GenSrcPwModes.lean`) for the translated `custom`, for every match function,
every tie-break and every fuel — so `mode_wrappers_source_restore_scoring` needs no hypothesis on `custom`.  The proof
walks every path of every translated helper backwards (`ks`: a weakest-precondition style traversal of the `do` block; it
does not look at what the statements compute, only at where an `Aligner` is re-bound), so it survives any edit of the text
that does not assign `self.scoring`.
-/
set_option linter.unusedVariables false
namespace RbV.Thm.GenSrcPwKeeps
open RbV RbV.Rs RbV.Gen.SrcPwTypes RbV.Gen.SrcPwCustom

/-- every normal result of `r` satisfies `Q` -/
def KQ {β : Type} (Q : β → Prop) (r : Res β) : Prop := ∀ b, r = .ok b → Q b

theorem kq_bind_any {α β : Type} (x : Res α) (f : α → Res β) (Q : β → Prop) (h : ∀ v, KQ Q (f v)) : KQ Q (x >>= f) := by
  intro b hb
  cases x with
  | ok a => exact h a b hb
  | panic => cases hb
  | fuel => cases hb

theorem kq_bind_A {β : Type} (sc0 : Scoring) (x : Res Aligner) (f : Aligner → Res β) (Q : β → Prop)
    (hx : KQ (fun s => s.scoring = sc0) x) (h : ∀ v, v.scoring = sc0 → KQ Q (f v)) : KQ Q (x >>= f) := by
  intro b hb
  cases x with
  | ok a => exact h a (hx a rfl) b hb
  | panic => cases hb
  | fuel => cases hb

theorem kq_bind_AC {β γ : Type} (sc0 : Scoring) (x : Res (Aligner × γ)) (f : Aligner × γ → Res β) (Q : β → Prop)
    (hx : KQ (fun p => p.1.scoring = sc0) x) (h : ∀ v, v.1.scoring = sc0 → KQ Q (f v)) : KQ Q (x >>= f) := by
  intro b hb
  cases x with
  | ok a => exact h a (hx a rfl) b hb
  | panic => cases hb
  | fuel => cases hb

theorem kq_foldlM {ι : Type} (sc0 : Scoring) (g : Aligner → ι → Res Aligner) (l : List ι) (a : Aligner)
    (hg : ∀ s i, s.scoring = sc0 → KQ (fun s' => s'.scoring = sc0) (g s i)) (ha : a.scoring = sc0) :
    KQ (fun s' => s'.scoring = sc0) (List.foldlM g a l) := by
  induction l generalizing a with
  | nil => intro b hb; simp only [List.foldlM_nil, Res.pure_eq_ok, Res.ok.injEq] at hb; subst hb; exact ha
  | cons i l ih =>
    rw [List.foldlM_cons]
    exact kq_bind_A sc0 _ _ _ (hg a i ha) (fun v hv => ih v hv)

theorem kq_panic {β : Type} (Q : β → Prop) : KQ Q (Res.panic : Res β) := fun b hb => by cases hb
theorem kq_fuel {β : Type} (Q : β → Prop) : KQ Q (Res.fuel : Res β) := fun b hb => by cases hb

/-- one step of the traversal (`sc0` = the name of the scoring the invariant speaks about) -/
macro "ks_step" s:ident : tactic => `(tactic| first
  | exact kq_panic _
  | exact kq_fuel _
  | refine kq_bind_A $s _ _ _ ?_ (fun v hv => ?_)
  | (refine kq_bind_AC $s _ _ _ ?_ (fun v hv => ?_); rotate_left; (obtain ⟨v1, v2⟩ := v; dsimp only at hv ⊢); rotate_left)
  | (refine kq_bind_any _ _ _ (fun v => ?_);
     try (have hprod : ∃ a b, v = (a, b) := ⟨_, _, rfl⟩; clear hprod; obtain ⟨v1, v2⟩ := v; dsimp only))
  | split
  | (intro b hb; cases hb; try dsimp only; first | assumption | (simp only [*]))
  | (intro b hb; simp only [Res.pure_eq_ok, Res.ok.injEq] at hb; subst hb; try dsimp only; first | assumption | (simp only [*])))

/-- the whole traversal -/
macro "ks" s:ident : tactic => `(tactic| ((repeat' ks_step $s) <;> (try assumption)))

theorem for2_keeps (w : Nat → Nat → Int) (iT dT snT sn0T : Int → Int → Bool) (m n k : Nat) (self : Aligner) (i : Nat)
    (sc0 : Scoring) (h0 : self.scoring = sc0) :
    KQ (fun s => s.scoring = sc0) (custom_for2 w iT dT snT sn0T m n k self i) := by
  unfold custom_for2
  ks sc0

theorem for1_keeps (w : Nat → Nat → Int) (iT dT snT sn0T : Int → Int → Bool) (m n : Nat) (self : Aligner) (k : Nat)
    (sc0 : Scoring) (h0 : self.scoring = sc0) :
    KQ (fun s => s.scoring = sc0) (custom_for1 w iT dT snT sn0T m n self k) := by
  unfold custom_for1
  ks sc0
  all_goals (first | (refine kq_foldlM sc0 _ _ _ (fun s i hs => for2_keeps _ _ _ _ _ _ _ _ s i sc0 hs) ?_; assumption) | skip)

theorem for4_keeps (w : Nat → Nat → Int) (iT dT snT sn0T : Int → Int → Bool) (curr : Nat) (self : Aligner) (i : Nat)
    (sc0 : Scoring) (h0 : self.scoring = sc0) :
    KQ (fun s => s.scoring = sc0) (custom_for4 w iT dT snT sn0T curr self i) := by
  unfold custom_for4
  ks sc0

theorem for5_keeps (w : Nat → Nat → Int) (iT dT snT sn0T : Int → Int → Bool) (x : List Nat) (m n j curr prev q : Nat)
    (xc : Int) (self : Aligner) (i : Nat) (sc0 : Scoring) (h0 : self.scoring = sc0) :
    KQ (fun s => s.scoring = sc0) (custom_for5 w iT dT snT sn0T x m n j curr prev q xc self i) := by
  unfold custom_for5
  ks sc0

theorem for3_keeps (w : Nat → Nat → Int) (iT dT snT sn0T : Int → Int → Bool) (x y : List Nat) (m n : Nat) (self : Aligner)
    (j : Nat) (sc0 : Scoring) (h0 : self.scoring = sc0) :
    KQ (fun s => s.scoring = sc0) (custom_for3 w iT dT snT sn0T x y m n self j) := by
  unfold custom_for3
  ks sc0
  all_goals (first
    | (refine kq_foldlM sc0 _ _ _ (fun s i hs => for4_keeps _ _ _ _ _ _ s i sc0 hs) ?_; assumption)
    | (refine kq_foldlM sc0 _ _ _ (fun s i hs => for5_keeps _ _ _ _ _ _ _ _ _ _ _ _ _ s i sc0 hs) ?_; assumption)
    | skip)

theorem for6_keeps (w : Nat → Nat → Int) (iT dT snT sn0T : Int → Int → Bool) (m n : Nat) (self : Aligner) (i : Nat)
    (sc0 : Scoring) (h0 : self.scoring = sc0) :
    KQ (fun s => s.scoring = sc0) (custom_for6 w iT dT snT sn0T m n self i) := by
  unfold custom_for6
  ks sc0

theorem for7_keeps (w : Nat → Nat → Int) (iT dT snT sn0T : Int → Int → Bool) (m n : Nat) (self : Aligner) (i : Nat)
    (sc0 : Scoring) (h0 : self.scoring = sc0) :
    KQ (fun s => s.scoring = sc0) (custom_for7 w iT dT snT sn0T m n self i) := by
  unfold custom_for7
  ks sc0

theorem custom_keeps (w : Nat → Nat → Int) (iT dT snT sn0T : Int → Int → Bool) (self : Aligner) (x y : List Nat) (fuel : Nat)
    (sc0 : Scoring) (h0 : self.scoring = sc0) :
    KQ (fun p => p.2.scoring = sc0) (custom w iT dT snT sn0T self x y fuel) := by
  unfold custom
  ks sc0
  all_goals (first
    | (refine kq_foldlM sc0 _ _ _ (fun s i hs => for1_keeps _ _ _ _ _ _ _ s i sc0 hs) ?_; assumption)
    | (refine kq_foldlM sc0 _ _ _ (fun s i hs => for2_keeps _ _ _ _ _ _ _ _ s i sc0 hs) ?_; assumption)
    | (refine kq_foldlM sc0 _ _ _ (fun s i hs => for3_keeps _ _ _ _ _ _ _ _ _ s i sc0 hs) ?_; assumption)
    | (refine kq_foldlM sc0 _ _ _ (fun s i hs => for6_keeps _ _ _ _ _ _ _ s i sc0 hs) ?_; assumption)
    | (refine kq_foldlM sc0 _ _ _ (fun s i hs => for7_keeps _ _ _ _ _ _ _ s i sc0 hs) ?_; assumption)
    | skip)

/-- **the translated `Aligner::custom` does not write `self.scoring`** — for every match function, every tie-break, every
fuel -/
theorem custom_keeps_scoring (w : Nat → Nat → Int) (iT dT snT sn0T : Int → Int → Bool) (fuel : Nat) :
    GenSrcPwModes.KeepsScoring (fun s x y => custom w iT dT snT sn0T s x y fuel) := by
  intro s x y al s' h
  exact custom_keeps w iT dT snT sn0T s x y fuel s.scoring rfl (al, s') h

end RbV.Thm.GenSrcPwKeeps
