import RbV.Basic.RsSem
/-!
Shared lemmas for the equality proofs `RbV/Thm/GenSrc*.lean` (translated function bodies, docs/notes/GEN.md):
a fixed-size vector that the Rust code indexes by a byte is the tabulation `tab n f` of the function the mirror model
uses.
-/
-- the simp sets name every fact a harmless rewrite of the Rust text may need; on the pinned text some are unused
set_option linter.unusedSimpArgs false

namespace RbV.Thm.GenSrc
open RbV RbV.Rs

/-- the `n`-entry vector of a function -/
def tab (n : Nat) (f : Nat → Nat) : List Nat := (List.range n).map f

theorem tab_length (n : Nat) (f : Nat → Nat) : (tab n f).length = n := by simp [tab]

theorem tab_get (n : Nat) (f : Nat → Nat) (c : Nat) (h : c < n) : (tab n f)[c]? = some (f c) := by
  simp [tab, h]

theorem tab_const (n v : Nat) : List.replicate n v = tab n (fun _ => v) := by
  rw [tab, List.map_const', List.length_range]

theorem tab_set (n : Nat) (f : Nat → Nat) (c v : Nat) (h : c < n) :
    (tab n f).set c v = tab n (fun x => if x = c then v else f x) := by
  apply List.ext_getElem?
  intro i
  by_cases hi : i < n
  · rw [tab_get _ _ _ hi, List.getElem?_set]
    by_cases hic : c = i
    · subst hic
      simp [tab_length, h]
    · have hci : ¬ i = c := fun e => hic e.symm
      simp [hic, hci, tab_get _ _ _ hi]
  · rw [List.getElem?_eq_none (by simp [tab_length]; omega), List.getElem?_eq_none (by simp [tab_length]; omega)]

theorem idx_tab (n : Nat) (f : Nat → Nat) (c : Nat) (h : c < n) : Rs.idx (tab n f) c = Res.ok (f c) :=
  Rs.idx_of_getElem? (tab_get n f c h)

theorem setIdx_tab (n : Nat) (f : Nat → Nat) (c v : Nat) (h : c < n) :
    Rs.setIdx (tab n f) c v = Res.ok (tab n (fun x => if x = c then v else f x)) := by
  rw [Rs.setIdx_ok (by rw [tab_length]; exact h), tab_set n f c v h]

/-! ### a vector element that is written and read back -/

theorem getD_of_lt {α : Type} (l : List α) (i : Nat) (d : α) (h : i < l.length) : l.getD i d = l[i] := by
  rw [List.getD_eq_getElem?_getD, List.getElem?_eq_getElem h]; rfl

theorem idx_getD {α : Type} (l : List α) (i : Nat) (d : α) (h : i < l.length) : Rs.idx l i = Res.ok (l.getD i d) := by
  rw [getD_of_lt l i d h]; exact Rs.idx_ok h

theorem idx_set_self {α : Type} (l : List α) (i : Nat) (v : α) (h : i < l.length) :
    Rs.idx (l.set i v) i = Res.ok v :=
  Rs.idx_of_getElem? (by simp [h])

theorem setIdx_set {α : Type} (l : List α) (i : Nat) (v v' : α) (h : i < l.length) :
    Rs.setIdx (l.set i v) i v' = Res.ok (l.set i v') := by
  rw [Rs.setIdx_ok (by simpa using h), List.set_set]

/-- a pre-allocated vector `acc ++ 0…0` filled from the left: writing slot `acc.length` appends to `acc` -/
theorem setIdx_append_replicate {α : Type} (acc : List α) (n : Nat) (z v : α) :
    Rs.setIdx (acc ++ List.replicate (n + 1) z) acc.length v = Res.ok ((acc ++ [v]) ++ List.replicate n z) := by
  rw [Rs.setIdx_ok (by simp)]
  congr 1
  rw [List.replicate_succ, List.set_append_right _ _ (Nat.le_refl _)]
  simp

/-- the head of `l.drop r` is `l[r]` -/
theorem getElem?_of_drop_eq_cons {α : Type} (l : List α) (r : Nat) (a : α) (rest : List α) (h : a :: rest = l.drop r) :
    l[r]? = some a ∧ rest = l.drop (r + 1) := by
  have h1 : (l.drop r)[0]? = some a := by rw [← h]; simp
  rw [List.getElem?_drop] at h1
  have h1' : l[r]? = some a := by simpa using h1
  refine ⟨h1', ?_⟩
  have hr : r < l.length := (List.getElem?_eq_some_iff.mp h1').1
  have : l.drop r = l[r] :: l.drop (r + 1) := List.drop_eq_getElem_cons hr
  rw [← h] at this
  exact (List.cons.inj this).2

end RbV.Thm.GenSrc
