import RbV.Thm.GenSrcGff
/-! **Soft** (registered with `soft_modules` in `tools/gen_tables.py`; not imported by `Thm/C13.lean`): the exact byte equality of
`gff::Writer::write` *including the order of the key groups* — the translated writer emits the groups in the map's own iteration
order.  A text that sorts the keys (seeded C13-H1) satisfies the hard theorem `GenSrcGff.write_fields_perm` but not these; a failure
here is a note, never a broken obligation.  Builder gengff. -/
set_option linter.unusedSimpArgs false
set_option linter.unusedVariables false
namespace RbV.Thm.GenSrcGffExact
open RbV RbV.Rs RbV.Tsv RbV.Gen.SrcGff RbV.Thm.GenSrcGff
open RbV.Thm.GenSrcBed (csvSerialize)

/-- the exact form for a text that iterates in the map's own order (the current one): soft in spirit — a text that sorts the keys
satisfies `write_fields_perm` but not this; it is used by the round-trip composition, where the order carries no information -/
theorem write_fields {ω ρ : Type} (serialize : ω → List (List Nat) → ρ)
    (perm : List (List Nat × List (List Nat)) → List (List Nat × List (List Nat)))
    (inner : ω) (d : Dialect) (self : Writer) (r : Record)
    (hw : WriterFor d self) (hg : ∀ kv ∈ r.attributes, kv.2 ≠ []) :
    write serialize toDec perm inner self r = serialize inner (gffFields d (toModel r)) := by
  obtain ⟨dl, t, vd, rep⟩ := d
  obtain ⟨sd, st, sv⟩ := self
  obtain ⟨h1, h2, h3, h4, h5, h6⟩ := hw
  simp only at h1 h2 h3 h4 h5 h6
  subst h2
  rw [← h1, ← h3] at *
  clear h1 h3 dl vd
  generalize sd = dl at *
  generalize sv = vd at *
  have e1 := Rs.charStr_ascii dl h5
  have e2 := Rs.charStr_ascii vd h6
  have hnil : writeAttrs ⟨dl, t, vd, rep⟩ [] = [] := rfl
  have hP : List.Perm r.attributes r.attributes := List.Perm.refl _
  gff_core r.attributes

/-- `write` appends exactly `gffLine d` of the record (attributes in the iteration order of the map) and a line feed -/
theorem write_eq_model (perm : List (List Nat × List (List Nat)) → List (List Nat × List (List Nat)))
    (w : List Nat) (d : Dialect) (self : Writer) (r : Record) (hw : WriterFor d self)
    (hg : ∀ kv ∈ r.attributes, kv.2 ≠ []) :
    write csvSerialize toDec perm w self r = (.ok (), w ++ (gffLine d (toModel r) ++ [LF])) := by
  rw [write_fields csvSerialize perm w d self r hw hg]; rfl

end RbV.Thm.GenSrcGffExact
