import RbV.Thm.GenSrcBandedFill
/-!
One whole iteration of the main-loop cell of `banded::Aligner::compute_alignment` (`fillColumns_for3` of
`RbV/Gen/SrcBandedFill.lean`): the reads, the `i32` sums, the candidate chains, the writes of `S/I/D[curr][i]`, the two trackers
(`S[curr][m]` / `Lx[j]`, `Sn[i]` / `Ly[i]`) and `traceback.set(i, j, tb)`, for every column `1 ≤ j ≤ n` (the last one with the
`clip_score` candidate).  Level: the **values** of the arrays after the iteration are determined (`cellStep` of the mirror, the
trackers are maxima) and the cell written at `(i, j)` **explains** them; `Lx`, `Ly` and the traceback codes on ties are
existentially quantified (soft).
-/
set_option linter.unusedSimpArgs false
set_option linter.unusedVariables false
namespace RbV.Thm.GenSrcBandedCell
open RbV RbV.Gen RbV.Rs RbV.Rs.Res RbV.Align RbV.Gen.TbCodes RbV.Gen.SrcBandedFill RbV.Thm.GenSrcBandedFill
open RbV.Model.BandedDP (pickI pickD pickS cellStep)

abbrev ScT := Int × Int × Option (Int × Int) × Int × Int × Int × Int
abbrev BandT := Nat × Nat × List (Nat × Nat)
abbrev St (Tbm : Type) := List (List Int) × List (List Int) × List (List Int) × List Nat × List Nat × List Int × Tbm × ScT × BandT × Nat × Nat

theorem idx_getD {α : Type} (l : List α) (i : Nat) (d : α) (h : i < l.length) : Rs.idx l i = ok (l.getD i d) := by
  rw [Rs.idx_ok h]; simp [List.getD, List.getElem?_eq_getElem h]

theorem getD_set_self {α : Type} (l : List α) (i : Nat) (v d : α) (h : i < l.length) : (l.set i v).getD i d = v := by
  simp [List.getD, h]

theorem getD_set_ne {α : Type} (l : List α) (i k : Nat) (v d : α) (h : i ≠ k) : (l.set i v).getD k d = l.getD k d := by
  simp [List.getD, List.getElem?_set_ne h]

/-- row `k` of a two-row array, cell `i` of it -/
def rd (A : List (List Int)) (k i : Nat) : Int := (A.getD k []).getD i 0
/-- `A[k][i] = v` -/
def wr (A : List (List Int)) (k i : Nat) (v : Int) : List (List Int) := A.set k ((A.getD k []).set i v)

/-- shape of the DP arrays of an aligner for `|x| = m`, `|y| = n` -/
structure Dims (S I D : List (List Int)) (Lx Ly : List Nat) (Sn : List Int) (m n : Nat) : Prop where
  s2 : S.length = 2
  i2 : I.length = 2
  d2 : D.length = 2
  srow : ∀ k, k < 2 → (S.getD k []).length = m + 1
  irow : ∀ k, k < 2 → (I.getD k []).length = m + 1
  drow : ∀ k, k < 2 → (D.getD k []).length = m + 1
  lx : Lx.length = n + 1
  ly : Ly.length = m + 1
  sn : Sn.length = m + 1

theorem wr_len (A : List (List Int)) (k i : Nat) (v : Int) : (wr A k i v).length = A.length := by simp [wr]
theorem wr_row (A : List (List Int)) (k i : Nat) (v : Int) (hk : k < A.length) :
    (wr A k i v).getD k [] = (A.getD k []).set i v := by unfold wr; exact getD_set_self _ _ _ _ hk
theorem wr_row_ne (A : List (List Int)) (k k' i : Nat) (v : Int) (h : k ≠ k') : (wr A k i v).getD k' [] = A.getD k' [] := by
  unfold wr; exact getD_set_ne _ _ _ _ _ h
theorem wr_rowlen (A : List (List Int)) (k k' i : Nat) (v : Int) (hk : k < A.length) :
    ((wr A k i v).getD k' []).length = (A.getD k' []).length := by
  by_cases h : k = k'
  · subst h; rw [wr_row _ _ _ _ hk]; simp
  · rw [wr_row_ne _ _ _ _ _ h]

theorem setIdx2 (A : List (List Int)) (k i : Nat) (v : Int) (hk : k < A.length) (hi : i < (A.getD k []).length) :
    (Rs.idx A k >>= fun r => Rs.setIdx r i v >>= fun r' => Rs.setIdx A k r') = ok (wr A k i v) := by
  rw [idx_getD A k [] hk]; simp only [ok_bind]
  rw [Rs.setIdx_ok hi]; simp only [ok_bind]
  rw [Rs.setIdx_ok hk]; rfl

section
variable {Tbm : Type} (matchFn : Nat → Nat → Int) (tbGet : Tbm → Nat → Nat → Cell) (tbSet : Tbm → Nat → Nat → Cell → Tbm)

/-- `gap_open_after_yclip(i, n)` as translated: nothing if the path clipped at `Sn[i]` ends with an insertion (the S field of
`(i, n − Ly[i])` is `TB_INS`), `gap_open` otherwise — the repaired transition of 1d30e2c -/
theorem gapOpenAfterYclip_eq (S I D : List (List Int)) (Lx Ly : List Nat) (Sn : List Int) (T : Tbm) (sc : ScT) (b : BandT) (k w : Nat)
    (i n : Nat) (hi : i < Ly.length) (hly : Ly.getD i 0 ≤ n) :
    gapOpenAfterYclip matchFn tbGet tbSet (S, I, D, Lx, Ly, Sn, T, sc, b, k, w) i n =
      ok (if fS (tbGet T i (n - Ly.getD i 0)) = tbIns then 0 else sc.1) := by
  unfold gapOpenAfterYclip
  simp only [idx_getD Ly i 0 hi, ok_bind, Rs.sub_ok hly, pure_eq_ok, fS, beq_iff_eq]
  by_cases h : (tbGet T i (n - Ly.getD i 0)).2.2 = tbIns <;> simp [h]

/-- the last-column candidate of the I layer (`clip_score`) -/
theorem if2_last (S I D : List (List Int)) (Lx Ly : List Nat) (Sn : List Int) (T : Tbm) (sc : ScT) (bd : BandT) (k w : Nat)
    (n i : Nat) (tb : Cell) (b goy : Int) (hi : 1 ≤ i) (hsn : i - 1 < Sn.length)
    (hgy : gapOpenAfterYclip matchFn tbGet tbSet (S, I, D, Lx, Ly, Sn, T, sc, bd, k, w) (i - 1) n = ok goy)
    (o1 : Rs.InS 32 (Sn.getD (i - 1) 0 + goy)) (o2 : Rs.InS 32 (Sn.getD (i - 1) 0 + goy + sc.2.1)) :
    ∃ tb' v, fillColumns_for3_if2 matchFn tbGet tbSet (S, I, D, Lx, Ly, Sn, T, sc, bd, k, w) n n i (tb, b) = ok (tb', v) ∧
      v = max (Sn.getD (i - 1) 0 + goy + sc.2.1) b ∧ fD tb' = fD tb ∧ fS tb' = fS tb ∧
      ((fI tb' = fI tb ∧ v = b) ∨ (fI tb' = tbYclipSuffix ∧ v = Sn.getD (i - 1) 0 + goy + sc.2.1)) := by
  unfold fillColumns_for3_if2
  simp only [beq_self_eq_true, if_true, Rs.sub_ok hi, ok_bind, idx_getD Sn (i - 1) 0 hsn, hgy, Rs.iadd_ok o1, Rs.iadd_ok o2,
    pure_eq_ok, bind_pure_comp, fS, fI, fD]
  split
  · rename_i h
    refine ⟨_, _, rfl, ?_, rfl, rfl, Or.inr ⟨rfl, rfl⟩⟩
    simp only [decide_eq_true_eq, gt_iff_lt, ge_iff_le] at h; omega
  · rename_i h
    refine ⟨_, _, rfl, ?_, rfl, rfl, Or.inl ⟨rfl, rfl⟩⟩
    simp only [decide_eq_true_eq, gt_iff_lt, ge_iff_le] at h; omega

/-- `if i == m { tb.set_s_bits(TB_XCLIP_SUFFIX) } else { S[curr][i] = MIN_SCORE }` -/
theorem if4_eq (S I D : List (List Int)) (Lx Ly : List Nat) (Sn : List Int) (T : Tbm) (sc : ScT) (bd : BandT) (k w : Nat)
    (m curr i : Nat) (tb : Cell) (hc : curr < S.length) (hi : i < (S.getD curr []).length) :
    fillColumns_for3_if4 matchFn tbGet tbSet m curr i ((S, I, D, Lx, Ly, Sn, T, sc, bd, k, w), tb) =
      ok (((if i = m then S else wr S curr i RbV.Gen.Limits.minScorePairwise), I, D, Lx, Ly, Sn, T, sc, bd, k, w),
          (if i = m then (tb.1, tb.2.1, tbXclipSuffix) else tb)) := by
  unfold fillColumns_for3_if4
  by_cases h : i = m
  · subst h; simp
  · simp only [h, beq_iff_eq, if_false, pure_eq_ok, bind_pure_comp, ok_bind,
      idx_getD S curr [] hc, Rs.setIdx_ok hi, Rs.setIdx_ok hc]
    rfl

theorem rd_wr_self (A : List (List Int)) (k i : Nat) (v : Int) (hk : k < A.length) (hi : i < (A.getD k []).length) :
    rd (wr A k i v) k i = v := by
  unfold rd; rw [wr_row _ _ _ _ hk]; exact getD_set_self _ _ _ _ hi

theorem set_self {α : Type} (l : List α) (i : Nat) (d : α) (hi : i < l.length) : l.set i (l.getD i d) = l := by
  apply List.ext_getElem?; intro t
  by_cases h : i = t
  · subst h
    simp only [List.getD, List.getElem?_eq_getElem hi, Option.getD_some, List.getElem?_set_self hi]
  · simp [List.getElem?_set_ne h]

theorem wr_self (A : List (List Int)) (k i : Nat) (hk : k < A.length) (hi : i < (A.getD k []).length) :
    wr A k i (rd A k i) = A := by
  unfold wr rd
  rw [set_self (A.getD k []) i 0 hi, set_self A k [] hk]

/-- the x-suffix tracker: `S[curr][m]` becomes the better of itself and `S[curr][i] + xclip_suffix`; `Lx[j]` and the S field of
`(m, j)` follow (which of them on a tie is not stated) -/
theorem if10_eq (S I D : List (List Int)) (Lx Ly : List Nat) (Sn : List Int) (T : Tbm) (sc : ScT) (bd : BandT) (k w : Nat)
    (m j curr i : Nat) (hc : curr < S.length) (hi : i < (S.getD curr []).length) (hm : m < (S.getD curr []).length)
    (him : i ≤ m) (hj : j < Lx.length) (o : Rs.InS 32 (rd S curr i + sc.2.2.2.2.1)) :
    ∃ Lx' T', fillColumns_for3_if10 matchFn tbGet tbSet m j curr i (S, I, D, Lx, Ly, Sn, T, sc, bd, k, w) =
        ok (wr S curr m (max (rd S curr m) (rd S curr i + sc.2.2.2.2.1)), I, D, Lx', Ly, Sn, T', sc, bd, k, w) ∧
      Lx'.length = Lx.length := by
  unfold fillColumns_for3_if10
  have o' : Rs.InS 32 ((S.getD curr []).getD i 0 + sc.2.2.2.2.1) := o
  simp only [Rs.iadd_ok o', idx_getD S curr [] hc, ok_bind, idx_getD (S.getD curr []) i 0 hi, idx_getD (S.getD curr []) m 0 hm,
    Rs.iadd_ok o, pure_eq_ok, bind_pure_comp]
  split
  · rename_i h
    simp only [decide_eq_true_eq, gt_iff_lt, ge_iff_le] at h
    simp only [Rs.setIdx_ok hm, Rs.setIdx_ok hc, ok_bind, Rs.sub_ok him, Rs.setIdx_ok hj, Functor.map, Res.bind]
    have e : max (rd S curr m) (rd S curr i + sc.2.2.2.2.1) = rd S curr i + sc.2.2.2.2.1 := by unfold rd at *; omega
    rw [e]
    exact ⟨_, _, rfl, List.length_set⟩
  · rename_i h
    simp only [decide_eq_true_eq, gt_iff_lt, ge_iff_le] at h
    refine ⟨Lx, T, ?_, rfl⟩
    have e : max (rd S curr m) (rd S curr i + sc.2.2.2.2.1) = rd S curr m := by unfold rd at *; omega
    rw [e, wr_self S curr m hc hm]

/-- the y-suffix tracker: `Sn[i]` becomes the better of itself and `S[curr][i] + yclip_suffix` -/
theorem if11_eq (S I D : List (List Int)) (Lx Ly : List Nat) (Sn : List Int) (T : Tbm) (sc : ScT) (bd : BandT) (k w : Nat)
    (n j curr i : Nat) (hc : curr < S.length) (hi : i < (S.getD curr []).length) (hsn : i < Sn.length) (hly : i < Ly.length)
    (hjn : j ≤ n) (o : Rs.InS 32 (rd S curr i + sc.2.2.2.2.2.2)) :
    ∃ Ly' T', fillColumns_for3_if11 matchFn tbGet tbSet n j curr i (S, I, D, Lx, Ly, Sn, T, sc, bd, k, w) =
        ok (S, I, D, Lx, Ly', Sn.set i (max (Sn.getD i 0) (rd S curr i + sc.2.2.2.2.2.2)), T', sc, bd, k, w) ∧
      Ly'.length = Ly.length := by
  unfold fillColumns_for3_if11
  have o' : Rs.InS 32 ((S.getD curr []).getD i 0 + sc.2.2.2.2.2.2) := o
  simp only [Rs.iadd_ok o', idx_getD S curr [] hc, ok_bind, idx_getD (S.getD curr []) i 0 hi, idx_getD Sn i 0 hsn,
    Rs.iadd_ok o, pure_eq_ok, bind_pure_comp]
  split
  · rename_i h
    simp only [decide_eq_true_eq, gt_iff_lt, ge_iff_le] at h
    simp only [Rs.setIdx_ok hsn, ok_bind, Rs.sub_ok hjn, Rs.setIdx_ok hly, Functor.map, Res.bind]
    have e : max (Sn.getD i 0) (rd S curr i + sc.2.2.2.2.2.2) = rd S curr i + sc.2.2.2.2.2.2 := by unfold rd at *; omega
    rw [e]
    exact ⟨_, _, rfl, List.length_set⟩
  · rename_i h
    simp only [decide_eq_true_eq, gt_iff_lt, ge_iff_le] at h
    refine ⟨Ly, T, ?_, rfl⟩
    have e : max (Sn.getD i 0) (rd S curr i + sc.2.2.2.2.2.2) = Sn.getD i 0 := by unfold rd at *; omega
    rw [e, set_self Sn i 0 hsn]

theorem rd_wr (A : List (List Int)) (k i i' : Nat) (v : Int) (hk : k < A.length) (hi : i < (A.getD k []).length) :
    rd (wr A k i v) k i' = if i = i' then v else rd A k i' := by
  unfold rd; rw [wr_row _ _ _ _ hk]
  by_cases h : i = i'
  · subst h; simp only [if_true]; exact getD_set_self _ _ _ _ hi
  · simp only [h, if_false]; exact getD_set_ne _ _ _ _ _ h

theorem pickI_val' (sc : Sc) (iUp sUp : Int) (tsUp : RbV.Model.PairwiseFill.Tb) (cl : Option Int) :
    (pickI sc iUp sUp tsUp cl).1 =
      match cl with
      | some c => max c (max (iUp + sc.ge) (sUp + sc.go + sc.ge))
      | none => max (iUp + sc.ge) (sUp + sc.go + sc.ge) := by
  unfold pickI
  cases cl with
  | none => simp only; split <;> simp only <;> omega
  | some c => simp only; split <;> split <;> simp only <;> omega

/-- **One iteration of the main-loop cell, any column `1 ≤ j ≤ n`.** -/
theorem cell_iteration_eq_model (S I D : List (List Int)) (Lx Ly : List Nat) (Sn : List Int) (T : Tbm)
    (go ge : Int) (msc : Option (Int × Int)) (xp xs yp ys : Int) (bd : BandT) (k w : Nat)
    (x : List Nat) (m n j curr prev q i : Nat) (xclip gox goy : Int) (tsUp tsLeft : RbV.Model.PairwiseFill.Tb)
    (hd : Dims S I D Lx Ly Sn m n) (hx : x.length = m) (hi : 1 ≤ i) (him : i ≤ m) (hj : 1 ≤ j) (hjn : j ≤ n)
    (hc : curr < 2) (hp : prev < 2) (hi31 : i < 2 ^ 31)
    (hgx1 : i = m → gapOpenAfterXclip matchFn tbGet tbSet (S, I, D, Lx, Ly, Sn, T, (go, ge, msc, xp, xs, yp, ys), bd, k, w) m (j - 1) = ok gox)
    (hgx2 : i ≠ m → gox = go)
    (hgy : j = n → gapOpenAfterYclip matchFn tbGet tbSet (S, I, D, Lx, Ly, Sn, T, (go, ge, msc, xp, xs, yp, ys), bd, k, w) (i - 1) n = ok goy)
    (hxs : xs ≤ 0) :
    let p := x.getD (i - 1) 0
    let sDiag := rd S prev (i - 1)
    let iUp := rd I curr (i - 1)
    let sUp := rd S curr (i - 1)
    let dLeft := rd D prev i
    let sLeft := rd S prev i
    let base := if i = m then rd S curr m else RbV.Gen.Limits.minScorePairwise
    let clipI : Option Int := if j = n then some (Sn.getD (i - 1) 0 + goy + ge) else none
    let c := cellStep ⟨matchFn, go, ge⟩ (decide (i = m)) (decide (p = q)) (matchFn p q) sDiag iUp sUp dLeft sLeft base tsUp tsLeft
      clipI gox xclip (yp + go + ge * (i : Int))
    let S1 := if i = m then S else wr S curr i RbV.Gen.Limits.minScorePairwise
    let S2 := wr S1 curr i c.s
    Rs.InS 32 (sDiag + matchFn p q) → Rs.InS 32 (iUp + ge) → Rs.InS 32 (sUp + go) → Rs.InS 32 (sUp + go + ge) →
    Rs.InS 32 (dLeft + ge) → Rs.InS 32 (sLeft + gox) → Rs.InS 32 (sLeft + gox + ge) → Rs.InS 32 (yp + go) →
    Rs.InS 32 (ge * (i : Int)) → Rs.InS 32 (yp + go + ge * (i : Int)) → Rs.InS 32 (c.s + xs) → Rs.InS 32 (c.s + ys) →
    (j = n → Rs.InS 32 (Sn.getD (i - 1) 0 + goy) ∧ Rs.InS 32 (Sn.getD (i - 1) 0 + goy + ge)) →
    ∃ Lx' Ly' T' tbS,
      fillColumns_for3 matchFn tbGet tbSet x m n j curr prev q xclip (S, I, D, Lx, Ly, Sn, T, (go, ge, msc, xp, xs, yp, ys), bd, k, w) i =
        ok (wr S2 curr m (max (rd S2 curr m) (c.s + xs)), wr I curr i c.i, wr D curr i c.d, Lx', Ly',
            Sn.set i (max (Sn.getD i 0) (c.s + ys)), tbSet T' i j tbS, (go, ge, msc, xp, xs, yp, ys), bd, k, w) ∧
      Lx'.length = Lx.length ∧ Ly'.length = Ly.length := by
  intro p sDiag iUp sUp dLeft sLeft base clipI c S1 S2 o1 o2 o3 o4 o5 o6 o7 o8 o9 o10 o11 o12 oc
  have lS : ∀ kk, kk < 2 → (S.getD kk []).length = m + 1 := hd.srow
  have e1 : Rs.sub i 1 = ok (i - 1) := Rs.sub_ok hi
  have ex : Rs.idx x (i - 1) = ok p := idx_getD x (i - 1) 0 (by omega)
  have eSp : Rs.idx S prev = ok (S.getD prev []) := idx_getD S prev [] (by rw [hd.s2]; exact hp)
  have eSc : Rs.idx S curr = ok (S.getD curr []) := idx_getD S curr [] (by rw [hd.s2]; exact hc)
  have eIc : Rs.idx I curr = ok (I.getD curr []) := idx_getD I curr [] (by rw [hd.i2]; exact hc)
  have eDp : Rs.idx D prev = ok (D.getD prev []) := idx_getD D prev [] (by rw [hd.d2]; exact hp)
  have r1 : Rs.idx (S.getD prev []) (i - 1) = ok sDiag := idx_getD _ _ 0 (by rw [hd.srow prev hp]; omega)
  have r2 : Rs.idx (I.getD curr []) (i - 1) = ok iUp := idx_getD _ _ 0 (by rw [hd.irow curr hc]; omega)
  have r3 : Rs.idx (S.getD curr []) (i - 1) = ok sUp := idx_getD _ _ 0 (by rw [hd.srow curr hc]; omega)
  have r4 : Rs.idx (D.getD prev []) i = ok dLeft := idx_getD _ _ 0 (by rw [hd.drow prev hp]; omega)
  have r5 : Rs.idx (S.getD prev []) i = ok sLeft := idx_getD _ _ 0 (by rw [hd.srow prev hp]; omega)
  unfold fillColumns_for3
  simp only [e1, ok_bind, ex, eSp, eSc, eIc, eDp, r1, r2, r3, r4, r5, Rs.iadd_ok o1, Rs.iadd_ok o2, Rs.iadd_ok o3, Rs.iadd_ok o4,
    Rs.iadd_ok o5, pure_eq_ok]
  -- I layer
  obtain ⟨tI, vI, eI, hvI, _, _, _⟩ := if2_step matchFn tbGet tbSet
    (S, I, D, Lx, Ly, Sn, T, (go, ge, msc, xp, xs, yp, ys), bd, k, w) j i (iUp + ge) (sUp + go + ge) (0, 0, 0) 0 hi
  have ci : c.i = (pickI ⟨matchFn, go, ge⟩ iUp sUp tsUp clipI).1 := rfl
  have e2 : ∃ tI2, fillColumns_for3_if2 matchFn tbGet tbSet (S, I, D, Lx, Ly, Sn, T, (go, ge, msc, xp, xs, yp, ys), bd, k, w) n j i
      (tI, vI) = ok (tI2, c.i) := by
    by_cases hn : j = n
    · subst hn
      obtain ⟨t, v, e, hv, _⟩ := if2_last matchFn tbGet tbSet S I D Lx Ly Sn T (go, ge, msc, xp, xs, yp, ys) bd k w j i tI vI goy hi
        (by rw [hd.sn]; omega) (hgy rfl) (oc rfl).1 (oc rfl).2
      refine ⟨t, ?_⟩
      rw [e, ci, pickI_val']
      simp only [clipI, if_true]
      rw [hv, hvI]
    · refine ⟨tI, ?_⟩
      rw [if3_skip matchFn tbGet tbSet _ n j i tI vI hn, ci, pickI_val']
      simp only [clipI, hn, if_false]
      rw [hvI]
  obtain ⟨tI2, e2⟩ := e2
  rw [eI]; simp only [ok_bind]
  rw [e2]; simp only [ok_bind]
  -- D layer
  have e95 : (if (i == m) = true then
      (Rs.sub j 1 >>= fun t93 => gapOpenAfterXclip matchFn tbGet tbSet (S, I, D, Lx, Ly, Sn, T, (go, ge, msc, xp, xs, yp, ys), bd, k, w) m t93)
      else ok go) = ok gox := by
    by_cases h : i = m
    · simp only [h, beq_self_eq_true, if_true, Rs.sub_ok hj, ok_bind]; exact hgx1 h
    · simp only [h, beq_iff_eq, if_false, hgx2 h]
  rw [e95]; simp only [ok_bind, Rs.iadd_ok o6, Rs.iadd_ok o7]
  obtain ⟨tD, vD, eD, hvD, _, _, _⟩ := if4_step matchFn tbGet tbSet
    (S, I, D, Lx, Ly, Sn, T, (go, ge, msc, xp, xs, yp, ys), bd, k, w) j i (sLeft + gox + ge) (dLeft + ge) tI2 0 hj
  have cd : c.d = vD := by
    have : c.d = (pickD ⟨matchFn, go, ge⟩ dLeft sLeft gox tsLeft).1 := rfl
    rw [this, pickD_val, hvD]
  rw [eD]; simp only [ok_bind]
  -- `S[curr][i]` reset unless `i = m`
  have hcS : curr < S.length := by rw [hd.s2]; exact hc
  have hiS : i < (S.getD curr []).length := by rw [hd.srow curr hc]; omega
  rw [if4_eq matchFn tbGet tbSet S I D Lx Ly Sn T (go, ge, msc, xp, xs, yp, ys) bd k w m curr i tD hcS hiS]
  simp only [ok_bind]
  have lS1 : S1.length = 2 := by
    show (if i = m then S else wr S curr i _).length = 2
    split
    · exact hd.s2
    · rw [wr_len]; exact hd.s2
  have rowS1 : (S1.getD curr []).length = m + 1 := by
    show ((if i = m then S else wr S curr i _).getD curr []).length = m + 1
    split
    · exact hd.srow curr hc
    · rw [wr_rowlen _ _ _ _ _ hcS]; exact hd.srow curr hc
  have bS1 : (S1.getD curr []).getD i 0 = base := by
    show ((if i = m then S else wr S curr i _).getD curr []).getD i 0 = (if i = m then rd S curr m else _)
    by_cases h : i = m
    · simp only [h, if_true]; rfl
    · simp only [h, if_false]
      exact rd_wr_self S curr i _ hcS hiS
  have eS1c : Rs.idx S1 curr = ok (S1.getD curr []) := idx_getD S1 curr [] (by rw [lS1]; exact hc)
  have rS1 : Rs.idx (S1.getD curr []) i = ok base := by rw [idx_getD _ i 0 (by rw [rowS1]; omega), bS1]
  have fold1 : (if i = m then S else wr S curr i RbV.Gen.Limits.minScorePairwise) = S1 := rfl
  simp only [fold1, eS1c, ok_bind, rS1]
  -- S layer
  generalize htb4 : (if i = m then (tD.1, tD.2.1, tbXclipSuffix) else tD) = tb4
  obtain ⟨t1, v1, s1, hv1, _⟩ := if6_step matchFn tbGet tbSet q p (sDiag + matchFn p q) tb4 base
  rw [s1]; simp only [ok_bind]
  obtain ⟨t2, v2, s2, hv2, _⟩ := if7_step matchFn tbGet tbSet c.i t1 v1
  rw [s2]; simp only [ok_bind]
  obtain ⟨t3, v3, s3, hv3, _⟩ := if8_step matchFn tbGet tbSet vD t2 v2
  rw [s3]; simp only [ok_bind]
  obtain ⟨t4, v4, s4, hv4, _⟩ := if9_step matchFn tbGet tbSet xclip t3 v3
  rw [s4]; simp only [ok_bind]
  have cs31 : Rs.castSigned 32 i = (i : Int) := Rs.castSigned_of_lt (by simpa using hi31)
  simp only [Rs.iadd_ok o8, ok_bind, cs31, Rs.imul_ok o9, Rs.iadd_ok o10]
  obtain ⟨t5, v5, s5, hv5, _⟩ := if10_step matchFn tbGet tbSet (yp + go + ge * (i : Int)) t4 v4
  rw [s5]; simp only [ok_bind]
  have cs : c.s = v5 := by
    have : c.s = (pickS (decide (i = m)) (decide (p = q)) (sDiag + matchFn p q) base c.i c.d xclip (yp + go + ge * (i : Int))).1 := rfl
    rw [this, pickS_val, cd]; omega
  -- the three writes
  have hcI : curr < I.length := by rw [hd.i2]; exact hc
  have hcD : curr < D.length := by rw [hd.d2]; exact hc
  have hcS1 : curr < S1.length := by rw [lS1]; exact hc
  have w1 : Rs.setIdx (S1.getD curr []) i v5 = ok ((S1.getD curr []).set i v5) := Rs.setIdx_ok (by rw [rowS1]; omega)
  have w2 : ∀ r, Rs.setIdx S1 curr r = ok (S1.set curr r) := fun r => Rs.setIdx_ok hcS1
  have w3 : Rs.setIdx (I.getD curr []) i c.i = ok ((I.getD curr []).set i c.i) := Rs.setIdx_ok (by rw [hd.irow curr hc]; omega)
  have w4 : ∀ r, Rs.setIdx I curr r = ok (I.set curr r) := fun r => Rs.setIdx_ok hcI
  have w5 : Rs.setIdx (D.getD curr []) i vD = ok ((D.getD curr []).set i vD) := Rs.setIdx_ok (by rw [hd.drow curr hc]; omega)
  have w6 : ∀ r, Rs.setIdx D curr r = ok (D.set curr r) := fun r => Rs.setIdx_ok hcD
  simp only [w1, w2, ok_bind, idx_getD I curr [] hcI, w3, w4, idx_getD D curr [] hcD, w5, w6]
  have fS2 : S1.set curr ((S1.getD curr []).set i v5) = S2 := by show _ = wr S1 curr i c.s; rw [cs]; rfl
  have fI2 : I.set curr ((I.getD curr []).set i c.i) = wr I curr i c.i := rfl
  have fD2 : D.set curr ((D.getD curr []).set i vD) = wr D curr i c.d := by rw [cd]; rfl
  simp only [fS2, fI2, fD2]
  -- trackers
  have lS2 : S2.length = 2 := by show (wr S1 curr i c.s).length = 2; rw [wr_len]; exact lS1
  have rowS2 : (S2.getD curr []).length = m + 1 := by
    show ((wr S1 curr i c.s).getD curr []).length = m + 1
    rw [wr_rowlen _ _ _ _ _ hcS1]; exact rowS1
  have rS2i : rd S2 curr i = c.s := rd_wr_self S1 curr i c.s hcS1 (by rw [rowS1]; omega)
  obtain ⟨Lx', T1, e10, hLx⟩ := if10_eq matchFn tbGet tbSet S2 (wr I curr i c.i) (wr D curr i c.d) Lx Ly Sn T
    (go, ge, msc, xp, xs, yp, ys) bd k w m j curr i (by rw [lS2]; exact hc) (by rw [rowS2]; omega) (by rw [rowS2]; omega) him
    (by rw [hd.lx]; omega) (by rw [rS2i]; exact o11)
  rw [e10]; simp only [ok_bind, rS2i]
  generalize hS3 : wr S2 curr m (max (rd S2 curr m) (c.s + xs)) = S3
  have lS3 : S3.length = 2 := by rw [← hS3, wr_len]; exact lS2
  have rowS3 : (S3.getD curr []).length = m + 1 := by
    rw [← hS3, wr_rowlen _ _ _ _ _ (by rw [lS2]; exact hc)]; exact rowS2
  have rS3i : rd S3 curr i = c.s := by
    rw [← hS3, rd_wr S2 curr m i _ (by rw [lS2]; exact hc) (by rw [rowS2]; omega)]
    by_cases h : m = i
    · subst h; simp only [if_true, rS2i]; omega
    · simp only [h, if_false, rS2i]
  obtain ⟨Ly', T2, e11, hLy⟩ := if11_eq matchFn tbGet tbSet S3 (wr I curr i c.i) (wr D curr i c.d) Lx' Ly Sn T1
    (go, ge, msc, xp, xs, yp, ys) bd k w n j curr i (by rw [lS3]; exact hc) (by rw [rowS3]; omega) (by rw [hd.sn]; omega)
    (by rw [hd.ly]; omega) hjn (by rw [rS3i]; exact o12)
  rw [e11]; simp only [ok_bind, rS3i]
  exact ⟨Lx', Ly', T2, t5, rfl, hLx, hLy⟩

end
end RbV.Thm.GenSrcBandedCell
