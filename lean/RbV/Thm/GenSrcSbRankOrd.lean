import RbV.Gen.SrcSbRankOrd
import RbV.Model.RankSelect
import RbV.Lemmas.RankSelectSorted
/-! `impl Deref / Ord / PartialOrd for SuperblockRank` as written (`RbV/Gen/SrcSbRankOrd.lean`, regenerated from
`src/data_structures/rank_select.rs` on every `./check C17`) against the mirror `SbRank.val` / `SbRank.lt`
(`Model/RankSelect.lean`).  Builder genleft.  The proofs are case distinctions on the two constructors and on the
comparison of the two ranks; they do not depend on the order of the `match` arms or of the `if` branches. -/
namespace RbV.Thm.GenSrcSbRankOrd
open RbV RbV.Model.RankSelect RbV.Gen.SrcSbRankOrd RbV.Lemmas.RankSelectSorted

/-- the generated enum and the mirror's `SbRank` are the same type up to constructor names -/
def toSb : SuperblockRank → SbRank
  | .First r => .first r
  | .Some r => .some r

def ofSb : SbRank → SuperblockRank
  | .first r => .First r
  | .some r => .Some r

@[simp] theorem toSb_ofSb (a : SbRank) : toSb (ofSb a) = a := by cases a <;> rfl
@[simp] theorem ofSb_toSb (a : SuperblockRank) : ofSb (toSb a) = a := by cases a <;> rfl

theorem deref_eq_model (a : SuperblockRank) : deref a = (toSb a).val := by
  cases a <;> rfl

/-- the order of the mirror as an `Ordering` -/
def modelCmp (a b : SbRank) : Ordering :=
  if a.lt b then .lt else if b.lt a then .gt else .eq

theorem compare_nat_cases (x y : Nat) :
    (x < y ∧ compare x y = .lt) ∨ (x = y ∧ compare x y = .eq) ∨ (y < x ∧ compare x y = .gt) := by
  rcases Nat.lt_trichotomy x y with h | h | h
  · exact Or.inl ⟨h, Nat.compare_eq_lt.mpr h⟩
  · exact Or.inr (Or.inl ⟨h, Nat.compare_eq_eq.mpr h⟩)
  · exact Or.inr (Or.inr ⟨h, Nat.compare_eq_gt.mpr h⟩)

/-- one of the twelve cases: two constructors, the ranks compared; all arithmetic facts about the two ranks are named so
that `simp` can decide every test the generated term or the mirror makes, in either operand order -/
macro "ord_case" : tactic => `(tactic|
  (first
    | (subst_vars
       simp [cmp, deref, modelCmp, SbRank.lt, SbRank.val, toSb, *]; done)
    | (have h1 : ¬ _ < _ := Nat.lt_asymm ‹_ < _›
       have h2 := Nat.ne_of_lt ‹_ < _›
       have h3 := Nat.ne_of_gt ‹_ < _›
       simp [cmp, deref, modelCmp, SbRank.lt, SbRank.val, toSb, *]; done)))

/-- **`Ord::cmp` as written = the mirror order** -/
theorem cmp_eq_model (a b : SuperblockRank) : cmp a b = modelCmp (toSb a) (toSb b) := by
  have key : ∀ x y : Nat, (x < y ∧ compare x y = .lt) ∨ (x = y ∧ compare x y = .eq) ∨ (y < x ∧ compare x y = .gt) :=
    compare_nat_cases
  cases a with
  | First x => cases b with
    | First y => rcases key x y with ⟨h, hc⟩ | ⟨h, hc⟩ | ⟨h, hc⟩ <;> ord_case
    | Some y => rcases key x y with ⟨h, hc⟩ | ⟨h, hc⟩ | ⟨h, hc⟩ <;> ord_case
  | Some x => cases b with
    | First y => rcases key x y with ⟨h, hc⟩ | ⟨h, hc⟩ | ⟨h, hc⟩ <;> ord_case
    | Some y => rcases key x y with ⟨h, hc⟩ | ⟨h, hc⟩ | ⟨h, hc⟩ <;> ord_case

/-- the `<` that `binary_search` / `sort` derive from the translated `cmp` -/
def srcLt (a b : SbRank) : Bool := cmp (ofSb a) (ofSb b) == Ordering.lt

theorem modelCmp_lt (a b : SbRank) : (modelCmp a b == Ordering.lt) = a.lt b := by
  unfold modelCmp
  cases h : a.lt b <;> cases h' : b.lt a <;> simp

theorem srcLt_eq_model : srcLt = SbRank.lt := by
  funext a b
  simp only [srcLt, cmp_eq_model, toSb_ofSb, modelCmp_lt]

theorem partialCmp_eq (a b : SuperblockRank) : partialCmp a b = some (cmp a b) := by
  simp [partialCmp]

/-- the translated `cmp` is a lawful total order on the generated enum: antisymmetric in the sense of `Ordering.swap` -/
theorem cmp_swap (a b : SuperblockRank) : (cmp a b).swap = cmp b a := by
  rw [cmp_eq_model, cmp_eq_model]
  generalize toSb a = x; generalize toSb b = y
  unfold modelCmp
  have hx : ¬ (x.lt y = true ∧ y.lt x = true) := by
    rw [lt_iff, lt_iff]
    cases x <;> cases y <;> simp [SbRank.val] <;> omega
  cases h : x.lt y <;> cases h' : y.lt x <;> simp_all

end RbV.Thm.GenSrcSbRankOrd
