import RbV.Gen.SrcBitEnc
import RbV.Model.BitEnc
import RbV.Lemmas.BitEnc
import RbV.Thm.GenSrcBitEnc
/-!
# The translated text of `BitEnc::{new, push, set, get, clear, nr_blocks, nr_symbols/len, push_values}` equals the mirror model

`RbV/Gen/SrcBitEnc.lean` is regenerated from `src/data_structures/bitenc.rs` by `tools/rs2lean.py` on every `./check C18`.
A `BitEnc` value is the tuple of its fields `(storage, width, mask, len, usable_bits_per_block)`; `BitEnc::new(w)`
(translated too: `new_eq_model`) fixes `width = w`, `mask = mask(w)`, `usable_bits_per_block = 32 - 32 % w`, the mutators
return the fields they assign (`storage`, `len`).  The model state `Model.BitEnc.St` is `(storage, len)`.

What the translation makes explicit and the hypotheses discharge: `self.storage[block]` panics out of bounds — excluded
by the block-count invariant `Shape` (`storage.len() = ⌈len / ⌊32/w⌋⌉`, which `bitenc_refines` proves for every
history) —, `i * self.width`, `self.len + 1`, `self.len + n` are checked `usize` operations (bounds `< 2^64`), the
iterator `(bit..usable).step_by(width).take(n)` is evaluated before the loop (with the value `n` has then), `n -= 1`
inside the loop cannot underflow because of that `take(n)`.
-/
set_option linter.unusedSimpArgs false

namespace RbV.Thm.GenSrcBitEncOps
open RbV RbV.Rs RbV.Thm.GenSrc RbV.Thm.GenSrcBitEnc
open RbV.Model.BitEnc (U32 usable St)
open RbV.Spec.BitEnc (specBlocks perBlock)
open RbV.Lemmas.BitEnc (P7 per_cases per_pos addr_eq blocks_lt blocks_succ_full blocks_succ_part)
open RbV.Lemmas.BitEncBits (usable_eq slot_bound)

/-- block-count invariant of a `BitEnc` state: exactly the blocks that hold `len` values -/
def Shape (w : Nat) (s : St) : Prop := s.storage.length = specBlocks w s.len

/-! ### the constructor -/

/-- `BitEnc::new(w)`, as written, returns the empty storage, `len = 0` and the field values the other theorems assume -/
theorem new_eq_model (w : Nat) (hw : 1 ≤ w ∧ w ≤ 8) :
    Gen.SrcBitEnc.new w
      = Res.ok (Model.BitEnc.new.storage, w, Model.BitEnc.mask w, Model.BitEnc.new.len, usable w) := by
  have e0 : Rs.assert (decide (w ≤ 8)) = Res.ok () := Rs.assert_ok (by simp [hw.2])
  have e1 := mask_eq_model w (by omega)
  have e2 : Rs.rem 32 w = Res.ok (32 % w) := Rs.rem_ok (by omega)
  have hle : 32 % w ≤ 32 := Nat.mod_le _ _
  have e3 : Rs.sub 32 (32 % w) = Res.ok (32 - 32 % w) := Rs.sub_ok hle
  simp only [Gen.SrcBitEnc.new, Model.BitEnc.new, usable, e0, e1, e2, e3, Res.ok_bind, Res.pure_eq_ok]

/-- widths above 8 are refused by the assertion -/
theorem new_wide_panics (w : Nat) (hw : 8 < w) : Gen.SrcBitEnc.new w = Res.panic := by
  have e0 : Rs.assert (decide (w ≤ 8)) = Res.panic := by
    have : ¬ w ≤ 8 := by omega
    simp [Rs.assert, this]
  simp only [Gen.SrcBitEnc.new, e0, Res.panic_bind]

/-! ### address facts -/

theorem addr_fst (w i : Nat) (hw : 1 ≤ w ∧ w ≤ 8) : (Model.BitEnc.addr w i).1 = i / (32 / w) := by
  rw [addr_eq w i hw]

theorem addr_snd (w i : Nat) (hw : 1 ≤ w ∧ w ≤ 8) : (Model.BitEnc.addr w i).2 = i % (32 / w) * w := by
  rw [addr_eq w i hw]

theorem usable_le (w : Nat) : usable w ≤ 32 := by unfold usable; omega

theorem usable_pos (w : Nat) (hw : 1 ≤ w ∧ w ≤ 8) : 0 < usable w := by
  unfold usable
  have := Nat.mod_lt 32 (show w > 0 by omega)
  omega

theorem addr_snd_lt (w i : Nat) (hw : 1 ≤ w ∧ w ≤ 8) : (Model.BitEnc.addr w i).2 < usable w := by
  unfold Model.BitEnc.addr
  exact Nat.mod_lt _ (usable_pos w hw)

theorem addr_snd_eq_zero (w i : Nat) (hw : 1 ≤ w ∧ w ≤ 8) : (Model.BitEnc.addr w i).2 = 0 ↔ i % (32 / w) = 0 := by
  rw [addr_snd w i hw]
  constructor
  · intro h
    rcases Nat.mul_eq_zero.mp h with h | h
    · exact h
    · omega
  · intro h; rw [h, Nat.zero_mul]

/-- an index below the length lies in an allocated block -/
theorem block_lt_of_lt (w : Nat) (hw : 1 ≤ w ∧ w ≤ 8) (s : St) (hs : Shape w s) (i : Nat) (hi : i < s.len) :
    (Model.BitEnc.addr w i).1 < s.storage.length := by
  rw [addr_fst w i hw, hs]
  exact blocks_lt _ _ _ (per_cases w hw) hi

/-! ### push, set, get, clear, nr_blocks, nr_symbols -/

/-- `BitEnc::push`, as written, is the model's `push` on every state with the block-count invariant -/
theorem push_eq_model (w : Nat) (hw : 1 ≤ w ∧ w ≤ 8) (s : St) (hs : Shape w s) (hlen : s.len * w < 2 ^ 64)
    (hlen1 : s.len + 1 < 2 ^ 64) (v : Nat) :
    Gen.SrcBitEnc.push s.storage w (Model.BitEnc.mask w) s.len (usable w) v
      = Res.ok ((Model.BitEnc.push w s v).storage, (Model.BitEnc.push w s v).len) := by
  have e1 := addr_eq_model w s.len hw hlen
  have hbit := addr_snd_lt w s.len hw
  have hu := usable_le w
  have e3 : Rs.add 64 s.len 1 = Res.ok (s.len + 1) := Rs.add_ok hlen1
  have hp := per_cases w hw
  unfold Shape specBlocks perBlock at hs
  by_cases h0 : (Model.BitEnc.addr w s.len).2 = 0
  · have hm := (addr_snd_eq_zero w s.len hw).mp h0
    have hb : (Model.BitEnc.addr w s.len).1 < (s.storage ++ [0]).length := by
      rw [addr_fst w s.len hw, List.length_append, hs, ← (blocks_succ_full _ _ hp hm).2]
      simp
    have e2 := setByAddr_eq_model w (s.storage ++ [0]) _ _ v hb (by omega : (Model.BitEnc.addr w s.len).2 < 32)
    rw [h0] at e2
    -- other ways of writing the allocation test: `0 == bit`, `bit != 0`, `block == self.storage.len()`
    have hblk : ((Model.BitEnc.addr w s.len).1 == s.storage.length) = true := by
      rw [addr_fst w s.len hw, hs, ← (blocks_succ_full _ _ hp hm).2]; simp
    have hblk' : (s.storage.length == (Model.BitEnc.addr w s.len).1) = true := by
      rw [beq_iff_eq]; exact (beq_iff_eq.mp hblk).symm
    have e3' : Rs.add 64 1 s.len = Res.ok (s.len + 1) := by rw [Nat.add_comm] at hlen1; rw [Rs.add_ok hlen1, Nat.add_comm]
    simp only [Gen.SrcBitEnc.push, Model.BitEnc.push, e1, e2, e3, e3', h0, hblk, hblk', Res.ok_bind, Res.pure_eq_ok,
      beq_self_eq_true, bne_self_eq_false, if_true, ite_true, if_false, ite_false, Bool.false_eq_true, decide_true,
      decide_false, Nat.lt_irrefl, Nat.le_refl, Nat.not_lt_zero, gt_iff_lt, ge_iff_le, Nat.le_zero_eq]
  · have hm : s.len % (32 / w) ≠ 0 := fun h => h0 ((addr_snd_eq_zero w s.len hw).mpr h)
    have hb : (Model.BitEnc.addr w s.len).1 < s.storage.length := by
      rw [addr_fst w s.len hw, hs]
      exact (blocks_succ_part _ _ hp hm).2
    have e2 := setByAddr_eq_model w s.storage _ _ v hb (by omega : (Model.BitEnc.addr w s.len).2 < 32)
    have hne : ((Model.BitEnc.addr w s.len).2 == 0) = false := by simpa using h0
    have hne' : (0 == (Model.BitEnc.addr w s.len).2) = false := by
      rw [beq_eq_false_iff_ne]; exact fun h => h0 h.symm
    have hne2 : ((Model.BitEnc.addr w s.len).2 != 0) = true := by simpa using h0
    have hpos : 0 < (Model.BitEnc.addr w s.len).2 := by omega
    have hblk : ((Model.BitEnc.addr w s.len).1 == s.storage.length) = false := by
      rw [beq_eq_false_iff_ne]; omega
    have hblk' : (s.storage.length == (Model.BitEnc.addr w s.len).1) = false := by
      rw [beq_eq_false_iff_ne]; omega
    have e3' : Rs.add 64 1 s.len = Res.ok (s.len + 1) := by rw [Nat.add_comm] at hlen1; rw [Rs.add_ok hlen1, Nat.add_comm]
    simp only [Gen.SrcBitEnc.push, Model.BitEnc.push, e1, e2, e3, e3', h0, hne, hne', hne2, hpos, hblk, hblk',
      Res.ok_bind, Res.pure_eq_ok, if_false, ite_false, if_true, ite_true, Bool.false_eq_true, decide_true, decide_false,
      gt_iff_lt, ge_iff_le, Nat.le_zero_eq]

/-- `BitEnc::set`, as written, is the model's `set` whenever the addressed block exists (in particular for `i < len`) -/
theorem set_eq_model (w : Nat) (hw : 1 ≤ w ∧ w ≤ 8) (s : St) (i v : Nat) (hmul : i * w < 2 ^ 64)
    (hb : (Model.BitEnc.addr w i).1 < s.storage.length) :
    Gen.SrcBitEnc.set s.storage w (Model.BitEnc.mask w) s.len (usable w) i v
      = Res.ok (Model.BitEnc.set w s i v).storage := by
  have e1 := addr_eq_model w i hw hmul
  have hbit := addr_snd_lt w i hw
  have hu := usable_le w
  have e2 := setByAddr_eq_model w s.storage _ _ v hb (by omega : (Model.BitEnc.addr w i).2 < 32)
  simp only [Gen.SrcBitEnc.set, Model.BitEnc.set, e1, e2, Res.ok_bind, Res.pure_eq_ok]

/-- `set` does not touch `len` (the translated function returns `storage` only) -/
theorem set_len (w : Nat) (s : St) (i v : Nat) : (Model.BitEnc.set w s i v).len = s.len := rfl

/-- `BitEnc::get`, as written, is the model's `get` (in range: the value; out of range: `None`, no panic) -/
theorem get_eq_model (w : Nat) (hw : 1 ≤ w ∧ w ≤ 8) (s : St) (hs : Shape w s) (hlen : s.len * w < 2 ^ 64) (i : Nat) :
    Gen.SrcBitEnc.get s.storage w (Model.BitEnc.mask w) s.len (usable w) i = Res.ok (Model.BitEnc.get w s i) := by
  by_cases hi : i ≥ s.len
  · have hi2 : ¬ i < s.len := by omega
    have hi3 : s.len ≤ i := by omega
    simp only [Gen.SrcBitEnc.get, Model.BitEnc.get, hi, hi2, hi3, decide_true, decide_false, if_true, ite_true, if_false,
      ite_false, Res.ok_bind, Res.pure_eq_ok, Bool.false_eq_true, ge_iff_le, gt_iff_lt]
  · have hi' : i < s.len := by omega
    have hi3 : ¬ s.len ≤ i := by omega
    have hmul : i * w < 2 ^ 64 := Nat.lt_of_le_of_lt (Nat.mul_le_mul_right w (by omega)) hlen
    have e1 := addr_eq_model w i hw hmul
    have hbit := addr_snd_lt w i hw
    have hu := usable_le w
    have hb := block_lt_of_lt w hw s hs i hi'
    have e2 := getByAddr_eq_model w hw.2 s.storage _ _ hb (by omega : (Model.BitEnc.addr w i).2 < 32)
    simp only [Gen.SrcBitEnc.get, Model.BitEnc.get, hi, hi', hi3, e1, e2, decide_false, decide_true, if_false, ite_false,
      if_true, ite_true, Res.ok_bind, Res.pure_eq_ok, Bool.false_eq_true, ge_iff_le, gt_iff_lt]

/-- `BitEnc::clear`, as written -/
theorem clear_eq_model (w m u : Nat) (s : St) :
    Gen.SrcBitEnc.clear s.storage w m s.len u
      = Res.ok ((Model.BitEnc.clear s).storage, (Model.BitEnc.clear s).len) := by
  simp only [Gen.SrcBitEnc.clear, Model.BitEnc.clear, Res.pure_eq_ok]

/-- `BitEnc::nr_blocks`, as written -/
theorem nrBlocks_eq_model (w m u : Nat) (s : St) :
    Gen.SrcBitEnc.nrBlocks s.storage w m s.len u = Res.ok (Model.BitEnc.nrBlocks s) := by
  simp only [Gen.SrcBitEnc.nrBlocks, Model.BitEnc.nrBlocks, Res.pure_eq_ok]

/-- `BitEnc::nr_symbols` and the deprecated `BitEnc::len`, as written -/
theorem nrSymbols_eq_model (w m u : Nat) (s : St) :
    Gen.SrcBitEnc.nrSymbols s.storage w m s.len u = Res.ok s.len ∧
    Gen.SrcBitEnc.len s.storage w m s.len u = Res.ok s.len := by
  simp only [Gen.SrcBitEnc.nrSymbols, Gen.SrcBitEnc.len, Res.pure_eq_ok, and_self]

/-! ### push_values -/

theorem filterMap_range_eq (f : Nat → Option Nat) (b w : Nat) : ∀ M, (∀ j, j < M → f j = some (b + w * j)) →
    (List.range M).filterMap f = List.range' b M w := by
  intro M
  induction M with
  | zero => intro _; rfl
  | succ M ih =>
    intro h
    rw [List.range_succ, List.filterMap_append, ih (fun j hj => h j (by omega)), List.range'_concat]
    simp [h M (by omega)]

/-- `(b..b+x).step_by(w)` yields `b, b+w, …` — `⌈x / w⌉` items -/
theorem stepBy_range' (b x w : Nat) (hw : 0 < w) :
    Rs.stepByIdx (List.range' b x) w = Res.ok (List.range' b ((x + w - 1) / w) w) := by
  rw [Rs.stepByIdx_ok hw]
  congr 1
  simp only [List.length_range']
  apply filterMap_range_eq
  intro j hj
  have h1 := (Nat.le_div_iff_mul_le hw).mp (show j + 1 ≤ (x + w - 1) / w by omega)
  rw [Nat.add_mul] at h1
  rw [List.getElem?_range' (by omega), Nat.mul_comm j w, Nat.one_mul]

/-- the fill-up loop: the translated `for` body folded over the first `n` items of `b, b+w, …` (all below the usable
bits, the next one not) is the model's `fillLoop`; `n -= 1` never underflows -/
theorem fill_fold (w block value : Nat) : ∀ (M n b : Nat) (s : St), block < s.storage.length →
    (∀ j, j < M → b + j * w < usable w) → usable w ≤ b + M * w → s.len + n < 2 ^ 64 →
    ((List.range' b M w).take n).foldlM (Gen.SrcBitEnc.pushValues_for1 (Model.BitEnc.mask w) block value)
        (s.storage, n, s.len)
      = Res.ok ((Model.BitEnc.fillLoop w block value b n s).1.storage, (Model.BitEnc.fillLoop w block value b n s).2,
          (Model.BitEnc.fillLoop w block value b n s).1.len) := by
  intro M
  induction M with
  | zero =>
    intro n b s _ _ hstop _
    have hb : ¬ b < usable w := by omega
    cases n with
    | zero => simp [Model.BitEnc.fillLoop]
    | succ n => simp [Model.BitEnc.fillLoop, hb]
  | succ M ih =>
    intro n b s hblk hin hstop hlen
    cases n with
    | zero => simp [Model.BitEnc.fillLoop]
    | succ n =>
      have hb : b < usable w := by simpa using hin 0 (by omega)
      have hu := usable_le w
      have e1 := setByAddr_eq_model w s.storage block b value hblk (by omega)
      have e2 : Rs.sub (n + 1) 1 = Res.ok n := Rs.sub_ok (by omega)
      have e3 : Rs.add 64 s.len 1 = Res.ok (s.len + 1) := Rs.add_ok (by omega)
      have hblk' : block < (Model.BitEnc.setByAddr w s.storage block b value).length := by
        simpa [Model.BitEnc.setByAddr] using hblk
      have hin' : ∀ j, j < M → b + w + j * w < usable w := by
        intro j hj
        have := hin (j + 1) (by omega)
        rw [Nat.succ_mul] at this
        omega
      have hstop' : usable w ≤ b + w + M * w := by
        rw [Nat.succ_mul] at hstop
        omega
      have := ih n (b + w) { storage := Model.BitEnc.setByAddr w s.storage block b value, len := s.len + 1 } hblk' hin'
        hstop' (by simp only; omega)
      rw [List.range'_succ, List.take_succ_cons, List.foldlM_cons]
      simp only [Gen.SrcBitEnc.pushValues_for1, e1, e2, e3, Res.ok_bind, Res.pure_eq_ok, bind_pure_comp]
      simp only [Model.BitEnc.fillLoop, hb, if_true]
      exact this

/-- the model's `fillLoop` keeps the number of blocks and `len + n` -/
theorem fillLoop_inv (w block value : Nat) : ∀ (n b : Nat) (s : St),
    (Model.BitEnc.fillLoop w block value b n s).1.storage.length = s.storage.length ∧
    (Model.BitEnc.fillLoop w block value b n s).1.len + (Model.BitEnc.fillLoop w block value b n s).2 = s.len + n := by
  intro n
  induction n with
  | zero => intro b s; simp [Model.BitEnc.fillLoop]
  | succ n ih =>
    intro b s
    by_cases hb : b < usable w
    · simp only [Model.BitEnc.fillLoop, hb, if_true]
      have := ih (b + w) { storage := Model.BitEnc.setByAddr w s.storage block b value, len := s.len + 1 }
      have hl : (Model.BitEnc.setByAddr w s.storage block b value).length = s.storage.length := by
        simp [Model.BitEnc.setByAddr]
      simp only [hl] at this
      omega
    · simp [Model.BitEnc.fillLoop, hb]

/-- `for _ in 0..32 / width { value_block |= v; v <<= width; }` over any `k`-item range -/
theorem valueBlock_fold (w : Nat) (hw : w < 32) : ∀ (L : List Nat) (acc v : Nat),
    ∃ v', L.foldlM (Gen.SrcBitEnc.pushValues_for2 w) (acc, v)
      = Res.ok (Model.BitEnc.valueBlockLoop w L.length v acc, v') := by
  intro L
  induction L with
  | nil => intro acc v; exact ⟨v, rfl⟩
  | cons a L ih =>
    intro acc v
    have e1 : Rs.shl 32 v w = Res.ok ((v <<< w) % U32) := Rs.shl_ok hw
    obtain ⟨v', h⟩ := ih (acc ||| v) ((v <<< w) % U32)
    refine ⟨v', ?_⟩
    rw [List.foldlM_cons]
    simp only [Gen.SrcBitEnc.pushValues_for2, e1, Res.ok_bind, Res.pure_eq_ok, List.length_cons,
      Model.BitEnc.valueBlockLoop]
    exact h

theorem resize_eq_model (st : List Nat) (n x : Nat) : Rs.resize st n x = Model.BitEnc.resize st n x := rfl

/-- the ways a Rust programmer writes "`x` is non-zero" (`x > 0`, `0 < x`, `x != 0`, `!(x == 0)`) -/
theorem pos_forms {x : Nat} (h : x > 0) : 0 < x ∧ ¬ x = 0 ∧ (x != 0) = true ∧ (x == 0) = false :=
  ⟨h, by omega, by simp; omega, by simp; omega⟩

theorem zero_forms {x : Nat} (h : ¬ x > 0) : ¬ 0 < x ∧ (0 == x) = true ∧ (x != 0) = false ∧ (x == 0) = true := by
  have : x = 0 := by omega
  subst this
  simp

/-- the facts the second half of `push_values` needs (every checked operation there succeeds) -/
theorem phase2_facts (w : Nat) (hw : 1 ≤ w ∧ w ≤ 8) (len1 n1 v : Nat)
    (hlen : (len1 + n1) * w < 2 ^ 64) (hlen1 : len1 + n1 < 2 ^ 64) :
    Rs.div 32 w = Res.ok (32 / w) ∧
    (∃ v', (List.range' 0 (32 / w)).foldlM (Gen.SrcBitEnc.pushValues_for2 w) (0, v &&& Model.BitEnc.mask w)
      = Res.ok (Model.BitEnc.valueBlock w v, v')) ∧
    Rs.add 64 len1 n1 = Res.ok (len1 + n1) ∧
    Gen.SrcBitEnc.addr w (usable w) (len1 + n1) = Res.ok (Model.BitEnc.addr w (len1 + n1)) ∧
    Rs.sub (usable w) (Model.BitEnc.addr w (len1 + n1)).2
        = Res.ok (usable w - (Model.BitEnc.addr w (len1 + n1)).2) ∧
    ((Model.BitEnc.addr w (len1 + n1)).2 > 0 → ∀ x, Rs.shr 32 x (usable w - (Model.BitEnc.addr w (len1 + n1)).2)
          = Res.ok (x >>> (usable w - (Model.BitEnc.addr w (len1 + n1)).2))) := by
  have hbit := addr_snd_lt w (len1 + n1) hw
  have hu := usable_le w
  obtain ⟨v', e6⟩ := valueBlock_fold w (by omega) (List.range' 0 (32 / w)) 0 (v &&& Model.BitEnc.mask w)
  simp only [List.length_range'] at e6
  exact ⟨Rs.div_ok (by omega), ⟨v', e6⟩, Rs.add_ok hlen1, addr_eq_model w (len1 + n1) hw hlen, Rs.sub_ok (by omega),
    fun hb x => Rs.shr_ok (by omega)⟩

/-- **`BitEnc::push_values`, as written, is the model's `pushValues`** on every state with the block-count invariant,
for every count and value, as long as the new length (in bits) fits `usize` -/
theorem pushValues_eq_model (w : Nat) (hw : 1 ≤ w ∧ w ≤ 8) (s : St) (hs : Shape w s) (n v : Nat)
    (hlen : (s.len + n) * w < 2 ^ 64) (hlen1 : s.len + n < 2 ^ 64) :
    Gen.SrcBitEnc.pushValues s.storage w (Model.BitEnc.mask w) s.len (usable w) n v
      = Res.ok ((Model.BitEnc.pushValues w s n v).storage, (Model.BitEnc.pushValues w s n v).len) := by
  rw [Lemmas.BitEnc.pushValues_eq]
  have e0 := addr_eq_model w s.len hw (Nat.lt_of_le_of_lt (Nat.mul_le_mul_right w (by omega)) hlen)
  have hbit := addr_snd_lt w s.len hw
  have hw0 : 0 < w := by omega
  -- the fill-up block
  have hP : Lemmas.BitEnc.phase1 w s n v
      = if (Model.BitEnc.addr w s.len).2 > 0
        then Model.BitEnc.fillLoop w (Model.BitEnc.addr w s.len).1 v (Model.BitEnc.addr w s.len).2 n s else (s, n) := rfl
  have hsum : (Lemmas.BitEnc.phase1 w s n v).1.len + (Lemmas.BitEnc.phase1 w s n v).2 = s.len + n := by
    rw [hP]; split
    · exact (fillLoop_inv w _ v n _ s).2
    · rfl
  obtain ⟨e5, ⟨v', e6⟩, e7, e8, e9, e10⟩ := phase2_facts w hw (Lemmas.BitEnc.phase1 w s n v).1.len
    (Lemmas.BitEnc.phase1 w s n v).2 v (by rw [hsum]; exact hlen) (by rw [hsum]; exact hlen1)
  have e1 := stepBy_range' (Model.BitEnc.addr w s.len).2 (usable w - (Model.BitEnc.addr w s.len).2) w hw0
  have e2 : (Model.BitEnc.addr w s.len).2 > 0 →
      ((List.range' (Model.BitEnc.addr w s.len).2
          ((usable w - (Model.BitEnc.addr w s.len).2 + w - 1) / w) w).take n).foldlM
        (Gen.SrcBitEnc.pushValues_for1 (Model.BitEnc.mask w) (Model.BitEnc.addr w s.len).1 v) (s.storage, n, s.len)
      = Res.ok ((Lemmas.BitEnc.phase1 w s n v).1.storage, (Lemmas.BitEnc.phase1 w s n v).2,
          (Lemmas.BitEnc.phase1 w s n v).1.len) := by
    intro h0
    have hm : s.len % (32 / w) ≠ 0 := by
      intro h
      have := (addr_snd_eq_zero w s.len hw).mpr h
      omega
    have hb : (Model.BitEnc.addr w s.len).1 < s.storage.length := by
      unfold Shape specBlocks perBlock at hs
      rw [addr_fst w s.len hw, hs]
      exact (blocks_succ_part _ _ (per_cases w hw) hm).2
    have hin : ∀ j, j < (usable w - (Model.BitEnc.addr w s.len).2 + w - 1) / w →
        (Model.BitEnc.addr w s.len).2 + j * w < usable w := by
      intro j hj
      have h1 := (Nat.le_div_iff_mul_le hw0).mp
        (show j + 1 ≤ (usable w - (Model.BitEnc.addr w s.len).2 + w - 1) / w by omega)
      rw [Nat.add_mul] at h1
      omega
    have hstop : usable w ≤ (Model.BitEnc.addr w s.len).2
        + (usable w - (Model.BitEnc.addr w s.len).2 + w - 1) / w * w := by
      have h1 := Nat.div_add_mod (usable w - (Model.BitEnc.addr w s.len).2 + w - 1) w
      have h2 := Nat.mod_lt (usable w - (Model.BitEnc.addr w s.len).2 + w - 1) hw0
      rw [Nat.mul_comm] at h1
      omega
    rw [hP, if_pos h0]
    exact fill_fold w _ v _ n _ s hb hin hstop hlen1
  have hP0 : ¬ (Model.BitEnc.addr w s.len).2 > 0 → Lemmas.BitEnc.phase1 w s n v = (s, n) := by
    intro h0; rw [hP, if_neg h0]
  unfold Lemmas.BitEnc.phase2
  -- the swapped operand order of `self.len + n`
  have e7' : Rs.add 64 (Lemmas.BitEnc.phase1 w s n v).2 (Lemmas.BitEnc.phase1 w s n v).1.len
      = Res.ok ((Lemmas.BitEnc.phase1 w s n v).1.len + (Lemmas.BitEnc.phase1 w s n v).2) := by
    rw [Rs.add_ok (by omega), Nat.add_comm]
  by_cases h0 : (Model.BitEnc.addr w s.len).2 > 0
  · have e2' := e2 h0
    obtain ⟨a1, a2, a3, a4⟩ := pos_forms h0
    by_cases h1 : (Lemmas.BitEnc.phase1 w s n v).2 > 0
    · obtain ⟨b1, b2, b3, b4⟩ := pos_forms h1
      by_cases h2 : (Model.BitEnc.addr w ((Lemmas.BitEnc.phase1 w s n v).1.len + (Lemmas.BitEnc.phase1 w s n v).2)).2 > 0
      · have e10' := e10 h2
        obtain ⟨c1, c2, c3, c4⟩ := pos_forms h2
        simp only [Gen.SrcBitEnc.pushValues, e0, h0, h1, h2, a1, a2, a3, a4, b1, b2, b3, b4, c1, c2, c3, c4, decide_true,
          decide_false, if_true, ite_true, if_false, ite_false, e1, e2', e5, e6, e7, e7', e8, e9, e10', Nat.sub_zero,
          Res.ok_bind, Res.pure_eq_ok, resize_eq_model, Bool.false_eq_true, gt_iff_lt, not_false_eq_true, not_true_eq_false]
      · obtain ⟨c1, c2, c3, c4⟩ := zero_forms h2
        simp only [Gen.SrcBitEnc.pushValues, e0, h0, h1, h2, a1, a2, a3, a4, b1, b2, b3, b4, c1, c2, c3, c4, decide_true,
          decide_false, if_true, ite_true, if_false, ite_false, e1, e2', e5, e6, e7, e7', e8, Nat.sub_zero, Res.ok_bind,
          Res.pure_eq_ok, resize_eq_model, Bool.false_eq_true, gt_iff_lt, not_false_eq_true, not_true_eq_false]
    · obtain ⟨b1, b2, b3, b4⟩ := zero_forms h1
      simp only [Gen.SrcBitEnc.pushValues, e0, h0, h1, a1, a2, a3, a4, b1, b2, b3, b4, decide_true, decide_false, if_true,
        ite_true, if_false, ite_false, e1, e2', Res.ok_bind, Res.pure_eq_ok, Bool.false_eq_true, gt_iff_lt,
        not_false_eq_true, not_true_eq_false]
  · have hP0' := hP0 h0
    obtain ⟨a1, a2, a3, a4⟩ := zero_forms h0
    rw [hP0'] at e7 e7' e8 e9 e10 ⊢
    simp only at e7 e7' e8 e9 e10 ⊢
    by_cases h1 : n > 0
    · obtain ⟨b1, b2, b3, b4⟩ := pos_forms h1
      by_cases h2 : (Model.BitEnc.addr w (s.len + n)).2 > 0
      · have e10' := e10 h2
        obtain ⟨c1, c2, c3, c4⟩ := pos_forms h2
        simp only [Gen.SrcBitEnc.pushValues, e0, h0, h1, h2, a1, a2, a3, a4, b1, b2, b3, b4, c1, c2, c3, c4, decide_true,
          decide_false, if_true, ite_true, if_false, ite_false, e5, e6, e7, e7', e8, e9, e10', Nat.sub_zero, Res.ok_bind,
          Res.pure_eq_ok, resize_eq_model, Bool.false_eq_true, gt_iff_lt, not_false_eq_true, not_true_eq_false]
      · obtain ⟨c1, c2, c3, c4⟩ := zero_forms h2
        simp only [Gen.SrcBitEnc.pushValues, e0, h0, h1, h2, a1, a2, a3, a4, b1, b2, b3, b4, c1, c2, c3, c4, decide_true,
          decide_false, if_true, ite_true, if_false, ite_false, e5, e6, e7, e7', e8, Nat.sub_zero, Res.ok_bind,
          Res.pure_eq_ok, resize_eq_model, Bool.false_eq_true, gt_iff_lt, not_false_eq_true, not_true_eq_false]
    · obtain ⟨b1, b2, b3, b4⟩ := zero_forms h1
      simp only [Gen.SrcBitEnc.pushValues, e0, h0, h1, a1, a2, a3, a4, b1, b2, b3, b4, decide_false, decide_true, if_false,
        ite_false, if_true, ite_true, Res.ok_bind, Res.pure_eq_ok, Bool.false_eq_true, gt_iff_lt, not_false_eq_true,
        not_true_eq_false]

/-! ### whole histories executed with the translated operations -/
open RbV.Spec.BitEnc (Op specStep)
open RbV.Lemmas.BitEnc (Abs abs_step abs_new get_of_abs)

/-- one operation of a history executed with the **translated** functions on the fields `(storage, len)` of a `BitEnc`
whose other fields are `width`, `mask`, `usable` (observers return the state unchanged, but must not panic) -/
def srcStep (width mask usable : Nat) (st : List Nat × Nat) : Op → Res (List Nat × Nat)
  | .push v => Gen.SrcBitEnc.push st.1 width mask st.2 usable v
  | .pushValues n v => Gen.SrcBitEnc.pushValues st.1 width mask st.2 usable n v
  | .set i v => do
      let storage ← Gen.SrcBitEnc.set st.1 width mask st.2 usable i v
      pure (storage, st.2)
  | .get i => do
      let _ ← Gen.SrcBitEnc.get st.1 width mask st.2 usable i
      pure st
  | .iter => pure st
  | .clear => Gen.SrcBitEnc.clear st.1 width mask st.2 usable

/-- a history the Rust code accepts without leaving the modelled behaviour: every `set` addresses an existing element
(beyond the end `set_by_addr` may index out of bounds) and the length in bits always fits `usize` -/
def OpsOk (w : Nat) : List Nat → List Op → Prop
  | _, [] => True
  | l, op :: ops =>
    (match op with | .set i _ => i < l.length | _ => True) ∧ (specStep w l op).length * w < 2 ^ 64 ∧
      OpsOk w (specStep w l op) ops

theorem srcStep_eq_model (w : Nat) (hw : 1 ≤ w ∧ w ≤ 8) (s : St) (l : List Nat) (h : Abs w s l) (op : Op)
    (hset : match op with | .set i _ => i < l.length | _ => True) (hlen : (specStep w l op).length * w < 2 ^ 64) :
    srcStep w (Model.BitEnc.mask w) (usable w) (s.storage, s.len) op
      = Res.ok ((Model.BitEnc.step w s op).storage, (Model.BitEnc.step w s op).len) := by
  have hs : Shape w s := h.2
  have hl : s.len = l.length := h.1.1
  have hmono : ∀ a b : Nat, a ≤ b → b * w < 2 ^ 64 → a * w < 2 ^ 64 :=
    fun a b hab hb => Nat.lt_of_le_of_lt (Nat.mul_le_mul_right w hab) hb
  have hw1 : ∀ a : Nat, a * w < 2 ^ 64 → a < 2 ^ 64 := by
    intro a ha
    have : a * 1 ≤ a * w := Nat.mul_le_mul_left a hw.1
    omega
  cases op with
  | push v =>
    simp only [specStep, List.length_append, List.length_singleton] at hlen
    have := push_eq_model w hw s hs (hmono _ _ (by omega) hlen) (by rw [hl]; exact hw1 _ hlen) v
    simpa only [srcStep, Model.BitEnc.step] using this
  | pushValues n v =>
    simp only [specStep, List.length_append, List.length_replicate] at hlen
    have := pushValues_eq_model w hw s hs n v (by rw [hl]; exact hlen) (by rw [hl]; exact hw1 _ hlen)
    simpa only [srcStep, Model.BitEnc.step] using this
  | set i v =>
    simp only [specStep, List.length_set] at hlen
    simp only at hset
    have := set_eq_model w hw s i v (hmono _ _ (by omega) hlen) (block_lt_of_lt w hw s hs i (by omega))
    simp only [srcStep, Model.BitEnc.step, this, Res.ok_bind, Res.pure_eq_ok, set_len]
  | get i =>
    simp only [specStep] at hlen
    have := get_eq_model w hw s hs (by rw [hl]; exact hlen) i
    simp only [srcStep, Model.BitEnc.step, this, Res.ok_bind, Res.pure_eq_ok]
  | iter => simp only [srcStep, Model.BitEnc.step, Res.pure_eq_ok]
  | clear =>
    have := clear_eq_model w (Model.BitEnc.mask w) (usable w) s
    simpa only [srcStep, Model.BitEnc.step] using this

/-- a whole history run through the translated operations reaches exactly the model's state -/
theorem run_eq_model (w : Nat) (hw : 1 ≤ w ∧ w ≤ 8) (ops : List Op) : ∀ (s : St) (l : List Nat), Abs w s l →
    OpsOk w l ops →
    ops.foldlM (srcStep w (Model.BitEnc.mask w) (usable w)) (s.storage, s.len)
      = Res.ok ((ops.foldl (Model.BitEnc.step w) s).storage, (ops.foldl (Model.BitEnc.step w) s).len) := by
  induction ops with
  | nil => intro s l _ _; rfl
  | cons op ops ih =>
    intro s l h hok
    obtain ⟨h1, h2, h3⟩ := hok
    rw [List.foldlM_cons, srcStep_eq_model w hw s l h op h1 h2]
    exact ih _ _ (abs_step w s l op hw h) h3

theorem opsOk_final_len (w : Nat) (ops : List Op) : ∀ l : List Nat, l.length * w < 2 ^ 64 → OpsOk w l ops →
    (ops.foldl (specStep w) l).length * w < 2 ^ 64 := by
  induction ops with
  | nil => intro l h _; exact h
  | cons op ops ih => intro l _ hok; exact ih _ hok.2.1 hok.2.2

end RbV.Thm.GenSrcBitEncOps
