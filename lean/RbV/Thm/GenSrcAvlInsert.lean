import RbV.Thm.GenSrcAvl
/-!
# The source text of the AVL interval tree = the mirror model: `repair`, `Node::insert`, `IntervalTree::insert`, histories

Continuation of `Thm/GenSrcAvl.lean`.  `repair_eq_model`: on a node whose two subtrees have exact fields (`Fields`) the
translated `repair` — the three-way case distinction on `(left_h - right_h).abs()`, the inner rotation of the zig-zag
cases applied through the `&mut` borrowed from `self.right` / `self.left`, the outer rotation — never panics (no `expect`
on a missing child, no `i64` overflow for fewer than `2^60` nodes) and yields exactly `Avl.repair` of the model.
`nodeInsert_eq_model`: the recursive `Node::insert` (recursion on fuel; `ht ≤ fuel` suffices) equals `Avl.insertG tb` for
**every** tie-break test `tb` the condition hole of the source computes (`HoleIs`); `goLeft_spec` shows that the test
found in the source is admissible (`TieOk`), which is all the invariant proofs need (seeded change C07-H1).
-/
set_option linter.unusedSimpArgs false
set_option linter.unusedVariables false
namespace RbV.GenSrcAvl
open RbV RbV.Rs RbV.Rs.Res RbV.Ivl RbV.Avl RbV.Gen
open RbV.Gen.SrcAvl (Node IntervalTree IntervalTreeIterator IntervalTreeIteratorMut EntryMut updateHeight updateMax swapIntervalData nodeNew nodeInsert nodeInsert_goLeft treeInsert treeDefault treeFind treeFindMut iterNext iterNext_loop1 iterMutNext iterMutNext_loop1)

theorem ht_le_size (t : Tree) (f : Fields t) : ht t ≤ size t := by
  rw [ht_eq_realHeight t f]; exact realHeight_le_size t

theorem fields_children (m : Node) (f : Fields (toTree m)) : Fields (toTreeO m.left) ∧ Fields (toTreeO m.right) := by
  rw [toTree_eq] at f; exact ⟨f.1, f.2.1⟩

theorem hOf_eq_ht (o : Option Node) (f : Fields (toTreeO o)) : hOf o = (ht (toTreeO o) : Int) := by
  cases o with
  | none => simp [ht]
  | some m =>
    rw [toTreeO_some, toTree_eq] at f
    obtain ⟨_, _, _, hh⟩ := f
    rw [ht_toTreeO, hOf_some]
    simp only [updHeight] at hh
    omega

theorem fields_hr (o : Option Node) (S : Int) (f : Fields (toTreeO o)) (hs : (size (toTreeO o) : Int) ≤ S) : HR S o := by
  have := hOf_eq_ht o f
  have := ht_le_size _ f
  constructor <;> omega

theorem size_toTree (m : Node) : size (toTree m) = size (toTreeO m.left) + 1 + size (toTreeO m.right) := by
  rw [toTree_eq]; rfl

/-! the four rotation cases of the model's `repair`, on explicit shapes -/
theorem repair_RL (L A Bt RR : Tree) (x y z : Ivl.Entry) (mx amx rmx : Int) (h ah rh : Nat)
    (hb : ¬(ht L ≤ rh + 1 ∧ rh ≤ ht L + 1)) (hg : rh > ht L) (hd : ah > ht RR) :
    Avl.repair (.node L x mx h (.node (.node A z amx ah Bt) y rmx rh RR)) = mk (mk L x A) z (mk Bt y RR) := by
  simp [Avl.repair, ht_node, hb, hg, hd, Avl.rotateLeft, Avl.rotateRight, mk]

theorem repair_RR (L RL RR : Tree) (x y : Ivl.Entry) (mx rmx : Int) (h rh : Nat)
    (hb : ¬(ht L ≤ rh + 1 ∧ rh ≤ ht L + 1)) (hg : rh > ht L) (hd : ¬ ht RL > ht RR) :
    Avl.repair (.node L x mx h (.node RL y rmx rh RR)) = mk (mk L x RL) y RR := by
  simp [Avl.repair, ht_node, hb, hg, hd, Avl.rotateLeft]

theorem repair_LR (LL A Bt R : Tree) (x y z : Ivl.Entry) (mx amx lmx : Int) (h ah lh : Nat)
    (hb : ¬(lh ≤ ht R + 1 ∧ ht R ≤ lh + 1)) (hg : ¬ ht R > lh) (hd : ah > ht LL) :
    Avl.repair (.node (.node LL y lmx lh (.node A z amx ah Bt)) x mx h R) = mk (mk LL y A) z (mk Bt x R) := by
  simp [Avl.repair, ht_node, hb, hg, hd, Avl.rotateLeft, Avl.rotateRight, mk]

theorem repair_LL (LL LR R : Tree) (x y : Ivl.Entry) (mx lmx : Int) (h lh : Nat)
    (hb : ¬(lh ≤ ht R + 1 ∧ ht R ≤ lh + 1)) (hg : ¬ ht R > lh) (hd : ¬ ht LR > ht LL) :
    Avl.repair (.node (.node LL y lmx lh LR) x mx h R) = mk LL y (mk LR x R) := by
  simp [Avl.repair, ht_node, hb, hg, hd, Avl.rotateRight]

theorem repair_eq_model (n : Node) (fl : Fields (toTreeO n.left)) (fr : Fields (toTreeO n.right))
    (hs : size (toTree n) < 2 ^ 60) :
    ∃ n', SrcAvl.repair n = ok n' ∧ toTree n' = Avl.repair (toTree n) := by
  have hsz := size_toTree n
  have hl := hOf_eq_ht _ fl
  have hr := hOf_eq_ht _ fr
  have sl := ht_le_size _ fl
  have sr := ht_le_size _ fr
  have e1 : Rs.isub 64 (hOf n.left) (hOf n.right) = ok (hOf n.left - hOf n.right) :=
    Rs.isub_ok (inS64 (by omega) (by omega))
  have e2 : Rs.iabs 64 (hOf n.left - hOf n.right) =
      ok (if hOf n.left - hOf n.right < 0 then -(hOf n.left - hOf n.right) else hOf n.left - hOf n.right) :=
    Rs.iabs_ok (inS64 (by split <;> omega) (by split <;> omega))
  -- the same difference with the operands exchanged (`(right_h - left_h).abs()`)
  have e1' : Rs.isub 64 (hOf n.right) (hOf n.left) = ok (hOf n.right - hOf n.left) :=
    Rs.isub_ok (inS64 (by omega) (by omega))
  have e2' : Rs.iabs 64 (hOf n.right - hOf n.left) =
      ok (if hOf n.right - hOf n.left < 0 then -(hOf n.right - hOf n.left) else hOf n.right - hOf n.left) :=
    Rs.iabs_ok (inS64 (by split <;> omega) (by split <;> omega))
  rw [toTree_eq n]
  obtain ⟨iv, v, mx, h, l, r⟩ := n
  simp only at fl fr hsz hl hr sl sr e1 e2 e1' e2' ⊢
  simp only [SrcAvl.repair, e1, e2, e1', e2', Res.ok_bind]
  by_cases hbal : ht (toTreeO l) ≤ ht (toTreeO r) + 1 ∧ ht (toTreeO r) ≤ ht (toTreeO l) + 1
  · -- balanced: `update_height(); update_max()`
    have c1 : (if hOf l - hOf r < 0 then -(hOf l - hOf r) else hOf l - hOf r) ≤ 1 := by split <;> omega
    have c1a : (if hOf l - hOf r < 0 then -(hOf l - hOf r) else hOf l - hOf r) < 2 := by split <;> omega
    have c1b : (if hOf r - hOf l < 0 then -(hOf r - hOf l) else hOf r - hOf l) ≤ 1 := by split <;> omega
    have c1c : (if hOf r - hOf l < 0 then -(hOf r - hOf l) else hOf r - hOf l) < 2 := by split <;> omega
    have hB : ((2 : Int) ^ 60) + 1 < 2 ^ 63 := by decide
    have u := updates_eq ⟨iv, v, mx, h, l, r⟩ (2 ^ 60) hB (by hr_tac) (by hr_tac)
    simp only [bind, Res.bind] at u
    simp only [if_pos c1, if_pos c1a, if_pos c1b, if_pos c1c, bind, Res.bind, u]
    refine ⟨_, rfl, ?_⟩
    rw [toTree_mkN _ _ _ _ (by omega) (by omega)]
    simp [Avl.repair, hbal, entryOf]
  · have c1 : ¬ (if hOf l - hOf r < 0 then -(hOf l - hOf r) else hOf l - hOf r) ≤ 1 := by split <;> omega
    have c1a : ¬ (if hOf l - hOf r < 0 then -(hOf l - hOf r) else hOf l - hOf r) < 2 := by split <;> omega
    have c1b : ¬ (if hOf r - hOf l < 0 then -(hOf r - hOf l) else hOf r - hOf l) ≤ 1 := by split <;> omega
    have c1c : ¬ (if hOf r - hOf l < 0 then -(hOf r - hOf l) else hOf r - hOf l) < 2 := by split <;> omega
    have hB : ((2 : Int) ^ 60) + 2 < 2 ^ 63 := by decide
    have hB1 : ((2 : Int) ^ 60 + 1) + 2 < 2 ^ 63 := by decide
    have hL : HR (2 ^ 60) l := fields_hr l _ fl (by omega)
    have hL1 : HR (2 ^ 60 + 1) l := ⟨hL.1, by have := hL.2; omega⟩
    have hR : HR (2 ^ 60) r := fields_hr r _ fr (by omega)
    have hR1 : HR (2 ^ 60 + 1) r := ⟨hR.1, by have := hR.2; omega⟩
    by_cases hgt : ht (toTreeO r) > ht (toTreeO l)
    · have c2 : hOf r > hOf l := by omega
      cases r with
      | none => simp [ht] at hgt
      | some rn =>
        rw [toTreeO_some] at fr hsz hr sr hgt hbal
        obtain ⟨frl, frr⟩ := fields_children rn fr
        have hrl := hOf_eq_ht _ frl
        have hrr := hOf_eq_ht _ frr
        have hszr := size_toTree rn
        have hRL : HR (2 ^ 60) rn.left := fields_hr _ _ frl (by omega)
        have hRR : HR (2 ^ 60) rn.right := fields_hr _ _ frr (by omega)
        have hRR1 : HR (2 ^ 60 + 1) rn.right := ⟨hRR.1, by have := hRR.2; omega⟩
        have hrn : hOf (some rn) = rn.height := rfl
        by_cases hd : ht (toTreeO rn.left) > ht (toTreeO rn.right)
        · have c3 : hOf rn.left > hOf rn.right := by omega
          cases hra : rn.left with
          | none => rw [hra] at hd; simp [ht] at hd
          | some a =>
            rw [hra, toTreeO_some] at frl hrl hd hszr
            obtain ⟨fal, far⟩ := fields_children a frl
            have hsza := size_toTree a
            have hAL : HR (2 ^ 60) a.left := fields_hr _ _ fal (by omega)
            have hAL1 : HR (2 ^ 60 + 1) a.left := ⟨hAL.1, by have := hAL.2; omega⟩
            have hAR : HR (2 ^ 60) a.right := fields_hr _ _ far (by omega)
            have q1 := rotateRight_eq rn a (2 ^ 60) hB hra hAL hAR hRR
            have q2 := rotateLeft_eq ⟨iv, v, mx, h, l, some (mkN a.left a.interval a.value
              (some (mkN a.right rn.interval rn.value rn.right)))⟩ _ (2 ^ 60 + 1) hB1 rfl hL1 hAL1
              (by have := hAR.1; have := hAR.2; have := hRR.1; have := hRR.2; simp only [mkN]; hr_tac)
            simp only [if_neg c1, if_neg c1a, if_neg c1b, if_neg c1c, if_pos c2, Rs.expect, if_pos c3, q1, q2, Res.ok_bind, pure_bind, Res.pure_eq_ok]
            refine ⟨_, rfl, ?_⟩
            have t1 := toTree_mkN l iv v a.left hL.1 hAL.1
            have t2 := toTree_mkN a.right rn.interval rn.value rn.right hAR.1 hRR.1
            have t3 := toTree_mkN (some (mkN l iv v a.left)) a.interval a.value
              (some (mkN a.right rn.interval rn.value rn.right))
              (by have := hL.1; have := hAL.1; simp only [hOf_mkN]; omega)
              (by have := hAR.1; have := hRR.1; simp only [hOf_mkN]; omega)
            simp only [toTreeO_some] at t1 t2 t3
            try simp only [mkN_left, mkN_right, mkN_interval, mkN_value]
            rw [t3, t1, t2, toTreeO_some, toTree_eq rn, hra, toTreeO_some, toTree_eq a]
            rw [repair_RL _ _ _ _ _ _ _ _ _ _ _ _ _
              (by rw [ht_toTreeO]; have := hL.1; omega) (by rw [ht_toTreeO]; have := hL.1; omega)
              (by rw [ht_toTreeO] at hd ⊢; have := hAL.1; have : hOf (some a) = a.height := rfl; omega)]
            simp [entryOf]
        · have c3 : ¬ hOf rn.left > hOf rn.right := by omega
          have q2 := rotateLeft_eq ⟨iv, v, mx, h, l, some rn⟩ rn (2 ^ 60) hB rfl hL hRL hRR
          simp only [if_neg c1, if_neg c1a, if_neg c1b, if_neg c1c, if_pos c2, Rs.expect, if_neg c3, q2, Res.ok_bind, pure_bind, Res.pure_eq_ok]
          refine ⟨_, rfl, ?_⟩
          have t1 := toTree_mkN l iv v rn.left hL.1 hRL.1
          have t3 := toTree_mkN (some (mkN l iv v rn.left)) rn.interval rn.value rn.right
            (by have := hL.1; have := hRL.1; simp only [hOf_mkN]; omega) hRR.1
          simp only [toTreeO_some] at t1 t3
          try simp only [mkN_left, mkN_right, mkN_interval, mkN_value]
          rw [t3, t1, toTreeO_some, toTree_eq rn]
          rw [repair_RR _ _ _ _ _ _ _ _ _
            (by rw [ht_toTreeO]; have := hL.1; omega) (by rw [ht_toTreeO]; have := hL.1; omega) hd]
          simp [entryOf]
    · have c2 : ¬ hOf r > hOf l := by omega
      cases l with
      | none => simp [ht] at hgt hbal; omega
      | some ln =>
        rw [toTreeO_some] at fl hsz hl sl hgt hbal
        obtain ⟨fll, flr⟩ := fields_children ln fl
        have hll := hOf_eq_ht _ fll
        have hlr := hOf_eq_ht _ flr
        have hszl := size_toTree ln
        have hLL : HR (2 ^ 60) ln.left := fields_hr _ _ fll (by omega)
        have hLR : HR (2 ^ 60) ln.right := fields_hr _ _ flr (by omega)
        have hln : hOf (some ln) = ln.height := rfl
        by_cases hd : ht (toTreeO ln.right) > ht (toTreeO ln.left)
        · have c3 : hOf ln.right > hOf ln.left := by omega
          cases hla : ln.right with
          | none => rw [hla] at hd; simp [ht] at hd
          | some a =>
            rw [hla, toTreeO_some] at flr hlr hd hszl
            obtain ⟨fal, far⟩ := fields_children a flr
            have hsza := size_toTree a
            have hAL : HR (2 ^ 60) a.left := fields_hr _ _ fal (by omega)
            have hAR : HR (2 ^ 60) a.right := fields_hr _ _ far (by omega)
            have hAR1 : HR (2 ^ 60 + 1) a.right := ⟨hAR.1, by have := hAR.2; omega⟩
            have q1 := rotateLeft_eq ln a (2 ^ 60) hB hla hLL hAL hAR
            have q2 := rotateRight_eq ⟨iv, v, mx, h, some (mkN (some (mkN ln.left ln.interval ln.value a.left))
              a.interval a.value a.right), r⟩ _ (2 ^ 60 + 1) hB1 rfl
              (by have := hLL.1; have := hLL.2; have := hAL.1; have := hAL.2; simp only [mkN]; hr_tac) hAR1 hR1
            simp only [if_neg c1, if_neg c1a, if_neg c1b, if_neg c1c, if_neg c2, Rs.expect, if_pos c3, q1, q2, Res.ok_bind, pure_bind, Res.pure_eq_ok]
            refine ⟨_, rfl, ?_⟩
            have t1 := toTree_mkN ln.left ln.interval ln.value a.left hLL.1 hAL.1
            have t2 := toTree_mkN a.right iv v r hAR.1 hR.1
            have t3 := toTree_mkN (some (mkN ln.left ln.interval ln.value a.left)) a.interval a.value
              (some (mkN a.right iv v r))
              (by have := hLL.1; have := hAL.1; simp only [hOf_mkN]; omega)
              (by have := hAR.1; have := hR.1; simp only [hOf_mkN]; omega)
            simp only [toTreeO_some] at t1 t2 t3
            try simp only [mkN_left, mkN_right, mkN_interval, mkN_value]
            rw [t3, t1, t2, toTreeO_some, toTree_eq ln, hla, toTreeO_some, toTree_eq a]
            rw [repair_LR _ _ _ _ _ _ _ _ _ _ _ _ _
              (by rw [ht_toTreeO]; have := hR.1; omega) (by rw [ht_toTreeO]; have := hR.1; omega)
              (by rw [ht_toTreeO] at hd ⊢; have := hLL.1; have : hOf (some a) = a.height := rfl; omega)]
            simp [entryOf]
        · have c3 : ¬ hOf ln.right > hOf ln.left := by omega
          have q2 := rotateRight_eq ⟨iv, v, mx, h, some ln, r⟩ ln (2 ^ 60) hB rfl hLL hLR hR
          simp only [if_neg c1, if_neg c1a, if_neg c1b, if_neg c1c, if_neg c2, Rs.expect, if_neg c3, q2, Res.ok_bind, pure_bind, Res.pure_eq_ok]
          refine ⟨_, rfl, ?_⟩
          have t1 := toTree_mkN ln.right iv v r hLR.1 hR.1
          have t3 := toTree_mkN ln.left ln.interval ln.value (some (mkN ln.right iv v r)) hLL.1
            (by have := hR.1; have := hLR.1; simp only [hOf_mkN]; omega)
          simp only [toTreeO_some] at t1 t3
          try simp only [mkN_left, mkN_right, mkN_interval, mkN_value]
          rw [t3, t1, toTreeO_some, toTree_eq ln]
          rw [repair_LL _ _ _ _ _ _ _ _ _
            (by rw [ht_toTreeO]; have := hR.1; omega) (by rw [ht_toTreeO]; have := hR.1; omega) hd]
          simp [entryOf]

/-! ## `Node::new`, `Node::insert` -/

theorem nodeNew_eq (iv : Int × Int) (d : Int) : nodeNew iv d = ok ⟨iv, d, iv.2, 1, none, none⟩ := rfl

theorem toTree_new (iv : Int × Int) (d : Int) : toTree ⟨iv, d, iv.2, 1, none, none⟩ = leaf ⟨iv.1, iv.2, d⟩ := by
  simp [toTree, leaf]

/-- the condition hole of `Node::insert` computes the tie-break `tb` of the model -/
def HoleIs (goLeft : (Int × Int) → Node → Bool) (tb : TieBreak) : Prop :=
  ∀ (iv : Int × Int) (d : Int) (n : Node), goLeft iv n = tb ⟨iv.1, iv.2, d⟩ (entryOf n)

theorem good_toTree (n : Node) (g : Good (toTree n)) :
    Good (toTreeO n.left) ∧ Good (toTreeO n.right) ∧ n.height.toNat = 1 + max (ht (toTreeO n.left)) (ht (toTreeO n.right)) := by
  rw [toTree_eq, good_node_iff] at g
  exact ⟨g.1, g.2.1, g.2.2.2.1⟩

theorem nodeInsert_eq_model (goLeft : (Int × Int) → Node → Bool) (tb : TieBreak) (hh : HoleIs goLeft tb) :
    ∀ (fuel : Nat) (n : Node) (iv : Int × Int) (d : Int), Good (toTree n) → size (toTree n) + 1 < 2 ^ 60 →
      ht (toTree n) ≤ fuel →
      ∃ n', nodeInsert goLeft fuel n iv d = ok n' ∧ toTree n' = insertG tb (toTree n) ⟨iv.1, iv.2, d⟩ := by
  intro fuel
  induction fuel with
  | zero =>
    intro n iv d g hs hf
    obtain ⟨_, _, hh'⟩ := good_toTree n g
    rw [toTree_eq] at hf
    simp only [ht_node] at hf
    omega
  | succ fuel ih =>
    intro n iv d g hs hf
    obtain ⟨gl, gr, hht⟩ := good_toTree n g
    have hsz := size_toTree n
    have hgl := hh iv d n
    rw [toTree_eq n] at hf ⊢
    simp only [ht_node] at hf
    obtain ⟨iv0, v0, mx, h, l, r⟩ := n
    simp only at gl gr hht hsz hgl hf ⊢
    unfold insertG
    by_cases htb : tb ⟨iv.1, iv.2, d⟩ (entryOf ⟨iv0, v0, mx, h, l, r⟩) = true
    · rw [if_pos htb]
      rw [htb] at hgl
      cases l with
      | none =>
        have hrep := repair_eq_model ⟨iv0, v0, mx, h, some ⟨iv, d, iv.2, 1, none, none⟩, r⟩
          (by rw [toTreeO_some, toTree_new]; exact (good_leaf _).1) gr.1
          (by rw [size_toTree] at hs ⊢; simp only [toTreeO_some, toTree_new, toTreeO_none] at hs ⊢; simp only [leaf, size] at hs ⊢; omega)
        obtain ⟨n', h1, h2⟩ := hrep
        refine ⟨n', ?_, ?_⟩
        · simp only [nodeInsert, hgl, nodeNew_eq, if_true, Res.ok_bind, pure_bind, Res.pure_eq_ok, h1]
        · rw [h2, toTree_eq]
          simp only [toTreeO_some, toTree_new, toTreeO_none, insertG, entryOf]
      | some son =>
        rw [toTreeO_some] at gl hht hsz
        obtain ⟨son', s1, s2⟩ := ih son iv d gl (by omega) (by omega)
        obtain ⟨gi, i1, i2⟩ := insertG_good tb (toTree son) ⟨iv.1, iv.2, d⟩ gl
        have hrep := repair_eq_model ⟨iv0, v0, mx, h, some son', r⟩ (by rw [toTreeO_some, s2]; exact gi.1) gr.1
          (by rw [size_toTree]; simp only [toTreeO_some, s2, size_insertG]; omega)
        obtain ⟨n', h1, h2⟩ := hrep
        refine ⟨n', ?_, ?_⟩
        · simp only [nodeInsert, hgl, s1, if_true, Res.ok_bind, pure_bind, Res.pure_eq_ok, h1]
        · rw [h2, toTree_eq]
          simp only [toTreeO_some, s2, entryOf]
    · rw [if_neg htb]
      have htb' : tb ⟨iv.1, iv.2, d⟩ (entryOf ⟨iv0, v0, mx, h, l, r⟩) = false := by simpa using htb
      rw [htb'] at hgl
      cases r with
      | none =>
        have hrep := repair_eq_model ⟨iv0, v0, mx, h, l, some ⟨iv, d, iv.2, 1, none, none⟩⟩ gl.1
          (by rw [toTreeO_some, toTree_new]; exact (good_leaf _).1)
          (by rw [size_toTree] at hs ⊢; simp only [toTreeO_some, toTree_new, toTreeO_none] at hs ⊢; simp only [leaf, size] at hs ⊢; omega)
        obtain ⟨n', h1, h2⟩ := hrep
        refine ⟨n', ?_, ?_⟩
        · simp only [nodeInsert, hgl, nodeNew_eq, Bool.false_eq_true, if_false, Res.ok_bind, pure_bind, Res.pure_eq_ok, h1]
        · rw [h2, toTree_eq]
          simp only [toTreeO_some, toTree_new, toTreeO_none, insertG, entryOf]
      | some son =>
        rw [toTreeO_some] at gr hht hsz
        obtain ⟨son', s1, s2⟩ := ih son iv d gr (by omega) (by omega)
        obtain ⟨gi, i1, i2⟩ := insertG_good tb (toTree son) ⟨iv.1, iv.2, d⟩ gr
        have hrep := repair_eq_model ⟨iv0, v0, mx, h, l, some son'⟩ gl.1 (by rw [toTreeO_some, s2]; exact gi.1)
          (by rw [size_toTree]; simp only [toTreeO_some, s2, size_insertG]; omega)
        obtain ⟨n', h1, h2⟩ := hrep
        refine ⟨n', ?_, ?_⟩
        · simp only [nodeInsert, hgl, s1, Bool.false_eq_true, if_false, Res.ok_bind, pure_bind, Res.pure_eq_ok, h1]
        · rw [h2, toTree_eq]
          simp only [toTreeO_some, s2, entryOf]

/-! ## the tie-break found in the source -/

/-- the condition hole of the source as a tie-break of the model (it only reads the two starts) -/
def srcTb : TieBreak := fun e x => nodeInsert_goLeft (e.lo, e.hi) ⟨(x.lo, x.hi), x.data, 0, 0, none, none⟩

theorem holeIs_src : HoleIs nodeInsert_goLeft srcTb := by
  intro iv d n
  cases n
  rfl

/-- the test of the source is admissible: what goes left does not start after the node, what goes right does not start
before it — true of the pinned `<=` and of the `<` of seeded change C07-H1 alike -/
theorem tieOk_src : TieOk srcTb := by
  intro e x
  simp only [srcTb, nodeInsert_goLeft, decide_eq_true_eq, decide_eq_false_iff_not, ge_iff_le, gt_iff_lt]
  omega

/-! ## `IntervalTree::insert` and whole histories -/

theorem treeInsert_eq_model (goLeft : (Int × Int) → Node → Bool) (tb : TieBreak) (hh : HoleIs goLeft tb) (fuel : Nat)
    (T : IntervalTree) (iv : Int × Int) (d : Int) (g : Good (toTreeO T.root)) (hs : size (toTreeO T.root) + 1 < 2 ^ 60)
    (hf : size (toTreeO T.root) ≤ fuel) :
    ∃ T', treeInsert goLeft fuel T iv d = ok T' ∧ toTreeO T'.root = insertG tb (toTreeO T.root) ⟨iv.1, iv.2, d⟩ := by
  obtain ⟨root⟩ := T
  cases root with
  | none =>
    refine ⟨⟨some ⟨iv, d, iv.2, 1, none, none⟩⟩, ?_, ?_⟩
    · simp only [treeInsert, nodeNew_eq, Res.ok_bind, pure_bind, Res.pure_eq_ok]
    · simp only [toTreeO_some, toTree_new, toTreeO_none, insertG]
  | some n =>
    simp only [toTreeO_some] at g hs hf ⊢
    obtain ⟨n', h1, h2⟩ := nodeInsert_eq_model goLeft tb hh fuel n iv d g hs
      (Nat.le_trans (ht_le_size _ g.1) hf)
    refine ⟨⟨some n'⟩, ?_, ?_⟩
    · simp only [treeInsert, h1, Res.ok_bind, pure_bind, Res.pure_eq_ok]
    · simpa using h2

/-- a history of `insert(start..end, data)` calls through the translated `IntervalTree::insert` -/
def srcBuild (goLeft : (Int × Int) → Node → Bool) (fuel : Nat) : List (Int × Int × Int) → IntervalTree → Res IntervalTree
  | [], T => ok T
  | (s, e, d) :: es, T => treeInsert goLeft fuel T (s, e) d >>= srcBuild goLeft fuel es

def entriesOf (es : List (Int × Int × Int)) : List Ivl.Entry := es.map (fun p => ⟨p.1, p.2.1, p.2.2⟩)

theorem srcBuild_eq_model (goLeft : (Int × Int) → Node → Bool) (tb : TieBreak) (hh : HoleIs goLeft tb) (fuel : Nat) :
    ∀ (es : List (Int × Int × Int)) (T : IntervalTree), Good (toTreeO T.root) →
      size (toTreeO T.root) + es.length < 2 ^ 60 → size (toTreeO T.root) + es.length ≤ fuel →
      ∃ T', srcBuild goLeft fuel es T = ok T' ∧
        toTreeO T'.root = (entriesOf es).foldl (insertG tb) (toTreeO T.root)
  | [], T, _, _, _ => ⟨T, rfl, rfl⟩
  | (s, e, d) :: es, T, g, hs, hf => by
    simp only [List.length_cons] at hs hf
    obtain ⟨T1, h1, h2⟩ := treeInsert_eq_model goLeft tb hh fuel T (s, e) d g (by omega) (by omega)
    have g1 : Good (toTreeO T1.root) := by rw [h2]; exact (insertG_good tb _ _ g).1
    have sz : size (toTreeO T1.root) = size (toTreeO T.root) + 1 := by rw [h2, size_insertG]
    obtain ⟨T', h3, h4⟩ := srcBuild_eq_model goLeft tb hh fuel es T1 g1 (by omega) (by omega)
    refine ⟨T', ?_, ?_⟩
    · simp only [srcBuild, h1, Res.ok_bind, h3]
    · rw [h4, h2]; rfl

theorem treeDefault_eq : treeDefault = ok ⟨none⟩ := rfl

end RbV.GenSrcAvl
