import RbV.Gen.SrcPwModes
/-!
# The mode wrappers `Aligner::{global, semiglobal, local}` (translated text) = `custom` with the mode's clip penalties, scoring
restored (builder genalign; C01)

`RbV/Gen/SrcPwModes.lean` is regenerated from the source text on every `./check C01`; `custom` is an abstract function
parameter there (any function `Aligner → x → y → Res (Alignment × Aligner)`), so the statements below hold for whatever
`custom` does — in particular for the translated one (`Gen/SrcPwCustom.lean`).

* `*_eq_custom_with_mode_clips`: the wrapper calls `custom` **once**, on the aligner whose four clip penalties are exactly the
  mode's (`MIN_SCORE`×4 / `MIN_SCORE, MIN_SCORE, 0, 0` / `0`×4) and whose other fields are untouched; it returns `custom`'s
  alignment with the mode tag set (and, for semiglobal / local, the clip operations filtered out); the aligner it leaves
  behind is the one `custom` left, with the four clip penalties put back to what they were on entry.
* `*_source_restores_scoring`: if `custom` does not write `self.scoring` (true of the translated `custom`:
  `GenSrcPwCustom.custom_keeps_scoring`), the wrapper leaves `self.scoring` exactly as it found it — history independence of
  the scoring (seeded C01-1, C01-4, C01-6 break exactly this or the clause above).
-/
set_option linter.unusedSimpArgs false
namespace RbV.Thm.GenSrcPwModes
open RbV RbV.Rs RbV.Gen.Limits RbV.Gen.SrcPwTypes RbV.Gen.SrcPwModes

/-- the aligner with the four clip penalties replaced -/
def withClips (a : Aligner) (xp xs yp ys : Int) : Aligner :=
  { a with scoring := { a.scoring with xclip_prefix := xp, xclip_suffix := xs, yclip_prefix := yp, yclip_suffix := ys } }

/-- what a wrapper does around `custom`: run it with the clips `(xp, xs, yp, ys)`, post-process the alignment, put the
caller's clip penalties back -/
def wrapped (custom : Aligner → List Nat → List Nat → Res (Alignment × Aligner)) (post : Alignment → Alignment)
    (xp xs yp ys : Int) (a : Aligner) (x y : List Nat) : Res (Alignment × Aligner) :=
  match custom (withClips a xp xs yp ys) x y with
  | .ok (al, a') =>
    .ok (post al, withClips a' a.scoring.xclip_prefix a.scoring.xclip_suffix a.scoring.yclip_prefix a.scoring.yclip_suffix)
  | .panic => .panic
  | .fuel => .fuel

/-- `custom` does not write `self.scoring` -/
def KeepsScoring (custom : Aligner → List Nat → List Nat → Res (Alignment × Aligner)) : Prop :=
  ∀ s x y al s', custom s x y = .ok (al, s') → s'.scoring = s.scoring

theorem idx4 (a b c d : Int) : Rs.idx [a, b, c, d] 0 = .ok a ∧ Rs.idx [a, b, c, d] 1 = .ok b ∧
    Rs.idx [a, b, c, d] 2 = .ok c ∧ Rs.idx [a, b, c, d] 3 = .ok d := ⟨rfl, rfl, rfl, rfl⟩

/-- the mode tag and the clip filter commute (the text may set the tag before or after filtering) -/
theorem filter_mode (al : Alignment) (m : AlignmentMode) :
    ({ Alignment.filterClipOperations al with mode := m } : Alignment) = Alignment.filterClipOperations { al with mode := m } := rfl

theorem global_eq_custom_with_mode_clips (custom : Aligner → List Nat → List Nat → Res (Alignment × Aligner))
    (a : Aligner) (x y : List Nat) :
    global_ custom a x y = wrapped custom (fun al => { al with mode := .Global })
      minScorePairwise minScorePairwise minScorePairwise minScorePairwise a x y := by
  unfold global_ wrapped withClips
  simp only [Res.pure_eq_ok, Res.ok_bind, bind, Res.bind]
  cases custom _ x y with
  | ok p => obtain ⟨al, a'⟩ := p; simp [idx4, Res.bind, filter_mode]
  | panic => rfl
  | fuel => rfl

theorem semiglobal_eq_custom_with_mode_clips (custom : Aligner → List Nat → List Nat → Res (Alignment × Aligner))
    (a : Aligner) (x y : List Nat) :
    semiglobal_ custom a x y = wrapped custom
      (fun al => Alignment.filterClipOperations { al with mode := .Semiglobal })
      minScorePairwise minScorePairwise 0 0 a x y := by
  unfold semiglobal_ wrapped withClips
  simp only [Res.pure_eq_ok, Res.ok_bind, bind, Res.bind]
  cases custom _ x y with
  | ok p => obtain ⟨al, a'⟩ := p; simp [idx4, Res.bind, filter_mode]
  | panic => rfl
  | fuel => rfl

theorem local_eq_custom_with_mode_clips (custom : Aligner → List Nat → List Nat → Res (Alignment × Aligner))
    (a : Aligner) (x y : List Nat) :
    local_ custom a x y = wrapped custom
      (fun al => Alignment.filterClipOperations { al with mode := .Local }) 0 0 0 0 a x y := by
  unfold local_ wrapped withClips
  simp only [Res.pure_eq_ok, Res.ok_bind, bind, Res.bind]
  cases custom _ x y with
  | ok p => obtain ⟨al, a'⟩ := p; simp [idx4, Res.bind, filter_mode]
  | panic => rfl
  | fuel => rfl

/-- a wrapped call leaves the scoring as it found it, and the rest of the aligner as `custom` left it -/
theorem wrapped_restores (custom : Aligner → List Nat → List Nat → Res (Alignment × Aligner)) (hk : KeepsScoring custom)
    (post : Alignment → Alignment) (xp xs yp ys : Int) (a : Aligner) (x y : List Nat) (al : Alignment) (a' : Aligner)
    (h : wrapped custom post xp xs yp ys a x y = .ok (al, a')) :
    a'.scoring = a.scoring ∧ ∃ al0 a0, custom (withClips a xp xs yp ys) x y = .ok (al0, a0) ∧ al = post al0 ∧
      a'.I = a0.I ∧ a'.D = a0.D ∧ a'.S = a0.S ∧ a'.Lx = a0.Lx ∧ a'.Ly = a0.Ly ∧ a'.Sn = a0.Sn ∧
      a'.traceback = a0.traceback := by
  unfold wrapped at h
  cases hc : custom (withClips a xp xs yp ys) x y with
  | ok p =>
    obtain ⟨al0, a0⟩ := p
    rw [hc] at h
    simp only [Res.ok.injEq, Prod.mk.injEq] at h
    obtain ⟨h1, h2⟩ := h
    have hs := hk _ _ _ _ _ hc
    subst h1 h2
    refine ⟨?_, al0, a0, rfl, rfl, rfl, rfl, rfl, rfl, rfl, rfl, rfl⟩
    simp only [withClips] at hs ⊢
    rw [hs]
  | panic => rw [hc] at h; cases h
  | fuel => rw [hc] at h; cases h

theorem global_source_restores_scoring (custom : Aligner → List Nat → List Nat → Res (Alignment × Aligner))
    (hk : KeepsScoring custom) (a : Aligner) (x y : List Nat) (al : Alignment) (a' : Aligner)
    (h : global_ custom a x y = .ok (al, a')) : a'.scoring = a.scoring := by
  rw [global_eq_custom_with_mode_clips] at h
  exact (wrapped_restores custom hk _ _ _ _ _ a x y al a' h).1

theorem semiglobal_source_restores_scoring (custom : Aligner → List Nat → List Nat → Res (Alignment × Aligner))
    (hk : KeepsScoring custom) (a : Aligner) (x y : List Nat) (al : Alignment) (a' : Aligner)
    (h : semiglobal_ custom a x y = .ok (al, a')) : a'.scoring = a.scoring := by
  rw [semiglobal_eq_custom_with_mode_clips] at h
  exact (wrapped_restores custom hk _ _ _ _ _ a x y al a' h).1

theorem local_source_restores_scoring (custom : Aligner → List Nat → List Nat → Res (Alignment × Aligner))
    (hk : KeepsScoring custom) (a : Aligner) (x y : List Nat) (al : Alignment) (a' : Aligner)
    (h : local_ custom a x y = .ok (al, a')) : a'.scoring = a.scoring := by
  rw [local_eq_custom_with_mode_clips] at h
  exact (wrapped_restores custom hk _ _ _ _ _ a x y al a' h).1

end RbV.Thm.GenSrcPwModes
