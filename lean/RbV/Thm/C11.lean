import RbV.Model.Fasta
import RbV.Model.Fastq
import RbV.Lemmas.Fastx
import RbV.Lemmas.FastqPrefix
import RbV.Model.BufLines
import RbV.Lemmas.BufLines
import RbV.Model.FastxStream
import RbV.Lemmas.FastxStream
import RbV.Lemmas.Utf8Lines
import RbV.Lemmas.UniWs
import RbV.Lemmas.FastqPrefixUtf8
import RbV.Lemmas.PlainText
import RbV.Thm.GenSrcFasta
import RbV.Thm.GenSrcFastq
import RbV.Thm.GenSrcFastx
/-!
# C11 — FASTA/FASTQ round trip is lossless and layout independent; truncated FASTQ is prefix safe

All statements are about the byte-level model in `RbV/Model/Fasta.lean`, `RbV/Model/Fastq.lean`, which follows the
Rust writers and readers line by line; `parseFasta` / `parseFastq` are what `Records` yields on a byte stream
(the independence from buffer capacity and read fragmentation is `BufRead::read_line`'s contract and is what the
correspondence run samples).  `ValidFa` / `ValidFq` delimit "valid records" (id without white space, description
without line feed and not ending in white space, non-empty sequence without white space, …).
-/
namespace RbV.Thm.C11
open RbV.Fastx

/-- **FASTA, any layout**: however the sequence of each record is cut into lines (any widths, blank lines), with LF
or CRLF line ends chosen per record, the reader yields exactly the records. -/
theorem fasta_layout (L : List (FaRec × List Bytes × Bytes))
    (h : ∀ x ∈ L, ValidFa x.1 ∧ x.2.1.flatten = x.1.seq ∧ IsEol x.2.2) :
    parseFasta (layoutFasta L) = L.map (fun x => FaItem.ok x.1) :=
  parseFasta_layout L h

/-- **FASTA round trip**: what the writer produces for valid records, with no line wrap or any wrap ≥ 1, is read
back as exactly those records. -/
theorem fasta_roundtrip (wrap : Option Nat) (recs : List FaRec) (hv : ∀ r ∈ recs, ValidFa r)
    (hw : ∀ w, wrap = some w → 1 ≤ w) :
    parseFasta (writeFasta wrap recs) = recs.map FaItem.ok := by
  rw [writeFasta_eq_layout, parseFasta_layout]
  · simp
  · intro x hx
    obtain ⟨r, hr, rfl⟩ := List.mem_map.mp hx
    refine ⟨hv r hr, ?_, Or.inl rfl⟩
    cases wrap with
    | none => simp [writerPieces]
    | some w => simpa [writerPieces] using chunks_flatten w (hw w rfl) r.seq

/-- **Re-wrapping / CRLF invariance**: two layouts of the same records (different line widths, blank lines, line
terminators) parse to the same result — in particular the writer's output under two different wraps. -/
theorem fasta_rewrap_crlf (L₁ L₂ : List (FaRec × List Bytes × Bytes))
    (h₁ : ∀ x ∈ L₁, ValidFa x.1 ∧ x.2.1.flatten = x.1.seq ∧ IsEol x.2.2)
    (h₂ : ∀ x ∈ L₂, ValidFa x.1 ∧ x.2.1.flatten = x.1.seq ∧ IsEol x.2.2)
    (same : L₁.map (·.1) = L₂.map (·.1)) :
    parseFasta (layoutFasta L₁) = parseFasta (layoutFasta L₂) := by
  rw [parseFasta_layout L₁ h₁, parseFasta_layout L₂ h₂]
  have := congrArg (List.map FaItem.ok) same
  simp only [List.map_map] at this
  exact this

/-- **FASTQ, any accepted layout**: sequence and qualities cut into equally many lines (any widths; no sequence
line starting with `+`), LF or CRLF per record, anything after `+` on the separator line. -/
theorem fastq_layout (L : List (FqRec × FqLayout)) (h : ∀ x ∈ L, ValidFq x.1 ∧ x.2.Ok x.1) :
    parseFastq (layoutFastq L) = L.map (fun x => FqItem.ok x.1) :=
  parseFastq_layout L h

/-- **FASTQ round trip** (qualities may start with `@` or `+`: `ValidFq` does not restrict them). -/
theorem fastq_roundtrip (recs : List FqRec) (hv : ∀ r ∈ recs, ValidFq r) :
    parseFastq (writeFastq recs) = recs.map FqItem.ok := by
  rw [writeFastq_eq_layout, parseFastq_layout]
  · simp
  · intro x hx
    obtain ⟨r, hr, rfl⟩ := List.mem_map.mp hx
    exact ⟨hv r hr, writerLayout_ok r (hv r hr)⟩

/-- records read back from valid input pass `check()` exactly when they have an id -/
theorem valid_check (r : FqRec) (v : ValidFq r) (hascii : ∀ b ∈ r.seq ++ r.qual, b < 128) (hid : r.id ≠ []) :
    r.check = true := by
  have h1 : r.seq.all (· < 128) = true := List.all_eq_true.mpr fun b hb => by simpa using hascii b (by simp [hb])
  have h2 : r.qual.all (· < 128) = true := List.all_eq_true.mpr fun b hb => by simpa using hascii b (by simp [hb])
  have h3 := v.qual_len
  cases hi : r.id with
  | nil => exact absurd hi hid
  | cons b i => simp [FqRec.check, hi, h1, h2, h3]

/-- **Truncated FASTQ stream** ([B]): the reader's result on the first `c` bytes of the writer's output is the first
`k` original records, followed by nothing, or by one `IncompleteRecord` error, or by the `k`-th original record
itself (only its final line feed is cut off), or by one record that fails `check()` (its quality string is shorter
than its sequence).  Hence every record obtained from a cut stream that passes `check()` is an original record, in
the original order. -/
theorem fastq_prefix_safe (recs : List FqRec) (hv : ∀ r ∈ recs, ValidFq r) (c : Nat) :
    ∃ k tail, parseFastq ((writeFastq recs).take c) = (recs.take k).map FqItem.ok ++ tail ∧
      (tail = [] ∨ tail = [.incomplete] ∨ (∃ r, recs[k]? = some r ∧ tail = [.ok r]) ∨
       ∃ r', tail = [.ok r'] ∧ r'.check = false) := by
  induction recs generalizing c with
  | nil => exact ⟨0, [], by simp [writeFastq, parseFastq, splitLines, fqRecords], Or.inl rfl⟩
  | cons r rs ih =>
    have v := hv r (by simp)
    have hw : writeFastq (r :: rs) = writeFastqRec r ++ writeFastq rs := by simp [writeFastq]
    rw [hw]
    rcases Nat.lt_or_ge c (writeFastqRec r).length with hlt | hge
    · -- the cut is inside the first record
      rw [List.take_append_of_le_length (Nat.le_of_lt hlt)]
      rcases parseFastq_cut_rec r v c with h | h | h | ⟨r', h, hc⟩
      · exact ⟨0, [], by simp [h], Or.inl rfl⟩
      · exact ⟨0, [.incomplete], by simp [h], Or.inr (Or.inl rfl)⟩
      · exact ⟨0, [.ok r], by simp [h], Or.inr (Or.inr (Or.inl ⟨r, by simp, rfl⟩))⟩
      · exact ⟨0, [.ok r'], by simp [h], Or.inr (Or.inr (Or.inr ⟨r', rfl, hc⟩))⟩
    · -- the first record is complete
      rw [List.take_append, List.take_of_length_le hge, parseFastq_rec_append r v]
      obtain ⟨k, tail, hk, ht⟩ := ih (fun x hx => hv x (by simp [hx])) (c - (writeFastqRec r).length)
      refine ⟨k + 1, tail, by simp [hk], ?_⟩
      simpa using ht

/-- … in particular: the records of a cut stream that pass `check()` are among the original ones. -/
theorem fastq_prefix_checked_mem (recs : List FqRec) (hv : ∀ r ∈ recs, ValidFq r) (c : Nat) (r : FqRec)
    (hr : FqItem.ok r ∈ parseFastq ((writeFastq recs).take c)) (hc : r.check = true) : r ∈ recs := by
  obtain ⟨k, tail, hk, ht⟩ := fastq_prefix_safe recs hv c
  rw [hk, List.mem_append] at hr
  rcases hr with hr | hr
  · obtain ⟨x, hx, hxe⟩ := List.mem_map.mp hr
    cases hxe
    exact List.mem_of_mem_take hx
  · rcases ht with rfl | rfl | ⟨x, hx, rfl⟩ | ⟨x, rfl, hx⟩
    · cases hr
    · simp at hr
    · simp at hr; subst hr
      exact List.mem_of_getElem? hx
    · simp at hr; subst hr; rw [hx] at hc; cases hc

/-! ## Buffer capacity and read fragmentation (`RbV/Model/BufLines.lean`)

`BufLines` mirrors `BufReader::fill_buf`/`consume` and `read_until(b'\n')` over a source whose `k`-th `read` call
returns `min (sched k) (min c available)` bytes; `Admissible sched` = every read before the end of input returns at
least one byte.  The model loops terminate by well-founded recursion on the number of pending bytes (a round either
returns or has consumed a non-empty buffer); capacity ≥ 1 and admissibility are what make an empty `fill_buf` mean
end of input. -/

open RbV.BufLines in
/-- **one `read_line` call**: from every reader state, with every capacity ≥ 1 and every admissible schedule, the call
hands out the first line (up to and including the first LF, or everything that is left) of the bytes not yet
delivered, and exactly the rest stays pending. -/
theorem read_line_call (c : Nat) (sched : Nat → Nat) (hc : 1 ≤ c) (hs : Admissible sched) (s : St) :
    (readLine c sched s).1 = (firstLine s.pending).1 ∧ (readLine c sched s).2.pending = (firstLine s.pending).2 :=
  readLine_spec c sched hc hs s

open RbV.BufLines in
/-- at end of input `read_line` hands out the empty string for ever -/
theorem read_line_eof (c : Nat) (sched : Nat → Nat) (s : St) (h : s.pending = []) :
    (readLine c sched s).1 = [] ∧ (readLine c sched s).2.pending = [] := by
  rw [readLine_eof c sched s h]; exact ⟨rfl, h⟩

open RbV.BufLines in
/-- **`read_line` is independent of buffer capacity and read fragmentation**: the lines handed out by repeated
`read_line` calls on a fresh `BufReader` (up to the first empty one) are exactly `splitLines file` — the list the
FASTA/FASTQ reader models work on; this includes a last line without terminator and the empty file. -/
theorem read_line_schedule_independent (c : Nat) (sched : Nat → Nat) (hc : 1 ≤ c) (hs : Admissible sched)
    (file : Bytes) : linesVia c sched file = splitLines file := by
  simpa [linesVia, init, St.pending] using readLines_eq c sched hc hs (init file)

/-! ## The readers on a `BufReader` (`RbV/Model/FastxStream.lean`)

`parseFastaVia T c sched file` / `parseFastqVia T c sched file`: the **stateful** mirror of `Reader::read` and
`Records` (a reader object owning the `BufReader` model, `read_line` calls where the code has them, the look-ahead
`self.line`, `InvalidData` when a line is not valid UTF-8).  `parseFastaU T` / `parseFastqU T`: the list models with
the UTF-8 check.  `T : Txt` are the text functions (`trim_end`, header split): `Txt.unicode` follows Rust's
`char::is_whitespace` (Unicode `White_Space`), `Txt.ascii` are the ones of the list models; they coincide on text
without the lead bytes 0xC2, 0xE1, 0xE2, 0xE3 of the non-ASCII white-space characters (`NoUws`). -/

open RbV.BufLines in
/-- **`read_line` into a `String`**: the UTF-8 check is made on the whole line (`firstLine` of the pending bytes),
whatever the capacity and the schedule — a multi-byte character split over several reads or buffer refills is
validated in one piece, and the error, like the line, does not depend on the fragmentation. -/
theorem read_line_str_call (c : Nat) (sched : Nat → Nat) (hc : 1 ≤ c) (hs : Admissible sched) (s : St) :
    (readLineStr c sched s).1 =
        (if validUtf8 (firstLine s.pending).1 then some (firstLine s.pending).1 else none) ∧
      (readLineStr c sched s).2.pending = (firstLine s.pending).2 := by
  have h := readLine_spec c sched hc hs s
  simp only [readLineStr, h.1, h.2, and_self]

open RbV.BufLines in
/-- **FASTA reader, every byte string**: the items the reader yields (records, the format error, the UTF-8 error)
do not depend on the buffer capacity nor on how the source fragments its reads — they are a function of the lines. -/
theorem fasta_read_schedule_independent (T : Txt) (c : Nat) (sched : Nat → Nat) (hc : 1 ≤ c) (hs : Admissible sched)
    (file : Bytes) : parseFastaVia T c sched file = parseFastaU T file :=
  parseFastaVia_eq T c sched hc hs file

open RbV.BufLines in
/-- **FASTQ reader, every byte string** (truncated streams and garbage included) -/
theorem fastq_read_schedule_independent (T : Txt) (c : Nat) (sched : Nat → Nat) (hc : 1 ≤ c) (hs : Admissible sched)
    (file : Bytes) : parseFastqVia T c sched file = parseFastqU T file :=
  parseFastqVia_eq T c sched hc hs file

open RbV.BufLines in
/-- **`Records` never iterates for ever** (mirror): for every byte string — truncated, garbage, invalid UTF-8 — every
capacity ≥ 1 and every admissible schedule, `fasta::Records::next` returns `None` after at most (number of lines + 2)
calls; every single `read` terminates by construction (its loops are well-founded recursions on the bytes still
pending in the `BufReader` model). -/
theorem fasta_records_terminate (T : Txt) (c : Nat) (sched : Nat → Nat) (hc : 1 ≤ c) (hs : Admissible sched)
    (file : Bytes) :
    ∃ n, faNextCalls T c sched (file.length + 1) { rd := init file, line := [] } = some n ∧
      n ≤ (splitLines file).length + 2 :=
  faNextCalls_spec T c sched hc hs _ _ _ ⟨rfl, by simp [init, St.pending]⟩
    (by have := splitLines_length_le file; omega)

open RbV.BufLines in
/-- … and `fastq::Records::next` (which goes on after errors) after at most (number of lines + 1) calls: every
`read` that does not hit the end of input consumes at least one line. -/
theorem fastq_records_terminate (T : Txt) (c : Nat) (sched : Nat → Nat) (hc : 1 ≤ c) (hs : Admissible sched)
    (file : Bytes) :
    ∃ n, fqNextCalls T c sched (file.length + 1) (init file) = some n ∧ n ≤ (splitLines file).length + 1 := by
  have h := fqNextCalls_spec T c sched hc hs (file.length + 1) (init file)
  simp only [init, St.pending, List.nil_append] at h
  exact h (by have := splitLines_length_le file; omega)

/-- valid UTF-8 without non-ASCII white space: every line is valid and the Unicode text functions are the ASCII ones -/
theorem plain_text_lines (file : Bytes) (hutf : validUtf8 file = true) (hws : NoUws file) :
    AllValid Txt.unicode (splitLines file) := fun l hl =>
  ⟨allValid_splitLines file hutf l hl, Txt.unicode_agrees l fun b hb => hws b (mem_of_mem_splitLines file l hl b hb)⟩

/-- on valid UTF-8 input without non-ASCII white space the reader model with the UTF-8 check and Unicode white space
is the plain list model -/
theorem fasta_utf8_model_eq (file : Bytes) (hutf : validUtf8 file = true) (hws : NoUws file) :
    parseFastaU Txt.unicode file = (parseFasta file).map .item :=
  faRecordsU_valid _ (plain_text_lines file hutf hws)

theorem fastq_utf8_model_eq (file : Bytes) (hutf : validUtf8 file = true) (hws : NoUws file) :
    parseFastqU Txt.unicode file = (parseFastq file).map .item :=
  fqRecordsU_valid _ (plain_text_lines file hutf hws)

open RbV.BufLines in
/-- **parsing through the buffered, fragmented reader = the direct parse** of the line-list model, for every
capacity ≥ 1, every admissible schedule and every valid UTF-8 byte string without non-ASCII white space -/
theorem fasta_read_any_buffering (c : Nat) (sched : Nat → Nat) (hc : 1 ≤ c) (hs : Admissible sched)
    (file : Bytes) (hutf : validUtf8 file = true) (hws : NoUws file) :
    parseFastaVia Txt.unicode c sched file = (parseFasta file).map .item := by
  rw [fasta_read_schedule_independent _ c sched hc hs, fasta_utf8_model_eq file hutf hws]

open RbV.BufLines in
theorem fastq_read_any_buffering (c : Nat) (sched : Nat → Nat) (hc : 1 ≤ c) (hs : Admissible sched)
    (file : Bytes) (hutf : validUtf8 file = true) (hws : NoUws file) :
    parseFastqVia Txt.unicode c sched file = (parseFastq file).map .item := by
  rw [fastq_read_schedule_independent _ c sched hc hs, fastq_utf8_model_eq file hutf hws]

open RbV.BufLines in
/-- **FASTA round trip under any buffering**: valid records written with any wrap ≥ 1 (the file being valid UTF-8
without non-ASCII white space, e.g. ASCII) are read back exactly, whatever the reader's buffer capacity and however
the underlying stream fragments its reads. -/
theorem fasta_roundtrip_any_buffering (c : Nat) (sched : Nat → Nat) (hc : 1 ≤ c) (hs : Admissible sched)
    (wrap : Option Nat) (recs : List FaRec) (hv : ∀ r ∈ recs, ValidFa r) (hw : ∀ w, wrap = some w → 1 ≤ w)
    (hutf : validUtf8 (writeFasta wrap recs) = true) (hws : NoUws (writeFasta wrap recs)) :
    parseFastaVia Txt.unicode c sched (writeFasta wrap recs) = recs.map fun r => .item (.ok r) := by
  rw [fasta_read_any_buffering c sched hc hs _ hutf hws, fasta_roundtrip wrap recs hv hw]
  simp

open RbV.BufLines in
/-- … and for every layout (re-wrapping, blank lines, CRLF) -/
theorem fasta_layout_any_buffering (c : Nat) (sched : Nat → Nat) (hc : 1 ≤ c) (hs : Admissible sched)
    (L : List (FaRec × List Bytes × Bytes))
    (h : ∀ x ∈ L, ValidFa x.1 ∧ x.2.1.flatten = x.1.seq ∧ IsEol x.2.2)
    (hutf : validUtf8 (layoutFasta L) = true) (hws : NoUws (layoutFasta L)) :
    parseFastaVia Txt.unicode c sched (layoutFasta L) = L.map fun x => .item (.ok x.1) := by
  rw [fasta_read_any_buffering c sched hc hs _ hutf hws, fasta_layout L h]
  simp

open RbV.BufLines in
/-- **FASTQ round trip under any buffering** -/
theorem fastq_roundtrip_any_buffering (c : Nat) (sched : Nat → Nat) (hc : 1 ≤ c) (hs : Admissible sched)
    (recs : List FqRec) (hv : ∀ r ∈ recs, ValidFq r)
    (hutf : validUtf8 (writeFastq recs) = true) (hws : NoUws (writeFastq recs)) :
    parseFastqVia Txt.unicode c sched (writeFastq recs) = recs.map fun r => .item (.ok r) := by
  rw [fastq_read_any_buffering c sched hc hs _ hutf hws, fastq_roundtrip recs hv]
  simp

open RbV.BufLines in
theorem fastq_layout_any_buffering (c : Nat) (sched : Nat → Nat) (hc : 1 ≤ c) (hs : Admissible sched)
    (L : List (FqRec × FqLayout)) (h : ∀ x ∈ L, ValidFq x.1 ∧ x.2.Ok x.1)
    (hutf : validUtf8 (layoutFastq L) = true) (hws : NoUws (layoutFastq L)) :
    parseFastqVia Txt.unicode c sched (layoutFastq L) = L.map fun x => .item (.ok x.1) := by
  rw [fastq_read_any_buffering c sched hc hs _ hutf hws, fastq_layout L h]
  simp

open RbV.BufLines in
/-- **sniffer, FASTA**: on the writer's output for a non-empty list of valid records `get_kind` answers FASTA, and
the FASTA reader on the returned `Chain` (one more admissible schedule, `chainSched`) yields the records — for every
capacity and every schedule of the underlying source. -/
theorem fastx_sniff_fasta (c : Nat) (sched : Nat → Nat) (hc : 1 ≤ c) (hs : Admissible sched)
    (wrap : Option Nat) (recs : List FaRec) (hne : recs ≠ []) (hv : ∀ r ∈ recs, ValidFa r)
    (hw : ∀ w, wrap = some w → 1 ≤ w)
    (hutf : validUtf8 (writeFasta wrap recs) = true) (hws : NoUws (writeFasta wrap recs)) :
    sniff (writeFasta wrap recs) = some .fasta ∧
      parseFastaVia Txt.unicode c (chainSched sched) (writeFasta wrap recs) = recs.map fun r => .item (.ok r) := by
  refine ⟨?_, fasta_roundtrip_any_buffering c _ hc (chainSched_admissible sched hs) wrap recs hv hw hutf hws⟩
  cases recs with
  | nil => exact absurd rfl hne
  | cons r rs => simp [writeFasta, writeFastaRec, faHeaderBytes, sniff]

open RbV.BufLines in
/-- **sniffer, FASTQ** -/
theorem fastx_sniff_fastq (c : Nat) (sched : Nat → Nat) (hc : 1 ≤ c) (hs : Admissible sched)
    (recs : List FqRec) (hne : recs ≠ []) (hv : ∀ r ∈ recs, ValidFq r)
    (hutf : validUtf8 (writeFastq recs) = true) (hws : NoUws (writeFastq recs)) :
    sniff (writeFastq recs) = some .fastq ∧
      parseFastqVia Txt.unicode c (chainSched sched) (writeFastq recs) = recs.map fun r => .item (.ok r) := by
  refine ⟨?_, fastq_roundtrip_any_buffering c _ hc (chainSched_admissible sched hs) recs hv hutf hws⟩
  cases recs with
  | nil => exact absurd rfl hne
  | cons r rs => simp [writeFastq, writeFastqRec, sniff]

/-- ASCII is valid UTF-8 without non-ASCII white space (so the `hutf` / `hws` hypotheses hold for ASCII files) -/
theorem ascii_plain_text (f : Bytes) (h : ∀ b ∈ f, b < 128) : validUtf8 f = true ∧ NoUws f :=
  ⟨validUtf8_ascii f h, fun b hb => by
    have := h b hb
    simp only [isUwsLead, Bool.or_eq_false_iff, beq_eq_false_iff_ne]
    omega⟩

open RbV.BufLines in
/-- **truncated FASTQ stream under any buffering** (ASCII files, so that every prefix is valid UTF-8): the reader on
the first `n` bytes yields the first `k` original records followed by nothing, one `IncompleteRecord`, the `k`-th
original record, or one record failing `check()` — whatever the capacity and the schedule. -/
theorem fastq_prefix_safe_any_buffering (c : Nat) (sched : Nat → Nat) (hc : 1 ≤ c) (hs : Admissible sched)
    (recs : List FqRec) (hv : ∀ r ∈ recs, ValidFq r) (hascii : ∀ b ∈ writeFastq recs, b < 128) (n : Nat) :
    ∃ k tail, parseFastqVia Txt.unicode c sched ((writeFastq recs).take n) =
        ((recs.take k).map FqItem.ok ++ tail).map .item ∧
      (tail = [] ∨ tail = [.incomplete] ∨ (∃ r, recs[k]? = some r ∧ tail = [.ok r]) ∨
       ∃ r', tail = [.ok r'] ∧ r'.check = false) := by
  obtain ⟨k, tail, hk, ht⟩ := fastq_prefix_safe recs hv n
  refine ⟨k, tail, ?_, ht⟩
  have hp := ascii_plain_text ((writeFastq recs).take n) fun b hb => hascii b (List.mem_of_mem_take hb)
  rw [fastq_read_any_buffering c sched hc hs _ hp.1 hp.2, hk]

open RbV.BufLines in
/-- **truncated FASTQ stream, non-ASCII text, any buffering**: the file is valid UTF-8 (without non-ASCII white
space); a cut may fall inside a multi-byte character.  The reader on the first `n` bytes yields the items of the
line-list model, or those items with the **last** one replaced by the UTF-8 error (`InvalidData`) — whatever the
capacity and the schedule. -/
theorem fastq_prefix_utf8_any_buffering (c : Nat) (sched : Nat → Nat) (hc : 1 ≤ c) (hs : Admissible sched)
    (file : Bytes) (hutf : validUtf8 file = true) (hws : NoUws file) (n : Nat) :
    parseFastqVia Txt.unicode c sched (file.take n) = (parseFastq (file.take n)).map .item ∨
      ∃ pre last, parseFastq (file.take n) = pre ++ [last] ∧
        parseFastqVia Txt.unicode c sched (file.take n) = pre.map .item ++ [.utf8] := by
  rw [fastq_read_schedule_independent _ c sched hc hs]
  exact fqRecordsU_abl _ (abl_splitLines_take file hutf n) fun l hl =>
    Txt.unicode_agrees l fun b hb => hws b (List.mem_of_mem_take (mem_of_mem_splitLines _ l hl b hb))

open RbV.BufLines in
/-- **prefix safety for every valid-UTF-8 FASTQ file under any buffering**: the reader on the first `n` bytes of
the writer's output yields the first `k` original records, followed by nothing, or by one item that is
`IncompleteRecord`, the `k`-th original record, a record failing `check()`, or the UTF-8 error. -/
theorem fastq_prefix_safe_utf8_any_buffering (c : Nat) (sched : Nat → Nat) (hc : 1 ≤ c) (hs : Admissible sched)
    (recs : List FqRec) (hv : ∀ r ∈ recs, ValidFq r)
    (hutf : validUtf8 (writeFastq recs) = true) (hws : NoUws (writeFastq recs)) (n : Nat) :
    ∃ k tail, parseFastqVia Txt.unicode c sched ((writeFastq recs).take n) =
        (recs.take k).map (fun r => .item (.ok r)) ++ tail ∧
      (tail = [] ∨ tail = [.item .incomplete] ∨ (∃ r, recs[k]? = some r ∧ tail = [.item (.ok r)]) ∨
       (∃ r', tail = [.item (.ok r')] ∧ r'.check = false) ∨ tail = [.utf8]) := by
  obtain ⟨k, t, hk, ht⟩ := fastq_prefix_safe recs hv n
  rcases fastq_prefix_utf8_any_buffering c sched hc hs _ hutf hws n with h | ⟨pre, last, h1, h2⟩
  · refine ⟨k, t.map .item, by rw [h, hk]; simp [Function.comp_def], ?_⟩
    rcases ht with rfl | rfl | ⟨r, hr, rfl⟩ | ⟨r', rfl, hr'⟩
    · left; rfl
    · right; left; rfl
    · right; right; left; exact ⟨r, hr, rfl⟩
    · right; right; right; left; exact ⟨r', rfl, hr'⟩
  · rw [hk] at h1
    have hpre : ∃ k', pre = (recs.take k').map FqItem.ok := by
      rcases ht with rfl | rfl | ⟨r, _, rfl⟩ | ⟨r', rfl, _⟩
      · -- the last item of the plain parse is an original record
        refine ⟨pre.length, ?_⟩
        simp only [List.append_nil] at h1
        have hlen := congrArg List.length h1
        simp only [List.length_map, List.length_take, List.length_append, List.length_cons, List.length_nil] at hlen
        have h3 := congrArg (List.take pre.length) h1
        simp only [List.take_left', ← List.map_take, List.take_take] at h3
        have hmin : min pre.length k = pre.length := by omega
        rw [hmin] at h3
        exact h3.symm
      · exact ⟨k, (List.append_inj_left' h1 rfl).symm⟩
      · exact ⟨k, (List.append_inj_left' h1 rfl).symm⟩
      · exact ⟨k, (List.append_inj_left' h1 rfl).symm⟩
    obtain ⟨k', hk'⟩ := hpre
    refine ⟨k', [.utf8], ?_, Or.inr (Or.inr (Or.inr (Or.inr rfl)))⟩
    rw [h2, hk']
    simp [Function.comp_def]

open RbV.BufLines in
/-- … hence every record obtained from a cut stream that passes `check()` is an original record, for every buffer
capacity and every read fragmentation (non-ASCII ids and descriptions included). -/
theorem fastq_prefix_checked_mem_any_buffering (c : Nat) (sched : Nat → Nat) (hc : 1 ≤ c) (hs : Admissible sched)
    (recs : List FqRec) (hv : ∀ r ∈ recs, ValidFq r)
    (hutf : validUtf8 (writeFastq recs) = true) (hws : NoUws (writeFastq recs)) (n : Nat) (r : FqRec)
    (hr : SItem.item (FqItem.ok r) ∈ parseFastqVia Txt.unicode c sched ((writeFastq recs).take n))
    (hchk : r.check = true) : r ∈ recs := by
  apply fastq_prefix_checked_mem recs hv n r _ hchk
  rcases fastq_prefix_utf8_any_buffering c sched hc hs _ hutf hws n with h | ⟨pre, last, h1, h2⟩
  · rw [h] at hr
    obtain ⟨y, hy, hxy⟩ := List.mem_map.mp hr
    cases hxy
    exact hy
  · rw [h2] at hr
    rw [h1]
    rcases List.mem_append.mp hr with hx | hx
    · obtain ⟨y, hy, hxy⟩ := List.mem_map.mp hx
      cases hxy
      exact List.mem_append_left _ hy
    · simp at hx

/-! ### Stated on the records

`TextFa` / `TextFq`: id and description are valid UTF-8 (what `&str` gives) without the lead bytes of non-ASCII white
space, sequence and qualities are ASCII — the records of the property text.  Then the written file is `PlainText`
(`plainText_writeFasta`, `plainText_writeFastq`) and no hypothesis on the file is left. -/

open RbV.BufLines in
/-- **FASTA round trip**: for every list of valid text records, every wrap ≥ 1, every buffer capacity ≥ 1 and every
admissible read schedule, the reader on the writer's output yields exactly the records. -/
theorem fasta_roundtrip_records_any_buffering (c : Nat) (sched : Nat → Nat) (hc : 1 ≤ c) (hs : Admissible sched)
    (wrap : Option Nat) (recs : List FaRec) (hv : ∀ r ∈ recs, ValidFa r) (ht : ∀ r ∈ recs, TextFa r)
    (hw : ∀ w, wrap = some w → 1 ≤ w) :
    parseFastaVia Txt.unicode c sched (writeFasta wrap recs) = recs.map fun r => .item (.ok r) :=
  have hp := plainText_writeFasta wrap hw recs ht
  fasta_roundtrip_any_buffering c sched hc hs wrap recs hv hw hp.1 hp.2

open RbV.BufLines in
/-- **FASTQ round trip**, likewise -/
theorem fastq_roundtrip_records_any_buffering (c : Nat) (sched : Nat → Nat) (hc : 1 ≤ c) (hs : Admissible sched)
    (recs : List FqRec) (hv : ∀ r ∈ recs, ValidFq r) (ht : ∀ r ∈ recs, TextFq r) :
    parseFastqVia Txt.unicode c sched (writeFastq recs) = recs.map fun r => .item (.ok r) :=
  have hp := plainText_writeFastq recs ht
  fastq_roundtrip_any_buffering c sched hc hs recs hv hp.1 hp.2

open RbV.BufLines in
/-- **cut FASTQ stream**: every record that passes `check()` is an original record — every list of valid text
records, every cut, every capacity, every schedule. -/
theorem fastq_prefix_checked_mem_records_any_buffering (c : Nat) (sched : Nat → Nat) (hc : 1 ≤ c)
    (hs : Admissible sched) (recs : List FqRec) (hv : ∀ r ∈ recs, ValidFq r) (ht : ∀ r ∈ recs, TextFq r) (n : Nat)
    (r : FqRec) (hr : SItem.item (FqItem.ok r) ∈ parseFastqVia Txt.unicode c sched ((writeFastq recs).take n))
    (hchk : r.check = true) : r ∈ recs :=
  have hp := plainText_writeFastq recs ht
  fastq_prefix_checked_mem_any_buffering c sched hc hs recs hv hp.1 hp.2 n r hr hchk


/-! ## The source text (`RbV/Gen/SrcFasta.lean`, `SrcFastq.lean`: translated on every `./check C11` by `tools/rs2lean_genfx.py`)

The writers, `Reader::read`, `Record::check` and `Records::next` of `src/io/fasta.rs` / `src/io/fastq.rs` are translated from
their Rust text; the theorems below say that the translated functions *are* the mirror models the theorems above are about
(proofs: `Thm/GenSrcFasta.lean`, `Thm/GenSrcFastq.lean`).  Instantiation of the abstract operations: `write_all` appends to a
byte list and never fails; `read_line` is the `BufReader` mirror (`readLineStr c sched`: capacity `c`, read schedule `sched`,
UTF-8 validation of the whole line); `trim_end` / `splitn(2, char::is_whitespace)` are the byte-level mirrors `trimEndU` /
`splitWsU`.  `Res.ok` = no panic and the ghost fuel of the translated loops sufficed. -/

section Source
open RbV.Rs RbV.BufLines
open RbV.Thm.GenSrcFasta (writeAllOp readLineOp invalidData expectedGt)

/-- **FASTA writer, source text**: `Writer::write` (header through the translated `write_record_header`, sequence through
`chunks(linewrap)`) appends exactly the model writer's bytes, for every record, no wrap or any wrap ≥ 1. -/
theorem fasta_write_source_eq_model (w id : Bytes) (desc : Option Bytes) (seq : Bytes) (wrap : Option Nat)
    (hw : ∀ n, wrap = some n → 1 ≤ n) :
    Gen.SrcFasta.write writeAllOp w wrap id desc seq =
      Res.ok (.ok (), w ++ writeFastaRec wrap { id := id, desc := desc, seq := seq }) :=
  GenSrcFasta.write_eq_model w id desc seq wrap hw

/-- **FASTQ writer, source text** -/
theorem fastq_write_source_eq_model (w id : Bytes) (desc : Option Bytes) (seq qual : Bytes) :
    Gen.SrcFastq.write writeAllOp w id desc seq qual =
      Res.ok (.ok (), w ++ writeFastqRec { id := id, desc := desc, seq := seq, qual := qual }) :=
  GenSrcFastq.write_eq_model w id desc seq qual

/-- **`write_record`, source text** (both formats): `write` on the translated accessors `id()`, `desc()`, `seq()` [, `qual()`] -/
theorem fasta_write_record_source_eq_model (w : Bytes) (r : FaRec) (wrap : Option Nat) (hw : ∀ n, wrap = some n → 1 ≤ n) :
    Gen.SrcFasta.writeRecord writeAllOp w wrap r.id r.desc r.seq = Res.ok (.ok (), w ++ writeFastaRec wrap r) :=
  GenSrcFasta.writeRecord_eq_model w r wrap hw

theorem fastq_write_record_source_eq_model (w : Bytes) (r : FqRec) (hs : trimEndU r.seq = r.seq)
    (hq : trimEndU r.qual = r.qual) :
    Gen.SrcFastq.writeRecord writeAllOp trimEndU w r.id r.desc r.seq r.qual = Res.ok (.ok (), w ++ writeFastqRec r) :=
  GenSrcFastq.writeRecord_eq_model trimEndU w r hs hq

/-- **constructors, source text**: `Reader::from_bufread(b).records()` is the initial state the `Records` theorems start from
(empty look-ahead line / line buffer, error flag cleared); `Writer::from_bufwriter` has no line wrap until `set_linewrap` -/
theorem fastx_constructors_source {ρ ω : Type} (b : ρ) (w : ω) (lw lw' : Option Nat) :
    (Gen.SrcFasta.readerFromBufread b >>= fun r => Gen.SrcFasta.readerRecords r.1 r.2) = Res.ok ((b, []), false) ∧
    (Gen.SrcFastq.readerFromBufread b >>= fun r => Gen.SrcFastq.readerRecords r.1 r.2) = Res.ok (b, []) ∧
    Gen.SrcFasta.writerFromBufwriter w = Res.ok (w, none) ∧
    Gen.SrcFasta.writerSetLinewrap lw lw' = Res.ok ((), lw') ∧
    Gen.SrcFastq.writerFromBufwriter w = Res.ok w := by
  have h1 := GenSrcFasta.ctors_eq b ([] : Bytes) w lw lw'
  have h2 := GenSrcFastq.ctors_eq b ([] : Bytes) w
  refine ⟨by simp [h1.1, h1.2.1], by simp [h2.1, h2.2.1], h1.2.2.1, h1.2.2.2, h2.2.2⟩

/-- a whole file through the translated FASTA writer -/
def srcWriteFasta (wrap : Option Nat) (w : Bytes) (r : FaRec) : Res Bytes := do
  let (_, w') ← Gen.SrcFasta.write writeAllOp w wrap r.id r.desc r.seq
  pure w'

/-- a whole file through the translated FASTQ writer -/
def srcWriteFastq (w : Bytes) (r : FqRec) : Res Bytes := do
  let (_, w') ← Gen.SrcFastq.write writeAllOp w r.id r.desc r.seq r.qual
  pure w'

theorem srcWriteFasta_all (wrap : Option Nat) (hw : ∀ n, wrap = some n → 1 ≤ n) (recs : List FaRec) :
    ∀ w, recs.foldlM (srcWriteFasta wrap) w = Res.ok (w ++ writeFasta wrap recs) := by
  induction recs with
  | nil => intro w; simp [writeFasta]
  | cons r rs ih =>
    intro w
    have := ih (w ++ writeFastaRec wrap r)
    have e := GenSrcFasta.write_eq_model w r.id r.desc r.seq wrap hw
    simpa [srcWriteFasta, e, writeFasta, List.append_assoc] using this

theorem srcWriteFastq_all (recs : List FqRec) :
    ∀ w, recs.foldlM srcWriteFastq w = Res.ok (w ++ writeFastq recs) := by
  induction recs with
  | nil => intro w; simp [writeFastq]
  | cons r rs ih =>
    intro w
    have := ih (w ++ writeFastqRec r)
    simpa [srcWriteFastq, GenSrcFastq.write_eq_model, writeFastq, List.append_assoc] using this

/-- **FASTA reader, source text**: one `Reader::read` = the stateful mirror `faReadS` — same result (`Ok` / the format error /
`InvalidData`), same `BufReader` state and look-ahead line, the mirror's record on `Ok` — from every reader state whose
look-ahead line is valid UTF-8, for every capacity and read schedule. -/
theorem fasta_read_source_eq_model (c : Nat) (sched : Nat → Nat) (r : FaReader) (hv : validUtf8 r.line = true)
    (id0 : Bytes) (desc0 : Option Bytes) (seq0 : Bytes) (fuel : Nat) (hf : r.rd.pending.length < fuel) :
    GenSrcFasta.ReadPost (faReadS Txt.unicode c sched r)
      (Gen.SrcFasta.read (readLineOp c sched) trimEndU splitWsU r.rd r.line id0 desc0 seq0 fuel) :=
  GenSrcFasta.read_eq_model c sched r hv id0 desc0 seq0 fuel hf

/-- **FASTA `Records`, source text**: the translated `next` called until `None` yields the items of `parseFastaVia` (the
mirror's drained iterator) for **every byte string**, capacity ≥ 1 and admissible schedule. -/
theorem fasta_records_source_eq_model (c : Nat) (sched : Nat → Nat) (hc : 1 ≤ c) (hs : Admissible sched) (file : Bytes)
    (fuel n : Nat) (hf : file.length < fuel) (hn : file.length + 2 ≤ n) :
    Rs.drain (GenSrcFasta.srcNext c sched fuel) n (init file, [], false) =
      Res.ok ((parseFastaVia Txt.unicode c sched file).map GenSrcFasta.ofItem) := by
  obtain ⟨k, hk, hkl⟩ := fasta_records_terminate Txt.unicode c sched hc hs file
  have hl := splitLines_length_le file
  exact GenSrcFasta.drain_eq_model c sched fuel (file.length + 1) n { rd := init file, line := [] } k rfl
    (by simpa [init, St.pending] using hf) hk (by omega)

/-- **FASTQ reader, source text**: one `Reader::read` = the stateful mirror `fqReadS` run with the header split found in the
source (`GenSrcFastq.srcTxt`). -/
theorem fastq_read_source_eq_model (c : Nat) (sched : Nat → Nat) (rd : St) (lb0 id0 : Bytes) (desc0 : Option Bytes)
    (seq0 qual0 : Bytes) (fuel : Nat) (hf : rd.pending.length < fuel) (h31 : rd.pending.length < 2 ^ 31) :
    GenSrcFastq.ReadPost (fqReadS GenSrcFastq.srcTxt c sched rd)
      (Gen.SrcFastq.read (readLineOp c sched) trimEndU rd lb0 id0 desc0 seq0 qual0 fuel) :=
  GenSrcFastq.read_eq_model c sched rd lb0 id0 desc0 seq0 qual0 fuel hf h31

/-- the header split of the source is the list models' split on every line whose trimmed header has a blank as its first
white-space character (ids without white space) — the only fact about the pattern the theorems use -/
theorem fastq_header_split_source_in_domain (l : Bytes) (h : NoUws l)
    (hb : blankFirst (trimEnd l.tail) = true) : GenSrcFastq.srcTxt.AgreesOn l :=
  GenSrcFastq.srcTxt_agrees l h hb

/-- **FASTQ `Records`, source text**, every byte string (below 2^31 bytes: the `i32` line counter of `read`) -/
theorem fastq_records_source_eq_model (c : Nat) (sched : Nat → Nat) (hc : 1 ≤ c) (hs : Admissible sched) (file lb : Bytes)
    (fuel n : Nat) (hf : file.length < fuel) (h31 : file.length < 2 ^ 31) (hn : file.length + 1 ≤ n) :
    Rs.drain (GenSrcFastq.srcNext c sched fuel) n (init file, lb) =
      Res.ok ((parseFastqVia GenSrcFastq.srcTxt c sched file).map GenSrcFastq.ofItem) := by
  obtain ⟨k, hk, hkl⟩ := fastq_records_terminate GenSrcFastq.srcTxt c sched hc hs file
  have hl := splitLines_length_le file
  exact GenSrcFastq.drain_eq_model c sched fuel (file.length + 1) n (init file) lb k
    (by simpa [init, St.pending] using hf) (by simpa [init, St.pending] using h31) hk (by omega)

/-- **`fastq::Record::check`, source text** = the model's `check` on records as the reader builds them -/
theorem fastq_check_source_eq_model (r : FqRec) (hs : trimEndU r.seq = r.seq) (hq : trimEndU r.qual = r.qual) :
    Gen.SrcFastq.recordCheck trimEndU r.id r.desc r.seq r.qual = Res.ok (.ok ()) ↔ r.check = true :=
  GenSrcFastq.check_ok_iff trimEndU r hs hq

/-- **FASTA round trip, source text to source text**: the translated `Records` iterator on the bytes the translated writer
produced for valid text records returns exactly the records — every wrap ≥ 1, buffer capacity ≥ 1, admissible read schedule. -/
theorem fasta_roundtrip_source (c : Nat) (sched : Nat → Nat) (hc : 1 ≤ c) (hs : Admissible sched)
    (wrap : Option Nat) (recs : List FaRec) (hv : ∀ r ∈ recs, ValidFa r) (ht : ∀ r ∈ recs, TextFa r)
    (hw : ∀ w, wrap = some w → 1 ≤ w) (fuel n : Nat)
    (hf : (writeFasta wrap recs).length < fuel) (hn : (writeFasta wrap recs).length + 2 ≤ n) :
    ∃ file, recs.foldlM (srcWriteFasta wrap) [] = Res.ok file ∧
      Rs.drain (GenSrcFasta.srcNext c sched fuel) n (init file, [], false) =
        Res.ok (recs.map fun r => .ok (GenSrcFasta.toRec r)) := by
  refine ⟨writeFasta wrap recs, by simpa using srcWriteFasta_all wrap hw recs [], ?_⟩
  rw [fasta_records_source_eq_model c sched hc hs _ fuel n hf hn,
    fasta_roundtrip_records_any_buffering c sched hc hs wrap recs hv ht hw]
  simp [GenSrcFasta.ofItem, Function.comp_def]

/-- lines in the domain of the header split (`goodLine`: first white space of the trimmed header a blank), plain text: the
source's text functions agree with the list models -/
theorem srcTxt_allValid (file : Bytes) (hp : PlainText file) (hg : ∀ l ∈ splitLines file, goodLine l) :
    AllValid GenSrcFastq.srcTxt (splitLines file) := fun l hl =>
  ⟨allValid_splitLines file hp.1 l hl,
   GenSrcFastq.srcTxt_agrees l (fun b hb' => hp.2 b (mem_of_mem_splitLines file l hl b hb')) (hg l hl)⟩

/-- **every line of a written or cut FASTQ file is in the domain of the header split**: ids without white space put a blank
(or nothing) first in the trimmed header, whatever white space the description contains, and cutting preserves that -/
theorem fastq_written_lines_in_domain (recs : List FqRec) (hv : ∀ r ∈ recs, ValidFq r) (cut : Nat) :
    ∀ l ∈ splitLines ((writeFastq recs).take cut), blankFirst (trimEnd l.tail) = true :=
  goodLine_writeFastq_take recs hv cut

/-- **FASTQ round trip, source text to source text**: the translated `Records` iterator on the bytes the translated writer
produced for valid text records returns exactly the records — every capacity ≥ 1, every admissible schedule (files below
2^31 bytes: the `i32` line counter). -/
theorem fastq_roundtrip_source (c : Nat) (sched : Nat → Nat) (hc : 1 ≤ c) (hs : Admissible sched)
    (recs : List FqRec) (hv : ∀ r ∈ recs, ValidFq r) (ht : ∀ r ∈ recs, TextFq r) (lb : Bytes) (fuel n : Nat)
    (hf : (writeFastq recs).length < fuel) (h31 : (writeFastq recs).length < 2 ^ 31)
    (hn : (writeFastq recs).length + 1 ≤ n) :
    ∃ file, recs.foldlM srcWriteFastq [] = Res.ok file ∧
      Rs.drain (GenSrcFastq.srcNext c sched fuel) n (init file, lb) =
        Res.ok (recs.map fun r => .ok (GenSrcFastq.toRec r)) := by
  refine ⟨writeFastq recs, by simpa using srcWriteFastq_all recs [], ?_⟩
  have hp := plainText_writeFastq recs ht
  rw [fastq_records_source_eq_model c sched hc hs _ lb fuel n hf h31 hn,
    fastq_read_schedule_independent _ c sched hc hs]
  unfold parseFastqU
  rw [fqRecordsU_valid _ (srcTxt_allValid _ hp (goodLine_writeFastq recs hv))]
  have := fastq_roundtrip recs hv
  unfold parseFastq at this
  rw [this]
  simp [GenSrcFastq.ofItem, Function.comp_def]

/-- **truncated FASTQ stream, source text** (ASCII files, so that every prefix is valid UTF-8): the translated iterator on the
first `cut` bytes of the translated writer's output yields the first `k` original records followed by nothing,
`IncompleteRecord`, the `k`-th original record, or one record that fails `check()`. -/
theorem fastq_prefix_safe_source (c : Nat) (sched : Nat → Nat) (hc : 1 ≤ c) (hs : Admissible sched)
    (recs : List FqRec) (hv : ∀ r ∈ recs, ValidFq r) (hascii : ∀ b ∈ writeFastq recs, b < 128)
    (cut : Nat) (lb : Bytes) (fuel n : Nat)
    (hf : (writeFastq recs).length < fuel) (h31 : (writeFastq recs).length < 2 ^ 31)
    (hn : (writeFastq recs).length + 1 ≤ n) :
    ∃ k tail, Rs.drain (GenSrcFastq.srcNext c sched fuel) n (init ((writeFastq recs).take cut), lb) =
        Res.ok (((recs.take k).map FqItem.ok ++ tail).map fun i => GenSrcFastq.ofItem (.item i)) ∧
      (tail = [] ∨ tail = [.incomplete] ∨ (∃ r, recs[k]? = some r ∧ tail = [.ok r]) ∨
       ∃ r', tail = [.ok r'] ∧ r'.check = false) := by
  obtain ⟨k, tail, hk, htl⟩ := fastq_prefix_safe recs hv cut
  refine ⟨k, tail, ?_, htl⟩
  have hlen : ((writeFastq recs).take cut).length ≤ (writeFastq recs).length := by simp [List.length_take]; omega
  have hp := ascii_plain_text ((writeFastq recs).take cut) fun b hb' => hascii b (List.mem_of_mem_take hb')
  rw [fastq_records_source_eq_model c sched hc hs _ lb fuel n (by omega) (by omega) (by omega),
    fastq_read_schedule_independent _ c sched hc hs]
  unfold parseFastqU
  rw [fqRecordsU_valid _ (srcTxt_allValid _ hp (goodLine_writeFastq_take recs hv cut))]
  unfold parseFastq at hk
  rw [hk]
  simp [Function.comp_def]

/-- … hence: every record the translated iterator hands out on a cut stream that passes the **translated** `check()` is an
original record. -/
theorem fastq_prefix_checked_mem_source (c : Nat) (sched : Nat → Nat) (hc : 1 ≤ c) (hs : Admissible sched)
    (recs : List FqRec) (hv : ∀ r ∈ recs, ValidFq r) (hascii : ∀ b ∈ writeFastq recs, b < 128)
    (cut : Nat) (lb : Bytes) (fuel n : Nat)
    (hf : (writeFastq recs).length < fuel) (h31 : (writeFastq recs).length < 2 ^ 31)
    (hn : (writeFastq recs).length + 1 ≤ n) (items : List (Except Gen.SrcFastq.Error Gen.SrcFastq.Record))
    (hd : Rs.drain (GenSrcFastq.srcNext c sched fuel) n (init ((writeFastq recs).take cut), lb) = Res.ok items)
    (r : FqRec) (hr : Except.ok (GenSrcFastq.toRec r) ∈ items) (hchk : r.check = true) : r ∈ recs := by
  obtain ⟨k, tail, hk, htl⟩ := fastq_prefix_safe_source c sched hc hs recs hv hascii cut lb fuel n hf h31 hn
  rw [hk] at hd
  simp only [Res.ok.injEq] at hd
  subst hd
  obtain ⟨i, hi, hie⟩ := List.mem_map.mp hr
  have hir : i = .ok r := by
    cases i with
    | ok x =>
      simp only [GenSrcFastq.ofItem, Except.ok.injEq, Gen.SrcFastq.Record.mk.injEq] at hie
      obtain ⟨h1, h2, h3, h4⟩ := hie
      cases x; cases r; simp_all
    | missingAt => simp [GenSrcFastq.ofItem] at hie
    | incomplete => simp [GenSrcFastq.ofItem] at hie
  subst hir
  rcases List.mem_append.mp hi with hx | hx
  · obtain ⟨y, hy, hye⟩ := List.mem_map.mp hx
    cases hye
    exact List.mem_of_mem_take hy
  · rcases htl with rfl | rfl | ⟨x, hx', rfl⟩ | ⟨x, rfl, hx'⟩
    · cases hx
    · simp at hx
    · simp at hx; subst hx; exact List.mem_of_getElem? hx'
    · simp at hx; subst hx; rw [hx'] at hchk; cases hchk

/-! ### The sniffer (`src/io/fastx.rs`, `RbV/Gen/SrcFastx.lean`) -/

open RbV.Thm.GenSrcFastx (readExactOp chainOp sniffRes toKind eofErr illegalStart) in
/-- **sniffer, source text**: the translated `get_kind` (through the translated `get_kind_detailed`) on a source holding
`file` answers what the model `sniff` answers on the first byte — `UnexpectedEof` on empty input, `InvalidData` for any other
start character — and the reader it hands back (`Cursor::new([first]).chain(reader)`) delivers exactly `file` again. -/
theorem fastx_sniff_source_eq_model (file : Bytes) :
    Gen.SrcFastx.getKind readExactOp chainOp file =
      Res.ok (match file with
        | [] => .error eofErr
        | b :: _ => match sniff file with
          | some k => .ok (file, toKind k)
          | none => .error (illegalStart b)) := by
  rw [GenSrcFastx.getKind_eq_model]
  cases file with
  | nil => simp [sniffRes]
  | cons b r => cases h : sniff (b :: r) <;> simp [sniffRes, h]

open RbV.Thm.GenSrcFastx (readExactAt seekCurOp sniffRes) in
/-- **`get_kind_seek`, source text**: the same verdict, and the position of the source is unchanged (`read_exact` of one byte,
`seek(Current(-1))`) -/
theorem fastx_sniff_seek_source_eq_model (b : Nat) (r : Bytes) :
    Gen.SrcFastx.getKindSeek readExactAt seekCurOp (b :: r, 0) = Res.ok (sniffRes (b :: r), (b :: r, 0)) :=
  GenSrcFastx.getKindSeek_eq_model b r

open RbV.Thm.GenSrcFastx (readExactOp chainOp eitherAfter) in
/-- **`EitherRecords`, source text**: `kind()` on a fresh `EitherRecords` over a source holding `file` (translated `kind` →
translated `initialize` → translated `get_kind` → `get_kind_detailed`) answers the verdict of `sniff` ("Data is empty" at end
of input) and leaves the object holding the record iterator of **that** format (`fa` / `fq` = `fasta::` / `fastq::Reader::new(
chain).records()`) over a chained reader that delivers the whole input again; a second `initialize` changes nothing. -/
theorem fastx_either_kind_source_eq_model {α β : Type} (fa : Bytes → α) (fq : Bytes → β) (file : Bytes) :
    Gen.SrcFastx.eitherKind readExactOp chainOp fa fq none (some file) =
        Res.ok ((eitherAfter fa fq file).1, (eitherAfter fa fq file).2, none) ∧
      (∀ recs : Option (α ⊕ β),
        Gen.SrcFastx.eitherInitialize readExactOp chainOp fa fq recs none = Res.ok (.ok (), recs, none)) ∧
      (∀ k, sniff file = some k →
        (eitherAfter fa fq file).1 = .ok (GenSrcFastx.toKind k) ∧
        (eitherAfter fa fq file).2 = some (match k with | .fasta => .inl (fa file) | .fastq => .inr (fq file))) := by
  refine ⟨GenSrcFastx.eitherKind_eq_model fa fq file, GenSrcFastx.eitherInitialize_again fa fq, ?_⟩
  intro k hk
  cases file with
  | nil => simp [sniff] at hk
  | cons b r => cases k <;> simp [eitherAfter, hk, GenSrcFastx.toKind]

open RbV.Thm.GenSrcFastx (readExactOp chainOp eitherAfter wrapFa wrapFq illegalStart) in
/-- **`EitherRecords::next`, source text**: once the reader has been taken, `next` is the `next` of the iterator the object
holds (`faN` / `fqN` = `fasta::` / `fastq::Records::next`, whose translations are `Gen.SrcFasta.next` / `Gen.SrcFastq.next`), its
new state written back and the item wrapped (`Ok(r)` ↦ `Ok(EitherRecord::FASTA(r))`, `Err(e)` ↦ `Err(Error::IO(e))`, resp.
`FASTQ`); the first call on a fresh object sniffs first — an illegal start character is the item `Some(Err(Error::IO(_)))`,
after which (and on empty input) the iterator is exhausted. -/
theorem fastx_either_next_source_eq_model {α β γ δ ε : Type} (fa : Bytes → α) (fq : Bytes → β)
    (faN : α → Option (Except IoErr γ) × α) (fqN : β → Option (Except ε δ) × β) :
    (∀ recs : Option (α ⊕ β),
      Gen.SrcFastx.eitherNext readExactOp chainOp fa fq faN fqN recs none =
        Res.ok (match recs with
          | some (.inl a) => ((faN a).1.map wrapFa, some (.inl (faN a).2), none)
          | some (.inr b) => ((fqN b).1.map wrapFq, some (.inr (fqN b).2), none)
          | none => (none, none, none))) ∧
    (∀ file : Bytes,
      Gen.SrcFastx.eitherNext readExactOp chainOp fa fq faN fqN none (some file) =
        (match file, sniff file with
         | b :: _, none => Res.ok (some (.error (.inl (illegalStart b))), none, none)
         | _, _ => Gen.SrcFastx.eitherNext readExactOp chainOp fa fq faN fqN (eitherAfter fa fq file).2 none)) :=
  ⟨GenSrcFastx.eitherNext_eq_model fa fq faN fqN, GenSrcFastx.eitherNext_fresh fa fq faN fqN⟩

open RbV.Thm.GenSrcFastx (readExactOp chainOp) in
/-- **sniffer + FASTA reader, source text to source text**: on the translated writer's output for a non-empty list of valid
text records the translated `get_kind` answers FASTA and hands back a reader over the same bytes; the translated `Records`
iterator on a `BufReader` over that `Chain` (read schedule `chainSched sched`: the peeked byte first) yields the records. -/
theorem fastx_sniff_fasta_source (c : Nat) (sched : Nat → Nat) (hc : 1 ≤ c) (hs : Admissible sched)
    (wrap : Option Nat) (recs : List FaRec) (hne : recs ≠ []) (hv : ∀ r ∈ recs, ValidFa r) (ht : ∀ r ∈ recs, TextFa r)
    (hw : ∀ w, wrap = some w → 1 ≤ w) (fuel n : Nat)
    (hf : (writeFasta wrap recs).length < fuel) (hn : (writeFasta wrap recs).length + 2 ≤ n) :
    ∃ file, recs.foldlM (srcWriteFasta wrap) [] = Res.ok file ∧
      Gen.SrcFastx.getKind readExactOp chainOp file = Res.ok (.ok (file, Gen.SrcFastx.Kind.FASTA)) ∧
      Rs.drain (GenSrcFasta.srcNext c (chainSched sched) fuel) n (init file, [], false) =
        Res.ok (recs.map fun r => .ok (GenSrcFasta.toRec r)) := by
  obtain ⟨file, h1, h2⟩ := fasta_roundtrip_source c (chainSched sched) hc (chainSched_admissible sched hs) wrap recs hv ht hw
    fuel n hf hn
  have hfile : file = writeFasta wrap recs := by
    have := srcWriteFasta_all wrap hw recs []
    rw [h1] at this
    simpa using this
  refine ⟨file, h1, ?_, h2⟩
  rw [fastx_sniff_source_eq_model, hfile]
  cases recs with
  | nil => exact absurd rfl hne
  | cons r rs => simp [writeFasta, writeFastaRec, faHeaderBytes, sniff, GenSrcFastx.toKind]

open RbV.Thm.GenSrcFastx (readExactOp chainOp) in
/-- **sniffer + FASTQ reader, source text to source text** -/
theorem fastx_sniff_fastq_source (c : Nat) (sched : Nat → Nat) (hc : 1 ≤ c) (hs : Admissible sched)
    (recs : List FqRec) (hne : recs ≠ []) (hv : ∀ r ∈ recs, ValidFq r) (ht : ∀ r ∈ recs, TextFq r) (lb : Bytes)
    (fuel n : Nat) (hf : (writeFastq recs).length < fuel) (h31 : (writeFastq recs).length < 2 ^ 31)
    (hn : (writeFastq recs).length + 1 ≤ n) :
    ∃ file, recs.foldlM srcWriteFastq [] = Res.ok file ∧
      Gen.SrcFastx.getKind readExactOp chainOp file = Res.ok (.ok (file, Gen.SrcFastx.Kind.FASTQ)) ∧
      Rs.drain (GenSrcFastq.srcNext c (chainSched sched) fuel) n (init file, lb) =
        Res.ok (recs.map fun r => .ok (GenSrcFastq.toRec r)) := by
  obtain ⟨file, h1, h2⟩ := fastq_roundtrip_source c (chainSched sched) hc (chainSched_admissible sched hs) recs hv ht lb
    fuel n hf h31 hn
  have hfile : file = writeFastq recs := by
    have := srcWriteFastq_all recs []
    rw [h1] at this
    simpa using this
  refine ⟨file, h1, ?_, h2⟩
  rw [fastx_sniff_source_eq_model, hfile]
  cases recs with
  | nil => exact absurd rfl hne
  | cons r rs => simp [writeFastq, writeFastqRec, sniff, GenSrcFastx.toKind]

open RbV.Thm.GenSrcFastx (readExactOp chainOp eitherSrcNext totalNext wrapFa wrapFq eitherAfter) in
/-- **`EitherRecords` end to end, FASTA** (source text to source text): the translated `EitherRecords::next` — sniffing through
the translated `initialize` / `get_kind`, then dispatching to the translated `fasta::Records::next` on a `BufReader` over the
chained reader (schedule `chainSched sched`) — drained over the translated FASTA writer's output for a non-empty list of
valid text records yields exactly the records, each as `Ok(EitherRecord::FASTA(_))`. -/
theorem fastx_either_fasta_roundtrip_source (c : Nat) (sched : Nat → Nat) (hc : 1 ≤ c) (hs : Admissible sched)
    (wrap : Option Nat) (recs : List FaRec) (hne : recs ≠ []) (hv : ∀ r ∈ recs, ValidFa r) (ht : ∀ r ∈ recs, TextFa r)
    (hw : ∀ w, wrap = some w → 1 ≤ w) (fuel n : Nat)
    (hf : (writeFasta wrap recs).length < fuel) (hn : (writeFasta wrap recs).length + 2 ≤ n)
    {β δ ε : Type} (fq : Bytes → β) (fqN : β → Option (Except ε δ) × β) :
    ∃ file, recs.foldlM (srcWriteFasta wrap) [] = Res.ok file ∧
      Rs.drain (eitherSrcNext (fun f => (init f, ([] : Bytes), false)) fq
          (totalNext (GenSrcFasta.srcNext c (chainSched sched) fuel)) fqN) n (none, some file) =
        Res.ok (recs.map fun r => (.ok (.inl (GenSrcFasta.toRec r)) : Except (IoErr ⊕ ε) (Gen.SrcFasta.Record ⊕ δ))) := by
  obtain ⟨file, h1, hk, h2⟩ := fastx_sniff_fasta_source c sched hc hs wrap recs hne hv ht hw fuel n hf hn
  refine ⟨file, h1, ?_⟩
  have hsn : sniff file = some .fasta := by
    have := fastx_sniff_source_eq_model file
    rw [hk] at this
    cases file with
    | nil => simp at this
    | cons b r =>
      cases h : sniff (b :: r) with
      | none => simp [h] at this
      | some k => cases k <;> simp_all [GenSrcFastx.toKind]
  rw [GenSrcFastx.drain_either_fresh _ fq _ fqN file .fasta hsn n]
  have hafter : (eitherAfter (fun f => (init f, ([] : Bytes), false)) fq file).2 = some (.inl (init file, [], false)) := by
    cases file with
    | nil => simp [sniff] at hsn
    | cons b r => simp [eitherAfter, hsn]
  rw [hafter, GenSrcFastx.drain_either_fasta _ fq _ fqN n _ _ h2]
  simp [wrapFa, Except.map, Except.mapError, Function.comp_def]

open RbV.Thm.GenSrcFastx (readExactOp chainOp eitherSrcNext totalNext wrapFa wrapFq eitherAfter) in
/-- **`EitherRecords` end to end, FASTQ** -/
theorem fastx_either_fastq_roundtrip_source (c : Nat) (sched : Nat → Nat) (hc : 1 ≤ c) (hs : Admissible sched)
    (recs : List FqRec) (hne : recs ≠ []) (hv : ∀ r ∈ recs, ValidFq r) (ht : ∀ r ∈ recs, TextFq r) (lb : Bytes)
    (fuel n : Nat) (hf : (writeFastq recs).length < fuel) (h31 : (writeFastq recs).length < 2 ^ 31)
    (hn : (writeFastq recs).length + 1 ≤ n)
    {α γ : Type} (fa : Bytes → α) (faN : α → Option (Except IoErr γ) × α) :
    ∃ file, recs.foldlM srcWriteFastq [] = Res.ok file ∧
      Rs.drain (eitherSrcNext fa (fun f => (init f, lb)) faN
          (totalNext (GenSrcFastq.srcNext c (chainSched sched) fuel))) n (none, some file) =
        Res.ok (recs.map fun r =>
          (.ok (.inr (GenSrcFastq.toRec r)) : Except (IoErr ⊕ Gen.SrcFastq.Error) (γ ⊕ Gen.SrcFastq.Record))) := by
  obtain ⟨file, h1, hk, h2⟩ := fastx_sniff_fastq_source c sched hc hs recs hne hv ht lb fuel n hf h31 hn
  refine ⟨file, h1, ?_⟩
  have hsn : sniff file = some .fastq := by
    have := fastx_sniff_source_eq_model file
    rw [hk] at this
    cases file with
    | nil => simp at this
    | cons b r =>
      cases h : sniff (b :: r) with
      | none => simp [h] at this
      | some k => cases k <;> simp_all [GenSrcFastx.toKind]
  rw [GenSrcFastx.drain_either_fresh fa _ faN _ file .fastq hsn n]
  have hafter : (eitherAfter fa (fun f => (init f, lb)) file).2 = some (.inr (init file, lb)) := by
    cases file with
    | nil => simp [sniff] at hsn
    | cons b r => simp [eitherAfter, hsn]
  rw [hafter, GenSrcFastx.drain_either_fastq fa _ faN _ n _ _ h2]
  simp [wrapFq, Except.map, Except.mapError, Function.comp_def]

end Source

/-! ## Non-vacuity -/

private def exFa : List FaRec :=
  [{ id := [105, 100], desc := some [100, 32, 120], seq := [65, 67, 71, 84, 65] },      -- >id d x / ACGTA
   { id := [50], desc := none, seq := [64, 43] }]                                          -- >2 / @+

private theorem exFa_valid : ∀ r ∈ exFa, ValidFa r := by decide

example : parseFasta (writeFasta (some 2) exFa) = exFa.map FaItem.ok :=
  fasta_roundtrip (some 2) exFa exFa_valid (by intro w h; cases h; decide)

private def exFq : List FqRec :=
  [{ id := [114], desc := none, seq := [65, 67], qual := [64, 43] },                     -- qualities "@+"
   { id := [115], desc := some [100], seq := [71], qual := [43] }]

private theorem exFq_valid : ∀ r ∈ exFq, ValidFq r := by decide

example : parseFastq (writeFastq exFq) = exFq.map FqItem.ok := fastq_roundtrip exFq exFq_valid

/-- a cut in the middle of the second record: whatever passes `check()` is an original record -/
example (r : FqRec) (hr : FqItem.ok r ∈ parseFastq ((writeFastq exFq).take 14)) (hc : r.check = true) : r ∈ exFq :=
  fastq_prefix_checked_mem exFq exFq_valid 14 r hr hc

/-- capacity 2, reads of 1, 3, 1, 3, … bytes (cut to the capacity); last line without terminator -/
example : RbV.BufLines.linesVia 2 (RbV.BufLines.cyclic [1, 3]) [62, 105, 10, 65, 67, 71, 10, 10, 84] =
    [[62, 105, 10], [65, 67, 71, 10], [10], [84]] :=
  (read_line_schedule_independent 2 _ (by decide) (RbV.BufLines.cyclic_admissible _) _).trans (by decide)

example : RbV.BufLines.linesVia 1 (fun _ => 1) [] = [] :=
  (read_line_schedule_independent 1 _ (by decide) (fun _ => Nat.le_refl 1) _).trans (by decide)

/-- capacity 3, reads of 2, 1, 5 bytes: the FASTA file of `exFa` (no wrap) through the stateful reader -/
example : parseFastaVia Txt.unicode 3 (RbV.BufLines.cyclic [2, 1, 5]) (writeFasta none exFa) =
    exFa.map fun r => .item (.ok r) :=
  fasta_roundtrip_any_buffering 3 _ (by decide) (RbV.BufLines.cyclic_admissible _) none exFa exFa_valid
    (by intro w h; cases h) (by decide) (by decide)

/-- a FASTQ record with the non-ASCII id `é` (0xC3 0xA9), 1-byte buffer: the character is split over two reads -/
private def exFqU : List FqRec := [{ id := [195, 169], desc := none, seq := [65, 67], qual := [33, 34] }]

example : parseFastqVia Txt.unicode 1 (fun _ => 1) (writeFastq exFqU) = exFqU.map fun r => .item (.ok r) :=
  fastq_roundtrip_any_buffering 1 _ (by decide) (fun _ => Nat.le_refl 1) exFqU (by decide) (by decide) (by decide)

/-- a stream cut inside `é`: every configuration reports the UTF-8 error -/
example : parseFastqVia Txt.unicode 1 (fun _ => 1) ((writeFastq exFqU).take 2) = [.utf8] :=
  (fastq_read_schedule_independent _ 1 _ (by decide) (fun _ => Nat.le_refl 1) _).trans
    (by simp [parseFastqU, exFqU, writeFastq, writeFastqRec, splitLines, fqRecordsU, fqReadU, validUtf8])

/-- the cut inside `é` again, through the prefix theorem: whatever passes `check()` is an original record -/
example (r : FqRec) (hr : SItem.item (FqItem.ok r) ∈ parseFastqVia Txt.unicode 2 (fun _ => 1) ((writeFastq exFqU).take 2))
    (hc : r.check = true) : r ∈ exFqU :=
  fastq_prefix_checked_mem_any_buffering 2 _ (by decide) (fun _ => Nat.le_refl 1) exFqU (by decide) (by decide)
    (by decide) 2 r hr hc

/-- `exFa` (wrap 2) and the non-ASCII `exFqU` are text records -/
example : parseFastaVia Txt.unicode 1 (fun _ => 1) (writeFasta (some 2) exFa) = exFa.map fun r => .item (.ok r) :=
  fasta_roundtrip_records_any_buffering 1 _ (by decide) (fun _ => Nat.le_refl 1) (some 2) exFa exFa_valid (by decide)
    (by intro w h; cases h; decide)

example : parseFastqVia Txt.unicode 5 (RbV.BufLines.cyclic [3, 1]) (writeFastq exFqU) =
    exFqU.map fun r => .item (.ok r) :=
  fastq_roundtrip_records_any_buffering 5 _ (by decide) (RbV.BufLines.cyclic_admissible _) exFqU (by decide) (by decide)


/-! ### Non-vacuity of the source-text theorems -/

open RbV.Rs RbV.BufLines in
/-- `exFa` written by the translated writer (no wrap) and read back by the translated iterator: capacity 3, reads of 2, 1, 5 -/
example : ∃ file, exFa.foldlM (srcWriteFasta none) [] = Res.ok file ∧
    Rs.drain (GenSrcFasta.srcNext 3 (cyclic [2, 1, 5]) 100) 100 (init file, [], false) =
      Res.ok (exFa.map fun r => .ok (GenSrcFasta.toRec r)) :=
  fasta_roundtrip_source 3 _ (by decide) (cyclic_admissible _) none exFa exFa_valid (by decide)
    (by intro w h; cases h) 100 100 (by decide) (by decide)

open RbV.Rs RbV.BufLines in
example : ∃ file, exFq.foldlM srcWriteFastq [] = Res.ok file ∧
    Rs.drain (GenSrcFastq.srcNext 1 (fun _ => 1) 100) 100 (init file, []) =
      Res.ok (exFq.map fun r => .ok (GenSrcFastq.toRec r)) :=
  fastq_roundtrip_source 1 _ (by decide) (fun _ => Nat.le_refl 1) exFq exFq_valid (by decide) [] 100 100
    (by decide) (by decide) (by decide)

/-- a description with a tab after the first blank (`d\tx y`), cut in the middle of the second record -/
private def exFqTab : List FqRec :=
  [{ id := [114], desc := some [100, 9, 120, 32, 121], seq := [65, 67], qual := [33, 34] },
   { id := [115], desc := none, seq := [71], qual := [43] }]

open RbV.Rs RbV.BufLines in
example : ∃ k tail, Rs.drain (GenSrcFastq.srcNext 2 (cyclic [1, 3]) 100) 100 (init ((writeFastq exFqTab).take 22), []) =
      Res.ok (((exFqTab.take k).map FqItem.ok ++ tail).map fun i => GenSrcFastq.ofItem (.item i)) ∧
    (tail = [] ∨ tail = [.incomplete] ∨ (∃ r, exFqTab[k]? = some r ∧ tail = [.ok r]) ∨
     ∃ r', tail = [.ok r'] ∧ r'.check = false) :=
  fastq_prefix_safe_source 2 _ (by decide) (cyclic_admissible _) exFqTab (by decide) (by decide) 22 [] 100 100
    (by decide) (by decide) (by decide)


open RbV.Rs RbV.BufLines in
/-- sniffing the translated writer's FASTQ output and reading the chained reader with the translated iterator -/
example : ∃ file, exFq.foldlM srcWriteFastq [] = Res.ok file ∧
    Gen.SrcFastx.getKind GenSrcFastx.readExactOp GenSrcFastx.chainOp file = Res.ok (.ok (file, Gen.SrcFastx.Kind.FASTQ)) ∧
    Rs.drain (GenSrcFastq.srcNext 4 (chainSched (cyclic [3, 1])) 100) 100 (init file, []) =
      Res.ok (exFq.map fun r => .ok (GenSrcFastq.toRec r)) :=
  fastx_sniff_fastq_source 4 _ (by decide) (cyclic_admissible _) exFq (by decide) exFq_valid (by decide) [] 100 100
    (by decide) (by decide) (by decide)

open RbV.Rs RbV.BufLines in
/-- `EitherRecords` over the translated FASTQ writer's output, drained (the FASTA side is irrelevant: any `fa`, `faN`) -/
example : ∃ file, exFq.foldlM srcWriteFastq [] = Res.ok file ∧
    Rs.drain (GenSrcFastx.eitherSrcNext (fun _ => ()) (fun f => (init f, ([] : Bytes))) (fun u => ((none : Option (Except IoErr Unit)), u))
        (GenSrcFastx.totalNext (GenSrcFastq.srcNext 2 (chainSched (cyclic [1, 4])) 100))) 100 (none, some file) =
      Res.ok (exFq.map fun r => .ok (.inr (GenSrcFastq.toRec r))) :=
  fastx_either_fastq_roundtrip_source 2 _ (by decide) (cyclic_admissible _) exFq (by decide) exFq_valid (by decide) [] 100 100
    (by decide) (by decide) (by decide) _ _

/-- an illegal start character and the empty input -/
example : Gen.SrcFastx.getKind GenSrcFastx.readExactOp GenSrcFastx.chainOp [65, 10] =
    RbV.Rs.Res.ok (.error (GenSrcFastx.illegalStart 65)) := fastx_sniff_source_eq_model _

example : Gen.SrcFastx.getKind GenSrcFastx.readExactOp GenSrcFastx.chainOp [] =
    RbV.Rs.Res.ok (.error GenSrcFastx.eofErr) := fastx_sniff_source_eq_model _

end RbV.Thm.C11
