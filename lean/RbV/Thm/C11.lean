import RbV.Model.Fasta
import RbV.Model.Fastq
import RbV.Lemmas.Fastx
/-!
# C11 — FASTA/FASTQ round trip is lossless and layout independent; truncated FASTQ is prefix safe

All statements are about the byte-level model in `RbV/Model/Fasta.lean`, `RbV/Model/Fastq.lean`, which follows the
Rust writers and readers line by line; `parseFasta` / `parseFastq` are what `Records` yields on a byte stream
(the independence from buffer capacity and read fragmentation is `BufRead::read_line`'s contract and is what the
correspondence run samples).  `ValidFa` / `ValidFq` delimit "valid records" (id without white space, description
without line feed and not ending in white space, non-empty sequence without white space, …).
-/
namespace RbV.Thm.C11
open RbV.Fastx

/-- **FASTA, any layout**: however the sequence of each record is cut into lines (any widths, blank lines), with LF
or CRLF line ends chosen per record, the reader yields exactly the records. -/
theorem fasta_layout (L : List (FaRec × List Bytes × Bytes))
    (h : ∀ x ∈ L, ValidFa x.1 ∧ x.2.1.flatten = x.1.seq ∧ IsEol x.2.2) :
    parseFasta (layoutFasta L) = L.map (fun x => FaItem.ok x.1) :=
  parseFasta_layout L h

/-- **FASTA round trip**: what the writer produces for valid records, with no line wrap or any wrap ≥ 1, is read
back as exactly those records. -/
theorem fasta_roundtrip (wrap : Option Nat) (recs : List FaRec) (hv : ∀ r ∈ recs, ValidFa r)
    (hw : ∀ w, wrap = some w → 1 ≤ w) :
    parseFasta (writeFasta wrap recs) = recs.map FaItem.ok := by
  rw [writeFasta_eq_layout, parseFasta_layout]
  · simp
  · intro x hx
    obtain ⟨r, hr, rfl⟩ := List.mem_map.mp hx
    refine ⟨hv r hr, ?_, Or.inl rfl⟩
    cases wrap with
    | none => simp [writerPieces]
    | some w => simpa [writerPieces] using chunks_flatten w (hw w rfl) r.seq

/-- **Re-wrapping / CRLF invariance**: two layouts of the same records (different line widths, blank lines, line
terminators) parse to the same result — in particular the writer's output under two different wraps. -/
theorem fasta_rewrap_crlf (L₁ L₂ : List (FaRec × List Bytes × Bytes))
    (h₁ : ∀ x ∈ L₁, ValidFa x.1 ∧ x.2.1.flatten = x.1.seq ∧ IsEol x.2.2)
    (h₂ : ∀ x ∈ L₂, ValidFa x.1 ∧ x.2.1.flatten = x.1.seq ∧ IsEol x.2.2)
    (same : L₁.map (·.1) = L₂.map (·.1)) :
    parseFasta (layoutFasta L₁) = parseFasta (layoutFasta L₂) := by
  rw [parseFasta_layout L₁ h₁, parseFasta_layout L₂ h₂]
  have := congrArg (List.map FaItem.ok) same
  simp only [List.map_map] at this
  exact this

/-- **FASTQ, any accepted layout**: sequence and qualities cut into equally many lines (any widths; no sequence
line starting with `+`), LF or CRLF per record, anything after `+` on the separator line. -/
theorem fastq_layout (L : List (FqRec × FqLayout)) (h : ∀ x ∈ L, ValidFq x.1 ∧ x.2.Ok x.1) :
    parseFastq (layoutFastq L) = L.map (fun x => FqItem.ok x.1) :=
  parseFastq_layout L h

/-- **FASTQ round trip** (qualities may start with `@` or `+`: `ValidFq` does not restrict them). -/
theorem fastq_roundtrip (recs : List FqRec) (hv : ∀ r ∈ recs, ValidFq r) :
    parseFastq (writeFastq recs) = recs.map FqItem.ok := by
  rw [writeFastq_eq_layout, parseFastq_layout]
  · simp
  · intro x hx
    obtain ⟨r, hr, rfl⟩ := List.mem_map.mp hx
    exact ⟨hv r hr, writerLayout_ok r (hv r hr)⟩

/-- records read back from valid input pass `check()` exactly when they have an id -/
theorem valid_check (r : FqRec) (v : ValidFq r) (hascii : ∀ b ∈ r.seq ++ r.qual, b < 128) (hid : r.id ≠ []) :
    r.check = true := by
  have h1 : r.seq.all (· < 128) = true := List.all_eq_true.mpr fun b hb => by simpa using hascii b (by simp [hb])
  have h2 : r.qual.all (· < 128) = true := List.all_eq_true.mpr fun b hb => by simpa using hascii b (by simp [hb])
  have h3 := v.qual_len
  cases hi : r.id with
  | nil => exact absurd hi hid
  | cons b i => simp [FqRec.check, hi, h1, h2, h3]

/-! ## Non-vacuity -/

private def exFa : List FaRec :=
  [{ id := [105, 100], desc := some [100, 32, 120], seq := [65, 67, 71, 84, 65] },      -- >id d x / ACGTA
   { id := [50], desc := none, seq := [64, 43] }]                                          -- >2 / @+

private theorem exFa_valid : ∀ r ∈ exFa, ValidFa r := by decide

example : parseFasta (writeFasta (some 2) exFa) = exFa.map FaItem.ok :=
  fasta_roundtrip (some 2) exFa exFa_valid (by intro w h; cases h; decide)

private def exFq : List FqRec :=
  [{ id := [114], desc := none, seq := [65, 67], qual := [64, 43] },                     -- qualities "@+"
   { id := [115], desc := some [100], seq := [71], qual := [43] }]

private theorem exFq_valid : ∀ r ∈ exFq, ValidFq r := by decide

example : parseFastq (writeFastq exFq) = exFq.map FqItem.ok := fastq_roundtrip exFq exFq_valid

end RbV.Thm.C11
