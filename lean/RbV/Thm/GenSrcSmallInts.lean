import RbV.Gen.SrcSmallInts
import RbV.Model.SmallInts
import RbV.Lemmas.SmallInts
import RbV.Thm.GenSrcBasic
/-!
# The translated text of `SmallInts::{real_value, get, push, set, from_elem, len}` equals the mirror model

`RbV/Gen/SrcSmallInts.lean` is regenerated from `src/data_structures/smallints.rs` by `tools/rs2lean.py` on every
`./check C18` / `./check C03`.  The generic parameters `S`, `B` are Lean type variables, `num_traits::cast` (three
instances: `B → S` in `push`/`set`, `S → B` in `real_value`, the literal `0 → S` in `from_elem`), `S::max_value()`, `<` on
`S` and the two `size_of` are abstract parameters.  The theorems instantiate them with the meaning the mirror model
gives them: both types are `Int`, the small type is the range `[lo, hi]` (`cast : B → S` succeeds iff `lo ≤ v ≤ hi`,
`cast : S → B` always succeeds, `S::max_value() = hi`).  `BTreeMap<usize, B>` is observed through `insert` / `get` only:
the association list of `Rs.mapInsert` / `Rs.mapGet` (`Basic/RsSemBits.lean`) is literally the model's `big` list.
-/
set_option linter.unusedSimpArgs false

namespace RbV.Thm.GenSrcSmallInts
open RbV RbV.Rs RbV.Thm.GenSrc
open RbV.Model.SmallInts (St)

/-- `num_traits::cast::<B, S>` of the model -/
abbrev cBS (lo hi : Int) : Int → Option Int := Model.SmallInts.cast lo hi
/-- `num_traits::cast::<S, B>`: the big type holds every small value -/
abbrev cSB : Int → Option Int := some
/-- `num_traits::cast::<i32, S>` applied to a non-negative literal -/
abbrev cZ (lo hi : Int) : Nat → Option Int := fun z => Model.SmallInts.cast lo hi (z : Int)
/-- `<` on the small type -/
abbrev ltI : Int → Int → Bool := fun a b => decide (a < b)

theorem mapGet_eq_lookup (m : List (Nat × Int)) (i : Nat) : Rs.mapGet m i = Model.SmallInts.lookup m i := by
  induction m with
  | nil => rfl
  | cons kv m ih =>
    obtain ⟨k, v⟩ := kv
    simp only [Rs.mapGet, Model.SmallInts.lookup, ih]

/-- `fn real_value`, as written -/
theorem realValue_eq_model (lo hi : Int) (sS sB : Nat) (s : St) (i : Nat) (v : Int) :
    Gen.SrcSmallInts.realValue (cBS lo hi) cSB (cZ lo hi) ltI hi sS sB s.small s.big i v
      = Res.ok (Model.SmallInts.realValue hi s i v) := by
  by_cases h : v < hi
  · have h2 : ¬ hi ≤ v := by omega
    simp only [Gen.SrcSmallInts.realValue, Model.SmallInts.realValue, h, h2, decide_true, decide_false, if_true,
      ite_true, if_false, ite_false, Res.pure_eq_ok, ltI, cBS, cSB, cZ, Bool.not_true, Bool.not_false, Bool.false_eq_true, not_false_eq_true, mapGet_eq_lookup, Bool.false_eq_true]
  · have h2 : hi ≤ v := by omega
    simp only [Gen.SrcSmallInts.realValue, Model.SmallInts.realValue, h, h2, decide_true, decide_false, if_true,
      ite_true, if_false, ite_false, Res.pure_eq_ok, ltI, cBS, cSB, cZ, Bool.not_true, Bool.not_false, Bool.false_eq_true, not_false_eq_true, mapGet_eq_lookup, Bool.false_eq_true]

/-- `SmallInts::get`, as written (every index; beyond the end `None`) -/
theorem get_eq_model (lo hi : Int) (sS sB : Nat) (s : St) (i : Nat) :
    Gen.SrcSmallInts.get (cBS lo hi) cSB (cZ lo hi) ltI hi sS sB s.small s.big i
      = Res.ok (Model.SmallInts.get hi s i) := by
  by_cases h : i < s.small.length
  · have h2 : ¬ s.small.length ≤ i := by omega
    have e1 : Rs.idx s.small i = Res.ok s.small[i] := Rs.idx_ok h
    have e2 := realValue_eq_model lo hi sS sB s i s.small[i]
    simp only [Gen.SrcSmallInts.get, Model.SmallInts.get, h, h2, e1, e2, decide_true, decide_false, if_true, ite_true,
      if_false, ite_false, dite_true, dif_pos, Res.ok_bind, Res.pure_eq_ok, ltI, cBS, cSB, cZ, Bool.not_true, Bool.not_false, Bool.false_eq_true, not_false_eq_true, Bool.false_eq_true]
  · have h2 : s.small.length ≤ i := by omega
    simp only [Gen.SrcSmallInts.get, Model.SmallInts.get, h, h2, decide_true, decide_false, if_true, ite_true, if_false,
      ite_false, dite_false, dif_neg, not_false_eq_true, Res.ok_bind, Res.pure_eq_ok, ltI, cBS, cSB, cZ, Bool.not_true, Bool.not_false, Bool.false_eq_true, not_false_eq_true, Bool.false_eq_true]

/-- `SmallInts::push`, as written (new `smallints`, new `bigints`) -/
theorem push_eq_model (lo hi : Int) (sS sB : Nat) (s : St) (v : Int) :
    Gen.SrcSmallInts.push (cBS lo hi) cSB (cZ lo hi) ltI hi sS sB s.small s.big v
      = Res.ok ((Model.SmallInts.push lo hi s v).small, (Model.SmallInts.push lo hi s v).big) := by
  unfold Gen.SrcSmallInts.push Model.SmallInts.push
  cases hc : Model.SmallInts.cast lo hi v with
  | none => simp only [hc, Rs.mapInsert, Res.ok_bind, Res.pure_eq_ok, ltI, cBS, cSB, cZ, Bool.not_true, Bool.not_false, Bool.false_eq_true, not_false_eq_true]
  | some x =>
    by_cases hx : x < hi
    · have h2 : ¬ hi ≤ x := by omega
      simp only [hc, hx, h2, decide_true, decide_false, if_true, ite_true, Rs.mapInsert, Res.ok_bind, Res.pure_eq_ok, ltI, cBS, cSB, cZ, Bool.not_true, Bool.not_false, Bool.false_eq_true, not_false_eq_true]
    · have h2 : hi ≤ x := by omega
      simp only [hc, hx, h2, decide_true, decide_false, if_false, ite_false, Rs.mapInsert, Res.ok_bind, Res.pure_eq_ok, ltI, cBS, cSB, cZ, Bool.not_true, Bool.not_false, Bool.false_eq_true, not_false_eq_true,
        Bool.false_eq_true]

/-- `SmallInts::set`, as written, for an existing index (beyond the end the Rust code panics) -/
theorem set_eq_model (lo hi : Int) (sS sB : Nat) (s : St) (i : Nat) (v : Int) (hi' : i < s.small.length) :
    Gen.SrcSmallInts.set (cBS lo hi) cSB (cZ lo hi) ltI hi sS sB s.small s.big i v
      = Res.ok ((Model.SmallInts.set lo hi s i v).small, (Model.SmallInts.set lo hi s i v).big) := by
  have e1 : ∀ x, Rs.setIdx s.small i x = Res.ok (s.small.set i x) := fun x => Rs.setIdx_ok hi'
  unfold Gen.SrcSmallInts.set Model.SmallInts.set
  cases hc : Model.SmallInts.cast lo hi v with
  | none => simp only [hc, e1, Rs.mapInsert, Res.ok_bind, Res.pure_eq_ok, ltI, cBS, cSB, cZ, Bool.not_true, Bool.not_false, Bool.false_eq_true, not_false_eq_true]
  | some x =>
    by_cases hx : x < hi
    · have h2 : ¬ hi ≤ x := by omega
      simp only [hc, hx, h2, e1, decide_true, decide_false, if_true, ite_true, Rs.mapInsert, Res.ok_bind, Res.pure_eq_ok, ltI, cBS, cSB, cZ, Bool.not_true, Bool.not_false, Bool.false_eq_true, not_false_eq_true]
    · have h2 : hi ≤ x := by omega
      simp only [hc, hx, h2, e1, decide_true, decide_false, if_false, ite_false, Rs.mapInsert, Res.ok_bind, Res.pure_eq_ok, ltI, cBS, cSB, cZ, Bool.not_true, Bool.not_false, Bool.false_eq_true, not_false_eq_true,
        Bool.false_eq_true]

theorem set_oob_panics (lo hi : Int) (sS sB : Nat) (s : St) (i : Nat) (v : Int) (hi' : s.small.length ≤ i) :
    Gen.SrcSmallInts.set (cBS lo hi) cSB (cZ lo hi) ltI hi sS sB s.small s.big i v = Res.panic := by
  have e1 : ∀ x, Rs.setIdx s.small i x = Res.panic := by
    intro x
    have : ¬ i < s.small.length := by omega
    simp [Rs.setIdx, this]
  unfold Gen.SrcSmallInts.set
  cases hc : Model.SmallInts.cast lo hi v with
  | none => simp only [hc, e1, Res.panic_bind, ltI, cBS, cSB, cZ]
  | some x => by_cases hx : x < hi <;> simp [hx, e1, hc]

/-- `SmallInts::from_elem`, as written: under its two assertions (`size_of::<S>() < size_of::<B>()`, and
`v < S::max_value()` for positive `v`) it builds the model's state; `0` must be a value of the small type -/
theorem fromElem_eq_model (lo hi : Int) (h0 : lo ≤ 0 ∧ 0 ≤ hi) (sS sB : Nat) (hsz : sS < sB) (v : Int) (n : Nat)
    (hv : 0 < v → v < hi) :
    Gen.SrcSmallInts.fromElem (cBS lo hi) cSB (cZ lo hi) ltI hi sS sB v n
      = Res.ok ((Model.SmallInts.fromElem v n).small, (Model.SmallInts.fromElem v n).big) := by
  have e0 : Rs.assert (decide (sS < sB)) = Res.ok () := Rs.assert_ok (by simp [hsz])
  have ez : Model.SmallInts.cast lo hi ((0 : Nat) : Int) = some 0 := by simp [Model.SmallInts.cast, h0.1, h0.2]
  by_cases hp : 0 < v
  · have e1 : Rs.assert (decide (v < hi)) = Res.ok () := Rs.assert_ok (by simp [hv hp])
    simp only [Gen.SrcSmallInts.fromElem, Model.SmallInts.fromElem, e0, ez, e1, hp, Rs.unwrap_some, decide_true, if_true,
      ite_true, Res.ok_bind, Res.pure_eq_ok, ltI, cBS, cSB, cZ, Bool.not_true, Bool.not_false, Bool.false_eq_true, not_false_eq_true]
  · simp only [Gen.SrcSmallInts.fromElem, Model.SmallInts.fromElem, e0, ez, hp, Rs.unwrap_some, decide_false, if_false,
      ite_false, Res.ok_bind, Res.pure_eq_ok, ltI, cBS, cSB, cZ, Bool.not_true, Bool.not_false, Bool.false_eq_true, not_false_eq_true, Bool.false_eq_true]

/-- `from_elem(S::max_value(), n)` (positive maximum) is refused by the assertion -/
theorem fromElem_max_panics (lo hi : Int) (h0 : lo ≤ 0 ∧ 0 < hi) (sS sB : Nat) (hsz : sS < sB) (n : Nat) :
    Gen.SrcSmallInts.fromElem (cBS lo hi) cSB (cZ lo hi) ltI hi sS sB hi n = Res.panic := by
  have e0 : Rs.assert (decide (sS < sB)) = Res.ok () := Rs.assert_ok (by simp [hsz])
  have ez : Model.SmallInts.cast lo hi ((0 : Nat) : Int) = some 0 := by
    have : (0 : Int) ≤ hi := by omega
    simp [Model.SmallInts.cast, h0.1, this]
  have e1 : Rs.assert (decide (hi < hi)) = Res.panic := by simp [Rs.assert]
  simp only [Gen.SrcSmallInts.fromElem, e0, ez, e1, h0.2, Rs.unwrap_some, decide_true, if_true, ite_true, Res.ok_bind,
    Res.panic_bind, ltI, cBS, cSB, cZ]

/-- `SmallInts::len`, as written -/
theorem len_eq_model (lo hi : Int) (sS sB : Nat) (s : St) :
    Gen.SrcSmallInts.len (cBS lo hi) cSB (cZ lo hi) ltI hi sS sB s.small s.big = Res.ok s.small.length := by
  simp only [Gen.SrcSmallInts.len, Res.pure_eq_ok, ltI, cBS, cSB, cZ, Bool.not_true, Bool.not_false, Bool.false_eq_true, not_false_eq_true]

/-! ### whole histories executed with the translated operations -/
open RbV.Spec.SmallInts (Op specStep specFromElem)
open RbV.Lemmas.SmallInts (Abs abs_step abs_new abs_fromElem)

/-- one operation of a history executed with the **translated** functions on the fields `(smallints, bigints)` -/
def srcStep (lo hi : Int) (sS sB : Nat) (st : List Int × List (Nat × Int)) : Op → Res (List Int × List (Nat × Int))
  | .push v => Gen.SrcSmallInts.push (cBS lo hi) cSB (cZ lo hi) ltI hi sS sB st.1 st.2 v
  | .set i v => Gen.SrcSmallInts.set (cBS lo hi) cSB (cZ lo hi) ltI hi sS sB st.1 st.2 i v
  | .get i => do
      let _ ← Gen.SrcSmallInts.get (cBS lo hi) cSB (cZ lo hi) ltI hi sS sB st.1 st.2 i
      pure st
  | .iter => pure st
  | .decompress => pure st

/-- every `set` of the history addresses an existing element (beyond the end `self.smallints[i] = …` panics) -/
def OpsOk : List Int → List Op → Prop
  | _, [] => True
  | l, op :: ops => (match op with | .set i _ => i < l.length | _ => True) ∧ OpsOk (specStep l op) ops

theorem srcStep_eq_model (lo hi : Int) (sS sB : Nat) (s : St) (l : List Int) (h : Abs hi s l) (op : Op)
    (hset : match op with | .set i _ => i < l.length | _ => True) :
    srcStep lo hi sS sB (s.small, s.big) op
      = Res.ok ((Model.SmallInts.step lo hi s op).small, (Model.SmallInts.step lo hi s op).big) := by
  cases op with
  | push v => simpa only [srcStep, Model.SmallInts.step] using push_eq_model lo hi sS sB s v
  | set i v =>
    simp only at hset
    simpa only [srcStep, Model.SmallInts.step] using set_eq_model lo hi sS sB s i v (by rw [h.1]; exact hset)
  | get i => simp only [srcStep, Model.SmallInts.step, get_eq_model lo hi sS sB s i, Res.ok_bind, Res.pure_eq_ok]
  | iter => simp only [srcStep, Model.SmallInts.step, Res.pure_eq_ok]
  | decompress => simp only [srcStep, Model.SmallInts.step, Res.pure_eq_ok]

/-- a whole history run through the translated operations reaches exactly the model's state -/
theorem run_eq_model (lo hi : Int) (sS sB : Nat) (ops : List Op) : ∀ (s : St) (l : List Int), Abs hi s l → OpsOk l ops →
    ops.foldlM (srcStep lo hi sS sB) (s.small, s.big)
      = Res.ok ((ops.foldl (Model.SmallInts.step lo hi) s).small, (ops.foldl (Model.SmallInts.step lo hi) s).big) := by
  induction ops with
  | nil => intro s l _ _; rfl
  | cons op ops ih =>
    intro s l h hok
    rw [List.foldlM_cons, srcStep_eq_model lo hi sS sB s l h op hok.1]
    exact ih _ _ (abs_step lo hi s l op h) hok.2

end RbV.Thm.GenSrcSmallInts
