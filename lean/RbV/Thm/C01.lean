import RbV.Spec.Align
import RbV.Ref.Gotoh
import RbV.Basic.AlignCodec
import RbV.Lemmas.AlignRev
import RbV.Model.PairwiseCustom
import RbV.Model.PairwiseFill
import RbV.Lemmas.FillFinal
import RbV.Lemmas.FillAccept
import RbV.Model.PairwiseFillI32
import RbV.Lemmas.FillI32
import RbV.Thm.GenLimits
import RbV.Thm.GenTbCodes
import RbV.Thm.GenSrcPwTypes
import RbV.Thm.GenSrcPwModes
import RbV.Thm.GenSrcPwCustom
import RbV.Thm.GenSrcPwKeeps
import RbV.Thm.GenSrcPwColumn
import RbV.Thm.GenSrcPwColStep
import RbV.Thm.GenSrcPwColGlue
/-!
# C01 — pairwise alignment is optimal and its reported path achieves the reported score

Property theorems only (definitions: `RbV/Spec/Align.lean`; reference and lemmas: `RbV/Ref/Gotoh.lean`).
All statements hold for every pair of sequences (including empty ones), every substitution function
`w : Nat → Nat → Int`, all integer gap penalties (in particular all `go, ge ≤ 0`) and all clip penalties
(`MIN_SCORE` is just an integer: `Align.minScore` is *defined* as the constant extracted from the source text of
`pairwise/mod.rs` on every run, `RbV/Gen/Limits.lean`; −858 993 459 in the pinned tree.  No statement about
`score`/`opt`/`accept` depends on its value; what the value itself must satisfy is the last section.)
-/
namespace RbV.Thm.C01
open RbV.Align

/-- **Base theorem.** The acceptance function run by the driver on every reported alignment is true exactly
when the property's three clauses hold of it: the operations and coordinates describe a real alignment of
exactly the reported sub-ranges (with the clip representation rule of DESIGN §4), the independently
recomputed score (affine gaps + clip penalty of every non-empty clipped end) equals the reported score, and
the reported score is the optimum over *all* alignments of *all* sub-range pairs. -/
theorem C01_accept_iff (sc : Sc) (cl : Clip) (filtered : Bool) (x y : List Nat) (o : Out) :
    accept sc cl filtered x y o = true ↔
      (IsAln x y o.toAln ∧ ClipRule filtered x y o ∧ AlnScore sc cl x y o.toAln o.score ∧
        Optimal sc cl x y o.score) :=
  accept_iff sc cl filtered x y o

/-- The reference value is the optimum of the documented model: some alignment attains it and no alignment of
any pair of sub-ranges exceeds it. -/
theorem opt_is_optimal (sc : Sc) (cl : Clip) (x y : List Nat) : Optimal sc cl x y (opt sc cl x y) :=
  opt_optimal sc cl x y

/-- The optimum is unique, so comparing the reported score with `opt` for equality is exactly the property. -/
theorem optimum_unique (sc : Sc) (cl : Clip) (x y : List Nat) (s t : Int)
    (hs : Optimal sc cl x y s) (ht : Optimal sc cl x y t) : s = t :=
  Optimal_unique hs ht

/-- No operation list aligning exactly `x` with `y` scores above `best` … -/
theorem best_is_upper_bound (sc : Sc) (st : St) (x y : List Nat) (ops : List Op) (v : Int)
    (h : score sc st x y ops = some v) : v ≤ best sc st x y :=
  best_upper sc ops st x y v h

/-- … and one attains it. -/
theorem best_is_attained (sc : Sc) (st : St) (x y : List Nat) :
    ∃ ops, score sc st x y ops = some (best sc st x y) :=
  best_attained sc st x y

/-- `table_eq_best`: the efficient table evaluated by the driver holds exactly the values of the recursive
optimum, for every suffix of `x` and every suffix of `y`. -/
theorem table_eq_best (sc : Sc) (x y : List Nat) : rows sc x y = specRows sc x y :=
  rows_eq_spec sc x y

/-- Validity does not depend on the scoring scheme: an operation list has a score iff it is valid. -/
theorem valid_iff_has_score (sc : Sc) (st : St) (x y : List Nat) (ops : List Op) :
    valid x y ops = true ↔ ∃ v, score sc st x y ops = some v :=
  valid_iff_score sc st x y ops

def scU' : Sc := ⟨fun a b => if a = b then 1 else -1, -5, -1⟩

/-! ### [C] Mirror model of `Aligner::custom` (`RbV/Model/PairwiseCustom.lean`)

The model follows the Rust code statement by statement (rolling columns, `Lx/Ly/Sn`, traceback cells, post-loops,
traceback state machine) and is *run* by the driver on every call: in the quick and thorough tiers it reproduces the
implementation's whole `Alignment` value (score, coordinates, operations, tie-breaks included) on every call
(tag `model=impl`; a difference would be tag `drift-*`, never a violation).

Full refinement statement (NOT proved; kept here so that it stays visible):

    theorem custom_score_eq_opt (sc : Sc) (cl : Clip) (x y : List Nat)
        (hgo : sc.go ≤ 0) (hge : sc.ge ≤ 0) (hcl : cl.xp ≤ 0 ∧ cl.xs ≤ 0 ∧ cl.yp ≤ 0 ∧ cl.ys ≤ 0)
        (hsane : Sane sc cl x y)      -- |scores| ≤ 2¹⁰, lengths ≤ 64, clips ∈ {MIN_SCORE} ∪ [−2¹⁰, 0]: MIN_SCORE acts as −∞
        : ∃ o, Model.Pairwise.custom sc cl x y = some o ∧ accept sc cl false x y o = true

Plan: (1) the forward (prefix) reading of the affine score equals the backward (suffix) reading used by `best` —
proved below as `custom_score_eq_opt_partial` / `best_prefix_suffix_symmetry`; (2) invariant of `fill`: after column
j, `S[j%2][i]`, `I[j%2][i]`, `D[j%2][i]` are the optima over alignments of sub-ranges ending at (i, j) in the
respective layer, with prefix clips charged, and `Sn[i]`, `S[·][m]` the best suffix-clipped continuations; (3) the
traceback follows cells whose recorded predecessor attains the cell's value, so the emitted operations recompute to
`score`.  Steps (2) and (3) are proved for the functional mirror `Model/PairwiseFill.lean` (`fill_score_eq_opt`,
`custom_model_accepted`, next section). -/

/-- **Proved fragment (step 1 of `custom_score_eq_opt`)**: the score of an operation list is invariant under
reversing both sequences and the list — a run of k insertions/deletions costs `go + k·ge` from either end — so the
prefix-indexed matrix of the code and the suffix-recursive specification talk about the same quantity. -/
theorem custom_score_eq_opt_partial (sc : Sc) (ops : List Op) (x y : List Nat) (v : Int)
    (h : score sc .none x y ops = some v) : score sc .none x.reverse y.reverse ops.reverse = some v :=
  score_reverse sc ops x y v h

/-- consequence: the optimum of the reversed problem equals the optimum of the original one -/
theorem best_prefix_suffix_symmetry (sc : Sc) (x y : List Nat) :
    best sc .none x.reverse y.reverse = best sc .none x y :=
  best_reverse sc x y

/-- scores compose along a split of both sequences (the step that lets a column-by-column DP extend alignments) -/
theorem score_splits (sc : Sc) (ops1 : List Op) (st : St) (x1 y1 : List Nat) (v1 : Int)
    (h : score sc st x1 y1 ops1 = some v1) (x2 y2 : List Nat) (ops2 : List Op) :
    score sc st (x1 ++ x2) (y1 ++ y2) (ops1 ++ ops2) = (score sc (lastSt st ops1) x2 y2 ops2).map (· + v1) :=
  score_append sc ops1 st x1 y1 v1 h x2 y2 ops2

/-! ### [C] The matrix fill of `Aligner::custom` computes the optimum (`RbV/Model/PairwiseFill.lean`)

`Model.PairwiseFill.fill` is a *functional* mirror of the fill of `Aligner::custom` (column 0, one column step per symbol
of `y` with the `i = 0` block, the rolling `S/I/D` columns, the x-suffix-clip register `S[curr][m]`, `Sn`, the `j = n`
handling, the two loops over the last column), statement by statement, same comparisons and strictness.  The driver
evaluates it on every call next to the implementation (tags `fill-model=impl` / `drift-fill-score`, and
`fill-model=imp-model` against the imperative model) and evaluates the hypotheses below (`fill-thm-hyp`).

Step (2) of the plan above is the theorem `fill_score_eq_opt`: for **all** sequences, substitution functions, gap and
clip penalties `≤ 0` (`MIN_SCORE` or anything else) inside the `Sane` envelope, the score left in `S[n % 2][m]` is the
optimum of the documented model.  No size bound; proof by the column invariant (induction over `j`, inside a column over
`i`), split into
* soundness (`RbV/Lemmas/FillWit.lean`, `FillSound.lean`): every cell is *junk* (`≤ MIN_SCORE + (i+j)·W`) or
  *witnessed* by a real alignment of sub-ranges ending at the cell — or, in the last row / column, before it with the
  suffix clip charged —, whose value (prefix clips and charged suffix clips included) is at least the cell
  (`≥`, not `=`: a path through a clip re-opens a gap that the alignment merely extends, and the code charges a
  zero-length y-suffix clip in column `n`);
* completeness (`FillComplete.lean`, `FillFinal.lean`): every cell dominates every alignment ending there, `Sn[i]`
  every y-suffix-clipped one, and the first post-loop makes `S[n%2][m]` dominate all of them (as recorded for the
  equivalent mutants m2/m12, neither the second post-loop, nor the x-suffix register of the inner columns, nor the
  "delete y[0..j]" half of `xclip_score`, nor `yclip_score` are needed for this direction);
* `Sane`: junk cannot be the final score, because the score dominates the all-gaps global alignment.
Step (3), the traceback, is `custom_model_accepted` below.  What stays open: the equality of the functional with the
imperative model and with the implementation (sampled by the driver on every call, not proved), and `i32`. -/

/-- **The DP of `Aligner::custom` computes the optimum.**  `W` is any bound on the substitution scores that occur;
`Sane` makes `MIN_SCORE` act as minus infinity (`MIN_SCORE + (m+n)·W < 2·gap_open + (m+n)·gap_extend`). -/
theorem fill_score_eq_opt (sc : Sc) (cl : Clip) (x y : List Nat) (W : Int)
    (hgo : sc.go ≤ 0) (hge : sc.ge ≤ 0) (hcl : cl.xp ≤ 0 ∧ cl.xs ≤ 0 ∧ cl.yp ≤ 0 ∧ cl.ys ≤ 0)
    (hsane : Model.PairwiseFill.Sane sc x y W) :
    (Model.PairwiseFill.fill sc cl x y).score = opt sc cl x y := by
  obtain ⟨hW, hw, hs⟩ := hsane
  refine Model.PairwiseFill.fill_score_eq_opt_aux
    ⟨hgo, hge, hcl.1, hcl.2.1, hcl.2.2.1, hcl.2.2.2, hW, fun i j hi hj => hw _ ?_ _ ?_⟩ hs
  · rw [List.getD_eq_getElem?_getD, List.getElem?_eq_getElem hi]; exact List.getElem_mem hi
  · rw [List.getD_eq_getElem?_getD, List.getElem?_eq_getElem hj]; exact List.getElem_mem hj

/-- … hence it is `Optimal`: attained by an alignment of a sub-range pair, exceeded by none -/
theorem fill_score_optimal (sc : Sc) (cl : Clip) (x y : List Nat) (W : Int)
    (hgo : sc.go ≤ 0) (hge : sc.ge ≤ 0) (hcl : cl.xp ≤ 0 ∧ cl.xs ≤ 0 ∧ cl.yp ≤ 0 ∧ cl.ys ≤ 0)
    (hsane : Model.PairwiseFill.Sane sc x y W) :
    Optimal sc cl x y (Model.PairwiseFill.fill sc cl x y).score := by
  rw [fill_score_eq_opt sc cl x y W hgo hge hcl hsane]; exact opt_optimal sc cl x y

/-- the three standard modes are `custom` with `MIN_SCORE` / 0 clip penalties: global … -/
theorem fill_score_eq_opt_global (sc : Sc) (x y : List Nat) (W : Int) (hgo : sc.go ≤ 0) (hge : sc.ge ≤ 0)
    (hsane : Model.PairwiseFill.Sane sc x y W) :
    (Model.PairwiseFill.fill sc ⟨minScore, minScore, minScore, minScore⟩ x y).score =
      opt sc ⟨minScore, minScore, minScore, minScore⟩ x y := by
  have h : minScore < 0 := GenLimits.min_score_range.2
  exact fill_score_eq_opt sc _ x y W hgo hge ⟨by dsimp only; omega, by dsimp only; omega, by dsimp only; omega, by dsimp only; omega⟩ hsane

/-- … semiglobal (x global, y local) … -/
theorem fill_score_eq_opt_semiglobal (sc : Sc) (x y : List Nat) (W : Int) (hgo : sc.go ≤ 0) (hge : sc.ge ≤ 0)
    (hsane : Model.PairwiseFill.Sane sc x y W) :
    (Model.PairwiseFill.fill sc ⟨minScore, minScore, 0, 0⟩ x y).score = opt sc ⟨minScore, minScore, 0, 0⟩ x y := by
  have h : minScore < 0 := GenLimits.min_score_range.2
  exact fill_score_eq_opt sc _ x y W hgo hge ⟨by dsimp only; omega, by dsimp only; omega, by dsimp only; omega, by dsimp only; omega⟩ hsane

/-- … and local -/
theorem fill_score_eq_opt_local (sc : Sc) (x y : List Nat) (W : Int) (hgo : sc.go ≤ 0) (hge : sc.ge ≤ 0)
    (hsane : Model.PairwiseFill.Sane sc x y W) :
    (Model.PairwiseFill.fill sc ⟨0, 0, 0, 0⟩ x y).score = opt sc ⟨0, 0, 0, 0⟩ x y :=
  fill_score_eq_opt sc _ x y W hgo hge ⟨Int.le_refl 0, Int.le_refl 0, Int.le_refl 0, Int.le_refl 0⟩ hsane

/-- completeness half, without `Sane` (here `MIN_SCORE` may be any integer): the fill never misses an alignment -/
theorem fill_score_ge_every_alignment (sc : Sc) (cl : Clip) (x y : List Nat) (hge : sc.ge ≤ 0) (hxs : cl.xs ≤ 0)
    (a : Aln) (v : Int) (ha : IsAln x y a) (hv : AlnScore sc cl x y a v) :
    v ≤ (Model.PairwiseFill.fill sc cl x y).score := by
  obtain ⟨h1, h2, h3, h4, _⟩ := ha
  obtain ⟨c, hc, rfl⟩ := hv
  exact Model.PairwiseFill.score_complete hge hxs a.xs a.xe a.ys a.ye a.ops c h1 h2 h3 h4 hc

/-! #### The traceback: the whole function is accepted

`Model.PairwiseFill.custom` adds to the fill the traceback cells (S/I/D fields written under the conditions of the Rust
text), `Lx`, `Ly`, the rewriting of the last column by the two post-loops, and the traceback `loop` (with fuel
`2(m+n)+16`).  The driver compares its whole `Alignment` with the implementation's on every call (`fill-path=impl` /
`drift-fill-path`).  `custom_model_accepted` is the full statement `custom_score_eq_opt` of the plan above, for this
functional mirror: the loop terminates inside its fuel, and the reported alignment passes `accept` — by
`C01_accept_iff`: it is a real alignment of the reported sub-ranges, obeys the clip representation rule, its recomputed
score (clip penalties included) **equals** the reported score, and the reported score is optimal.

Proof (`RbV/Lemmas/FillWitAt.lean` … `FillAccept.lean`): `Good T i j c v` — started at `(i, j)` with `last_layer = c`
the loop stops after `≤ i + j` iterations and what it pushed is an alignment of value `≥ v`, with the four coordinate
registers and the clip lengths right; one lemma per arm of the `match`; the fill writes, next to every value, a code
that is good for it (columns `j < n`: induction over `j`, `i`; column `n`: the rows through both post-loops, then the
registers `S[curr][m]` / S field of `traceback[m][n]` / `Lx[n]`).  The path's value is `≥` the reported score and
`≤` the optimum, which the score equals by `fill_score_eq_opt` — hence equality.  That no cell holds junk (so that no
code is the untouched default and no gap is "extended" out of a sentinel) is `RbV/Lemmas/FillLower.lean`. -/

/-- **The functional mirror of the whole of `Aligner::custom` is accepted** (same hypotheses as `fill_score_eq_opt`) -/
theorem custom_model_accepted (sc : Sc) (cl : Clip) (x y : List Nat) (W : Int)
    (hgo : sc.go ≤ 0) (hge : sc.ge ≤ 0) (hcl : cl.xp ≤ 0 ∧ cl.xs ≤ 0 ∧ cl.yp ≤ 0 ∧ cl.ys ≤ 0)
    (hsane : Model.PairwiseFill.Sane sc x y W) :
    ∃ o, Model.PairwiseFill.custom sc cl x y = some o ∧ accept sc cl false x y o = true := by
  obtain ⟨hW, hw, hs⟩ := hsane
  refine Model.PairwiseFill.custom_accept_aux
    ⟨hgo, hge, hcl.1, hcl.2.1, hcl.2.2.1, hcl.2.2.2, hW, fun i j hi hj => hw _ ?_ _ ?_⟩ hs
  · rw [List.getD_eq_getElem?_getD, List.getElem?_eq_getElem hi]; exact List.getElem_mem hi
  · rw [List.getD_eq_getElem?_getD, List.getElem?_eq_getElem hj]; exact List.getElem_mem hj

/-- spelled out with `C01_accept_iff`: the model's output has the three properties of C01 -/
theorem custom_model_correct (sc : Sc) (cl : Clip) (x y : List Nat) (W : Int)
    (hgo : sc.go ≤ 0) (hge : sc.ge ≤ 0) (hcl : cl.xp ≤ 0 ∧ cl.xs ≤ 0 ∧ cl.yp ≤ 0 ∧ cl.ys ≤ 0)
    (hsane : Model.PairwiseFill.Sane sc x y W) :
    ∃ o, Model.PairwiseFill.custom sc cl x y = some o ∧ IsAln x y o.toAln ∧ ClipRule false x y o ∧
      AlnScore sc cl x y o.toAln o.score ∧ Optimal sc cl x y o.score := by
  obtain ⟨o, ho, ha⟩ := custom_model_accepted sc cl x y W hgo hge hcl hsane
  exact ⟨o, ho, (C01_accept_iff sc cl false x y o).mp ha⟩

-- non-vacuity: the model's whole output on the module-doc call, and the theorem instantiated on it
example : Model.PairwiseFill.custom scU' ⟨-1, -2, minScore, minScore⟩ [0, 1, 1, 0] [1, 1] =
    some ⟨-1, 1, 3, 0, 2, 4, 2, [.xclip 1, .core .mat, .core .mat, .xclip 1]⟩ := by decide +kernel
example : ∃ o, Model.PairwiseFill.custom scU' ⟨-1, -2, minScore, minScore⟩ [0, 1, 1, 0] [1, 1] = some o ∧
    accept scU' ⟨-1, -2, minScore, minScore⟩ false [0, 1, 1, 0] [1, 1] o = true :=
  custom_model_accepted scU' ⟨-1, -2, minScore, minScore⟩ [0, 1, 1, 0] [1, 1] 1 (by decide) (by decide) (by decide)
    (by decide)

-- non-vacuity: the hypotheses hold (`decide`) for the module-doc style call (x prefix clip −1, x suffix clip −2, y clips
-- `MIN_SCORE`), W = 1, and the theorem then gives the concrete equation; the value is −1
example : (Model.PairwiseFill.fill scU' ⟨-1, -2, minScore, minScore⟩ [0, 1, 1, 0] [1, 1]).score =
    opt scU' ⟨-1, -2, minScore, minScore⟩ [0, 1, 1, 0] [1, 1] :=
  fill_score_eq_opt scU' ⟨-1, -2, minScore, minScore⟩ [0, 1, 1, 0] [1, 1] 1 (by decide) (by decide) (by decide) (by decide)
example : (Model.PairwiseFill.fill scU' ⟨-1, -2, minScore, minScore⟩ [0, 1, 1, 0] [1, 1]).score = -1 := by decide +kernel
example : Model.PairwiseFill.thmHyp scU' ⟨minScore, minScore, minScore, minScore⟩ [0, 1, 0] [0, 0] = true := by decide +kernel
example : (Model.PairwiseFill.fill scU' ⟨minScore, minScore, minScore, minScore⟩ [0, 1, 0] [0, 0]).score = -4 := by
  decide +kernel
-- `Sane` is a real restriction: sequences so long that the worst global alignment falls below `MIN_SCORE` are outside
example : ¬ Model.PairwiseFill.Sane ⟨fun _ _ => 0, minScore, 0⟩ [0] [0] 0 := by decide +kernel

/-! ### `i32`: the fixed-width arithmetic of `Aligner::custom` (`RbV/Model/PairwiseFillI32.lean`)

The Rust code computes every score in `i32`; the harness is built with `overflow-checks`, so an overflow is a panic.
`Model.PairwiseFill.fillC` / `customC` are the mirror with **every `+` and `*` of the Rust text checked** (`I32.add`,
`I32.mul`: `none` outside `[−2³¹, 2³¹)`; `i as i32` = truncating cast), in the order and association of the text.

* `custom_i32_no_overflow`: inside the parametric envelope `I32Env sc cl x y B` — `B ≥ 1` bounds `|w|` on the symbol pairs
  that occur and `|gap_open|`, `|gap_extend|`; gap and clip penalties `≤ 0`; clip penalties `≥ MIN_SCORE` (anything in
  between); `(max(m, n) + 1)·B ≤ 2³¹ + MIN_SCORE` (exact) — **no checked operation fails and the checked mirror returns exactly
  what the unbounded mirror returns**.  Proof (`Lemmas/FillI32Step.lean`, `FillI32.lean`): every `S`, `Sn`, `S[curr][m]`
  of row `i` lies in `[MIN_SCORE, i·B]`, every `I`, `D` in `[MIN_SCORE − 2B, i·B]` (induction over columns and rows), so
  every intermediate sum lies in `[2·MIN_SCORE, (i+1)·B]` or above `MIN_SCORE − (max(m,n) + 1)·B`; `2·MIN_SCORE ≥ −2³¹`
  is the promise of the constant's doc comment (`two_min_scores_no_i32_overflow`).
* with `Sane` in addition, the `i32` computation is optimal and accepted (`fill_i32_score_eq_opt`, `custom_i32_accepted`);
* one parametric envelope implies both: `AlignEnv sc cl x y B` — the same bounds with `2·(m + n + 1)·B < −MIN_SCORE`
  (`alignEnv_i32Env`, `alignEnv_sane`, `custom_i32_correct`).  The former fixed envelope (|scores| ≤ 1024, lengths ≤ 64)
  is an instance (`fixed_envelope_is_instance`); harness and generator now use `AlignEnv` itself.
* outside: `decide`d examples below — an overflow (`Outcome.overflow`), and the limit of "`MIN_SCORE` = −∞": a *legitimate*
  optimum below `MIN_SCORE` is not found (the traceback does not even terminate: `Outcome.noTermination`). -/

/-- **No `i32` overflow inside the envelope; the checked mirror is the unbounded mirror.** -/
theorem custom_i32_no_overflow (sc : Sc) (cl : Clip) (x y : List Nat) (B : Int)
    (henv : Model.PairwiseFill.I32Env sc cl x y B) :
    Model.PairwiseFill.fillC sc cl x y = some (Model.PairwiseFill.fill sc cl x y) ∧
      Model.PairwiseFill.customC sc cl x y =
        (match Model.PairwiseFill.custom sc cl x y with
         | none => .noTermination
         | some o => .done o) :=
  ⟨Model.PairwiseFill.fillC_eq henv, Model.PairwiseFill.customC_eq henv⟩

/-- the score the `i32` fill leaves in `S[n % 2][m]` is the optimum (`I32Env` for the arithmetic, `Sane` for the sentinel) -/
theorem fill_i32_score_eq_opt (sc : Sc) (cl : Clip) (x y : List Nat) (B W : Int)
    (henv : Model.PairwiseFill.I32Env sc cl x y B) (hsane : Model.PairwiseFill.Sane sc x y W) :
    ∃ f, Model.PairwiseFill.fillC sc cl x y = some f ∧ f.score = opt sc cl x y :=
  ⟨_, Model.PairwiseFill.fillC_eq henv,
    fill_score_eq_opt sc cl x y W henv.go.2 henv.ge.2 ⟨henv.xp.2, henv.xs.2, henv.yp.2, henv.ys.2⟩ hsane⟩

/-- **the whole of `Aligner::custom`, computed in `i32`, is accepted**: no overflow, the traceback terminates, the
reported alignment passes `accept` -/
theorem custom_i32_accepted (sc : Sc) (cl : Clip) (x y : List Nat) (B W : Int)
    (henv : Model.PairwiseFill.I32Env sc cl x y B) (hsane : Model.PairwiseFill.Sane sc x y W) :
    ∃ o, Model.PairwiseFill.customC sc cl x y = .done o ∧ accept sc cl false x y o = true := by
  obtain ⟨o, ho, ha⟩ := custom_model_accepted sc cl x y W henv.go.2 henv.ge.2
    ⟨henv.xp.2, henv.xs.2, henv.yp.2, henv.ys.2⟩ hsane
  refine ⟨o, ?_, ha⟩
  rw [Model.PairwiseFill.customC_eq henv, ho]

/-- the parametric envelope implies the no-overflow envelope … -/
theorem alignEnv_i32Env (sc : Sc) (cl : Clip) (x y : List Nat) (B : Int)
    (h : Model.PairwiseFill.AlignEnv sc cl x y B) : Model.PairwiseFill.I32Env sc cl x y B := by
  obtain ⟨hB, h1, h2, h3, h4, h5, h6, h7, h8, hr⟩ := h
  refine ⟨hB, h1, h2, h3, h4, h5, h6, h7, h8, ?_⟩
  have hms := Model.PairwiseFill.minScore_i32
  have hle : (((max x.length y.length : Nat) : Int) + 1) * B ≤ 2 * (((x.length : Int) + y.length + 1) * B) := by
    have e : 2 * (((x.length : Int) + y.length + 1) * B) = (2 * ((x.length : Int) + y.length + 1)) * B := by
      rw [Int.mul_assoc]
    rw [e]
    exact Int.mul_le_mul_of_nonneg_right (by omega) (by omega)
  omega

/-- … and `Sane` with `W = B` -/
theorem alignEnv_sane (sc : Sc) (cl : Clip) (x y : List Nat) (B : Int)
    (h : Model.PairwiseFill.AlignEnv sc cl x y B) : Model.PairwiseFill.Sane sc x y B := by
  obtain ⟨hB, h1, h2, h3, h4, h5, h6, h7, h8, hr⟩ := h
  refine ⟨by omega, h2, ?_⟩
  have h9 : -B * ((x.length : Int) + y.length) ≤ sc.ge * ((x.length : Int) + y.length) :=
    Int.mul_le_mul_of_nonneg_right h4.1 (by omega)
  have e1 : -B * ((x.length : Int) + y.length) = -(((x.length : Int) + y.length) * B) := by
    rw [Int.neg_mul, Int.mul_comm]
  have e2 : ((x.length : Int) + y.length + 1) * B = ((x.length : Int) + y.length) * B + B := by
    rw [Int.add_mul, Int.one_mul]
  omega

/-- **C01 for the `i32` computation, one envelope**: for all sequences, substitution functions, gap and clip penalties
with `AlignEnv sc cl x y B` for some `B`, the checked-`i32` mirror of `Aligner::custom` does not overflow, terminates, and
reports a real alignment of the reported sub-ranges that obeys the clip rule, whose recomputed score equals the
reported score, which is optimal. -/
theorem custom_i32_correct (sc : Sc) (cl : Clip) (x y : List Nat) (B : Int)
    (h : Model.PairwiseFill.AlignEnv sc cl x y B) :
    ∃ o, Model.PairwiseFill.customC sc cl x y = .done o ∧ IsAln x y o.toAln ∧ ClipRule false x y o ∧
      AlnScore sc cl x y o.toAln o.score ∧ Optimal sc cl x y o.score := by
  obtain ⟨o, ho, ha⟩ := custom_i32_accepted sc cl x y B B (alignEnv_i32Env sc cl x y B h) (alignEnv_sane sc cl x y B h)
  exact ⟨o, ho, (C01_accept_iff sc cl false x y o).mp ha⟩

/-- the fixed envelope of sessions 1–3 (|substitution scores|, |gap penalties| ≤ 1024, clip penalties in
`{MIN_SCORE} ∪ [−1024, 0]`, lengths ≤ 64) is an instance of `AlignEnv` with `B = 1024` -/
theorem fixed_envelope_is_instance (sc : Sc) (cl : Clip) (x y : List Nat)
    (hw : ∀ a ∈ x, ∀ b ∈ y, -1024 ≤ sc.w a b ∧ sc.w a b ≤ 1024)
    (hgo : -1024 ≤ sc.go ∧ sc.go ≤ 0) (hge : -1024 ≤ sc.ge ∧ sc.ge ≤ 0)
    (hxp : cl.xp = minScore ∨ (-1024 ≤ cl.xp ∧ cl.xp ≤ 0)) (hxs : cl.xs = minScore ∨ (-1024 ≤ cl.xs ∧ cl.xs ≤ 0))
    (hyp : cl.yp = minScore ∨ (-1024 ≤ cl.yp ∧ cl.yp ≤ 0)) (hys : cl.ys = minScore ∨ (-1024 ≤ cl.ys ∧ cl.ys ≤ 0))
    (hm : x.length ≤ 64) (hn : y.length ≤ 64) : Model.PairwiseFill.AlignEnv sc cl x y 1024 := by
  have hms := Model.PairwiseFill.minScore_i32
  have hlo : minScore ≤ -1024 ∧ 2 * ((64 + 64 + 1) * 1024) < -minScore := by decide
  refine ⟨by omega, fun a ha b hb => (hw a ha b hb).1, fun a ha b hb => (hw a ha b hb).2, hgo, hge,
    by omega, by omega, by omega, by omega, by omega⟩

-- non-vacuity: a call with scores of magnitude 5·10⁷ (clips −1 / −2 / `MIN_SCORE`) lies in the envelope; the theorem
-- applies; the `i32` mirror's whole output; an envelope-edge instance of `I32Env` alone (B = 2·10⁸, lengths 4 and 2)
def scBig : Sc := ⟨fun a b => if a = b then 50000000 else -50000000, -50000000, -30000000⟩
example : Model.PairwiseFill.AlignEnv scBig ⟨-1, -2, minScore, minScore⟩ [0, 1, 1, 0] [1, 1] 50000000 := by decide
example : ∃ o, Model.PairwiseFill.customC scBig ⟨-1, -2, minScore, minScore⟩ [0, 1, 1, 0] [1, 1] = .done o ∧
    Optimal scBig ⟨-1, -2, minScore, minScore⟩ [0, 1, 1, 0] [1, 1] o.score := by
  obtain ⟨o, h1, _, _, _, h2⟩ := custom_i32_correct scBig ⟨-1, -2, minScore, minScore⟩ [0, 1, 1, 0] [1, 1] 50000000 (by decide)
  exact ⟨o, h1, h2⟩
example : Model.PairwiseFill.customC scBig ⟨-1, -2, minScore, minScore⟩ [0, 1, 1, 0] [1, 1] =
    .done ⟨99999997, 1, 3, 0, 2, 4, 2, [.xclip 1, .core .mat, .core .mat, .xclip 1]⟩ := by decide +kernel
example : Model.PairwiseFill.I32Env ⟨fun a b => if a = b then 200000000 else -200000000, -200000000, -200000000⟩
    ⟨minScore, -7, minScore, 0⟩ [0, 1, 1, 0] [1, 1] 200000000 := by decide

-- outside the envelope, (a) overflow: two matches of 2·10⁹ each (m = n = 2) leave `i32`
example : Model.PairwiseFill.customC ⟨fun _ _ => 2000000000, -5, -1⟩ ⟨minScore, minScore, minScore, minScore⟩
    [0, 0] [0, 0] = .overflow := by decide +kernel
-- (b) the limit of "`MIN_SCORE` is minus infinity" (`Sane` fails, nothing overflows): global alignment of A with A,
-- match −9·10⁸, gap_open −5·10⁸.  The optimum of the documented model is −900 000 000 (one match; the only other
-- alignment, insert + delete, scores −10⁹) and lies below `MIN_SCORE`: the `i32` fill succeeds but reports the sentinel,
-- and the traceback finds the untouched default code `TB_XCLIP_SUFFIX` with `Lx = 0` and never stops
example : opt ⟨fun _ _ => -900000000, -500000000, 0⟩ ⟨minScore, minScore, minScore, minScore⟩ [0] [0] = -900000000 := by
  decide +kernel
example : (Model.PairwiseFill.fillC ⟨fun _ _ => -900000000, -500000000, 0⟩ ⟨minScore, minScore, minScore, minScore⟩
    [0] [0]).map (·.score) = some minScore := by decide +kernel
example : Model.PairwiseFill.customC ⟨fun _ _ => -900000000, -500000000, 0⟩ ⟨minScore, minScore, minScore, minScore⟩
    [0] [0] = .noTermination := by decide +kernel
example : ¬ Model.PairwiseFill.Sane ⟨fun _ _ => -900000000, -500000000, 0⟩ [0] [0] 0 := by decide +kernel

/-! ### Source-extracted obligations (DESIGN §8): `MIN_SCORE` and the traceback-cell constants of `pairwise/mod.rs`

`RbV/Gen/Limits.lean` and `RbV/Gen/TbCodes.lean` are regenerated from the source text of the tree under test on every
`./check C01` (tools/gen_tables.py) before `lake build`; the statements below are re-proved over whatever was
extracted (proofs: `RbV/Thm/GenLimits.lean`, `RbV/Thm/GenTbCodes.lean`, `RbV/Model/TbCell.lean`).  A renamed / retyped /
non-literal constant makes the extraction fail; a changed value either still satisfies them (the model follows) or one
of them fails — `docs/notes/GEN.md` has the table. -/

/-- the specification's `minScore` (clip penalty "minus infinity", used by the driver for the standard modes and by
the mirror model for `MIN`) **is** the constant extracted from `pub const MIN_SCORE: i32` of `pairwise/mod.rs` — no
literal copy; the driver's `const` case compares it with the run-time value of the compiled constant -/
theorem min_score_is_source_constant : minScore = RbV.Gen.Limits.minScorePairwise := rfl

/-- the promise of the constant's doc comment ("adding two of them does not overflow"): `2·MIN_SCORE ≥ −2³¹` -/
theorem two_min_scores_no_i32_overflow : -(2 ^ 31 : Int) ≤ minScore + minScore :=
  GenLimits.two_min_scores_no_i32_overflow.2.1

/-- the sentinel is a negative `i32` -/
theorem min_score_range : -(2 ^ 31 : Int) ≤ minScore ∧ minScore < 0 := GenLimits.min_score_range

/-- head-room: two sentinels plus any further penalty `p` with `−2³¹ − 2·MIN_SCORE ≤ p ≤ 0` stay inside `i32`
(what "reasonable scoring parameters" has to mean for `MIN_SCORE + MIN_SCORE + gap` in the recurrences) -/
theorem min_score_headroom (p : Int) (hp : -(2 ^ 31 : Int) - (minScore + minScore) ≤ p) (hp0 : p ≤ 0) :
    -(2 ^ 31 : Int) ≤ minScore + minScore + p ∧ minScore + minScore + p < 2 ^ 31 :=
  GenLimits.min_score_headroom p hp hp0

/-- the nine traceback move codes are pairwise distinct, pass the `assert!(value <= TB_MAX)` of `set_bits`, and
`TB_MAX` fits the 4-bit field -/
theorem tb_codes_wellformed :
    RbV.Gen.TbCodes.codes.Nodup ∧ (∀ c ∈ RbV.Gen.TbCodes.codes, c ≤ RbV.Gen.TbCodes.tbMax) ∧
      RbV.Gen.TbCodes.tbMax ≤ RbV.Gen.TbCodes.fieldMask ∧ RbV.Gen.TbCodes.fieldMask + 1 = 2 ^ 4 :=
  ⟨GenTbCodes.tb_codes_distinct, GenTbCodes.tb_codes_le_max.1, GenTbCodes.tb_max_fits_field.1,
    GenTbCodes.tb_max_fits_field.2.1⟩

/-- the I, D and S fields of a `TracebackCell` are disjoint 4-bit ranges inside the 16-bit cell -/
theorem tb_fields_disjoint :
    RbV.Gen.TbCodes.positions.Pairwise (fun a b => a + 4 ≤ b ∨ b + 4 ≤ a) ∧
      (∀ p ∈ RbV.Gen.TbCodes.positions, p + 4 ≤ RbV.Gen.TbCodes.cellBits) :=
  GenTbCodes.tb_fields_disjoint

/-- mirror model of `set_bits`/`get_bits` (`RbV/Model/TbCell.lean`) over the extracted mask and positions, for
**every** cell content: a field reads back what was written … -/
theorem tb_get_after_set (v value p : Nat) (hval : value ≤ RbV.Gen.TbCodes.tbMax) (hp : p ∈ RbV.Gen.TbCodes.positions) :
    RbV.TbCell.getBits (RbV.TbCell.setBits v p value) p = value :=
  GenTbCodes.tb_get_after_set v value p hval hp

/-- … writing one field leaves the other two untouched (the three matrices share one cell) … -/
theorem tb_set_preserves_other_fields (v value p q : Nat) (hval : value ≤ RbV.Gen.TbCodes.tbMax)
    (hp : p ∈ RbV.Gen.TbCodes.positions) (hq : q ∈ RbV.Gen.TbCodes.positions) (hpq : p ≠ q) :
    RbV.TbCell.getBits (RbV.TbCell.setBits v p value) q = RbV.TbCell.getBits v q :=
  GenTbCodes.tb_set_preserves_other_fields v value p q hval hp hq hpq

/-- … and the cell stays a `u16` -/
theorem tb_set_fits_cell (v value p : Nat) (hv : v < 2 ^ RbV.Gen.TbCodes.cellBits) (hval : value ≤ RbV.Gen.TbCodes.tbMax)
    (hp : p ∈ RbV.Gen.TbCodes.positions) : RbV.TbCell.setBits v p value < 2 ^ RbV.Gen.TbCodes.cellBits :=
  GenTbCodes.tb_set_fits_cell v value p hv hval hp

/-- `set_all(value)` (used for `TB_START` and the clip codes) makes all three matrices read `value` -/
theorem tb_set_all (v value : Nat) (hval : value ≤ RbV.Gen.TbCodes.tbMax) :
    RbV.TbCell.getBits (RbV.TbCell.setAll v value) RbV.Gen.TbCodes.iPos = value ∧
      RbV.TbCell.getBits (RbV.TbCell.setAll v value) RbV.Gen.TbCodes.dPos = value ∧
      RbV.TbCell.getBits (RbV.TbCell.setAll v value) RbV.Gen.TbCodes.sPos = value :=
  GenTbCodes.tb_set_all v value hval

-- non-vacuity (relative to the constants, so that a harmless change of value does not break them): the boundary
-- penalty satisfies the hypotheses of `min_score_headroom`; a cell with S = MATCH, D = DEL reads back field by field
example : -(2 ^ 31 : Int) - (minScore + minScore) ≤ -(2 ^ 31 : Int) - (minScore + minScore) ∧
    -(2 ^ 31 : Int) - (minScore + minScore) ≤ 0 := by decide
example : RbV.Gen.TbCodes.tbDel ≤ RbV.Gen.TbCodes.tbMax ∧ RbV.Gen.TbCodes.dPos ∈ RbV.Gen.TbCodes.positions ∧
    RbV.Gen.TbCodes.sPos ∈ RbV.Gen.TbCodes.positions ∧ RbV.Gen.TbCodes.dPos ≠ RbV.Gen.TbCodes.sPos := by decide
example : RbV.TbCell.getBits (RbV.TbCell.setBits (RbV.TbCell.setBits 0 RbV.Gen.TbCodes.sPos RbV.Gen.TbCodes.tbMatch)
    RbV.Gen.TbCodes.dPos RbV.Gen.TbCodes.tbDel) RbV.Gen.TbCodes.sPos = RbV.Gen.TbCodes.tbMatch := by decide

-- non-vacuity: M I I D on (ACC, AG) scores 1 − 7 − 6 = −12 forwards and backwards (D I I M on (CCA, GA))
example : score scU' .none [0, 1, 1] [0, 2] [.mat, .ins, .ins, .del] = some (-12) := by decide +kernel
example : score scU' .none [1, 1, 0] [2, 0] [.del, .ins, .ins, .mat] = some (-12) := by decide +kernel
-- the mirror model on a concrete call (module-doc style: x prefix clip −1, x suffix clip −2)
example : Model.Pairwise.custom scU' ⟨-1, -2, minScore, minScore⟩ [0, 1, 1, 0] [1, 1] =
    some ⟨-1, 1, 3, 0, 2, 4, 2, [.xclip 1, .core .mat, .core .mat, .xclip 1]⟩ := by decide +kernel

/-! ### Non-vacuity: concrete instances for each mode (unit scores: match 1, mismatch −1, go −5, ge −1) -/

def scU : Sc := ⟨fun a b => if a = b then 1 else -1, -5, -1⟩
def clGlobal : Clip := ⟨minScore, minScore, minScore, minScore⟩
def clSemi : Clip := ⟨minScore, minScore, 0, 0⟩
def clLocal : Clip := ⟨0, 0, 0, 0⟩

-- custom, asymmetric clips: x = ACCA, y = CC, x prefix clip −1, x suffix clip −2: Xclip(1) M M Xclip(1), score 2−1−2 = −1
example : accept scU ⟨-1, -2, minScore, minScore⟩ false [0, 1, 1, 0] [1, 1]
    ⟨-1, 1, 3, 0, 2, 4, 2, [.xclip 1, .core .mat, .core .mat, .xclip 1]⟩ = true := by decide +kernel
-- global: x = ACA, y = AA: M I M = 1 − 6 + 1
example : accept scU clGlobal false [0, 1, 0] [0, 0] ⟨-4, 0, 3, 0, 2, 3, 2, [.core .mat, .core .ins, .core .mat]⟩ = true := by
  decide +kernel
-- semiglobal: x = CC inside y = ACCA
example : accept scU clSemi true [1, 1] [0, 1, 1, 0] ⟨2, 0, 2, 1, 3, 2, 4, [.core .mat, .core .mat]⟩ = true := by decide +kernel
-- local: common core C of x = AC, y = CA   (score 1)
example : accept scU clLocal true [0, 1] [1, 0] ⟨1, 1, 2, 0, 1, 2, 2, [.core .mat]⟩ = true := by decide +kernel
-- a sub-optimal but valid report is refused (global, all-substitution path of score −2 … the optimum is 2)
example : accept scU clGlobal false [0, 0] [0, 0] ⟨2, 0, 2, 0, 2, 2, 2, [.core .mat, .core .mat]⟩ = true := by decide +kernel
example : accept scU clLocal true [0, 0] [0, 0] ⟨1, 0, 1, 0, 1, 2, 2, [.core .mat]⟩ = false := by decide +kernel
example : opt scU clGlobal [0, 1, 0] [0, 0] = -4 := by decide +kernel
example : Optimal scU clLocal [0, 1] [1, 0] 1 := by
  have := opt_is_optimal scU clLocal [0, 1] [1, 0]
  have h : opt scU clLocal [0, 1] [1, 0] = 1 := by decide +kernel
  rwa [h] at this

/-! ## Translated source text (builder genalign; `tools/rs2lean_genalign.py`, docs/notes/GEN.md "Dialect align")

`RbV/Gen/SrcPwTypes.lean`, `SrcPwModes.lean`, `SrcPwCustom.lean` are the *text* of `pairwise/mod.rs` translated to Lean on every
`./check C01`; the theorems below are about that text. -/

section SourceText
open RbV.Rs

/-- **`TracebackCell` (translated text) = `Model/TbCell.lean`**: for every cell content, every admissible value
(`≤ TB_MAX`, what the `assert!` of `set_bits` lets through) and every field position `≤ 12`: `set_bits`, `get_bits`, the
six field accessors and `set_all` compute the model's functions and never panic. -/
theorem traceback_cell_source_eq_model (c : RbV.Gen.SrcPwTypes.TracebackCell) (pos value : Nat) (hp : pos < 13)
    (hv : value ≤ RbV.Gen.TbCodes.tbMax) :
    RbV.Gen.SrcPwTypes.setBits c pos value = .ok ⟨RbV.TbCell.setBits c.v pos value⟩ ∧
    RbV.Gen.SrcPwTypes.getBits c pos = .ok (RbV.TbCell.getBits c.v pos) ∧
    RbV.Gen.SrcPwTypes.setIBits c value = .ok ⟨RbV.TbCell.setBits c.v RbV.Gen.TbCodes.iPos value⟩ ∧
    RbV.Gen.SrcPwTypes.setDBits c value = .ok ⟨RbV.TbCell.setBits c.v RbV.Gen.TbCodes.dPos value⟩ ∧
    RbV.Gen.SrcPwTypes.setSBits c value = .ok ⟨RbV.TbCell.setBits c.v RbV.Gen.TbCodes.sPos value⟩ ∧
    RbV.Gen.SrcPwTypes.getIBits c = .ok (RbV.TbCell.getBits c.v RbV.Gen.TbCodes.iPos) ∧
    RbV.Gen.SrcPwTypes.getDBits c = .ok (RbV.TbCell.getBits c.v RbV.Gen.TbCodes.dPos) ∧
    RbV.Gen.SrcPwTypes.getSBits c = .ok (RbV.TbCell.getBits c.v RbV.Gen.TbCodes.sPos) ∧
    RbV.Gen.SrcPwTypes.setAll c value = .ok ⟨RbV.TbCell.setAll c.v value⟩ ∧
    RbV.Gen.SrcPwTypes.cellNew = .ok ⟨0⟩ :=
  ⟨GenSrcPwTypes.setBits_eq_model c pos value hp hv, GenSrcPwTypes.getBits_eq_model c pos (by omega),
   GenSrcPwTypes.setIBits_eq_model c value hv, GenSrcPwTypes.setDBits_eq_model c value hv,
   GenSrcPwTypes.setSBits_eq_model c value hv, GenSrcPwTypes.getIBits_eq_model c, GenSrcPwTypes.getDBits_eq_model c,
   GenSrcPwTypes.getSBits_eq_model c, GenSrcPwTypes.setAll_eq_model c value hv, GenSrcPwTypes.cellNew_eq_model⟩

/-- `tb_get_after_set` / `tb_set_preserves_other_fields` / `tb_set_all` **for the translated text**: what a translated
setter wrote is what the translated getter of that field reads, the other two getters read what they read before, and
`set_all(value)` makes all three read `value`. -/
theorem traceback_cell_source_get_after_set (c c' : RbV.Gen.SrcPwTypes.TracebackCell) (value : Nat)
    (hv : value ≤ RbV.Gen.TbCodes.tbMax) :
    (RbV.Gen.SrcPwTypes.setIBits c value = .ok c' → RbV.Gen.SrcPwTypes.getIBits c' = .ok value ∧
      RbV.Gen.SrcPwTypes.getDBits c' = RbV.Gen.SrcPwTypes.getDBits c ∧ RbV.Gen.SrcPwTypes.getSBits c' = RbV.Gen.SrcPwTypes.getSBits c) ∧
    (RbV.Gen.SrcPwTypes.setDBits c value = .ok c' → RbV.Gen.SrcPwTypes.getDBits c' = .ok value ∧
      RbV.Gen.SrcPwTypes.getIBits c' = RbV.Gen.SrcPwTypes.getIBits c ∧ RbV.Gen.SrcPwTypes.getSBits c' = RbV.Gen.SrcPwTypes.getSBits c) ∧
    (RbV.Gen.SrcPwTypes.setSBits c value = .ok c' → RbV.Gen.SrcPwTypes.getSBits c' = .ok value ∧
      RbV.Gen.SrcPwTypes.getIBits c' = RbV.Gen.SrcPwTypes.getIBits c ∧ RbV.Gen.SrcPwTypes.getDBits c' = RbV.Gen.SrcPwTypes.getDBits c) ∧
    (RbV.Gen.SrcPwTypes.setAll c value = .ok c' → RbV.Gen.SrcPwTypes.getIBits c' = .ok value ∧
      RbV.Gen.SrcPwTypes.getDBits c' = .ok value ∧ RbV.Gen.SrcPwTypes.getSBits c' = .ok value) := by
  have a := GenSrcPwTypes.cell_get_after_set c c' value hv
  have b := GenSrcPwTypes.cell_set_other c c' value hv
  exact ⟨fun h => ⟨a.1 h, b.1 h⟩, fun h => ⟨a.2.1 h, b.2.1 h⟩, fun h => ⟨a.2.2 h, b.2.2 h⟩,
    GenSrcPwTypes.cell_set_all_reads c c' value hv⟩

/-- **`Traceback::init` (translated text) blanks and re-dimensions the matrix on every call**: `(m+1)·(n+1)` start cells
(all three fields `TB_START`), `rows = m+1`, stride `cols = n+1` — whatever the matrix held before: the result does not
mention the old state (history independence of the traceback matrix). -/
theorem traceback_init_source_blank (t : RbV.Gen.SrcPwTypes.Traceback) (m n : Nat) (h : (m + 1) * (n + 1) < 2 ^ 64) :
    RbV.Gen.SrcPwTypes.tbInit t m n =
      .ok ⟨m + 1, n + 1, List.replicate ((m + 1) * (n + 1)) GenSrcPwTypes.startCell⟩ ∧
    RbV.Gen.SrcPwTypes.getSBits GenSrcPwTypes.startCell = .ok RbV.Gen.TbCodes.tbStart ∧
    RbV.Gen.SrcPwTypes.getIBits GenSrcPwTypes.startCell = .ok RbV.Gen.TbCodes.tbStart ∧
    RbV.Gen.SrcPwTypes.getDBits GenSrcPwTypes.startCell = .ok RbV.Gen.TbCodes.tbStart := by
  have hs := GenSrcPwTypes.cell_set_all_reads ⟨0⟩ GenSrcPwTypes.startCell _ GenSrcPwTypes.tbStart_le_max
    (GenSrcPwTypes.setAll_eq_model ⟨0⟩ _ GenSrcPwTypes.tbStart_le_max)
  exact ⟨GenSrcPwTypes.tbInit_eq_model t m n h, hs.2.2, hs.1, hs.2.1⟩

/-- **`Traceback::{get, set, get_mut}` (translated text)** on a row-major matrix of `rows · cols` cells (`Shaped`; what
`init` establishes and `set` keeps): cell `(i, j)` is entry `i * cols + j`; `set` and a write through `get_mut` overwrite
that entry and nothing else; `with_capacity` and `resize` set the dimensions `(m+1, n+1)`. -/
theorem traceback_get_set_source_eq_model (t : RbV.Gen.SrcPwTypes.Traceback) (i j : Nat) (v : RbV.Gen.SrcPwTypes.TracebackCell)
    (hs : GenSrcPwTypes.Shaped t) (hi : i < t.rows) (hj : j < t.cols) :
    RbV.Gen.SrcPwTypes.tbGet t i j = Rs.idx t.matrix (i * t.cols + j) ∧
    RbV.Gen.SrcPwTypes.tbGetMut t i j = Rs.idx t.matrix (i * t.cols + j) ∧
    RbV.Gen.SrcPwTypes.tbSet t i j v = .ok { t with matrix := t.matrix.set (i * t.cols + j) v } ∧
    RbV.Gen.SrcPwTypes.tbGetMut_put t i j v = .ok { t with matrix := t.matrix.set (i * t.cols + j) v } ∧
    i * t.cols + j < t.matrix.length :=
  ⟨GenSrcPwTypes.tbGet_eq_model t i j hs hi hj, GenSrcPwTypes.tbGetMut_eq_model t i j hs hi hj,
   GenSrcPwTypes.tbSet_eq_model t i j v hs hi hj, GenSrcPwTypes.tbGetMut_put_eq_model t i j v hs hi hj,
   (GenSrcPwTypes.shaped_idx hs hi hj).1⟩

theorem traceback_resize_source_eq_model (t : RbV.Gen.SrcPwTypes.Traceback) (m n : Nat) (v : RbV.Gen.SrcPwTypes.TracebackCell)
    (h : (m + 1) * (n + 1) < 2 ^ 64) :
    RbV.Gen.SrcPwTypes.tbResize t m n v = .ok ⟨m + 1, n + 1, Rs.resize t.matrix ((m + 1) * (n + 1)) v⟩ ∧
    RbV.Gen.SrcPwTypes.tbWithCapacity m n = .ok ⟨m + 1, n + 1, []⟩ :=
  ⟨GenSrcPwTypes.tbResize_eq_model t m n v h, GenSrcPwTypes.tbWithCapacity_eq_model m n h⟩

/-- **`Scoring::{xclip, xclip_prefix, xclip_suffix, yclip, yclip_prefix, yclip_suffix}` (translated text)**: a positive
penalty is refused (panic); otherwise exactly the named clip fields are overwritten. -/
theorem scoring_builders_source_eq_model (s : RbV.Gen.SrcPwTypes.Scoring) (p : Int) :
    RbV.Gen.SrcPwTypes.xclip s p = (if p ≤ 0 then .ok { s with xclip_prefix := p, xclip_suffix := p } else .panic) ∧
    RbV.Gen.SrcPwTypes.xclip_prefix s p = (if p ≤ 0 then .ok { s with xclip_prefix := p } else .panic) ∧
    RbV.Gen.SrcPwTypes.xclip_suffix s p = (if p ≤ 0 then .ok { s with xclip_suffix := p } else .panic) ∧
    RbV.Gen.SrcPwTypes.yclip s p = (if p ≤ 0 then .ok { s with yclip_prefix := p, yclip_suffix := p } else .panic) ∧
    RbV.Gen.SrcPwTypes.yclip_prefix s p = (if p ≤ 0 then .ok { s with yclip_prefix := p } else .panic) ∧
    RbV.Gen.SrcPwTypes.yclip_suffix s p = (if p ≤ 0 then .ok { s with yclip_suffix := p } else .panic) :=
  GenSrcPwTypes.scoring_builders_eq_model s p

-- non-vacuity: a cell written field by field through the translated setters reads back through the translated getters
example : (do
    let c ← RbV.Gen.SrcPwTypes.cellNew
    let c ← RbV.Gen.SrcPwTypes.setSBits c RbV.Gen.TbCodes.tbMatch
    let c ← RbV.Gen.SrcPwTypes.setDBits c RbV.Gen.TbCodes.tbDel
    let c ← RbV.Gen.SrcPwTypes.setIBits c RbV.Gen.TbCodes.tbYclipSuffix
    let s ← RbV.Gen.SrcPwTypes.getSBits c
    let d ← RbV.Gen.SrcPwTypes.getDBits c
    let i ← RbV.Gen.SrcPwTypes.getIBits c
    pure (s, d, i)) = Res.ok (RbV.Gen.TbCodes.tbMatch, RbV.Gen.TbCodes.tbDel, RbV.Gen.TbCodes.tbYclipSuffix) := by decide
-- … a value above TB_MAX is refused by the `assert!`, a matrix of another shape is re-dimensioned by `init`
example : RbV.Gen.SrcPwTypes.setSBits ⟨0⟩ (RbV.Gen.TbCodes.tbMax + 1) = Res.panic := by decide
example : RbV.Gen.SrcPwTypes.tbInit ⟨7, 9, [⟨3⟩, ⟨5⟩]⟩ 1 2 =
    Res.ok ⟨2, 3, List.replicate 6 GenSrcPwTypes.startCell⟩ := by decide
example : GenSrcPwTypes.Shaped ⟨2, 3, List.replicate 6 GenSrcPwTypes.startCell⟩ := GenSrcPwTypes.shaped_init 1 2 (by decide)
example : RbV.Gen.SrcPwTypes.xclip ⟨-5, -1, none, -2, -3, -4, -6⟩ (-7) = Res.ok ⟨-5, -1, none, -7, -7, -4, -6⟩ ∧
    RbV.Gen.SrcPwTypes.yclip_suffix ⟨-5, -1, none, -2, -3, -4, -6⟩ 1 = Res.panic := by decide

/-- **The mode wrappers (translated text) call `custom` with exactly the mode's clip penalties.**  For *every* function
`custom` (it is a parameter of the translated wrappers): `global` / `semiglobal` / `local` run `custom` once, on the
aligner whose clip penalties are `MIN_SCORE`×4 / (`MIN_SCORE`, `MIN_SCORE`, 0, 0) / 0×4 and whose other fields are
untouched; they return its alignment with the mode tag set (semiglobal / local: clip operations filtered), and leave
the aligner `custom` left with the caller's four clip penalties put back (`GenSrcPwModes.wrapped`). -/
theorem global_source_eq_custom_with_mode_clips
    (custom : RbV.Gen.SrcPwTypes.Aligner → List Nat → List Nat → Res (Alignment × RbV.Gen.SrcPwTypes.Aligner))
    (a : RbV.Gen.SrcPwTypes.Aligner) (x y : List Nat) :
    RbV.Gen.SrcPwModes.global_ custom a x y = GenSrcPwModes.wrapped custom (fun al => { al with mode := .Global })
      minScore minScore minScore minScore a x y :=
  GenSrcPwModes.global_eq_custom_with_mode_clips custom a x y

theorem semiglobal_source_eq_custom_with_mode_clips
    (custom : RbV.Gen.SrcPwTypes.Aligner → List Nat → List Nat → Res (Alignment × RbV.Gen.SrcPwTypes.Aligner))
    (a : RbV.Gen.SrcPwTypes.Aligner) (x y : List Nat) :
    RbV.Gen.SrcPwModes.semiglobal_ custom a x y = GenSrcPwModes.wrapped custom
      (fun al => Alignment.filterClipOperations { al with mode := .Semiglobal }) minScore minScore 0 0 a x y :=
  GenSrcPwModes.semiglobal_eq_custom_with_mode_clips custom a x y

theorem local_source_eq_custom_with_mode_clips
    (custom : RbV.Gen.SrcPwTypes.Aligner → List Nat → List Nat → Res (Alignment × RbV.Gen.SrcPwTypes.Aligner))
    (a : RbV.Gen.SrcPwTypes.Aligner) (x y : List Nat) :
    RbV.Gen.SrcPwModes.local_ custom a x y = GenSrcPwModes.wrapped custom
      (fun al => Alignment.filterClipOperations { al with mode := .Local }) 0 0 0 0 a x y :=
  GenSrcPwModes.local_eq_custom_with_mode_clips custom a x y

/-- **History independence of the scoring (translated text).**  For every `custom` that does not write `self.scoring`
(`KeepsScoring`): after `global`, `semiglobal` or `local` the aligner's `scoring` is exactly what it was before the call,
and every other field is what `custom` left. -/
theorem mode_wrappers_source_restore_scoring
    (custom : RbV.Gen.SrcPwTypes.Aligner → List Nat → List Nat → Res (Alignment × RbV.Gen.SrcPwTypes.Aligner))
    (hk : GenSrcPwModes.KeepsScoring custom) (a a' : RbV.Gen.SrcPwTypes.Aligner) (x y : List Nat) (al : Alignment) :
    (RbV.Gen.SrcPwModes.global_ custom a x y = .ok (al, a') → a'.scoring = a.scoring) ∧
    (RbV.Gen.SrcPwModes.semiglobal_ custom a x y = .ok (al, a') → a'.scoring = a.scoring) ∧
    (RbV.Gen.SrcPwModes.local_ custom a x y = .ok (al, a') → a'.scoring = a.scoring) :=
  ⟨GenSrcPwModes.global_source_restores_scoring custom hk a x y al a',
   GenSrcPwModes.semiglobal_source_restores_scoring custom hk a x y al a',
   GenSrcPwModes.local_source_restores_scoring custom hk a x y al a'⟩

-- non-vacuity: a `custom` that reports the clip penalties it sees (as score and coordinates); the wrappers hand it the
-- mode's penalties and give the caller's asymmetric penalties back
def probeCustom (s : RbV.Gen.SrcPwTypes.Aligner) (_x _y : List Nat) : Res (Alignment × RbV.Gen.SrcPwTypes.Aligner) :=
  .ok ({ (default : Alignment) with score := s.scoring.xclip_prefix + s.scoring.xclip_suffix * 2 + s.scoring.yclip_prefix * 4 +
    s.scoring.yclip_suffix * 8 }, { s with Lx := [1] })
def probeAligner : RbV.Gen.SrcPwTypes.Aligner :=
  ⟨[[], []], [[], []], [[], []], [], [], [], ⟨0, 0, []⟩, ⟨-5, -1, none, -2, -3, -4, -6⟩⟩
example : GenSrcPwModes.KeepsScoring probeCustom := by
  intro s x y al s' h; simp only [probeCustom, Res.ok.injEq, Prod.mk.injEq] at h; rw [← h.2]
example : RbV.Gen.SrcPwModes.semiglobal_ probeCustom probeAligner [1] [2] =
    .ok ({ (default : Alignment) with score := minScore * 3, mode := .Semiglobal }, { probeAligner with Lx := [1] }) := by decide
example : RbV.Gen.SrcPwModes.local_ probeCustom probeAligner [1] [2] =
    .ok ({ (default : Alignment) with score := 0, mode := .Local }, { probeAligner with Lx := [1] }) := by decide

/-- **One cell of the main loop of `Aligner::custom` (translated text): scores and trackers = the checked-`i32` mirror, traceback
codes admissible — for any order in which the text compares the candidates and any `>` / `>=` at the ties.**
`RbV.Gen.SrcPwCustom.custom_for5` is the body of `for i in 1..m + 1` as translated from the text.  There is a chooser `sCode` of
the S-layer code (read off the text) that is **admissible** (`SCodeOk`: the code it returns names a candidate — x-suffix
placeholder, Match/Subst, Ins, Del, x-prefix clip, y-prefix clip — whose score **is** the value of the S layer, the maximum of
the six: "the code explains the value") such that on every aligner state of the right shape (`CellEq`: `Dims`, `1 ≤ i ≤ m`,
`1 ≤ j ≤ n`, valid codes in the S fields of the cells `(i−1, j)`, `(i, j−1)`) the body panics exactly when the checked-`i32` row is
`none` and otherwise writes exactly the row `stepJS T sCode …`: `S/I/D[curr][i]`, the register `S[curr][m]`, `Sn[i]`, `Ly[i]`,
`Lx[j]` have the mirror's **values** (S = max of the candidates; I, D = the better of extend / open), the I and D codes are
those of the tie-break `T`, the S code is `sCode`'s; nothing else is written.  The exact code equality with the mirror the
driver runs (`stepJT T`, `stepJC`: the *pinned* order of the candidates) is the **soft** module
`Thm/GenSrcPwCustomExact.lean` (seeded C01-H4 changes that order: soft note, this theorem re-proves). -/
theorem cell_update_source_values_and_admissible_codes (w : Nat → Nat → Int) (T : GenSrcPwCustom.Ties) :
    ∃ sCode : GenSrcPwCustom.SCodeFn, GenSrcPwCustom.SCodeOk T sCode ∧ GenSrcPwCustom.CellEq w T sCode :=
  GenSrcPwCustom.cell_update_any_order w T

/-- **The tie-breaks found in the text are admissible** (true when strictly greater, false when strictly smaller — `>` or
`>=` in either operand order); a test that is neither (e.g. `<`, or another operand) fails here. -/
theorem tie_breaks_source_admissible : GenSrcPwCustom.TiesOk GenSrcPwCustom.srcTies := GenSrcPwCustom.srcTies_ok

/-- what the written cell reads back: the three 4-bit fields of `cellOf ts ti td` are the codes of the three moves -/
theorem cell_update_source_cell_reads (ts ti td : RbV.Model.PairwiseFill.Tb) :
    RbV.TbCell.getBits (GenSrcPwCustom.cellOf ts ti td).v RbV.Gen.TbCodes.sPos = GenSrcPwCustom.enc ts ∧
    RbV.TbCell.getBits (GenSrcPwCustom.cellOf ts ti td).v RbV.Gen.TbCodes.iPos = GenSrcPwCustom.enc ti ∧
    RbV.TbCell.getBits (GenSrcPwCustom.cellOf ts ti td).v RbV.Gen.TbCodes.dPos = GenSrcPwCustom.enc td :=
  GenSrcPwCustom.cellOf_reads ts ti td

-- non-vacuity / sampled tie of the *whole* translated function: the text of `Aligner::custom` (`Gen/SrcPwCustom.lean`),
-- run by the kernel on a fresh aligner, returns exactly what the checked-`i32` mirror `customC` returns
def srcAligner (go ge xp xs yp ys : Int) : RbV.Gen.SrcPwTypes.Aligner :=
  ⟨[[], []], [[], []], [[], []], [], [], [], ⟨0, 0, []⟩, ⟨go, ge, none, xp, xs, yp, ys⟩⟩
def srcOp : AlignmentOperation → AOp
  | .Match => .core .mat | .Subst => .core .sub | .Ins => .core .ins | .Del => .core .del
  | .Xclip n => .xclip n | .Yclip n => .yclip n
def srcRun (w : Nat → Nat → Int) (go ge xp xs yp ys : Int) (x y : List Nat) : RbV.Model.PairwiseFill.Outcome :=
  match RbV.Gen.SrcPwCustom.custom w RbV.Gen.SrcPwCustom.custom_iTie RbV.Gen.SrcPwCustom.custom_dTie
      RbV.Gen.SrcPwCustom.custom_snTie RbV.Gen.SrcPwCustom.custom_sn0Tie (srcAligner go ge xp xs yp ys) x y (2 * (x.length + y.length) + 16) with
  | .ok (al, _) => .done ⟨al.score, al.xstart, al.xend, al.ystart, al.yend, al.xlen, al.ylen, al.operations.map srcOp⟩
  | .panic => .overflow
  | .fuel => .noTermination
example : srcRun scU.w (-5) (-1) (-1) (-2) (-3) (-1) [0, 1, 1, 0] [1, 1, 2] =
    RbV.Model.PairwiseFill.customC scU ⟨-1, -2, -3, -1⟩ [0, 1, 1, 0] [1, 1, 2] := by decide +kernel
example : srcRun scU.w (-5) (-1) minScore minScore 0 0 [1, 1] [0, 1, 1, 0] =
    RbV.Model.PairwiseFill.customC scU clSemi [1, 1] [0, 1, 1, 0] := by decide +kernel
example : srcRun scU.w (-5) (-1) minScore minScore minScore minScore [] [0] =
    RbV.Model.PairwiseFill.customC scU clGlobal [] [0] := by decide +kernel
-- an `i32` overflow of the text is the `overflow` of the mirror
example : srcRun (fun _ _ => 2000000000) (-5) (-1) 0 0 0 0 [0, 0] [0, 0] = .overflow ∧
    RbV.Model.PairwiseFill.customC ⟨fun _ _ => 2000000000, -5, -1⟩ clLocal [0, 0] [0, 0] = .overflow := by decide +kernel

/-- **The translated `Aligner::custom` does not write `self.scoring`** (every match function, tie-break, fuel): proved by a
traversal of every path of every translated helper (`Thm/GenSrcPwKeeps.lean`). -/
theorem custom_source_keeps_scoring (w : Nat → Nat → Int) (iT dT snT sn0T : Int → Int → Bool) (fuel : Nat) :
    GenSrcPwModes.KeepsScoring (fun s x y => RbV.Gen.SrcPwCustom.custom w iT dT snT sn0T s x y fuel) :=
  GenSrcPwKeeps.custom_keeps_scoring w iT dT snT sn0T fuel

/-- **History independence of the scoring, translated wrappers over the translated `custom`** (no hypothesis left): after
`global`, `semiglobal`, `local` — and after `custom` itself — the aligner's `scoring` is exactly what it was before the call. -/
theorem mode_wrappers_source_history_independent (w : Nat → Nat → Int) (iT dT snT sn0T : Int → Int → Bool) (fuel : Nat)
    (a a' : RbV.Gen.SrcPwTypes.Aligner) (x y : List Nat) (al : Alignment) :
    (RbV.Gen.SrcPwModes.global_ (fun s x y => RbV.Gen.SrcPwCustom.custom w iT dT snT sn0T s x y fuel) a x y = .ok (al, a') →
      a'.scoring = a.scoring) ∧
    (RbV.Gen.SrcPwModes.semiglobal_ (fun s x y => RbV.Gen.SrcPwCustom.custom w iT dT snT sn0T s x y fuel) a x y = .ok (al, a') →
      a'.scoring = a.scoring) ∧
    (RbV.Gen.SrcPwModes.local_ (fun s x y => RbV.Gen.SrcPwCustom.custom w iT dT snT sn0T s x y fuel) a x y = .ok (al, a') →
      a'.scoring = a.scoring) ∧
    (RbV.Gen.SrcPwCustom.custom w iT dT snT sn0T a x y fuel = .ok (al, a') → a'.scoring = a.scoring) :=
  have hk := GenSrcPwKeeps.custom_keeps_scoring w iT dT snT sn0T fuel
  ⟨GenSrcPwModes.global_source_restores_scoring _ hk a x y al a', GenSrcPwModes.semiglobal_source_restores_scoring _ hk a x y al a',
   GenSrcPwModes.local_source_restores_scoring _ hk a x y al a', fun h => hk a x y al a' h⟩

/-- **`custom_fill_source_eq_model_partial` — the inner loop of a column (translated text) = the rows of the checked-`i32`
mirror, for every tie-break `T`.**  From a state that holds rows `0 ..= i` of column `j` (`ColInv`: the `curr` halves of
`S/I/D`, the register `S[curr][m]`, `Sn`, `Ly`, `Lx[j]`, the bit-packed cells `(k, j)`; the previous column in the `prev`
halves; frame `oc`, `olx` for every other column), the translated `for i in i+1 ..= m` panics exactly when one of the
remaining rows `stepJS T sCode …` is `none` (an `i32` overflow), and otherwise ends in a state that holds the whole column
(`ColInv … m`, rows = `colRows (stepT T …)`), with `scoring` and the frame untouched.
**Missing for `custom_fill_source_eq_model`** (not proved; every piece is translated and evaluated in the examples above):
the column-0 initialisation (`custom_for1/2`: establishes `ColInv` for column 0), the `i = 0` block and the reset loop of a column
(`custom_for3` up to its inner loop: establishes `ColInv … 0` from the previous column), the induction over `j`, the two
post-loops (`custom_for6/7`), and `colRows` of all columns = `fillC` with the pinned tie-breaks. -/
theorem custom_fill_source_eq_model_partial (w : Nat → Nat → Int) (T : GenSrcPwCustom.Ties) :
    ∃ sCode : GenSrcPwCustom.SCodeFn, GenSrcPwCustom.SCodeOk T sCode ∧
    ∀ (x : List Nat) (m n j q : Nat)
    (xc : Int) (pc : List RbV.Model.PairwiseFill.Row) (oc : Nat → Nat → RbV.Gen.SrcPwTypes.TracebackCell) (olx : Nat → Nat)
    (hx : x.length = m) (hj : 1 ≤ j) (hjn : j ≤ n) (k i : Nat) (a : RbV.Gen.SrcPwTypes.Aligner)
    (cur : List RbV.Model.PairwiseFill.Row) (hinv : GenSrcPwColumn.ColInv a m n j i pc cur oc olx) (hlen : cur.length = i + 1)
    (hik : i + k = m),
    match GenSrcPwColumn.colRows (GenSrcPwColumn.stepT T sCode (GenSrcPwCustom.scOf w a) (GenSrcPwCustom.clOf a) x m n j q xc pc) k i cur with
    | none => List.foldlM (RbV.Gen.SrcPwCustom.custom_for5 w T.iT T.dT T.snT T.sn0T x m n j (j % 2) (1 - j % 2) q xc) a
        (List.range' (i + 1) k) = Res.panic
    | some col => ∃ a', List.foldlM (RbV.Gen.SrcPwCustom.custom_for5 w T.iT T.dT T.snT T.sn0T x m n j (j % 2) (1 - j % 2) q xc) a
        (List.range' (i + 1) k) = Res.ok a' ∧ GenSrcPwColumn.ColInv a' m n j m pc col oc olx ∧ col.length = m + 1 ∧
        a'.scoring = a.scoring := by
  obtain ⟨sCode, hok, hcell⟩ := GenSrcPwCustom.cell_update_any_order w T
  exact ⟨sCode, hok, fun x m n j q xc pc oc olx hx hj hjn k i a cur hinv hlen hik =>
    GenSrcPwColumn.column_loop w T x m n j q xc pc _ _ sCode hcell oc olx hx hj hjn k i a cur hinv hlen hik rfl rfl⟩

/-- **The reset loop of a column (translated text)**: `for i in 1..=m { self.S[curr][i] = MIN_SCORE; }` over `i .. i + k` overwrites
exactly the entries `S[curr][i .. i + k)` with `MIN_SCORE` and touches nothing else (one more piece of
`custom_fill_source_eq_model`; establishes the clause `hReset` of `ColInv` for the next column). -/
theorem column_reset_loop_source_eq_model (w : Nat → Nat → Int) (iT dT snT sn0T : Int → Int → Bool) (c : Nat) (hc : c < 2)
    (k i : Nat) (a : RbV.Gen.SrcPwTypes.Aligner) (l : List Int) (hS : a.S.length = 2) (hl : a.S.getD c [] = l)
    (hik : i + k ≤ l.length) :
    ∃ l', List.foldlM (RbV.Gen.SrcPwCustom.custom_for4 w iT dT snT sn0T c) a (List.range' i k) = .ok { a with S := a.S.set c l' } ∧
      l'.length = l.length ∧ (∀ t, i ≤ t → t < i + k → l'.getD t 0 = minScore) ∧
      (∀ t, (t < i ∨ i + k ≤ t) → l'.getD t 0 = l.getD t 0) :=
  GenSrcPwColumn.reset_loop w iT dT snT sn0T c hc k i a l hS hl hik

/-- **A whole column of the main loop (translated `custom_for3`) = the `i = 0` block of the mirror, `xclip_score`, then the inner
loop from an explicit start state** (one more piece of `custom_fill_source_eq_model`; for every tie-break).  On every aligner
state of the right shape (`Dims`), `1 ≤ j ≤ n`: the translated body of `for j in 1..=n` panics exactly when `rowJ0T T …`
(= `rowJ0C` of `Model/PairwiseFillI32.lean` with the `Sn` tie-break as a parameter: `D[curr][0]` by `edgeC`, `S[curr][0]`, the
`j == n` branch, `Sn[0]`, `Ly[0]`, codes) or `xclipC` is `none`, and otherwise continues as the translated inner loop
`for i in 1..m + 1` (with `q = y[j − 1]` and the mirror's `xclip_score`) from the state `startCol a m (j % 2) j r0`: `I[curr][0] =
MIN_SCORE`, `D[curr][0] = r0.d`, `S[curr][0] = r0.s`, **`S[curr][1..=m]` reset to `MIN_SCORE`** (`resetL`: the reset loop), `Sn[0]`,
`Ly[0]`, cell `(0, j) = cellOf r0.t.ts START r0.t.td` — nothing else changed.
**Still missing for `custom_fill_source_eq_model`**: `ColInv (startCol …) … 0 pc [r0]` from the finished previous column (with
`col[m].s = col[m].xm`, `Lx[j'] = 0` for columns not yet started) to chain this with `custom_fill_source_eq_model_partial`; the
induction over `j`; the column-0 initialisation; the two post-loops. -/
theorem column_block_source_eq_model_partial (w : Nat → Nat → Int) (T : GenSrcPwCustom.Ties) (a : RbV.Gen.SrcPwTypes.Aligner)
    (x y : List Nat) (m n j : Nat) (hd : GenSrcPwCustom.Dims a m n) (hx : x.length = m) (hy : y.length = n) (hj : 1 ≤ j)
    (hjn : j ≤ n) :
    RbV.Gen.SrcPwCustom.custom_for3 w T.iT T.dT T.snT T.sn0T x y m n a j =
      GenSrcPwCustom.ofOpt (GenSrcPwColStep.rowJ0T T (GenSrcPwCustom.scOf w a) (GenSrcPwCustom.clOf a) m n j (GenSrcPwColStep.row0P a))
        >>= fun r0 =>
      GenSrcPwCustom.ofOpt (GenSrcPwColStep.xclipO (GenSrcPwCustom.scOf w a) (GenSrcPwCustom.clOf a) j) >>= fun xc =>
        List.foldlM (RbV.Gen.SrcPwCustom.custom_for5 w T.iT T.dT T.snT T.sn0T x m n j (j % 2) (1 - j % 2) (y.getD (j - 1) 0) xc)
          (GenSrcPwColStep.startCol a m (j % 2) j r0) (List.range' 1 m) :=
  GenSrcPwColStep.block_eq w T a x y m n j hd hx hy hj hjn

/-- the model side of that block is the mirror's: `rowJ0T` with the pinned tie-break is `rowJ0C`, `xclipO` is `xclipC` -/
theorem column_block_model_is_mirror (sc : Sc) (cl : Clip) (x y : List Nat) (j : Nat) (prev0 : RbV.Model.PairwiseFill.Row) :
    GenSrcPwColStep.rowJ0T GenSrcPwCustom.pinned sc cl x.length y.length j prev0 = RbV.Model.PairwiseFill.rowJ0C sc cl x y j prev0 ∧
    GenSrcPwColStep.xclipO sc cl j = RbV.Model.PairwiseFill.xclipC sc cl j :=
  ⟨GenSrcPwColStep.rowJ0T_pinned sc cl x y j prev0, GenSrcPwColStep.xclipO_eq sc cl j⟩

/-- **`custom_fill_source_eq_model_partial` (main loop): the whole outer loop `for j in 1..=n` of the translated `Aligner::custom` =
the columns of the checked-`i32` mirror, for every tie-break, with an admissible S-code chooser.**
There is a chooser `sCode` with `SCodeOk T sCode` such that from any state that holds the finished column `j` and the cells /
`Lx` entries of all columns `≤ j`, with `Lx[j'] = 0` for the columns not yet started (`Outer a m n j cols` — for `j = 0`: what the
column-0 initialisation has to establish), the translated loop over the columns `j + 1 ..= n` panics exactly when a column
`colStepT` of the mirror is `none` (an `i32` overflow in its `i = 0` block `rowJ0T`, in `xclipC` or in a cell `stepJS`), and otherwise
ends in a state that holds the last column's `S/I/D`, `Sn`, `Ly` and **every** column's bit-packed traceback cells and `Lx` entry
(`Outer a' m n n all`, `all = colsT …` the list of all columns), `scoring` untouched.  Built from
`column_block_source_eq_model_partial` (the `i = 0` block, reset loop, `xclip_score`), the glue `startCol_inv` (the state after the
block satisfies the inner-loop invariant `ColInv … 0` w.r.t. the finished previous column), `custom_fill_source_eq_model_partial`
(the inner loop) and `stepJS_last` (row `m`: the cell is the register).
**Still missing for `custom_fill_source_eq_model`**: `Outer a m n 0 [col0]` after the translated column-0 initialisation
(`custom_for1/2` after `Traceback::init`), the two post-loops (`custom_for6/7`), and `colsT` with the pinned tie-breaks = `colsC`
(`rowJ0T_pinned`, `xclipO_eq` are proved; the cells' values by `stepJS`'s definition, their codes by the soft module). -/
theorem custom_main_loop_source_eq_model_partial (w : Nat → Nat → Int) (T : GenSrcPwCustom.Ties) :
    ∃ sCode : GenSrcPwCustom.SCodeFn, GenSrcPwCustom.SCodeOk T sCode ∧
    ∀ (x y : List Nat) (m n : Nat) (hx : x.length = m) (hy : y.length = n) (k j : Nat) (a : RbV.Gen.SrcPwTypes.Aligner)
      (cols : List (List RbV.Model.PairwiseFill.Row)) (ho : GenSrcPwColGlue.Outer a m n j cols) (hjk : j + k = n),
      match GenSrcPwColGlue.colsT (fun j pc => GenSrcPwColGlue.colStepT T sCode (GenSrcPwCustom.scOf w a) (GenSrcPwCustom.clOf a)
          x m n j (y.getD (j - 1) 0) pc) k j cols with
      | none => List.foldlM (RbV.Gen.SrcPwCustom.custom_for3 w T.iT T.dT T.snT T.sn0T x y m n) a (List.range' (j + 1) k) = Res.panic
      | some all => ∃ a', List.foldlM (RbV.Gen.SrcPwCustom.custom_for3 w T.iT T.dT T.snT T.sn0T x y m n) a
            (List.range' (j + 1) k) = Res.ok a' ∧ GenSrcPwColGlue.Outer a' m n n all ∧ a'.scoring = a.scoring := by
  obtain ⟨sCode, hok, hcell⟩ := GenSrcPwCustom.cell_update_any_order w T
  exact ⟨sCode, hok, fun x y m n hx hy k j a cols ho hjk =>
    GenSrcPwColGlue.outer_loop w T sCode hcell x y m n _ _ hx hy k j a cols ho hjk rfl rfl⟩

/-- one iteration of that loop: from the finished column `j − 1` (`ColDone`) with `Lx[j] = 0` to the finished column `j` -/
theorem column_step_source_eq_model (w : Nat → Nat → Int) (T : GenSrcPwCustom.Ties) (sCode : GenSrcPwCustom.SCodeFn)
    (hcell : GenSrcPwCustom.CellEq w T sCode) (a : RbV.Gen.SrcPwTypes.Aligner) (x y : List Nat) (m n j : Nat)
    (pc : List RbV.Model.PairwiseFill.Row) (oc : Nat → Nat → RbV.Gen.SrcPwTypes.TracebackCell) (olx : Nat → Nat)
    (hdone : GenSrcPwColGlue.ColDone a m n (j - 1) pc oc olx) (hx : x.length = m) (hy : y.length = n) (hj : 1 ≤ j) (hjn : j ≤ n)
    (hLx0 : a.Lx.getD j 0 = 0) :
    match GenSrcPwColGlue.colStepT T sCode (GenSrcPwCustom.scOf w a) (GenSrcPwCustom.clOf a) x m n j (y.getD (j - 1) 0) pc with
    | none => RbV.Gen.SrcPwCustom.custom_for3 w T.iT T.dT T.snT T.sn0T x y m n a j = Res.panic
    | some col => ∃ a', RbV.Gen.SrcPwCustom.custom_for3 w T.iT T.dT T.snT T.sn0T x y m n a j = Res.ok a' ∧
        GenSrcPwColGlue.ColDone a' m n j col (fun k j' => GenSrcPwCustom.cellAt a k j') (fun j' => a.Lx.getD j' 0) ∧
        col.length = m + 1 ∧ a'.scoring = a.scoring :=
  GenSrcPwColGlue.column_step w T sCode hcell a x y m n j pc oc olx hdone hx hy hj hjn hLx0

end SourceText


end RbV.Thm.C01
