import RbV.Gen.SrcHmmForward
import RbV.Lemmas.HmmSrc
/-!
# The translated text of `hmm::forward` equals the mirror model `Hmm.forward` (at exact weights)

`RbV/Gen/SrcHmmForward.lean` is regenerated from `src/stats/hmm/mod.rs` on every `./check C14`; `LogProb` is an abstract type
there.  Instantiated at exact numerators (`Rs.natOps`: `+` on logs = product, `ln_sum_exp` = sum) and a specification-level
model (`Rs.hmmOps m`), the translated function returns — without panic — the table of forward columns and the likelihood of
the mirror model, for every model and every non-empty observation sequence.  The proof follows the loops with invariants
stated on the *table* (`RowFilled`: one row written cell by cell; rows `< i` are the columns `fcol`), never on the shape of
the generated term; the value of a cell may be written with the emission inside or outside the sum (`sumS_mul_right`).
-/
set_option linter.unusedSimpArgs false
set_option linter.unusedVariables false

namespace RbV.Thm.GenSrcHmmForward
open RbV RbV.Rs RbV.Hmm RbV.Gen.SrcHmmForward

/-- the forward column after the observations `0 … t` -/
def fcol (m : Hmm) (obs : List Nat) : Nat → List Nat
  | 0 => col0 m (obs.getD 0 0)
  | t + 1 => stepF m (fcol m obs t) (obs.getD (t + 1) 0)

theorem fcol_length (m : Hmm) (obs : List Nat) (t : Nat) : (fcol m obs t).length = m.S := by
  cases t <;> simp [fcol, col0, stepF, tab]

theorem fwdFrom_fcol (m : Hmm) (obs : List Nat) : ∀ t, t < obs.length →
    fwdFrom m (fcol m obs t) (obs.drop (t + 1)) = Hmm.forward m obs := by
  intro t
  induction t with
  | zero =>
    intro h
    cases obs with
    | nil => simp at h
    | cons o os => simp [fcol, Hmm.forward]
  | succ t ih =>
    intro h
    rw [← ih (by omega), List.drop_eq_getElem_cons (by omega : t + 1 < obs.length)]
    simp only [fwdFrom, fcol]
    congr 2
    simp [List.getD, List.getElem?_eq_getElem h]

/-- invariant of the loop over the observations: rows `< j` are the forward columns, the others have `S` cells -/
def Inv (m : Hmm) (obs : List Nat) (j : Nat) (vals : List (List Nat)) : Prop :=
  vals.length = obs.length ∧ (∀ t, t < j → vals[t]? = some (fcol m obs t)) ∧
  (∀ t, j ≤ t → t < obs.length → ∃ r, vals[t]? = some r ∧ r.length = m.S)

theorem Inv.set {m : Hmm} {obs : List Nat} {j : Nat} {vals : List (List Nat)} (h : Inv m obs j vals) (hj : j < obs.length)
    {r : List Nat} (hr : r = fcol m obs j) : Inv m obs (j + 1) (vals.set j r) := by
  obtain ⟨h1, h2, h3⟩ := h
  refine ⟨by simp [h1], ?_, ?_⟩
  · intro t ht
    by_cases htj : t = j
    · subst htj; simp [h1, hj, hr]
    · rw [List.getElem?_set_ne (by omega)]; exact h2 t (by omega)
  · intro t ht htn
    rw [List.getElem?_set_ne (by omega)]; exact h3 t (by omega) htn

/-- first column: `for s in hmm.states() { vals[[0, *s]] = initial_prob(s) + observation_prob(s, o) }` -/
theorem for2_eq (z : Nat) (m : Hmm) (b : Nat) (vals : List (List Nat)) (r0 : List Nat) (h0 : vals[0]? = some r0)
    (hl : r0.length = m.S) :
    List.foldlM (forward_for2 (natOps z) (hmmOps m) b) vals (List.range m.S) = Res.ok (vals.set 0 (col0 m b)) := by
  obtain ⟨s', h1, h2, _⟩ := fill_row (fun s => s) (forward_for2 (natOps z) (hmmOps m) b)
    (fun s => m.init s * m.emit s b) 0 m.S (fun _ _ => True) vals r0 h0 hl trivial (by
      intro j s hj hf _
      obtain ⟨a', ha', hf'⟩ := hf.step hj
      have ha' : Rs.set2 s 0 j (m.init j * m.emit j b) = Res.ok a' := ha'
      exact ⟨a', by simp [forward_for2, ha'], hf', trivial⟩)
  rw [h1, h2]; rfl

/-- a later column `i`: every cell is the sum over the predecessors in row `i - 1`.  The loop state is the table, or the
table together with the scratch buffer of the summands (seeded rewrite C14-H2: emission factored out of the sum, one buffer
reused) — both shapes are followed. -/
theorem for3_eq (z : Nat) (m : Hmm) (i b : Nat) (hi : 0 < i) (s0 : _) (prev r0 : List Nat)
    (hp : (HasVals.get s0)[i - 1]? = some prev) (hpl : prev.length = m.S) (h0 : (HasVals.get s0)[i]? = some r0)
    (hl : r0.length = m.S) :
    ∃ s', List.foldlM (forward_for3 (natOps z) (hmmOps m) i b) s0 (List.range m.S) = Res.ok s' ∧
      HasVals.get s' = (HasVals.get s0).set i (stepF m prev b) := by
  obtain ⟨s', h1, h2, _⟩ := fill_row (fun s => HasVals.get s) (forward_for3 (natOps z) (hmmOps m) i b)
    (fun j => sumS m.S fun k => ix prev k * m.trans k j * m.emit j b) i m.S (fun _ _ => True) s0 r0 h0 hl trivial (by
      intro j s hj hf _
      obtain ⟨a', ha', hf'⟩ := hf.step hj
      have ha' : Rs.set2 (HasVals.get s) i j (sumS m.S fun k => ix prev k * m.trans k j * m.emit j b) = Res.ok a' := ha'
      have e1 : Rs.sub i 1 = Res.ok (i - 1) := sub_one_ok hi
      have hne : i - 1 ≠ i := by omega
      have e2 : ∀ k, k < m.S → Rs.get2 (HasVals.get s) (i - 1) k = Res.ok (ix prev k) := by
        intro k hk
        rw [hf.get_other hne, get2_ok hp (by omega), ix_eq_getElem (by omega)]
      have hs : ((List.range m.S).map fun k => ix prev k * m.trans k j * m.emit j b).sum
          = sumS m.S fun k => ix prev k * m.trans k j * m.emit j b := rfl
      have hs' : ((List.range m.S).map fun k => ix prev k * m.trans k j).sum * m.emit j b
          = sumS m.S fun k => ix prev k * m.trans k j * m.emit j b :=
        (sumS_mul_right m.S (m.emit j b) fun k => ix prev k * m.trans k j).symm
      first
        | (-- the state is the table; emission inside the sum
           have hm : ∀ k, k < m.S → forward_map1 (natOps z) (hmmOps m) s i b j k
               = Res.ok (ix prev k * m.trans k j * m.emit j b) := by
             intro k hk
             have := e2 k hk
             simp only [HasVals.get_plain] at this
             simp [forward_map1, e1, this]
             done
           have hmap := mapM_range_ok m.S hm
           simp only [HasVals.get_plain] at ha' hf'
           refine ⟨a', ?_, hf', trivial⟩
           simp [forward_for3, hmap, hs, hs', ha']
           done)
        | (-- the state is (table, scratch buffer); emission outside the sum
           obtain ⟨v, x⟩ := s
           simp only [HasVals.get_pair] at ha' hf' e2
           have hm : ∀ k, k < m.S → forward_map1 (natOps z) (hmmOps m) v i j k = Res.ok (ix prev k * m.trans k j) := by
             intro k hk
             simp [forward_map1, e1, e2 k hk]
             done
           have hmap := mapM_range_ok m.S hm
           refine ⟨(a', (List.range m.S).map fun k => ix prev k * m.trans k j), ?_, hf', trivial⟩
           simp [forward_for3, hmap, hs, hs', ha']
           done)
        | (-- the state is (table, scratch buffer); emission inside the sum
           obtain ⟨v, x⟩ := s
           simp only [HasVals.get_pair] at ha' hf' e2
           have hm : ∀ k, k < m.S → forward_map1 (natOps z) (hmmOps m) v i b j k
               = Res.ok (ix prev k * m.trans k j * m.emit j b) := by
             intro k hk
             simp [forward_map1, e1, e2 k hk]
             done
           have hmap := mapM_range_ok m.S hm
           refine ⟨(a', (List.range m.S).map fun k => ix prev k * m.trans k j * m.emit j b), ?_, hf', trivial⟩
           simp [forward_for3, hmap, hs, hs', ha']
           done))
  exact ⟨s', h1, by rw [h2]; rfl⟩

theorem for1_eq (z : Nat) (m : Hmm) (obs : List Nat) (s0 : _) (h : Inv m obs 0 (HasVals.get s0)) :
    ∃ s', List.foldlM (forward_for1 (natOps z) (hmmOps m)) s0 (Rs.enumerate obs) = Res.ok s' ∧
      Inv m obs obs.length (HasVals.get s') := by
  have := foldlM_enumFrom_inv (forward_for1 (natOps z) (hmmOps m)) (fun j s => Inv m obs j (HasVals.get s)) obs 0 s0 h (by
    intro j b s _ hb hinv
    simp only [Nat.sub_zero] at hb
    have hjn : j < obs.length := by
      rcases Nat.lt_or_ge j obs.length with h | h
      · exact h
      · rw [List.getElem?_eq_none h] at hb; cases hb
    have hbd : obs.getD j 0 = b := by simp [List.getD, hb]
    have hbd' : obs[j]?.getD 0 = b := by simp [hb]
    obtain ⟨r0, hr0, hl0⟩ := hinv.2.2 j (Nat.le_refl _) hjn
    by_cases hj0 : j = 0
    · subst hj0
      have hf := for2_eq z m b (HasVals.get s) r0 hr0 hl0
      have hnew : Inv m obs (0 + 1) ((HasVals.get s).set 0 (col0 m b)) := hinv.set hjn (by simp [fcol, hbd, hbd'])
      first
        | (simp only [HasVals.get_plain] at hf hnew
           refine ⟨s.set 0 (col0 m b), ?_, hnew⟩
           simp [forward_for1, hf]
           done)
        | (obtain ⟨v, x⟩ := s
           simp only [HasVals.get_pair] at hf hnew
           refine ⟨(v.set 0 (col0 m b), x), ?_, hnew⟩
           simp [forward_for1, hf]
           done)
    · have hp := hinv.2.1 (j - 1) (by omega)
      obtain ⟨s', hf, hs'⟩ := for3_eq z m j b (by omega) s _ r0 hp (fcol_length m obs (j - 1)) hr0 hl0
      have hjb : (j == 0) = false := by simp [hj0]
      have hnew : Inv m obs (j + 1) (HasVals.get s') := by
        rw [hs']
        refine hinv.set hjn ?_
        obtain ⟨j', rfl⟩ : ∃ j', j = j' + 1 := ⟨j - 1, by omega⟩
        simp [fcol, hbd, hbd']
      first
        | (refine ⟨s', ?_, hnew⟩
           simp [forward_for1, hf, hjb, hj0]
           done)
        | (obtain ⟨v, x⟩ := s
           obtain ⟨v', x'⟩ := s'
           refine ⟨(v', x'), ?_, hnew⟩
           simp [forward_for1, hf, hjb, hj0]
           done))
  simpa [Rs.enumerate] using this

/-- the final sum over the last row of the finished table -/
theorem final_eq (z : Nat) (m : Hmm) (obs : List Nat) (h : obs ≠ []) (vals' : List (List Nat))
    (hinv : Inv m obs obs.length vals') :
    List.mapM (forward_map2 (natOps z) (hmmOps m) obs vals') (List.range m.S)
        = Res.ok ((List.range m.S).map fun k => ix (fcol m obs (obs.length - 1)) k * m.fin k) ∧
      ((List.range m.S).map fun k => ix (fcol m obs (obs.length - 1)) k * m.fin k).sum = Hmm.forward m obs ∧
      vals' = (List.range obs.length).map (fcol m obs) := by
  have hn : 0 < obs.length := List.length_pos_iff.mpr h
  have hlast := hinv.2.1 (obs.length - 1) (by omega)
  have e1 : Rs.sub obs.length 1 = Res.ok (obs.length - 1) := sub_one_ok hn
  have hm : ∀ k, k < m.S → forward_map2 (natOps z) (hmmOps m) obs vals' k
      = Res.ok (ix (fcol m obs (obs.length - 1)) k * m.fin k) := by
    intro k hk
    have e2 : Rs.get2 vals' (obs.length - 1) k = Res.ok (ix (fcol m obs (obs.length - 1)) k) := by
      rw [get2_ok hlast (by rw [fcol_length]; exact hk), ix_eq_getElem (by rw [fcol_length]; exact hk)]
    first
      | (simp [forward_map2, e1, e2]; done)
      | (simp [forward_map2, e1, e2, Nat.mul_comm]; done)
  refine ⟨mapM_range_ok m.S hm, ?_, table_ext hinv.1 hinv.2.1⟩
  have := fwdFrom_fcol m obs (obs.length - 1) (by omega)
  rw [show obs.length - 1 + 1 = obs.length by omega, List.drop_length] at this
  rw [← this]; rfl

/-- **`hmm::forward` as written in the source = the mirror model**, at exact weights: for every model and every non-empty
observation sequence the translated function returns, without panic, the table of forward columns and the model's
likelihood -/
theorem forward_eq_model (z : Nat) (m : Hmm) (obs : List Nat) (h : obs ≠ []) :
    Gen.SrcHmmForward.forward (natOps z) (hmmOps m) obs
      = Res.ok ((List.range obs.length).map (fcol m obs), Hmm.forward m obs) := by
  have h0 : Inv m obs 0 (Rs.zeros2 z obs.length m.S) :=
    ⟨zeros2_length _ _ _, fun t ht => absurd ht (by omega),
      fun t _ ht => ⟨_, zeros2_getElem? z _ _ t ht, by simp⟩⟩
  first
    | (obtain ⟨vals', hf, hinv⟩ := for1_eq z m obs (Rs.zeros2 z obs.length m.S) h0
       simp only [HasVals.get_plain] at hinv
       obtain ⟨hmap, hval, htab⟩ := final_eq z m obs h vals' hinv
       simp [Gen.SrcHmmForward.forward, hf, hmap, hval, ← htab]
       done)
    | (obtain ⟨⟨vals', xs'⟩, hf, hinv⟩ := for1_eq z m obs (Rs.zeros2 z obs.length m.S, ([] : List Nat)) h0
       simp only [HasVals.get_pair] at hinv
       obtain ⟨hmap, hval, htab⟩ := final_eq z m obs h vals' hinv
       simp [Gen.SrcHmmForward.forward, hf, hmap, hval, ← htab]
       done)

end RbV.Thm.GenSrcHmmForward
