import RbV.Thm.GenSrcWavelet
import RbV.Thm.GenSrcRankSelect
import RbV.Thm.GenSrcSelect
import RbV.Thm.GenSrcWaveletNew
import RbV.Lemmas.Wavelet
/-!
# Composition: the translated `WaveletMatrix::rank` over the translated `RankSelect::rank_0/1`

`self.levels` is instantiated with pairs (bit vector of the level, superblock table of `RankSelect::new(bits, 1)`), the
abstract `rank_0` / `rank_1` of `Gen/SrcWavelet.lean` with the translated `RankSelect::rank_0/1` of
`Gen/SrcRankSelect.lean` on such a pair.  `levels_ok` shows that the levels the wavelet mirror model builds satisfy
`LevelsOk`; the composition theorems themselves are stated in `Thm/C17.lean`.
-/
namespace RbV.Thm.GenSrcWaveletCompose
open RbV RbV.Rs
open RbV.Model.Wavelet (Level bitOf buildLevels rkSpec)
open RbV.Model.RankSelect (SbRank getBlock)
open RbV.Thm.GenSrcRankSelect (blockByte)
open RbV.Thm.GenSrcWavelet (LevelsOk)

/-- a `RankSelect` as `WaveletMatrix::new` builds it (`RankSelect::new(curr_bits, 1)`): bits and 1-superblocks -/
abbrev RS := List Bool × List SbRank

def mkRS (lv : Level) : RS := (lv.bits, Model.RankSelect.superblocks true lv.bits.length (1 * 32) (getBlock lv.bits))

/-- the translated `RankSelect::rank_1` / `rank_0` on such a pair (`n = bits.len()`, `s = 32`, `k = 1`) -/
def srcRank1 (bl : List Bool → Nat) (cd8 : Nat → Nat) (r : RS) (i : Nat) : Res (Option Nat) :=
  Gen.SrcRankSelect.rank1 (σ := SbRank) blockByte List.length bl cd8 SbRank.first SbRank.some SbRank.val
    r.1.length r.1 r.2 [] (1 * 32) 1 i
def srcRank0 (bl : List Bool → Nat) (cd8 : Nat → Nat) (r : RS) (i : Nat) : Res (Option Nat) :=
  Gen.SrcRankSelect.rank0 (σ := SbRank) blockByte List.length bl cd8 SbRank.first SbRank.some SbRank.val
    r.1.length r.1 r.2 [] (1 * 32) 1 i

/-- every level built by the mirror model has `|cur|` bits and stores its number of zeros -/
theorem buildLevels_wf (code : Nat → Nat) : ∀ (todo : Nat) (cur : List Nat) (lv : Level),
    lv ∈ buildLevels code todo cur → lv.bits.length = cur.length ∧ lv.zeros = lv.bits.count false := by
  intro todo
  induction todo with
  | zero => intro cur lv h; simp [buildLevels] at h
  | succ t ih =>
    intro cur lv h
    simp only [buildLevels, List.mem_cons] at h
    rcases h with rfl | h
    · refine ⟨by simp, ?_⟩
      simp only
      rw [RbV.Lemmas.Wavelet.count_map_eq_countP, List.countP_eq_length_filter]
      congr 1
      apply List.filter_congr
      intro x _
      cases bitOf code t x <;> rfl
    · have := ih _ lv h
      refine ⟨?_, this.2⟩
      rw [this.1, List.length_append]
      have hl := List.length_eq_countP_add_countP (fun v => bitOf code t v) (l := cur)
      simp only [List.countP_eq_length_filter] at hl
      rw [hl, Nat.add_comm]
      congr 2
      apply List.filter_congr
      intro x _
      cases bitOf code t x <;> rfl

theorem levels_ok (bl : List Bool → Nat) (cd8 : Nat → Nat) (code : Nat → Nat) (todo : Nat) (text : List Nat)
    (hn : text.length < 2 ^ 60) :
    LevelsOk (srcRank0 bl cd8) (srcRank1 bl cd8) text.length ((buildLevels code todo text).map (·.zeros))
      ((buildLevels code todo text).map mkRS) (buildLevels code todo text) where
  len := by simp
  zs := rfl
  wf := fun lv h => buildLevels_wf code todo text lv h
  rk := by
    intro level r lv hr hl i
    rw [List.getElem?_map, hl] at hr
    have hr' : r = mkRS lv := (Option.some.inj hr).symm
    subst hr'
    have hlen := (buildLevels_wf code todo text lv (List.mem_of_getElem? hl)).1
    have := RbV.Thm.GenSrcRankSelect.rank_on_superblocks bl cd8 lv.bits 1 (by omega) (by omega) [] i
    exact this

/-! ### the whole struct, as the translated `RankSelect::new` returns it (gensel) -/
open RbV.Thm.GenSrcRankSelect (CeilOk)

/-- `struct RankSelect { n, bits, superblocks_1, superblocks_0, s, k }` as the tuple the translation uses -/
abbrev RSF := Nat × List Bool × List SbRank × List SbRank × Nat × Nat

/-- what `RankSelect::new(bits, 1)` builds (`new_eq_model`) -/
def mkRSF (bits : List Bool) : RSF :=
  (bits.length, bits, Model.RankSelect.superblocks true bits.length (1 * 32) (getBlock bits),
    Model.RankSelect.superblocks false bits.length (1 * 32) (getBlock bits), 1 * 32, 1)

/-- the translated `RankSelect::new` -/
def srcRsNew (bl : List Bool → Nat) (cd8 : Nat → Nat) (bits : List Bool) (k : Nat) : Res RSF :=
  Gen.SrcRankSelect.new (σ := SbRank) blockByte List.length bl cd8 SbRank.first SbRank.some SbRank.val bits k

/-- the translated `RankSelect::rank_1` / `rank_0` on the fields of such a struct -/
def srcRank1F (bl : List Bool → Nat) (cd8 : Nat → Nat) (r : RSF) (i : Nat) : Res (Option Nat) :=
  Gen.SrcRankSelect.rank1 (σ := SbRank) blockByte List.length bl cd8 SbRank.first SbRank.some SbRank.val
    r.1 r.2.1 r.2.2.1 r.2.2.2.1 r.2.2.2.2.1 r.2.2.2.2.2 i
def srcRank0F (bl : List Bool → Nat) (cd8 : Nat → Nat) (r : RSF) (i : Nat) : Res (Option Nat) :=
  Gen.SrcRankSelect.rank0 (σ := SbRank) blockByte List.length bl cd8 SbRank.first SbRank.some SbRank.val
    r.1 r.2.1 r.2.2.1 r.2.2.2.1 r.2.2.2.2.1 r.2.2.2.2.2 i

theorem srcRsNew_one (bl : List Bool → Nat) (cd8 : Nat → Nat) (bits : List Bool) (hlen : bits.length < 2 ^ 60)
    (hcd : CeilOk cd8 bits.length) : srcRsNew bl cd8 bits 1 = Res.ok (mkRSF bits) :=
  RbV.Thm.GenSrcSelect.new_eq_model bl cd8 bits 1 (by omega) (by omega) hlen hcd

theorem levels_ok_full (bl : List Bool → Nat) (cd8 : Nat → Nat) (code : Nat → Nat) (todo : Nat) (text : List Nat)
    (hn : text.length < 2 ^ 60) :
    LevelsOk (srcRank0F bl cd8) (srcRank1F bl cd8) text.length ((buildLevels code todo text).map (·.zeros))
      ((buildLevels code todo text).map (fun lv => mkRSF lv.bits)) (buildLevels code todo text) where
  len := by simp
  zs := rfl
  wf := fun lv h => buildLevels_wf code todo text lv h
  rk := by
    intro level r lv hr hl i
    rw [List.getElem?_map, hl] at hr
    have hr' : r = mkRSF lv.bits := (Option.some.inj hr).symm
    subst hr'
    have hlen := (buildLevels_wf code todo text lv (List.mem_of_getElem? hl)).1
    have := RbV.Thm.GenSrcRankSelect.rank_on_superblocks bl cd8 lv.bits 1 (by omega) (by omega)
      (Model.RankSelect.superblocks false lv.bits.length (1 * 32) (getBlock lv.bits)) i
    exact this

end RbV.Thm.GenSrcWaveletCompose
