import RbV.Gen.SrcGff
import RbV.Thm.GenSrcBed
import RbV.Model.Tsv
/-! `gff::Writer::write` and `GffType::separator` as written (`RbV/Gen/SrcGff.lean`, regenerated from `src/io/gff.rs` on every
`./check C13`) against the format model `RbV/Model/Tsv.lean`.  Builder gengff.

The `MultiMap` of a record is the list of its key groups in the map's own iteration order (arbitrary); the theorems hold for every
such list.  `csv::Writer::serialize` is abstract (`GenSrcBed.csvSerialize` = the csv writer model is its contract). -/
set_option linter.unusedSimpArgs false
set_option linter.unusedVariables false
namespace RbV.Thm.GenSrcGff
open RbV RbV.Rs RbV.Tsv RbV.Gen.SrcGff
open RbV.Thm.GenSrcBed (csvSerialize)

/-- the model record of a source record: attributes = the key groups in the iteration order of the map -/
def toModel (r : Record) : GffRec :=
  ⟨r.seqname, r.source, r.feature_type, r.start, r.end', r.score, r.strand, r.phase, r.attributes⟩

/-- the writer's three delimiter fields are those of dialect `d` (what `Writer::new` stores: `delim as char`, the one-byte
string of `termi`, `vdelim`); several values of a key are repeated keys exactly when there is no value delimiter (NUL) -/
structure WriterFor (d : Dialect) (self : Writer) : Prop where
  delim : self.delimiter = d.delim
  term : self.terminator = [d.term]
  vdelim : self.value_delimiter = d.vdelim
  rep : d.repeatKeys = decide (d.vdelim = 0)
  delimAscii : d.delim < 128
  vdelimAscii : d.vdelim < 128

theorem joinStr_single (c : Nat) (xs : List (List Nat)) : Rs.joinStr [c] xs = join c xs := by
  induction xs with
  | nil => rfl
  | cons p r ih =>
    cases r with
    | nil => rfl
    | cons q r => simp only [Rs.joinStr, join, ih, List.append_assoc, List.singleton_append]

theorem join_append (c : Nat) (a b : List (List Nat)) (ha : a ≠ []) (hb : b ≠ []) :
    join c (a ++ b) = join c a ++ c :: join c b := by
  induction a with
  | nil => exact absurd rfl ha
  | cons p r ih =>
    cases r with
    | nil =>
      cases b with
      | nil => exact absurd rfl hb
      | cons q s => simp [join]
    | cons q r =>
      have := ih (by simp)
      simp only [List.cons_append, join, List.append_assoc] at this ⊢
      rw [this]

theorem join_flatMap {α : Type} (c : Nat) (f : α → List (List Nat)) (g : List α) (hf : ∀ x ∈ g, f x ≠ []) :
    join c (g.flatMap f) = join c (g.map fun x => join c (f x)) := by
  induction g with
  | nil => rfl
  | cons x rest ih =>
    have ih' := ih (fun y hy => hf y (List.mem_cons_of_mem _ hy))
    cases rest with
    | nil => simp [join]
    | cons y rest =>
      have hne : (y :: rest).flatMap f ≠ [] := by
        have := hf y (by simp)
        simp only [List.flatMap_cons]
        intro h
        exact this (List.append_eq_nil_iff.mp h).1
      rw [List.flatMap_cons, join_append c _ _ (hf x (by simp)) hne, ih']
      simp [join]

theorem serPhase_eq (p : Option Nat) : Rs.serPhase toDec p = phaseStr p := by
  cases p <;> rfl

/-- the attribute column in the two shapes of the text -/
theorem col_repeat (t dl vd : Nat) (g : List (List Nat × List (List Nat))) (hg : ∀ kv ∈ g, kv.2 ≠ []) :
    join t (g.map fun kv => join t (kv.2.map fun b => kv.1 ++ ([dl] ++ b))) = writeAttrs ⟨dl, t, vd, true⟩ g := by
  unfold writeAttrs segments
  simp only [if_true]
  rw [List.map_flatMap, join_flatMap]
  · simp [List.map_map, Function.comp_def, renderSeg]
  · intro kv hkv; simpa using hg kv hkv

theorem col_joined (t dl vd : Nat) (g : List (List Nat × List (List Nat))) :
    join t (g.map fun kv => kv.1 ++ ([dl] ++ join vd kv.2)) = writeAttrs ⟨dl, t, vd, false⟩ g := by
  have hs : ∀ (f : List Nat × List (List Nat) → List Nat × List Nat) (g : List (List Nat × List (List Nat))),
      g.flatMap (fun kv => [f kv]) = g.map f := by
    intro f g
    induction g with
    | nil => rfl
    | cons x r ih => simp [List.flatMap_cons, ih]
  unfold writeAttrs segments
  simp only [Bool.false_eq_true, if_false]
  rw [hs, List.map_map]
  rfl

/- the shape-independent core of `write_fields`: the goal is reduced to the attribute column, the outer test is decided by a
case split on the map being empty (either polarity), the closure is compared pointwise under `vd = 0` / `vd ≠ 0` (either branch
order, either operand order).  `G` = the list of key groups the text iterates over (the map's own order, or `permGroups` of it). -/
set_option hygiene false in
macro "gff_core " G:term : tactic => `(tactic| (
  have hG : ∀ kv ∈ $G, kv.2 ≠ [] := fun kv hkv => hg kv (((hP : List.Perm $G r.attributes).mem_iff).mp hkv)
  simp only [write, Rs.csvFields, gffFields, toModel, serPhase_eq, List.flatten_cons, List.flatten_nil, List.singleton_append,
    List.append_nil, List.cons_append, List.nil_append]
  congr 1
  simp only [List.cons.injEq, and_true, true_and]
  cases hr : r.attributes with
  | nil =>
    have hGnil : $G = [] := List.Perm.eq_nil (hr ▸ hP)
    try rw [hr] at hGnil
    simp [hnil, hGnil]
  | cons kv rest =>
    rw [← hr]
    have hne : List.isEmpty r.attributes = false := by simp [hr]
    simp only [hne, Bool.not_false, Bool.not_true, if_true, if_false, Bool.false_eq_true, joinStr_single]
    by_cases hv : vd = 0
    · have hrep : rep = true := by simp [h4, hv]
      subst hrep
      rw [← col_repeat t dl vd $G hG]
      congr 1
      apply List.map_congr_left
      rintro ⟨a, values⟩ _
      simp [hv, e1, joinStr_single]
    · have hrep : rep = false := by simp [h4, hv]
      have hv' : ¬ 0 = vd := fun h => hv h.symm          -- the test written `0u8 == self.value_delimiter`
      subst hrep
      rw [← col_joined t dl vd $G]
      congr 1
      apply List.map_congr_left
      rintro ⟨a, values⟩ _
      simp [hv, hv', e1, e2, joinStr_single]))

/-- **the nine columns and the attribute column, up to the order of the key groups**: for every csv writer `serialize` and every
sorting routine (`permGroups`: any function that permutes its argument — what `sort…` on a list of key groups is read as), a
writer configured for dialect `d` hands csv the fields `gffFields d` of the record — seqname, source, type, start, end, score,
strand, phase, and the attribute column `writeAttrs d` over **some permutation** `g'` of the map's key groups (every key has at
least one value: `MultiMap` invariant).  The witness is the map's own iteration order when the text does not sort (`write_fields`),
its sorted form when it does (seeded C13-H1). -/
theorem write_fields_perm {ω ρ : Type} (serialize : ω → List (List Nat) → ρ)
    (perm : List (List Nat × List (List Nat)) → List (List Nat × List (List Nat))) (hperm : ∀ l, (perm l).Perm l)
    (inner : ω) (d : Dialect) (self : Writer) (r : Record)
    (hw : WriterFor d self) (hg : ∀ kv ∈ r.attributes, kv.2 ≠ []) :
    ∃ g', g'.Perm r.attributes ∧
      write serialize toDec perm inner self r = serialize inner (gffFields d { toModel r with attrs := g' }) := by
  obtain ⟨dl, t, vd, rep⟩ := d
  obtain ⟨sd, st, sv⟩ := self
  obtain ⟨h1, h2, h3, h4, h5, h6⟩ := hw
  simp only at h1 h2 h3 h4 h5 h6
  subst h2
  rw [← h1, ← h3] at *
  clear h1 h3 dl vd
  generalize sd = dl at *
  generalize sv = vd at *
  have e1 := Rs.charStr_ascii dl h5
  have e2 := Rs.charStr_ascii vd h6
  have hnil : writeAttrs ⟨dl, t, vd, rep⟩ [] = [] := rfl
  first
    | (refine ⟨r.attributes, List.Perm.refl _, ?_⟩
       have hP : List.Perm r.attributes r.attributes := List.Perm.refl _
       gff_core r.attributes)
    | (refine ⟨perm r.attributes, hperm _, ?_⟩
       have hP : List.Perm (perm r.attributes) r.attributes := hperm _
       gff_core (perm r.attributes))

/-- the delimiters of a `GffType` as the model's `Dialect` -/
def dialectOf (ty : GffType) : Dialect :=
  let s := separator ty
  ⟨s.1, s.2.1, s.2.2, decide (s.2.2 = 0)⟩

/-- **`GffType::separator` = the dialects of the model**: GFF3 is `= ; ,`, GFF2 and GTF2 are blank `;` NUL with repeated keys -/
theorem separator_eq_model :
    dialectOf .GFF3 = gff3 ∧ dialectOf .GFF2 = gff2 ∧ dialectOf .GTF2 = gff2 ∧
    ∀ x y z, separator (.Any x y z) = (x, y, z) := by
  refine ⟨by decide, by decide, by decide, fun _ _ _ => rfl⟩

/-- what `Writer::new` stores for a `GffType` (delimiter `delim as char`, terminator `String::from_utf8(vec![termi])`, value
delimiter) — read off the constructor, not translated -/
def writerOf (ty : GffType) : Writer :=
  let s := separator ty
  { delimiter := s.1, terminator := [s.2.1], value_delimiter := s.2.2 }

/-- **`Writer::new` as written** stores what `writerOf` says (delimiter `delim as char`, the one-byte string of `termi`,
`vdelim`) whenever the terminator is ASCII, and panics otherwise (`String::from_utf8(vec![termi]).unwrap()`); the csv builder
chain `delimiter(b'\t').flexible(true).from_writer(writer)` is pinned by the translation spec (the contract `csvSerialize`) -/
theorem writerNew_eq_model (ty : GffType) :
    writerNew ty = if (separator ty).2.1 < 128 then .ok (writerOf ty) else .panic := by
  unfold writerNew writerOf Rs.fromUtf8One
  by_cases h : (separator ty).2.1 < 128 <;> simp [h]

theorem writerFor_gff3 : WriterFor gff3 (writerOf .GFF3) := ⟨rfl, rfl, rfl, by decide, by decide, by decide⟩
theorem writerFor_gff2 : WriterFor gff2 (writerOf .GFF2) := ⟨rfl, rfl, rfl, by decide, by decide, by decide⟩
theorem writerFor_gtf2 : WriterFor gff2 (writerOf .GTF2) := ⟨rfl, rfl, rfl, by decide, by decide, by decide⟩

-- Tag=x,y;I=z (GFF3) and `T x;T y;I z` (GFF2): multi-valued keys are written with all their values
example : (write csvSerialize (fun n => [48 + n]) id [] (writerOf .GFF3)
      ⟨[99], [46], [103], 1, 2, [46], [43], none, [([84], [[120], [121]]), ([73], [[122]])]⟩).2
    = [99, 9, 46, 9, 103, 9, 49, 9, 50, 9, 46, 9, 43, 9, 46, 9, 84, 61, 120, 44, 121, 59, 73, 61, 122, 10] := by decide
example : (write csvSerialize (fun n => [48 + n]) id [] (writerOf .GFF2)
      ⟨[99], [46], [103], 1, 2, [46], [43], some 0, [([84], [[120], [121]]), ([73], [[122]])]⟩).2
    = [99, 9, 46, 9, 103, 9, 49, 9, 50, 9, 46, 9, 43, 9, 48, 9, 84, 32, 120, 59, 84, 32, 121, 59, 73, 32, 122, 10] := by decide

end RbV.Thm.GenSrcGff
