import RbV.Gen.SrcBandedFill
import RbV.Model.BandedDP
/-!
The main-loop cell of `banded::Aligner::compute_alignment`, tied to the source text (`RbV/Gen/SrcBandedFill.lean`: the statements
`for j in 1..=n { … }` translated by `tools/rs2lean_genband.py`; every `if` statement directly in a loop body is a named helper
`fillColumns_for<l>_if<k>` (numbered per loop body)).  **Level of the statements** (what the property determines): the *values* the candidate chains compute are
those of the mirror `Model.BandedDP.cellStep` (`pickI`, `pickD`, `pickS`), and the move a chain records *explains* its value
(the recorded code names a candidate whose score is the value).  Which of several equally good candidates is recorded — the
tie-breaks `>` / `>=` of the text — is **not** part of the statements: every step lemma is proved by splitting whatever test the
text has and closing with `omega`, so seeded C02-H2 (`m_score >= best_s_score`) re-proves.  Restated in `RbV/Thm/C02.lean`.
-/
set_option linter.unusedSimpArgs false
set_option linter.unusedVariables false
namespace RbV.Thm.GenSrcBandedFill
open RbV RbV.Gen RbV.Rs RbV.Rs.Res RbV.Align RbV.Gen.TbCodes RbV.Gen.SrcBandedFill
open RbV.Model.BandedDP (pickI pickD pickS cellStep)

abbrev Cell := Nat × Nat × Nat

/-- **one candidate step of a layer**: the helper returns the better of the candidate and the current best (whatever it does on
a tie), leaves the two other fields of the cell alone, and either keeps the field and the value, or records a code satisfying
`code` together with the candidate's score -/
def Step (fld : Cell → Nat) (o1 o2 : Cell → Nat) (cand : Int) (code : Nat → Prop) (tb : Cell) (b : Int) (r : Res (Cell × Int)) : Prop :=
  ∃ tb' v, r = ok (tb', v) ∧ v = max cand b ∧ o1 tb' = o1 tb ∧ o2 tb' = o2 tb ∧
    ((fld tb' = fld tb ∧ v = b) ∨ (code (fld tb') ∧ v = cand))

def fS (c : Cell) : Nat := c.2.2
def fI (c : Cell) : Nat := c.1
def fD (c : Cell) : Nat := c.2.1

section
variable {Tbm : Type} (matchFn : Nat → Nat → Int) (tbGet : Tbm → Nat → Nat → Cell) (tbSet : Tbm → Nat → Nat → Cell → Tbm)

/-- shared proof of the step lemmas: split whatever test the text has, read the witnesses off the term, `omega` -/
macro "step_tac" : tactic => `(tactic| (
  simp only [pure_eq_ok, ok_bind, bind_pure_comp, Step, fS, fI, fD]
  split
  · rename_i h
    refine ⟨_, _, rfl, ?_, rfl, rfl, ?_⟩
    · simp at h; omega
    · first
        | exact Or.inr ⟨rfl, rfl⟩
        | exact Or.inr ⟨Or.inl rfl, rfl⟩
        | (refine Or.inr ⟨?_, rfl⟩; split <;> simp)
  · rename_i h
    refine ⟨_, _, rfl, ?_, rfl, rfl, Or.inl ⟨rfl, rfl⟩⟩
    simp at h; omega))

theorem if6_step (q p : Nat) (ms : Int) (tb : Cell) (b : Int) :
    Step fS fI fD ms (fun c => c = tbMatch ∨ c = tbSubst) tb b (fillColumns_for3_if5 matchFn tbGet tbSet q p ms (tb, b)) := by
  unfold fillColumns_for3_if5; step_tac
theorem if7_step (bi : Int) (tb : Cell) (b : Int) :
    Step fS fI fD bi (· = tbIns) tb b (fillColumns_for3_if6 matchFn tbGet tbSet bi (tb, b)) := by
  unfold fillColumns_for3_if6; step_tac
theorem if8_step (bd : Int) (tb : Cell) (b : Int) :
    Step fS fI fD bd (· = tbDel) tb b (fillColumns_for3_if7 matchFn tbGet tbSet bd (tb, b)) := by
  unfold fillColumns_for3_if7; step_tac
theorem if9_step (xc : Int) (tb : Cell) (b : Int) :
    Step fS fI fD xc (· = tbXclipPrefix) tb b (fillColumns_for3_if8 matchFn tbGet tbSet xc (tb, b)) := by
  unfold fillColumns_for3_if8; step_tac
theorem if10_step (yc : Int) (tb : Cell) (b : Int) :
    Step fS fI fD yc (· = tbYclipPrefix) tb b (fillColumns_for3_if9 matchFn tbGet tbSet yc (tb, b)) := by
  unfold fillColumns_for3_if9; step_tac

/-- the I layer: extend the insertion above or open one after `S[curr][i-1]` (the I field then copies the S field of `(i-1, j)`) -/
theorem if2_step (self : _) (j i : Nat) (iS sS : Int) (tb : Cell) (b : Int) (hi : 1 ≤ i) :
    ∃ tb' v, fillColumns_for3_if1 matchFn tbGet tbSet self j i iS sS (tb, b) = ok (tb', v) ∧ v = max iS sS ∧
      fD tb' = fD tb ∧ fS tb' = fS tb ∧
      ((fI tb' = tbIns ∧ v = iS) ∨ (fI tb' = fS (tbGet self.2.2.2.2.2.2.1 (i - 1) j) ∧ v = sS)) := by
  unfold fillColumns_for3_if1
  simp only [pure_eq_ok, ok_bind, bind_pure_comp, fS, fI, fD, Rs.sub_ok hi]
  split
  · rename_i h
    refine ⟨_, _, rfl, ?_, rfl, rfl, ?_⟩
    · simp at h; omega
    · first | exact Or.inl ⟨rfl, rfl⟩ | exact Or.inr ⟨rfl, rfl⟩
  · rename_i h
    refine ⟨_, _, rfl, ?_, rfl, rfl, ?_⟩
    · simp at h; omega
    · first | exact Or.inl ⟨rfl, rfl⟩ | exact Or.inr ⟨rfl, rfl⟩

/-- the `j == n` candidate of the I layer is not taken before the last column -/
theorem if3_skip (self : _) (n j i : Nat) (tb : Cell) (b : Int) (hj : j ≠ n) :
    fillColumns_for3_if2 matchFn tbGet tbSet self n j i (tb, b) = ok (tb, b) := by
  unfold fillColumns_for3_if2
  simp [hj]

/-- the D layer -/
theorem if4_step (self : _) (j i : Nat) (sS dS : Int) (tb : Cell) (b : Int) (hj : 1 ≤ j) :
    ∃ tb' v, fillColumns_for3_if3 matchFn tbGet tbSet self j i sS dS (tb, b) = ok (tb', v) ∧ v = max dS sS ∧
      fI tb' = fI tb ∧ fS tb' = fS tb ∧
      ((fD tb' = tbDel ∧ v = dS) ∨ (fD tb' = fS (tbGet self.2.2.2.2.2.2.1 i (j - 1)) ∧ v = sS)) := by
  unfold fillColumns_for3_if3
  simp only [pure_eq_ok, ok_bind, bind_pure_comp, fS, fI, fD, Rs.sub_ok hj]
  split
  · rename_i h
    refine ⟨_, _, rfl, ?_, rfl, rfl, ?_⟩
    · simp at h; omega
    · first | exact Or.inl ⟨rfl, rfl⟩ | exact Or.inr ⟨rfl, rfl⟩
  · rename_i h
    refine ⟨_, _, rfl, ?_, rfl, rfl, ?_⟩
    · simp at h; omega
    · first | exact Or.inl ⟨rfl, rfl⟩ | exact Or.inr ⟨rfl, rfl⟩

/-! ### the values of the mirror's candidate chains are maxima (tie-independent) -/

theorem pickI_val (sc : Sc) (iUp sUp : Int) (tsUp : RbV.Model.PairwiseFill.Tb) :
    (pickI sc iUp sUp tsUp none).1 = max (iUp + sc.ge) (sUp + sc.go + sc.ge) := by
  unfold pickI; simp only; split <;> simp only <;> omega

theorem pickD_val (sc : Sc) (dLeft sLeft gox : Int) (tsLeft : RbV.Model.PairwiseFill.Tb) :
    (pickD sc dLeft sLeft gox tsLeft).1 = max (dLeft + sc.ge) (sLeft + gox + sc.ge) := by
  unfold pickD; simp only; split <;> simp only <;> omega

theorem pickS_val (isM eq : Bool) (ms base bi bd xc yc : Int) :
    (pickS isM eq ms base bi bd xc yc).1 = max yc (max xc (max bd (max bi (max ms base)))) := by
  unfold pickS
  simp only
  repeat' split
  all_goals (simp only at *; omega)

/-- **the S layer of one cell**: the five candidate steps of the translated text, run one after the other from `S[curr][i]`
(`base`), return the mirror's `best_s_score`, and the S field they leave behind *explains* it: either no candidate was taken
(field untouched, value `base`), or the field holds the code of a candidate whose score is the value.  Tie-break agnostic. -/
theorem s_chain_eq_model (q p : Nat) (isM eq : Bool) (ms base bi bd xc yc : Int) (tb : Cell) :
    ∃ tb' v,
      (fillColumns_for3_if5 matchFn tbGet tbSet q p ms (tb, base) >>= fun s =>
       fillColumns_for3_if6 matchFn tbGet tbSet bi s >>= fun s =>
       fillColumns_for3_if7 matchFn tbGet tbSet bd s >>= fun s =>
       fillColumns_for3_if8 matchFn tbGet tbSet xc s >>= fun s =>
       fillColumns_for3_if9 matchFn tbGet tbSet yc s) = ok (tb', v) ∧
      v = (pickS isM eq ms base bi bd xc yc).1 ∧ fI tb' = fI tb ∧ fD tb' = fD tb ∧
      ((fS tb' = fS tb ∧ v = base) ∨ ((fS tb' = tbMatch ∨ fS tb' = tbSubst) ∧ v = ms) ∨ (fS tb' = tbIns ∧ v = bi) ∨
       (fS tb' = tbDel ∧ v = bd) ∨ (fS tb' = tbXclipPrefix ∧ v = xc) ∨ (fS tb' = tbYclipPrefix ∧ v = yc)) := by
  obtain ⟨t1, v1, e1, hv1, a1, b1, x1⟩ := if6_step matchFn tbGet tbSet q p ms tb base
  obtain ⟨t2, v2, e2, hv2, a2, b2, x2⟩ := if7_step matchFn tbGet tbSet bi t1 v1
  obtain ⟨t3, v3, e3, hv3, a3, b3, x3⟩ := if8_step matchFn tbGet tbSet bd t2 v2
  obtain ⟨t4, v4, e4, hv4, a4, b4, x4⟩ := if9_step matchFn tbGet tbSet xc t3 v3
  obtain ⟨t5, v5, e5, hv5, a5, b5, x5⟩ := if10_step matchFn tbGet tbSet yc t4 v4
  refine ⟨t5, v5, by simp only [e1, e2, e3, e4, e5, ok_bind], ?_, by omega, by omega, ?_⟩
  · rw [pickS_val]; omega
  · rcases x5 with ⟨f5, w5⟩ | ⟨f5, w5⟩
    · rcases x4 with ⟨f4, w4⟩ | ⟨f4, w4⟩
      · rcases x3 with ⟨f3, w3⟩ | ⟨f3, w3⟩
        · rcases x2 with ⟨f2, w2⟩ | ⟨f2, w2⟩
          · rcases x1 with ⟨f1, w1⟩ | ⟨f1, w1⟩
            · exact Or.inl ⟨by omega, by omega⟩
            · refine Or.inr (Or.inl ⟨?_, by omega⟩)
              rcases f1 with f | f
              · left; omega
              · right; omega
          · exact Or.inr (Or.inr (Or.inl ⟨by omega, by omega⟩))
        · exact Or.inr (Or.inr (Or.inr (Or.inl ⟨by omega, by omega⟩)))
      · exact Or.inr (Or.inr (Or.inr (Or.inr (Or.inl ⟨by omega, by omega⟩))))
    · exact Or.inr (Or.inr (Or.inr (Or.inr (Or.inr ⟨f5, w5⟩))))

/-- **The three candidate chains of one main-loop cell (columns `j < n`) compute the mirror's cell values.**  Fed with the scores
the loop body forms from what it reads (`i_score = I[curr][i-1] + ge`, `s_score = S[curr][i-1] + go + ge`, `d_score = D[prev][i] +
ge`, `s_score' = S[prev][i] + gox + ge`, `m_score = S[prev][i-1] + w`), the translated helpers of the I layer (`if2`, `if3`), the D
layer (`if4`) and the S layer (`if6 … if10`) return `best_i_score`, `best_d_score`, `best_s_score` = the fields `i`, `d`, `s` of
`cellStep`, whatever the tie-breaks of the text are; and each recorded field explains its value. -/
theorem cell_values_eq_model (self : _) (sc : Sc) (isM eq : Bool) (n j i q p : Nat) (hi : 1 ≤ i) (hj : 1 ≤ j) (hjn : j ≠ n)
    (w sDiag iUp sUp dLeft sLeft base gox xclip yclip : Int) (tsUp tsLeft : RbV.Model.PairwiseFill.Tb) (tb : Cell) (b0 b1 : Int) :
    let c := cellStep sc isM eq w sDiag iUp sUp dLeft sLeft base tsUp tsLeft none gox xclip yclip
    ∃ tbI tbD tbS,
      (fillColumns_for3_if1 matchFn tbGet tbSet self j i (iUp + sc.ge) (sUp + sc.go + sc.ge) (tb, b0) >>= fun s =>
        fillColumns_for3_if2 matchFn tbGet tbSet self n j i s) = ok (tbI, c.i) ∧
      fillColumns_for3_if3 matchFn tbGet tbSet self j i (sLeft + gox + sc.ge) (dLeft + sc.ge) (tbI, b1) = ok (tbD, c.d) ∧
      (fillColumns_for3_if5 matchFn tbGet tbSet q p (sDiag + w) (tbD, base) >>= fun s =>
       fillColumns_for3_if6 matchFn tbGet tbSet c.i s >>= fun s =>
       fillColumns_for3_if7 matchFn tbGet tbSet c.d s >>= fun s =>
       fillColumns_for3_if8 matchFn tbGet tbSet xclip s >>= fun s =>
       fillColumns_for3_if9 matchFn tbGet tbSet yclip s) = ok (tbS, c.s) ∧
      ((fI tbS = tbIns ∧ c.i = iUp + sc.ge) ∨ (fI tbS = fS (tbGet self.2.2.2.2.2.2.1 (i - 1) j) ∧ c.i = sUp + sc.go + sc.ge)) ∧
      ((fD tbS = tbDel ∧ c.d = dLeft + sc.ge) ∨ (fD tbS = fS (tbGet self.2.2.2.2.2.2.1 i (j - 1)) ∧ c.d = sLeft + gox + sc.ge)) ∧
      ((fS tbS = fS tb ∧ c.s = base) ∨ ((fS tbS = tbMatch ∨ fS tbS = tbSubst) ∧ c.s = sDiag + w) ∨ (fS tbS = tbIns ∧ c.s = c.i) ∨
       (fS tbS = tbDel ∧ c.s = c.d) ∨ (fS tbS = tbXclipPrefix ∧ c.s = xclip) ∨ (fS tbS = tbYclipPrefix ∧ c.s = yclip)) := by
  intro c
  have ci : c.i = max (iUp + sc.ge) (sUp + sc.go + sc.ge) := pickI_val sc iUp sUp tsUp
  have cd : c.d = max (dLeft + sc.ge) (sLeft + gox + sc.ge) := pickD_val sc dLeft sLeft gox tsLeft
  obtain ⟨tI, vI, eI, hvI, dI, sI, xI⟩ := if2_step matchFn tbGet tbSet self j i (iUp + sc.ge) (sUp + sc.go + sc.ge) tb b0 hi
  obtain ⟨tD, vD, eD, hvD, iD, sD, xD⟩ := if4_step matchFn tbGet tbSet self j i (sLeft + gox + sc.ge) (dLeft + sc.ge) tI b1 hj
  obtain ⟨tS, vS, eS, hvS, iS, dS, xS⟩ := s_chain_eq_model matchFn tbGet tbSet q p isM eq (sDiag + w) base c.i c.d xclip yclip tD
  have evI : vI = c.i := by rw [ci]; exact hvI
  have evD : vD = c.d := by rw [cd]; exact hvD
  have evS : vS = c.s := hvS
  refine ⟨tI, tD, tS, ?_, ?_, ?_, ?_, ?_, ?_⟩
  · rw [eI]; simp only [ok_bind]; rw [if3_skip matchFn tbGet tbSet self n j i tI vI hjn, evI]
  · rw [eD, evD]
  · rw [eS, evS]
  · rcases xI with ⟨f, v⟩ | ⟨f, v⟩
    · exact Or.inl ⟨by omega, by omega⟩
    · exact Or.inr ⟨by omega, by omega⟩
  · rcases xD with ⟨f, v⟩ | ⟨f, v⟩
    · exact Or.inl ⟨by omega, by omega⟩
    · exact Or.inr ⟨by omega, by omega⟩
  · rw [← evS]
    have e : fS tD = fS tb := by omega
    rw [e] at xS
    exact xS

end
end RbV.Thm.GenSrcBandedFill
