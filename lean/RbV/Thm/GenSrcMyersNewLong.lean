import RbV.Thm.GenSrcMyersNew
import RbV.Thm.GenSrcMyersLongStep
import RbV.Lemmas.MyersLongAll
/-!
# `long::Myers::new_ambig` as written: one `Peq` (table of masks, `bound`) per chunk of `w` pattern symbols

Soft module (through `Thm/GenSrcMyersNewSoft.lean`): word-level and shape-dependent, like `Thm/GenSrcMyersNew.lean`.
`Rs.itChunks pattern w` (itertools `chunks`) = the model's `blocksOf w p`; per chunk the loops are those of simple.rs with an
explicit counter `i`; `bound = 1 << (i − 1)`.  Without text wildcards the result is the model's `peqL w (eqvA amb) (blocksOf w p)`.
-/
set_option linter.unusedSimpArgs false
set_option linter.unusedVariables false

namespace RbV.Thm.GenSrcMyersNewLong
open RbV RbV.Rs RbV.Model.MyersSimple RbV.Model.MyersLong RbV.Thm.GenSrc RbV.Thm.GenSrcMyersSimple RbV.Thm.GenSrcMyersNew
  RbV.Thm.GenSrcMyersLongStep

/-- itertools' `chunks(w)` of a non-empty pattern = the model's blocks -/
theorem itChunksGo_eq (w : Nat) : ∀ (fuel : Nat) (p : List Nat), p ≠ [] → Rs.itChunksGo w fuel p = chunks w fuel p := by
  intro fuel
  induction fuel with
  | zero => intro p _; rfl
  | succ fuel ih =>
    intro p hp
    rw [Rs.itChunksGo, chunks]
    by_cases h : p.length ≤ w
    · simp [h, hp]
    · simp only [h, if_false]
      rw [ih (p.drop w) (by intro e; have := congrArg List.length e; simp at this; omega)]

theorem itChunks_eq (w : Nat) (p : List Nat) (hw : 0 < w) (hp : p ≠ []) : Rs.itChunks p w = Res.ok (blocksOf w p) := by
  unfold Rs.itChunks blocksOf
  rw [if_neg (by omega), itChunksGo_eq w _ p hp]

/-- `for &eq in equivalents { peq_block[eq as usize] |= mask; }` -/
theorem for3_eq (w mask : Nat) : ∀ (eqs : List Nat) (f : Nat → Nat), (∀ e ∈ eqs, e < 256) →
    eqs.foldlM (RbV.Gen.SrcMyersLongCtor.newAmbig_for3 (w := w) (mask := mask)) (tab 256 f) =
      Res.ok (tab 256 (fun a => if eqs.contains a then f a ||| mask else f a)) := by
  intro eqs
  induction eqs with
  | nil => intro f _; simp
  | cons e r ih =>
    intro f h
    have he : e < 256 := h e (by simp)
    rw [List.foldlM_cons]
    simp only [RbV.Gen.SrcMyersLongCtor.newAmbig_for3, idx_tab 256 f e he, setIdx_tab 256 f e _ he, Res.ok_bind, Res.pure_eq_ok]
    rw [ih _ (fun x hx => h x (by simp [hx]))]
    congr 1
    apply congrArg
    funext a
    by_cases h1 : a = e
    · subst h1
      by_cases h2 : r.contains a
      · simp [h2, Nat.or_assoc]
      · simp [h2]
        intro _; rw [Nat.or_assoc, Nat.or_self]
    · have h1' : ¬ (e = a) := fun h => h1 h.symm
      simp [h1, h1', List.contains_cons, beq_iff_eq]

/-- `for &w in wildcards { peq_block[w as usize] = T::max_value(); }` -/
theorem for4_eq (w : Nat) : ∀ (ws : List Nat) (f : Nat → Nat), (∀ e ∈ ws, e < 256) →
    ws.foldlM (RbV.Gen.SrcMyersLongCtor.newAmbig_for4 (w := w)) (tab 256 f) =
      Res.ok (tab 256 (fun a => if ws.contains a then 2 ^ w - 1 else f a)) := by
  intro ws
  induction ws with
  | nil => intro f _; simp
  | cons e r ih =>
    intro f h
    have he : e < 256 := h e (by simp)
    rw [List.foldlM_cons]
    simp only [RbV.Gen.SrcMyersLongCtor.newAmbig_for4, setIdx_tab 256 f e _ he, Res.ok_bind, Res.pure_eq_ok, Rs.maxVal]
    rw [ih _ (fun x hx => h x (by simp [hx]))]
    congr 1
    apply congrArg
    funext a
    by_cases h1 : a = e
    · subst h1; by_cases h2 : r.contains a <;> simp [h2]
    · have h1' : ¬ (e = a) := fun h => h1 h.symm
      simp [h1, h1', List.contains_cons, beq_iff_eq]

/-- `for symbol in chunk { …; i += 1; }`: after the symbols `pre` of the chunk the table holds their masks and `i = |pre|` -/
theorem for2_eq (w : Nat) (amb : Option (List (Nat × List Nat))) (hamb : AmbOk amb) (hw64 : w < 2 ^ 64) :
    ∀ (rest pre : List Nat), pre.length + rest.length ≤ w → (∀ c ∈ rest, c < 256) →
      rest.foldlM (RbV.Gen.SrcMyersLongCtor.newAmbig_for2 (w := w) (opt_ambigs := amb))
          (tab 256 (fun a => (peq w (eqvA amb) pre a).toNat), pre.length) =
        Res.ok (tab 256 (fun a => (peq w (eqvA amb) (pre ++ rest) a).toNat), (pre ++ rest).length) := by
  intro rest
  induction rest with
  | nil => intro pre _ _; simp
  | cons x r ih =>
    intro pre hlen hb
    have hx : x < 256 := hb x (by simp)
    have hi : pre.length < w := by simp at hlen; omega
    rw [List.foldlM_cons]
    have hshl : Rs.shl w 1 pre.length = Res.ok (2 ^ pre.length) := Rs.shl_one_ok hi
    have hadd : Rs.add 64 pre.length 1 = Res.ok (pre.length + 1) := Rs.add_ok (by omega)
    simp only [RbV.Gen.SrcMyersLongCtor.newAmbig_for2, hshl, idx_tab 256 _ x hx, setIdx_tab 256 _ x _ hx, Res.ok_bind,
      Res.pure_eq_ok]
    have ha := hamb x
    unfold ambOf at ha
    have hfin : ∀ (c : Nat → Bool), (∀ a, eqvA amb x a = (decide (a = x) || c a)) →
        (tab 256 fun a => if c a then
            (if a = x then (peq w (eqvA amb) pre x).toNat ||| 2 ^ pre.length else (peq w (eqvA amb) pre a).toNat) ||| 2 ^ pre.length
          else if a = x then (peq w (eqvA amb) pre x).toNat ||| 2 ^ pre.length else (peq w (eqvA amb) pre a).toNat) =
          tab 256 (fun a => (peq w (eqvA amb) (pre ++ [x]) a).toNat) := by
      intro c hc
      apply congrArg
      funext a
      rw [peq_snoc w _ pre x a hi, snoc_word _ _ hi, hc a]
      by_cases h1 : a = x
      · subst h1
        have := upd_word (peq w (eqvA amb) pre a).toNat (2 ^ pre.length) true (c a)
        simpa using this
      · have := upd_word (peq w (eqvA amb) pre a).toNat (2 ^ pre.length) false (c a)
        simpa [h1] using this
    have hrec := ih (pre ++ [x]) (by simp at hlen ⊢; omega) (fun c hc => hb c (by simp [hc]))
    have hl1 : (pre ++ [x]).length = pre.length + 1 := by simp
    have hl2 : (pre ++ [x] ++ r) = pre ++ x :: r := by simp
    rw [hl1, hl2] at hrec
    cases hq : (amb.bind (fun m => Rs.hmGet m x)) with
    | none =>
      simp only [Res.ok_bind, hadd]
      have h0 := hfin (fun _ => false) (by
        intro a; unfold eqvA ambOf; rw [hq]
        by_cases h : a = x
        · subst h; simp
        · have : (x == a) = false := by simp; exact fun h' => h h'.symm
          simp [h, this])
      simp only [Bool.false_eq_true, if_false] at h0
      rw [h0]
      exact hrec
    | some eqs =>
      rw [hq] at ha
      simp only [Option.getD_some] at ha
      simp only [for3_eq w _ eqs _ ha, Res.ok_bind, hadd]
      have h0 := hfin (fun a => eqs.contains a) (by
        intro a; unfold eqvA ambOf; rw [hq]
        by_cases h : a = x
        · subst h; simp
        · have : (x == a) = false := by simp; exact fun h' => h h'.symm
          simp [h, this])
      rw [h0]
      exact hrec

/-- the `Peq` the constructor stores for one chunk -/
def peqOf (w : Nat) (amb : Option (List (Nat × List Nat))) (wild : Option (List Nat)) (blk : List Nat) : List Nat × Nat :=
  (tab 256 (tabWord w amb wild blk), 2 ^ (blk.length - 1))

/-- one round of `for chunk in pattern.chunks(w).into_iter()` -/
theorem for1_step (w ww : Nat) (amb : Option (List (Nat × List Nat))) (wild : Option (List Nat)) (hamb : AmbOk amb)
    (hwild : ∀ c ∈ wild.getD [], c < 256) (hw64 : w < 2 ^ 64) (acc : List (List Nat × Nat)) (blk : List Nat)
    (h1 : 1 ≤ blk.length) (hlw : blk.length ≤ w) (hb : ∀ c ∈ blk, c < 256) :
    RbV.Gen.SrcMyersLongCtor.newAmbig_for1 (w := w) (opt_ambigs := amb) (opt_wildcards := wild) (w' := ww) acc blk =
      Res.ok (acc ++ [peqOf w amb wild blk]) := by
  have hp0 : ∀ a, (peq w (eqvA amb) [] a).toNat = 0 := by intro a; simp [peq, peq.BitVec.ofBoolListLE']
  have hzero : List.replicate 256 0 = tab 256 (fun a => (peq w (eqvA amb) [] a).toNat) := by
    apply List.ext_getElem
    · rw [List.length_replicate, tab_length]
    · intro i h1 h2
      have hi : i < 256 := by rw [tab_length] at h2; exact h2
      have h3 := List.getElem?_eq_getElem h2
      rw [tab_get 256 _ i hi] at h3
      injection h3 with h3
      rw [List.getElem_replicate, ← h3, hp0]
  have hfold := for2_eq w amb hamb hw64 blk [] (by simpa using hlw) hb
  simp only [List.length_nil, List.nil_append] at hfold
  have hsub : Rs.sub blk.length 1 = Res.ok (blk.length - 1) := Rs.sub_ok h1
  have hshl : Rs.shl w 1 (blk.length - 1) = Res.ok (2 ^ (blk.length - 1)) := Rs.shl_one_ok (by omega)
  unfold RbV.Gen.SrcMyersLongCtor.newAmbig_for1
  simp only [hzero, hfold, Res.ok_bind, Res.pure_eq_ok]
  cases wild with
  | none =>
    have : (tab 256 fun a => (peq w (eqvA amb) blk a).toNat) = tab 256 (tabWord w amb none blk) := by
      apply congrArg; funext a; simp [tabWord]
    simp only [Res.ok_bind, hsub, hshl, this, peqOf]
  | some ws =>
    simp only [Option.getD_some] at hwild
    have : (tab 256 fun a => if ws.contains a = true then 2 ^ w - 1 else (peq w (eqvA amb) blk a).toNat) =
        tab 256 (tabWord w amb (some ws) blk) := by
      apply congrArg; funext a; simp [tabWord]
    simp only [for4_eq w ws _ hwild, Res.ok_bind, hsub, hshl, this, peqOf]

theorem for1_fold (w ww : Nat) (amb : Option (List (Nat × List Nat))) (wild : Option (List Nat)) (hamb : AmbOk amb)
    (hwild : ∀ c ∈ wild.getD [], c < 256) (hw64 : w < 2 ^ 64) :
    ∀ (blks : List (List Nat)) (acc : List (List Nat × Nat)),
      (∀ blk ∈ blks, 1 ≤ blk.length ∧ blk.length ≤ w ∧ ∀ c ∈ blk, c < 256) →
      blks.foldlM (RbV.Gen.SrcMyersLongCtor.newAmbig_for1 (w := w) (opt_ambigs := amb) (opt_wildcards := wild) (w' := ww)) acc =
        Res.ok (acc ++ blks.map (peqOf w amb wild)) := by
  intro blks
  induction blks with
  | nil => intro acc _; simp
  | cons blk r ih =>
    intro acc h
    obtain ⟨h1, h2, h3⟩ := h blk (by simp)
    rw [List.foldlM_cons, for1_step w ww amb wild hamb hwild hw64 acc blk h1 h2 h3]
    simp only [Res.ok_bind]
    rw [ih _ (fun b hb => h b (by simp [hb]))]
    simp

/-- **`long::Myers::new_ambig` as written**: one `Peq` per block of the model (`blocksOf w p`): the table `tabWord` of the block's
symbols and `bound = 1 << (len − 1)`; `m`; an empty states store -/
theorem long_newAmbig_eq_model (w : Nat) (p : List Nat) (amb : Option (List (Nat × List Nat))) (wild : Option (List Nat))
    (hw : 1 ≤ w) (hw64 : w < 2 ^ 64) (hm1 : 1 ≤ p.length) (hm : p.length ≤ 18446744073709551615 / 2)
    (hb : ∀ c ∈ p, c < 256) (hamb : AmbOk amb) (hwild : ∀ c ∈ wild.getD [], c < 256) :
    RbV.Gen.SrcMyersLongCtor.newAmbig (w := w) (pattern := p) (opt_ambigs := amb) (opt_wildcards := wild) =
      Res.ok ((blocksOf w p).map (peqOf w amb wild), p.length, []) := by
  have hne : p ≠ [] := by intro e; rw [e] at hm1; simp at hm1
  obtain ⟨c1, c2, _, _⟩ := chunks_spec w hw p.length p hm1 (Nat.le_refl _)
  have hblk : ∀ blk ∈ blocksOf w p, 1 ≤ blk.length ∧ blk.length ≤ w ∧ ∀ c ∈ blk, c < 256 := by
    intro blk hmem
    refine ⟨(c2 blk hmem).1, (c2 blk hmem).2, ?_⟩
    intro c hc
    apply hb
    have : c ∈ (blocksOf w p).flatten := List.mem_flatten.mpr ⟨blk, hmem, hc⟩
    unfold blocksOf at this
    rw [c1] at this
    exact this
  unfold RbV.Gen.SrcMyersLongCtor.newAmbig
  simp only [Rs.assert_ok (decide_eq_true (show p.length > 0 by omega)), Rs.assert_ok (decide_eq_true hm),
    itChunks_eq w p (by omega) hne, Res.ok_bind, Res.pure_eq_ok,
    for1_fold w w amb wild hamb hwild hw64 (blocksOf w p) [] hblk, List.nil_append]

/-- without text wildcards: the model's per-block tables `peqL` — what the end-to-end theorems of `long::Myers` start from -/
theorem peqOf_no_wild (w : Nat) (amb : Option (List (Nat × List Nat))) (blks : List (List Nat)) :
    blks.map (peqOf w amb none) = peqL w (eqvA amb) blks := by
  unfold peqL
  apply List.map_congr_left
  intro blk _
  simp only [peqOf, tabWord_no_wild]

end RbV.Thm.GenSrcMyersNewLong
