import RbV.Thm.GenSrcSaisCalcPos
import RbV.Lemmas.SaisInduce
/-!
# Every run of the model's `calc_pos` on a text SA-IS accepts is index-safe

`safeRun_of_valid`: for a `Sais.Valid` text (shorter than `2^64`) and any list of its LMS positions (`LmsList`: each once,
in any order) the run of `Sais.calcPosRun` satisfies `SafeRun` — at every step of the placement, of the L pass and of the
S pass the indices the step uses lie inside the vectors, and `bucket_start[c] + 1` does not overflow.  The bounds are read
off the loop invariants of the model-level proofs (`PInv`: `bucket_end[c]` points into the S-area; `LInv` / `WF`:
`bucket_start[c]` points at a free slot of the L-area; `SInv` / `WCtx`: the scanned entry is a position, `bucket_end[c]` at a
free slot of the S-area), instantiated with the trivial relation.  With it `calc_pos_source_eq_model` holds for every such
run: the translated `calc_pos` never panics there and returns what the model returns.
-/
namespace RbV.Thm.GenSrcSaisCalcPos
open RbV RbV.Sais

theorem safeFold_up {σ : Type} (safe : σ → Nat → Prop) (f : Nat → σ → σ) (P : Nat → σ → Prop) (n : Nat)
    (hstep : ∀ k s, k < n → P k s → safe s k ∧ P (k + 1) (f k s)) :
    ∀ (d k : Nat) (s : σ), k + d = n → P k s → SafeFold safe (fun s r => f r s) (List.range' k d) s := by
  intro d
  induction d with
  | zero => intro k s _ _; trivial
  | succ d ih =>
    intro k s hk hP
    rw [List.range'_succ]
    obtain ⟨h1, h2⟩ := hstep k s (by omega) hP
    exact ⟨h1, ih (k + 1) (f k s) (by omega) h2⟩

theorem safeFold_down {σ : Type} (safe : σ → Nat → Prop) (f : Nat → σ → σ) (P : Nat → σ → Prop) (n : Nat)
    (hstep : ∀ k s, k < n → P (k + 1) s → safe s k ∧ P k (f k s)) :
    ∀ (k : Nat) (s : σ), k ≤ n → P k s → SafeFold safe (fun s r => f r s) (List.range k).reverse s := by
  intro k
  induction k with
  | zero => intro s _ _; trivial
  | succ k ih =>
    intro s hk hP
    rw [List.range_succ, List.reverse_append, List.reverse_singleton, List.singleton_append]
    obtain ⟨h1, h2⟩ := hstep k s (by omega) hP
    exact ⟨h1, ih (f k s) (by omega) h2⟩

abbrev T : Nat → Nat → Prop := fun _ _ => True

/-- placement: `bucket_end[c]` points into the bucket -/
theorem place_safe (t : List Nat) (L : List Nat) (hlms : ∀ p, p ∈ L → isLms (tyOf t) p = true) (hnd : L.Nodup) :
    ∀ (rest D : List Nat) (st : List Nat × List Nat), D ++ rest = L → PInv t T D st →
      SafeFold (PlaceSafe t) (placeStep t) rest st := by
  intro rest
  induction rest with
  | nil => intro D st _ _; trivial
  | cons p rest ih =>
    intro D st hDL h
    subst hDL
    have hnd' := hnd
    rw [List.nodup_append] at hnd
    have hp : p < t.length := lt_of_isLms p (hlms p (by simp))
    have hcnt : dcnt t D (sym t p) + 1 ≤ (Sset t (sym t p)).length := by
      have h1 := dcnt_le_Sset t (D ++ p :: rest) (sym t p) hnd' hlms
      have h2 : dcnt t (D ++ p :: rest) (sym t p) = dcnt t D (sym t p) + (1 + dcnt t rest (sym t p)) := by
        rw [dcnt_append, show p :: rest = [p] ++ rest from rfl, dcnt_append, dcnt_single_eq t p _ rfl]
      omega
    have hc : sym t p < maxSucc t := sym_lt_maxSucc p hp
    have hsplit := cntLt_succ_split t (sym t p)
    have hle := cntLt_le_length t (sym t p + 1)
    have hb := h.bend (sym t p) hc (by omega)
    refine ⟨⟨hp, ?_, ?_⟩, ?_⟩
    · show sym t p < st.2.length
      rw [h.lenB]; exact hc
    · show st.2.getD (sym t p) 0 < st.1.length
      rw [h.lenP, hb]; omega
    · apply ih (D ++ [p]) _ (by rw [List.append_assoc]; rfl)
      apply placeStep_inv t T D st p h
      · intro q hq; exact lt_of_isLms q (hlms q (by simp [hq]))
      · intro hpD; exact hnd.2.2 p hpD p (by simp) rfl
      · exact hp
      · intro _ _ _; trivial
      · exact hcnt

theorem safeRun_of_valid (t : List Nat) (hv : Valid t) (hsz : t.length < 2 ^ 64) (lms : List Nat) (hl : LmsList t lms) :
    SafeRun t (tyOf t) lms := by
  have hne : t ≠ [] := by intro e; have := hv.pos; rw [e] at this; simp at this
  by_cases h2 : 2 ≤ t.length
  · have hlms : ∀ p, p ∈ lms.reverse → isLms (tyOf t) p = true := by
      intro p hp; rw [List.mem_reverse] at hp; exact (hl.mem p).mp hp
    have hnd : lms.reverse.Nodup := by
      have := hl.nodup
      unfold List.Nodup at this ⊢
      rw [List.pairwise_reverse]
      exact this.imp (fun h => Ne.symm h)
    have hp := placeLms_spec t hv T (indRel_true t) lms hl (List.pairwise_of_forall (fun _ _ _ => trivial))
    have hbe : bEnd0 t = (List.range (maxSucc t)).map (fun c => cntLt t (c + 1) - 1) := initBucketEnd_eq t hne hv.dense
    refine ⟨?_, ?_, ?_, ?_⟩
    · -- bucket ends fit `usize`
      intro x hx
      change x ∈ bEnd0 t at hx
      rw [hbe] at hx
      obtain ⟨c, _, rfl⟩ := List.mem_map.mp hx
      have := cntLt_le_length t (c + 1)
      omega
    · exact place_safe t lms.reverse hlms hnd lms.reverse [] _ (List.nil_append _) (pinv_init t T hv)
    · -- L pass
      change SafeFold _ _ (List.range t.length) ((placeLms t lms (List.replicate t.length t.length) (bEnd0 t)).1, initBucketStart t)
      generalize (placeLms t lms (List.replicate t.length t.length) (bEnd0 t)).1 = pos0 at hp
      rw [List.range_eq_range']
      apply safeFold_up (LSafe t (tyOf t) t.length) (lStep t (tyOf t) t.length)
        (fun r s => LInv t T pos0 r s.1 s.2) t.length ?_ t.length 0 _ (by omega) (LInv.init hv hp)
      intro k s hk h
      refine ⟨?_, lStep_inv hv (indRel_true t) (fun _ _ _ _ _ _ _ _ => trivial) hp s hk h⟩
      obtain ⟨pos, bs⟩ := s
      simp only at h
      refine ⟨by show k < pos.length; rw [h.lenP]; exact hk, ?_⟩
      show (pos.getD k 0 = t.length ∨ pos.getD k 0 = 0) ∨ _
      by_cases h1 : pos.getD k 0 = t.length
      · exact Or.inl (Or.inl h1)
      by_cases h0 : pos.getD k 0 = 0
      · exact Or.inl (Or.inr h0)
      right
      dsimp only
      have hlt := (h.classify hp k hk h1).1
      refine ⟨by rw [length_tyOf]; omega, ?_⟩
      intro hL
      have h3 : isS (tyOf t) (pos.getD k 0 - 1) = false := by
        rw [isL_eq_not] at hL; simpa using hL
      have w := WF.mk' (x := pos.getD k 0 - 1) hv hp h hk (by omega) (by omega) h3
      refine ⟨w.hx, ?_, ?_, ?_⟩
      · show sym t (pos.getD k 0 - 1) < bs.length
        rw [h.lenB]; exact w.hc
      · show bs.getD (sym t (pos.getD k 0 - 1)) 0 < pos.length
        rw [h.lenP]; exact w.bn
      · have := w.bn
        show bs.getD (sym t (pos.getD k 0 - 1)) 0 + 1 < 2 ^ 64
        omega
    · -- S pass
      change SafeFold _ _ (List.range t.length).reverse
        ((forUp t.length (lStep t (tyOf t) t.length)
          ((placeLms t lms (List.replicate t.length t.length) (bEnd0 t)).1, initBucketStart t)).1, bEnd0 t)
      generalize (placeLms t lms (List.replicate t.length t.length) (bEnd0 t)).1 = pos0 at hp
      have hd := lPass_spec t hv T (indRel_true t) (fun _ _ _ _ _ _ _ _ => trivial) pos0 hp
      generalize (forUp t.length (lStep t (tyOf t) t.length) (pos0, initBucketStart t)).1 = posL at hd
      have hdef : ∀ i, inLArea t i → posL.getD i 0 < t.length ∧ isS (tyOf t) (posL.getD i 0) = false := by
        intro i ⟨c, hc, h1, h2'⟩
        have := (mem_Lset t c _).mp (hd.larea c hc i h1 h2')
        exact ⟨this.1, this.2.2⟩
      have hL : LInit t T posL := by
        refine ⟨hd.len, hd.larea, ?_, fun _ _ _ _ _ => trivial, ?_⟩
        · intro i j hij hi hj
          have := larea_lt_length t j hj
          exact hd.inj i j hij this (by have := (hdef i hi).1; omega) (by have := (hdef j hj).1; omega)
        · obtain ⟨i, hi, he⟩ := hp.all (t.length - 1) (isLms_last hv h2)
          have ha := hp.area i hi (by rw [he]; omega)
          rw [he, sym_last_zero hv] at ha
          obtain ⟨_, hb, hlo⟩ := ha
          unfold inBkt at hb
          rw [cntLt_one hv] at hb
          have hi0 : i = 0 := by omega
          subst hi0
          rw [cntLt_zero] at hlo
          have hK : 0 < maxSucc t := by
            have := sym_lt_maxSucc (t := t) (t.length - 1) (by omega); omega
          rw [hd.sarea 0 hK 0 (by rw [cntLt_zero]; omega) (by rw [cntLt_one hv]; omega)]
          exact he
      apply safeFold_down (SSafe t (tyOf t)) (sStep t (tyOf t)) (fun r st => ∃ w, SInv t T r st.1 st.2 w) t.length ?_
        t.length _ (Nat.le_refl _) ⟨wInit, init_inv hv (indRel_true t) hL⟩
      intro k st hk hP
      refine ⟨?_, sStep_inv hv (indRel_true t) (fun _ _ _ _ _ _ _ _ => trivial) k st hk hP⟩
      obtain ⟨pos, be⟩ := st
      obtain ⟨w, inv⟩ := hP
      simp only at inv
      refine ⟨by show k < pos.length; rw [inv.lenP]; exact hk, ?_⟩
      show pos.getD k 0 = 0 ∨ _
      by_cases h0 : pos.getD k 0 = 0
      · exact Or.inl h0
      right
      dsimp only
      have vk := scan_ahead hv inv hk
      obtain ⟨d, hd', hb⟩ := exists_bkt t k hk
      have hlt := (valid_sym inv vk hb).1
      refine ⟨by rw [length_tyOf]; omega, ?_⟩
      intro hS
      have hpk : pos.getD k 0 = (pos.getD k 0 - 1) + 1 := by omega
      obtain ⟨C, _⟩ := mk_WCtx hv inv hk (pos.getD k 0 - 1) hpk hS
      refine ⟨by have := C.hxn; omega, ?_, C.e_lt⟩
      show sym t (pos.getD k 0 - 1) < be.length
      rw [inv.lenB]; exact C.cK
  · have h1 : t.length = 1 := by have := hv.pos; omega
    have ht := valid_length_one hv h1
    subst ht
    have hlms : lms = [] := by
      apply List.eq_nil_iff_forall_not_mem.mpr
      intro p hp
      have := (hl.mem p).mp hp
      have hlt := lt_of_isLms p this
      rw [isLms_iff] at this
      simp at hlt
      omega
    subst hlms
    exact ⟨by decide, by decide, by decide, by decide⟩

end RbV.Thm.GenSrcSaisCalcPos
