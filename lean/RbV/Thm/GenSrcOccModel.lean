import RbV.Thm.GenSrcOcc
/-!
# The translated text of `Occ::get` equals the mirror model `OccM.occGet` on *every* safe column (soft obligation)

`Thm/GenSrcOcc.lean` proves the property-level statement (translated `get` on the table of translated `new` =
`occRef`) without following the branch structure of the text.  This file proves the stronger, shape-dependent
statement "`get` = `occGet` on every column on which the checked operations cannot panic" (whether or not the column
is the true checkpoint table).  A property-preserving change of the branch choice (seeded C04-H1: other threshold
rule, nearest-checkpoint rule) makes it false although the property still holds, so it is **not** imported by
`Thm/C04.lean`: `tools/gen_tables.py` builds it separately and reports a failure as a note ("the mirror model
`occGet` no longer mirrors `Occ::get` branch by branch"), not as a broken obligation.
-/
set_option linter.unusedSimpArgs false

namespace RbV.Thm.GenSrcOccModel
open RbV RbV.Rs RbV.Gen.SrcOcc RbV.Thm.GenSrc RbV.OccM RbV.Thm.GenSrcOcc

/-- **`Occ::get` as written in the source = the mirror model `occGet`** on the column `cp = self.occ[a]`, with
`bytecount::count` read as `List.count`: low checkpoint, the look-ahead above the (source-extracted) threshold with its
early exit and its backward count, the forward count — and none of the checked operations panics. -/
theorem get_eq_model (occ : List (List Nat)) (k : Nat) (bwt : List Nat) (r a : Nat) (cp : List Nat)
    (hcp : occ[a]? = some cp) (hk : 0 < k) (hr : r < bwt.length) (hn : bwt.length < 2 ^ 64)
    (hs : GetSafe cp bwt k r a) :
    get (fun s c => s.count c) occ k bwt r a = Res.ok (occGet cp bwt k r a) := by
  obtain ⟨hlo, hfwd, hhi⟩ := hs
  have hlok : r / k * k ≤ r := Nat.div_mul_le_self r k
  have hr2 : r < (r / k + 1) * k := by
    have := Nat.lt_mul_div_succ r hk
    rw [Nat.mul_comm]; exact this
  have hdk : r / k ≤ r := Nat.div_le_self r k
  -- every checked operation that occurs on some path succeeds; the values are then made atoms (`generalize`), so that
  -- `simp` cannot normalise the facts and the goal differently
  have e1 : Rs.div r k = Res.ok (r / k) := Rs.div_ok hk
  have e2 : Rs.idx occ a = Res.ok cp := Rs.idx_of_getElem? hcp
  have e3 : Rs.idx cp (r / k) = Res.ok (cp.getD (r / k) 0) := idx_getD cp (r / k) 0 hlo
  have e4 : Rs.add 64 (r / k) 1 = Res.ok (r / k + 1) := Rs.add_ok (by omega)
  have e5 : Rs.mul 64 (r / k) k = Res.ok (r / k * k) := Rs.mul_ok (by omega)
  have e5' : Rs.mul 64 k (r / k) = Res.ok (r / k * k) := by
    have h : k * (r / k) = r / k * k := Nat.mul_comm _ _
    rw [← h]; exact Rs.mul_ok (by omega)
  have e6 : Rs.add 64 (r / k * k) 1 = Res.ok (r / k * k + 1) := Rs.add_ok (by omega)
  obtain ⟨S1, e7, hS1⟩ : ∃ S, Rs.sliceIncl bwt (r / k * k + 1) r = Res.ok S ∧ S.count a = cnt bwt (r / k * k + 1) r a :=
    ⟨_, Rs.sliceIncl_ok (by omega) hr, rfl⟩
  have e7' : Rs.slice bwt (r / k * k + 1) (r + 1) = Res.ok S1 := by
    rw [Rs.sliceIncl_ok (by omega) hr] at e7
    rw [Rs.slice_ok (by omega) (by omega)]; exact e7
  have e8 : Rs.add 64 (cnt bwt (r / k * k + 1) r a) (cp.getD (r / k) 0)
      = Res.ok (cnt bwt (r / k * k + 1) r a + cp.getD (r / k) 0) := Rs.add_ok hfwd
  have e8' : Rs.add 64 (cp.getD (r / k) 0) (cnt bwt (r / k * k + 1) r a)
      = Res.ok (cnt bwt (r / k * k + 1) r a + cp.getD (r / k) 0) := by
    have h : cnt bwt (r / k * k + 1) r a + cp.getD (r / k) 0 = cp.getD (r / k) 0 + cnt bwt (r / k * k + 1) r a :=
      Nat.add_comm _ _
    rw [h]; exact Rs.add_ok (by omega)
  have e9 : Rs.add 64 r 1 = Res.ok (r + 1) := Rs.add_ok (by omega)
  have e10 : Rs.sub ((r / k + 1) * k) r = Res.ok ((r / k + 1) * k - r) := Rs.sub_ok (by omega)
  have hhi' : ∀ hiOcc, cp[r / k + 1]? = some hiOcc →
      Rs.mul 64 (r / k + 1) k = Res.ok ((r / k + 1) * k) ∧
      (∃ S, Rs.sliceIncl bwt (r + 1) ((r / k + 1) * k) = Res.ok S ∧ S.count a = cnt bwt (r + 1) ((r / k + 1) * k) a) ∧
      Rs.sub hiOcc (cnt bwt (r + 1) ((r / k + 1) * k) a) = Res.ok (hiOcc - cnt bwt (r + 1) ((r / k + 1) * k) a) := by
    intro hiOcc h
    obtain ⟨hin, hge⟩ := hhi hiOcc h
    exact ⟨Rs.mul_ok (by omega), ⟨_, Rs.sliceIncl_ok (by omega) hin, rfl⟩, Rs.sub_ok hge⟩
  have hthr : (k > Gen.Occ.hiCheckpointThreshold) = (k > 64) := by simp only [Gen.Occ.hiCheckpointThreshold]
  clear hhi hfwd hlo hcp
  simp only [occGet, hthr]
  generalize cnt bwt (r / k * k + 1) r a = C1 at *
  generalize cnt bwt (r + 1) ((r / k + 1) * k) a = C2 at *
  generalize cp.getD (r / k) 0 = L at *
  generalize (r / k + 1) * k = H at *
  generalize r / k * k = Lo at *
  generalize r / k = q at *
  by_cases h64 : k > 64
  · cases hc1 : cp[q + 1]? with
    | none => simp [Gen.SrcOcc.get, h64, hc1, e1, e2, e3, e4, e5, e5', e6, e7, e7', hS1, e8, e8', e9]
    | some hiOcc =>
      obtain ⟨e11, ⟨S2, e12, hS2⟩, e13⟩ := hhi' hiOcc hc1
      by_cases heq : L = hiOcc
      · simp [Gen.SrcOcc.get, h64, hc1, heq, e1, e2, e3, e4]
      · have heq' : ¬ hiOcc = L := fun h => heq h.symm
        by_cases hb : H - r < k / 2
        · simp [Gen.SrcOcc.get, h64, hc1, heq, heq', hb, e1, e2, e3, e4, e9, e10, e11, e12, hS2, e13]
        · simp [Gen.SrcOcc.get, h64, hc1, heq, heq', hb, e1, e2, e3, e4, e5, e5', e6, e7, e7', hS1, e8, e8', e9, e10, e11]
  · simp [Gen.SrcOcc.get, h64, e1, e2, e3, e5, e5', e6, e7, e7', hS1, e8, e8', e9]

end RbV.Thm.GenSrcOccModel
