import RbV.Gen.SrcWavelet
import RbV.Model.Wavelet
import RbV.Lemmas.RankSelectModel
import RbV.Thm.GenSrcBasic
/-!
# The translated text of `WaveletMatrix::{check_overflow, prank, rank}` equals the mirror model

`RbV/Gen/SrcWavelet.lean` is regenerated from `src/data_structures/wavelet_matrix.rs` by `tools/rs2lean.py` on every
`./check C17`.  `RankSelect` is an abstract type `ρ`; its `rank_0` / `rank_1` are abstract functions that may panic
(`ρ → Nat → Res (Option Nat)`).  The theorems assume (`LevelsOk`) that on the `level`-th element of `self.levels` they
return the declarative rank of that level's bit vector — which `Thm/GenSrcRankSelect.lean` proves for the translated
`RankSelect::rank_0/1` — and that `self.zeros[level]` is the number of zeros of that bit vector, all `width` bits long.
What the translation makes explicit and the proof discharges: `.unwrap()` never sees `None` because `spos ≤ epos ≤ width`
is an invariant of the level loop, `prank(..) + self.zeros[level]` does not overflow, the final `epos - spos` does not
underflow, `DNA2INT[val as usize]` is in bounds, `>> shift` shifts a `u8` by less than 8.
-/
set_option linter.unusedSimpArgs false

namespace RbV.Thm.GenSrcWavelet
open RbV RbV.Rs RbV.Thm.GenSrc
open RbV.Model.Wavelet (Level bitOf rkSpec)
open RbV.Spec.RankSelect (rankRef)
open RbV.Lemmas.RankSelectModel (cnt cnt_mono cnt_le cnt_le_count count_true_add_false)

variable {ρ : Type}

/-- what the wavelet functions assume about `self.levels` / `self.zeros`: `lvs` are the levels' bit vectors -/
structure LevelsOk (rank0 rank1 : ρ → Nat → Res (Option Nat)) (W : Nat) (zeros : List Nat) (levels : List ρ)
    (lvs : List Level) : Prop where
  len : levels.length = lvs.length
  zs : zeros = lvs.map (·.zeros)
  wf : ∀ lv : Level, lv ∈ lvs → lv.bits.length = W ∧ lv.zeros = lv.bits.count false
  rk : ∀ (level : Nat) (r : ρ) (lv : Level), levels[level]? = some r → lvs[level]? = some lv →
    ∀ i, rank1 r i = Res.ok (rankRef true lv.bits i) ∧ rank0 r i = Res.ok (rankRef false lv.bits i)

/-- `fn check_overflow`, as written -/
theorem checkOverflow_eq_model (rank0 rank1 : ρ → Nat → Res (Option Nat)) (W H : Nat) (zeros : List Nat)
    (levels : List ρ) (p : Nat) :
    Gen.SrcWavelet.checkOverflow rank0 rank1 W H zeros levels p = Res.ok (decide (W ≤ p)) := by
  simp only [Gen.SrcWavelet.checkOverflow, Res.pure_eq_ok, ge_iff_le]

/-- the model's `prank` against the declarative rank counts the `b`-bits among the first `x` positions -/
theorem model_prank (lvs : List Level) (level : Nat) (lv : Level) (hl : lvs[level]? = some lv) (b : Bool) (x : Nat)
    (hx : x ≤ lv.bits.length) :
    Model.Wavelet.prank (rkSpec lvs level) x b = cnt b lv.bits x := by
  unfold Model.Wavelet.prank
  by_cases h0 : x = 0
  · subst h0; simp [cnt]
  · have h1 : x - 1 < lv.bits.length := by omega
    have h2 : x - 1 + 1 = x := by omega
    simp only [h0, if_false, rkSpec, hl, rankRef, h1, if_true, Option.getD_some, RbV.Spec.RankSelect.rank, h2, cnt]

/-- **`fn prank`, as written, is the model's `prank`** on an existing level for every `p ≤ width` (`val` is 0 or 1) -/
theorem prank_eq_model (rank0 rank1 : ρ → Nat → Res (Option Nat)) (W H : Nat) (zeros : List Nat) (levels : List ρ)
    (lvs : List Level) (hok : LevelsOk rank0 rank1 W zeros levels lvs) (level : Nat) (lv : Level)
    (hl : lvs[level]? = some lv) (b : Bool) (p : Nat) (hp : p ≤ W) :
    Gen.SrcWavelet.prank rank0 rank1 W H zeros levels level p (if b then 1 else 0)
      = Res.ok (Model.Wavelet.prank (rkSpec lvs level) p b) := by
  have hmem : lv ∈ lvs := List.mem_of_getElem? hl
  have hW := (hok.wf lv hmem).1
  rw [model_prank lvs level lv hl b p (by omega)]
  by_cases h0 : p = 0
  · subst h0
    simp [Gen.SrcWavelet.prank, cnt]
  · have hlt : level < levels.length := by
      rw [hok.len]; exact (List.getElem?_eq_some_iff.mp hl).1
    have e1 : Rs.idx levels level = Res.ok levels[level] := Rs.idx_ok hlt
    have e2 : Rs.sub p 1 = Res.ok (p - 1) := Rs.sub_ok (by omega)
    have hr := hok.rk level levels[level] lv (List.getElem?_eq_getElem hlt) hl (p - 1)
    have h1 : p - 1 < lv.bits.length := by omega
    have h2 : p - 1 + 1 = p := by omega
    have hp0 : (p == 0) = false := by simp [h0]
    have hp0' : (p != 0) = true := by simp [h0]
    have hv1 : ((1 : Nat) == 0) = false := by decide
    have hv2 : ((1 : Nat) != 0) = true := by decide
    have hv3 : ((0 : Nat) != 0) = false := by decide
    have hv4 : ((0 : Nat) == 0) = true := by decide
    cases b with
    | true =>
      simp only [Gen.SrcWavelet.prank, hp0, hp0', hv1, hv2, hv3, hv4, e1, e2, hr.1, rankRef, h1, if_true, Rs.unwrap_some, Res.ok_bind,
        Res.pure_eq_ok, RbV.Spec.RankSelect.rank, h2, cnt, if_false, Bool.false_eq_true, ite_true, ite_false]
    | false =>
      simp only [Gen.SrcWavelet.prank, hp0, hp0', hv1, hv2, hv3, hv4, e1, e2, hr.2, rankRef, h1, if_true, Rs.unwrap_some, Res.ok_bind,
        Res.pure_eq_ok, RbV.Spec.RankSelect.rank, h2, cnt, if_false, Bool.false_eq_true, ite_true, ite_false,
        beq_self_eq_true]

/-- the level loop of `rank`: the translated body folded over the levels `level, level+1, …` never panics, keeps
`spos ≤ epos ≤ width`, and ends with the pair whose difference the model's `rankLoop` returns -/
theorem rank_fold (rank0 rank1 : ρ → Nat → Res (Option Nat)) (W : Nat) (hW : W < 2 ^ 63) (zeros : List Nat)
    (levels : List ρ) (lvs : List Level) (hok : LevelsOk rank0 rank1 W zeros levels lvs) (hH : lvs.length ≤ 8)
    (table : List Nat) (c : Nat) (hc : c < table.length) :
    ∀ (m level spos epos : Nat), level + m = lvs.length → spos ≤ epos → epos ≤ W →
    ∃ S E, (List.range' level m).foldlM
        (Gen.SrcWavelet.rank_for1 rank0 rank1 lvs.length table c W lvs.length zeros levels) (spos, epos)
          = Res.ok (S, E) ∧ S ≤ E ∧
      E - S = Model.Wavelet.rankLoop (fun v => table.getD v 0) (rkSpec lvs) c (lvs.drop level) level spos epos := by
  intro m
  induction m with
  | zero =>
    intro level spos epos hlev hse _
    refine ⟨spos, epos, rfl, hse, ?_⟩
    rw [List.drop_eq_nil_of_le (by omega)]
    rfl
  | succ m ih =>
    intro level spos epos hlev hse hew
    have hlt : level < lvs.length := by omega
    have hl : lvs[level]? = some lvs[level] := List.getElem?_eq_getElem hlt
    have hdrop : lvs.drop level = lvs[level] :: lvs.drop (level + 1) := (List.drop_eq_getElem_cons hlt)
    have hwf := hok.wf lvs[level] (List.getElem_mem hlt)
    have hrest : (lvs.drop (level + 1)).length = m := by rw [List.length_drop]; omega
    have e1 : Rs.sub lvs.length level = Res.ok (lvs.length - level) := Rs.sub_ok (by omega)
    have e2 : Rs.sub (lvs.length - level) 1 = Res.ok (lvs.length - level - 1) := Rs.sub_ok (by omega)
    have hsh : lvs.length - level - 1 = m := by omega
    have e1' : Rs.add 64 level 1 = Res.ok (level + 1) := Rs.add_ok (by omega)
    have e2' : Rs.sub lvs.length (level + 1) = Res.ok (lvs.length - (level + 1)) := Rs.sub_ok (by omega)
    have hsh' : lvs.length - (level + 1) = m := by omega
    have e3 : Rs.idx table c = Res.ok (table.getD c 0) := idx_getD _ _ _ hc
    have e4 : ∀ x, Rs.shr 8 x m = Res.ok (x >>> m) := fun x => Rs.shr_ok (by omega)
    have e5 : Rs.idx zeros level = Res.ok lvs[level].zeros := by
      rw [hok.zs]
      have : level < (lvs.map (·.zeros)).length := by rw [List.length_map]; exact hlt
      rw [Rs.idx_ok this, List.getElem_map]
    have p1 := fun (b : Bool) (x : Nat) (hx : x ≤ W) =>
      prank_eq_model rank0 rank1 W lvs.length zeros levels lvs hok level lvs[level] hl b x hx
    have m1 := fun (b : Bool) (x : Nat) (hx : x ≤ W) =>
      model_prank lvs level lvs[level] hl b x (by rw [hwf.1]; exact hx)
    have hsw : spos ≤ W := by omega
    have hcount := count_true_add_false lvs[level].bits
    rw [List.range'_succ, List.foldlM_cons, hdrop]
    by_cases hb : bitOf (fun v => table.getD v 0) m c = true
    · have hb' : ((table.getD c 0 >>> m &&& 1) == 1) = true := hb
      have a1 := p1 true spos hsw
      have a2 := p1 true epos hew
      simp only [if_true, ite_true] at a1 a2
      have hmono := cnt_mono true lvs[level].bits hse
      have hle := cnt_le_count true lvs[level].bits epos
      have b1 : Rs.add 64 (cnt true lvs[level].bits spos) lvs[level].zeros
          = Res.ok (cnt true lvs[level].bits spos + lvs[level].zeros) := Rs.add_ok (by omega)
      have b2 : Rs.add 64 (cnt true lvs[level].bits epos) lvs[level].zeros
          = Res.ok (cnt true lvs[level].bits epos + lvs[level].zeros) := Rs.add_ok (by omega)
      obtain ⟨S, E, h1, h2, h3⟩ := ih (level + 1) (cnt true lvs[level].bits spos + lvs[level].zeros)
        (cnt true lvs[level].bits epos + lvs[level].zeros) (by omega) (by omega) (by omega)
      refine ⟨S, E, ?_, h2, ?_⟩
      · simp only [Gen.SrcWavelet.rank_for1, e1, e2, hsh, e1', e2', hsh', e3, e4, hb', a1, a2, m1 true spos hsw, m1 true epos hew, e5,
          b1, b2, Res.ok_bind, Res.pure_eq_ok, if_true, ite_true]
        exact h1
      · simp only [Model.Wavelet.rankLoop, hrest, hb, if_true, m1 true spos hsw, m1 true epos hew]
        exact h3
    · have hb' : ((table.getD c 0 >>> m &&& 1) == 1) = false := by
        simpa [bitOf] using hb
      have a1 := p1 false spos hsw
      have a2 := p1 false epos hew
      simp only [if_false, ite_false, Bool.false_eq_true] at a1 a2
      have hmono := cnt_mono false lvs[level].bits hse
      have hle := cnt_le false lvs[level].bits epos
      obtain ⟨S, E, h1, h2, h3⟩ := ih (level + 1) (cnt false lvs[level].bits spos)
        (cnt false lvs[level].bits epos) (by omega) (by omega) (by omega)
      refine ⟨S, E, ?_, h2, ?_⟩
      · simp only [Gen.SrcWavelet.rank_for1, e1, e2, hsh, e1', e2', hsh', e3, e4, hb', a1, a2, m1 false spos hsw, m1 false epos hew,
          Res.ok_bind, Res.pure_eq_ok, if_false, ite_false, Bool.false_eq_true]
        exact h1
      · simp only [Model.Wavelet.rankLoop, hrest, hb, if_false, m1 false spos hsw, m1 false epos hew,
          Bool.false_eq_true]
        exact h3

/-- **`WaveletMatrix::rank`, as written, is the model's `rank`** for every in-range position `p` (the assertion) and every
symbol `val` inside the code table, on every structure whose levels satisfy `LevelsOk` (at most 8 levels) -/
theorem rank_eq_model (rank0 rank1 : ρ → Nat → Res (Option Nat)) (W : Nat) (hW : W < 2 ^ 63) (zeros : List Nat)
    (levels : List ρ) (lvs : List Level) (hok : LevelsOk rank0 rank1 W zeros levels lvs) (hH : lvs.length ≤ 8)
    (table : List Nat) (c : Nat) (hc : c < table.length) (p : Nat) (hp : p < W) :
    Gen.SrcWavelet.rank rank0 rank1 W lvs.length zeros levels table c p
      = Res.ok (Model.Wavelet.rank (fun v => table.getD v 0) (rkSpec lvs) lvs c p) := by
  have e0 := checkOverflow_eq_model rank0 rank1 W lvs.length zeros levels p
  have hd : decide (W ≤ p) = false := by simp; omega
  have e1 : Rs.assert (!false) = Res.ok () := rfl
  have e2 : Rs.add 64 p 1 = Res.ok (p + 1) := Rs.add_ok (by omega)
  obtain ⟨S, E, h1, h2, h3⟩ := rank_fold rank0 rank1 W hW zeros levels lvs hok hH table c hc lvs.length 0 0 (p + 1)
    (by omega) (by omega) (by omega)
  have e3 : Rs.sub E S = Res.ok (E - S) := Rs.sub_ok h2
  simp only [List.drop_zero] at h3
  simp only [Gen.SrcWavelet.rank, e0, hd, e1, e2, Nat.sub_zero, h1, e3, h3, Res.ok_bind, Res.pure_eq_ok,
    Model.Wavelet.rank]

/-- out-of-range positions are refused by the assertion -/
theorem rank_oob_panics (rank0 rank1 : ρ → Nat → Res (Option Nat)) (W H : Nat) (zeros : List Nat) (levels : List ρ)
    (table : List Nat) (c p : Nat) (hp : W ≤ p) :
    Gen.SrcWavelet.rank rank0 rank1 W H zeros levels table c p = Res.panic := by
  have e0 := checkOverflow_eq_model rank0 rank1 W H zeros levels p
  have hd : decide (W ≤ p) = true := by simp; omega
  simp only [Gen.SrcWavelet.rank, e0, hd, Res.ok_bind, Bool.not_true, Rs.assert, Bool.false_eq_true, if_false,
    Res.panic_bind]

end RbV.Thm.GenSrcWavelet
