import RbV.Thm.GenSrcLcp
/-!
**Soft** (shape-dependent) equality: the translated `lcp` follows the mirror model `Kasai.kasaiGo` step by step (same carried
`l`), on every permutation of the positions that starts with `n − 1` — sorted or not.  No `Thm/Cxx.lean` imports this file:
`tools/gen_tables.py` builds it after regenerating (`soft_modules`) and turns a failure into a note.  A rewrite that carries
another `l ≤ lcpOf p` (restart from 0), or another LCP algorithm, keeps the property; the hard obligation is the model-free
`RbV.Thm.GenSrcLcp.lcp_source_exact`.
-/
set_option linter.unusedSimpArgs false
set_option linter.unusedVariables false
namespace RbV.Thm.GenSrcLcpModel
open RbV RbV.Rs RbV.Gen RbV.Thm.GenSrc RbV.Kasai RbV.Thm.GenSrcLcp

/-- hypotheses on one iteration of the main loop: `rank[p] ≥ 1` (no underflow of `r - 1`), the predecessor is a position -/
def IterOk (t sa : List Nat) (p : Nat) : Prop :=
  p < t.length ∧ 1 ≤ sa.idxOf p ∧ sa.idxOf p < t.length ∧ sa.getD (sa.idxOf p - 1) 0 < t.length

/-- main loop = the model's `kasaiGo` -/
theorem for2_eq (t sa : List Nat) (hlen : sa.length = t.length) (hsz : t.length + 1 < 2 ^ 63) :
    ∀ (ps : List Nat) (l : Nat) (lcp : List Int), (∀ p ∈ ps, IterOk t sa p) → l ≤ t.length → lcp.length = t.length + 1 →
      ∃ l', SrcLcp.lcp_for2 t sa t.length (ps.map (fun p => (sa.idxOf p, p))) (l, lcp) =
        Res.ok (l', kasaiGo t sa ps l lcp) := by
  intro ps
  have q := p63
  induction ps with
  | nil => intro l lcp _ _ _; exact ⟨l, by simp [SrcLcp.lcp_for2, kasaiGo]⟩
  | cons p ps ih =>
    intro l lcp hps hl hlcp
    obtain ⟨hp, hr1, hrn, hpred⟩ := hps p (by simp)
    have e1 : Rs.sub (sa.idxOf p) 1 = Res.ok (sa.idxOf p - 1) := Rs.sub_ok hr1
    have e2 : Rs.idx sa (sa.idxOf p - 1) = Res.ok (sa.getD (sa.idxOf p - 1) 0) := idx_getD sa _ 0 (by omega)
    have e3 := while1_eq t p (sa.getD (sa.idxOf p - 1) 0) (by omega) (by omega) (by omega) t.length l hl (by omega)
    -- (kept although the helper's parameters are now ordered by declaration: the roles of `p` and `pred` are symmetric)
    have e3' := while1_eq t (sa.getD (sa.idxOf p - 1) 0) p (by omega) (by omega) (by omega) t.length l hl (by omega)
    rw [extend_comm] at e3'
    have hle := extend_le t p (sa.getD (sa.idxOf p - 1) 0) t.length l hl
    generalize hE : extend t p (sa.getD (sa.idxOf p - 1) 0) t.length l = l' at e3 e3' hle
    have e4 : Rs.toSigned 64 l' = (l' : Int) := toSigned_small (by omega)
    have e5 : Rs.setIdx lcp (sa.idxOf p) (l' : Int) = Res.ok (lcp.set (sa.idxOf p) (l' : Int)) := Rs.setIdx_ok (by omega)
    obtain ⟨l'', h⟩ := ih (l' - 1) (lcp.set (sa.idxOf p) (l' : Int)) (fun x hx => hps x (List.mem_cons_of_mem _ hx))
      (by omega) (by rw [List.length_set]; exact hlcp)
    refine ⟨l'', ?_⟩
    by_cases h0 : l' > 0
    · have e6 : Rs.sub l' 1 = Res.ok (l' - 1) := Rs.sub_ok (by omega)
      have h0' : 0 < l' := h0
      have h0'' : l' ≠ 0 := by omega
      simp [-List.getD_eq_getElem?_getD, SrcLcp.lcp_for2, kasaiGo, e1, e2, e3, e3', e4, e5, e6, h0, h0', h0'', h, hE]
    · have h00 : l' = 0 := by omega
      subst h00
      have h' : SrcLcp.lcp_for2 t sa t.length (ps.map (fun p => (sa.idxOf p, p))) (0, lcp.set (sa.idxOf p) 0) =
          Res.ok (l'', kasaiGo t sa ps 0 (lcp.set (sa.idxOf p) 0)) := by simpa using h
      have e5' : Rs.setIdx lcp (sa.idxOf p) 0 = Res.ok (lcp.set (sa.idxOf p) 0) := by simpa using e5
      simp [-List.getD_eq_getElem?_getD, SrcLcp.lcp_for2, kasaiGo, e1, e2, e3, e3', e4, e5', hE, h']

/-- **translated `lcp` = mirror model `Kasai.kasai`** for every permutation `sa` of the positions of a non-empty text that
starts with `n - 1` (what keeps `rank[p] - 1` from underflowing); `n + 1 < 2^63` (`l as isize`). -/
theorem lcp_eq_model (t sa : List Nat) (hperm : sa.Perm (List.range t.length)) (hhead : sa.head? = some (t.length - 1))
    (hn : 0 < t.length) (hsz : t.length + 1 < 2 ^ 63) :
    SrcLcp.lcp t sa = Res.ok (kasai t sa) := by
  have q := p63
  have hlen : sa.length = t.length := by simpa using hperm.length_eq
  have hnd : sa.Nodup := (hperm.nodup_iff).mpr List.nodup_range
  have hmem : ∀ x, x ∈ sa ↔ x < t.length := by intro x; rw [hperm.mem_iff, List.mem_range]
  obtain ⟨rank, h1, h2, _, h4⟩ := for1_spec sa 0 (List.replicate t.length 0) (by
    intro x hx; rw [List.length_replicate]; exact (hmem x).mp hx)
  have h4' := h4 hnd
  rw [List.length_replicate] at h2
  -- the rank vector is the inverse permutation
  have hrank : ∀ p, p < t.length → rank[p]? = some (sa.idxOf p) := by
    intro p hp
    have hi : sa.idxOf p < sa.length := List.idxOf_lt_length_iff.mpr ((hmem p).mpr hp)
    have := h4' (sa.idxOf p) hi
    rw [List.getElem_idxOf hi] at this
    simpa using this
  have hsrc : rank.zipIdx.take (t.length - 1) = (List.range (t.length - 1)).map (fun p => (sa.idxOf p, p)) := by
    apply List.ext_getElem?
    intro i
    by_cases hi : i < t.length - 1
    · rw [List.getElem?_take_of_lt hi]
      simp [hrank i (by omega), hi]
    · rw [List.getElem?_take_eq_none (by omega), List.getElem?_eq_none (by simp; omega)]
  -- every iteration is safe
  have hhead0 : sa.idxOf (t.length - 1) = 0 := by
    cases sa with
    | nil => simp at hhead
    | cons a l => simp at hhead; subst hhead; simp
  have hiter : ∀ p ∈ List.range (t.length - 1), IterOk t sa p := by
    intro p hp
    rw [List.mem_range] at hp
    have hi : sa.idxOf p < sa.length := List.idxOf_lt_length_iff.mpr ((hmem p).mpr (by omega))
    refine ⟨by omega, ?_, by omega, ?_⟩
    · apply Nat.pos_of_ne_zero
      intro hz
      have e1 : sa[sa.idxOf p]'hi = p := List.getElem_idxOf hi
      have hi0 : sa.idxOf (t.length - 1) < sa.length := by omega
      have e2 : sa[sa.idxOf (t.length - 1)]'hi0 = t.length - 1 := List.getElem_idxOf hi0
      simp only [hz, hhead0] at e1 e2
      omega
    · have hj : sa.idxOf p - 1 < sa.length := by omega
      rw [getD_of_lt sa _ 0 hj]
      exact (hmem _).mp (List.getElem_mem hj)
  obtain ⟨l', h5⟩ := for2_eq t sa hlen hsz (List.range (t.length - 1)) 0 (List.replicate (t.length + 1) (-1)) hiter
    (by omega) (by simp)
  have e1 : Rs.add 64 t.length 1 = Res.ok (t.length + 1) := Rs.add_ok (by omega)
  have e1' : Rs.add 64 1 t.length = Res.ok (t.length + 1) := by rw [Nat.add_comm]; exact Rs.add_ok (by omega)
  have e2 : Rs.sub t.length 1 = Res.ok (t.length - 1) := Rs.sub_ok (by omega)
  have e3 : Rs.assert (t.length == sa.length) = Res.ok () := Rs.assert_ok (by simp [hlen])
  have e3' : Rs.assert (sa.length == t.length) = Res.ok () := Rs.assert_ok (by simp [hlen])
  unfold SrcLcp.lcp kasai
  simp [e1, e1', e2, e3, e3', h1, hsrc, h5]


end RbV.Thm.GenSrcLcpModel
