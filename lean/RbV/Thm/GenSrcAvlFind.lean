import RbV.Thm.GenSrcAvlInsert
/-!
# The source text of the pruned DFS (`IntervalTreeIterator::next`, `IntervalTreeIteratorMut::next`, `intersect`, `find`,
# `find_mut`) = the mirror model's `findLoop`, and the end-to-end statements on the source text

The two `next` functions are translated separately (they are textually the same traversal up to `mut`); each is shown to
satisfy the same one-step equation (`iterNext_step`, `iterMutNext_step`: pop the top node; prune on `max`; push the left
child; prune the right side on the node's start; push the right child; report on `intersect`), and everything else is
proved once for an arbitrary loop function with that equation (`loop_spec`, `collect_spec`).  The `Vec` stack has its top
at the end, the model's list at the head: `stackOf nodes = nodes.reverse.map toTree`.  Fuel: one unit per popped node;
`weight (stackOf nodes) < fuel` suffices (`weight` = the termination measure of the model).
-/
set_option linter.unusedSimpArgs false
set_option linter.unusedVariables false
namespace RbV.GenSrcAvl
open RbV RbV.Rs RbV.Rs.Res RbV.Ivl RbV.Avl RbV.Gen
open RbV.Gen.SrcAvl (Node IntervalTree IntervalTreeIterator IntervalTreeIteratorMut EntryMut updateHeight updateMax swapIntervalData nodeNew nodeInsert nodeInsert_goLeft treeInsert treeDefault treeFind treeFindMut iterNext iterNext_loop1 iterMutNext iterMutNext_loop1)

def stackOf (nodes : List Node) : List Tree := nodes.reverse.map toTree
def qOf (iv : Int × Int) : Query := ⟨iv.1, iv.2⟩
/-- `if let Some(ref c) = child { nodes.push(c) }` -/
def pushN (o : Option Node) (ns : List Node) : List Node :=
  match o with
  | some c => ns ++ [c]
  | none => ns
def W (ns : List Node) : Nat := weight (stackOf ns)

theorem stackOf_concat (ns : List Node) (c : Node) : stackOf (ns ++ [c]) = toTree c :: stackOf ns := by
  simp [stackOf]

theorem toTree_ne_nil (c : Node) : toTree c ≠ .nil := by rw [toTree_eq]; simp

theorem push_stackOf (o : Option Node) (ns : List Node) : push (toTreeO o) (stackOf ns) = stackOf (pushN o ns) := by
  cases o with
  | none => simp [push, pushN]
  | some c =>
    rw [toTreeO_some, pushN, stackOf_concat]
    have := toTree_ne_nil c
    unfold push
    split
    · contradiction
    · rfl

theorem W_pushN (o : Option Node) (ns : List Node) : W (pushN o ns) ≤ 2 * size (toTreeO o) + 1 + W ns := by
  unfold W; rw [← push_stackOf]; exact weight_push _ _

theorem W_concat (ns : List Node) (c : Node) :
    W (ns ++ [c]) = 2 * (size (toTreeO c.left) + 1 + size (toTreeO c.right)) + 1 + W ns := by
  unfold W; rw [stackOf_concat, weight, size_toTree]

theorem findLoop_step (q : Query) (c : Node) (S : List Tree) :
    findLoop q (toTree c :: S) =
      if q.lo < c.max then
        if q.hi > c.interval.1 then
          if Avl.intersect q (entryOf c) = true then
            entryOf c :: findLoop q (push (toTreeO c.right) (push (toTreeO c.left) S))
          else findLoop q (push (toTreeO c.right) (push (toTreeO c.left) S))
        else findLoop q (push (toTreeO c.left) S)
      else findLoop q S := by
  rw [toTree_eq, findLoop]; rfl

/-- `intersect` as written in the source = the model's `intersect` -/
theorem intersect_eq_model (a b : Int × Int) (d : Int) :
    SrcAvl.intersect a b = ok (Avl.intersect ⟨a.1, a.2⟩ ⟨b.1, b.2, d⟩) := by
  unfold SrcAvl.intersect Avl.intersect
  first
    | rfl
    | (show ok _ = ok _
       congr 1
       rw [Bool.eq_iff_iff]
       simp only [Bool.and_eq_true, decide_eq_true_eq, gt_iff_lt, ge_iff_le]
       omega)

/-- one call of a `next` loop and the model, for any loop function with the one-step equation of the source -/
theorem loop_spec {σ ε : Type} (loop : Nat → σ → Res (Option ε × σ)) (mkS : List Node → σ) (mkE : Node → ε)
    (iv : Int × Int)
    (h0 : ∀ f, loop (f + 1) (mkS []) = ok (none, mkS []))
    (hs : ∀ f ns c, loop (f + 1) (mkS (ns ++ [c])) =
      if iv.1 < c.max then
        if iv.2 > c.interval.1 then
          if Avl.intersect (qOf iv) (entryOf c) = true then
            ok (some (mkE c), mkS (pushN c.right (pushN c.left ns)))
          else loop f (mkS (pushN c.right (pushN c.left ns)))
        else loop f (mkS (pushN c.left ns))
      else loop f (mkS ns)) :
    ∀ (f : Nat) (ns : List Node), W ns < f →
      ∃ r ns', loop f (mkS ns) = ok (r, mkS ns') ∧ W ns' ≤ W ns ∧
        ((r = none ∧ findLoop (qOf iv) (stackOf ns) = []) ∨
          ∃ c, r = some (mkE c) ∧ findLoop (qOf iv) (stackOf ns) = entryOf c :: findLoop (qOf iv) (stackOf ns')) := by
  intro f
  induction f with
  | zero => intro ns h; omega
  | succ f ih =>
    intro ns hw
    rcases List.eq_nil_or_concat ns with rfl | ⟨ns, c, rfl⟩
    · exact ⟨none, [], h0 f, Nat.le_refl _, Or.inl ⟨rfl, by simp [stackOf, findLoop]⟩⟩
    · simp only [List.concat_eq_append] at hw ⊢
      rw [hs, stackOf_concat, findLoop_step, push_stackOf, push_stackOf]
      have hwc := W_concat ns c
      have p1 := W_pushN c.left ns
      have p2 := W_pushN c.right (pushN c.left ns)
      show ∃ r ns', _ = ok (r, mkS ns') ∧ W ns' ≤ W (ns ++ [c]) ∧ _
      by_cases h1 : iv.1 < c.max
      · have h1' : (qOf iv).lo < c.max := h1
        rw [if_pos h1, if_pos h1']
        by_cases h2 : iv.2 > c.interval.1
        · have h2' : (qOf iv).hi > c.interval.1 := h2
          rw [if_pos h2, if_pos h2']
          by_cases h3 : Avl.intersect (qOf iv) (entryOf c) = true
          · rw [if_pos h3, if_pos h3]
            exact ⟨_, _, rfl, by omega, Or.inr ⟨c, rfl, rfl⟩⟩
          · rw [if_neg h3, if_neg h3]
            obtain ⟨r, ns', e, w, rel⟩ := ih (pushN c.right (pushN c.left ns)) (by omega)
            exact ⟨r, ns', e, by omega, rel⟩
        · have h2' : ¬ (qOf iv).hi > c.interval.1 := h2
          rw [if_neg h2, if_neg h2']
          obtain ⟨r, ns', e, w, rel⟩ := ih (pushN c.left ns) (by omega)
          exact ⟨r, ns', e, by omega, rel⟩
      · have h1' : ¬ (qOf iv).lo < c.max := h1
        rw [if_neg h1, if_neg h1']
        obtain ⟨r, ns', e, w, rel⟩ := ih ns (by omega)
        exact ⟨r, ns', e, by omega, rel⟩

/-- draining such an iterator yields exactly the model's result list, in order -/
theorem collect_spec {σ ε : Type} (loop : Nat → σ → Res (Option ε × σ)) (mkS : List Node → σ) (mkE : Node → ε)
    (toE : ε → Ivl.Entry) (hE : ∀ c, toE (mkE c) = entryOf c) (iv : Int × Int) (F : Nat)
    (hl : ∀ (ns : List Node), W ns < F →
      ∃ r ns', loop F (mkS ns) = ok (r, mkS ns') ∧ W ns' ≤ W ns ∧
        ((r = none ∧ findLoop (qOf iv) (stackOf ns) = []) ∨
          ∃ c, r = some (mkE c) ∧ findLoop (qOf iv) (stackOf ns) = entryOf c :: findLoop (qOf iv) (stackOf ns'))) :
    ∀ (n : Nat) (ns : List Node), W ns < F → (findLoop (qOf iv) (stackOf ns)).length < n →
      ∃ res, Rs.collect (loop F) n (mkS ns) = ok res ∧ res.map toE = findLoop (qOf iv) (stackOf ns) := by
  intro n
  induction n with
  | zero => intro ns _ h; omega
  | succ n ih =>
    intro ns hw hn
    obtain ⟨r, ns', e, w, rel⟩ := hl ns hw
    rcases rel with ⟨rfl, hnil⟩ | ⟨c, rfl, hcons⟩
    · exact ⟨[], by simp [Rs.collect, e], by simp [hnil]⟩
    · rw [hcons] at hn ⊢
      simp only [List.length_cons] at hn
      obtain ⟨rest, e2, m2⟩ := ih ns' (by omega) (by omega)
      exact ⟨mkE c :: rest, by simp [Rs.collect, e, e2], by simp [hE, m2]⟩

/-- proof of the one-step equation of a translated `next` loop (the same script for both iterators) -/
macro "next_step_tac" loop:ident : tactic =>
  `(tactic| (
    rename_i iv f ns c
    obtain ⟨civ, cv, cmx, ch, cl, cr⟩ := c
    have hi := intersect_eq_model iv civ cv
    by_cases h1 : iv.1 < cmx <;> by_cases h2 : iv.2 > civ.1 <;>
      cases h3 : Avl.intersect (qOf iv) (entryOf ⟨civ, cv, cmx, ch, cl, cr⟩) <;>
      cases cl <;> cases cr <;>
      (simp only [entryOf, qOf] at h3) <;>
      simp [$loop:ident, pushN, hi, h1, h2, h3, entryOf, qOf]))

theorem iterNext_zero (iv : Int × Int) (f : Nat) : iterNext_loop1 (f + 1) ⟨[], iv⟩ = ok (none, ⟨[], iv⟩) := by
  simp [iterNext_loop1]

theorem iterNext_step (iv : Int × Int) (f : Nat) (ns : List Node) (c : Node) :
    iterNext_loop1 (f + 1) ⟨ns ++ [c], iv⟩ =
      if iv.1 < c.max then
        if iv.2 > c.interval.1 then
          if Avl.intersect (qOf iv) (entryOf c) = true then
            ok (some ⟨c.value, c.interval⟩, ⟨pushN c.right (pushN c.left ns), iv⟩)
          else iterNext_loop1 f ⟨pushN c.right (pushN c.left ns), iv⟩
        else iterNext_loop1 f ⟨pushN c.left ns, iv⟩
      else iterNext_loop1 f ⟨ns, iv⟩ := by
  next_step_tac iterNext_loop1

theorem iterMutNext_zero (iv : Int × Int) (f : Nat) : iterMutNext_loop1 (f + 1) ⟨[], iv⟩ = ok (none, ⟨[], iv⟩) := by
  simp [iterMutNext_loop1]

theorem iterMutNext_step (iv : Int × Int) (f : Nat) (ns : List Node) (c : Node) :
    iterMutNext_loop1 (f + 1) ⟨ns ++ [c], iv⟩ =
      if iv.1 < c.max then
        if iv.2 > c.interval.1 then
          if Avl.intersect (qOf iv) (entryOf c) = true then
            ok (some ⟨c.value, c.interval⟩, ⟨pushN c.right (pushN c.left ns), iv⟩)
          else iterMutNext_loop1 f ⟨pushN c.right (pushN c.left ns), iv⟩
        else iterMutNext_loop1 f ⟨pushN c.left ns, iv⟩
      else iterMutNext_loop1 f ⟨ns, iv⟩ := by
  next_step_tac iterMutNext_loop1

/-- an `Entry` / `EntryMut` handed out by the iterators, as an entry of the specification -/
def toE (e : SrcAvl.Entry) : Ivl.Entry := ⟨e.interval.1, e.interval.2, e.data⟩
def toEM (e : EntryMut) : Ivl.Entry := ⟨e.interval.1, e.interval.2, e.data⟩

/-- **one call of `IntervalTreeIterator::next` as written in the source = the model's loop up to its next report**: with
`weight (stack) < fuel` the call does not panic and does not run out of fuel; it returns `None` exactly when the model's
`findLoop` has nothing more to report, and otherwise the entry the model reports next, leaving the stack from which the
model continues -/
theorem iterNext_eq_model (iv : Int × Int) (F : Nat) (ns : List Node) (hw : W ns < F) :
    ∃ r ns', iterNext F ⟨ns, iv⟩ = ok (r, ⟨ns', iv⟩) ∧ W ns' ≤ W ns ∧
      ((r = none ∧ findLoop (qOf iv) (stackOf ns) = []) ∨
        ∃ c, r = some ⟨c.value, c.interval⟩ ∧
          findLoop (qOf iv) (stackOf ns) = entryOf c :: findLoop (qOf iv) (stackOf ns')) := by
  have := loop_spec iterNext_loop1 (fun ns => ⟨ns, iv⟩) (fun c => ⟨c.value, c.interval⟩) iv
    (iterNext_zero iv) (iterNext_step iv) F ns hw
  simpa [iterNext] using this

theorem iterMutNext_eq_model (iv : Int × Int) (F : Nat) (ns : List Node) (hw : W ns < F) :
    ∃ r ns', iterMutNext F ⟨ns, iv⟩ = ok (r, ⟨ns', iv⟩) ∧ W ns' ≤ W ns ∧
      ((r = none ∧ findLoop (qOf iv) (stackOf ns) = []) ∨
        ∃ c, r = some ⟨c.value, c.interval⟩ ∧
          findLoop (qOf iv) (stackOf ns) = entryOf c :: findLoop (qOf iv) (stackOf ns')) := by
  have := loop_spec iterMutNext_loop1 (fun ns => ⟨ns, iv⟩) (fun c => ⟨c.value, c.interval⟩) iv
    (iterMutNext_zero iv) (iterMutNext_step iv) F ns hw
  simpa [iterMutNext] using this

/-! ## `find` / `find_mut` and the drained iterators -/

theorem find_init (T : IntervalTree) (iv : Int × Int) : treeFind T iv = ok ⟨pushN T.root [], iv⟩ := by
  obtain ⟨root⟩ := T
  cases root <;> simp [treeFind, pushN]

theorem findMut_init (T : IntervalTree) (iv : Int × Int) : treeFindMut T iv = ok (⟨pushN T.root [], iv⟩, T) := by
  obtain ⟨root⟩ := T
  cases root <;> simp [treeFindMut, pushN]

/-- `tree.find(q).collect()` through the translated `find` and `next` -/
def srcFind (F : Nat) (T : IntervalTree) (iv : Int × Int) : Res (List SrcAvl.Entry) :=
  treeFind T iv >>= fun it => Rs.collect (iterNext F) F it

/-- `tree.find_mut(q).collect()` through the translated `find_mut` and `next` -/
def srcFindMut (F : Nat) (T : IntervalTree) (iv : Int × Int) : Res (List EntryMut) :=
  treeFindMut T iv >>= fun p => Rs.collect (iterMutNext F) F p.1

theorem findLoop_length_le (q : Query) : ∀ (s : List Tree), (findLoop q s).length ≤ weight s := by
  intro s
  fun_induction findLoop q s with
  | case1 => simp
  | case2 s ih => simp only [weight, size]; omega
  | case3 l e mx h r s h1 h2 h3 ih =>
    have := weight_push r (push l s); have := weight_push l s
    simp only [List.length_cons, weight, size]; omega
  | case4 l e mx h r s h1 h2 h3 ih =>
    have := weight_push r (push l s); have := weight_push l s
    simp only [weight, size]; omega
  | case5 l e mx h r s h1 h2 ih =>
    have := weight_push l s
    simp only [weight, size]; omega
  | case6 l e mx h r s h1 ih => simp only [weight, size]; omega

theorem W_root (o : Option Node) : W (pushN o []) ≤ 2 * size (toTreeO o) + 1 := by
  have := W_pushN o []
  simpa [W, stackOf, weight] using this

theorem find_stack (o : Option Node) (q : Query) : Avl.find (toTreeO o) q = findLoop q (stackOf (pushN o [])) := by
  unfold Avl.find
  rw [← push_stackOf]; rfl

/-- **`find(q)` drained through the translated `next` = the model's `find`**, in the order the model reports -/
theorem find_eq_model (F : Nat) (T : IntervalTree) (iv : Int × Int) (hF : 2 * size (toTreeO T.root) + 1 < F) :
    ∃ res, srcFind F T iv = ok res ∧ res.map toE = Avl.find (toTreeO T.root) (qOf iv) := by
  have hw := W_root T.root
  have hlen := findLoop_length_le (qOf iv) (stackOf (pushN T.root []))
  obtain ⟨res, h1, h2⟩ := collect_spec (fun f s => iterNext f s) (fun ns => (⟨ns, iv⟩ : IntervalTreeIterator))
    (fun c => ⟨c.value, c.interval⟩) toE (fun c => rfl) iv F
    (fun ns hns => iterNext_eq_model iv F ns hns) F (pushN T.root []) (by omega) (by unfold W at hw; omega)
  refine ⟨res, ?_, ?_⟩
  · simp only [srcFind, find_init, Res.ok_bind]; exact h1
  · rw [h2, find_stack]

theorem findMut_eq_model (F : Nat) (T : IntervalTree) (iv : Int × Int) (hF : 2 * size (toTreeO T.root) + 1 < F) :
    ∃ res, srcFindMut F T iv = ok res ∧ res.map toEM = Avl.find (toTreeO T.root) (qOf iv) := by
  have hw := W_root T.root
  have hlen := findLoop_length_le (qOf iv) (stackOf (pushN T.root []))
  obtain ⟨res, h1, h2⟩ := collect_spec (fun f s => iterMutNext f s) (fun ns => (⟨ns, iv⟩ : IntervalTreeIteratorMut))
    (fun c => ⟨c.value, c.interval⟩) toEM (fun c => rfl) iv F
    (fun ns hns => iterMutNext_eq_model iv F ns hns) F (pushN T.root []) (by omega) (by unfold W at hw; omega)
  refine ⟨res, ?_, ?_⟩
  · simp only [srcFindMut, findMut_init, Res.ok_bind]; exact h1
  · rw [h2, find_stack]

/-! ## end to end on the source text: any history through the translated `insert`, then the translated iterators -/

theorem good_nil' : Good (toTreeO (none : Option Node)) := by rw [toTreeO_none]; exact good_nil

/-- the tree the translated `insert` builds from the empty tree, as a model tree -/
theorem srcBuild_default (F : Nat) (es : List (Int × Int × Int)) (hn : es.length < 2 ^ 60) (hF : es.length ≤ F) :
    ∃ T, (treeDefault >>= srcBuild nodeInsert_goLeft F es) = ok T ∧
      toTreeO T.root = buildG srcTb (entriesOf es) := by
  obtain ⟨T, h1, h2⟩ := srcBuild_eq_model nodeInsert_goLeft srcTb holeIs_src F es ⟨none⟩ good_nil'
    (by simp [size]; omega) (by simp [size]; omega)
  refine ⟨T, ?_, ?_⟩
  · rw [treeDefault_eq, Res.ok_bind]; exact h1
  · rw [h2]; rfl

theorem size_buildG (tb : TieBreak) (es : List Ivl.Entry) (t : Tree) :
    size (es.foldl (insertG tb) t) = size t + es.length := by
  induction es generalizing t with
  | nil => rfl
  | cons e es ih => simp only [List.foldl_cons, ih, size_insertG, List.length_cons]; omega

end RbV.GenSrcAvl
